// Package verifrt is the harness runtime of the /verif checks. Under the symbolic engine (gosx) every
// function here is intercepted; compiled natively the same functions read a concrete assignment from
// $VERIF_REPLAY so that a counterexample (or a path witness) found by the solver can be replayed against
// the real build.
package verifrt

import (
	"encoding/json"
	"fmt"
	"os"
	"reflect"
	"runtime/debug"
	"strconv"
	"strings"
	"sync"
)

type Case struct {
	Entry  string            `json:"entry"`
	Inputs map[string]uint64 `json:"inputs"`
	Sched  []uint64          `json:"sched,omitempty"`
	Params map[string]int    `json:"params,omitempty"`
}

var (
	mu      sync.Mutex
	cur     *Case
	nameCnt map[string]int
	obs     []string
	missing []string
)

type skip struct{ why string }
type assertFail struct{ id string }

func fresh(name string) string {
	n := nameCnt[name]
	nameCnt[name] = n + 1
	if n == 0 {
		return name
	}
	return name + "#" + strconv.Itoa(n)
}

func get(name string) uint64 {
	mu.Lock()
	defer mu.Unlock()
	if cur == nil {
		panic("verifrt: Nondet* called outside a replay")
	}
	v, ok := cur.Inputs[name]
	if !ok {
		missing = append(missing, name)
	}
	return v
}

func nondet(name string) uint64 {
	mu.Lock()
	n := fresh(name)
	mu.Unlock()
	return get(n)
}

func NondetBool(name string) bool  { return nondet(name) != 0 }
func NondetU8(name string) uint8   { return uint8(nondet(name)) }
func NondetU16(name string) uint16 { return uint16(nondet(name)) }
func NondetU32(name string) uint32 { return uint32(nondet(name)) }
func NondetU64(name string) uint64 { return nondet(name) }
func NondetI64(name string) int64  { return int64(nondet(name)) }
func NondetI32(name string) int32  { return int32(nondet(name)) }
func NondetInt(name string) int    { return int(nondet(name)) }

// NondetRange returns a value in [lo,hi]; the engine forks one path per value.
func NondetRange(name string, lo, hi int) int {
	v := int(int64(nondet(name)))
	if v < lo || v > hi {
		panic(skip{"NondetRange out of range"})
	}
	return v
}

// NondetBytes returns n bytes with symbolic contents.
func NondetBytes(name string, n int) []byte {
	mu.Lock()
	base := fresh(name)
	mu.Unlock()
	b := make([]byte, n)
	for i := range b {
		b[i] = byte(get(base + "[" + strconv.Itoa(i) + "]"))
	}
	return b
}

func NondetString(name string, n int) string { return string(NondetBytes(name, n)) }

// Choose returns a symbolic index in [0,n) (no fork until it is used as a shape).
func Choose(name string, n int) int {
	v := int(nondet(name))
	if v < 0 || v >= n {
		panic(skip{"Choose out of range"})
	}
	return v
}

func Assume(cond bool) {
	if !cond {
		panic(skip{"assumption false"})
	}
}

func Assert(id string, cond bool) {
	if !cond {
		panic(assertFail{id})
	}
}

func Reach(id string) {}

// OneOf reports whether b is one of the bytes of set (a disjunction the engine builds without forking).
func OneOf(b byte, set string) bool { return strings.IndexByte(set, b) >= 0 }

// Observe records a value for translator validation: the engine predicts it under the path witness and the
// native run must print the same text.
func Observe(name string, v any) {
	mu.Lock()
	defer mu.Unlock()
	obs = append(obs, name+"="+Show(v))
}

func Yield() {}
func Drain() {}

// Symbolic reports whether the harness runs under the symbolic engine.
func Symbolic() bool { return false }

func Concretize(v uint64) uint64 { return v }
func IsConcrete(v any) bool      { return true }

func Ite(c bool, a, b uint64) uint64 {
	if c {
		return a
	}
	return b
}

// Param returns a tier parameter from the harness spec.
func Param(name string, def int) int {
	mu.Lock()
	defer mu.Unlock()
	if cur != nil {
		if v, ok := cur.Params[name]; ok {
			return v
		}
	}
	return def
}

// HashHook lets a harness install the real hash for HashUF when running natively.
var HashHook func(algo string, data []byte, n int) []byte

// HashUF is what hash stubs reduce to under the engine (an uninterpreted function per algorithm and
// length); natively it calls HashHook.
func HashUF(algo string, data []byte, n int) []byte {
	if HashHook == nil {
		panic("verifrt.HashUF: no native HashHook installed")
	}
	return HashHook(algo, data, n)
}

func Fatalf(format string, args ...any) { panic(fmt.Sprintf(format, args...)) }

// Show renders a value the way the engine's evaluator does.
func Show(v any) string {
	var sb strings.Builder
	show(&sb, reflect.ValueOf(v))
	return sb.String()
}

func show(sb *strings.Builder, v reflect.Value) {
	if !v.IsValid() {
		sb.WriteString("<nil>")
		return
	}
	switch v.Kind() {
	case reflect.Bool:
		fmt.Fprintf(sb, "%v", v.Bool())
	case reflect.Int, reflect.Int8, reflect.Int16, reflect.Int32, reflect.Int64:
		bits := v.Type().Bits()
		u := uint64(v.Int())
		if bits < 64 {
			u &= (1 << uint(bits)) - 1
		}
		fmt.Fprintf(sb, "%d", u)
	case reflect.Uint, reflect.Uint8, reflect.Uint16, reflect.Uint32, reflect.Uint64, reflect.Uintptr:
		fmt.Fprintf(sb, "%d", v.Uint())
	case reflect.String:
		fmt.Fprintf(sb, "%q", v.String())
	case reflect.Slice, reflect.Array:
		sb.WriteString("[")
		for i := 0; i < v.Len(); i++ {
			if i > 0 {
				sb.WriteString(" ")
			}
			show(sb, v.Index(i))
		}
		sb.WriteString("]")
	case reflect.Struct:
		sb.WriteString("{")
		for i := 0; i < v.NumField(); i++ {
			if i > 0 {
				sb.WriteString(" ")
			}
			show(sb, v.Field(i))
		}
		sb.WriteString("}")
	case reflect.Interface, reflect.Pointer:
		if v.IsNil() {
			sb.WriteString("<nil>")
			return
		}
		show(sb, v.Elem())
	default:
		fmt.Fprintf(sb, "<%s>", v.Kind())
	}
}

// Result of one native run.
type Result struct {
	Status  string   `json:"status"` // ok | assume-fail | assert-fail | panic
	Assert  string   `json:"assert,omitempty"`
	Panic   string   `json:"panic,omitempty"`
	Obs     []string `json:"obs,omitempty"`
	Missing []string `json:"missing,omitempty"`
}

// RunCase executes one entry natively under the given assignment.
func RunCase(c *Case, entries map[string]func()) (res Result) {
	mu.Lock()
	cur = c
	nameCnt = map[string]int{}
	obs = nil
	missing = nil
	mu.Unlock()
	f, ok := entries[c.Entry]
	if !ok {
		return Result{Status: "panic", Panic: "no such entry " + c.Entry}
	}
	defer func() {
		r := recover()
		mu.Lock()
		res.Obs = obs
		res.Missing = missing
		cur = nil
		mu.Unlock()
		switch r := r.(type) {
		case nil:
			res.Status = "ok"
		case skip:
			res.Status = "assume-fail"
			res.Panic = r.why
		case assertFail:
			res.Status = "assert-fail"
			res.Assert = r.id
		default:
			res.Status = "panic"
			res.Panic = fmt.Sprintf("%v\n%s", r, debug.Stack())
		}
	}()
	f()
	return
}

// Main is called by the generated replay test: it reads $VERIF_REPLAY (a JSON list of cases), runs each and
// writes the results as JSON lines prefixed with "VERIF-RESULT ".
func Main(entries map[string]func()) {
	path := os.Getenv("VERIF_REPLAY")
	data, err := os.ReadFile(path)
	if err != nil {
		fmt.Println("VERIF-ERROR cannot read replay file:", err)
		return
	}
	var cases []*Case
	if err := json.Unmarshal(data, &cases); err != nil {
		fmt.Println("VERIF-ERROR bad replay file:", err)
		return
	}
	for i, c := range cases {
		r := RunCase(c, entries)
		b, _ := json.Marshal(r)
		fmt.Printf("VERIF-RESULT %d %s\n", i, b)
	}
}
