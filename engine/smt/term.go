// Package smt: hash-consed bit-vector/bool term DAG with constant folding, and
// an SMT-LIB2 printer that shares sub-terms through define-fun.
package smt

import (
	"fmt"
	"math/bits"
	"strconv"
	"strings"
)

type Op uint8

const (
	OpConst Op = iota
	OpVar
	OpNot
	OpAnd
	OpOr
	OpIte
	OpEq
	OpBvAdd
	OpBvSub
	OpBvMul
	OpBvUDiv
	OpBvURem
	OpBvSDiv
	OpBvSRem
	OpBvAnd
	OpBvOr
	OpBvXor
	OpBvShl
	OpBvLShr
	OpBvAShr
	OpBvNeg
	OpBvNot
	OpUlt
	OpUle
	OpSlt
	OpSle
	OpConcat
	OpExtract // C=hi, C2=lo
	OpZExt    // to width W
	OpSExt
	OpUF     // Name, args
	OpSelect // table lookup: Name = table id, args[0] index
)

var opNames = map[Op]string{
	OpNot: "not", OpAnd: "and", OpOr: "or", OpIte: "ite", OpEq: "=",
	OpBvAdd: "bvadd", OpBvSub: "bvsub", OpBvMul: "bvmul", OpBvUDiv: "bvudiv", OpBvURem: "bvurem",
	OpBvSDiv: "bvsdiv", OpBvSRem: "bvsrem", OpBvAnd: "bvand", OpBvOr: "bvor", OpBvXor: "bvxor",
	OpBvShl: "bvshl", OpBvLShr: "bvlshr", OpBvAShr: "bvashr", OpBvNeg: "bvneg", OpBvNot: "bvnot",
	OpUlt: "bvult", OpUle: "bvule", OpSlt: "bvslt", OpSle: "bvsle", OpConcat: "concat",
}

// Term is an immutable node. W==0 means Bool, otherwise a bit-vector of width W (1..64 supported
// for constants; wider vectors only arise through Concat for UF arguments and are never folded).
type Term struct {
	ID   int
	Op   Op
	W    int
	Args []*Term
	C    uint64
	C2   int
	Name string
	HasUF bool
}

func (t *Term) IsConst() bool { return t.Op == OpConst }
func (t *Term) IsBool() bool  { return t.W == 0 }

// Table is a constant lookup table used by OpSelect (modelled as an SMT array).
type Table struct {
	Name string
	IdxW int
	ValW int
	Vals []uint64
}

// UFDecl is an uninterpreted function declaration.
type UFDecl struct {
	Name string
	ArgW []int
	ResW int
}

type Pool struct {
	byKey  map[string]*Term
	nextID int
	Vars   []*Term
	Tables map[string]*Table
	UFs    map[string]*UFDecl
	UFApps map[string][]*Term // name -> applications (for injectivity instantiation)
	True   *Term
	False  *Term
}

func NewPool() *Pool {
	p := &Pool{byKey: map[string]*Term{}, Tables: map[string]*Table{}, UFs: map[string]*UFDecl{}, UFApps: map[string][]*Term{}}
	p.True = p.mk(&Term{Op: OpConst, W: 0, C: 1})
	p.False = p.mk(&Term{Op: OpConst, W: 0, C: 0})
	return p
}

func (p *Pool) mk(t *Term) *Term {
	var sb strings.Builder
	sb.WriteByte(byte(t.Op) + 'A')
	sb.WriteString(strconv.Itoa(t.W))
	sb.WriteByte(':')
	sb.WriteString(strconv.FormatUint(t.C, 16))
	sb.WriteByte(':')
	sb.WriteString(strconv.Itoa(t.C2))
	sb.WriteByte(':')
	sb.WriteString(t.Name)
	for _, a := range t.Args {
		sb.WriteByte(',')
		sb.WriteString(strconv.Itoa(a.ID))
	}
	k := sb.String()
	if e, ok := p.byKey[k]; ok {
		return e
	}
	t.ID = p.nextID
	if t.Op == OpUF {
		t.HasUF = true
	}
	for _, a := range t.Args {
		if a.HasUF {
			t.HasUF = true
		}
	}
	p.nextID++
	p.byKey[k] = t
	return t
}

func Mask(w int) uint64 {
	if w >= 64 {
		return ^uint64(0)
	}
	return (uint64(1) << uint(w)) - 1
}

func SignExt(v uint64, w int) int64 {
	if w >= 64 {
		return int64(v)
	}
	sh := uint(64 - w)
	return int64(v<<sh) >> sh
}

func (p *Pool) Const(v uint64, w int) *Term {
	if w == 0 {
		if v != 0 {
			return p.True
		}
		return p.False
	}
	return p.mk(&Term{Op: OpConst, W: w, C: v & Mask(w)})
}

func (p *Pool) Bool(b bool) *Term {
	if b {
		return p.True
	}
	return p.False
}

// Var returns the (unique) variable with this name and width.
func (p *Pool) Var(name string, w int) *Term {
	n := len(p.byKey)
	t := p.mk(&Term{Op: OpVar, W: w, Name: name})
	if len(p.byKey) != n {
		p.Vars = append(p.Vars, t)
	}
	return t
}

func (p *Pool) Not(a *Term) *Term {
	if a.IsConst() {
		return p.Bool(a.C == 0)
	}
	if a.Op == OpNot {
		return a.Args[0]
	}
	return p.mk(&Term{Op: OpNot, W: 0, Args: []*Term{a}})
}

func (p *Pool) And(a, b *Term) *Term {
	if a.IsConst() {
		if a.C == 0 {
			return p.False
		}
		return b
	}
	if b.IsConst() {
		if b.C == 0 {
			return p.False
		}
		return a
	}
	if a == b {
		return a
	}
	return p.mk(&Term{Op: OpAnd, W: 0, Args: []*Term{a, b}})
}

func (p *Pool) Or(a, b *Term) *Term {
	if a.IsConst() {
		if a.C != 0 {
			return p.True
		}
		return b
	}
	if b.IsConst() {
		if b.C != 0 {
			return p.True
		}
		return a
	}
	if a == b {
		return a
	}
	return p.mk(&Term{Op: OpOr, W: 0, Args: []*Term{a, b}})
}

func (p *Pool) Ite(c, a, b *Term) *Term {
	if c.IsConst() {
		if c.C != 0 {
			return a
		}
		return b
	}
	if a == b {
		return a
	}
	if a.W != b.W {
		panic(fmt.Sprintf("smt.Ite width mismatch %d %d", a.W, b.W))
	}
	if a.W == 0 {
		if a.IsConst() && b.IsConst() {
			if a.C != 0 {
				return c
			}
			return p.Not(c)
		}
		if a.IsConst() {
			if a.C != 0 {
				return p.Or(c, b)
			}
			return p.And(p.Not(c), b)
		}
		if b.IsConst() {
			if b.C != 0 {
				return p.Or(p.Not(c), a)
			}
			return p.And(c, a)
		}
	}
	return p.mk(&Term{Op: OpIte, W: a.W, Args: []*Term{c, a, b}})
}

func (p *Pool) Eq(a, b *Term) *Term {
	if a == b {
		return p.True
	}
	if a.W != b.W {
		panic(fmt.Sprintf("smt.Eq width mismatch %d %d", a.W, b.W))
	}
	if a.IsConst() && b.IsConst() {
		return p.Bool(a.C == b.C)
	}
	if a.W == 0 {
		if a.IsConst() {
			a, b = b, a
		}
		if b.IsConst() {
			if b.C != 0 {
				return a
			}
			return p.Not(a)
		}
	}
	// eq(ite(c,k1,k2), k) with constants
	if b.IsConst() && a.Op == OpIte && a.Args[1].IsConst() && a.Args[2].IsConst() {
		return p.Ite(a.Args[0], p.Bool(a.Args[1].C == b.C), p.Bool(a.Args[2].C == b.C))
	}
	if a.IsConst() && b.Op == OpIte && b.Args[1].IsConst() && b.Args[2].IsConst() {
		return p.Ite(b.Args[0], p.Bool(b.Args[1].C == a.C), p.Bool(b.Args[2].C == a.C))
	}
	if a.ID > b.ID {
		a, b = b, a
	}
	return p.mk(&Term{Op: OpEq, W: 0, Args: []*Term{a, b}})
}

func foldBin(op Op, x, y uint64, w int) (uint64, bool) {
	m := Mask(w)
	switch op {
	case OpBvAdd:
		return (x + y) & m, true
	case OpBvSub:
		return (x - y) & m, true
	case OpBvMul:
		return (x * y) & m, true
	case OpBvUDiv:
		if y == 0 {
			return m, true
		}
		return x / y, true
	case OpBvURem:
		if y == 0 {
			return x, true
		}
		return x % y, true
	case OpBvSDiv:
		sx, sy := SignExt(x, w), SignExt(y, w)
		if sy == 0 {
			if sx < 0 {
				return 1, true
			}
			return m, true
		}
		if sy == -1 {
			return uint64(-sx) & m, true
		}
		return uint64(sx/sy) & m, true
	case OpBvSRem:
		sx, sy := SignExt(x, w), SignExt(y, w)
		if sy == 0 {
			return x, true
		}
		if sy == -1 {
			return 0, true
		}
		return uint64(sx%sy) & m, true
	case OpBvAnd:
		return x & y, true
	case OpBvOr:
		return x | y, true
	case OpBvXor:
		return x ^ y, true
	case OpBvShl:
		if y >= uint64(w) {
			return 0, true
		}
		return (x << y) & m, true
	case OpBvLShr:
		if y >= uint64(w) {
			return 0, true
		}
		return x >> y, true
	case OpBvAShr:
		sx := SignExt(x, w)
		if y >= uint64(w) {
			y = uint64(w - 1)
		}
		return uint64(sx>>y) & m, true
	}
	return 0, false
}

// Bin builds a width-preserving binary bit-vector operation.
// pow2Log reports k when b is the constant 2^k (k >= 1) of width w <= 64.
func pow2Log(b *Term, w int) (int, bool) {
	if !b.IsConst() || w > 64 {
		return 0, false
	}
	c := b.C & Mask(w)
	if c < 2 || c&(c-1) != 0 {
		return 0, false
	}
	k := 0
	for c > 1 {
		c >>= 1
		k++
	}
	return k, true
}

func (p *Pool) Bin(op Op, a, b *Term) *Term {
	if a.W != b.W || a.W == 0 {
		panic(fmt.Sprintf("smt.Bin %s width mismatch %d %d", opNames[op], a.W, b.W))
	}
	if a.IsConst() && b.IsConst() && a.W <= 64 {
		if v, ok := foldBin(op, a.C, b.C, a.W); ok {
			return p.Const(v, a.W)
		}
	}
	w := a.W
	switch op {
	case OpBvAdd:
		if a.IsConst() && a.C == 0 {
			return b
		}
		if b.IsConst() && b.C == 0 {
			return a
		}
		if a.IsConst() { // canonical: constant on the right
			a, b = b, a
		}
		// (x + c1) + c2
		if b.IsConst() && a.Op == OpBvAdd && a.Args[1].IsConst() {
			return p.Bin(OpBvAdd, a.Args[0], p.Const(a.Args[1].C+b.C, w))
		}
	case OpBvSub:
		if b.IsConst() && b.C == 0 {
			return a
		}
		if a == b {
			return p.Const(0, w)
		}
		if b.IsConst() {
			return p.Bin(OpBvAdd, a, p.Const(-b.C, w))
		}
	case OpBvMul:
		if a.IsConst() {
			a, b = b, a
		}
		if b.IsConst() {
			if b.C == 0 {
				return b
			}
			if b.C == 1 {
				return a
			}
		}
	case OpBvAnd:
		if a.IsConst() {
			a, b = b, a
		}
		if b.IsConst() {
			if b.C == 0 {
				return b
			}
			if b.C == Mask(w) {
				return a
			}
		}
		if a == b {
			return a
		}
	case OpBvOr:
		if a.IsConst() {
			a, b = b, a
		}
		if b.IsConst() {
			if b.C == 0 {
				return a
			}
			if b.C == Mask(w) {
				return b
			}
		}
		if a == b {
			return a
		}
	case OpBvXor:
		if a.IsConst() {
			a, b = b, a
		}
		if b.IsConst() && b.C == 0 {
			return a
		}
		if a == b {
			return p.Const(0, w)
		}
	case OpBvShl, OpBvLShr, OpBvAShr:
		if b.IsConst() && b.C == 0 {
			return a
		}
		if a.IsConst() && a.C == 0 {
			return a
		}
		if b.IsConst() && b.C >= uint64(w) && op != OpBvAShr {
			return p.Const(0, w)
		}
	case OpBvUDiv:
		if b.IsConst() && b.C == 1 {
			return a
		}
		// strength reduction: x /u 2^k = x >>u k (a divider circuit costs z3 10-60 s per query)
		if k, ok := pow2Log(b, w); ok {
			return p.Bin(OpBvLShr, a, p.Const(uint64(k), w))
		}
	case OpBvURem:
		if k, ok := pow2Log(b, w); ok {
			return p.Bin(OpBvAnd, a, p.Const(uint64(1)<<uint(k)-1, w))
		}
	case OpBvSDiv:
		if b.IsConst() && b.C == 1 {
			return a
		}
		if k, ok := pow2Log(b, w); ok && k >= 1 && k <= w-2 {
			if a.Op == OpZExt && a.Args[0].W < w {
				// dividend known non-negative
				return p.Bin(OpBvLShr, a, p.Const(uint64(k), w))
			}
			// truncating division: (x + ((x >>s (w-1)) >>u (w-k))) >>s k
			sign := p.Bin(OpBvAShr, a, p.Const(uint64(w-1), w))
			bias := p.Bin(OpBvLShr, sign, p.Const(uint64(w-k), w))
			return p.Bin(OpBvAShr, p.Bin(OpBvAdd, a, bias), p.Const(uint64(k), w))
		}
	case OpBvSRem:
		if k, ok := pow2Log(b, w); ok && k >= 1 && k <= w-2 && a.Op == OpZExt && a.Args[0].W < w {
			return p.Bin(OpBvAnd, a, p.Const(uint64(1)<<uint(k)-1, w))
		}
	}
	return p.mk(&Term{Op: op, W: w, Args: []*Term{a, b}})
}

func (p *Pool) Neg(a *Term) *Term {
	if a.IsConst() {
		return p.Const(-a.C, a.W)
	}
	return p.mk(&Term{Op: OpBvNeg, W: a.W, Args: []*Term{a}})
}

func (p *Pool) BvNot(a *Term) *Term {
	if a.IsConst() {
		return p.Const(^a.C, a.W)
	}
	if a.Op == OpBvNot {
		return a.Args[0]
	}
	return p.mk(&Term{Op: OpBvNot, W: a.W, Args: []*Term{a}})
}

// Cmp builds ult/ule/slt/sle.
func (p *Pool) Cmp(op Op, a, b *Term) *Term {
	if a.W != b.W || a.W == 0 {
		panic(fmt.Sprintf("smt.Cmp width mismatch %d %d", a.W, b.W))
	}
	if a.IsConst() && b.IsConst() {
		switch op {
		case OpUlt:
			return p.Bool(a.C < b.C)
		case OpUle:
			return p.Bool(a.C <= b.C)
		case OpSlt:
			return p.Bool(SignExt(a.C, a.W) < SignExt(b.C, b.W))
		case OpSle:
			return p.Bool(SignExt(a.C, a.W) <= SignExt(b.C, b.W))
		}
	}
	if a == b {
		return p.Bool(op == OpUle || op == OpSle)
	}
	if op == OpUlt && b.IsConst() && b.C == 0 {
		return p.False
	}
	if op == OpUle && a.IsConst() && a.C == 0 {
		return p.True
	}
	// zero-extended operand against a constant outside its range
	if b.IsConst() && a.Op == OpZExt {
		iw := a.Args[0].W
		if (op == OpUlt && b.C > Mask(iw)) || (op == OpUle && b.C >= Mask(iw)) {
			return p.True
		}
		if SignExt(b.C, b.W) >= 0 && iw < a.W {
			if (op == OpSlt && b.C > Mask(iw)) || (op == OpSle && b.C >= Mask(iw)) {
				return p.True
			}
		}
	}
	return p.mk(&Term{Op: op, W: 0, Args: []*Term{a, b}})
}

func (p *Pool) Extract(a *Term, hi, lo int) *Term {
	w := hi - lo + 1
	if lo == 0 && w == a.W {
		return a
	}
	if a.IsConst() && a.W <= 64 {
		return p.Const(a.C>>uint(lo), w)
	}
	switch a.Op {
	case OpZExt, OpSExt:
		in := a.Args[0]
		if hi < in.W {
			return p.Extract(in, hi, lo)
		}
		if a.Op == OpZExt && lo >= in.W {
			return p.Const(0, w)
		}
	case OpExtract:
		return p.Extract(a.Args[0], hi+a.C2, lo+a.C2)
	case OpConcat:
		// args[0] is high part
		lw := a.Args[1].W
		if hi < lw {
			return p.Extract(a.Args[1], hi, lo)
		}
		if lo >= lw {
			return p.Extract(a.Args[0], hi-lw, lo-lw)
		}
	}
	return p.mk(&Term{Op: OpExtract, W: w, Args: []*Term{a}, C: uint64(hi), C2: lo})
}

func (p *Pool) ZExt(a *Term, w int) *Term {
	if w == a.W {
		return a
	}
	if w < a.W {
		return p.Extract(a, w-1, 0)
	}
	if a.IsConst() {
		return p.Const(a.C, w)
	}
	if a.Op == OpZExt {
		return p.ZExt(a.Args[0], w)
	}
	return p.mk(&Term{Op: OpZExt, W: w, Args: []*Term{a}})
}

func (p *Pool) SExt(a *Term, w int) *Term {
	if w == a.W {
		return a
	}
	if w < a.W {
		return p.Extract(a, w-1, 0)
	}
	if a.IsConst() {
		return p.Const(uint64(SignExt(a.C, a.W)), w)
	}
	if a.Op == OpZExt && a.Args[0].W < a.W {
		return p.ZExt(a.Args[0], w)
	}
	return p.mk(&Term{Op: OpSExt, W: w, Args: []*Term{a}})
}

// Concat: hi is the most significant part.
func (p *Pool) Concat(hi, lo *Term) *Term {
	w := hi.W + lo.W
	if hi.IsConst() && lo.IsConst() && w <= 64 {
		return p.Const(hi.C<<uint(lo.W)|lo.C, w)
	}
	if hi.IsConst() && hi.C == 0 && w <= 64 {
		return p.ZExt(lo, w)
	}
	return p.mk(&Term{Op: OpConcat, W: w, Args: []*Term{hi, lo}})
}

// DeclareUF registers (idempotently) an uninterpreted function.
func (p *Pool) DeclareUF(name string, argW []int, resW int) *UFDecl {
	if d, ok := p.UFs[name]; ok {
		return d
	}
	d := &UFDecl{Name: name, ArgW: argW, ResW: resW}
	p.UFs[name] = d
	return d
}

func (p *Pool) App(d *UFDecl, args ...*Term) *Term {
	n := len(p.byKey)
	t := p.mk(&Term{Op: OpUF, W: d.ResW, Name: d.Name, Args: args})
	if len(p.byKey) != n {
		p.UFApps[d.Name] = append(p.UFApps[d.Name], t)
	}
	return t
}

func (p *Pool) DeclareTable(name string, idxW, valW int, vals []uint64) *Table {
	if t, ok := p.Tables[name]; ok {
		return t
	}
	t := &Table{Name: name, IdxW: idxW, ValW: valW, Vals: vals}
	p.Tables[name] = t
	return t
}

// Select reads tbl[idx]; idx must have width tbl.IdxW. Out-of-range reads yield 0 (callers guard).
func (p *Pool) Select(tbl *Table, idx *Term) *Term {
	if idx.IsConst() {
		if idx.C < uint64(len(tbl.Vals)) {
			return p.Const(tbl.Vals[idx.C], tbl.ValW)
		}
		return p.Const(0, tbl.ValW)
	}
	return p.mk(&Term{Op: OpSelect, W: tbl.ValW, Name: tbl.Name, Args: []*Term{idx}})
}

// ---------------------------------------------------------------- evaluation under a model

// Eval evaluates t under an assignment of variables (by name). UF applications and missing
// variables evaluate through the callbacks in m.
type Model struct {
	Vars map[string]uint64
	UF   func(t *Term, args []uint64) (uint64, bool)
}

func (p *Pool) Eval(t *Term, m *Model, memo map[int]uint64) uint64 {
	if v, ok := memo[t.ID]; ok {
		return v
	}
	var r uint64
	arg := func(i int) uint64 { return p.Eval(t.Args[i], m, memo) }
	switch t.Op {
	case OpConst:
		r = t.C
	case OpVar:
		r = m.Vars[t.Name] & Mask(max(t.W, 1))
	case OpNot:
		r = 1 - arg(0)
	case OpAnd:
		r = arg(0) & arg(1)
	case OpOr:
		r = arg(0) | arg(1)
	case OpIte:
		if arg(0) != 0 {
			r = arg(1)
		} else {
			r = arg(2)
		}
	case OpEq:
		if arg(0) == arg(1) {
			r = 1
		}
	case OpBvNeg:
		r = (-arg(0)) & Mask(t.W)
	case OpBvNot:
		r = (^arg(0)) & Mask(t.W)
	case OpUlt:
		if arg(0) < arg(1) {
			r = 1
		}
	case OpUle:
		if arg(0) <= arg(1) {
			r = 1
		}
	case OpSlt:
		if SignExt(arg(0), t.Args[0].W) < SignExt(arg(1), t.Args[0].W) {
			r = 1
		}
	case OpSle:
		if SignExt(arg(0), t.Args[0].W) <= SignExt(arg(1), t.Args[0].W) {
			r = 1
		}
	case OpConcat:
		r = arg(0)<<uint(t.Args[1].W) | arg(1)
	case OpExtract:
		r = (arg(0) >> uint(t.C2)) & Mask(t.W)
	case OpZExt:
		r = arg(0)
	case OpSExt:
		r = uint64(SignExt(arg(0), t.Args[0].W)) & Mask(t.W)
	case OpUF:
		as := make([]uint64, len(t.Args))
		for i := range t.Args {
			as[i] = arg(i)
		}
		if m.UF != nil {
			r, _ = m.UF(t, as)
		}
	case OpSelect:
		tb := p.Tables[t.Name]
		i := arg(0)
		if i < uint64(len(tb.Vals)) {
			r = tb.Vals[i]
		}
	default:
		v, ok := foldBin(t.Op, arg(0), arg(1), t.W)
		if !ok {
			panic("smt.Eval: unhandled op")
		}
		r = v
	}
	memo[t.ID] = r
	return r
}

// ---------------------------------------------------------------- printing

func sortStr(w int) string {
	if w == 0 {
		return "Bool"
	}
	return "(_ BitVec " + strconv.Itoa(w) + ")"
}

func constStr(t *Term) string {
	if t.W == 0 {
		if t.C != 0 {
			return "true"
		}
		return "false"
	}
	if t.W%4 == 0 {
		s := strconv.FormatUint(t.C, 16)
		return "#x" + strings.Repeat("0", t.W/4-len(s)) + s
	}
	s := strconv.FormatUint(t.C, 2)
	return "#b" + strings.Repeat("0", t.W-len(s)) + s
}

func VarName(t *Term) string { return "|" + t.Name + "|" }

func ref(t *Term) string {
	switch t.Op {
	case OpConst:
		return constStr(t)
	case OpVar:
		return VarName(t)
	}
	return "t" + strconv.Itoa(t.ID)
}

// body prints the defining expression of a non-leaf term in terms of refs to its children.
func body(t *Term) string {
	var sb strings.Builder
	switch t.Op {
	case OpExtract:
		fmt.Fprintf(&sb, "((_ extract %d %d) %s)", t.C, t.C2, ref(t.Args[0]))
	case OpZExt:
		fmt.Fprintf(&sb, "((_ zero_extend %d) %s)", t.W-t.Args[0].W, ref(t.Args[0]))
	case OpSExt:
		fmt.Fprintf(&sb, "((_ sign_extend %d) %s)", t.W-t.Args[0].W, ref(t.Args[0]))
	case OpUF:
		if len(t.Args) == 0 {
			sb.WriteString(t.Name)
			break
		}
		sb.WriteString("(" + t.Name)
		for _, a := range t.Args {
			sb.WriteString(" " + ref(a))
		}
		sb.WriteString(")")
	case OpSelect:
		fmt.Fprintf(&sb, "(select %s %s)", t.Name, ref(t.Args[0]))
	default:
		sb.WriteString("(" + opNames[t.Op])
		for _, a := range t.Args {
			sb.WriteString(" " + ref(a))
		}
		sb.WriteString(")")
	}
	return sb.String()
}

// Size returns the number of distinct nodes reachable from t.
func Size(t *Term) int {
	seen := map[int]bool{}
	var rec func(t *Term)
	rec = func(t *Term) {
		if seen[t.ID] {
			return
		}
		seen[t.ID] = true
		for _, a := range t.Args {
			rec(a)
		}
	}
	rec(t)
	return len(seen)
}

// String renders a term as a nested s-expression (for diagnostics; exponential on shared DAGs, so capped).
func (t *Term) String() string {
	n := 0
	var rec func(t *Term) string
	rec = func(t *Term) string {
		n++
		if n > 400 {
			return "…"
		}
		switch t.Op {
		case OpConst:
			if t.W == 0 {
				return constStr(t)
			}
			return fmt.Sprintf("%d:%d", t.C, t.W)
		case OpVar:
			return t.Name
		}
		var sb strings.Builder
		switch t.Op {
		case OpExtract:
			fmt.Fprintf(&sb, "(extract[%d:%d]", t.C, t.C2)
		case OpZExt:
			fmt.Fprintf(&sb, "(zext%d", t.W)
		case OpSExt:
			fmt.Fprintf(&sb, "(sext%d", t.W)
		case OpUF:
			sb.WriteString("(" + t.Name)
		case OpSelect:
			sb.WriteString("(select " + t.Name)
		default:
			sb.WriteString("(" + opNames[t.Op])
		}
		for _, a := range t.Args {
			sb.WriteString(" " + rec(a))
		}
		sb.WriteString(")")
		return sb.String()
	}
	return rec(t)
}

var _ = bits.Len
