package smt

import (
	"bufio"
	"fmt"
	"io"
	"os"
	"os/exec"
	"strconv"
	"strings"
	"time"
)

type Result int

const (
	Unsat Result = iota
	Sat
	Unknown
)

func (r Result) String() string { return [...]string{"unsat", "sat", "unknown"}[r] }

// Solver drives one long-lived SMT-LIB2 process (z3 -in by default).
type Solver struct {
	P         *Pool
	cmd       *exec.Cmd
	in        io.WriteCloser
	out       *bufio.Reader
	defined   map[int]bool
	treeSize  map[int]int  // term id -> size of the term unfolded as a tree down to the nearest cut points
	cut       map[int]bool // terms emitted as named constants (declare-const + equation) instead of macros
	declVar   map[int]bool
	declUF    map[string]bool
	declTbl   map[string]bool
	levels    [][]func() // undo actions per push level
	asserted  [][]*Term  // assertions per push level (for CheckFresh)
	Log       io.Writer  // optional transcript
	LogMax    int        // stop the transcript after this many check-sat commands (0 = never)
	logged    int
	Errors    int
	Queries   int
	NSat      int
	NUnsat    int
	NUnk      int
	Time      time.Duration
	TimeoutMs int
	Argv      []string
}

func NewSolver(p *Pool, argv []string, timeoutMs int) (*Solver, error) {
	if len(argv) == 0 {
		argv = []string{"z3", "-in"}
	}
	s := &Solver{P: p, TimeoutMs: timeoutMs, Argv: argv}
	if err := s.start(); err != nil {
		return nil, err
	}
	return s, nil
}

func (s *Solver) start() error {
	s.cmd = exec.Command(s.Argv[0], s.Argv[1:]...)
	in, err := s.cmd.StdinPipe()
	if err != nil {
		return err
	}
	out, err := s.cmd.StdoutPipe()
	if err != nil {
		return err
	}
	s.cmd.Stderr = os.Stderr
	if err := s.cmd.Start(); err != nil {
		return err
	}
	s.in = in
	s.out = bufio.NewReaderSize(out, 1<<16)
	s.Reset()
	return nil
}

func (s *Solver) Close() {
	if s.in != nil {
		s.in.Close()
	}
	if s.cmd != nil && s.cmd.Process != nil {
		s.cmd.Process.Kill()
		s.cmd.Wait()
	}
}

func (s *Solver) send(str string) {
	if s.Log != nil {
		io.WriteString(s.Log, str)
	}
	io.WriteString(s.in, str)
}

// Reset clears all assertions and declarations.
func (s *Solver) Reset() {
	s.send("(reset)\n")
	if strings.Contains(s.Argv[0], "z3") {
		s.send(fmt.Sprintf("(set-option :timeout %d)\n", s.TimeoutMs))
	}
	s.defined = map[int]bool{}
	s.declVar = map[int]bool{}
	s.declUF = map[string]bool{}
	s.declTbl = map[string]bool{}
	s.levels = [][]func(){nil}
	s.asserted = [][]*Term{nil}
}

func (s *Solver) undo(f func()) {
	n := len(s.levels) - 1
	if n > 0 {
		s.levels[n] = append(s.levels[n], f)
	}
}

func (s *Solver) Push() {
	s.send("(push 1)\n")
	s.levels = append(s.levels, nil)
	s.asserted = append(s.asserted, nil)
}

func (s *Solver) Pop() {
	s.send("(pop 1)\n")
	n := len(s.levels) - 1
	for _, f := range s.levels[n] {
		f()
	}
	s.levels = s.levels[:n]
	if len(s.asserted) > 1 {
		s.asserted = s.asserted[:len(s.asserted)-1]
	}
}

const cutSize = 30

// define emits declarations/definitions for every node under t not yet known to the solver.
func (s *Solver) define(t *Term) {
	var sb strings.Builder
	var rec func(t *Term)
	rec = func(t *Term) {
		switch t.Op {
		case OpConst:
			return
		case OpVar:
			if !s.declVar[t.ID] {
				s.declVar[t.ID] = true
				id := t.ID
				s.undo(func() { delete(s.declVar, id) })
				fmt.Fprintf(&sb, "(declare-const %s %s)\n", VarName(t), sortStr(t.W))
			}
			return
		}
		if s.defined[t.ID] {
			return
		}
		for _, a := range t.Args {
			rec(a)
		}
		if t.Op == OpUF && !s.declUF[t.Name] {
			s.declUF[t.Name] = true
			name := t.Name
			s.undo(func() { delete(s.declUF, name) })
			d := s.P.UFs[t.Name]
			fmt.Fprintf(&sb, "(declare-fun %s (", d.Name)
			for _, w := range d.ArgW {
				sb.WriteString(sortStr(w) + " ")
			}
			fmt.Fprintf(&sb, ") %s)\n", sortStr(d.ResW))
		}
		if t.Op == OpSelect && !s.declTbl[t.Name] {
			s.declTbl[t.Name] = true
			name := t.Name
			s.undo(func() { delete(s.declTbl, name) })
			tb := s.P.Tables[t.Name]
			fmt.Fprintf(&sb, "(declare-const %s (Array %s %s))\n", tb.Name, sortStr(tb.IdxW), sortStr(tb.ValW))
			for i, v := range tb.Vals {
				fmt.Fprintf(&sb, "(assert (= (select %s %s) %s))\n", tb.Name,
					constStr(&Term{W: tb.IdxW, C: uint64(i)}), constStr(&Term{W: tb.ValW, C: v}))
			}
		}
		s.defined[t.ID] = true
		id := t.ID
		s.undo(func() { delete(s.defined, id) })
		// z3 expands nested 0-ary define-fun macros at parse time by walking them as trees: on deep shared
		// DAGs (bits.Len64 chains over varint arithmetic) that costs ~10x the solving time (measured 7.9 s
		// vs 0.6 s on one C17 transcript). Terms whose unfolded size exceeds cutSize therefore become cut
		// points: a declared constant with a defining equation (equisatisfiable, same models for the declared
		// variables, scoped by push/pop like the macro). Small terms stay macros, which the incremental core
		// handles better than auxiliary equations.
		sz := 1
		for _, a := range t.Args {
			switch {
			case a.Op == OpConst || a.Op == OpVar || s.cut[a.ID]:
				sz++
			default:
				sz += s.treeSize[a.ID]
			}
		}
		if s.treeSize == nil {
			s.treeSize, s.cut = map[int]int{}, map[int]bool{}
		}
		s.treeSize[t.ID] = sz
		if sz > cutSize {
			s.cut[t.ID] = true
		}
		if s.cut[t.ID] {
			fmt.Fprintf(&sb, "(declare-const t%d %s)\n(assert (= t%d %s))\n", t.ID, sortStr(t.W), t.ID, body(t))
		} else {
			fmt.Fprintf(&sb, "(define-fun t%d () %s %s)\n", t.ID, sortStr(t.W), body(t))
		}
	}
	rec(t)
	if sb.Len() > 0 {
		s.send(sb.String())
	}
}

func (s *Solver) Assert(t *Term) {
	if t.IsConst() && t.C != 0 {
		return
	}
	s.define(t)
	s.send("(assert " + ref(t) + ")\n")
	if n := len(s.asserted); n > 0 {
		s.asserted[n-1] = append(s.asserted[n-1], t)
	}
}

// CheckFresh decides the current assertion stack once more in a fresh solver process, without push/pop: z3 then
// runs its non-incremental pipeline (full preprocessing + bit-blasting), which settles many queries the incremental
// core gives up on within the timeout (measured: 0.7 s against 72 s on a C18 query). Used as a fall-back when the
// incremental answer is unknown.
func (s *Solver) CheckFresh() Result {
	f, err := NewSolver(s.P, s.Argv, s.TimeoutMs)
	if err != nil {
		return Unknown
	}
	defer f.Close()
	f.Log = nil
	for _, lvl := range s.asserted {
		for _, t := range lvl {
			f.Assert(t)
		}
	}
	r := f.Check()
	s.Time += f.Time
	if s.Log != nil {
		fmt.Fprintf(s.Log, "; fresh-solver retry => %s\n", r)
	}
	return r
}

func (s *Solver) readLine() string {
	line, err := s.out.ReadString('\n')
	if err != nil {
		s.Errors++
		return "(error \"solver died: " + err.Error() + "\")"
	}
	return strings.TrimSpace(line)
}

// Check runs check-sat on the current assertion stack.
func (s *Solver) Check() Result {
	t0 := time.Now()
	s.send("(check-sat)\n")
	var r Result
	for {
		line := s.readLine()
		if strings.HasPrefix(line, "(error") {
			s.Errors++
			if s.Log != nil {
				fmt.Fprintf(s.Log, "; %s\n", line)
			}
			if strings.Contains(line, "solver died") {
				r = Unknown
				break
			}
			continue
		}
		switch line {
		case "sat":
			r = Sat
		case "unsat":
			r = Unsat
		case "":
			continue
		default:
			r = Unknown
		}
		break
	}
	s.Queries++
	switch r {
	case Sat:
		s.NSat++
	case Unsat:
		s.NUnsat++
	default:
		s.NUnk++
	}
	s.Time += time.Since(t0)
	if s.Log != nil {
		fmt.Fprintf(s.Log, "; => %s\n", r)
		s.logged++
		if s.LogMax > 0 && s.logged >= s.LogMax {
			if c, ok := s.Log.(io.Closer); ok {
				c.Close()
			}
			s.Log = nil
		}
	}
	return r
}

// CheckWith checks the current stack plus extra, without keeping extra.
func (s *Solver) CheckWith(extra ...*Term) Result {
	s.Push()
	for _, e := range extra {
		s.Assert(e)
	}
	r := s.Check()
	s.Pop()
	return r
}

// readSexp reads one balanced s-expression (possibly multi-line) from the solver.
func (s *Solver) readSexp() string {
	var sb strings.Builder
	depth := 0
	started := false
	for {
		line := s.readLine()
		sb.WriteString(line)
		sb.WriteByte(' ')
		inBar := false
		for _, c := range line {
			switch {
			case c == '|':
				inBar = !inBar
			case inBar:
			case c == '(':
				depth++
				started = true
			case c == ')':
				depth--
			}
		}
		if started && depth <= 0 {
			break
		}
		if !started && line != "" {
			break
		}
	}
	return sb.String()
}

// Values returns the model values of terms after a Sat answer of Check (must be called before Pop).
func (s *Solver) Values(ts []*Term) ([]uint64, error) {
	res := make([]uint64, len(ts))
	var q []*Term
	var qi []int
	for i, t := range ts {
		if t.IsConst() {
			res[i] = t.C
			continue
		}
		q = append(q, t)
		qi = append(qi, i)
	}
	const chunk = 200
	for off := 0; off < len(q); off += chunk {
		end := min(off+chunk, len(q))
		var sb strings.Builder
		for _, t := range q[off:end] {
			s.define(t)
		}
		sb.WriteString("(get-value (")
		for _, t := range q[off:end] {
			sb.WriteString(ref(t) + " ")
		}
		sb.WriteString("))\n")
		s.send(sb.String())
		resp := s.readSexp()
		if strings.HasPrefix(strings.TrimSpace(resp), "(error") {
			s.Errors++
			return nil, fmt.Errorf("get-value: %s", resp)
		}
		vals := parseValues(resp)
		if len(vals) != end-off {
			s.Errors++
			return nil, fmt.Errorf("get-value: expected %d values, got %d in %q", end-off, len(vals), resp)
		}
		for k, v := range vals {
			res[qi[off+k]] = v
		}
	}
	return res, nil
}

// parseValues extracts, in order, the value literal of each (term value) pair.
func parseValues(resp string) []uint64 {
	var out []uint64
	// tokens: find literals #x.., #b.., true, false, (_ bvN W) that appear as the second element of pairs.
	// Simplest robust approach: walk pairs at depth 2.
	i := 0
	n := len(resp)
	depth := 0
	for i < n {
		c := resp[i]
		switch c {
		case '(':
			depth++
			i++
			if depth == 2 {
				// skip first element (term ref: atom or |quoted| )
				for i < n && resp[i] == ' ' {
					i++
				}
				if i < n && resp[i] == '|' {
					i++
					for i < n && resp[i] != '|' {
						i++
					}
					i++
				} else if i < n && resp[i] == '(' {
					d := 0
					for i < n {
						if resp[i] == '(' {
							d++
						} else if resp[i] == ')' {
							d--
							if d == 0 {
								i++
								break
							}
						}
						i++
					}
				} else {
					for i < n && resp[i] != ' ' && resp[i] != ')' {
						i++
					}
				}
				for i < n && resp[i] == ' ' {
					i++
				}
				// value
				j := i
				if i < n && resp[i] == '(' {
					d := 0
					for j < n {
						if resp[j] == '(' {
							d++
						} else if resp[j] == ')' {
							d--
							if d == 0 {
								j++
								break
							}
						}
						j++
					}
				} else {
					for j < n && resp[j] != ' ' && resp[j] != ')' {
						j++
					}
				}
				out = append(out, parseLit(resp[i:j]))
				i = j
			}
		case ')':
			depth--
			i++
		default:
			i++
		}
	}
	return out
}

func parseLit(s string) uint64 {
	s = strings.TrimSpace(s)
	switch {
	case s == "true":
		return 1
	case s == "false":
		return 0
	case strings.HasPrefix(s, "#x"):
		v, _ := strconv.ParseUint(s[2:], 16, 64)
		return v
	case strings.HasPrefix(s, "#b"):
		v, _ := strconv.ParseUint(s[2:], 2, 64)
		return v
	case strings.HasPrefix(s, "(_ bv"):
		f := strings.Fields(s[5:])
		v, _ := strconv.ParseUint(f[0], 10, 64)
		return v
	}
	return 0
}
