// gosx: bounded symbolic model checking of Go SSA with an SMT back end (see /verif/DESIGN.md).
//
//	gosx check -id C41 [-tier quick|thorough] [-harness /verif/harness/C41] [-repo /repo]
package main

import (
	"encoding/json"
	"flag"
	"fmt"
	"go/ast"
	"os"
	"os/exec"
	"path/filepath"
	"sort"
	"strconv"
	"strings"
	"sync"
	"time"

	"golang.org/x/tools/go/packages"
	"golang.org/x/tools/go/ssa"
	"golang.org/x/tools/go/ssa/ssautil"

	sx "verif/gosx/exec"
)

type TierCfg struct {
	Params      map[string]int `json:"params"`
	MaxPaths    int            `json:"max_paths"`
	TimeoutS    int            `json:"timeout_s"`
	Witnesses   int            `json:"witnesses"`
	MaxSteps    int            `json:"max_steps"`
	Skip        bool           `json:"skip"`
	SolverMs    int            `json:"solver_ms"`
	MaxBackEdge int            `json:"max_backedge"`
	// ReplayTimeoutS: timeout of one native counterexample replay (default 120 s); for harnesses whose native
	// confirmation is a stress run
	ReplayTimeoutS int `json:"replay_timeout_s"`
}

type EntrySpec struct {
	Func             string             `json:"func"`
	Sched            string             `json:"sched"` // "canonical" (default) or "explore:K"
	MapOrder         string             `json:"maporder"`
	Tiers            map[string]TierCfg `json:"tiers"`
	NoIfConv         bool               `json:"no_ifconv"`
	ExpectDivergence bool               `json:"-"`
	NoReplay         bool               `json:"no_replay"` // counterexamples cannot be replayed natively (engine-only stubs): report as inconclusive
	Doc              string             `json:"doc"`
	Package          string             `json:"package"` // package holding the entry function when it is not spec.package (must be listed under extra_overlays)
}

// OverlaySpec: harness files overlaid into a second package under test (entries living there name it in
// their "package" field; native replays of those entries run `go test` on that package).
type OverlaySpec struct {
	Package string   `json:"package"`
	Files   []string `json:"files"`
}

type Spec struct {
	Property    string      `json:"property"`
	Package     string      `json:"package"` // import-path suffix relative to repo, e.g. "./filestore"
	Files       []string    `json:"files"`   // harness files (relative to harness dir), overlaid into the package dir
	ExtraPkgs   []string    `json:"extra_packages"`
	ExtraOverlays []OverlaySpec `json:"extra_overlays"`
	Entries     []EntrySpec `json:"entries"`
	Stubs       [][2]string `json:"stubs"` // [target function, harness function]
	Opaque      []string    `json:"opaque"`
	NotOpaque   []string    `json:"not_opaque"`
	EagerInit   []string    `json:"eager_init"`
	Bounds      any         `json:"bounds"`
	Outside     []string    `json:"outside"`
	StubsDoc    []string    `json:"stubs_doc"`
	Assumptions []string    `json:"assumptions"`
	Solver      []string    `json:"solver"` // optional solver command line (default: z3 -in), e.g. ["z3-new","-in"]
	ReplayFlags []string    `json:"replay_flags"` // extra `go test` flags for native replays, e.g. ["-race"]
}

type KnownFinding struct {
	Property string `json:"property"`
	Entry    string `json:"entry"`
	Assert   string `json:"assert"`
	What     string `json:"what"`
	Status   string `json:"status"` // "known" or "fixed"
	Commit   string `json:"commit,omitempty"`
}

func main() {
	if len(os.Args) < 2 {
		fmt.Fprintln(os.Stderr, "usage: gosx check ...")
		os.Exit(3)
	}
	switch os.Args[1] {
	case "check":
		os.Exit(check(os.Args[2:]))
	default:
		fmt.Fprintln(os.Stderr, "unknown command", os.Args[1])
		os.Exit(3)
	}
}

type entryResult struct {
	spec   EntrySpec
	rep    *sx.Report
	err    string
	solver struct {
		queries, sat, unsat, unknown, errors int
		secs                                 float64
	}
	confirmed   []confirmedViolation
	unconfirmed []string
	unreproduced []string // witnesses that did not reproduce although another witness of the same assertion did
	tvChecked   int
	tvMismatch  []string
	skipped     bool
	transcript  string
	sdiff       []*solverDiffResult
}

type confirmedViolation struct {
	v      sx.Violation
	replay string
	detail string
}

func check(args []string) int {
	fs := flag.NewFlagSet("check", flag.ExitOnError)
	id := fs.String("id", "", "property id")
	tier := fs.String("tier", "quick", "quick|thorough")
	hdir := fs.String("harness", "", "harness directory (default /verif/harness/<id>)")
	repo := fs.String("repo", "/repo", "repository")
	verif := fs.String("verif", "/verif", "verif root")
	only := fs.String("entry", "", "run only this entry")
	trace := fs.Bool("trace", false, "trace instructions")
	noReplay := fs.Bool("noreplay", false, "skip native replay (debugging)")
	progress := fs.Bool("progress", false, "progress output")
	qlog := fs.Bool("querylog", false, "write SMT transcript to evidence/queries/<id>.<entry>.smt2")
	nworkers := fs.Int("workers", 0, "workers per entry (0 = auto)")
	fs.StringVar(&evidenceSuffix, "evidence-suffix", "", "suffix for the evidence file name (used by seeded-change runs)")
	seed := fs.Int("seed", 0, "seed (recorded only; exploration is deterministic)")
	sdiff := fs.String("solverdiff", "auto", "re-discharge a transcript of the first worker's queries on the other installed solvers: on|off|auto (auto = thorough tier)")
	fs.Parse(args)
	if *id == "" {
		fmt.Fprintln(os.Stderr, "-id required")
		return 3
	}
	if s := os.Getenv("VERIF_SEED"); s != "" {
		if v, err := strconv.Atoi(s); err == nil {
			*seed = v
		}
	}
	if *hdir == "" {
		*hdir = filepath.Join(*verif, "harness", *id)
	}
	t0 := time.Now()
	var spec Spec
	data, err := os.ReadFile(filepath.Join(*hdir, "spec.json"))
	if err != nil {
		fmt.Fprintln(os.Stderr, "spec:", err)
		return 3
	}
	if err := json.Unmarshal(data, &spec); err != nil {
		fmt.Fprintln(os.Stderr, "spec.json:", err)
		return 3
	}
	pkgDir := filepath.Join(*repo, spec.Package)
	overlay := map[string][]byte{}
	overlayFiles := map[string]string{} // virtual -> real (for go test -overlay)
	for _, f := range spec.Files {
		src, err := os.ReadFile(filepath.Join(*hdir, f))
		if err != nil {
			fmt.Fprintln(os.Stderr, "harness file:", err)
			return 3
		}
		virt := filepath.Join(pkgDir, "zz_verif_"+strings.ToLower(*id)+"_"+filepath.Base(f))
		overlay[virt] = src
		overlayFiles[virt] = filepath.Join(*hdir, f)
	}
	for _, ov := range spec.ExtraOverlays {
		for _, f := range ov.Files {
			src, err := os.ReadFile(filepath.Join(*hdir, f))
			if err != nil {
				fmt.Fprintln(os.Stderr, "harness file:", err)
				return 3
			}
			virt := filepath.Join(*repo, ov.Package, "zz_verif_"+strings.ToLower(*id)+"_"+filepath.Base(f))
			overlay[virt] = src
			overlayFiles[virt] = filepath.Join(*hdir, f)
		}
	}
	rtSrc, err := os.ReadFile(filepath.Join(*verif, "rt/verifrt/rt.go"))
	if err != nil {
		fmt.Fprintln(os.Stderr, "verifrt:", err)
		return 3
	}
	rtVirt := filepath.Join(*repo, "internal/verifrt/rt.go")
	overlay[rtVirt] = rtSrc
	overlayFiles[rtVirt] = filepath.Join(*verif, "rt/verifrt/rt.go")

	cfg := &packages.Config{Mode: packages.LoadAllSyntax, Dir: *repo, Overlay: overlay, Env: append(os.Environ(), "GOFLAGS=-mod=mod", "GOPROXY=off")}
	patterns := append([]string{spec.Package}, spec.ExtraPkgs...)
	for _, ov := range spec.ExtraOverlays {
		patterns = append(patterns, ov.Package)
	}
	pkgs, err := packages.Load(cfg, patterns...)
	if err != nil {
		fmt.Fprintln(os.Stderr, "load:", err)
		return 3
	}
	nerr := 0
	packages.Visit(pkgs, nil, func(p *packages.Package) {
		for _, e := range p.Errors {
			fmt.Fprintln(os.Stderr, "load error:", e)
			nerr++
		}
	})
	if nerr > 0 {
		// a tree that does not compile is not a property violation: report as broken build
		fmt.Printf("INCONCLUSIVE property=%s reason=build-errors\n", *id)
		return 2
	}
	// blank imports
	packages.Visit(pkgs, nil, func(p *packages.Package) {
		for _, f := range p.Syntax {
			for _, imp := range f.Imports {
				if imp.Name != nil && imp.Name.Name == "_" {
					path, _ := strconv.Unquote(imp.Path.Value)
					sx.BlankImportsOf[p.PkgPath] = append(sx.BlankImportsOf[p.PkgPath], path)
				}
			}
		}
	})
	prog, spkgs := ssautil.AllPackages(pkgs, ssa.InstantiateGenerics)
	prog.Build()
	loadT := time.Since(t0)
	// SSA package of a spec package path ("./x/y"): the loaded root whose files live in that directory
	ssaPkgOf := func(rel string) *ssa.Package {
		dir := filepath.Join(*repo, rel)
		for i, p := range pkgs {
			for _, f := range p.CompiledGoFiles {
				if filepath.Dir(f) == dir {
					return spkgs[i]
				}
			}
		}
		return nil
	}
	main := spkgs[0]
	if len(spec.ExtraOverlays) > 0 {
		main = ssaPkgOf(spec.Package)
	}
	if main == nil {
		fmt.Fprintln(os.Stderr, "no SSA package for", spec.Package)
		return 3
	}
	harnessPkgs := []*ssa.Package{main}
	entryPkgs := map[string]*ssa.Package{"": main, spec.Package: main}
	for _, ov := range spec.ExtraOverlays {
		sp := ssaPkgOf(ov.Package)
		if sp == nil {
			fmt.Fprintln(os.Stderr, "no SSA package for", ov.Package)
			return 3
		}
		harnessPkgs = append(harnessPkgs, sp)
		entryPkgs[ov.Package] = sp
	}
	_ = ast.NewIdent
	if len(spec.Stubs) > 0 {
		// a stub whose target is misspelled would silently never fire: warn, listing candidates with the same name
		all := ssautil.AllFunctions(prog)
		names := map[string]bool{}
		for f := range all {
			names[f.String()] = true
		}
		for _, st := range spec.Stubs {
			if names[st[0]] {
				continue
			}
			fmt.Fprintf(os.Stderr, "warning: stub target %q matches no function of the program\n", st[0])
			short := st[0][strings.LastIndex(st[0], ".")+1:]
			n := 0
			for f := range all {
				p := f.Pkg
				if p == nil && f.Origin() != nil {
					p = f.Origin().Pkg
				}
				if f.Name() == short && n < 12 && p != nil && strings.Contains(st[0], p.Pkg.Path()) {
					fmt.Fprintf(os.Stderr, "         candidate: %s\n", f.String())
					n++
				}
			}
		}
	}

	var kf []KnownFinding
	if b, err := os.ReadFile(filepath.Join(*verif, "known_findings.json")); err == nil {
		json.Unmarshal(b, &kf)
	}

	diffDir := ""
	if *sdiff == "on" || (*sdiff == "auto" && *tier == "thorough") || os.Getenv("VERIF_SOLVERDIFF") == "1" {
		if d, err := os.MkdirTemp("", "verif-sdiff-"); err == nil {
			diffDir = d
			defer os.RemoveAll(d)
		}
	}
	results := make([]*entryResult, len(spec.Entries))
	var wg sync.WaitGroup
	sem := make(chan struct{}, 8)
	nEntries := 0
	for _, es := range spec.Entries {
		if tc, ok := es.Tiers[*tier]; (*only == "" || es.Func == *only) && !(ok && tc.Skip) {
			nEntries++
		}
	}
	workers := *nworkers
	if workers == 0 {
		workers = max(1, 14/max(nEntries, 1))
	}
	for i, es := range spec.Entries {
		res := &entryResult{spec: es}
		results[i] = res
		if *only != "" && es.Func != *only {
			res.skipped = true
			continue
		}
		tc, ok := es.Tiers[*tier]
		if !ok {
			tc = es.Tiers["quick"]
		}
		if tc.Skip {
			res.skipped = true
			continue
		}
		var fn *ssa.Function
		if ep := entryPkgs[es.Package]; ep != nil {
			fn = ep.Func(es.Func)
		}
		if fn == nil {
			res.err = "entry function not found: " + es.Func
			continue
		}
		wg.Add(1)
		go func(i int, es EntrySpec, tc TierCfg, res *entryResult) {
			defer wg.Done()
			sem <- struct{}{}
			defer func() { <-sem }()
			ecfg := sx.Config{Trace: *trace, SchedExplore: -1, MaxSteps: tc.MaxSteps, TimeoutMs: tc.SolverMs, NoIfConv: es.NoIfConv, MaxBackEdge: tc.MaxBackEdge, SolverArgv: spec.Solver}
			if strings.HasPrefix(es.Sched, "explore:") {
				k, _ := strconv.Atoi(strings.TrimPrefix(es.Sched, "explore:"))
				ecfg.SchedExplore = k
			}
			if strings.HasPrefix(es.Sched, "delay:") { // delay-bounded: canonical order + <= k pre-emptions
				k, _ := strconv.Atoi(strings.TrimPrefix(es.Sched, "delay:"))
				ecfg.SchedExplore = k
				ecfg.SchedDelay = true
			}
			if es.MapOrder == "nondet" {
				ecfg.MapOrderNondet = true
			}
			if *qlog {
				os.MkdirAll(filepath.Join(*verif, "evidence/queries"), 0o755)
				ecfg.QueryLog = filepath.Join(*verif, "evidence/queries", *id+"."+es.Func+".smt2")
			}
			var mkMu sync.Mutex
			mkN := 0
			mk := func() (*sx.Engine, error) {
				ecfg := ecfg
				mkMu.Lock()
				mkN++
				if mkN == 1 && diffDir != "" && ecfg.QueryLog == "" {
					// the first worker's solver traffic is kept as an SMT-LIB transcript for the second-solver diff
					ecfg.QueryLog = filepath.Join(diffDir, es.Func+".smt2")
					ecfg.QueryLogMax = 600
					res.transcript = ecfg.QueryLog
				}
				mkMu.Unlock()
				eng, err := sx.NewEngine(prog, ecfg)
				if err != nil {
					return nil, err
				}
				eng.Params = tc.Params
				eng.AddOpaque(spec.Opaque, spec.NotOpaque)
				for _, st := range spec.Stubs {
					var h *ssa.Function
					for _, hp := range harnessPkgs {
						if h = hp.Func(st[1]); h != nil {
							break
						}
					}
					if h == nil {
						eng.Close()
						return nil, fmt.Errorf("stub function not found: %s", st[1])
					}
					eng.Stubs[st[0]] = h
				}
				for _, p := range spec.EagerInit {
					if ip := prog.ImportedPackage(p); ip != nil {
						eng.EagerInit(ip)
					}
				}
				return eng, nil
			}
			opt := sx.Options{MaxPaths: tc.MaxPaths, MaxWitnesses: tc.Witnesses, Progress: *progress, Workers: workers}
			if tc.TimeoutS > 0 {
				opt.Deadline = time.Now().Add(time.Duration(tc.TimeoutS) * time.Second)
			} else if *tier == "quick" {
				// default per-entry deadline: a changed tree can make the solver stall; the run then ends
				// inconclusive (or with the violations found so far) instead of running on for hours
				opt.Deadline = time.Now().Add(900 * time.Second)
			} else {
				opt.Deadline = time.Now().Add(5400 * time.Second)
			}
			rep, err := sx.Explore(mk, fn, opt)
			if err != nil {
				res.err = err.Error()
				return
			}
			res.rep = rep
			res.solver.queries, res.solver.sat, res.solver.unsat, res.solver.unknown, res.solver.errors = rep.Solver.Queries, rep.Solver.Sat, rep.Solver.Unsat, rep.Solver.Unknown, rep.Solver.Errors
			res.solver.secs = rep.Solver.Secs
		}(i, es, tc, res)
	}
	wg.Wait()

	// ---------------------------------------------------------------- second-solver diff
	if diffDir != "" {
		var dwg sync.WaitGroup
		dsem := make(chan struct{}, 6)
		for _, res := range results {
			if res.transcript == "" {
				continue
			}
			dwg.Add(1)
			go func(res *entryResult) {
				defer dwg.Done()
				dsem <- struct{}{}
				defer func() { <-dsem }()
				res.sdiff = solverDiff(res.transcript, spec.Solver)
			}(res)
		}
		dwg.Wait()
	}

	// ---------------------------------------------------------------- native replay
	rps := map[string]*replayer{}
	defer func() {
		for _, r := range rps {
			r.cleanup()
		}
	}()
	for _, res := range results {
		if res.rep == nil {
			continue
		}
		rpkg := res.spec.Package
		if rpkg == "" {
			rpkg = spec.Package
		}
		rp := rps[rpkg]
		if rp == nil {
			rp = &replayer{repo: *repo, verif: *verif, id: *id, pkg: rpkg, overlayFiles: overlayFiles, spec: &spec, tier: *tier}
			rps[rpkg] = rp
		}
		tc := res.spec.Tiers[*tier]
		if _, ok := res.spec.Tiers[*tier]; !ok {
			tc = res.spec.Tiers["quick"]
		}
		if len(res.rep.Violations) > 0 && !*noReplay {
			rp.confirm(res, tc)
		} else if *noReplay {
			for _, v := range res.rep.Violations {
				res.confirmed = append(res.confirmed, confirmedViolation{v: v, replay: "(noreplay)"})
			}
		}
		if len(res.rep.Witnesses) > 0 && !*noReplay {
			rp.validate(res, tc)
		}
	}

	// ---------------------------------------------------------------- verdict
	exit := 0
	var lines []string
	inconcl := []string{}
	violations := 0
	for _, res := range results {
		if res.skipped {
			continue
		}
		if res.err != "" {
			inconcl = append(inconcl, res.spec.Func+": "+res.err)
			continue
		}
		for _, r := range res.rep.Inconcl {
			inconcl = append(inconcl, res.spec.Func+": "+r)
		}
		if res.solver.errors > 0 {
			inconcl = append(inconcl, fmt.Sprintf("%s: %d solver error lines", res.spec.Func, res.solver.errors))
		}
		for _, d := range res.sdiff {
			if d.Disagree > 0 {
				inconcl = append(inconcl, fmt.Sprintf("%s: second solver %s disagrees with the primary on %d of %d queries (first: query #%d)", res.spec.Func, d.Solver, d.Disagree, d.Compared, d.FirstDisagree))
			}
		}
		for _, u := range res.unconfirmed {
			inconcl = append(inconcl, res.spec.Func+": counterexample did not reproduce natively: "+u)
		}
		for _, m := range res.tvMismatch {
			inconcl = append(inconcl, res.spec.Func+": translator validation mismatch: "+m)
		}
		// vacuity: every assertion site reached, end reached
		if res.rep.Stats.Completed == 0 && len(res.confirmed) == 0 && len(res.unconfirmed) == 0 {
			inconcl = append(inconcl, res.spec.Func+": no path completed (vacuous)")
		}
		seenKF := map[string]bool{}
		for _, cv := range res.confirmed {
			known := false
			for _, k := range kf {
				if k.Status != "fixed" && k.Property == *id && k.Entry == res.spec.Func && k.Assert == cv.v.ID {
					known = true
					key := k.Entry + "/" + k.Assert
					if !seenKF[key] {
						seenKF[key] = true
						lines = append(lines, fmt.Sprintf("KNOWN-FINDING: property=%s %s/%s %s", *id, k.Entry, k.Assert, k.What))
					}
				}
			}
			if !known {
				violations++
				lines = append(lines, fmt.Sprintf("VIOLATION property=%s replay=%s", *id, cv.replay))
				lines = append(lines, fmt.Sprintf("  entry=%s assert=%s: %s", res.spec.Func, cv.v.ID, cv.v.Msg))
				if cv.v.Where != "" {
					lines = append(lines, "  where: "+strings.ReplaceAll(cv.v.Where, "\n", "\n    "))
				}
				if cv.detail != "" {
					lines = append(lines, "  native: "+cv.detail)
				}
				exit = 1
			}
		}
	}
	if exit == 0 && len(inconcl) > 0 {
		exit = 2
		sort.Strings(inconcl)
		seen := map[string]bool{}
		for _, r := range inconcl {
			if seen[r] {
				continue
			}
			seen[r] = true
			if len(r) > 1500 {
				r = r[:1500] + "…"
			}
			lines = append(lines, fmt.Sprintf("INCONCLUSIVE property=%s reason=%s", *id, r))
		}
	}
	for _, l := range lines {
		fmt.Println(l)
	}
	writeEvidence(*verif, *id, *tier, *seed, &spec, results, loadT, time.Since(t0), violations, inconcl, len(prog.AllPackages()))
	if exit == 0 {
		fmt.Printf("OK property=%s tier=%s wall=%.1fs\n", *id, *tier, time.Since(t0).Seconds())
	}
	return exit
}

// ---------------------------------------------------------------- replay

type replayer struct {
	repo, verif, id, pkg, tier string
	overlayFiles               map[string]string
	spec                       *Spec
	tmp                        string
	prepared                   bool
	n                          int
}

type rtCase struct {
	Entry  string            `json:"entry"`
	Inputs map[string]uint64 `json:"inputs"`
	Sched  []uint64          `json:"sched,omitempty"`
	Params map[string]int    `json:"params,omitempty"`
}

type rtResult struct {
	Status  string   `json:"status"`
	Assert  string   `json:"assert"`
	Panic   string   `json:"panic"`
	Obs     []string `json:"obs"`
	Missing []string `json:"missing"`
}

func (r *replayer) cleanup() {
	if r.tmp != "" {
		os.RemoveAll(r.tmp)
	}
}

func (r *replayer) prepare() error {
	if r.prepared {
		return nil
	}
	tmp, err := os.MkdirTemp("", "verif-replay-")
	if err != nil {
		return err
	}
	r.tmp = tmp
	// generated test file
	pkgDir := filepath.Join(r.repo, r.pkg)
	pkgName := ""
	for virt := range r.overlayFiles {
		if filepath.Dir(virt) == pkgDir {
			src, _ := os.ReadFile(r.overlayFiles[virt])
			for _, line := range strings.Split(string(src), "\n") {
				if strings.HasPrefix(line, "package ") {
					pkgName = strings.TrimSpace(strings.TrimPrefix(line, "package "))
					break
				}
			}
		}
	}
	var sb strings.Builder
	fmt.Fprintf(&sb, "package %s\n\nimport (\n\t\"testing\"\n\t\"github.com/ipfs/boxo/internal/verifrt\"\n)\n\n", pkgName)
	sb.WriteString("func TestVerifReplay(t *testing.T) {\n\tverifrt.Main(map[string]func(){\n")
	seenEntry := map[string]bool{}
	for _, e := range r.spec.Entries {
		if ep := e.Package; seenEntry[e.Func] || (ep == "" && r.pkg != r.spec.Package) || (ep != "" && ep != r.pkg) {
			continue
		}
		seenEntry[e.Func] = true
		fmt.Fprintf(&sb, "\t\t%q: %s,\n", e.Func, e.Func)
	}
	sb.WriteString("\t})\n}\n")
	testReal := filepath.Join(tmp, "replay_test.go")
	os.WriteFile(testReal, []byte(sb.String()), 0o644)
	repl := map[string]string{}
	for v, real := range r.overlayFiles {
		repl[v] = real
	}
	repl[filepath.Join(pkgDir, "zz_verif_"+strings.ToLower(r.id)+"_replay_test.go")] = testReal
	ov, _ := json.Marshal(map[string]any{"Replace": repl})
	os.WriteFile(filepath.Join(tmp, "overlay.json"), ov, 0o644)
	r.prepared = true
	return nil
}

// run executes the native test on a list of cases; returns per-case results (nil entries when the process died).
func (r *replayer) run(cases []rtCase, timeout time.Duration) ([]*rtResult, string) {
	if err := r.prepare(); err != nil {
		return nil, err.Error()
	}
	r.n++
	cf := filepath.Join(r.tmp, fmt.Sprintf("cases%d.json", r.n))
	b, _ := json.Marshal(cases)
	os.WriteFile(cf, b, 0o644)
	args := []string{"test", "-vet=off", "-count=1", "-run", "^TestVerifReplay$", "-v", "-timeout", fmt.Sprintf("%ds", int(timeout.Seconds())),
		"-overlay", filepath.Join(r.tmp, "overlay.json")}
	// replay_flags: extra `go test` build flags for the native runs of this property, e.g. ["-race"] (the race
	// runtime turns every atomic operation into a call, which widens instruction-level race windows enough for
	// a native stress run to hit them)
	args = append(args, r.spec.ReplayFlags...)
	args = append(args, r.pkg)
	cmd := exec.Command("go", args...)
	cmd.Dir = r.repo
	cmd.Env = append(os.Environ(), "VERIF_REPLAY="+cf, "GOFLAGS=-mod=mod", "GOPROXY=off", "GOCACHE="+gocache())
	out, _ := runWithTimeout(cmd, timeout+90*time.Second)
	res := make([]*rtResult, len(cases))
	for _, line := range strings.Split(out, "\n") {
		line = strings.TrimSpace(line)
		if !strings.HasPrefix(line, "VERIF-RESULT ") {
			continue
		}
		rest := strings.TrimPrefix(line, "VERIF-RESULT ")
		sp := strings.IndexByte(rest, ' ')
		if sp < 0 {
			continue
		}
		i, err := strconv.Atoi(rest[:sp])
		if err != nil || i < 0 || i >= len(res) {
			continue
		}
		var rr rtResult
		if json.Unmarshal([]byte(rest[sp+1:]), &rr) == nil {
			res[i] = &rr
		}
	}
	return res, out
}

func gocache() string {
	if c := os.Getenv("GOCACHE"); c != "" {
		return c
	}
	home, _ := os.UserHomeDir()
	return filepath.Join(home, ".cache", "go-build")
}

func runWithTimeout(cmd *exec.Cmd, d time.Duration) (string, error) {
	var sb strings.Builder
	cmd.Stdout = &sb
	cmd.Stderr = &sb
	if err := cmd.Start(); err != nil {
		return "", err
	}
	done := make(chan error, 1)
	go func() { done <- cmd.Wait() }()
	select {
	case err := <-done:
		return sb.String(), err
	case <-time.After(d):
		cmd.Process.Kill()
		<-done
		return sb.String() + "\nVERIF-TIMEOUT\n", fmt.Errorf("timeout")
	}
}

// confirm replays each violation natively, one process per distinct (assert id) up to a few per id.
func (r *replayer) confirm(res *entryResult, tc TierCfg) {
	perID := map[string]int{}
	confirmedID := map[string]bool{}
	dir := filepath.Join(r.verif, "replays", r.id+evidenceSuffix)
	os.MkdirAll(dir, 0o755)
	for _, v := range res.rep.Violations {
		if confirmedID[v.ID] || perID[v.ID] >= 3 {
			continue
		}
		perID[v.ID]++
		c := rtCase{Entry: res.spec.Func, Inputs: v.Inputs, Sched: v.Sched, Params: tc.Params}
		rf := filepath.Join(dir, fmt.Sprintf("%s.%s.%d.json", res.spec.Func, sanitize(v.ID), perID[v.ID]))
		b, _ := json.MarshalIndent([]rtCase{c}, "", " ")
		os.WriteFile(rf, b, 0o644)
		if res.spec.NoReplay {
			res.unconfirmed = append(res.unconfirmed, v.ID+" (entry marked no_replay): "+v.Msg)
			continue
		}
		timeout := 120 * time.Second
		if tc.ReplayTimeoutS > 0 {
			timeout = time.Duration(tc.ReplayTimeoutS) * time.Second
		}
		// the native harness can tell a counterexample replay (CONFIRM=1) from a witness validation run, e.g. to
		// spend a long stress budget only on the former
		cc := c
		cc.Params = map[string]int{"CONFIRM": 1}
		for k, v := range c.Params {
			cc.Params[k] = v
		}
		rs, out := r.run([]rtCase{cc}, timeout)
		var rr *rtResult
		if len(rs) == 1 {
			rr = rs[0]
		}
		ok := false
		detail := ""
		switch {
		case rr == nil:
			// process died: stack overflow / timeout / fatal error
			tail := lastLines(out, 12)
			switch v.ID {
			case "divergence":
				if strings.Contains(out, "stack overflow") || strings.Contains(out, "VERIF-TIMEOUT") || strings.Contains(out, "test timed out") {
					ok = true
					detail = "native run does not terminate: " + firstMatch(out, "stack overflow", "test timed out", "VERIF-TIMEOUT")
				}
			case "deadlock":
				if strings.Contains(out, "all goroutines are asleep") || strings.Contains(out, "test timed out") || strings.Contains(out, "VERIF-TIMEOUT") {
					ok = true
					detail = "native run deadlocks"
				}
			case "panic":
				if strings.Contains(out, "fatal error") || strings.Contains(out, "panic:") {
					ok = true
					detail = "native run crashes: " + firstMatch(out, "fatal error", "panic:")
				}
			}
			if !ok {
				detail = "native process produced no result: " + tail
			}
		case rr.Status == "assert-fail":
			if v.ID == rr.Assert || v.ID == "panic" || v.ID == "divergence" {
				ok = v.ID == rr.Assert
			}
			detail = "native assertion failed: " + rr.Assert
			if !ok && v.ID != rr.Assert {
				// a different assertion failed natively first: still a genuine failure of the harness oracle
				ok = true
				v.ID = rr.Assert
			}
		case rr.Status == "panic":
			detail = "native panic: " + firstLine(rr.Panic)
			ok = v.ID == "panic"
		case rr.Status == "ok":
			detail = "native run passed"
		case rr.Status == "assume-fail":
			detail = "native run rejected the inputs (assumption false): " + rr.Panic
		}
		if ok {
			confirmedID[v.ID] = true
			res.confirmed = append(res.confirmed, confirmedViolation{v: v, replay: rf, detail: detail})
		} else {
			res.unconfirmed = append(res.unconfirmed, fmt.Sprintf("%s: %s [%s]", v.ID, v.Msg, detail))
		}
	}
	// A witness that did not reproduce is an engine/stub imprecision and normally makes the run inconclusive.
	// When another witness of the SAME assertion in this entry did reproduce, the violation class is
	// established by that one; the non-reproducing witnesses are reported in the evidence only.
	kept := res.unconfirmed[:0]
	for _, u := range res.unconfirmed {
		id := u
		if i := strings.Index(u, ": "); i >= 0 {
			id = u[:i]
		}
		if confirmedID[id] {
			res.unreproduced = append(res.unreproduced, u)
			continue
		}
		kept = append(kept, u)
	}
	res.unconfirmed = kept
}

func firstMatch(out string, keys ...string) string {
	for _, line := range strings.Split(out, "\n") {
		for _, k := range keys {
			if strings.Contains(line, k) {
				return strings.TrimSpace(line)
			}
		}
	}
	return ""
}

func firstLine(s string) string {
	if i := strings.IndexByte(s, '\n'); i >= 0 {
		return s[:i]
	}
	return s
}

func lastLines(s string, n int) string {
	ls := strings.Split(strings.TrimSpace(s), "\n")
	if len(ls) > n {
		ls = ls[len(ls)-n:]
	}
	return strings.Join(ls, " | ")
}

func sanitize(s string) string {
	b := []byte(s)
	for i, c := range b {
		if !(c >= 'a' && c <= 'z' || c >= 'A' && c <= 'Z' || c >= '0' && c <= '9' || c == '-' || c == '_' || c == '.') {
			b[i] = '_'
		}
	}
	return string(b)
}

// validate runs the path witnesses natively and compares the observation logs (translator validation).
func (r *replayer) validate(res *entryResult, tc TierCfg) {
	var cases []rtCase
	for _, w := range res.rep.Witnesses {
		cases = append(cases, rtCase{Entry: res.spec.Func, Inputs: w.Inputs, Params: tc.Params})
	}
	rs, out := r.run(cases, 300*time.Second)
	for i, w := range res.rep.Witnesses {
		if i >= len(rs) || rs[i] == nil {
			res.tvMismatch = append(res.tvMismatch, fmt.Sprintf("witness %d: no native result (%s)", i, lastLines(out, 6)))
			continue
		}
		rr := rs[i]
		if rr.Status != "ok" {
			res.tvMismatch = append(res.tvMismatch, fmt.Sprintf("witness %d %v: engine path completed, native status %s %s %s", i, w.Inputs, rr.Status, rr.Assert, firstLine(rr.Panic)))
			continue
		}
		var want []string
		for _, o := range w.Obs {
			want = append(want, o.Name+"="+o.Val)
		}
		if strings.Join(want, "\n") != strings.Join(rr.Obs, "\n") {
			res.tvMismatch = append(res.tvMismatch, fmt.Sprintf("witness %d %v: observations differ: engine %v native %v", i, w.Inputs, want, rr.Obs))
			continue
		}
		res.tvChecked++
	}
}

// ---------------------------------------------------------------- evidence

var evidenceSuffix string

func writeEvidence(verif, id, tier string, seed int, spec *Spec, results []*entryResult, loadT, wall time.Duration, violations int, inconcl []string, npkgs int) {
	states, transitions, tv := 0, 0, 0
	var samples []any
	funcs := map[string]int{}
	queries := map[string]int{}
	solverS := 0.0
	entries := []any{}
	asserts := map[string]any{}
	reach := map[string]int{}
	known := 0
	var unrepro []string
	for _, res := range results {
		if res.rep == nil {
			if res.skipped {
				entries = append(entries, map[string]any{"entry": res.spec.Func, "skipped_in_tier": true})
			} else {
				entries = append(entries, map[string]any{"entry": res.spec.Func, "error": res.err})
			}
			continue
		}
		st := res.rep.Stats
		states += st.Paths
		transitions += st.Decisions + int(st.TotalSteps/1000)
		tv += res.tvChecked
		for _, s := range res.rep.Samples {
			if len(samples) < 24 {
				samples = append(samples, map[string]any{"entry": res.spec.Func, "path": s})
			}
		}
		for f, n := range res.rep.Funcs {
			funcs[f] += n
		}
		queries["total"] += res.solver.queries
		queries["sat"] += res.solver.sat
		queries["unsat"] += res.solver.unsat
		queries["unknown"] += res.solver.unknown
		queries["error_lines"] += res.solver.errors
		solverS += res.solver.secs
		for k, a := range res.rep.Asserts {
			asserts[res.spec.Func+"/"+k] = a
		}
		for k, n := range res.rep.Reach {
			reach[res.spec.Func+"/"+k] = n
		}
		known += len(res.confirmed)
		unrepro = append(unrepro, res.unreproduced...)
		entries = append(entries, map[string]any{
			"entry": res.spec.Func, "doc": res.spec.Doc, "sched": res.spec.Sched, "params": res.spec.Tiers[tier].Params,
			"paths": st.Paths, "completed": st.Completed, "pruned_by_assume": st.Pruned, "panicked": st.Panicked,
			"inconclusive_paths": st.Inconclusive, "decisions": st.Decisions, "if_converted": st.IfConverted,
			"asserts_checked_by_solver": st.AssertsChecked, "asserts_trivially_true": st.AssertsTrivial,
			"violations_found": len(res.rep.Violations), "violations_confirmed_natively": len(res.confirmed),
			"instructions_executed": st.TotalSteps, "max_path_instructions": st.MaxPathSteps, "wall_s": st.Wall.Seconds(),
			"solver_s": res.solver.secs, "queries": res.solver.queries,
			"second_solver_diff": res.sdiff,
		})
	}
	// boxo functions only in the headline list; all functions counted
	type fc struct {
		Name string `json:"fn"`
		N    int    `json:"instrs"`
	}
	var fl []fc
	for f, n := range funcs {
		fl = append(fl, fc{f, n})
	}
	sort.Slice(fl, func(i, j int) bool { return fl[i].N > fl[j].N })
	var boxo []fc
	for _, f := range fl {
		if strings.Contains(f.Name, "github.com/ipfs/boxo") && !strings.Contains(f.Name, "verifrt") && !strings.Contains(f.Name, "Harness") && !strings.Contains(f.Name, "zzv") {
			boxo = append(boxo, f)
		}
	}
	if len(boxo) > 60 {
		boxo = boxo[:60]
	}
	otherN := len(fl)
	if len(samples) == 0 {
		samples = append(samples, "no path explored")
	}
	ev := map[string]any{
		"property_id": id,
		"tier":        tier,
		"seed":        seed,
		"level":       "model_checking",
		"wall_s":      wall.Seconds(),
		"violations":  violations,
		"coverage": map[string]any{
			"states":                        max(states, 1),
			"transitions":                   max(transitions, 1),
			"traces_validated_against_impl": tv,
			"samples":                       samples,
			"explanation":                   "states = symbolic paths explored (each covers every input value satisfying its path condition); transitions = solver-decided branch points + executed SSA instructions/1000; traces_validated = path witnesses re-run natively with equal observations",
			"exhaustive":                    len(inconcl) == 0,
			"entries":                       entries,
			"functions_encoded_boxo":        boxo,
			"functions_encoded_total":       otherN,
			"queries":                       queries,
			"solver_s":                      solverS,
			"solver":                        solverDesc(spec.Solver),
			"assert_sites":                  asserts,
			"reach":                         reach,
			"bounds":                        spec.Bounds,
			"outside_bounds":                spec.Outside,
			"stubs":                         spec.StubsDoc,
			"inconclusive":                  inconcl,
			"load_s":                        loadT.Seconds(),
			"packages_in_ssa_program":       npkgs,
			"confirmed_counterexamples":     known,
			"witnesses_not_reproduced":      unrepro,
		},
		"assumptions": append([]string{
			"go/ssa (x/tools v0.50.0) lowers the source faithfully; the SMT solver is sound",
			"engine models of sync/atomic/time/fmt/errors and hash stubs as listed in DESIGN.md section 4",
		}, spec.Assumptions...),
	}
	os.MkdirAll(filepath.Join(verif, "evidence"), 0o755)
	b, _ := json.MarshalIndent(ev, "", " ")
	os.WriteFile(filepath.Join(verif, "evidence", id+evidenceSuffix+".json"), b, 0o644)
}

func solverDesc(argv []string) string {
	if len(argv) == 0 {
		return "z3 -in (4.8.12), no set-logic, timeout per query as configured"
	}
	return strings.Join(argv, " ") + " (spec.json \"solver\"), no set-logic, timeout per query as configured"
}
