package main

import (
	"bufio"
	"bytes"
	"context"
	"os"
	"os/exec"
	"strings"
	"time"
)

// solverDiffResult: outcome of re-discharging one entry's query transcript (the first worker's solver traffic,
// push/pop structure included) on another solver. Only definite answers are compared: sat against unsat is a
// disagreement (the run becomes inconclusive); unknown on either side is counted, not compared.
type solverDiffResult struct {
	Solver        string  `json:"solver"`
	Queries       int     `json:"queries_in_transcript"`
	Compared      int     `json:"compared"`
	Agree         int     `json:"agree"`
	Disagree      int     `json:"disagree"`
	FirstDisagree int     `json:"first_disagreement_query,omitempty"`
	UnknownEither int     `json:"unknown_on_either_side"`
	NotReached    int     `json:"not_reached_before_time_limit"`
	Secs          float64 `json:"secs"`
	Note          string  `json:"note,omitempty"`
}

func solverDiff(transcript string, primary []string) []*solverDiffResult {
	data, err := os.ReadFile(transcript)
	if err != nil || len(data) == 0 {
		return nil
	}
	// recorded answers of the primary solver
	var want []string
	var script bytes.Buffer
	for _, line := range strings.Split(string(data), "\n") {
		if strings.HasPrefix(line, "; => ") {
			want = append(want, strings.TrimPrefix(line, "; => "))
			continue
		}
		if strings.HasPrefix(line, ";") {
			continue
		}
		script.WriteString(line)
		script.WriteByte('\n')
	}
	if len(want) == 0 {
		return nil
	}
	prim := "z3"
	if len(primary) > 0 {
		prim = primary[0]
	}
	type other struct {
		name string
		argv []string
		cvc  bool
	}
	var others []other
	if strings.Contains(prim, "z3-new") {
		others = append(others, other{"z3 4.8.12", []string{"z3", "-in"}, false})
	} else {
		others = append(others, other{"z3-new 5.1.0", []string{"z3-new", "-in"}, false})
	}
	others = append(others, other{"cvc5 1.0", []string{"cvc5", "--incremental", "--produce-models", "--tlimit-per=20000", "--lang=smt2"}, true})
	var out []*solverDiffResult
	for _, o := range others {
		r := &solverDiffResult{Solver: o.name, Queries: len(want)}
		out = append(out, r)
		if _, err := exec.LookPath(o.argv[0]); err != nil {
			r.Note = "solver not installed"
			continue
		}
		in := script.String()
		if o.cvc {
			var b strings.Builder
			b.WriteString("(set-logic ALL)\n")
			for _, line := range strings.Split(in, "\n") {
				t := strings.TrimSpace(line)
				if strings.HasPrefix(t, "(set-option :timeout") {
					continue
				}
				if t == "(reset)" {
					if b.Len() > 20 {
						b.WriteString("(reset)\n(set-logic ALL)\n")
					}
					continue
				}
				b.WriteString(line)
				b.WriteByte('\n')
			}
			in = b.String()
		} else {
			in = strings.ReplaceAll(in, "(set-option :timeout 60000)", "(set-option :timeout 20000)")
		}
		t0 := time.Now()
		ctx, cancel := context.WithTimeout(context.Background(), 240*time.Second)
		cmd := exec.CommandContext(ctx, o.argv[0], o.argv[1:]...)
		cmd.Stdin = strings.NewReader(in)
		var so bytes.Buffer
		cmd.Stdout = &so
		cmd.Stderr = &so
		cmd.Run()
		cancel()
		r.Secs = time.Since(t0).Seconds()
		var got []string
		nerr := 0
		sc := bufio.NewScanner(&so)
		sc.Buffer(make([]byte, 1<<20), 1<<26)
		for sc.Scan() {
			l := strings.TrimSpace(sc.Text())
			switch {
			case l == "sat" || l == "unsat" || l == "unknown" || l == "timeout":
				got = append(got, l)
			case strings.HasPrefix(l, "(error"):
				nerr++
				if r.Note == "" {
					r.Note = "first error line: " + l
					if len(r.Note) > 300 {
						r.Note = r.Note[:300]
					}
				}
			}
		}
		if nerr > 0 {
			// an error line means a command was not understood: answers after it cannot be aligned reliably
			r.Note = "transcript not accepted (" + r.Note + "); nothing compared"
			continue
		}
		for i, w := range want {
			if i >= len(got) {
				r.NotReached++
				continue
			}
			g := got[i]
			if (w != "sat" && w != "unsat") || (g != "sat" && g != "unsat") {
				r.UnknownEither++
				continue
			}
			r.Compared++
			if g == w {
				r.Agree++
			} else {
				r.Disagree++
				if r.FirstDisagree == 0 {
					r.FirstDisagree = i + 1
				}
			}
		}
	}
	return out
}
