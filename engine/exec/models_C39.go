package exec

import (
	"strconv"

	"verif/gosx/smt"
)

// Model added for the C39 harness: strconv.small(i) (0 <= i < 100, the fast path of FormatInt/Itoa) returns a
// sub-slice of a constant digit table at a position computed from i; with a symbolic i the slice bounds would
// be concretized (one path per value). The model builds the one or two digit bytes arithmetically instead
// (one fork: i < 10), which is what the table encodes.
func init() {
	extraModels = append(extraModels, func(e *Engine) {
		e.reg("strconv.small", func(fr *frame, a []Value) Value {
			t, ok := a[0].(*smt.Term)
			if !ok {
				return strconv.Itoa(int(int64(a[0].(uint64))))
			}
			P := e.P
			b := P.Extract(t, 7, 0)
			zero := P.Const('0', 8)
			ten := P.Const(10, 8)
			if e.decide(P.Cmp(smt.OpSlt, t, P.Const(10, t.W)), fr) {
				return &SStr{B: []Value{P.Bin(smt.OpBvAdd, zero, b)}}
			}
			return &SStr{B: []Value{
				P.Bin(smt.OpBvAdd, zero, P.Bin(smt.OpBvUDiv, b, ten)),
				P.Bin(smt.OpBvAdd, zero, P.Bin(smt.OpBvURem, b, ten)),
			}}
		})
	})
}
