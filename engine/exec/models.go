package exec

import (
	"fmt"
	"go/token"
	"go/types"
	"math"
	"sort"
	"strings"

	"golang.org/x/tools/go/ssa"
	"verif/gosx/smt"
)

// Packages that are never initialised and whose functions are not interpreted unless modelled.
var defaultOpaque = []string{
	"runtime", "runtime/...", "reflect", "syscall", "os", "os/...", "net", "net/...", "internal/poll", "internal/syscall/...",
	"internal/reflectlite", "internal/godebug", "internal/cpu", "internal/bisect", "internal/testlog", "internal/race",
	"internal/runtime/...", "internal/synctest",
	"crypto/...", "log", "log/...", "testing", "testing/...", "encoding/json", "encoding/gob", "encoding/xml",
	"go.uber.org/zap/...", "go.uber.org/zap", "go.uber.org/multierr", "go.uber.org/atomic",
	"github.com/ipfs/go-log/v2", "github.com/ipfs/go-log/...",
	"go.opentelemetry.io/...", "github.com/prometheus/...", "github.com/ipfs/go-metrics-interface", "github.com/ipfs/go-metrics-interface/...",
	"google.golang.org/protobuf/...", "github.com/gogo/protobuf/...", "github.com/golang/protobuf/...",
	"github.com/polydawn/refmt/...", "github.com/libp2p/go-libp2p/core/crypto", "github.com/libp2p/go-libp2p/core/crypto/...",
	"github.com/minio/sha256-simd", "github.com/klauspost/...", "lukechampine.com/blake3/...", "github.com/zeebo/blake3/...",
	"golang.org/x/crypto/...", "golang.org/x/sys/...", "golang.org/x/net/...", "github.com/mattn/go-isatty",
	"unique", "weak", "iter/coro", "hash/maphash", "hash/crc32", "plugin", "os/signal",
}

// Packages whose functions silently do nothing (logging, tracing, metrics).
var noopPkgs = []string{
	"log", "log/...", "go.uber.org/zap/...", "go.uber.org/zap", "github.com/ipfs/go-log/v2", "github.com/ipfs/go-log/...",
	"go.opentelemetry.io/...", "github.com/prometheus/...", "github.com/ipfs/go-metrics-interface", "github.com/ipfs/go-metrics-interface/...",
	"github.com/mattn/go-isatty", "internal/race", "internal/testlog", "internal/bisect",
}

func matchPkg(list []string, path string) bool {
	for _, p := range list {
		if path == p || (strings.HasSuffix(p, "/...") && (path == p[:len(p)-4] || strings.HasPrefix(path, p[:len(p)-3]))) {
			return true
		}
	}
	return false
}

// blackHole is the dynamic "type" of interface values returned by no-op packages.
var blackHoleT = types.NewNamed(types.NewTypeName(token.NoPos, nil, "verif.blackhole", nil), types.NewStruct(nil, nil), nil)

// noopResult builds a harmless result for a signature: zero scalars, non-nil pointers to zero structs,
// black-hole interfaces, and the first context.Context argument passed through.
func (e *Engine) noopResult(sig *types.Signature, args []Value, fn *ssa.Function) Value {
	res := sig.Results()
	mk := func(t types.Type) Value {
		if isContext(t) {
			// find a ctx argument
			for _, a := range args {
				if itf, ok := a.(Iface); ok && itf.T != nil && itf.T != blackHoleT {
					if e.lookupMethod(itf.T, nil, "Deadline") != nil && e.lookupMethod(itf.T, nil, "Done") != nil {
						return itf
					}
				}
			}
		}
		switch u := t.Underlying().(type) {
		case *types.Interface:
			if isError(t) {
				return Iface{}
			}
			return Iface{T: blackHoleT, V: Struct{}}
		case *types.Pointer:
			if _, ok := u.Elem().Underlying().(*types.Struct); ok {
				v := zero(u.Elem())
				return &v
			}
		case *types.Signature:
			sig := u
			return &Native{Name: "noop", F: func(fr *frame, a []Value) Value { return e.noopResult(sig, a, nil) }}
		}
		return zero(t)
	}
	switch res.Len() {
	case 0:
		return nil
	case 1:
		return mk(res.At(0).Type())
	}
	t := make(Tuple, res.Len())
	for i := range t {
		t[i] = mk(res.At(i).Type())
	}
	return t
}

func isContext(t types.Type) bool {
	n, ok := t.(*types.Named)
	return ok && n.Obj().Pkg() != nil && n.Obj().Pkg().Path() == "context" && n.Obj().Name() == "Context"
}

func isError(t types.Type) bool {
	return types.Identical(t, types.Universe.Lookup("error").Type())
}

func (e *Engine) allowedOpaqueFn(fn *ssa.Function) bool {
	// runtime.errorString methods etc. are harmless to interpret
	if fn.Blocks == nil {
		return false
	}
	pkg := fnPackage(fn)
	if pkg == nil {
		return true
	}
	switch pkg.Pkg.Path() {
	case "runtime":
		n := fn.String()
		return strings.Contains(n, "errorString") || strings.Contains(n, "plainError") || strings.Contains(n, "TypeAssertionError") || strings.Contains(n, "boundsError")
	case "internal/oserror", "syscall":
		return strings.Contains(fn.String(), "Errno") || strings.Contains(fn.String(), "Error")
	case "os":
		n := fn.Name()
		switch n {
		case "IsPathSeparator", "IsTimeout", "NewSyscallError", "IsNotExist", "IsExist", "IsPermission", "underlyingErrorIs", "underlyingError", "Error", "Unwrap", "Timeout", "Is",
			"IsDir", "IsRegular", "Perm", "Type", "String", "Name", "Mode", "Size", "ModTime", "Sys":
			return true
		}
	case "google.golang.org/protobuf/proto":
		// wrappers.go: func Uint64(v uint64) *uint64 { return &v } and friends — pure, no package state
		if fn.Signature.Recv() == nil {
			switch fn.Name() {
			case "Bool", "Int32", "Int64", "Uint32", "Uint64", "Float32", "Float64", "String":
				return true
			}
		}
	}
	return false
}

func fieldIndex(t types.Type, name string) int {
	st := t.Underlying().(*types.Struct)
	for i := 0; i < st.NumFields(); i++ {
		if st.Field(i).Name() == name {
			return i
		}
	}
	panic("fieldIndex: no field " + name + " in " + t.String())
}

func (e *Engine) reg(name string, f modelFn) { e.models[name] = f }

func nop(fr *frame, args []Value) Value { return nil }

func intW(v Value, w int) Value { return v }

func registerModels(e *Engine) {
	rt := e.rtPkg + "."
	// ---------------------------------------------------------------- harness runtime
	e.reg(rt+"NondetBool", func(fr *frame, a []Value) Value { return e.nondet(e.concStr(a[0], "nondet name"), 0) })
	e.reg(rt+"NondetU8", func(fr *frame, a []Value) Value { return e.nondet(e.concStr(a[0], "nondet name"), 8) })
	e.reg(rt+"NondetU16", func(fr *frame, a []Value) Value { return e.nondet(e.concStr(a[0], "nondet name"), 16) })
	e.reg(rt+"NondetU32", func(fr *frame, a []Value) Value { return e.nondet(e.concStr(a[0], "nondet name"), 32) })
	e.reg(rt+"NondetU64", func(fr *frame, a []Value) Value { return e.nondet(e.concStr(a[0], "nondet name"), 64) })
	e.reg(rt+"NondetI64", func(fr *frame, a []Value) Value { return e.nondet(e.concStr(a[0], "nondet name"), 64) })
	e.reg(rt+"NondetI32", func(fr *frame, a []Value) Value { return e.nondet(e.concStr(a[0], "nondet name"), 32) })
	e.reg(rt+"NondetInt", func(fr *frame, a []Value) Value { return e.nondet(e.concStr(a[0], "nondet name"), 64) })
	e.reg(rt+"NondetRange", func(fr *frame, a []Value) Value {
		name := e.concStr(a[0], "nondet name")
		lo, hi := asInt(a[1]), asInt(a[2])
		if hi < lo {
			panic(abortPath{kind: abortPruned, msg: "empty NondetRange"})
		}
		// a symbolic variable constrained to the range, then enumerated: keeps the value in the model for replay
		v := e.nondet(name, 64)
		e.assume(norm(e.P.And(e.P.Cmp(smt.OpSle, e.P.Const(uint64(int64(lo)), 64), v), e.P.Cmp(smt.OpSle, v, e.P.Const(uint64(int64(hi)), 64)))), fr)
		return e.concretize(v, fr)
	})
	e.reg(rt+"NondetBytes", func(fr *frame, a []Value) Value {
		name := e.concStr(a[0], "nondet name")
		n := asInt(a[1])
		base := e.freshName(name)
		r := make([]Value, n)
		for i := range r {
			v := e.P.Var(fmt.Sprintf("%s[%d]", base, i), 8)
			e.pathVars = append(e.pathVars, v)
			r[i] = v
		}
		return r
	})
	e.reg(rt+"NondetString", func(fr *frame, a []Value) Value {
		name := e.concStr(a[0], "nondet name")
		n := asInt(a[1])
		base := e.freshName(name)
		r := make([]Value, n)
		for i := range r {
			v := e.P.Var(fmt.Sprintf("%s[%d]", base, i), 8)
			e.pathVars = append(e.pathVars, v)
			r[i] = v
		}
		return mkStr(r)
	})
	e.reg(rt+"Choose", func(fr *frame, a []Value) Value {
		name := e.concStr(a[0], "nondet name")
		n := asInt(a[1])
		v := e.nondet(name, 64)
		e.assume(norm(e.P.Cmp(smt.OpUlt, v, e.P.Const(uint64(n), 64))), fr)
		return v
	})
	e.reg(rt+"Param", func(fr *frame, a []Value) Value {
		if v, ok := e.Params[e.concStr(a[0], "param name")]; ok {
			return uint64(int64(v))
		}
		return a[1]
	})
	e.reg(rt+"Assume", func(fr *frame, a []Value) Value { e.assume(a[0], fr); return nil })
	e.reg(rt+"Assert", func(fr *frame, a []Value) Value {
		e.assertProp(e.concStr(a[0], "assert id"), a[1], fr)
		return nil
	})
	e.reg(rt+"OneOf", func(fr *frame, a []Value) Value {
		set := e.concStr(a[1], "OneOf set")
		var res Value = false
		for i := 0; i < len(set); i++ {
			res = e.or(res, e.intBin(token.EQL, 8, false, a[0], uint64(set[i]), fr))
		}
		return res
	})
	e.reg(rt+"Reach", func(fr *frame, a []Value) Value { e.reachSet[e.concStr(a[0], "reach id")]++; return nil })
	e.reg(rt+"Observe", func(fr *frame, a []Value) Value {
		v := a[1]
		if i, ok := v.(Iface); ok {
			v = i.V
		}
		e.observations = append(e.observations, Observation{Name: e.concStr(a[0], "observe name"), Val: v})
		return nil
	})
	e.reg(rt+"Yield", func(fr *frame, a []Value) Value { e.sched.yield(fr.g); return nil })
	e.reg(rt+"Drain", func(fr *frame, a []Value) Value { e.sched.drain(fr.g); return nil })
	e.reg(rt+"Symbolic", func(fr *frame, a []Value) Value { return true })
	e.reg(rt+"Concretize", func(fr *frame, a []Value) Value {
		if t, ok := a[0].(*smt.Term); ok {
			return e.concretize(t, fr)
		}
		return a[0]
	})
	e.reg(rt+"IsConcrete", func(fr *frame, a []Value) Value {
		if i, ok := a[0].(Iface); ok {
			return !containsSym(i.V)
		}
		return !containsSym(a[0])
	})
	e.reg(rt+"Ite", func(fr *frame, a []Value) Value {
		switch c := a[0].(type) {
		case bool:
			if c {
				return a[1]
			}
			return a[2]
		case *smt.Term:
			return norm(e.P.Ite(c, e.term(a[1], 64), e.term(a[2], 64)))
		}
		panic("Ite")
	})
	e.reg(rt+"HashUF", func(fr *frame, a []Value) Value {
		return e.hashUF(e.concStr(a[0], "hash name"), a[1].([]Value), asInt(a[2]), fr)
	})
	e.reg(rt+"Fatalf", func(fr *frame, a []Value) Value {
		panic(targetPanic{V: Iface{T: types.Typ[types.String], V: "verifrt.Fatalf: " + e.sprintf(fr, a[0], a[1].([]Value))}})
	})

	// ---------------------------------------------------------------- runtime & friends
	for _, n := range []string{"runtime.Gosched"} {
		e.reg(n, func(fr *frame, a []Value) Value { e.sched.yield(fr.g); return nil })
	}
	e.reg("runtime.GOMAXPROCS", func(fr *frame, a []Value) Value { return uint64(4) })
	e.reg("runtime.NumCPU", func(fr *frame, a []Value) Value { return uint64(4) })
	e.reg("runtime.NumGoroutine", func(fr *frame, a []Value) Value { return uint64(1) })
	e.reg("runtime.KeepAlive", nop)
	e.reg("runtime.SetFinalizer", nop)
	e.reg("runtime.GC", nop)
	e.reg("runtime.Caller", func(fr *frame, a []Value) Value { return Tuple{uint64(0), "", uint64(0), false} })
	e.reg("runtime.Callers", func(fr *frame, a []Value) Value { return uint64(0) })
	e.reg("runtime.Stack", func(fr *frame, a []Value) Value { return uint64(0) })
	e.reg("runtime/debug.Stack", func(fr *frame, a []Value) Value { return []Value{} })
	e.reg("runtime/debug.SetGCPercent", func(fr *frame, a []Value) Value { return uint64(100) })
	e.reg("runtime.Goexit", func(fr *frame, a []Value) Value { panic(unsupported("runtime.Goexit")) })
	e.reg("sync.runtime_registerPoolCleanup", nop)
	e.reg("sync.runtime_notifyListCheck", nop)
	e.reg("sync.throw", func(fr *frame, a []Value) Value {
		panic(targetPanic{V: Iface{T: types.Typ[types.String], V: "fatal error: " + e.concStr(a[0], "throw")}})
	})
	e.reg("sync.fatal", func(fr *frame, a []Value) Value {
		panic(targetPanic{V: Iface{T: types.Typ[types.String], V: "fatal error: " + e.concStr(a[0], "fatal")}})
	})
	e.reg("internal/abi.NoEscape", func(fr *frame, a []Value) Value { return a[0] })
	e.reg("internal/abi.Escape", func(fr *frame, a []Value) Value { return a[0] })
	e.reg("internal/godebug.New", func(fr *frame, a []Value) Value {
		t := fr.fn.Signature.Results().At(0).Type()
		v := zero(deref(t))
		return &v
	})
	e.reg("(*internal/godebug.Setting).Value", func(fr *frame, a []Value) Value { return "" })
	e.reg("(*internal/godebug.Setting).IncNonDefault", nop)
	e.reg("(*internal/godebug.Setting).Name", func(fr *frame, a []Value) Value { return "" })
	e.reg("(*internal/godebug.Setting).String", func(fr *frame, a []Value) Value { return "" })
	e.reg("os.Getenv", func(fr *frame, a []Value) Value { return "" })
	e.reg("os.LookupEnv", func(fr *frame, a []Value) Value { return Tuple{"", false} })
	e.reg("os.Getpid", func(fr *frame, a []Value) Value { return uint64(4242) })
	e.reg("os.Exit", func(fr *frame, a []Value) Value { panic(abortPath{kind: abortExit, msg: "os.Exit"}) })
	e.reg("syscall.Getenv", func(fr *frame, a []Value) Value { return Tuple{"", false} })
	e.reg("syscall.runtime_envs", func(fr *frame, a []Value) Value { return []Value{} })
	e.reg("time.initLocal", nop)

	// ---------------------------------------------------------------- bytealg
	idxByte := func(fr *frame, hay []Value, c Value) Value {
		for i, b := range hay {
			if e.decideV(e.intBin(token.EQL, 8, false, b, c, fr), fr) {
				return uint64(i)
			}
		}
		return uint64(math.MaxUint64) // -1
	}
	e.reg("internal/bytealg.IndexByte", func(fr *frame, a []Value) Value { return idxByte(fr, a[0].([]Value), a[1]) })
	e.reg("internal/bytealg.IndexByteString", func(fr *frame, a []Value) Value { return idxByte(fr, strBytes(a[0]), a[1]) })
	lastIdxByte := func(fr *frame, hay []Value, c Value) Value {
		for i := len(hay) - 1; i >= 0; i-- {
			if e.decideV(e.intBin(token.EQL, 8, false, hay[i], c, fr), fr) {
				return uint64(i)
			}
		}
		return uint64(math.MaxUint64)
	}
	e.reg("internal/bytealg.LastIndexByte", func(fr *frame, a []Value) Value { return lastIdxByte(fr, a[0].([]Value), a[1]) })
	e.reg("internal/bytealg.LastIndexByteString", func(fr *frame, a []Value) Value { return lastIdxByte(fr, strBytes(a[0]), a[1]) })
	count := func(fr *frame, hay []Value, c Value) Value {
		var n Value = uint64(0)
		for _, b := range hay {
			eq := e.intBin(token.EQL, 8, false, b, c, fr)
			switch q := eq.(type) {
			case bool:
				if q {
					n = e.intBin(token.ADD, 64, true, n, uint64(1), fr)
				}
			case *smt.Term:
				n = e.intBin(token.ADD, 64, true, n, norm(e.P.Ite(q, e.P.Const(1, 64), e.P.Const(0, 64))), fr)
			}
		}
		return n
	}
	e.reg("internal/bytealg.Count", func(fr *frame, a []Value) Value { return count(fr, a[0].([]Value), a[1]) })
	e.reg("internal/bytealg.CountString", func(fr *frame, a []Value) Value { return count(fr, strBytes(a[0]), a[1]) })
	index := func(fr *frame, hay, needle []Value) Value {
		n := len(needle)
		for i := 0; i+n <= len(hay); i++ {
			var eq Value = true
			for j := 0; j < n; j++ {
				eq = e.and(eq, e.intBin(token.EQL, 8, false, hay[i+j], needle[j], fr))
				if eq == false {
					break
				}
			}
			if e.decideV(eq, fr) {
				return uint64(i)
			}
		}
		return uint64(math.MaxUint64)
	}
	e.reg("internal/bytealg.Index", func(fr *frame, a []Value) Value { return index(fr, a[0].([]Value), a[1].([]Value)) })
	e.reg("internal/bytealg.IndexString", func(fr *frame, a []Value) Value { return index(fr, strBytes(a[0]), strBytes(a[1])) })
	e.reg("internal/bytealg.MakeNoZero", func(fr *frame, a []Value) Value {
		n := e.concInt(a[0], types.Typ[types.Int], fr) // a symbolic size (strings.Builder.Grow(n)) is concretized like make's
		return makeSlice(types.Typ[types.Uint8], n, n)
	})
	e.reg("internal/bytealg.Equal", func(fr *frame, a []Value) Value { return e.strEq(mkStr(a[0].([]Value)), mkStr(a[1].([]Value))) })
	e.reg("internal/bytealg.Compare", func(fr *frame, a []Value) Value {
		x, y := mkStr(a[0].([]Value)), mkStr(a[1].([]Value))
		if e.decideV(e.strEq(x, y), fr) {
			return uint64(0)
		}
		if e.decideV(e.strCompare(token.LSS, x, y), fr) {
			return uint64(math.MaxUint64)
		}
		return uint64(1)
	})
	e.reg("internal/stringslite.Index", func(fr *frame, a []Value) Value { return index(fr, strBytes(a[0]), strBytes(a[1])) })
	e.reg("strings.Index", func(fr *frame, a []Value) Value { return index(fr, strBytes(a[0]), strBytes(a[1])) })
	e.reg("bytes.Index", func(fr *frame, a []Value) Value { return index(fr, a[0].([]Value), a[1].([]Value)) })

	// ---------------------------------------------------------------- math
	e.reg("math.Float64bits", func(fr *frame, a []Value) Value { return math.Float64bits(a[0].(float64)) })
	e.reg("math.Float64frombits", func(fr *frame, a []Value) Value {
		return math.Float64frombits(e.concretizeV(a[0], fr))
	})
	e.reg("math.Float32bits", func(fr *frame, a []Value) Value { return uint64(math.Float32bits(float32(a[0].(float64)))) })
	e.reg("math.Float32frombits", func(fr *frame, a []Value) Value {
		return float64(math.Float32frombits(uint32(e.concretizeV(a[0], fr))))
	})
	f1 := func(name string, f func(float64) float64) {
		e.reg("math."+name, func(fr *frame, a []Value) Value { return f(a[0].(float64)) })
		e.reg("math.arch"+name, func(fr *frame, a []Value) Value { return f(a[0].(float64)) })
	}
	f1("Floor", math.Floor)
	f1("Ceil", math.Ceil)
	f1("Trunc", math.Trunc)
	f1("Sqrt", math.Sqrt)
	f1("Log", math.Log)
	f1("Log2", math.Log2)
	f1("Exp", math.Exp)
	f1("Abs", math.Abs)
	f1("Round", math.Round)
	e.reg("math.Pow", func(fr *frame, a []Value) Value { return math.Pow(a[0].(float64), a[1].(float64)) })
	e.reg("math.IsNaN", func(fr *frame, a []Value) Value { return math.IsNaN(a[0].(float64)) })
	e.reg("math.IsInf", func(fr *frame, a []Value) Value { return math.IsInf(a[0].(float64), asInt(a[1])) })
	e.reg("math.Inf", func(fr *frame, a []Value) Value { return math.Inf(asInt(a[0])) })
	e.reg("math.NaN", func(fr *frame, a []Value) Value { return math.NaN() })

	// math/bits
	for _, w := range []int{8, 16, 32, 64, 0} {
		w := w
		sfx := fmt.Sprint(w)
		ww := w
		if w == 0 {
			sfx = ""
			ww = 64
		}
		e.reg("math/bits.Len"+sfx, func(fr *frame, a []Value) Value { return e.bitsLen(a[0], ww) })
		e.reg("math/bits.LeadingZeros"+sfx, func(fr *frame, a []Value) Value {
			return e.intBin(token.SUB, 64, true, uint64(ww), e.bitsLen(a[0], ww), fr)
		})
		e.reg("math/bits.TrailingZeros"+sfx, func(fr *frame, a []Value) Value { return e.bitsTZ(a[0], ww) })
		e.reg("math/bits.OnesCount"+sfx, func(fr *frame, a []Value) Value { return e.bitsPop(a[0], ww) })
	}

	registerSyncModels(e)
	registerTimeModels(e)
	registerFmtModels(e)
	registerMiscModels(e)
	for _, f := range extraModels {
		f(e)
	}
}

// extraModels lets models_<ID>.go files add models without touching this file.
var extraModels []func(e *Engine)

func containsSym(v Value) bool {
	switch v := v.(type) {
	case *smt.Term, *SStr:
		return true
	case []Value:
		for _, x := range v {
			if containsSym(x) {
				return true
			}
		}
	case Struct:
		return containsSym([]Value(v))
	case Array:
		return containsSym([]Value(v))
	case Iface:
		return containsSym(v.V)
	}
	return false
}

func (e *Engine) concretizeV(v Value, fr *frame) uint64 {
	switch v := v.(type) {
	case uint64:
		return v
	case *smt.Term:
		return e.concretize(v, fr)
	}
	panic(fmt.Sprintf("concretizeV: %T", v))
}

func (e *Engine) bitsLen(v Value, w int) Value {
	if c, ok := v.(uint64); ok {
		n := 0
		for c != 0 {
			n++
			c >>= 1
		}
		return uint64(n)
	}
	t := v.(*smt.Term)
	res := e.P.Const(0, 64)
	for i := 0; i < w; i++ {
		bit := e.P.Eq(e.P.Extract(t, i, i), e.P.Const(1, 1))
		res = e.P.Ite(bit, e.P.Const(uint64(i+1), 64), res)
	}
	return norm(res)
}

func (e *Engine) bitsTZ(v Value, w int) Value {
	if c, ok := v.(uint64); ok {
		if c == 0 {
			return uint64(w)
		}
		n := 0
		for c&1 == 0 {
			n++
			c >>= 1
		}
		return uint64(n)
	}
	t := v.(*smt.Term)
	res := e.P.Const(uint64(w), 64)
	for i := w - 1; i >= 0; i-- {
		bit := e.P.Eq(e.P.Extract(t, i, i), e.P.Const(1, 1))
		res = e.P.Ite(bit, e.P.Const(uint64(i), 64), res)
	}
	return norm(res)
}

func (e *Engine) bitsPop(v Value, w int) Value {
	if c, ok := v.(uint64); ok {
		n := 0
		for c != 0 {
			n += int(c & 1)
			c >>= 1
		}
		return uint64(n)
	}
	t := v.(*smt.Term)
	res := e.P.Const(0, 64)
	for i := 0; i < w; i++ {
		res = e.P.Bin(smt.OpBvAdd, res, e.P.ZExt(e.P.Extract(t, i, i), 64))
	}
	return norm(res)
}

// ---------------------------------------------------------------- sync & atomic

func registerSyncModels(e *Engine) {
	e.reg("(*sync.Mutex).Lock", func(fr *frame, a []Value) Value { e.sched.lock(fr.g, a[0].(*Value)); return nil })
	e.reg("(*sync.Mutex).Unlock", func(fr *frame, a []Value) Value { e.sched.unlock(fr.g, a[0].(*Value)); return nil })
	e.reg("(*sync.Mutex).TryLock", func(fr *frame, a []Value) Value { return e.sched.tryLock(fr.g, a[0].(*Value)) })
	e.reg("(*internal/sync.Mutex).Lock", func(fr *frame, a []Value) Value { e.sched.lock(fr.g, a[0].(*Value)); return nil })
	e.reg("(*internal/sync.Mutex).Unlock", func(fr *frame, a []Value) Value { e.sched.unlock(fr.g, a[0].(*Value)); return nil })
	e.reg("(*internal/sync.Mutex).TryLock", func(fr *frame, a []Value) Value { return e.sched.tryLock(fr.g, a[0].(*Value)) })
	e.reg("(*sync.RWMutex).Lock", func(fr *frame, a []Value) Value { e.sched.rwLock(fr.g, a[0].(*Value)); return nil })
	e.reg("(*sync.RWMutex).Unlock", func(fr *frame, a []Value) Value { e.sched.rwUnlock(fr.g, a[0].(*Value)); return nil })
	e.reg("(*sync.RWMutex).RLock", func(fr *frame, a []Value) Value { e.sched.rwRLock(fr.g, a[0].(*Value)); return nil })
	e.reg("(*sync.RWMutex).RUnlock", func(fr *frame, a []Value) Value { e.sched.rwRUnlock(fr.g, a[0].(*Value)); return nil })
	e.reg("(*sync.RWMutex).TryLock", func(fr *frame, a []Value) Value {
		m := e.sched.rwm(a[0].(*Value))
		if m.writer || m.readers > 0 {
			return false
		}
		m.writer = true
		return true
	})
	e.reg("(*sync.RWMutex).TryRLock", func(fr *frame, a []Value) Value {
		m := e.sched.rwm(a[0].(*Value))
		if m.writer || m.wwaiting > 0 {
			return false
		}
		m.readers++
		return true
	})
	e.reg("(*sync.WaitGroup).Add", func(fr *frame, a []Value) Value {
		s := e.sched
		w := s.wg(a[0].(*Value))
		w.n += int64(asInt(a[1]))
		if w.n < 0 {
			panic(targetPanic{V: Iface{T: types.Typ[types.String], V: "sync: negative WaitGroup counter"}})
		}
		if w.n == 0 {
			s.wakeAll(&w.waiters)
		}
		s.schedPoint(fr.g)
		return nil
	})
	e.reg("(*sync.WaitGroup).Done", func(fr *frame, a []Value) Value {
		s := e.sched
		w := s.wg(a[0].(*Value))
		w.n--
		if w.n < 0 {
			panic(targetPanic{V: Iface{T: types.Typ[types.String], V: "sync: negative WaitGroup counter"}})
		}
		if w.n == 0 {
			s.wakeAll(&w.waiters)
		}
		s.schedPoint(fr.g)
		return nil
	})
	e.reg("(*sync.WaitGroup).Wait", func(fr *frame, a []Value) Value {
		s := e.sched
		s.schedPoint(fr.g)
		w := s.wg(a[0].(*Value))
		for w.n > 0 {
			w.waiters = append(w.waiters, fr.g)
			s.block(fr.g, "WaitGroup.Wait")
		}
		return nil
	})
	// sync.Cond
	condL := func(fr *frame, c *Value) Iface {
		t := deref(fr.fn.Signature.Recv().Type())
		return (*c).(Struct)[fieldIndex(t, "L")].(Iface)
	}
	callM := func(fr *frame, recv Iface, name string) {
		m := e.lookupMethod(recv.T, nil, name)
		e.callSSA(fr, fr.g, token.NoPos, m, []Value{recv.V}, nil)
	}
	e.reg("(*sync.Cond).Wait", func(fr *frame, a []Value) Value {
		s := e.sched
		c := a[0].(*Value)
		st := s.conds[c]
		if st == nil {
			st = &condState{}
			s.conds[c] = st
		}
		l := condL(fr, c)
		st.waiters = append(st.waiters, fr.g)
		callM(fr, l, "Unlock")
		s.block(fr.g, "Cond.Wait")
		callM(fr, l, "Lock")
		return nil
	})
	e.reg("(*sync.Cond).Signal", func(fr *frame, a []Value) Value {
		s := e.sched
		if st := s.conds[a[0].(*Value)]; st != nil && len(st.waiters) > 0 {
			g := st.waiters[0]
			st.waiters = st.waiters[1:]
			s.ready(g)
		}
		s.schedPoint(fr.g)
		return nil
	})
	e.reg("(*sync.Cond).Broadcast", func(fr *frame, a []Value) Value {
		s := e.sched
		if st := s.conds[a[0].(*Value)]; st != nil {
			s.wakeAll(&st.waiters)
		}
		s.schedPoint(fr.g)
		return nil
	})
	// sync.Pool: never reuses (a legal behaviour of sync.Pool)
	e.reg("(*sync.Pool).Put", nop)
	e.reg("(*sync.Pool).Get", func(fr *frame, a []Value) Value {
		p := a[0].(*Value)
		t := deref(fr.fn.Signature.Recv().Type())
		nf := (*p).(Struct)[fieldIndex(t, "New")]
		switch f := nf.(type) {
		case *ssa.Function:
			if f == nil {
				return Iface{}
			}
		}
		return e.call(fr, token.NoPos, nf, nil)
	})
	// sync.Map as an engine map keyed by `any`
	smap := func(p *Value) *Map {
		s := e.sched
		m := s.smaps[p]
		if m == nil {
			m = newMap(types.NewInterfaceType(nil, nil))
			s.smaps[p] = m
		}
		return m
	}
	e.reg("(*sync.Map).Load", func(fr *frame, a []Value) Value {
		e.sched.schedPoint(fr.g)
		if ent := e.mapFind(fr, smap(a[0].(*Value)), a[1]); ent != nil {
			return Tuple{ent.v, true}
		}
		return Tuple{Iface{}, false}
	})
	e.reg("(*sync.Map).Store", func(fr *frame, a []Value) Value {
		e.sched.schedPoint(fr.g)
		e.mapInsert(fr, smap(a[0].(*Value)), a[1], a[2])
		return nil
	})
	e.reg("(*sync.Map).LoadOrStore", func(fr *frame, a []Value) Value {
		e.sched.schedPoint(fr.g)
		m := smap(a[0].(*Value))
		if ent := e.mapFind(fr, m, a[1]); ent != nil {
			return Tuple{ent.v, true}
		}
		e.mapInsert(fr, m, a[1], a[2])
		return Tuple{a[2], false}
	})
	e.reg("(*sync.Map).LoadAndDelete", func(fr *frame, a []Value) Value {
		e.sched.schedPoint(fr.g)
		m := smap(a[0].(*Value))
		if ent := e.mapFind(fr, m, a[1]); ent != nil {
			v := ent.v
			e.mapDelete(fr, m, a[1])
			return Tuple{v, true}
		}
		return Tuple{Iface{}, false}
	})
	e.reg("(*sync.Map).Delete", func(fr *frame, a []Value) Value {
		e.sched.schedPoint(fr.g)
		e.mapDelete(fr, smap(a[0].(*Value)), a[1])
		return nil
	})
	e.reg("(*sync.Map).Swap", func(fr *frame, a []Value) Value {
		e.sched.schedPoint(fr.g)
		m := smap(a[0].(*Value))
		var prev Value = Iface{}
		loaded := false
		if ent := e.mapFind(fr, m, a[1]); ent != nil {
			prev, loaded = ent.v, true
		}
		e.mapInsert(fr, m, a[1], a[2])
		return Tuple{prev, loaded}
	})
	e.reg("(*sync.Map).Range", func(fr *frame, a []Value) Value {
		m := smap(a[0].(*Value))
		ents := append([]*mapEnt(nil), m.ents...)
		for _, ent := range ents {
			if ent.deleted {
				continue
			}
			if r := e.call(fr, token.NoPos, a[1], []Value{ent.k, ent.v}); r == false {
				break
			}
		}
		return nil
	})
	e.reg("(*sync.Map).Clear", func(fr *frame, a []Value) Value {
		delete(e.sched.smaps, a[0].(*Value))
		return nil
	})

	// sync/atomic functions
	type aop struct {
		name string
		w    int
	}
	for _, t := range []aop{{"Int32", 32}, {"Int64", 64}, {"Uint32", 32}, {"Uint64", 64}, {"Uintptr", 64}} {
		w := t.w
		e.reg("sync/atomic.Load"+t.name, func(fr *frame, a []Value) Value {
			e.sched.schedPoint(fr.g)
			return e.load(nil, a[0], fr)
		})
		e.reg("sync/atomic.Store"+t.name, func(fr *frame, a []Value) Value {
			e.sched.schedPoint(fr.g)
			e.store(nil, a[0], a[1], fr)
			return nil
		})
		e.reg("sync/atomic.Add"+t.name, func(fr *frame, a []Value) Value {
			e.sched.schedPoint(fr.g)
			p := a[0].(*Value)
			if p == nil {
				panic(e.runtimePanic("invalid memory address or nil pointer dereference"))
			}
			n := e.intBin(token.ADD, w, false, *p, a[1], fr)
			e.set(p, n)
			return n
		})
		e.reg("sync/atomic.And"+t.name, func(fr *frame, a []Value) Value {
			e.sched.schedPoint(fr.g)
			p := a[0].(*Value)
			old := *p
			e.set(p, e.intBin(token.AND, w, false, old, a[1], fr))
			return old
		})
		e.reg("sync/atomic.Or"+t.name, func(fr *frame, a []Value) Value {
			e.sched.schedPoint(fr.g)
			p := a[0].(*Value)
			old := *p
			e.set(p, e.intBin(token.OR, w, false, old, a[1], fr))
			return old
		})
		e.reg("sync/atomic.Swap"+t.name, func(fr *frame, a []Value) Value {
			e.sched.schedPoint(fr.g)
			p := a[0].(*Value)
			old := *p
			e.set(p, a[1])
			return old
		})
		e.reg("sync/atomic.CompareAndSwap"+t.name, func(fr *frame, a []Value) Value {
			e.sched.schedPoint(fr.g)
			p := a[0].(*Value)
			if e.decideV(e.intBin(token.EQL, w, false, *p, a[1], fr), fr) {
				e.set(p, a[2])
				return true
			}
			return false
		})
	}
	e.reg("sync/atomic.LoadPointer", func(fr *frame, a []Value) Value {
		e.sched.schedPoint(fr.g)
		return e.load(nil, a[0], fr)
	})
	e.reg("sync/atomic.StorePointer", func(fr *frame, a []Value) Value {
		e.sched.schedPoint(fr.g)
		e.store(nil, a[0], a[1], fr)
		return nil
	})
	e.reg("sync/atomic.SwapPointer", func(fr *frame, a []Value) Value {
		e.sched.schedPoint(fr.g)
		p := a[0].(*Value)
		old := *p
		e.set(p, a[1])
		return old
	})
	e.reg("sync/atomic.CompareAndSwapPointer", func(fr *frame, a []Value) Value {
		e.sched.schedPoint(fr.g)
		p := a[0].(*Value)
		if (*p).(UPtr).P == a[1].(UPtr).P {
			e.set(p, a[2])
			return true
		}
		return false
	})
	// atomic.Value: field v any
	e.reg("(*sync/atomic.Value).Load", func(fr *frame, a []Value) Value {
		e.sched.schedPoint(fr.g)
		p := a[0].(*Value)
		return (*p).(Struct)[0]
	})
	e.reg("(*sync/atomic.Value).Store", func(fr *frame, a []Value) Value {
		e.sched.schedPoint(fr.g)
		p := a[0].(*Value)
		if a[1].(Iface).T == nil {
			panic(targetPanic{V: Iface{T: types.Typ[types.String], V: "sync/atomic: store of nil value into Value"}})
		}
		e.set(&(*p).(Struct)[0], a[1])
		return nil
	})
	e.reg("(*sync/atomic.Value).Swap", func(fr *frame, a []Value) Value {
		e.sched.schedPoint(fr.g)
		p := a[0].(*Value)
		old := (*p).(Struct)[0]
		e.set(&(*p).(Struct)[0], a[1])
		return old
	})
	e.reg("(*sync/atomic.Value).CompareAndSwap", func(fr *frame, a []Value) Value {
		e.sched.schedPoint(fr.g)
		p := a[0].(*Value)
		cur := (*p).(Struct)[0].(Iface)
		old := a[1].(Iface)
		same := (cur.T == nil && old.T == nil) || (cur.T != nil && old.T != nil && types.Identical(cur.T, old.T) && e.decideV(e.equals(cur.T, cur.V, old.V), fr))
		if same {
			e.set(&(*p).(Struct)[0], a[2])
			return true
		}
		return false
	})
}

// ---------------------------------------------------------------- time

func registerTimeModels(e *Engine) {
	now := func(fr *frame, a []Value) Value {
		e.clock += 1000 // every reading advances the clock by 1µs: strictly monotone
		sec := e.clock / 1_000_000_000
		nsec := e.clock % 1_000_000_000
		return Tuple{uint64(sec), uint64(nsec), uint64(e.clock)}
	}
	e.reg("time.now", now)
	e.reg("time.runtimeNow", now)
	e.reg("time.runtimeIsBubbled", func(fr *frame, a []Value) Value { return false })
	e.reg("time.runtimeNano",func(fr *frame, a []Value) Value { return uint64(e.clock) })
	e.reg("time.Sleep", func(fr *frame, a []Value) Value {
		d := int64(e.concretizeV(a[0], fr))
		if d > 0 {
			// sleeping = a one-shot timer that wakes us
			g := fr.g
			e.sched.addTimer(d, 0, func(s *scheduler) { s.ready(g) })
			e.sched.block(g, "time.Sleep")
		} else {
			e.sched.yield(fr.g)
		}
		return nil
	})
	timerOf := map[*Value]*timer{}
	_ = timerOf
	mkTimer := func(fr *frame, d int64, period int64, f Value, isTicker bool) *Value {
		// Timer{C <-chan Time, initTimer bool}; Ticker{C, initTicker}
		rt := deref(fr.fn.Signature.Results().At(0).Type())
		tv := zero(rt)
		p := &tv
		var ch *Chan
		if f == nil {
			ch = e.makeChan(1)
			(*p).(Struct)[fieldIndex(rt, "C")] = ch
		}
		t := e.sched.addTimer(d, period, func(s *scheduler) {
			if f != nil {
				e.spawnNative(f)
				return
			}
			if len(ch.buf) < ch.cap {
				tm := e.timeNow(fr)
				if w := liveWaiter(&ch.recvq); w != nil {
					w.complete(s, tm, true, false)
				} else {
					ch.buf = append(ch.buf, tm)
				}
			}
		})
		e.sched.ttab()[p] = t
		return p
	}
	e.reg("time.NewTimer", func(fr *frame, a []Value) Value {
		return mkTimer(fr, int64(e.concretizeV(a[0], fr)), 0, nil, false)
	})
	e.reg("time.AfterFunc", func(fr *frame, a []Value) Value {
		return mkTimer(fr, int64(e.concretizeV(a[0], fr)), 0, a[1], false)
	})
	e.reg("time.NewTicker", func(fr *frame, a []Value) Value {
		d := int64(e.concretizeV(a[0], fr))
		if d <= 0 {
			panic(targetPanic{V: Iface{T: types.Typ[types.String], V: "non-positive interval for NewTicker"}})
		}
		return mkTimer(fr, d, d, nil, true)
	})
	e.reg("time.After", func(fr *frame, a []Value) Value {
		ch := e.makeChan(1)
		e.sched.addTimer(int64(e.concretizeV(a[0], fr)), 0, func(s *scheduler) {
			tm := e.timeNow(fr)
			if w := liveWaiter(&ch.recvq); w != nil {
				w.complete(s, tm, true, false)
			} else if len(ch.buf) < 1 {
				ch.buf = append(ch.buf, tm)
			}
		})
		return ch
	})
	e.reg("time.Tick", func(fr *frame, a []Value) Value { panic(unsupported("time.Tick")) })
	e.reg("(*time.Timer).Stop", func(fr *frame, a []Value) Value {
		e.sched.schedPoint(fr.g)
		t := e.sched.ttab()[a[0].(*Value)]
		if t == nil {
			panic(targetPanic{V: Iface{T: types.Typ[types.String], V: "time: Stop called on uninitialized Timer"}})
		}
		was := t.active
		t.active = false
		return was
	})
	e.reg("(*time.Timer).Reset", func(fr *frame, a []Value) Value {
		e.sched.schedPoint(fr.g)
		t := e.sched.ttab()[a[0].(*Value)]
		if t == nil {
			panic(targetPanic{V: Iface{T: types.Typ[types.String], V: "time: Reset called on uninitialized Timer"}})
		}
		was := t.active
		d := int64(e.concretizeV(a[1], fr))
		if d < 0 {
			d = 0
		}
		t.when = e.clock + d
		t.active = true
		// Go 1.23+ semantics: Reset drains a stale value from the channel
		p := a[0].(*Value)
		if ch, ok := (*p).(Struct)[0].(*Chan); ok && ch != nil {
			ch.buf = nil
		}
		return was
	})
	e.reg("(*time.Ticker).Stop", func(fr *frame, a []Value) Value {
		if t := e.sched.ttab()[a[0].(*Value)]; t != nil {
			t.active = false
		}
		return nil
	})
	e.reg("(*time.Ticker).Reset", func(fr *frame, a []Value) Value {
		if t := e.sched.ttab()[a[0].(*Value)]; t != nil {
			d := int64(e.concretizeV(a[1], fr))
			t.period = d
			t.when = e.clock + d
			t.active = true
		}
		return nil
	})
}

var timerTabs = map[*scheduler]map[*Value]*timer{}

func (s *scheduler) ttab() map[*Value]*timer {
	if s.ttabM == nil {
		s.ttabM = map[*Value]*timer{}
	}
	return s.ttabM
}

// timeNow builds a time.Time value for the current virtual clock by calling time.Unix.
func (e *Engine) timeNow(fr *frame) Value {
	pkg := e.Prog.ImportedPackage("time")
	if pkg == nil {
		panic(unsupported("time package not loaded"))
	}
	fn := pkg.Func("Unix")
	return e.callSSA(nil, e.curG(), token.NoPos, fn, []Value{uint64(e.clock / 1_000_000_000), uint64(e.clock % 1_000_000_000)}, nil)
}

// spawnNative starts a goroutine running a func value with no arguments (timer callbacks).
func (e *Engine) spawnNative(f Value) {
	s := e.sched
	g := s.newG("timer-func")
	s.start(g, func(g *gor) {
		e.call(&frame{e: e, g: g}, token.NoPos, f, nil)
	})
}

// ---------------------------------------------------------------- sort, errors, misc

func registerMiscModels(e *Engine) {
	sortSlice := func(fr *frame, a []Value) Value {
		s := a[0].(Iface).V.([]Value)
		less := a[1]
		// insertion sort: stable, and fine for the short slices the harnesses use
		for i := 1; i < len(s); i++ {
			for j := i; j > 0; j-- {
				r := e.call(fr, token.NoPos, less, []Value{uint64(j), uint64(j - 1)})
				if !e.decideV(r, fr) {
					break
				}
				tmp := copyVal(s[j])
				e.storeAt(&s[j], copyVal(s[j-1]))
				e.storeAt(&s[j-1], tmp)
			}
		}
		return nil
	}
	e.reg("sort.Slice", sortSlice)
	e.reg("sort.SliceStable", sortSlice)
	e.reg("sort.SliceIsSorted", func(fr *frame, a []Value) Value {
		s := a[0].(Iface).V.([]Value)
		for i := len(s) - 1; i > 0; i-- {
			if e.decideV(e.call(fr, token.NoPos, a[1], []Value{uint64(i), uint64(i - 1)}), fr) {
				return false
			}
		}
		return true
	})

	// errors.Is / errors.As
	e.reg("errors.Is", func(fr *frame, a []Value) Value { return e.errorsIs(fr, a[0].(Iface), a[1].(Iface), 0) })
	e.reg("errors.As", func(fr *frame, a []Value) Value { return e.errorsAs(fr, a[0].(Iface), a[1].(Iface), 0) })
	e.reg("internal/reflectlite.TypeOf", func(fr *frame, a []Value) Value {
		if e.inInit > 0 {
			return Iface{T: blackHoleT, V: Struct{}} // errors.errorType: only used by errors.As, which is modelled
		}
		panic(unsupported("reflectlite.TypeOf"))
	})

	// math/rand: arbitrary values in range
	randN := func(w int) modelFn {
		return func(fr *frame, a []Value) Value {
			n := a[len(a)-1]
			if e.decideV(e.intBin(token.LEQ, w, true, n, uint64(0), fr), fr) {
				panic(targetPanic{V: Iface{T: types.Typ[types.String], V: "invalid argument to IntN"}})
			}
			v := e.nondet("rand", w)
			e.assume(e.and(e.intBin(token.GEQ, w, true, v, uint64(0), fr), e.intBin(token.LSS, w, true, v, n, fr)), fr)
			return v
		}
	}
	for _, n := range []string{"math/rand.Int63n", "math/rand.Int64N", "math/rand/v2.Int64N", "math/rand.Intn", "math/rand/v2.IntN", "math/rand/v2.N[int64]", "math/rand/v2.N[int]",
		"(*math/rand.Rand).Int63n", "(*math/rand.Rand).Intn", "(*math/rand/v2.Rand).Int64N", "(*math/rand/v2.Rand).IntN"} {
		e.reg(n, randN(64))
	}
	for _, n := range []string{"math/rand.Int31n", "math/rand/v2.Int32N", "(*math/rand.Rand).Int31n"} {
		e.reg(n, randN(32))
	}
	e.reg("math/rand.Int63", func(fr *frame, a []Value) Value {
		v := e.nondet("rand", 64)
		e.assume(e.intBin(token.GEQ, 64, true, v, uint64(0), fr), fr)
		return v
	})
	e.reg("math/rand.Uint32", func(fr *frame, a []Value) Value { return e.nondet("rand", 32) })
	e.reg("math/rand/v2.Uint64", func(fr *frame, a []Value) Value { return e.nondet("rand", 64) })
	e.reg("math/rand.Seed", nop)
	e.reg("math/rand.Shuffle", nop) // identity permutation is a legal outcome
	e.reg("math/rand/v2.Shuffle", nop)
	e.reg("math/rand.New", func(fr *frame, a []Value) Value {
		t := fr.fn.Signature.Results().At(0).Type()
		v := zero(deref(t))
		return &v
	})
	e.reg("math/rand.NewSource", func(fr *frame, a []Value) Value { return Iface{T: blackHoleT, V: Struct{}} })
}

func (e *Engine) errorsIs(fr *frame, err, target Iface, depth int) Value {
	if err.T == nil || target.T == nil {
		return err.T == nil && target.T == nil
	}
	if depth > 50 {
		panic(unsupported("errors.Is: chain too deep"))
	}
	comparable := types.Comparable(target.T)
	for {
		if comparable && types.Identical(err.T, target.T) && e.decideV(e.equals(err.T, err.V, target.V), fr) {
			return true
		}
		if m := e.lookupMethod(err.T, nil, "Is"); m != nil && m.Signature.Params().Len() == 1 && isError(m.Signature.Params().At(0).Type()) {
			if e.decideV(e.callSSA(fr, fr.g, token.NoPos, m, []Value{err.V, target}, nil), fr) {
				return true
			}
		}
		m := e.lookupMethod(err.T, nil, "Unwrap")
		if m == nil {
			return false
		}
		res := m.Signature.Results()
		if res.Len() != 1 {
			return false
		}
		r := e.callSSA(fr, fr.g, token.NoPos, m, []Value{err.V}, nil)
		if isError(res.At(0).Type()) {
			err = r.(Iface)
			if err.T == nil {
				return false
			}
			continue
		}
		if sl, ok := r.([]Value); ok {
			for _, x := range sl {
				if xi := x.(Iface); xi.T != nil && e.decideV(e.errorsIs(fr, xi, target, depth+1), fr) {
					return true
				}
			}
		}
		return false
	}
}

func (e *Engine) errorsAs(fr *frame, err, target Iface, depth int) Value {
	if err.T == nil {
		return false
	}
	if target.T == nil {
		panic(targetPanic{V: Iface{T: types.Typ[types.String], V: "errors: target cannot be nil"}})
	}
	pt, ok := target.T.Underlying().(*types.Pointer)
	if !ok {
		panic(targetPanic{V: Iface{T: types.Typ[types.String], V: "errors: target must be a non-nil pointer"}})
	}
	tt := pt.Elem()
	tp := target.V.(*Value)
	for {
		assignable := false
		if it, ok := tt.Underlying().(*types.Interface); ok {
			assignable = types.Implements(err.T, it)
			if assignable {
				e.set(tp, err)
				return true
			}
		} else if types.Identical(err.T, tt) {
			e.storeAt(tp, copyVal(err.V))
			return true
		}
		if m := e.lookupMethod(err.T, nil, "As"); m != nil && m.Signature.Params().Len() == 1 {
			if e.decideV(e.callSSA(fr, fr.g, token.NoPos, m, []Value{err.V, target}, nil), fr) {
				return true
			}
		}
		m := e.lookupMethod(err.T, nil, "Unwrap")
		if m == nil {
			return false
		}
		res := m.Signature.Results()
		if res.Len() != 1 {
			return false
		}
		r := e.callSSA(fr, fr.g, token.NoPos, m, []Value{err.V}, nil)
		if isError(res.At(0).Type()) {
			err = r.(Iface)
			if err.T == nil {
				return false
			}
			continue
		}
		if sl, ok := r.([]Value); ok {
			for _, x := range sl {
				if xi := x.(Iface); xi.T != nil && e.decideV(e.errorsAs(fr, xi, target, depth+1), fr) {
					return true
				}
			}
		}
		return false
	}
}

var _ = sort.Ints
