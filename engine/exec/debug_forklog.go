package exec

import (
	"fmt"
	"os"
)

// GOSX_FORKLOG=1 prints one line per real fork (both sides feasible) to stderr: a debugging aid for harness
// authors to find where path explosion comes from (aggregate with sort | uniq -c). No effect on exploration.
var forkLogOn = os.Getenv("GOSX_FORKLOG") != ""

func noteFork(fr *frame, kind string) {
	if !forkLogOn || fr == nil {
		return
	}
	pos := ""
	if fr.block != nil && len(fr.block.Instrs) > 0 {
		for i := len(fr.block.Instrs) - 1; i >= 0; i-- {
			if p := fr.block.Instrs[i].Pos(); p.IsValid() {
				pos = fr.e.Prog.Fset.Position(p).String()
				break
			}
		}
	}
	blk := -1
	if fr.block != nil {
		blk = fr.block.Index
	}
	fmt.Fprintf(os.Stderr, "FORK %s %s b%d %s\n", kind, fr.fn, blk, pos)
}
