package exec

// Value representation ("concrete shape, symbolic leaves"):
//
//   bool            concrete bool            | *smt.Term (W==0)   symbolic bool
//   uint64          concrete integer of any Go integer type, truncated to the type's width (zero-extended)
//   *smt.Term (W>0) symbolic integer of that width
//   float64         float32/float64 (concrete only)
//   complex128      complex (concrete only)
//   string          concrete string          | *SStr  string with at least one symbolic byte
//   *Value          pointer (nil pointer is (*Value)(nil))
//   []Value         slice;  Array / Struct / Tuple: aggregates
//   *Map, *Chan     reference types (nil = typed nil pointer)
//   Iface           interface value (zero Iface = nil interface)
//   *ssa.Function, *Closure, *ssa.Builtin, *Native   func values
//   UPtr            unsafe.Pointer

import (
	"fmt"
	"go/types"
	"strconv"
	"strings"
	"sync"

	"golang.org/x/tools/go/ssa"
	"verif/gosx/smt"
)

type Value = any

type (
	Tuple  []Value
	Array  []Value
	Struct []Value
	Iface  struct {
		T types.Type
		V Value
	}
	Closure struct {
		Fn  *ssa.Function
		Env []Value
	}
	// SStr is a string with symbolic bytes; each element is uint64 (<256) or *smt.Term of width 8.
	SStr struct{ B []Value }
	// UPtr is an unsafe.Pointer: it remembers the typed pointer it was converted from.
	UPtr struct {
		P *Value
		T types.Type // pointee type of the original pointer (may be nil)
	}
	// Native is an engine-implemented function value (e.g. a stop function handed to target code).
	Native struct {
		Name string
		F    func(fr *frame, args []Value) Value
	}
	// SymPtr is the address of elems[idx] for a symbolic idx; only produced when every use is a load.
	SymPtr struct {
		Elems []Value
		Idx   *smt.Term
		T     types.Type
	}
)

type mapEnt struct {
	k, v    Value
	ck      string
	conc    bool
	deleted bool
}

type Map struct {
	KeyT types.Type
	ents []*mapEnt
	idx  map[string]*mapEnt
	nsym int
	n    int
}

func newMap(kt types.Type) *Map { return &Map{KeyT: kt, idx: map[string]*mapEnt{}} }

// intInfo returns width and signedness for integer-like basic types.
func intInfo(t types.Type) (w int, signed bool, ok bool) {
	b, isB := t.Underlying().(*types.Basic)
	if !isB {
		return 0, false, false
	}
	switch b.Kind() {
	case types.Int, types.Int64, types.UntypedInt:
		return 64, true, true
	case types.Int8:
		return 8, true, true
	case types.Int16:
		return 16, true, true
	case types.Int32, types.UntypedRune:
		return 32, true, true
	case types.Uint, types.Uint64, types.Uintptr:
		return 64, false, true
	case types.Uint8:
		return 8, false, true
	case types.Uint16:
		return 16, false, true
	case types.Uint32:
		return 32, false, true
	}
	return 0, false, false
}

func isFloat(t types.Type) bool {
	b, ok := t.Underlying().(*types.Basic)
	return ok && b.Info()&types.IsFloat != 0
}
func isString(t types.Type) bool {
	b, ok := t.Underlying().(*types.Basic)
	return ok && b.Info()&types.IsString != 0
}
func isBool(t types.Type) bool {
	b, ok := t.Underlying().(*types.Basic)
	return ok && b.Info()&types.IsBoolean != 0
}
func isFloat32(t types.Type) bool {
	b, ok := t.Underlying().(*types.Basic)
	return ok && b.Kind() == types.Float32
}

func deref(t types.Type) types.Type {
	if p, ok := t.Underlying().(*types.Pointer); ok {
		return p.Elem()
	}
	panic(fmt.Sprintf("deref: not a pointer: %v", t))
}

// zero returns the zero value of type t.
func zero(t types.Type) Value {
	switch t := t.(type) {
	case *types.Basic:
		if t.Kind() == types.UntypedNil {
			panic("untyped nil has no zero value")
		}
		switch {
		case t.Info()&types.IsBoolean != 0:
			return false
		case t.Info()&types.IsInteger != 0:
			return uint64(0)
		case t.Info()&types.IsFloat != 0:
			return float64(0)
		case t.Info()&types.IsComplex != 0:
			return complex128(0)
		case t.Info()&types.IsString != 0:
			return ""
		case t.Kind() == types.UnsafePointer:
			return UPtr{}
		}
		panic(fmt.Sprint("zero for unexpected basic type: ", t))
	case *types.Pointer:
		return (*Value)(nil)
	case *types.Array:
		a := make(Array, t.Len())
		et := t.Elem()
		if n := len(a); n > 0 {
			switch et.Underlying().(type) {
			case *types.Struct, *types.Array:
				for i := range a {
					a[i] = zero(et)
				}
			default:
				z := zero(et)
				for i := range a {
					a[i] = z
				}
			}
		}
		return a
	case *types.Named, *types.Alias:
		return zero(t.Underlying())
	case *types.Interface:
		return Iface{}
	case *types.Slice:
		return []Value(nil)
	case *types.Struct:
		s := make(Struct, t.NumFields())
		for i := range s {
			s[i] = zero(t.Field(i).Type())
		}
		return s
	case *types.Tuple:
		if t.Len() == 1 {
			return zero(t.At(0).Type())
		}
		s := make(Tuple, t.Len())
		for i := range s {
			s[i] = zero(t.At(i).Type())
		}
		return s
	case *types.Chan:
		return (*Chan)(nil)
	case *types.Map:
		return (*Map)(nil)
	case *types.Signature:
		return (*ssa.Function)(nil)
	case *types.TypeParam:
		panic("zero of type parameter (generics not instantiated?)")
	}
	panic(fmt.Sprint("zero: unexpected ", t))
}

// copyVal makes an unaliased copy of an aggregate value.
func copyVal(v Value) Value {
	switch v := v.(type) {
	case Struct:
		c := make(Struct, len(v))
		for i, f := range v {
			c[i] = copyVal(f)
		}
		return c
	case Array:
		c := make(Array, len(v))
		for i, f := range v {
			c[i] = copyVal(f)
		}
		return c
	}
	return v
}

func isSym(v Value) bool {
	switch v.(type) {
	case *smt.Term, *SStr:
		return true
	}
	return false
}

// ---------------------------------------------------------------- strings

func strLen(v Value) int {
	switch s := v.(type) {
	case string:
		return len(s)
	case *SStr:
		return len(s.B)
	}
	panic(fmt.Sprintf("strLen: %T", v))
}

func strByte(v Value, i int) Value {
	switch s := v.(type) {
	case string:
		return uint64(s[i])
	case *SStr:
		return s.B[i]
	}
	panic(fmt.Sprintf("strByte: %T", v))
}

func strBytes(v Value) []Value {
	switch s := v.(type) {
	case string:
		b := make([]Value, len(s))
		for i := 0; i < len(s); i++ {
			b[i] = uint64(s[i])
		}
		return b
	case *SStr:
		return s.B
	}
	panic(fmt.Sprintf("strBytes: %T", v))
}

// mkStr builds a string value from byte values, normalising to a Go string when fully concrete.
func mkStr(b []Value) Value {
	conc := true
	for _, x := range b {
		if _, ok := x.(uint64); !ok {
			conc = false
			break
		}
	}
	if conc {
		bs := make([]byte, len(b))
		for i, x := range b {
			bs[i] = byte(x.(uint64))
		}
		return string(bs)
	}
	c := make([]Value, len(b))
	copy(c, b)
	return &SStr{B: c}
}

func strSlice(v Value, lo, hi int) Value {
	switch s := v.(type) {
	case string:
		return s[lo:hi]
	case *SStr:
		return mkStr(s.B[lo:hi])
	}
	panic(fmt.Sprintf("strSlice: %T", v))
}

func strConcat(a, b Value) Value {
	as, aok := a.(string)
	bs, bok := b.(string)
	if aok && bok {
		return as + bs
	}
	x := strBytes(a)
	y := strBytes(b)
	r := make([]Value, 0, len(x)+len(y))
	r = append(r, x...)
	r = append(r, y...)
	return mkStr(r)
}

// ---------------------------------------------------------------- map keys

// keyStr returns a canonical string for a fully concrete comparable value.
func keyStr(sb *strings.Builder, v Value) bool {
	switch v := v.(type) {
	case bool:
		if v {
			sb.WriteString("T")
		} else {
			sb.WriteString("F")
		}
	case uint64:
		sb.WriteString("i")
		sb.WriteString(strconv.FormatUint(v, 16))
		sb.WriteByte(';')
	case float64:
		sb.WriteString("f")
		sb.WriteString(strconv.FormatFloat(v, 'g', -1, 64))
		sb.WriteByte(';')
	case complex128:
		fmt.Fprintf(sb, "c%v;", v)
	case string:
		sb.WriteString("s")
		sb.WriteString(strconv.Itoa(len(v)))
		sb.WriteByte(':')
		sb.WriteString(v)
	case *Value:
		fmt.Fprintf(sb, "p%p;", v)
	case *Chan:
		fmt.Fprintf(sb, "h%p;", v)
	case UPtr:
		fmt.Fprintf(sb, "u%p;", v.P)
	case Iface:
		if v.T == nil {
			sb.WriteString("N;")
			return true
		}
		sb.WriteString("I<")
		sb.WriteString(typeKey(v.T))
		sb.WriteString(">")
		return keyStr(sb, v.V)
	case Struct:
		sb.WriteString("{")
		for _, f := range v {
			if !keyStr(sb, f) {
				return false
			}
		}
		sb.WriteString("}")
	case Array:
		sb.WriteString("[")
		for _, f := range v {
			if !keyStr(sb, f) {
				return false
			}
		}
		sb.WriteString("]")
	case *smt.Term, *SStr:
		return false
	case *ssa.Function, *Closure, []Value, *Map:
		panic(targetPanic{V: "runtime error: hash of unhashable type"})
	default:
		panic(fmt.Sprintf("keyStr: unexpected %T", v))
	}
	return true
}

var typeKeys sync.Map

// typeKey returns a string identifying a type up to types.Identical (good enough: the type's string
// with package paths).
func typeKey(t types.Type) string {
	if s, ok := typeKeys.Load(t); ok {
		return s.(string)
	}
	s := types.TypeString(t, nil)
	typeKeys.Store(t, s)
	return s
}

// ---------------------------------------------------------------- printing (diagnostics)

func show(v Value) string {
	var sb strings.Builder
	showVal(&sb, v, 0)
	return sb.String()
}

func showVal(sb *strings.Builder, v Value, depth int) {
	if depth > 4 {
		sb.WriteString("…")
		return
	}
	switch v := v.(type) {
	case nil:
		sb.WriteString("<nil>")
	case bool, float64, complex128:
		fmt.Fprintf(sb, "%v", v)
	case uint64:
		fmt.Fprintf(sb, "%d", v)
	case string:
		if len(v) > 80 {
			fmt.Fprintf(sb, "%q…", v[:80])
		} else {
			fmt.Fprintf(sb, "%q", v)
		}
	case *smt.Term:
		s := v.String()
		if len(s) > 120 {
			s = s[:120] + "…"
		}
		sb.WriteString("‹" + s + "›")
	case *SStr:
		sb.WriteString("sstr[")
		for i, b := range v.B {
			if i > 0 {
				sb.WriteString(" ")
			}
			if c, ok := b.(uint64); ok {
				fmt.Fprintf(sb, "%q", rune(c))
			} else {
				sb.WriteString("?")
			}
		}
		sb.WriteString("]")
	case *Value:
		if v == nil {
			sb.WriteString("nil")
		} else {
			sb.WriteString("&")
			showVal(sb, *v, depth+1)
		}
	case []Value:
		if v == nil {
			sb.WriteString("nil[]")
			return
		}
		sb.WriteString("[")
		for i, e := range v {
			if i > 0 {
				sb.WriteString(" ")
			}
			if i >= 16 {
				sb.WriteString("…")
				break
			}
			showVal(sb, e, depth+1)
		}
		sb.WriteString("]")
	case Array:
		showVal(sb, []Value(v), depth)
	case Struct:
		sb.WriteString("{")
		for i, e := range v {
			if i > 0 {
				sb.WriteString(" ")
			}
			showVal(sb, e, depth+1)
		}
		sb.WriteString("}")
	case Tuple:
		sb.WriteString("(")
		for i, e := range v {
			if i > 0 {
				sb.WriteString(", ")
			}
			showVal(sb, e, depth+1)
		}
		sb.WriteString(")")
	case Iface:
		if v.T == nil {
			sb.WriteString("nil-iface")
			return
		}
		fmt.Fprintf(sb, "(%s)", v.T)
		showVal(sb, v.V, depth+1)
	case *Map:
		if v == nil {
			sb.WriteString("nil-map")
			return
		}
		fmt.Fprintf(sb, "map[%d]", v.n)
	case *Chan:
		fmt.Fprintf(sb, "chan %p", v)
	case *ssa.Function:
		if v == nil {
			sb.WriteString("nil-func")
		} else {
			sb.WriteString(v.String())
		}
	case *Closure:
		sb.WriteString("closure " + v.Fn.String())
	default:
		fmt.Fprintf(sb, "<%T>", v)
	}
}
