package exec

import (
	"fmt"
	"go/token"
	"go/types"
	"runtime/debug"
	"sort"

	"golang.org/x/tools/go/ssa"
)

const (
	gRunnable = iota
	gBlocked
	gDone
)

type gor struct {
	id      int
	wake    chan struct{}
	exited  chan struct{}
	status  int
	blockOn string
	name    string
	// wake-up payload for channel operations
	wval   Value
	wok    bool
	wpanic bool
	wsel   int
}

type timer struct {
	id     int
	when   int64
	period int64
	active bool
	fire   func(s *scheduler) // runs in scheduler context of the current goroutine; must not block
}

type scheduler struct {
	e         *Engine
	gs        []*gor
	cur       *gor
	dying     bool
	mainDone  chan any
	preempts  int
	timers    []*timer
	nextTID   int
	mutexes   map[*Value]*mutexState
	rw        map[*Value]*rwState
	wgs       map[*Value]*wgState
	conds     map[*Value]*condState
	pools     map[*Value]*[]Value
	smaps     map[*Value]*Map
	chanEpoch int
	ttabM     map[*Value]*timer
}

func newScheduler(e *Engine) *scheduler {
	return &scheduler{e: e, mainDone: make(chan any, 1),
		mutexes: map[*Value]*mutexState{}, rw: map[*Value]*rwState{}, wgs: map[*Value]*wgState{},
		conds: map[*Value]*condState{}, pools: map[*Value]*[]Value{}, smaps: map[*Value]*Map{}}
}

func (s *scheduler) newG(name string) *gor {
	g := &gor{id: len(s.gs), wake: make(chan struct{}, 1), exited: make(chan struct{}), name: name}
	s.gs = append(s.gs, g)
	return g
}

// start launches the Go goroutine that will carry g once it is first scheduled.
func (s *scheduler) start(g *gor, body func(g *gor)) {
	go func() {
		<-g.wake
		var res any
		func() {
			defer func() {
				res = recover()
			}()
			if s.dying {
				panic(abortPath{kind: abortKilled})
			}
			body(g)
		}()
		g.status = gDone
		defer close(g.exited)
		if ab, ok := res.(abortPath); ok && ab.kind == abortKilled {
			return
		}
		if g.id == 0 || res != nil {
			// main finished, or a goroutine died with a panic/abort: the path is over
			if _, isTP := res.(targetPanic); !isTP {
				if _, isAb := res.(abortPath); !isAb && res != nil {
					res = abortPath{kind: abortEngineBug, msg: fmt.Sprintf("%v\n%s", res, debug.Stack())}
				}
			}
			if !s.dying {
				s.dying = true
				s.mainDone <- res
			}
			return
		}
		// normal termination of a non-main goroutine: hand the baton on
		func() {
			defer func() {
				if r := recover(); r != nil && !s.dying {
					s.dying = true
					s.mainDone <- r
				}
			}()
			next := s.pickNext(g)
			s.cur = next
			next.wake <- struct{}{}
		}()
	}()
}

func (s *scheduler) runMain(body func(g *gor)) any {
	g0 := s.newG("main")
	s.cur = g0
	s.start(g0, body)
	g0.wake <- struct{}{}
	res := <-s.mainDone
	s.dying = true
	for _, g := range s.gs {
		if g.status != gDone {
			select {
			case g.wake <- struct{}{}:
			default:
			}
		}
		<-g.exited
	}
	return res
}

func (s *scheduler) runnable() []*gor {
	var r []*gor
	for _, g := range s.gs {
		if g.status == gRunnable {
			r = append(r, g)
		}
	}
	return r
}

// pickNext chooses the goroutine to run when cur cannot continue (blocked or done).
// It fires timers when nothing is runnable and panics with a deadlock abort when nothing can make progress.
func (s *scheduler) pickNext(cur *gor) *gor {
	for {
		r := s.runnable()
		if len(r) > 0 {
			if len(r) > 1 && s.e.Cfg.SchedExplore >= 0 && !s.e.Cfg.SchedDelay {
				return r[s.e.choose(len(r), "sched", nil)]
			}
			// canonical: round robin after cur
			for _, g := range r {
				if g.id > cur.id {
					return g
				}
			}
			return r[0]
		}
		if !s.fireNextTimer() {
			var desc string
			for _, g := range s.gs {
				if g.status == gBlocked {
					desc += fmt.Sprintf(" g%d(%s):%s", g.id, g.name, g.blockOn)
				}
			}
			panic(abortPath{kind: abortDeadlock, msg: "all goroutines blocked:" + desc})
		}
	}
}

// block parks the current goroutine until someone marks it runnable again.
func (s *scheduler) block(g *gor, why string) {
	g.status = gBlocked
	g.blockOn = why
	next := s.pickNext(g)
	s.switchTo(g, next)
}

func (s *scheduler) switchTo(g, next *gor) {
	if next == g {
		return
	}
	s.cur = next
	next.wake <- struct{}{}
	<-g.wake
	if s.dying {
		panic(abortPath{kind: abortKilled})
	}
}

func (s *scheduler) ready(g *gor) {
	if g.status == gBlocked {
		g.status = gRunnable
	}
}

// yield lets other runnable goroutines run first (Gosched, Sleep, verifrt.Yield).
func (s *scheduler) yield(g *gor) {
	r := s.runnable()
	if len(r) <= 1 {
		return
	}
	var next *gor
	if s.e.Cfg.SchedExplore >= 0 && !s.e.Cfg.SchedDelay {
		next = r[s.e.choose(len(r), "yield", nil)]
	} else {
		for _, x := range r {
			if x.id > g.id {
				next = x
				break
			}
		}
		if next == nil {
			next = r[0]
		}
	}
	s.switchTo(g, next)
}

// schedPoint is called before every synchronisation operation; in explore mode it may pre-empt.
func (s *scheduler) schedPoint(g *gor) {
	if s.e.Cfg.SchedExplore < 0 || s.e.inInit > 0 || g == nil {
		return
	}
	if s.preempts >= s.e.Cfg.SchedExplore {
		return
	}
	r := s.runnable()
	if len(r) <= 1 {
		return
	}
	// option 0 = keep running; options 1.. = switch to another runnable goroutine
	others := make([]*gor, 0, len(r))
	for _, x := range r {
		if x != g {
			others = append(others, x)
		}
	}
	k := s.e.choose(len(others)+1, "preempt", nil)
	if k == 0 {
		return
	}
	s.preempts++
	s.switchTo(g, others[k-1])
}

// drain runs every other goroutine until all are blocked or done (verifrt.Drain).
func (s *scheduler) drain(g *gor) {
	for i := 0; i < 100000; i++ {
		r := s.runnable()
		if len(r) <= 1 {
			if !s.hasDueTimerForDrain() {
				return
			}
		}
		if s.e.Cfg.SchedExplore >= 0 {
			// explore mode: the draining goroutine itself is not a candidate (choosing it makes no progress
			// and forks without bound); the order among the others is a scheduling choice
			others := make([]*gor, 0, len(r))
			for _, x := range r {
				if x != g {
					others = append(others, x)
				}
			}
			if len(others) == 0 {
				return
			}
			next := others[0]
			if len(others) > 1 && !s.e.Cfg.SchedDelay {
				next = others[s.e.choose(len(others), "drain", nil)]
			}
			s.switchTo(g, next)
			continue
		}
		s.yield(g)
		if len(s.runnable()) <= 1 {
			return
		}
	}
	panic(abortPath{kind: abortUnwind, msg: "drain: goroutines never quiesce"})
}

func (s *scheduler) hasDueTimerForDrain() bool { return false }

func (e *Engine) spawn(fr *frame, pos token.Pos, fn Value, args []Value) {
	s := e.sched
	if e.inInit > 0 {
		// goroutines started by package initialisers are not run (documented: opaque background workers)
		return
	}
	name := "go"
	switch f := fn.(type) {
	case *ssa.Function:
		name = f.String()
	case *Closure:
		name = f.Fn.String()
	}
	g := s.newG(name)
	s.start(g, func(g *gor) {
		switch f := fn.(type) {
		case *ssa.Function:
			e.callSSA(nil, g, pos, f, args, nil)
		case *Closure:
			e.callSSA(nil, g, pos, f.Fn, args, f.Env)
		case *Native:
			f.F(&frame{e: e, g: g}, args)
		case *ssa.Builtin:
			e.callBuiltin(&frame{e: e, g: g}, f, args)
		default:
			panic(fmt.Sprintf("go: cannot call %T", fn))
		}
	})
	s.schedPoint(fr.g)
}

// ---------------------------------------------------------------- timers

func (s *scheduler) addTimer(d int64, period int64, fire func(s *scheduler)) *timer {
	if d < 0 {
		d = 0
	}
	t := &timer{id: s.nextTID, when: s.e.clock + d, period: period, active: true, fire: fire}
	s.nextTID++
	s.timers = append(s.timers, t)
	return t
}

func (s *scheduler) fireNextTimer() bool {
	var act []*timer
	for _, t := range s.timers {
		if t.active {
			act = append(act, t)
		}
	}
	if len(act) == 0 {
		return false
	}
	sort.SliceStable(act, func(i, j int) bool { return act[i].when < act[j].when })
	t := act[0]
	if s.e.Cfg.SchedExplore >= 0 {
		// timers fire in time order; only timers due at the same instant are interchangeable
		same := 1
		for same < len(act) && act[same].when == t.when {
			same++
		}
		if same > 1 {
			t = act[s.e.choose(same, "timer", nil)]
		}
	}
	if t.when > s.e.clock {
		s.e.clock = t.when
	}
	if t.period > 0 {
		t.when += t.period
	} else {
		t.active = false
	}
	t.fire(s)
	return true
}

// ---------------------------------------------------------------- channels

type Chan struct {
	cap    int
	buf    []Value
	closed bool
	recvq  []*waiter
	sendq  []*waiter
	epoch  int
}

type waiter struct {
	g    *gor
	val  Value
	sel  *selState
	idx  int
	done bool
}

type selState struct {
	chosen bool
}

func (e *Engine) makeChan(n int) *Chan {
	if n < 0 {
		panic(e.runtimePanic("makechan: size out of range"))
	}
	return &Chan{cap: n, epoch: -1}
}

// touch snapshots a channel that predates the current path so that rollback can restore it.
func (e *Engine) touch(c *Chan) {
	if !e.logging || c.epoch == e.pathSeq {
		return
	}
	c.epoch = e.pathSeq
	buf := append([]Value(nil), c.buf...)
	closed := c.closed
	e.logUndo(func() { c.buf, c.closed, c.recvq, c.sendq, c.epoch = buf, closed, nil, nil, -1 })
}

func liveWaiter(q *[]*waiter) *waiter {
	for len(*q) > 0 {
		w := (*q)[0]
		*q = (*q)[1:]
		if w.done || (w.sel != nil && w.sel.chosen) {
			continue
		}
		return w
	}
	return nil
}

func hasLive(q []*waiter) bool {
	for _, w := range q {
		if !w.done && !(w.sel != nil && w.sel.chosen) {
			return true
		}
	}
	return false
}

func (w *waiter) complete(s *scheduler, v Value, ok bool, pnc bool) {
	w.done = true
	if w.sel != nil {
		w.sel.chosen = true
	}
	w.g.wval, w.g.wok, w.g.wpanic, w.g.wsel = v, ok, pnc, w.idx
	s.ready(w.g)
}

func (e *Engine) chanSend(fr *frame, c *Chan, v Value) {
	s := e.sched
	s.schedPoint(fr.g)
	if c == nil {
		s.block(fr.g, "send on nil chan")
		panic(abortPath{kind: abortEngineBug, msg: "woken from nil-chan send"})
	}
	e.touch(c)
	if c.closed {
		panic(targetPanic{V: Iface{T: types.Typ[types.String], V: "send on closed channel"}})
	}
	if w := liveWaiter(&c.recvq); w != nil {
		w.complete(s, v, true, false)
		return
	}
	if len(c.buf) < c.cap {
		c.buf = append(c.buf, v)
		return
	}
	w := &waiter{g: fr.g, val: v}
	c.sendq = append(c.sendq, w)
	s.block(fr.g, "chan send")
	if fr.g.wpanic {
		panic(targetPanic{V: Iface{T: types.Typ[types.String], V: "send on closed channel"}})
	}
}

func (e *Engine) chanRecv(fr *frame, c *Chan, commaOk bool, et types.Type) Value {
	s := e.sched
	s.schedPoint(fr.g)
	if c == nil {
		s.block(fr.g, "recv on nil chan")
		panic(abortPath{kind: abortEngineBug, msg: "woken from nil-chan recv"})
	}
	e.touch(c)
	v, ok := e.recvNow(c, et)
	if !ok {
		w := &waiter{g: fr.g}
		c.recvq = append(c.recvq, w)
		s.block(fr.g, "chan recv")
		rv := fr.g.wval
		if !fr.g.wok {
			rv = zero(et)
		}
		if commaOk {
			return Tuple{rv, fr.g.wok}
		}
		return rv
	}
	if commaOk {
		return Tuple{v.v, v.ok}
	}
	return v.v
}

type recvRes struct {
	v  Value
	ok bool
}

// recvNow tries a non-blocking receive.
func (e *Engine) recvNow(c *Chan, et types.Type) (recvRes, bool) {
	s := e.sched
	if len(c.buf) > 0 {
		v := c.buf[0]
		c.buf = c.buf[1:]
		// a blocked sender can now move into the buffer
		if w := liveWaiter(&c.sendq); w != nil {
			c.buf = append(c.buf, w.val)
			w.complete(s, nil, true, false)
		}
		return recvRes{v, true}, true
	}
	if w := liveWaiter(&c.sendq); w != nil {
		v := w.val
		w.complete(s, nil, true, false)
		return recvRes{v, true}, true
	}
	if c.closed {
		return recvRes{zero(et), false}, true
	}
	return recvRes{}, false
}

func (e *Engine) chanClose(fr *frame, c *Chan) {
	s := e.sched
	s.schedPoint(fr.g)
	if c == nil {
		panic(targetPanic{V: Iface{T: types.Typ[types.String], V: "close of nil channel"}})
	}
	e.touch(c)
	if c.closed {
		panic(targetPanic{V: Iface{T: types.Typ[types.String], V: "close of closed channel"}})
	}
	c.closed = true
	for {
		w := liveWaiter(&c.recvq)
		if w == nil {
			break
		}
		w.complete(s, nil, false, false)
	}
	for {
		w := liveWaiter(&c.sendq)
		if w == nil {
			break
		}
		w.complete(s, nil, false, true)
	}
}

func (e *Engine) selectStmt(fr *frame, instr *ssa.Select) Value {
	s := e.sched
	s.schedPoint(fr.g)
	type cs struct {
		c    *Chan
		send bool
		val  Value
		et   types.Type
	}
	cases := make([]cs, len(instr.States))
	for i, st := range instr.States {
		c := fr.get(st.Chan).(*Chan)
		cases[i] = cs{c: c, send: st.Dir == types.SendOnly, et: st.Chan.Type().Underlying().(*types.Chan).Elem()}
		if cases[i].send {
			cases[i].val = fr.get(st.Send)
		}
		if c != nil {
			e.touch(c)
		}
	}
	var ready []int
	for i, c := range cases {
		if c.c == nil {
			continue
		}
		if c.send {
			if c.c.closed || hasLive(c.c.recvq) || len(c.c.buf) < c.c.cap {
				ready = append(ready, i)
			}
		} else {
			if len(c.c.buf) > 0 || hasLive(c.c.sendq) || c.c.closed {
				ready = append(ready, i)
			}
		}
	}
	chosen := -1
	var recvV Value
	recvOk := false
	if len(ready) > 0 {
		k := 0
		if len(ready) > 1 && e.Cfg.SchedExplore >= 0 {
			k = e.choose(len(ready), "select", fr)
		}
		chosen = ready[k]
		c := cases[chosen]
		if c.send {
			if c.c.closed {
				panic(targetPanic{V: Iface{T: types.Typ[types.String], V: "send on closed channel"}})
			}
			if w := liveWaiter(&c.c.recvq); w != nil {
				w.complete(s, c.val, true, false)
			} else {
				c.c.buf = append(c.c.buf, c.val)
			}
		} else {
			r, _ := e.recvNow(c.c, c.et)
			recvV, recvOk = r.v, r.ok
		}
	} else if instr.Blocking {
		sel := &selState{}
		any := false
		for i, c := range cases {
			if c.c == nil {
				continue
			}
			any = true
			w := &waiter{g: fr.g, sel: sel, idx: i, val: c.val}
			if c.send {
				c.c.sendq = append(c.c.sendq, w)
			} else {
				c.c.recvq = append(c.c.recvq, w)
			}
		}
		_ = any
		s.block(fr.g, "select")
		chosen = fr.g.wsel
		if cases[chosen].send {
			if fr.g.wpanic {
				panic(targetPanic{V: Iface{T: types.Typ[types.String], V: "send on closed channel"}})
			}
		} else {
			recvV, recvOk = fr.g.wval, fr.g.wok
		}
	}
	r := Tuple{uint64(int64(chosen)), recvOk}
	for i, st := range instr.States {
		if st.Dir == types.RecvOnly {
			if i == chosen && recvOk {
				r = append(r, recvV)
			} else {
				r = append(r, zero(cases[i].et))
			}
		}
	}
	return r
}

// ---------------------------------------------------------------- sync primitives (side tables keyed by address)

type mutexState struct {
	locked  bool
	waiters []*gor
}

func (s *scheduler) mutex(p *Value) *mutexState {
	m := s.mutexes[p]
	if m == nil {
		m = &mutexState{}
		s.mutexes[p] = m
	}
	return m
}

func (s *scheduler) lock(g *gor, p *Value) {
	s.schedPoint(g)
	m := s.mutex(p)
	for m.locked {
		m.waiters = append(m.waiters, g)
		s.block(g, "Mutex.Lock")
	}
	m.locked = true
}

func (s *scheduler) tryLock(g *gor, p *Value) bool {
	s.schedPoint(g)
	m := s.mutex(p)
	if m.locked {
		return false
	}
	m.locked = true
	return true
}

func (s *scheduler) unlock(g *gor, p *Value) {
	m := s.mutex(p)
	if !m.locked {
		panic(targetPanic{V: Iface{T: types.Typ[types.String], V: "fatal error: sync: unlock of unlocked mutex"}})
	}
	m.locked = false
	ws := m.waiters
	m.waiters = nil
	for _, w := range ws {
		s.ready(w)
	}
	s.schedPoint(g)
}

type rwState struct {
	writer   bool
	readers  int
	wwaiting int
	waiters  []*gor
}

func (s *scheduler) rwm(p *Value) *rwState {
	m := s.rw[p]
	if m == nil {
		m = &rwState{}
		s.rw[p] = m
	}
	return m
}

func (s *scheduler) wakeAll(ws *[]*gor) {
	l := *ws
	*ws = nil
	for _, w := range l {
		s.ready(w)
	}
}

func (s *scheduler) rwLock(g *gor, p *Value) {
	s.schedPoint(g)
	m := s.rwm(p)
	if m.writer || m.readers > 0 {
		m.wwaiting++
		for m.writer || m.readers > 0 {
			m.waiters = append(m.waiters, g)
			s.block(g, "RWMutex.Lock")
		}
		m.wwaiting--
	}
	m.writer = true
}

func (s *scheduler) rwUnlock(g *gor, p *Value) {
	m := s.rwm(p)
	if !m.writer {
		panic(targetPanic{V: Iface{T: types.Typ[types.String], V: "fatal error: sync: Unlock of unlocked RWMutex"}})
	}
	m.writer = false
	s.wakeAll(&m.waiters)
	s.schedPoint(g)
}

func (s *scheduler) rwRLock(g *gor, p *Value) {
	s.schedPoint(g)
	m := s.rwm(p)
	// Go's RWMutex is writer-preferring: a pending Lock blocks new readers.
	for m.writer || m.wwaiting > 0 {
		m.waiters = append(m.waiters, g)
		s.block(g, "RWMutex.RLock")
	}
	m.readers++
}

func (s *scheduler) rwRUnlock(g *gor, p *Value) {
	m := s.rwm(p)
	if m.readers <= 0 {
		panic(targetPanic{V: Iface{T: types.Typ[types.String], V: "fatal error: sync: RUnlock of unlocked RWMutex"}})
	}
	m.readers--
	if m.readers == 0 {
		s.wakeAll(&m.waiters)
	}
	s.schedPoint(g)
}

type wgState struct {
	n       int64
	waiters []*gor
}

func (s *scheduler) wg(p *Value) *wgState {
	m := s.wgs[p]
	if m == nil {
		m = &wgState{}
		s.wgs[p] = m
	}
	return m
}

type condState struct {
	waiters []*gor
}
