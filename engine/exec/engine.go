package exec

import (
	"fmt"
	"go/constant"
	"go/token"
	"go/types"
	"os"
	"runtime/debug"
	"slices"
	"strings"
	"sync"

	"golang.org/x/tools/go/ssa"
	"verif/gosx/smt"
)

type abortKind int

const (
	abortPruned      abortKind = iota // Assume(false): path silently dropped
	abortUnsupported                  // engine cannot model something on this path -> inconclusive
	abortUnwind                       // step / depth / loop cap hit -> inconclusive (or divergence candidate)
	abortKilled                       // goroutine killed at path end
	abortEngineBug                    // internal error
	abortExit                         // os.Exit
	abortDeadlock                     // all goroutines blocked
	abortStop                         // harness asked to stop the path (after violation)
)

type abortPath struct {
	kind  abortKind
	msg   string
	where string
}

func (a abortPath) String() string {
	return [...]string{"pruned", "unsupported", "unwind", "killed", "engine-bug", "exit", "deadlock", "stop"}[a.kind] + ": " + a.msg
}

// targetPanic is a Go panic raised by (or on behalf of) the target program.
type targetPanic struct {
	V Value // usually an Iface
}

type modelFn func(fr *frame, args []Value) Value

type undoRec struct {
	p   *Value
	old Value
	f   func()
}

type Config struct {
	MaxSteps       int // per path
	MaxDepth       int
	MaxBackEdge    int // per frame
	MaxPaths       int
	MaxConcretize  int
	SolverArgv     []string
	TimeoutMs      int
	Trace          bool
	SchedExplore   int // -1 canonical; k>=0: explore with at most k pre-emptions
	// SchedDelay (with SchedExplore=k): delay-bounded exploration — the non-preemptive choices (which goroutine
	// runs when the current one blocks, yields, or drains) follow the canonical round-robin order; only the
	// <= k pre-emptions at synchronisation points and selects with several ready cases are forked.
	SchedDelay     bool
	MapOrderNondet bool
	QueryLog       string
	QueryLogMax    int
	NoIfConv       bool
}

type Engine struct {
	Prog *ssa.Program
	P    *smt.Pool
	S    *smt.Solver
	Cfg  Config

	globals     map[*ssa.Global]*Value
	inited      map[*ssa.Package]int
	opaque      []string
	notOpaque   []string
	models      map[string]modelFn
	Stubs       map[string]*ssa.Function
	consts      map[*ssa.Const]Value
	runtimeErrT types.Type
	rtPkg       string // import path of verifrt
	Params      map[string]int

	addrIDs  map[*Value]uint64
	addrOf   map[uint64]UPtr
	nextAddr uint64

	// per path
	pc           []*smt.Term
	prefix       []Dec
	pos          int
	trace        []Dec
	pending      []workItem // alternatives discovered on this path
	solverPC     []*smt.Term
	curModel     map[string]uint64
	prefixModel  map[string]uint64
	pathSeq      int
	undo         []undoRec
	logging      bool
	inInit       int
	steps        int
	nameCnt      map[string]int
	pathVars     []*smt.Term
	observations []Observation
	sched        *scheduler
	hashApps     map[string][]hashApp
	clock        int64
	panicWhere   string

	// run-wide
	Stats       Stats
	funcs       map[*ssa.Function]int // function -> instructions executed
	curPathViol []Violation
	reachSet    map[string]int
	assertSites map[string]*AssertStat
}

type Observation struct {
	Name string
	Val  Value
}

func NewEngine(prog *ssa.Program, cfg Config) (*Engine, error) {
	if cfg.MaxSteps == 0 {
		cfg.MaxSteps = 20_000_000
	}
	if cfg.MaxDepth == 0 {
		cfg.MaxDepth = 1500
	}
	if cfg.MaxBackEdge == 0 {
		cfg.MaxBackEdge = 200_000
	}
	if cfg.MaxConcretize == 0 {
		cfg.MaxConcretize = 300
	}
	if cfg.TimeoutMs == 0 {
		cfg.TimeoutMs = 60000
	}
	e := &Engine{
		Prog:        prog,
		P:           smt.NewPool(),
		Cfg:         cfg,
		globals:     map[*ssa.Global]*Value{},
		inited:      map[*ssa.Package]int{},
		models:      map[string]modelFn{},
		Stubs:       map[string]*ssa.Function{},
		consts:      map[*ssa.Const]Value{},
		addrIDs:     map[*Value]uint64{},
		addrOf:      map[uint64]UPtr{},
		nextAddr:    0xc000000000,
		funcs:       map[*ssa.Function]int{},
		reachSet:    map[string]int{},
		assertSites: map[string]*AssertStat{},
		rtPkg:       "github.com/ipfs/boxo/internal/verifrt",
	}
	s, err := smt.NewSolver(e.P, cfg.SolverArgv, cfg.TimeoutMs)
	if err != nil {
		return nil, err
	}
	e.S = s
	if cfg.QueryLog != "" {
		f, err := os.Create(cfg.QueryLog)
		if err == nil {
			s.Log = f
			s.LogMax = cfg.QueryLogMax
		}
	}
	if rt := prog.ImportedPackage("runtime"); rt != nil {
		if t := rt.Type("errorString"); t != nil {
			e.runtimeErrT = t.Object().Type()
		}
	}
	e.opaque = append(e.opaque, defaultOpaque...)
	registerModels(e)
	return e, nil
}

func (e *Engine) Close() { e.S.Close() }

func (e *Engine) runtimePanic(msg string) targetPanic {
	if e.runtimeErrT != nil {
		return targetPanic{V: Iface{T: e.runtimeErrT, V: msg}}
	}
	return targetPanic{V: Iface{T: types.Typ[types.String], V: "runtime error: " + msg}}
}

func unsupported(format string, args ...any) abortPath {
	return abortPath{kind: abortUnsupported, msg: fmt.Sprintf(format, args...)}
}

// ---------------------------------------------------------------- memory writes (undo log)

func (e *Engine) set(p *Value, v Value) {
	if e.logging {
		e.undo = append(e.undo, undoRec{p: p, old: *p})
	}
	*p = v
}

func (e *Engine) logUndo(f func()) {
	if e.logging {
		e.undo = append(e.undo, undoRec{f: f})
	}
}

func (e *Engine) rollback() {
	for i := len(e.undo) - 1; i >= 0; i-- {
		u := e.undo[i]
		if u.f != nil {
			u.f()
		} else {
			*u.p = u.old
		}
	}
	e.undo = e.undo[:0]
}

// store writes v (of type T) into *addr, copying aggregates element-wise (so that interior pointers
// to fields/elements stay valid).
func (e *Engine) store(T types.Type, addr Value, v Value, fr *frame) {
	p, ok := addr.(*Value)
	if !ok {
		panic(fmt.Sprintf("store: unexpected pointer %T", addr))
	}
	if p == nil {
		panic(e.runtimePanic("invalid memory address or nil pointer dereference"))
	}
	e.storeAt(p, v)
}

func (e *Engine) storeAt(p *Value, v Value) {
	switch rhs := v.(type) {
	case Struct:
		lhs, ok := (*p).(Struct)
		if !ok || len(lhs) != len(rhs) {
			e.set(p, copyVal(rhs))
			return
		}
		for i := range lhs {
			e.storeAt(&lhs[i], rhs[i])
		}
	case Array:
		lhs, ok := (*p).(Array)
		if !ok || len(lhs) != len(rhs) {
			e.set(p, copyVal(rhs))
			return
		}
		for i := range lhs {
			e.storeAt(&lhs[i], rhs[i])
		}
	default:
		e.set(p, v)
	}
}

// ---------------------------------------------------------------- frames

type deferred struct {
	fn    Value
	args  []Value
	instr *ssa.Defer
	tail  *deferred
}

type frame struct {
	e                *Engine
	g                *gor
	caller           *frame
	fn               *ssa.Function
	block, prevBlock *ssa.BasicBlock
	env              map[ssa.Value]Value
	locals           []Value
	defers           *deferred
	result           Value
	panicking        bool
	panicV           any
	backEdges        int
	depth            int
	callPos          token.Pos
	skipPhis         bool
}

func (e *Engine) constValue(c *ssa.Const) Value {
	if v, ok := e.consts[c]; ok {
		return v
	}
	v := constVal(c)
	e.consts[c] = v
	return v
}

func constVal(c *ssa.Const) Value {
	if c.Value == nil {
		return zero(c.Type()) // typed zero (nil pointer, zero struct, ...)
	}
	t := c.Type().Underlying()
	if b, ok := t.(*types.Basic); ok {
		switch {
		case b.Info()&types.IsBoolean != 0:
			return constant.BoolVal(c.Value)
		case b.Info()&types.IsInteger != 0:
			w, _, _ := intInfo(b)
			if i, ok := constant.Int64Val(constant.ToInt(c.Value)); ok {
				return uint64(i) & smt.Mask(w)
			}
			u, _ := constant.Uint64Val(constant.ToInt(c.Value))
			return u & smt.Mask(w)
		case b.Info()&types.IsFloat != 0:
			f, _ := constant.Float64Val(c.Value)
			if b.Kind() == types.Float32 {
				f = float64(float32(f))
			}
			return f
		case b.Info()&types.IsComplex != 0:
			re, _ := constant.Float64Val(constant.Real(c.Value))
			im, _ := constant.Float64Val(constant.Imag(c.Value))
			return complex(re, im)
		case b.Info()&types.IsString != 0:
			if c.Value.Kind() == constant.String {
				return constant.StringVal(c.Value)
			}
			return string(rune(c.Int64()))
		}
	}
	if _, ok := t.(*types.Interface); ok {
		// constant converted to a type-parameter-free interface? (shouldn't happen)
		return Iface{}
	}
	panic(fmt.Sprintf("constVal: unexpected %v : %v", c, c.Type()))
}

func (fr *frame) get(key ssa.Value) Value {
	switch key := key.(type) {
	case nil:
		return nil
	case *ssa.Function, *ssa.Builtin:
		return key
	case *ssa.Const:
		return fr.e.constValue(key)
	case *ssa.Global:
		return fr.e.global(key)
	}
	if r, ok := fr.env[key]; ok {
		return r
	}
	panic(fmt.Sprintf("get: no value for %T: %v in %v", key, key.Name(), fr.fn))
}

func (e *Engine) global(g *ssa.Global) *Value {
	if g.Pkg != nil && g.Pkg.Pkg.Path() == "os" {
		// package os is opaque and never initialised, but its sentinel errors are compared against everywhere
		// (errors.Is(err, os.ErrNotExist)); they are aliases of the internal/oserror values, which are plain
		// errors.New results and are interpreted. Without this os.ErrNotExist is a nil error under the engine.
		switch g.Name() {
		case "ErrInvalid", "ErrPermission", "ErrExist", "ErrNotExist", "ErrClosed":
			if op := e.Prog.ImportedPackage("internal/oserror"); op != nil {
				if og := op.Var(g.Name()); og != nil {
					return e.global(og)
				}
			}
		}
	}
	if g.Pkg != nil {
		e.ensureInit(g.Pkg)
	}
	if p, ok := e.globals[g]; ok {
		return p
	}
	cell := zero(deref(g.Type()))
	if g.Pkg != nil && isError(deref(g.Type())) && e.isOpaque(g.Pkg.Pkg.Path()) {
		// Exported sentinel errors of opaque (never initialised) packages would otherwise be nil errors, which
		// makes `return pkg.ErrX` a success and errors.Is(nil, pkg.ErrX) true. Give each a distinct non-nil value.
		if ep := e.Prog.ImportedPackage("errors"); ep != nil {
			if t := ep.Type("errorString"); t != nil {
				var v Value = Struct{g.Pkg.Pkg.Path() + "." + g.Name()}
				cell = Iface{T: types.NewPointer(t.Object().Type()), V: &v}
			}
		}
	}
	p := &cell
	e.globals[g] = p
	return p
}

func (e *Engine) isOpaque(path string) bool {
	for _, p := range e.notOpaque {
		if path == p {
			return false
		}
	}
	for _, p := range e.opaque {
		if path == p || (strings.HasSuffix(p, "/...") && (path == p[:len(p)-4] || strings.HasPrefix(path, p[:len(p)-3]))) {
			return true
		}
	}
	return false
}

// ensureInit runs the package initializer lazily (see DESIGN 3.3).
func (e *Engine) ensureInit(pkg *ssa.Package) {
	if st := e.inited[pkg]; st != 0 {
		return
	}
	e.inited[pkg] = 1
	if e.isOpaque(pkg.Pkg.Path()) {
		e.inited[pkg] = 2
		return
	}
	initFn := pkg.Func("init")
	if initFn == nil || initFn.Blocks == nil {
		e.inited[pkg] = 2
		return
	}
	saveLog := e.logging
	e.logging = false
	e.inInit++
	ok := false
	defer func() {
		e.inInit--
		e.logging = saveLog
		if !ok {
			e.inited[pkg] = 0
		}
	}()
	if e.Cfg.Trace {
		fmt.Fprintf(os.Stderr, "init %s\n", pkg.Pkg.Path())
	}
	// side-effect (blank) imports are initialised eagerly; the rest lazily on first touch.
	for _, imp := range blankImports(e.Prog, pkg) {
		e.ensureInit(imp)
	}
	e.callSSA(nil, e.curG(), token.NoPos, initFn, nil, nil)
	e.inited[pkg] = 2
	ok = true
}

var blankCache sync.Map

// BlankImportsOf is filled by the loader: package path -> blank-imported package paths.
var BlankImportsOf = map[string][]string{}

func blankImports(prog *ssa.Program, pkg *ssa.Package) []*ssa.Package {
	if r, ok := blankCache.Load(pkg); ok {
		return r.([]*ssa.Package)
	}
	var r []*ssa.Package
	for _, path := range BlankImportsOf[pkg.Pkg.Path()] {
		if ip := prog.ImportedPackage(path); ip != nil {
			r = append(r, ip)
		}
	}
	blankCache.Store(pkg, r)
	return r
}

func (e *Engine) curG() *gor {
	if e.sched != nil {
		return e.sched.cur
	}
	return nil
}

// ---------------------------------------------------------------- calls

func fnPackage(fn *ssa.Function) *ssa.Package {
	if fn.Pkg != nil {
		return fn.Pkg
	}
	if o := fn.Origin(); o != nil && o.Pkg != nil {
		return o.Pkg
	}
	if p := fn.Parent(); p != nil {
		return fnPackage(p)
	}
	return nil
}

func (e *Engine) call(fr *frame, pos token.Pos, fn Value, args []Value) Value {
	switch fn := fn.(type) {
	case *ssa.Function:
		if fn == nil {
			panic(e.runtimePanic("invalid memory address or nil pointer dereference (call of nil func)"))
		}
		return e.callSSA(fr, fr.gOr(e), pos, fn, args, nil)
	case *Closure:
		return e.callSSA(fr, fr.gOr(e), pos, fn.Fn, args, fn.Env)
	case *ssa.Builtin:
		return e.callBuiltin(fr, fn, args)
	case *Native:
		return fn.F(fr, args)
	}
	panic(fmt.Sprintf("cannot call %T", fn))
}

func (fr *frame) gOr(e *Engine) *gor {
	if fr != nil {
		return fr.g
	}
	return e.curG()
}

func fnKey(fn *ssa.Function) string {
	return fn.String()
}

func (e *Engine) callSSA(caller *frame, g *gor, pos token.Pos, fn *ssa.Function, args []Value, env []Value) Value {
	fr := &frame{e: e, g: g, caller: caller, fn: fn, callPos: pos}
	if caller != nil {
		fr.depth = caller.depth + 1
		if fr.depth > e.Cfg.MaxDepth {
			panic(abortPath{kind: abortUnwind, msg: fmt.Sprintf("call depth %d exceeded in %s", e.Cfg.MaxDepth, fn)})
		}
	}
	if caller != nil && fn.Synthetic == "package initializer" {
		// imports are initialised lazily (on first touch) or eagerly when blank-imported; see ensureInit
		return nil
	}
	if fn.Parent() == nil {
		name := fnKey(fn)
		if e.inInit == 0 {
			if stub, ok := e.Stubs[name]; ok && (caller == nil || !inStub(caller, stub)) {
				return e.callSSA(caller, g, pos, stub, args, nil)
			}
		}
		if m, ok := e.models[name]; ok {
			return m(fr, args)
		}
		if o := fn.Origin(); o != nil {
			if m, ok := e.models[fnKey(o)]; ok {
				return m(fr, args)
			}
		}
	}
	if pkg := fnPackage(fn); pkg != nil {
		if matchPkg(noopPkgs, pkg.Pkg.Path()) {
			return e.noopResult(fn.Signature, args, fn)
		}
		if e.isOpaque(pkg.Pkg.Path()) {
			// methods of opaque packages that are plain accessors may still be interpreted when whitelisted
			if !e.allowedOpaqueFn(fn) {
				if e.inInit > 0 {
					// package initialisers may poke opaque packages (hash registries, loggers, metrics):
					// the result is an inert object, never inspected by a harness path without a model.
					return e.noopResult(fn.Signature, args, fn)
				}
				panic(unsupported("call to un-modelled function of opaque package: %s", fn))
			}
		} else {
			e.ensureInit(pkg)
		}
	}
	if fn.Blocks == nil {
		panic(unsupported("no body for function: %s", fn))
	}
	if fn.TypeParams().Len() > 0 && len(fn.TypeArgs()) == 0 {
		panic(unsupported("uninstantiated generic function: %s", fn))
	}
	fr.env = make(map[ssa.Value]Value, 16)
	fr.block = fn.Blocks[0]
	fr.locals = make([]Value, len(fn.Locals))
	for i, l := range fn.Locals {
		fr.locals[i] = zero(deref(l.Type()))
		fr.env[l] = &fr.locals[i]
	}
	if len(args) != len(fn.Params) {
		panic(fmt.Sprintf("callSSA %s: %d args for %d params", fn, len(args), len(fn.Params)))
	}
	for i, p := range fn.Params {
		fr.env[p] = args[i]
	}
	for i, fv := range fn.FreeVars {
		fr.env[fv] = env[i]
	}
	for fr.block != nil {
		e.runFrame(fr)
	}
	return fr.result
}

// inStub reports whether stub is already active on the call stack (so that a stub can call the real function).
func inStub(fr *frame, stub *ssa.Function) bool {
	for f := fr; f != nil; f = f.caller {
		if f.fn == stub {
			return true
		}
	}
	return false
}

func (e *Engine) runFrame(fr *frame) {
	defer func() {
		if fr.block == nil {
			return // normal return
		}
		r := recover()
		switch r := r.(type) {
		case abortPath:
			if r.where == "" && (r.kind == abortUnsupported || r.kind == abortUnwind || r.kind == abortEngineBug) {
				r.where = fr.where()
				r.msg += "\n" + r.where
			}
			panic(r)
		case targetPanic:
			fr.panicking = true
			fr.panicV = r
			if e.panicWhere == "" {
				e.panicWhere = fr.where()
			}
		default:
			panic(abortPath{kind: abortEngineBug, msg: fmt.Sprintf("%v\nin %s\n%s", r, fr.where(), debug.Stack()), where: "x"})
		}
		fr.runDefers()
		fr.block = fr.fn.Recover
		if fr.block == nil {
			// recovered in a function without named results: return zero values
			fr.result = zero(fr.fn.Signature.Results())
			if fr.fn.Signature.Results().Len() == 0 {
				fr.result = nil
			}
		}
	}()
	for {
		nonPhis := fr.executePhis()
		n := len(nonPhis)
		e.steps += n
		if e.inInit == 0 {
			e.funcs[fr.fn] += n
		}
		if e.steps > e.Cfg.MaxSteps && e.inInit == 0 {
			panic(abortPath{kind: abortUnwind, msg: fmt.Sprintf("step cap %d exceeded in %s", e.Cfg.MaxSteps, fr.fn)})
		}
		for _, instr := range nonPhis {
			if e.Cfg.Trace {
				if v, ok := instr.(ssa.Value); ok {
					fmt.Fprintf(os.Stderr, "%s\t%s = %s\n", fr.fn.Name(), v.Name(), instr)
				} else {
					fmt.Fprintf(os.Stderr, "%s\t%s\n", fr.fn.Name(), instr)
				}
			}
			if e.visitInstr(fr, instr) == kReturn {
				return
			}
		}
	}
}

func (fr *frame) where() string {
	var sb strings.Builder
	for f := fr; f != nil; f = f.caller {
		fmt.Fprintf(&sb, "  %s", f.fn)
		if f.callPos.IsValid() {
			fmt.Fprintf(&sb, " (called at %s)", fr.e.Prog.Fset.Position(f.callPos))
		}
		sb.WriteString("\n")
		if sb.Len() > 3000 {
			sb.WriteString("  …\n")
			break
		}
	}
	return sb.String()
}

func (fr *frame) executePhis() []ssa.Instruction {
	instrs := fr.block.Instrs
	firstNonPhi := 0
	for i, instr := range instrs {
		if _, ok := instr.(*ssa.Phi); !ok {
			firstNonPhi = i
			break
		}
	}
	if fr.skipPhis {
		fr.skipPhis = false
		return instrs[firstNonPhi:]
	}
	if firstNonPhi > 0 {
		predIndex := slices.Index(fr.block.Preds, fr.prevBlock)
		var tmp [8]Value
		temps := tmp[:0]
		for _, phi := range instrs[:firstNonPhi] {
			temps = append(temps, fr.get(phi.(*ssa.Phi).Edges[predIndex]))
		}
		for i, phi := range instrs[:firstNonPhi] {
			fr.env[phi.(*ssa.Phi)] = temps[i]
		}
	}
	return instrs[firstNonPhi:]
}

func (fr *frame) runDefer(d *deferred) {
	var ok bool
	defer func() {
		if !ok {
			r := recover()
			switch r := r.(type) {
			case abortPath:
				panic(r)
			case targetPanic:
				fr.panicking = true
				fr.panicV = r
			default:
				panic(abortPath{kind: abortEngineBug, msg: fmt.Sprintf("%v\n%s", r, debug.Stack())})
			}
		}
	}()
	fr.e.call(fr, d.instr.Pos(), d.fn, d.args)
	ok = true
}

func (fr *frame) runDefers() {
	for d := fr.defers; d != nil; d = d.tail {
		fr.defers = d.tail
		fr.runDefer(d)
	}
	fr.defers = nil
	if fr.panicking {
		panic(fr.panicV)
	}
}

func (e *Engine) doRecover(caller *frame) Value {
	if caller != nil && !caller.panicking && caller.caller != nil && caller.caller.panicking {
		caller.caller.panicking = false
		p := caller.caller.panicV
		caller.caller.panicV = nil
		if tp, ok := p.(targetPanic); ok {
			if i, ok := tp.V.(Iface); ok {
				return i
			}
			return Iface{T: types.Typ[types.String], V: tp.V}
		}
		panic(fmt.Sprintf("unexpected panic value %T in recover", p))
	}
	return Iface{}
}

type continuation int

const (
	kNext continuation = iota
	kReturn
	kJump
)

func (e *Engine) prepareCall(fr *frame, call *ssa.CallCommon) (fn Value, args []Value) {
	v := fr.get(call.Value)
	if call.Method == nil {
		fn = v
	} else {
		recv := v.(Iface)
		if recv.T == nil {
			panic(e.runtimePanic("invalid memory address or nil pointer dereference (method call on nil interface)"))
		}
		if recv.T == blackHoleT {
			sig := call.Method.Type().(*types.Signature)
			for _, arg := range call.Args {
				args = append(args, fr.get(arg))
			}
			return &Native{Name: "noop", F: func(fr *frame, a []Value) Value { return e.noopResult(sig, a, nil) }}, args
		}
		f := e.lookupMethod(recv.T, call.Method.Pkg(), call.Method.Name())
		if f == nil {
			panic(fmt.Sprintf("method set of %v does not contain %s", recv.T, call.Method))
		}
		fn = f
		args = append(args, recv.V)
	}
	for _, arg := range call.Args {
		args = append(args, fr.get(arg))
	}
	return
}

func asInt(v Value) int {
	switch v := v.(type) {
	case uint64:
		return int(int64(v))
	}
	panic(fmt.Sprintf("asInt: %T", v))
}

// concInt returns a concrete int for an integer value of type t, concretizing (forking) if symbolic.
func (e *Engine) concInt(v Value, t types.Type, fr *frame) int {
	w, signed, _ := intInfo(t)
	switch v := v.(type) {
	case uint64:
		if signed {
			return int(smt.SignExt(v, w))
		}
		return int(v)
	case *smt.Term:
		c := e.concretize(v, fr)
		if signed {
			return int(smt.SignExt(c, w))
		}
		return int(c)
	case nil:
		return 0
	}
	panic(fmt.Sprintf("concInt: %T", v))
}

func (e *Engine) visitInstr(fr *frame, instr ssa.Instruction) continuation {
	switch instr := instr.(type) {
	case *ssa.DebugRef:

	case *ssa.UnOp:
		fr.env[instr] = e.unop(instr, fr.get(instr.X), fr)

	case *ssa.BinOp:
		fr.env[instr] = e.binop(instr.Op, instr.X.Type(), instr.Y.Type(), fr.get(instr.X), fr.get(instr.Y), fr)

	case *ssa.Call:
		fn, args := e.prepareCall(fr, &instr.Call)
		fr.env[instr] = e.call(fr, instr.Pos(), fn, args)

	case *ssa.ChangeInterface:
		fr.env[instr] = fr.get(instr.X)

	case *ssa.ChangeType:
		fr.env[instr] = fr.get(instr.X)

	case *ssa.Convert:
		fr.env[instr] = e.conv(instr.Type(), instr.X.Type(), fr.get(instr.X), fr)

	case *ssa.MultiConvert:
		fr.env[instr] = e.conv(instr.Type(), instr.X.Type(), fr.get(instr.X), fr)

	case *ssa.SliceToArrayPointer:
		x := fr.get(instr.X).([]Value)
		n := int(deref(instr.Type()).Underlying().(*types.Array).Len())
		if len(x) < n {
			panic(e.runtimePanic("cannot convert slice to array pointer: length too short"))
		}
		if x == nil {
			fr.env[instr] = (*Value)(nil)
		} else {
			// the boxed representation has no array object behind a slice; build an aliasing one is impossible,
			// so copy (reads only). Writes through the pointer would not alias: treat as unsupported if n>0.
			var v Value = Array(x[:n:n])
			fr.env[instr] = &v
		}

	case *ssa.MakeInterface:
		fr.env[instr] = Iface{T: instr.X.Type(), V: fr.get(instr.X)}

	case *ssa.Extract:
		fr.env[instr] = fr.get(instr.Tuple).(Tuple)[instr.Index]

	case *ssa.Slice:
		fr.env[instr] = e.slice(fr, instr)

	case *ssa.Return:
		switch len(instr.Results) {
		case 0:
		case 1:
			fr.result = fr.get(instr.Results[0])
		default:
			res := make(Tuple, len(instr.Results))
			for i, r := range instr.Results {
				res[i] = fr.get(r)
			}
			fr.result = res
		}
		fr.block = nil
		return kReturn

	case *ssa.RunDefers:
		fr.runDefers()

	case *ssa.Panic:
		panic(targetPanic{V: fr.get(instr.X)})

	case *ssa.Send:
		e.chanSend(fr, fr.get(instr.Chan).(*Chan), fr.get(instr.X))

	case *ssa.Store:
		e.store(deref(instr.Addr.Type()), fr.get(instr.Addr), fr.get(instr.Val), fr)

	case *ssa.If:
		succ := 1
		switch c := fr.get(instr.Cond).(type) {
		case bool:
			if c {
				succ = 0
			}
		case *smt.Term:
			if e.tryIfConvert(fr, instr, c) {
				return kJump
			}
			if e.decide(c, fr) {
				succ = 0
			}
		default:
			panic(fmt.Sprintf("If: cond %T", c))
		}
		fr.jump(fr.block.Succs[succ])
		return kJump

	case *ssa.Jump:
		fr.jump(fr.block.Succs[0])
		return kJump

	case *ssa.Defer:
		fn, args := e.prepareCall(fr, &instr.Call)
		defers := &fr.defers
		if instr.DeferStack != nil {
			if into := fr.get(instr.DeferStack); into != nil {
				defers = into.(**deferred)
			}
		}
		*defers = &deferred{fn: fn, args: args, instr: instr, tail: *defers}

	case *ssa.Go:
		fn, args := e.prepareCall(fr, &instr.Call)
		e.spawn(fr, instr.Pos(), fn, args)

	case *ssa.MakeChan:
		fr.env[instr] = e.makeChan(e.concInt(fr.get(instr.Size), instr.Size.Type(), fr))

	case *ssa.Alloc:
		var addr *Value
		if instr.Heap {
			addr = new(Value)
			fr.env[instr] = addr
			*addr = zero(deref(instr.Type()))
		} else {
			addr = fr.env[instr].(*Value)
			*addr = zero(deref(instr.Type()))
		}

	case *ssa.MakeSlice:
		n := e.concInt(fr.get(instr.Len), instr.Len.Type(), fr)
		c := e.concInt(fr.get(instr.Cap), instr.Cap.Type(), fr)
		if n < 0 || n > 1<<28 {
			panic(e.runtimePanic("makeslice: len out of range"))
		}
		if c < n || c > 1<<28 {
			panic(e.runtimePanic("makeslice: cap out of range"))
		}
		tElt := instr.Type().Underlying().(*types.Slice).Elem()
		fr.env[instr] = makeSlice(tElt, n, c)

	case *ssa.MakeMap:
		fr.env[instr] = newMap(instr.Type().Underlying().(*types.Map).Key())

	case *ssa.Range:
		fr.env[instr] = e.rangeIter(fr, fr.get(instr.X), instr.X.Type())

	case *ssa.Next:
		fr.env[instr] = fr.get(instr.Iter).(iter).next(e, fr)

	case *ssa.FieldAddr:
		p := fr.get(instr.X).(*Value)
		if p == nil {
			panic(e.runtimePanic("invalid memory address or nil pointer dereference"))
		}
		fr.env[instr] = &(*p).(Struct)[instr.Field]

	case *ssa.Field:
		fr.env[instr] = copyVal(fr.get(instr.X).(Struct)[instr.Field])

	case *ssa.IndexAddr:
		fr.env[instr] = e.indexAddr(fr, instr)

	case *ssa.Index:
		x := fr.get(instr.X)
		idx := fr.get(instr.Index)
		switch x := x.(type) {
		case Array:
			et := instr.X.Type().Underlying().(*types.Array).Elem()
			if it, ok := idx.(*smt.Term); ok {
				it = e.idxTerm(it, instr.Index.Type())
				e.boundsCheck(fr, it, len(x))
				fr.env[instr] = e.symSelect(x, it, et)
			} else {
				i := e.concInt(idx, instr.Index.Type(), fr)
				if i < 0 || i >= len(x) {
					panic(e.runtimePanic(fmt.Sprintf("index out of range [%d] with length %d", i, len(x))))
				}
				fr.env[instr] = copyVal(x[i])
			}
		case string, *SStr:
			fr.env[instr] = e.strIndex(fr, x, idx, instr.Index.Type())
		default:
			panic(fmt.Sprintf("Index: unexpected %T", x))
		}

	case *ssa.Lookup:
		fr.env[instr] = e.lookup(fr, instr, fr.get(instr.X), fr.get(instr.Index))

	case *ssa.MapUpdate:
		m := fr.get(instr.Map).(*Map)
		if m == nil {
			panic(targetPanic{V: Iface{T: types.Typ[types.String], V: "assignment to entry in nil map"}})
		}
		e.mapInsert(fr, m, fr.get(instr.Key), fr.get(instr.Value))

	case *ssa.TypeAssert:
		fr.env[instr] = e.typeAssert(instr, fr.get(instr.X).(Iface))

	case *ssa.MakeClosure:
		bindings := make([]Value, len(instr.Bindings))
		for i, b := range instr.Bindings {
			bindings[i] = fr.get(b)
		}
		fr.env[instr] = &Closure{Fn: instr.Fn.(*ssa.Function), Env: bindings}

	case *ssa.Select:
		fr.env[instr] = e.selectStmt(fr, instr)

	default:
		panic(fmt.Sprintf("unexpected instruction: %T", instr))
	}
	if e.funcs != nil {
		// counted per block in runFrame via steps; function attribution is done at call time
	}
	return kNext
}

func (fr *frame) jump(to *ssa.BasicBlock) {
	if to.Index <= fr.block.Index {
		fr.backEdges++
		if fr.backEdges > fr.e.Cfg.MaxBackEdge && fr.e.inInit == 0 {
			panic(abortPath{kind: abortUnwind, msg: fmt.Sprintf("loop cap %d exceeded in %s", fr.e.Cfg.MaxBackEdge, fr.fn)})
		}
	}
	fr.prevBlock, fr.block = fr.block, to
}

func makeSlice(tElt types.Type, n, c int) []Value {
	s := make([]Value, c)
	switch tElt.Underlying().(type) {
	case *types.Struct, *types.Array:
		for i := range s {
			s[i] = zero(tElt)
		}
	default:
		z := zero(tElt)
		for i := range s {
			s[i] = z
		}
	}
	return s[:n]
}

// idxTerm brings an index term to 64 bits according to its type.
func (e *Engine) idxTerm(t *smt.Term, typ types.Type) *smt.Term {
	_, signed, _ := intInfo(typ)
	if t.W == 64 {
		return t
	}
	if signed {
		return e.P.SExt(t, 64)
	}
	return e.P.ZExt(t, 64)
}

// boundsCheck forks on idx (64-bit, treated as unsigned so that negatives are out of range) being < n.
func (e *Engine) boundsCheck(fr *frame, idx *smt.Term, n int) {
	inb := e.P.Cmp(smt.OpUlt, idx, e.P.Const(uint64(n), 64))
	if !e.decide(inb, fr) {
		panic(e.runtimePanic(fmt.Sprintf("index out of range [symbolic] with length %d", n)))
	}
}

func (e *Engine) indexAddr(fr *frame, instr *ssa.IndexAddr) Value {
	x := fr.get(instr.X)
	idx := fr.get(instr.Index)
	var elems []Value
	var et types.Type
	switch x := x.(type) {
	case []Value:
		elems = x
		et = instr.X.Type().Underlying().(*types.Slice).Elem()
	case *Value:
		if x == nil {
			panic(e.runtimePanic("invalid memory address or nil pointer dereference"))
		}
		elems = (*x).(Array)
		et = deref(instr.X.Type()).Underlying().(*types.Array).Elem()
	default:
		panic(fmt.Sprintf("IndexAddr: unexpected %T", x))
	}
	if it, ok := idx.(*smt.Term); ok {
		it = e.idxTerm(it, instr.Index.Type())
		e.boundsCheck(fr, it, len(elems))
		if onlyLoaded(instr) {
			if _, _, ok := intInfo(et); ok || isBool(et) {
				return &SymPtr{Elems: elems, Idx: it, T: et}
			}
		}
		i := int(e.concretize(it, fr))
		return &elems[i]
	}
	i := e.concInt(idx, instr.Index.Type(), fr)
	if i < 0 || i >= len(elems) {
		panic(e.runtimePanic(fmt.Sprintf("index out of range [%d] with length %d", i, len(elems))))
	}
	return &elems[i]
}

var onlyLoadedCache sync.Map

func onlyLoaded(instr *ssa.IndexAddr) bool {
	if r, ok := onlyLoadedCache.Load(instr); ok {
		return r.(bool)
	}
	r := true
	for _, ref := range *instr.Referrers() {
		if u, ok := ref.(*ssa.UnOp); ok && u.Op == token.MUL {
			continue
		}
		if _, ok := ref.(*ssa.DebugRef); ok {
			continue
		}
		r = false
		break
	}
	onlyLoadedCache.Store(instr, r)
	return r
}

func (e *Engine) strIndex(fr *frame, x Value, idx Value, it types.Type) Value {
	n := strLen(x)
	if t, ok := idx.(*smt.Term); ok {
		t = e.idxTerm(t, it)
		e.boundsCheck(fr, t, n)
		return e.symSelect(strBytes(x), t, types.Typ[types.Uint8])
	}
	i := e.concInt(idx, it, fr)
	if i < 0 || i >= n {
		panic(e.runtimePanic(fmt.Sprintf("index out of range [%d] with length %d", i, n)))
	}
	return strByte(x, i)
}

func (e *Engine) slice(fr *frame, instr *ssa.Slice) Value {
	x := fr.get(instr.X)
	var lo, hi, max = -1, -1, -1
	if instr.Low != nil {
		lo = e.concInt(fr.get(instr.Low), instr.Low.Type(), fr)
	}
	if instr.High != nil {
		hi = e.concInt(fr.get(instr.High), instr.High.Type(), fr)
	}
	if instr.Max != nil {
		max = e.concInt(fr.get(instr.Max), instr.Max.Type(), fr)
	}
	if lo == -1 {
		lo = 0
	}
	var ln, cp int
	switch x := x.(type) {
	case string, *SStr:
		ln = strLen(x)
		cp = ln
	case []Value:
		ln, cp = len(x), cap(x)
	case *Value:
		if x == nil {
			panic(e.runtimePanic("invalid memory address or nil pointer dereference"))
		}
		a := (*x).(Array)
		ln, cp = len(a), len(a)
	default:
		panic(fmt.Sprintf("slice: unexpected %T", x))
	}
	if hi == -1 {
		hi = ln
	}
	if max == -1 {
		max = cp
	}
	if _, isStr := x.(string); isStr {
		cp = ln
	}
	if lo < 0 || hi < lo || hi > max || max > cp {
		if _, ok := x.([]Value); !ok && hi > ln {
			panic(e.runtimePanic(fmt.Sprintf("slice bounds out of range [:%d] with length %d", hi, ln)))
		}
		panic(e.runtimePanic(fmt.Sprintf("slice bounds out of range [%d:%d:%d] with capacity %d", lo, hi, max, cp)))
	}
	switch x := x.(type) {
	case string, *SStr:
		if hi > ln {
			panic(e.runtimePanic(fmt.Sprintf("slice bounds out of range [:%d] with length %d", hi, ln)))
		}
		return strSlice(x, lo, hi)
	case []Value:
		if x == nil {
			return x
		}
		return x[lo:hi:max]
	case *Value:
		a := (*x).(Array)
		return []Value(a)[lo:hi:max]
	}
	panic("unreachable")
}

func (e *Engine) typeAssert(instr *ssa.TypeAssert, itf Iface) Value {
	var v Value
	var err string
	if idst, ok := instr.AssertedType.Underlying().(*types.Interface); ok {
		if itf.T == nil {
			err = fmt.Sprintf("interface conversion: interface is nil, not %s", instr.AssertedType)
		} else if meth, _ := types.MissingMethod(itf.T, idst, true); meth == nil {
			v = itf
		} else {
			err = fmt.Sprintf("interface conversion: %v is not %v: missing method %s", itf.T, idst, meth.Name())
		}
	} else if itf.T != nil && types.Identical(itf.T, instr.AssertedType) {
		v = copyVal(itf.V)
	} else {
		err = fmt.Sprintf("interface conversion: interface is %v, not %s", itf.T, instr.AssertedType)
	}
	if err != "" {
		if !instr.CommaOk {
			panic(e.runtimePanic(err))
		}
		return Tuple{zero(instr.AssertedType), false}
	}
	if instr.CommaOk {
		return Tuple{v, true}
	}
	return v
}

// FuncsEncoded returns the functions whose SSA bodies were executed.
func (e *Engine) countFn(fn *ssa.Function, n int) { e.funcs[fn] += n }
