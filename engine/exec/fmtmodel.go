package exec

import (
	"fmt"
	"go/token"
	"go/types"
	"strconv"
	"strings"

	"golang.org/x/tools/go/ssa"
	"verif/gosx/smt"
)

// fmtArg renders one argument for verbs like %v %s %d. Symbolic integers/strings are rendered as a
// placeholder made of fresh symbolic bytes (formatting is never the subject; see DESIGN section 4).
func (e *Engine) fmtArg(fr *frame, verb byte, flags string, v Value, depth int) Value {
	if depth > 6 {
		return "…"
	}
	switch x := v.(type) {
	case Iface:
		if x.T == nil {
			if verb == 's' || verb == 'v' || verb == 'q' {
				return "<nil>"
			}
			return "%!" + string(verb) + "(<nil>)"
		}
		if x.T == blackHoleT {
			return "<noop>"
		}
		// error / Stringer
		if verb == 'v' || verb == 's' || verb == 'q' {
			for _, name := range []string{"Error", "String"} {
				if m := e.lookupMethod(x.T, nil, name); m != nil && m.Signature.Params().Len() == 0 && m.Signature.Results().Len() == 1 && isString(m.Signature.Results().At(0).Type()) {
					if p, ok := x.V.(*Value); ok && p == nil {
						return "<nil>"
					}
					s := e.callSSA(fr, fr.gOr(e), token.NoPos, m, []Value{x.V}, nil)
					if verb == 'q' {
						if cs, ok := s.(string); ok {
							return strconv.Quote(cs)
						}
					}
					return s
				}
			}
		}
		return e.fmtTyped(fr, verb, flags, x.T, x.V, depth)
	}
	return e.fmtTyped(fr, verb, flags, nil, v, depth)
}

func (e *Engine) symPlaceholder(what string) Value {
	b := make([]Value, 3)
	base := e.freshName("fmt$" + what)
	for i := range b {
		b[i] = e.P.Var(fmt.Sprintf("%s[%d]", base, i), 8)
	}
	return &SStr{B: b}
}

func (e *Engine) fmtTyped(fr *frame, verb byte, flags string, t types.Type, v Value, depth int) Value {
	switch x := v.(type) {
	case bool:
		return strconv.FormatBool(x)
	case uint64:
		signed := true
		w := 64
		if t != nil {
			if ww, s, ok := intInfo(t); ok {
				w, signed = ww, s
			}
		}
		var s string
		base := 10
		switch verb {
		case 'x', 'X':
			base = 16
		case 'o':
			base = 8
		case 'b':
			base = 2
		case 'c':
			return string(rune(x))
		case 'q':
			return strconv.QuoteRune(rune(x))
		case 'U':
			return fmt.Sprintf("%U", rune(x))
		}
		if signed {
			s = strconv.FormatInt(smt.SignExt(x, w), base)
		} else {
			s = strconv.FormatUint(x, base)
		}
		if verb == 'X' {
			s = strings.ToUpper(s)
		}
		return padFlags(s, flags)
	case float64:
		f := "%" + flags + string(verb)
		if verb == 's' || verb == 'd' {
			f = "%v"
		}
		return fmt.Sprintf(f, x)
	case string:
		switch verb {
		case 'q':
			return strconv.Quote(x)
		case 'x':
			return fmt.Sprintf("%x", x)
		case 'X':
			return fmt.Sprintf("%X", x)
		}
		return padFlags(x, flags)
	case *SStr:
		if verb == 's' || verb == 'v' {
			return x
		}
		return e.symPlaceholder("str")
	case *smt.Term:
		return e.symPlaceholder("int")
	case *Value:
		if x == nil {
			return "<nil>"
		}
		if verb == 'v' || verb == 's' {
			if t != nil {
				if pt, ok := t.Underlying().(*types.Pointer); ok {
					if _, ok := pt.Elem().Underlying().(*types.Struct); ok {
						r := e.fmtTyped(fr, verb, flags, pt.Elem(), *x, depth+1)
						return strConcat("&", r)
					}
				}
			}
		}
		return fmt.Sprintf("0xc%07x", e.fakeAddr(UPtr{P: x})&0xfffffff)
	case []Value:
		var et types.Type
		if t != nil {
			if st, ok := t.Underlying().(*types.Slice); ok {
				et = st.Elem()
			}
		}
		if et != nil {
			if w, _, ok := intInfo(et); ok && w == 8 {
				switch verb {
				case 's':
					return mkStr(x)
				case 'x', 'X', 'q':
					s := mkStr(x)
					if cs, ok := s.(string); ok {
						return fmt.Sprintf("%"+string(verb), cs)
					}
					return e.symPlaceholder("bytes")
				}
			}
		}
		var out Value = "["
		for i, el := range x {
			if i > 0 {
				out = strConcat(out, " ")
			}
			out = strConcat(out, e.fmtWithType(fr, verb, flags, et, el, depth+1))
		}
		return strConcat(out, "]")
	case Array:
		var et types.Type
		if t != nil {
			if at, ok := t.Underlying().(*types.Array); ok {
				et = types.NewSlice(at.Elem())
			}
		}
		return e.fmtTyped(fr, verb, flags, et, []Value(x), depth)
	case Struct:
		var out Value = "{"
		var st *types.Struct
		if t != nil {
			st, _ = t.Underlying().(*types.Struct)
		}
		for i, f := range x {
			if i > 0 {
				out = strConcat(out, " ")
			}
			var ft types.Type
			if st != nil {
				ft = st.Field(i).Type()
				if strings.Contains(flags, "+") {
					out = strConcat(out, st.Field(i).Name()+":")
				}
			}
			out = strConcat(out, e.fmtWithType(fr, verb, flags, ft, f, depth+1))
		}
		return strConcat(out, "}")
	case *Map:
		if x == nil {
			return "map[]"
		}
		return fmt.Sprintf("map[%d entries]", x.n)
	case nil:
		return "<nil>"
	case UPtr:
		return "0xptr"
	case *ssa.Function, *Closure, *Native:
		return "0xfunc"
	case *Chan:
		return "0xchan"
	case complex128:
		return fmt.Sprint(x)
	}
	return fmt.Sprintf("<%T>", v)
}

// fmtWithType formats a value whose static type is t, honouring Error/String methods on named types.
func (e *Engine) fmtWithType(fr *frame, verb byte, flags string, t types.Type, v Value, depth int) Value {
	if i, ok := v.(Iface); ok {
		return e.fmtArg(fr, verb, flags, i, depth)
	}
	if t != nil {
		if _, ok := t.(*types.Named); ok {
			return e.fmtArg(fr, verb, flags, Iface{T: t, V: v}, depth)
		}
		if pt, ok := t.(*types.Pointer); ok {
			if _, ok := pt.Elem().(*types.Named); ok {
				return e.fmtArg(fr, verb, flags, Iface{T: t, V: v}, depth)
			}
		}
	}
	return e.fmtTyped(fr, verb, flags, t, v, depth)
}

func padFlags(s, flags string) string {
	if flags == "" {
		return s
	}
	left := strings.Contains(flags, "-")
	zero := strings.HasPrefix(strings.TrimLeft(flags, "+-# "), "0")
	num := strings.TrimLeft(flags, "+-# 0")
	if i := strings.IndexByte(num, '.'); i >= 0 {
		num = num[:i]
	}
	w, _ := strconv.Atoi(num)
	for len(s) < w {
		switch {
		case left:
			s += " "
		case zero:
			if strings.HasPrefix(s, "-") {
				s = "-0" + s[1:]
			} else {
				s = "0" + s
			}
		default:
			s = " " + s
		}
	}
	return s
}

// sprintfW formats and also returns the operands of %w verbs.
func (e *Engine) sprintfW(fr *frame, format Value, args []Value) (Value, []Iface) {
	f := e.concStr(format, "format string")
	var out Value = ""
	var wrapped []Iface
	ai := 0
	for i := 0; i < len(f); i++ {
		c := f[i]
		if c != '%' {
			j := i
			for j < len(f) && f[j] != '%' {
				j++
			}
			out = strConcat(out, f[i:j])
			i = j - 1
			continue
		}
		i++
		if i >= len(f) {
			out = strConcat(out, "%!(NOVERB)")
			break
		}
		j := i
		for j < len(f) && strings.IndexByte("+-# 0123456789.*[]", f[j]) >= 0 {
			j++
		}
		flags := f[i:j]
		if j >= len(f) {
			out = strConcat(out, "%!(NOVERB)")
			break
		}
		verb := f[j]
		i = j
		if verb == '%' {
			out = strConcat(out, "%")
			continue
		}
		if strings.Contains(flags, "*") {
			ai++ // width taken from args: ignore
			flags = strings.ReplaceAll(flags, "*", "")
		}
		if ai >= len(args) {
			out = strConcat(out, "%!"+string(verb)+"(MISSING)")
			continue
		}
		arg := args[ai]
		ai++
		switch verb {
		case 'w':
			if itf, ok := arg.(Iface); ok && itf.T != nil {
				wrapped = append(wrapped, itf)
			}
			out = strConcat(out, e.fmtArg(fr, 'v', flags, arg, 0))
		case 'T':
			if itf, ok := arg.(Iface); ok && itf.T != nil {
				out = strConcat(out, types.TypeString(itf.T, func(p *types.Package) string { return p.Name() }))
			} else {
				out = strConcat(out, "<nil>")
			}
		case 'p':
			out = strConcat(out, "0xc000000000")
		default:
			out = strConcat(out, e.fmtArg(fr, verb, flags, arg, 0))
		}
	}
	if ai < len(args) {
		out = strConcat(out, "%!(EXTRA)")
	}
	return out, wrapped
}

func (e *Engine) sprintf(fr *frame, format Value, args []Value) string {
	s, _ := e.sprintfW(fr, format, args)
	if cs, ok := s.(string); ok {
		return cs
	}
	return "<symbolic>"
}

func (e *Engine) sprint(fr *frame, args []Value, ln bool) Value {
	var out Value = ""
	for i, a := range args {
		if i > 0 {
			_, prevStr := args[i-1].(Iface).V.(string)
			_, curStr := a.(Iface).V.(string)
			if ln || (!prevStr && !curStr) {
				out = strConcat(out, " ")
			}
		}
		out = strConcat(out, e.fmtArg(fr, 'v', "", a, 0))
	}
	if ln {
		out = strConcat(out, "\n")
	}
	return out
}

func registerFmtModels(e *Engine) {
	e.reg("fmt.Sprintf", func(fr *frame, a []Value) Value {
		s, _ := e.sprintfW(fr, a[0], a[1].([]Value))
		return s
	})
	e.reg("fmt.Sprint", func(fr *frame, a []Value) Value { return e.sprint(fr, a[0].([]Value), false) })
	e.reg("fmt.Sprintln", func(fr *frame, a []Value) Value { return e.sprint(fr, a[0].([]Value), true) })
	e.reg("fmt.Errorf", func(fr *frame, a []Value) Value {
		msg, wrapped := e.sprintfW(fr, a[0], a[1].([]Value))
		fmtPkg := e.Prog.ImportedPackage("fmt")
		switch len(wrapped) {
		case 0:
			// &errors.errorString{s}  -- use fmt's own *fmt.wrapError-free form: errors.New
			ep := e.Prog.ImportedPackage("errors")
			t := ep.Type("errorString").Object().Type()
			var v Value = Struct{msg}
			return Iface{T: types.NewPointer(t), V: &v}
		case 1:
			t := fmtPkg.Type("wrapError").Object().Type()
			var v Value = Struct{msg, wrapped[0]}
			return Iface{T: types.NewPointer(t), V: &v}
		default:
			t := fmtPkg.Type("wrapErrors").Object().Type()
			errs := make([]Value, len(wrapped))
			for i, w := range wrapped {
				errs[i] = w
			}
			var v Value = Struct{msg, errs}
			return Iface{T: types.NewPointer(t), V: &v}
		}
	})
	writeTo := func(fr *frame, w Iface, s Value) Value {
		if w.T == nil || w.T == blackHoleT {
			return Tuple{uint64(strLen(s)), Iface{}}
		}
		m := e.lookupMethod(w.T, nil, "Write")
		b := append([]Value(nil), strBytes(s)...)
		return e.callSSA(fr, fr.g, token.NoPos, m, []Value{w.V, b}, nil)
	}
	e.reg("fmt.Fprintf", func(fr *frame, a []Value) Value {
		s, _ := e.sprintfW(fr, a[1], a[2].([]Value))
		return writeTo(fr, a[0].(Iface), s)
	})
	e.reg("fmt.Fprint", func(fr *frame, a []Value) Value {
		return writeTo(fr, a[0].(Iface), e.sprint(fr, a[1].([]Value), false))
	})
	e.reg("fmt.Fprintln", func(fr *frame, a []Value) Value { return writeTo(fr, a[0].(Iface), e.sprint(fr, a[1].([]Value), true)) })
	for _, n := range []string{"fmt.Printf", "fmt.Println", "fmt.Print"} {
		e.reg(n, func(fr *frame, a []Value) Value { return Tuple{uint64(0), Iface{}} })
	}
	e.reg("fmt.Sscanf", func(fr *frame, a []Value) Value { panic(unsupported("fmt.Sscanf")) })
}
