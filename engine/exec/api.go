package exec

import (
	"go/types"

	"golang.org/x/tools/go/ssa"
)

// AddOpaque extends / restricts the opaque package list for this engine.
func (e *Engine) AddOpaque(opaque, notOpaque []string) {
	e.opaque = append(e.opaque, opaque...)
	e.notOpaque = append(e.notOpaque, notOpaque...)
}

// EagerInit runs a package initializer up front (for packages relied on only through init side effects).
func (e *Engine) EagerInit(pkg *ssa.Package) {
	e.sched = newScheduler(e)
	g := e.sched.newG("init")
	e.sched.cur = g
	e.ensureInit(pkg)
	e.sched = nil
}

// lookupMethod is a non-panicking ssa.Program.LookupMethod.
func (e *Engine) lookupMethod(T types.Type, pkg *types.Package, name string) *ssa.Function {
	if T == nil || T == blackHoleT {
		return nil
	}
	sel := e.Prog.MethodSets.MethodSet(T).Lookup(pkg, name)
	if sel == nil {
		return nil
	}
	return e.Prog.MethodValue(sel)
}
