package exec

import (
	"verif/gosx/smt"
)

// probeUnknown is the fallback for an assertion query the solver could not decide (unknown / timeout, typically
// 64-bit division or multiplication by a large constant). It never turns an undecided query into a pass; it only
// looks for a counterexample the hard way: starting from the cached model of the path condition (or all zeros),
// it re-assigns one or two path variables to corner values (0, 1, -1, min/max signed, constants of the formula
// +-1) and evaluates path condition and assertion concretely on the term DAG. A hit is an ordinary violation
// candidate (replayed natively before it is reported); no hit leaves the query inconclusive.
func (e *Engine) probeUnknown(c *smt.Term) (map[string]uint64, bool) {
	if c.HasUF || len(e.pathVars) == 0 {
		return nil, false
	}
	for _, t := range e.pc {
		if t.HasUF {
			return nil, false
		}
	}
	base := map[string]uint64{}
	if e.curModel != nil {
		for k, v := range e.curModel {
			base[k] = v
		}
	}
	// constants of the assertion (bounded walk)
	consts := map[uint64]bool{}
	seen := map[int]bool{}
	var walk func(t *smt.Term)
	walk = func(t *smt.Term) {
		if seen[t.ID] || len(seen) > 20000 {
			return
		}
		seen[t.ID] = true
		if t.Op == smt.OpConst && t.W > 1 && len(consts) < 24 {
			consts[t.C] = true
		}
		for _, a := range t.Args {
			walk(a)
		}
	}
	walk(c)
	corners := func(w int) []uint64 {
		m := smt.Mask(max(w, 1))
		if w <= 1 {
			return []uint64{0, 1}
		}
		cs := []uint64{0, 1, 2, m, m - 1, m >> 1, (m >> 1) + 1, (m >> 1) + 2, 1 << uint(w/2), 999, 1000, 999999999, 1000000000, 1000000001}
		for k := range consts {
			cs = append(cs, k, k+1, k-1, -k)
		}
		out := cs[:0]
		dup := map[uint64]bool{}
		for _, v := range cs {
			v &= m
			if !dup[v] {
				dup[v] = true
				out = append(out, v)
			}
		}
		return out
	}
	try := func(m map[string]uint64) bool {
		memo := map[int]uint64{}
		mod := &smt.Model{Vars: m}
		for _, t := range e.pc {
			if e.P.Eval(t, mod, memo) == 0 {
				return false
			}
		}
		return e.P.Eval(c, mod, memo) == 0
	}
	budget := 6000
	clone := func() map[string]uint64 {
		m := make(map[string]uint64, len(base))
		for k, v := range base {
			m[k] = v
		}
		return m
	}
	vars := e.pathVars
	if len(vars) > 40 {
		vars = vars[len(vars)-40:]
	}
	for _, v := range vars {
		for _, cv := range corners(v.W) {
			if budget--; budget < 0 {
				return nil, false
			}
			m := clone()
			m[v.Name] = cv
			if try(m) {
				return m, true
			}
		}
	}
	for i, v := range vars {
		for _, w := range vars[i+1:] {
			for _, cv := range corners(v.W) {
				for _, cw := range corners(w.W) {
					if budget--; budget < 0 {
						return nil, false
					}
					m := clone()
					m[v.Name] = cv
					m[w.Name] = cw
					if try(m) {
						return m, true
					}
				}
			}
		}
	}
	return nil, false
}
