package exec

import (
	"fmt"

	"verif/gosx/smt"
)

type hashApp struct {
	in  []*smt.Term
	out *smt.Term
}

// hashUF models a hash function as an uninterpreted function per (algorithm, input length), with
// pairwise-instantiated injectivity between the applications that occur on one path (collision freedom)
// when the algorithm name starts with "crypto:".
func (e *Engine) hashUF(algo string, data []Value, outLen int, fr *frame) Value {
	allConc := true
	for _, b := range data {
		if _, ok := b.(uint64); !ok {
			allConc = false
		}
	}
	_ = allConc
	n := len(data)
	name := fmt.Sprintf("H_%s_%d_%d", sanitize(algo), n, outLen)
	var arg *smt.Term
	ins := make([]*smt.Term, n)
	for i, b := range data {
		ins[i] = e.term(b, 8)
	}
	if n == 0 {
		arg = e.P.Const(0, 8)
	} else {
		arg = ins[0]
		for i := 1; i < n; i++ {
			arg = e.P.Concat(arg, ins[i])
		}
	}
	d := e.P.DeclareUF(name, []int{arg.W}, outLen*8)
	app := e.P.App(d, arg)
	// collision freedom against earlier applications of the same algorithm (any length)
	key := sanitize(algo)
	for _, prev := range e.hashApps[key] {
		if prev.out == app {
			continue
		}
		if prev.out.W != app.W {
			continue
		}
		// equal digests => equal inputs
		var same *smt.Term
		if len(prev.in) != n {
			same = e.P.False
		} else {
			same = e.P.True
			for i := range ins {
				same = e.P.And(same, e.P.Eq(prev.in[i], ins[i]))
			}
		}
		ax := e.P.Or(e.P.Not(e.P.Eq(prev.out, app)), same)
		e.assertPC(ax)
	}
	if len(e.hashApps[key]) > 0 && e.pos >= len(e.prefix) {
		// the cached model knows nothing about the new axioms
		e.curModel = nil
		if !e.ensureModel() {
			panic(abortPath{kind: abortPruned, msg: "hash axioms make the path infeasible"})
		}
	}
	e.hashApps[key] = append(e.hashApps[key], hashApp{in: ins, out: app})
	out := make([]Value, outLen)
	for i := 0; i < outLen; i++ {
		hi := (outLen-i)*8 - 1
		out[i] = norm(e.P.Extract(app, hi, hi-7))
	}
	return out
}

func sanitize(s string) string {
	b := []byte(s)
	for i, c := range b {
		if !(c >= 'a' && c <= 'z' || c >= 'A' && c <= 'Z' || c >= '0' && c <= '9') {
			b[i] = '_'
		}
	}
	return string(b)
}
