package exec

import (
	"fmt"
	"go/token"
	"os"
	"runtime/debug"
	"sort"
	"strings"
	"sync"
	"time"

	"golang.org/x/tools/go/ssa"
	"verif/gosx/smt"
)

const tokLSS = token.LSS

// Dec is one recorded decision of a path.
//
//	'b' symbolic branch, V = 1 (true) / 0 (false)
//	'c' concretize: term == V taken;  'n' concretize: term != V (enumeration continues)
//	'k' n-ary choice (scheduler, map order), V = index
type Dec struct {
	K byte
	V uint64
	F bool // forced (the other side was infeasible / no alternative): never flipped
}

// workItem is a decision prefix to explore plus (optionally) a model known to satisfy it.
type workItem struct {
	prefix []Dec
	model  map[string]uint64
}

type Stats struct {
	Paths, Completed, Pruned, Panicked, Inconclusive int
	Decisions                                        int
	IfConverted                                      int
	AssertsChecked, AssertsTrivial                   int
	Violations                                       int
	MaxPathSteps                                     int
	TotalSteps                                       int64
	Wall                                             time.Duration
	InconclusiveReasons                              map[string]int
	ModelHits                                        int
}

func (s *Stats) add(o *Stats) {
	s.Paths += o.Paths
	s.Completed += o.Completed
	s.Pruned += o.Pruned
	s.Panicked += o.Panicked
	s.Inconclusive += o.Inconclusive
	s.Decisions += o.Decisions
	s.IfConverted += o.IfConverted
	s.AssertsChecked += o.AssertsChecked
	s.AssertsTrivial += o.AssertsTrivial
	s.ModelHits += o.ModelHits
	s.TotalSteps += o.TotalSteps
	if o.MaxPathSteps > s.MaxPathSteps {
		s.MaxPathSteps = o.MaxPathSteps
	}
	for r, n := range o.InconclusiveReasons {
		if s.InconclusiveReasons == nil {
			s.InconclusiveReasons = map[string]int{}
		}
		s.InconclusiveReasons[r] += n
	}
}

type AssertStat struct {
	Reached, Discharged, Violated, Unknown int
}

type Violation struct {
	ID     string // assertion id, or "panic", "deadlock", "divergence"
	Msg    string
	Inputs map[string]uint64 // nondet name -> value
	Sched  []uint64
	Path   []Dec
	Where  string
}

type PathSummary struct {
	Decisions int               `json:"decisions"`
	Steps     int               `json:"steps"`
	End       string            `json:"end"`
	Witness   map[string]uint64 `json:"witness,omitempty"`
	Asserts   []string          `json:"asserts,omitempty"`
}

type SolverStats struct {
	Queries, Sat, Unsat, Unknown, Errors int
	Secs                                 float64
}

type Report struct {
	Entry      string
	Stats      Stats
	Solver     SolverStats
	Violations []Violation
	Samples    []PathSummary
	Asserts    map[string]*AssertStat
	Reach      map[string]int
	Funcs      map[string]int
	Inconcl    []string
	Witnesses  []Witness // for translator validation
}

// Witness is a concrete input assignment for one explored path together with the observations the
// engine predicts for it.
type Witness struct {
	Inputs map[string]uint64
	Obs    []ObsRec
	End    string
}

type ObsRec struct {
	Name string
	Val  string
}

// ---------------------------------------------------------------- solver stack (one level per PC assertion)

// syncSolver pops solver levels left over from the previous path beyond the current path condition.
func (e *Engine) syncSolver() {
	for len(e.solverPC) > len(e.pc) {
		e.S.Pop()
		e.solverPC = e.solverPC[:len(e.solverPC)-1]
	}
}

func (e *Engine) assertPC(t *smt.Term) {
	if t.IsConst() && t.C != 0 {
		return
	}
	i := len(e.pc)
	e.pc = append(e.pc, t)
	if i < len(e.solverPC) {
		if e.solverPC[i] == t {
			return // the solver still holds this assertion from the previous path
		}
		for len(e.solverPC) > i {
			e.S.Pop()
			e.solverPC = e.solverPC[:len(e.solverPC)-1]
		}
	}
	e.S.Push()
	e.S.Assert(t)
	e.solverPC = append(e.solverPC, t)
}

// evalModel evaluates a term under the cached model; ok=false if there is no model or t is not evaluable.
func (e *Engine) evalModel(t *smt.Term) (uint64, bool) {
	if e.curModel == nil || t.HasUF {
		return 0, false
	}
	return e.P.Eval(t, &smt.Model{Vars: e.curModel}, map[int]uint64{}), true
}

// checkWith asks whether PC ∧ extra is satisfiable; on sat it returns a model of all path variables.
func (e *Engine) checkWith(extra *smt.Term) (smt.Result, map[string]uint64) {
	e.syncSolver()
	e.S.Push()
	e.S.Assert(extra)
	r := e.S.Check()
	if r == smt.Unknown && e.S.CheckFresh() == smt.Unsat {
		// the incremental core timed out; the same stack is unsatisfiable for a fresh, non-incremental solver
		r = smt.Unsat
		e.S.NUnk--
		e.S.NUnsat++
	}
	var m map[string]uint64
	if r == smt.Sat {
		m, _ = e.modelAfterSat()
	}
	e.S.Pop()
	return r, m
}

// ensureModel makes sure a model of the current PC is cached (one query when missing).
func (e *Engine) ensureModel() bool {
	if e.curModel != nil {
		return true
	}
	e.syncSolver()
	if e.S.Check() != smt.Sat {
		return false
	}
	m, ok := e.modelAfterSat()
	if ok {
		e.curModel = m
	}
	return ok
}

// decideV decides a bool-or-term value.
func (e *Engine) decideV(v Value, fr *frame) bool {
	switch v := v.(type) {
	case bool:
		return v
	case *smt.Term:
		return e.decide(v, fr)
	}
	panic(fmt.Sprintf("decideV: %T", v))
}

func b2u(b bool) uint64 {
	if b {
		return 1
	}
	return 0
}

// endOfPrefix installs the model that came with the work item once the prefix has been replayed.
func (e *Engine) endOfPrefix() {
	if e.pos == len(e.prefix) && e.prefixModel != nil {
		e.curModel = e.prefixModel
		e.prefixModel = nil
	}
}

// decide resolves a symbolic condition, forking the path if both outcomes are feasible.
func (e *Engine) decide(c *smt.Term, fr *frame) bool {
	if c.IsConst() {
		return c.C != 0
	}
	if e.inInit > 0 {
		panic(abortPath{kind: abortEngineBug, msg: "symbolic branch during package init"})
	}
	if e.pos < len(e.prefix) {
		d := e.prefix[e.pos]
		e.pos++
		if d.K != 'b' {
			panic(abortPath{kind: abortEngineBug, msg: fmt.Sprintf("replay divergence: expected branch, have %c at %d\n%s", d.K, e.pos-1, fr.where())})
		}
		e.trace = append(e.trace, d)
		if d.V != 0 {
			e.assertPC(c)
		} else {
			e.assertPC(e.P.Not(c))
		}
		e.endOfPrefix()
		return d.V != 0
	}
	e.Stats.Decisions++
	nc := e.P.Not(c)
	// side suggested by the cached model needs no query
	if v, ok := e.evalModel(c); ok {
		e.Stats.ModelHits++
		side := v != 0
		other := nc
		if !side {
			other = c
		}
		r, m := e.checkWith(other)
		if r == smt.Unsat {
			e.trace = append(e.trace, Dec{K: 'b', V: b2u(side), F: true})
		} else {
			noteFork(fr, "branch:"+r.String())
			alt := append(append([]Dec(nil), e.trace...), Dec{K: 'b', V: b2u(!side)})
			e.pending = append(e.pending, workItem{prefix: alt, model: m})
			e.trace = append(e.trace, Dec{K: 'b', V: b2u(side)})
		}
		if side {
			e.assertPC(c)
		} else {
			e.assertPC(nc)
		}
		return side
	}
	rt, mt := e.checkWith(c)
	if rt == smt.Unsat {
		e.trace = append(e.trace, Dec{K: 'b', V: 0, F: true})
		e.assertPC(nc)
		return false
	}
	rf, mf := e.checkWith(nc)
	if rf == smt.Unsat {
		e.trace = append(e.trace, Dec{K: 'b', V: 1, F: true})
		e.assertPC(c)
		e.curModel = mt
		return true
	}
	// both sides feasible (or unknown: keep both, over-approximation)
	noteFork(fr, "branch:"+rt.String()+"/"+rf.String())
	alt := append(append([]Dec(nil), e.trace...), Dec{K: 'b', V: 0})
	e.pending = append(e.pending, workItem{prefix: alt, model: mf})
	e.trace = append(e.trace, Dec{K: 'b', V: 1})
	e.assertPC(c)
	e.curModel = mt
	return true
}

// choose makes an n-ary nondeterministic choice (no solver involved).
func (e *Engine) choose(n int, what string, fr *frame) int {
	if n <= 1 {
		return 0
	}
	if e.pos < len(e.prefix) {
		d := e.prefix[e.pos]
		e.pos++
		if d.K != 'k' {
			panic(abortPath{kind: abortEngineBug, msg: fmt.Sprintf("replay divergence: expected choice(%s), have %c", what, d.K)})
		}
		e.trace = append(e.trace, d)
		e.endOfPrefix()
		return int(d.V)
	}
	for i := n - 1; i >= 1; i-- {
		alt := append(append([]Dec(nil), e.trace...), Dec{K: 'k', V: uint64(i)})
		e.pending = append(e.pending, workItem{prefix: alt, model: e.curModel})
	}
	e.trace = append(e.trace, Dec{K: 'k', V: 0})
	return 0
}

// concretize enumerates the feasible values of t, one path per value.
func (e *Engine) concretize(t *smt.Term, fr *frame) uint64 {
	if t.IsConst() {
		return t.C
	}
	for n := 0; ; n++ {
		if e.pos < len(e.prefix) {
			d := e.prefix[e.pos]
			e.pos++
			e.trace = append(e.trace, d)
			eq := e.P.Eq(t, e.P.Const(d.V, t.W))
			switch d.K {
			case 'c':
				e.assertPC(eq)
				e.endOfPrefix()
				return d.V
			case 'n':
				e.assertPC(e.P.Not(eq))
				e.endOfPrefix()
				continue
			}
			panic(abortPath{kind: abortEngineBug, msg: "replay divergence in concretize"})
		}
		if n > e.Cfg.MaxConcretize {
			panic(unsupported("concretize: more than %d feasible values for %s", e.Cfg.MaxConcretize, t))
		}
		e.Stats.Decisions++
		var v uint64
		if mv, ok := e.evalModel(t); ok {
			v = mv
		} else {
			e.curModel = nil
			if !e.ensureModel() {
				panic(abortPath{kind: abortUnsupported, msg: "concretize: no model for the path condition"})
			}
			e.syncSolver()
			if e.S.Check() != smt.Sat {
				panic(abortPath{kind: abortUnsupported, msg: "concretize: path condition not sat"})
			}
			vals, err := e.S.Values([]*smt.Term{t})
			if err != nil {
				panic(unsupported("concretize: %v", err))
			}
			v = vals[0]
		}
		eq := e.P.Eq(t, e.P.Const(v, t.W))
		r, m := e.checkWith(e.P.Not(eq))
		if r == smt.Unsat {
			e.trace = append(e.trace, Dec{K: 'c', V: v, F: true})
		} else {
			noteFork(fr, "concretize")
			alt := append(append([]Dec(nil), e.trace...), Dec{K: 'n', V: v})
			e.pending = append(e.pending, workItem{prefix: alt, model: m})
			e.trace = append(e.trace, Dec{K: 'c', V: v})
		}
		e.assertPC(eq)
		if t.HasUF {
			e.curModel = nil
		}
		return v
	}
}

// ---------------------------------------------------------------- harness primitives

func (e *Engine) freshName(name string) string {
	n := e.nameCnt[name]
	e.nameCnt[name] = n + 1
	if n == 0 {
		return name
	}
	return fmt.Sprintf("%s#%d", name, n)
}

func (e *Engine) nondet(name string, w int) *smt.Term {
	v := e.P.Var(e.freshName(name), w)
	e.pathVars = append(e.pathVars, v)
	return v
}

func (e *Engine) assume(c Value, fr *frame) {
	switch c := c.(type) {
	case bool:
		if !c {
			panic(abortPath{kind: abortPruned, msg: "assume(false)"})
		}
	case *smt.Term:
		if e.pos < len(e.prefix) {
			// on replayed prefixes the assumption was already found satisfiable
			e.assertPC(c)
			return
		}
		if v, ok := e.evalModel(c); ok && v != 0 {
			e.assertPC(c)
			return
		}
		r, m := e.checkWith(c)
		if r == smt.Unsat {
			panic(abortPath{kind: abortPruned, msg: "assume unsat"})
		}
		e.curModel = m // nil when unknown
		e.assertPC(c)
	}
}

func (e *Engine) model() (map[string]uint64, bool) {
	if e.curModel != nil {
		// complete the cached model with defaults for variables created after it was fetched
		m := make(map[string]uint64, len(e.pathVars))
		for _, v := range e.pathVars {
			m[v.Name] = e.curModel[v.Name]
		}
		return m, true
	}
	e.syncSolver()
	if r := e.S.Check(); r != smt.Sat {
		return nil, false
	}
	return e.modelAfterSat()
}

func (e *Engine) modelAfterSat() (map[string]uint64, bool) {
	vals, err := e.S.Values(e.pathVars)
	if err != nil {
		return nil, false
	}
	m := make(map[string]uint64, len(vals))
	for i, v := range e.pathVars {
		m[v.Name] = vals[i]
	}
	return m, true
}

func (e *Engine) schedTrace() []uint64 {
	var s []uint64
	for _, d := range e.trace {
		if d.K == 'k' {
			s = append(s, d.V)
		}
	}
	return s
}

func (e *Engine) assertProp(id string, c Value, fr *frame) {
	st := e.assertSites[id]
	if st == nil {
		st = &AssertStat{}
		e.assertSites[id] = st
	}
	st.Reached++
	switch c := c.(type) {
	case bool:
		if c {
			st.Discharged++
			e.Stats.AssertsTrivial++
			return
		}
		m, ok := e.model()
		if !ok {
			// No model of the path condition (a feasibility query timed out earlier and the path may be
			// infeasible): this is not a counterexample, it is an undecided path.
			st.Unknown++
			e.inconclusive("assertion " + id + " is false on a path whose condition has no model (solver unknown earlier on this path)")
			panic(abortPath{kind: abortStop, msg: "assertion false on undecided path: " + id})
		}
		st.Violated++
		e.recordViolation(Violation{ID: id, Msg: "assertion is false on this path", Inputs: m, Where: fr.where()})
		panic(abortPath{kind: abortStop, msg: "assertion failed: " + id})
	case *smt.Term:
		e.Stats.AssertsChecked++
		if v, ok := e.evalModel(c); ok && v == 0 {
			// the cached model of the path condition already falsifies the assertion
			st.Violated++
			m, _ := e.model()
			e.recordViolation(Violation{ID: id, Msg: "assertion can be false", Inputs: m, Where: fr.where()})
		} else {
			r, m := e.checkWith(e.P.Not(c))
			switch r {
			case smt.Unsat:
				st.Discharged++
			case smt.Sat:
				st.Violated++
				if m == nil {
					m = map[string]uint64{}
				}
				e.recordViolation(Violation{ID: id, Msg: "assertion can be false", Inputs: m, Where: fr.where()})
			default:
				if m, ok := e.probeUnknown(c); ok {
					st.Violated++
					e.recordViolation(Violation{ID: id, Msg: "assertion can be false (solver unknown; counterexample found by corner-value probing of the path condition)", Inputs: m, Where: fr.where()})
				} else {
					st.Unknown++
					e.inconclusive("solver unknown on assertion " + id)
				}
			}
		}
		// continue under the assumption that it holds
		e.assume(c, fr)
	}
}

func (e *Engine) recordViolation(v Violation) {
	v.Path = append([]Dec(nil), e.trace...)
	v.Sched = e.schedTrace()
	e.curPathViol = append(e.curPathViol, v)
}

func (e *Engine) inconclusive(reason string) {
	if e.Stats.InconclusiveReasons == nil {
		e.Stats.InconclusiveReasons = map[string]int{}
	}
	if len(reason) > 900 {
		reason = reason[:900]
	}
	e.Stats.InconclusiveReasons[reason]++
}

// ---------------------------------------------------------------- path driver

type Options struct {
	MaxPaths        int
	MaxSamples      int
	MaxWitnesses    int
	Deadline        time.Time
	StopOnViolation bool
	Progress        bool
	Workers         int
}

// Explore runs entry() over all paths with a pool of engines created by mk (one per worker).
func Explore(mk func() (*Engine, error), entry *ssa.Function, opt Options) (*Report, error) {
	t0 := time.Now()
	if opt.Workers <= 0 {
		opt.Workers = 1
	}
	if opt.MaxSamples == 0 {
		opt.MaxSamples = 6
	}
	rep := &Report{Entry: entry.String(), Asserts: map[string]*AssertStat{}, Reach: map[string]int{}, Funcs: map[string]int{}}
	var mu sync.Mutex
	cond := sync.NewCond(&mu)
	work := []workItem{{}}
	active := 0
	paths := 0
	stop := false
	stopReason := ""
	var firstErr error
	var engines []*Engine

	worker := func(id int) {
		e, err := mk()
		mu.Lock()
		if err != nil {
			if firstErr == nil {
				firstErr = err
			}
			stop = true
			cond.Broadcast()
			mu.Unlock()
			return
		}
		engines = append(engines, e)
		for {
			for len(work) == 0 && active > 0 && !stop {
				cond.Wait()
			}
			if stop || (len(work) == 0 && active == 0) {
				cond.Broadcast()
				mu.Unlock()
				return
			}
			if opt.MaxPaths > 0 && paths >= opt.MaxPaths {
				stop = true
				stopReason = fmt.Sprintf("path cap %d reached with %d prefixes pending", opt.MaxPaths, len(work))
				cond.Broadcast()
				mu.Unlock()
				return
			}
			if !opt.Deadline.IsZero() && time.Now().After(opt.Deadline) {
				stop = true
				stopReason = fmt.Sprintf("deadline reached with %d prefixes pending", len(work))
				cond.Broadcast()
				mu.Unlock()
				return
			}
			item := work[len(work)-1]
			work = work[:len(work)-1]
			active++
			paths++
			wantW := len(rep.Witnesses) < opt.MaxWitnesses
			wantS := len(rep.Samples) < opt.MaxSamples
			mu.Unlock()

			ps, viols, pend, wit := e.runPath(entry, item, wantW, wantS)

			mu.Lock()
			active--
			work = append(work, pend...)
			if len(rep.Samples) < opt.MaxSamples || (len(viols) > 0 && len(rep.Samples) < opt.MaxSamples+4) {
				rep.Samples = append(rep.Samples, ps)
			}
			if wit != nil && len(rep.Witnesses) < opt.MaxWitnesses {
				rep.Witnesses = append(rep.Witnesses, *wit)
			}
			rep.Violations = append(rep.Violations, viols...)
			if opt.Progress && paths%100 == 0 {
				fmt.Fprintf(os.Stderr, "  [%s] paths=%d pending=%d viol=%d elapsed=%.0fs\n", entry.Name(), paths, len(work), len(rep.Violations), time.Since(t0).Seconds())
			}
			if opt.StopOnViolation && len(rep.Violations) > 0 {
				stop = true
				if len(work) > 0 {
					stopReason = "stopped at first violation"
				}
			}
			cond.Broadcast()
		}
	}
	var wg sync.WaitGroup
	for i := 0; i < opt.Workers; i++ {
		wg.Add(1)
		go func(i int) {
			defer wg.Done()
			worker(i)
		}(i)
	}
	wg.Wait()
	if firstErr != nil {
		return nil, firstErr
	}
	for _, e := range engines {
		rep.Stats.add(&e.Stats)
		for k, a := range e.assertSites {
			t := rep.Asserts[k]
			if t == nil {
				t = &AssertStat{}
				rep.Asserts[k] = t
			}
			t.Reached += a.Reached
			t.Discharged += a.Discharged
			t.Violated += a.Violated
			t.Unknown += a.Unknown
		}
		for k, n := range e.reachSet {
			rep.Reach[k] += n
		}
		for fn, n := range e.funcs {
			rep.Funcs[fn.String()] += n
		}
		rep.Solver.Queries += e.S.Queries
		rep.Solver.Sat += e.S.NSat
		rep.Solver.Unsat += e.S.NUnsat
		rep.Solver.Unknown += e.S.NUnk
		rep.Solver.Errors += e.S.Errors
		rep.Solver.Secs += e.S.Time.Seconds()
		e.Close()
	}
	if stopReason != "" {
		if rep.Stats.InconclusiveReasons == nil {
			rep.Stats.InconclusiveReasons = map[string]int{}
		}
		rep.Stats.InconclusiveReasons[stopReason]++
		rep.Stats.Inconclusive++
	}
	rep.Stats.Wall = time.Since(t0)
	rep.Stats.Violations = len(rep.Violations)
	for r := range rep.Stats.InconclusiveReasons {
		rep.Inconcl = append(rep.Inconcl, r)
	}
	sort.Strings(rep.Inconcl)
	return rep, nil
}

func (e *Engine) runPath(entry *ssa.Function, item workItem, wantWitness, wantSample bool) (ps PathSummary, viols []Violation, pending []workItem, wit *Witness) {
	e.pc = e.pc[:0]
	e.prefix = item.prefix
	e.prefixModel = item.model
	e.curModel = nil
	e.pos = 0
	e.trace = nil
	e.pending = nil
	e.steps = 0
	e.nameCnt = map[string]int{}
	e.pathVars = nil
	e.observations = nil
	e.curPathViol = nil
	e.hashApps = map[string][]hashApp{}
	e.clock = 1_700_000_000_000_000_000
	e.panicWhere = ""
	e.logging = true
	e.Stats.Paths++
	e.pathSeq++
	if len(item.prefix) == 0 {
		e.curModel = map[string]uint64{} // the empty path condition is satisfied by anything
	}
	end := "completed"
	var abortMsg string

	e.sched = newScheduler(e)
	res := e.sched.runMain(func(g *gor) {
		e.callSSA(nil, g, token.NoPos, entry, nil, nil)
	})
	switch r := res.(type) {
	case nil:
		e.Stats.Completed++
	case abortPath:
		switch r.kind {
		case abortPruned:
			end = "pruned"
			e.Stats.Pruned++
		case abortStop:
			end = "violation"
		case abortDeadlock:
			end = "deadlock"
			m, _ := e.model()
			e.recordViolation(Violation{ID: "deadlock", Msg: r.msg, Inputs: m})
		case abortUnwind:
			end = "unwind"
			abortMsg = r.msg
			// divergence candidate: native replay decides whether the real code fails to terminate
			m, ok := e.model()
			if ok {
				e.recordViolation(Violation{ID: "divergence", Msg: r.msg, Inputs: m})
			}
			e.Stats.Inconclusive++
			e.inconclusive("unwind: " + r.msg)
		default:
			end = r.String()
			abortMsg = r.msg
			e.Stats.Inconclusive++
			e.inconclusive(r.String())
		}
	case targetPanic:
		end = "panic"
		e.Stats.Panicked++
		m, _ := e.model()
		e.recordViolation(Violation{ID: "panic", Msg: "unrecovered Go panic: " + e.panicString(r), Inputs: m, Where: e.panicWhere})
	default:
		end = fmt.Sprintf("engine error: %v", r)
		e.Stats.Inconclusive++
		e.inconclusive(end)
	}
	if e.pos < len(e.prefix) && end == "completed" {
		// the path ended before consuming its prefix: nondeterminism in the engine
		e.inconclusive("replay prefix not consumed")
		e.Stats.Inconclusive++
	}
	ps = PathSummary{Decisions: len(e.trace), Steps: e.steps, End: end}
	if abortMsg != "" {
		if len(abortMsg) > 300 {
			abortMsg = abortMsg[:300]
		}
		ps.End = end + ": " + abortMsg
	}
	if end == "completed" && (wantWitness || wantSample) {
		if m, ok := e.model(); ok {
			ps.Witness = m
			if wantWitness {
				w := Witness{Inputs: m, End: end}
				for _, o := range e.observations {
					w.Obs = append(w.Obs, ObsRec{Name: o.Name, Val: e.evalShow(o.Val, m)})
				}
				wit = &w
			}
		}
	}
	for _, v := range e.curPathViol {
		ps.Asserts = append(ps.Asserts, "VIOLATED "+v.ID)
	}
	if e.steps > e.Stats.MaxPathSteps {
		e.Stats.MaxPathSteps = e.steps
	}
	e.Stats.TotalSteps += int64(e.steps)
	viols = e.curPathViol
	pending = e.pending
	// restore global state for the next path
	e.logging = false
	e.rollback()
	e.sched = nil
	return
}

func (e *Engine) panicString(p targetPanic) string {
	switch v := p.V.(type) {
	case Iface:
		if s, ok := v.V.(string); ok {
			return fmt.Sprintf("(%v) %s", v.T, s)
		}
		// error values: try Error()
		if v.T != nil {
			if s, ok := e.tryErrorString(v); ok {
				return fmt.Sprintf("(%v) %s", v.T, s)
			}
		}
		return show(v)
	}
	return show(p.V)
}

func (e *Engine) tryErrorString(v Iface) (s string, ok bool) {
	defer func() {
		if r := recover(); r != nil {
			ok = false
		}
	}()
	m := e.lookupMethod(v.T, nil, "Error")
	if m == nil {
		return "", false
	}
	e.sched = newScheduler(e)
	g := e.sched.newG("err")
	e.sched.cur = g
	r := e.callSSA(nil, g, token.NoPos, m, []Value{v.V}, nil)
	e.sched = nil
	str, ok := r.(string)
	return str, ok
}

// evalShow renders a value under a model (for translator validation).
func (e *Engine) evalShow(v Value, m map[string]uint64) string {
	md := &smt.Model{Vars: m}
	memo := map[int]uint64{}
	var sb strings.Builder
	var rec func(v Value)
	rec = func(v Value) {
		switch v := v.(type) {
		case *smt.Term:
			x := e.P.Eval(v, md, memo)
			if v.W == 0 {
				fmt.Fprintf(&sb, "%v", x != 0)
			} else {
				fmt.Fprintf(&sb, "%d", x)
			}
		case uint64:
			fmt.Fprintf(&sb, "%d", v)
		case bool:
			fmt.Fprintf(&sb, "%v", v)
		case string:
			fmt.Fprintf(&sb, "%q", v)
		case *SStr:
			b := make([]byte, len(v.B))
			for i, x := range v.B {
				switch x := x.(type) {
				case uint64:
					b[i] = byte(x)
				case *smt.Term:
					b[i] = byte(e.P.Eval(x, md, memo))
				}
			}
			fmt.Fprintf(&sb, "%q", string(b))
		case []Value:
			sb.WriteString("[")
			for i, x := range v {
				if i > 0 {
					sb.WriteString(" ")
				}
				rec(x)
			}
			sb.WriteString("]")
		case Array:
			rec([]Value(v))
		case Iface:
			if v.T == nil {
				sb.WriteString("<nil>")
			} else {
				rec(v.V)
			}
		case *Value:
			if v == nil {
				sb.WriteString("<nil>")
			} else {
				rec(*v)
			}
		case Struct:
			sb.WriteString("{")
			for i, x := range v {
				if i > 0 {
					sb.WriteString(" ")
				}
				rec(x)
			}
			sb.WriteString("}")
		default:
			fmt.Fprintf(&sb, "<%T>", v)
		}
	}
	rec(v)
	return sb.String()
}

var _ = debug.Stack
