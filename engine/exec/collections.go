package exec

import (
	"fmt"
	"go/types"
	"strings"
	"unicode/utf8"
	"unsafe"

	"golang.org/x/tools/go/ssa"
	"verif/gosx/smt"
)

// ---------------------------------------------------------------- maps

func (e *Engine) mapFind(fr *frame, m *Map, k Value) *mapEnt {
	if m == nil {
		return nil
	}
	var sb strings.Builder
	conc := keyStr(&sb, k)
	if conc {
		if ent, ok := m.idx[sb.String()]; ok && !ent.deleted {
			return ent
		}
		if m.nsym == 0 {
			return nil
		}
		for _, ent := range m.ents {
			if ent.deleted || ent.conc {
				continue
			}
			if e.decideV(e.equals(m.KeyT, k, ent.k), fr) {
				return ent
			}
		}
		return nil
	}
	for _, ent := range m.ents {
		if ent.deleted {
			continue
		}
		if e.decideV(e.equals(m.KeyT, k, ent.k), fr) {
			return ent
		}
	}
	return nil
}

func (e *Engine) mapInsert(fr *frame, m *Map, k, v Value) {
	if ent := e.mapFind(fr, m, k); ent != nil {
		old := ent.v
		e.logUndo(func() { ent.v = old })
		ent.v = v
		return
	}
	var sb strings.Builder
	conc := keyStr(&sb, k)
	ent := &mapEnt{k: k, v: v, conc: conc}
	if conc {
		ent.ck = sb.String()
		prev, had := m.idx[ent.ck]
		m.idx[ent.ck] = ent
		e.logUndo(func() {
			if had {
				m.idx[ent.ck] = prev
			} else {
				delete(m.idx, ent.ck)
			}
		})
	} else {
		m.nsym++
		e.logUndo(func() { m.nsym-- })
	}
	m.ents = append(m.ents, ent)
	m.n++
	e.logUndo(func() { m.ents = m.ents[:len(m.ents)-1]; m.n-- })
}

func (e *Engine) mapDelete(fr *frame, m *Map, k Value) {
	ent := e.mapFind(fr, m, k)
	if ent == nil {
		return
	}
	ent.deleted = true
	m.n--
	if !ent.conc {
		m.nsym--
	}
	e.logUndo(func() {
		ent.deleted = false
		m.n++
		if !ent.conc {
			m.nsym++
		}
	})
	// compact occasionally
	if len(m.ents) > 32 && m.n < len(m.ents)/2 && !e.logging {
		var live []*mapEnt
		for _, x := range m.ents {
			if !x.deleted {
				live = append(live, x)
			}
		}
		m.ents = live
	}
}

func (e *Engine) lookup(fr *frame, instr *ssa.Lookup, x, idx Value) Value {
	switch x := x.(type) {
	case *Map:
		var v Value
		ok := false
		if ent := e.mapFind(fr, x, idx); ent != nil {
			v, ok = copyVal(ent.v), true
		} else {
			v = zero(instr.X.Type().Underlying().(*types.Map).Elem())
		}
		if instr.CommaOk {
			return Tuple{v, ok}
		}
		return v
	case string, *SStr:
		return e.strIndex(fr, x, idx, instr.Index.Type())
	}
	panic(fmt.Sprintf("lookup: unexpected %T", x))
}

// ---------------------------------------------------------------- range

type iter interface {
	next(e *Engine, fr *frame) Tuple
}

type mapIter struct {
	m    *Map
	ents []*mapEnt
	i    int
}

func (it *mapIter) next(e *Engine, fr *frame) Tuple {
	for it.i < len(it.ents) {
		ent := it.ents[it.i]
		it.i++
		if ent.deleted {
			continue
		}
		return Tuple{true, ent.k, copyVal(ent.v)}
	}
	return Tuple{false, nil, nil}
}

type strIter struct {
	s Value
	i int
}

func (it *strIter) next(e *Engine, fr *frame) Tuple {
	n := strLen(it.s)
	if it.i >= n {
		return Tuple{false, uint64(0), uint64(0)}
	}
	if s, ok := it.s.(string); ok {
		r, sz := utf8.DecodeRuneInString(s[it.i:])
		i := it.i
		it.i += sz
		return Tuple{true, uint64(i), uint64(uint32(r))}
	}
	b := strByte(it.s, it.i)
	if c, ok := b.(uint64); ok && c >= 0x80 {
		// concrete multi-byte lead: need the continuation bytes concrete too
		var buf []byte
		for j := it.i; j < n && j < it.i+4; j++ {
			cb, ok := strByte(it.s, j).(uint64)
			if !ok {
				break
			}
			buf = append(buf, byte(cb))
		}
		r, sz := utf8.DecodeRune(buf)
		if r == utf8.RuneError && len(buf) < 4 && it.i+len(buf) < n {
			panic(unsupported("range over string: symbolic UTF-8 continuation byte"))
		}
		i := it.i
		it.i += sz
		return Tuple{true, uint64(i), uint64(uint32(r))}
	}
	if t, ok := b.(*smt.Term); ok {
		// symbolic byte: ASCII or not
		if e.decide(e.P.Cmp(smt.OpUlt, t, e.P.Const(0x80, 8)), fr) {
			i := it.i
			it.i++
			return Tuple{true, uint64(i), norm(e.P.ZExt(t, 32))}
		}
		panic(unsupported("range over string: symbolic non-ASCII byte (constrain bytes < 0x80 in the harness)"))
	}
	i := it.i
	it.i++
	return Tuple{true, uint64(i), b}
}

func (e *Engine) rangeIter(fr *frame, x Value, t types.Type) Value {
	switch x := x.(type) {
	case *Map:
		if x == nil {
			return &mapIter{}
		}
		ents := make([]*mapEnt, 0, x.n)
		for _, ent := range x.ents {
			if !ent.deleted {
				ents = append(ents, ent)
			}
		}
		if e.Cfg.MapOrderNondet && len(ents) > 1 && e.inInit == 0 {
			// choose a rotation + direction of the insertion order (a cheap, sound under-approximation of
			// Go's random order would be all permutations; we fork over all permutations for n<=3 and
			// rotations beyond)
			ents = e.permute(fr, ents)
		}
		return &mapIter{m: x, ents: ents}
	case string, *SStr:
		return &strIter{s: x}
	}
	panic(fmt.Sprintf("range: unexpected %T", x))
}

func (e *Engine) permute(fr *frame, ents []*mapEnt) []*mapEnt {
	n := len(ents)
	if n <= 4 {
		out := make([]*mapEnt, 0, n)
		rest := append([]*mapEnt(nil), ents...)
		for len(rest) > 1 {
			k := e.choose(len(rest), "maporder", fr)
			out = append(out, rest[k])
			rest = append(rest[:k:k], rest[k+1:]...)
		}
		return append(out, rest[0])
	}
	k := e.choose(n, "maprot", fr)
	out := append([]*mapEnt(nil), ents[k:]...)
	return append(out, ents[:k]...)
}

// ---------------------------------------------------------------- builtins

func (e *Engine) callBuiltin(fr *frame, fn *ssa.Builtin, args []Value) Value {
	switch fn.Name() {
	case "append":
		if len(args) == 1 {
			return args[0]
		}
		x := args[0].([]Value)
		var y []Value
		switch a1 := args[1].(type) {
		case string, *SStr:
			y = strBytes(a1)
		case []Value:
			y = a1
		}
		if len(y) == 0 {
			return x
		}
		if len(x)+len(y) <= cap(x) {
			// in place
			r := x[:len(x)+len(y)]
			for i, v := range y {
				e.set(&r[len(x)+i], copyVal(v))
			}
			return r
		}
		nc := cap(x) * 2
		if nc < len(x)+len(y) {
			nc = len(x) + len(y)
		}
		if nc < 4 {
			nc = 4
		}
		r := make([]Value, len(x)+len(y), nc)
		copy(r, x)
		for i, v := range y {
			r[len(x)+i] = copyVal(v)
		}
		// fill spare capacity with zero values of the element type
		if nc > len(r) {
			et := fn.Type().(*types.Signature).Params().At(0).Type().Underlying().(*types.Slice).Elem()
			full := r[:nc]
			for i := len(r); i < nc; i++ {
				full[i] = zero(et)
			}
		}
		return r

	case "copy":
		dst := args[0].([]Value)
		var src []Value
		switch a1 := args[1].(type) {
		case string, *SStr:
			src = strBytes(a1)
		case []Value:
			src = a1
		}
		n := min(len(dst), len(src))
		if n == 0 {
			return uint64(0)
		}
		// handle overlap like memmove
		if n > 0 && &dst[0] != &src[0] {
			tmp := make([]Value, n)
			for i := 0; i < n; i++ {
				tmp[i] = copyVal(src[i])
			}
			for i := 0; i < n; i++ {
				e.set(&dst[i], tmp[i])
			}
		}
		return uint64(n)

	case "close":
		e.chanClose(fr, args[0].(*Chan))
		return nil

	case "delete":
		if m := args[0].(*Map); m != nil {
			e.mapDelete(fr, m, args[1])
		}
		return nil

	case "clear":
		switch x := args[0].(type) {
		case *Map:
			if x != nil {
				for _, ent := range x.ents {
					if !ent.deleted {
						ent := ent
						ent.deleted = true
						e.logUndo(func() { ent.deleted = false })
					}
				}
				on, ons := x.n, x.nsym
				oidx := x.idx
				x.n, x.nsym = 0, 0
				x.idx = map[string]*mapEnt{}
				e.logUndo(func() { x.n, x.nsym, x.idx = on, ons, oidx })
			}
		case []Value:
			if len(x) > 0 {
				et := fn.Type().(*types.Signature).Params().At(0).Type().Underlying().(*types.Slice).Elem()
				for i := range x {
					e.set(&x[i], zero(et))
				}
			}
		}
		return nil

	case "print", "println":
		return nil

	case "len":
		switch x := args[0].(type) {
		case string:
			return uint64(len(x))
		case *SStr:
			return uint64(len(x.B))
		case Array:
			return uint64(len(x))
		case *Value:
			return uint64(len((*x).(Array)))
		case []Value:
			return uint64(len(x))
		case *Map:
			if x == nil {
				return uint64(0)
			}
			return uint64(x.n)
		case *Chan:
			if x == nil {
				return uint64(0)
			}
			return uint64(len(x.buf))
		}
		panic(fmt.Sprintf("len: %T", args[0]))

	case "cap":
		switch x := args[0].(type) {
		case Array:
			return uint64(len(x))
		case *Value:
			return uint64(len((*x).(Array)))
		case []Value:
			return uint64(cap(x))
		case *Chan:
			if x == nil {
				return uint64(0)
			}
			return uint64(x.cap)
		}
		panic(fmt.Sprintf("cap: %T", args[0]))

	case "min", "max":
		t := fn.Type().(*types.Signature).Params().At(0).Type()
		res := args[0]
		for _, a := range args[1:] {
			if w, signed, ok := intInfo(t); ok {
				var lt Value
				if fn.Name() == "min" {
					lt = e.intBin(tokLSS, w, signed, a, res, fr)
				} else {
					lt = e.intBin(tokLSS, w, signed, res, a, fr)
				}
				switch c := lt.(type) {
				case bool:
					if c {
						res = a
					}
				case *smt.Term:
					res = norm(e.P.Ite(c, e.term(a, w), e.term(res, w)))
				}
				continue
			}
			switch r := res.(type) {
			case float64:
				af := a.(float64)
				if (fn.Name() == "min" && af < r) || (fn.Name() == "max" && af > r) {
					res = af
				}
			case string:
				as := e.concStr(a, "min/max")
				if (fn.Name() == "min" && as < r) || (fn.Name() == "max" && as > r) {
					res = as
				}
			default:
				panic(unsupported("min/max on %T", res))
			}
		}
		return res

	case "recover":
		return e.doRecover(fr)

	case "ssa:wrapnilchk":
		recv := args[0]
		if p, ok := recv.(*Value); ok && p == nil {
			panic(e.runtimePanic(fmt.Sprintf("value method %s.%s called using nil *%s pointer", args[1], args[2], args[1])))
		}
		return recv

	case "ssa:deferstack":
		return &fr.defers

	case "real", "imag", "complex":
		panic(unsupported("complex builtin %s", fn.Name()))

	// package unsafe
	case "Add":
		panic(unsupported("unsafe.Add"))
	case "SliceData":
		s := args[0].([]Value)
		if cap(s) == 0 {
			return (*Value)(nil)
		}
		return &s[:1][0]
	case "StringData":
		b := strBytes(args[0])
		if len(b) == 0 {
			return (*Value)(nil)
		}
		c := make([]Value, len(b))
		copy(c, b)
		return &c[0]
	case "Slice":
		p := args[0].(*Value)
		n := asInt(args[1])
		if p == nil {
			return []Value(nil)
		}
		return unsafe.Slice(p, n)
	case "String":
		p := args[0].(*Value)
		n := asInt(args[1])
		if p == nil || n == 0 {
			return ""
		}
		return mkStr(unsafe.Slice(p, n))
	}
	panic(unsupported("builtin %s", fn.Name()))
}
