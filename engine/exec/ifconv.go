package exec

import (
	"go/token"
	"go/types"

	"golang.org/x/tools/go/ssa"
	"verif/gosx/smt"
)

// tryIfConvert evaluates both arms of a side-effect-free diamond/triangle and merges the results with
// ite instead of forking. It returns true when it has advanced fr to the join block.
func (e *Engine) tryIfConvert(fr *frame, instr *ssa.If, c *smt.Term) bool {
	if e.Cfg.NoIfConv {
		return false
	}
	b := fr.block
	t, f := b.Succs[0], b.Succs[1]
	var join *ssa.BasicBlock
	armT, armF := t, f
	switch {
	case isPureArm(t) && isPureArm(f) && t.Succs[0] == f.Succs[0] && t != f:
		join = t.Succs[0]
	case isPureArm(t) && t.Succs[0] == f:
		join, armF = f, nil
	case isPureArm(f) && f.Succs[0] == t:
		join, armT = t, nil
	default:
		return false
	}
	if join == b || len(join.Preds) != 2 {
		return false
	}
	// evaluate arms
	evalArm := func(arm *ssa.BasicBlock) bool {
		if arm == nil {
			return true
		}
		for _, in := range arm.Instrs {
			switch in := in.(type) {
			case *ssa.Jump, *ssa.DebugRef:
			case *ssa.BinOp:
				x, y := fr.get(in.X), fr.get(in.Y)
				if in.Op == token.QUO || in.Op == token.REM {
					return false
				}
				if !scalarOK(x) || !scalarOK(y) {
					return false
				}
				fr.env[in] = e.binop(in.Op, in.X.Type(), in.Y.Type(), x, y, fr)
			case *ssa.UnOp:
				if in.Op == token.MUL || in.Op == token.ARROW {
					return false
				}
				x := fr.get(in.X)
				if !scalarOK(x) {
					return false
				}
				fr.env[in] = e.unop(in, x, fr)
			case *ssa.Convert:
				x := fr.get(in.X)
				if _, _, ok := intInfo(in.Type()); !ok {
					return false
				}
				if _, _, ok := intInfo(in.X.Type()); !ok {
					return false
				}
				fr.env[in] = e.conv(in.Type(), in.X.Type(), x, fr)
			case *ssa.ChangeType:
				fr.env[in] = fr.get(in.X)
			default:
				return false
			}
		}
		return true
	}
	if !evalArm(armT) || !evalArm(armF) {
		return false
	}
	predT, predF := b, b
	if armT != nil {
		predT = armT
	}
	if armF != nil {
		predF = armF
	}
	iT, iF := -1, -1
	for i, p := range join.Preds {
		if p == predT {
			iT = i
		}
		if p == predF {
			iF = i
		}
	}
	if iT < 0 || iF < 0 || iT == iF {
		return false
	}
	// merge phis
	var phis []*ssa.Phi
	var vals []Value
	for _, in := range join.Instrs {
		phi, ok := in.(*ssa.Phi)
		if !ok {
			break
		}
		vt, vf := fr.get(phi.Edges[iT]), fr.get(phi.Edges[iF])
		m, ok := e.merge(c, vt, vf, phi.Type())
		if !ok {
			return false
		}
		phis = append(phis, phi)
		vals = append(vals, m)
	}
	for i, phi := range phis {
		fr.env[phi] = vals[i]
	}
	// enter join past its phis: emulate by setting prevBlock so that executePhis recomputes the same values.
	// Simpler: mark the frame so executePhis skips phi evaluation once.
	fr.prevBlock, fr.block = predT, join
	fr.skipPhis = true
	e.Stats.IfConverted++
	return true
}

func isPureArm(b *ssa.BasicBlock) bool {
	if len(b.Preds) != 1 || len(b.Succs) != 1 || len(b.Instrs) > 12 {
		return false
	}
	for _, in := range b.Instrs {
		switch in.(type) {
		case *ssa.Jump, *ssa.DebugRef, *ssa.BinOp, *ssa.UnOp, *ssa.Convert, *ssa.ChangeType:
		default:
			return false
		}
	}
	return true
}

func scalarOK(v Value) bool {
	switch v.(type) {
	case uint64, bool, *smt.Term:
		return true
	}
	return false
}

func (e *Engine) merge(c *smt.Term, a, b Value, t types.Type) (Value, bool) {
	switch x := a.(type) {
	case uint64, bool, *smt.Term:
		if !scalarOK(b) {
			return nil, false
		}
		w := 0
		if ww, _, ok := intInfo(t); ok {
			w = ww
		} else if !isBool(t) {
			return nil, false
		}
		return norm(e.P.Ite(c, e.term(x, w), e.term(b, w))), true
	case string:
		if y, ok := b.(string); ok && x == y {
			return x, true
		}
	case *Value:
		if y, ok := b.(*Value); ok && x == y {
			return x, true
		}
	case Iface:
		if y, ok := b.(Iface); ok && x.T == nil && y.T == nil {
			return x, true
		}
	}
	return nil, false
}
