package exec

import (
	"go/types"
)

// Model added for the C31 harness: go-car's carv1.WriteHeader serialises the CAR header with
// go-ipld-cbor.DumpObject (refmt + reflection: opaque). The model encodes exactly one object type, the
// carv1.CarHeader {Roots []cid.Cid; Version uint64}, as the canonical dag-cbor map
// {"roots": [tag42(0x00 | cid)...], "version": n} (keys in canonical order: shorter key first), which is what
// refmt emits for it. Any other object type is unsupported.
func init() {
	extraModels = append(extraModels, func(e *Engine) {
		e.reg("github.com/ipfs/go-ipld-cbor.DumpObject", func(fr *frame, a []Value) Value {
			ifc, ok := a[0].(Iface)
			if !ok || ifc.T == nil {
				panic(unsupported("cbor.DumpObject(nil)"))
			}
			pt, ok := ifc.T.(*types.Pointer)
			if !ok {
				panic(unsupported("cbor.DumpObject: " + ifc.T.String()))
			}
			nt, ok := pt.Elem().(*types.Named)
			if !ok || nt.Obj().Name() != "CarHeader" || nt.Obj().Pkg() == nil || nt.Obj().Pkg().Name() != "carv1" {
				panic(unsupported("cbor.DumpObject: " + ifc.T.String()))
			}
			p, ok := ifc.V.(*Value)
			if !ok || p == nil {
				panic(unsupported("cbor.DumpObject: nil header"))
			}
			st, ok := (*p).(Struct)
			if !ok || len(st) != 2 {
				panic(unsupported("cbor.DumpObject: header shape"))
			}
			roots, _ := st[0].([]Value)
			version, ok := st[1].(uint64)
			if !ok || version > 23 || len(roots) > 23 {
				panic(unsupported("cbor.DumpObject: symbolic or large header"))
			}
			var out []Value
			put := func(bs ...byte) {
				for _, b := range bs {
					out = append(out, uint64(b))
				}
			}
			put(0xa2, 0x65)
			put([]byte("roots")...)
			put(0x80 + byte(len(roots)))
			for _, r := range roots {
				cs, ok := r.(Struct)
				if !ok || len(cs) != 1 {
					panic(unsupported("cbor.DumpObject: cid shape"))
				}
				var body []Value
				switch s := cs[0].(type) {
				case string:
					for i := 0; i < len(s); i++ {
						body = append(body, uint64(s[i]))
					}
				case *SStr:
					body = append(body, s.B...)
				default:
					panic(unsupported("cbor.DumpObject: cid string"))
				}
				n := len(body) + 1
				put(0xd8, 0x2a)
				switch {
				case n <= 23:
					put(0x40 + byte(n))
				case n <= 255:
					put(0x58, byte(n))
				default:
					panic(unsupported("cbor.DumpObject: long cid"))
				}
				put(0x00)
				out = append(out, body...)
			}
			put(0x67)
			put([]byte("version")...)
			put(byte(version))
			return Tuple{out, Iface{}}
		})

		// selector/parse.ParseJSONSelector is called from that package's initialiser (four constant selector
		// texts, decoded with dag-json/refmt: opaque), and harness stubs are not applied during package
		// initialisation. If the harness binds the function, the binding is honoured during initialisation
		// as well; without a binding the function runs as before.
		const pjs = "github.com/ipld/go-ipld-prime/traversal/selector/parse.ParseJSONSelector"
		var pjsModel modelFn
		pjsModel = func(fr *frame, a []Value) Value {
			if stub, ok := e.Stubs[pjs]; ok && !inStub(fr, stub) {
				return e.callSSA(fr.caller, fr.g, fr.callPos, stub, a, nil)
			}
			delete(e.models, pjs)
			defer func() { e.models[pjs] = pjsModel }()
			return e.callSSA(fr.caller, fr.g, fr.callPos, fr.fn, a, nil)
		}
		e.reg(pjs, pjsModel)
	})
}
