package exec

import (
	"go/types"
)

// Models added for the C04/C05 harnesses: context.WithValue calls internal/reflectlite.TypeOf(key).Comparable(),
// which is opaque. The model builds the *context.valueCtx directly; the comparability check is skipped (a
// non-comparable key would make the later `c.key == key` comparison panic in the interpreted valueCtx.Value).
func init() {
	extraModels = append(extraModels, func(e *Engine) {
		e.reg("context.WithValue", func(fr *frame, a []Value) Value {
			if p, ok := a[0].(Iface); !ok || p.T == nil {
				panic(targetPanic{V: Iface{T: types.Typ[types.String], V: "cannot create context from nil parent"}})
			}
			if k, ok := a[1].(Iface); !ok || k.T == nil {
				panic(targetPanic{V: Iface{T: types.Typ[types.String], V: "nil key"}})
			}
			t := e.Prog.ImportedPackage("context").Type("valueCtx").Object().Type()
			var v Value = Struct{a[0], a[1], a[2]}
			return Iface{T: types.NewPointer(t), V: &v}
		})
	})
}
