package exec

import (
	"fmt"
	"go/token"
	"go/types"
	"math"
	"unicode/utf8"

	"golang.org/x/tools/go/ssa"
	"verif/gosx/smt"
)

// term converts an integer/bool value to a term of width w (w==0: bool).
func (e *Engine) term(v Value, w int) *smt.Term {
	switch v := v.(type) {
	case *smt.Term:
		if v.W != w {
			panic(fmt.Sprintf("term: width mismatch: have %d want %d (%s)", v.W, w, v))
		}
		return v
	case uint64:
		return e.P.Const(v, w)
	case bool:
		return e.P.Bool(v)
	}
	panic(fmt.Sprintf("term: unexpected %T", v))
}

// norm turns a constant term back into a concrete value.
func norm(t *smt.Term) Value {
	if t.IsConst() {
		if t.W == 0 {
			return t.C != 0
		}
		return t.C
	}
	return t
}

func (e *Engine) boolTerm(v Value) *smt.Term { return e.term(v, 0) }

func (e *Engine) not(v Value) Value {
	if b, ok := v.(bool); ok {
		return !b
	}
	return norm(e.P.Not(v.(*smt.Term)))
}
func (e *Engine) and(a, b Value) Value {
	if x, ok := a.(bool); ok {
		if !x {
			return false
		}
		return b
	}
	if y, ok := b.(bool); ok {
		if !y {
			return false
		}
		return a
	}
	return norm(e.P.And(a.(*smt.Term), b.(*smt.Term)))
}
func (e *Engine) or(a, b Value) Value {
	if x, ok := a.(bool); ok {
		if x {
			return true
		}
		return b
	}
	if y, ok := b.(bool); ok {
		if y {
			return true
		}
		return a
	}
	return norm(e.P.Or(a.(*smt.Term), b.(*smt.Term)))
}

// intBin performs an integer binary operation on two values of type t.
func (e *Engine) intBin(op token.Token, w int, signed bool, x, y Value, fr *frame) Value {
	xc, xok := x.(uint64)
	yc, yok := y.(uint64)
	m := smt.Mask(w)
	if xok && yok {
		switch op {
		case token.ADD:
			return (xc + yc) & m
		case token.SUB:
			return (xc - yc) & m
		case token.MUL:
			return (xc * yc) & m
		case token.QUO:
			if yc == 0 {
				panic(e.runtimePanic("integer divide by zero"))
			}
			if signed {
				sx, sy := smt.SignExt(xc, w), smt.SignExt(yc, w)
				if sy == -1 {
					return uint64(-sx) & m
				}
				return uint64(sx/sy) & m
			}
			return xc / yc
		case token.REM:
			if yc == 0 {
				panic(e.runtimePanic("integer divide by zero"))
			}
			if signed {
				sx, sy := smt.SignExt(xc, w), smt.SignExt(yc, w)
				if sy == -1 {
					return uint64(0)
				}
				return uint64(sx%sy) & m
			}
			return xc % yc
		case token.AND:
			return xc & yc
		case token.OR:
			return xc | yc
		case token.XOR:
			return xc ^ yc
		case token.AND_NOT:
			return xc &^ yc
		case token.EQL:
			return xc == yc
		case token.NEQ:
			return xc != yc
		case token.LSS:
			if signed {
				return smt.SignExt(xc, w) < smt.SignExt(yc, w)
			}
			return xc < yc
		case token.LEQ:
			if signed {
				return smt.SignExt(xc, w) <= smt.SignExt(yc, w)
			}
			return xc <= yc
		case token.GTR:
			if signed {
				return smt.SignExt(xc, w) > smt.SignExt(yc, w)
			}
			return xc > yc
		case token.GEQ:
			if signed {
				return smt.SignExt(xc, w) >= smt.SignExt(yc, w)
			}
			return xc >= yc
		}
		panic(fmt.Sprintf("intBin: bad op %v", op))
	}
	p := e.P
	a, b := e.term(x, w), e.term(y, w)
	switch op {
	case token.ADD:
		return norm(p.Bin(smt.OpBvAdd, a, b))
	case token.SUB:
		return norm(p.Bin(smt.OpBvSub, a, b))
	case token.MUL:
		return norm(p.Bin(smt.OpBvMul, a, b))
	case token.QUO, token.REM:
		// division by zero is a Go panic: fork on it.
		if e.decide(p.Eq(b, p.Const(0, w)), fr) {
			panic(e.runtimePanic("integer divide by zero"))
		}
		if op == token.QUO {
			if signed {
				return norm(p.Bin(smt.OpBvSDiv, a, b))
			}
			return norm(p.Bin(smt.OpBvUDiv, a, b))
		}
		if signed {
			return norm(p.Bin(smt.OpBvSRem, a, b))
		}
		return norm(p.Bin(smt.OpBvURem, a, b))
	case token.AND:
		return norm(p.Bin(smt.OpBvAnd, a, b))
	case token.OR:
		return norm(p.Bin(smt.OpBvOr, a, b))
	case token.XOR:
		return norm(p.Bin(smt.OpBvXor, a, b))
	case token.AND_NOT:
		return norm(p.Bin(smt.OpBvAnd, a, p.BvNot(b)))
	case token.EQL:
		return norm(p.Eq(a, b))
	case token.NEQ:
		return norm(p.Not(p.Eq(a, b)))
	case token.LSS:
		if signed {
			return norm(p.Cmp(smt.OpSlt, a, b))
		}
		return norm(p.Cmp(smt.OpUlt, a, b))
	case token.LEQ:
		if signed {
			return norm(p.Cmp(smt.OpSle, a, b))
		}
		return norm(p.Cmp(smt.OpUle, a, b))
	case token.GTR:
		if signed {
			return norm(p.Cmp(smt.OpSlt, b, a))
		}
		return norm(p.Cmp(smt.OpUlt, b, a))
	case token.GEQ:
		if signed {
			return norm(p.Cmp(smt.OpSle, b, a))
		}
		return norm(p.Cmp(smt.OpUle, b, a))
	}
	panic(fmt.Sprintf("intBin: bad op %v", op))
}

// shift implements x << y and x >> y; xt is x's type, yt is y's type.
func (e *Engine) shift(op token.Token, xt, yt types.Type, x, y Value, fr *frame) Value {
	w, signed, _ := intInfo(xt)
	yw, ysigned, _ := intInfo(yt)
	m := smt.Mask(w)
	xc, xok := x.(uint64)
	yc, yok := y.(uint64)
	if yok && ysigned && smt.SignExt(yc, yw) < 0 {
		panic(e.runtimePanic("negative shift amount"))
	}
	if xok && yok {
		if op == token.SHL {
			if yc >= uint64(w) {
				return uint64(0)
			}
			return (xc << yc) & m
		}
		if signed {
			sx := smt.SignExt(xc, w)
			if yc >= uint64(w) {
				yc = uint64(w - 1)
			}
			return uint64(sx>>yc) & m
		}
		if yc >= uint64(w) {
			return uint64(0)
		}
		return xc >> yc
	}
	p := e.P
	a := e.term(x, w)
	bt := e.term(y, yw)
	if !yok && ysigned {
		if e.decide(p.Cmp(smt.OpSlt, bt, p.Const(0, yw)), fr) {
			panic(e.runtimePanic("negative shift amount"))
		}
	}
	// bring the shift count to width w, saturating.
	var b *smt.Term
	if yw <= w {
		b = p.ZExt(bt, w)
	} else {
		big := p.Cmp(smt.OpUle, p.Const(uint64(w), yw), bt)
		b = p.Ite(big, p.Const(uint64(w), w), p.Extract(bt, w-1, 0))
	}
	switch {
	case op == token.SHL:
		return norm(p.Bin(smt.OpBvShl, a, b))
	case signed:
		return norm(p.Bin(smt.OpBvAShr, a, b))
	default:
		return norm(p.Bin(smt.OpBvLShr, a, b))
	}
}

func (e *Engine) binop(op token.Token, t types.Type, yt types.Type, x, y Value, fr *frame) Value {
	switch op {
	case token.SHL, token.SHR:
		return e.shift(op, t, yt, x, y, fr)
	case token.EQL:
		return e.equals(t, x, y)
	case token.NEQ:
		return e.not(e.equals(t, x, y))
	}
	if w, signed, ok := intInfo(t); ok {
		return e.intBin(op, w, signed, x, y, fr)
	}
	switch x := x.(type) {
	case float64:
		yf := y.(float64)
		var r float64
		switch op {
		case token.ADD:
			r = x + yf
		case token.SUB:
			r = x - yf
		case token.MUL:
			r = x * yf
		case token.QUO:
			r = x / yf
		case token.LSS:
			return x < yf
		case token.LEQ:
			return x <= yf
		case token.GTR:
			return x > yf
		case token.GEQ:
			return x >= yf
		default:
			panic(fmt.Sprintf("float binop %v", op))
		}
		if isFloat32(t) {
			r = float64(float32(r))
		}
		return r
	case complex128:
		yc := y.(complex128)
		switch op {
		case token.ADD:
			return x + yc
		case token.SUB:
			return x - yc
		case token.MUL:
			return x * yc
		case token.QUO:
			return x / yc
		}
	case string, *SStr:
		switch op {
		case token.ADD:
			return strConcat(x, y)
		case token.LSS, token.LEQ, token.GTR, token.GEQ:
			return e.strCompare(op, x, y)
		}
	case bool, *smt.Term:
		// boolean AND/OR do not exist in SSA (short-circuit becomes control flow)
	}
	panic(fmt.Sprintf("binop: unsupported %v on %T (%v)", op, x, t))
}

// strCompare: lexicographic comparison with possibly symbolic bytes.
func (e *Engine) strCompare(op token.Token, x, y Value) Value {
	xs, xok := x.(string)
	ys, yok := y.(string)
	if xok && yok {
		switch op {
		case token.LSS:
			return xs < ys
		case token.LEQ:
			return xs <= ys
		case token.GTR:
			return xs > ys
		case token.GEQ:
			return xs >= ys
		}
	}
	if op == token.GTR {
		return e.strCompare(token.LSS, y, x)
	}
	if op == token.GEQ {
		return e.strCompare(token.LEQ, y, x)
	}
	// x < y (or <=): fold from the end.
	a, b := strBytes(x), strBytes(y)
	n := min(len(a), len(b))
	var res Value
	if op == token.LSS {
		res = len(a) < len(b)
	} else {
		res = len(a) <= len(b)
	}
	for i := n - 1; i >= 0; i-- {
		lt := e.intBin(token.LSS, 8, false, a[i], b[i], nil)
		eq := e.intBin(token.EQL, 8, false, a[i], b[i], nil)
		res = e.or(lt, e.and(eq, res))
	}
	return res
}

// equals implements == for type t; the result is bool or a symbolic bool.
func (e *Engine) equals(t types.Type, x, y Value) Value {
	switch x := x.(type) {
	case bool:
		switch y := y.(type) {
		case bool:
			return x == y
		case *smt.Term:
			if x {
				return y
			}
			return e.not(y)
		}
	case uint64:
		if yc, ok := y.(uint64); ok {
			return x == yc
		}
		yt := y.(*smt.Term)
		return norm(e.P.Eq(e.P.Const(x, yt.W), yt))
	case *smt.Term:
		switch y := y.(type) {
		case *smt.Term:
			return norm(e.P.Eq(x, y))
		case uint64:
			return norm(e.P.Eq(x, e.P.Const(y, x.W)))
		case bool:
			if y {
				return x
			}
			return e.not(x)
		}
	case float64:
		return x == y.(float64)
	case complex128:
		return x == y.(complex128)
	case string:
		if ys, ok := y.(string); ok {
			return x == ys
		}
		return e.strEq(x, y)
	case *SStr:
		return e.strEq(x, y)
	case *Value:
		return x == y.(*Value)
	case *Chan:
		return x == y.(*Chan)
	case UPtr:
		return x.P == y.(UPtr).P
	case *Map: // only vs nil
		return x == y.(*Map)
	case Struct:
		ys := y.(Struct)
		st := t.Underlying().(*types.Struct)
		var res Value = true
		for i := range x {
			if st.Field(i).Name() == "_" {
				continue
			}
			res = e.and(res, e.equals(st.Field(i).Type(), x[i], ys[i]))
			if res == false {
				return false
			}
		}
		return res
	case Array:
		ya := y.(Array)
		et := t.Underlying().(*types.Array).Elem()
		var res Value = true
		for i := range x {
			res = e.and(res, e.equals(et, x[i], ya[i]))
			if res == false {
				return false
			}
		}
		return res
	case Iface:
		yi := y.(Iface)
		if x.T == nil || yi.T == nil {
			return x.T == nil && yi.T == nil
		}
		if !types.Identical(x.T, yi.T) {
			return false
		}
		if !types.Comparable(x.T) {
			panic(e.runtimePanic("comparing uncomparable type " + x.T.String()))
		}
		return e.equals(x.T, x.V, yi.V)
	case []Value:
		// slices are only comparable to nil
		return x == nil && y.([]Value) == nil
	case *ssa.Function:
		if yf, ok := y.(*ssa.Function); ok {
			return x == yf // nil vs nil, or (illegal in Go, harmless here) identical functions
		}
		return false
	case *Closure, *Native:
		if yf, ok := y.(*ssa.Function); ok && yf == nil {
			return false
		}
	}
	panic(fmt.Sprintf("equals: unsupported %T vs %T (%v)", x, y, t))
}

func (e *Engine) strEq(x, y Value) Value {
	a, b := strBytes(x), strBytes(y)
	if len(a) != len(b) {
		return false
	}
	var res Value = true
	for i := range a {
		res = e.and(res, e.intBin(token.EQL, 8, false, a[i], b[i], nil))
		if res == false {
			return false
		}
	}
	return res
}

func (e *Engine) unop(instr *ssa.UnOp, x Value, fr *frame) Value {
	switch instr.Op {
	case token.ARROW:
		return e.chanRecv(fr, x.(*Chan), instr.CommaOk, instr.X.Type().Underlying().(*types.Chan).Elem())
	case token.MUL:
		return e.load(deref(instr.X.Type()), x, fr)
	case token.SUB:
		if w, _, ok := intInfo(instr.Type()); ok {
			if c, ok := x.(uint64); ok {
				return (-c) & smt.Mask(w)
			}
			return norm(e.P.Neg(x.(*smt.Term)))
		}
		switch x := x.(type) {
		case float64:
			return -x
		case complex128:
			return -x
		}
	case token.NOT:
		return e.not(x)
	case token.XOR:
		w, _, _ := intInfo(instr.Type())
		if c, ok := x.(uint64); ok {
			return (^c) & smt.Mask(w)
		}
		return norm(e.P.BvNot(x.(*smt.Term)))
	}
	panic(fmt.Sprintf("unop: unsupported %v on %T", instr.Op, x))
}

// load reads a value of type T from pointer p (which may be a SymPtr).
func (e *Engine) load(T types.Type, p Value, fr *frame) Value {
	switch p := p.(type) {
	case *Value:
		if p == nil {
			panic(e.runtimePanic("invalid memory address or nil pointer dereference"))
		}
		return copyVal(*p)
	case *SymPtr:
		return e.symSelect(p.Elems, p.Idx, p.T)
	}
	panic(fmt.Sprintf("load: unexpected pointer %T", p))
}

// symSelect builds elems[idx] for an in-range symbolic idx (width 64).
func (e *Engine) symSelect(elems []Value, idx *smt.Term, et types.Type) Value {
	w, _, ok := intInfo(et)
	isB := false
	if !ok {
		if isBool(et) {
			isB = true
			w = 0
		} else {
			panic(abortPath{kind: abortUnsupported, msg: "symbolic index into elements of type " + et.String()})
		}
	}
	allConc := !isB
	for _, x := range elems {
		if _, ok := x.(uint64); !ok {
			allConc = false
			break
		}
	}
	if allConc && len(elems) > 8 {
		vals := make([]uint64, len(elems))
		for i, x := range elems {
			vals[i] = x.(uint64)
		}
		iw := 1
		for (1 << uint(iw)) < len(elems) {
			iw++
		}
		tb := e.tableFor(vals, iw, w)
		return norm(e.P.Select(tb, e.P.Extract(idx, iw-1, 0)))
	}
	res := e.term(elems[len(elems)-1], w)
	for i := len(elems) - 2; i >= 0; i-- {
		res = e.P.Ite(e.P.Eq(idx, e.P.Const(uint64(i), idx.W)), e.term(elems[i], w), res)
	}
	return norm(res)
}

func (e *Engine) tableFor(vals []uint64, iw, vw int) *smt.Table {
	h := uint64(14695981039346656037)
	for _, v := range vals {
		h ^= v
		h *= 1099511628211
	}
	name := fmt.Sprintf("tbl_%d_%d_%x", len(vals), vw, h)
	return e.P.DeclareTable(name, iw, vw, vals)
}

// conv implements ssa.Convert.
func (e *Engine) conv(tdst, tsrc types.Type, x Value, fr *frame) Value {
	ud := tdst.Underlying()
	us := tsrc.Underlying()

	// pointer <-> unsafe.Pointer, and unsafe.Pointer <-> uintptr
	if b, ok := ud.(*types.Basic); ok && b.Kind() == types.UnsafePointer {
		switch x := x.(type) {
		case *Value:
			var pt types.Type
			if p, ok := us.(*types.Pointer); ok {
				pt = p.Elem()
			}
			return UPtr{P: x, T: pt}
		case UPtr:
			return x
		case uint64:
			if x == 0 {
				return UPtr{}
			}
			if p, ok := e.addrOf[x]; ok {
				return p
			}
			panic(abortPath{kind: abortUnsupported, msg: "uintptr -> unsafe.Pointer"})
		}
	}
	if b, ok := us.(*types.Basic); ok && b.Kind() == types.UnsafePointer {
		up := x.(UPtr)
		switch ud := ud.(type) {
		case *types.Pointer:
			if up.P != nil && up.T != nil && !compatibleShape(up.T, ud.Elem()) {
				panic(abortPath{kind: abortUnsupported, msg: fmt.Sprintf("unsafe cast *%v -> *%v", up.T, ud.Elem())})
			}
			return up.P
		case *types.Basic: // uintptr
			if up.P == nil {
				return uint64(0)
			}
			return e.fakeAddr(up)
		}
	}

	switch ud := ud.(type) {
	case *types.Pointer, *types.Chan, *types.Map, *types.Signature, *types.Interface, *types.Struct, *types.Array:
		return x
	case *types.Slice:
		// string -> []byte, []rune ; or slice -> slice (identical underlying)
		if isString(us) {
			switch ud.Elem().Underlying().(*types.Basic).Kind() {
			case types.Uint8:
				b := strBytes(x)
				r := make([]Value, len(b))
				copy(r, b)
				return r
			case types.Int32:
				s := e.concStr(x, "string -> []rune")
				var r []Value
				for _, c := range s {
					r = append(r, uint64(uint32(c)))
				}
				if r == nil {
					r = []Value{}
				}
				return r
			}
		}
		return x
	case *types.Basic:
		// to string
		if ud.Info()&types.IsString != 0 {
			switch xs := x.(type) {
			case string, *SStr:
				return x
			case []Value:
				if ss, ok := us.(*types.Slice); ok {
					switch ss.Elem().Underlying().(*types.Basic).Kind() {
					case types.Uint8:
						return mkStr(xs)
					case types.Int32:
						var rs []rune
						for _, r := range xs {
							c, ok := r.(uint64)
							if !ok {
								panic(abortPath{kind: abortUnsupported, msg: "[]rune -> string with symbolic rune"})
							}
							rs = append(rs, rune(int32(c)))
						}
						return string(rs)
					}
				}
			case uint64:
				w, signed, _ := intInfo(us)
				v := int64(xs)
				if signed {
					v = smt.SignExt(xs, w)
				}
				if v < 0 || v > utf8.MaxRune {
					return string(utf8.RuneError)
				}
				return string(rune(v))
			case *smt.Term:
				// string(rune): single-byte result when < 0x80
				if e.decide(e.P.Cmp(smt.OpUlt, e.P.ZExt(xs, 64), e.P.Const(0x80, 64)), fr) {
					return &SStr{B: []Value{norm(e.P.Extract(xs, 7, 0))}}
				}
				c := e.concretize(xs, fr)
				return string(rune(int32(c)))
			}
			panic(fmt.Sprintf("conv to string from %T", x))
		}
		if ud.Kind() == types.UnsafePointer {
			panic(fmt.Sprintf("conv to unsafe.Pointer from %T", x))
		}
		// numeric conversions
		if dw, _, ok := intInfo(ud); ok {
			switch xs := x.(type) {
			case uint64:
				sw, ssigned, _ := intInfo(us)
				if ssigned {
					return uint64(smt.SignExt(xs, sw)) & smt.Mask(dw)
				}
				return xs & smt.Mask(dw)
			case *smt.Term:
				_, ssigned, _ := intInfo(us)
				if ssigned {
					return norm(e.P.SExt(xs, dw))
				}
				return norm(e.P.ZExt(xs, dw))
			case float64:
				_, dsigned, _ := intInfo(ud)
				if dsigned {
					return uint64(int64(xs)) & smt.Mask(dw)
				}
				return uint64(xs) & smt.Mask(dw)
			}
		}
		if ud.Info()&types.IsFloat != 0 {
			var r float64
			switch xs := x.(type) {
			case float64:
				r = xs
			case uint64:
				sw, ssigned, _ := intInfo(us)
				if ssigned {
					r = float64(smt.SignExt(xs, sw))
				} else {
					r = float64(xs)
				}
			case *smt.Term:
				sw, ssigned, _ := intInfo(us)
				c := e.concretize(xs, fr)
				if ssigned {
					r = float64(smt.SignExt(c, sw))
				} else {
					r = float64(c)
				}
			default:
				panic(fmt.Sprintf("conv to float from %T", x))
			}
			if ud.Kind() == types.Float32 {
				r = float64(float32(r))
			}
			return r
		}
		if ud.Info()&types.IsComplex != 0 {
			return x
		}
		if ud.Info()&types.IsBoolean != 0 {
			return x
		}
	}
	panic(fmt.Sprintf("conv: unsupported %v -> %v (%T)", tsrc, tdst, x))
}

// compatibleShape says whether a value of type a may be reinterpreted as type b by the boxed representation.
func compatibleShape(a, b types.Type) bool {
	if types.Identical(a, b) {
		return true
	}
	ua, ub := a.Underlying(), b.Underlying()
	if types.Identical(ua, ub) {
		return true
	}
	switch ua := ua.(type) {
	case *types.Basic:
		ubb, ok := ub.(*types.Basic)
		if !ok {
			return false
		}
		wa, _, oka := intInfo(ua)
		wb, _, okb := intInfo(ubb)
		if oka && okb {
			return wa == wb
		}
		return ua.Kind() == ubb.Kind()
	case *types.Pointer:
		_, ok := ub.(*types.Pointer)
		if ok {
			return true
		}
		if bb, ok := ub.(*types.Basic); ok && bb.Kind() == types.UnsafePointer {
			return false
		}
	case *types.Struct:
		sb, ok := ub.(*types.Struct)
		if !ok || sb.NumFields() != ua.NumFields() {
			return false
		}
		for i := 0; i < ua.NumFields(); i++ {
			if !compatibleShape(ua.Field(i).Type(), sb.Field(i).Type()) {
				return false
			}
		}
		return true
	case *types.Array:
		ab, ok := ub.(*types.Array)
		return ok && ab.Len() == ua.Len() && compatibleShape(ua.Elem(), ab.Elem())
	}
	return false
}

func (e *Engine) fakeAddr(p UPtr) uint64 {
	if a, ok := e.addrIDs[p.P]; ok {
		return a
	}
	e.nextAddr += 4096
	a := e.nextAddr
	e.addrIDs[p.P] = a
	e.addrOf[a] = p
	return a
}

// concStr returns a concrete Go string or aborts the path.
func (e *Engine) concStr(v Value, what string) string {
	if s, ok := v.(string); ok {
		return s
	}
	panic(abortPath{kind: abortUnsupported, msg: "symbolic string in " + what})
}

func floatBits(v float64) uint64 { return math.Float64bits(v) }
