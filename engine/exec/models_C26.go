package exec

import (
	"go/token"
	"math"
)

// Models added for the C26 harness (ipns.createNode sorts map keys with strings.Compare, which reaches the
// assembly routine internal/bytealg.CompareString through cmpstring).
func init() {
	extraModels = append(extraModels, func(e *Engine) {
		cmpStr := func(fr *frame, a []Value) Value {
			x, y := a[0], a[1]
			if e.decideV(e.strEq(x, y), fr) {
				return uint64(0)
			}
			if e.decideV(e.strCompare(token.LSS, x, y), fr) {
				return uint64(math.MaxUint64) // -1
			}
			return uint64(1)
		}
		e.reg("internal/bytealg.CompareString", cmpStr)
		e.reg("internal/bytealg.abigen_runtime_cmpstring", cmpStr)
	})
}
