package exec

import "unsafe"

// slices.overlaps (used by slices.Insert/Replace when the capacity suffices) is written with unsafe.Sizeof and
// pointer arithmetic. Engine slices are Go []Value windows into a shared backing array, so the same question is
// answered on the engine's own representation.
func init() {
	extraModels = append(extraModels, func(e *Engine) {
		e.reg("slices.overlaps", func(fr *frame, a []Value) Value {
			x, ok1 := a[0].([]Value)
			y, ok2 := a[1].([]Value)
			if !ok1 || !ok2 {
				panic(unsupported("slices.overlaps on non-slice values %T %T", a[0], a[1]))
			}
			if len(x) == 0 || len(y) == 0 {
				return false
			}
			sz := unsafe.Sizeof(x[0])
			px, py := uintptr(unsafe.Pointer(&x[0])), uintptr(unsafe.Pointer(&y[0]))
			return px <= py+uintptr(len(y))*sz-1 && py <= px+uintptr(len(x))*sz-1
		})
	})
}
