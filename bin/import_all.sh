#!/bin/sh
# imports every /tmp/brk/<P>/m<n>.diff that is not yet in /verif/seeded (confirmation runs in a scratch worktree)
cd /verif || exit 3
for d in /tmp/brk/C*/; do
  p=$(basename "$d")
  for f in "$d"m*.diff; do
    [ -f "$f" ] || continue
    n=$(basename "$f" .diff | sed 's/^m//')
    [ -d "seeded/$p-m$n" ] && continue
    [ -f "$d/meta$n.json" ] || continue
    [ -f "$d/zz_demo_${n}_test.go" ] || continue
    grep -q "^$p-m$n " /tmp/import_failed.txt 2>/dev/null && continue
    pkg=$(python3 -c "import json; print(json.load(open('$d/meta$n.json'))['demo_pkg'].strip('./'))")
    out=$(python3 bin/import_seeded.py "$p" "$n" "$pkg" 2>&1 | tail -1)
    echo "$out"
    [ -d "seeded/$p-m$n" ] || echo "$p-m$n $out" >> /tmp/import_failed.txt
  done
done
