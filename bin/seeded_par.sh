#!/bin/sh
# usage: bin/seeded_par.sh <N> [name ...] — runs bin/seeded.sh over the given seeded changes (default: those without a
# RESULTS.tsv row at the current harness commit is not tracked; all) in N parallel lanes.
n="$1"; shift
cd /verif || exit 3
names="$*"
[ -n "$names" ] || names=$(ls seeded | grep -v RESULTS)
i=0
for lane in $(seq 1 "$n"); do eval "lane_$lane=''"; done
for x in $names; do
  # changes of one property share a lane (they share replay and evidence paths)
  pn=$(echo "$x" | sed 's/^C0*\([0-9]*\)-.*/\1/')
  lane=$(( pn % n + 1 ))
  eval "lane_$lane=\"\$lane_$lane $x\""
done
for lane in $(seq 1 "$n"); do
  eval "l=\$lane_$lane"
  [ -n "$l" ] || continue
  ( sh bin/seeded.sh $l > /tmp/seeded_lane_$lane.log 2>&1 ) &
done
wait
cat /tmp/seeded_lane_*.log | grep -v '^ '
