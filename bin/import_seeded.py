#!/usr/bin/env python3
"""usage: import_seeded.py <PROP> <n> <pkgdir-relative-to-repo> [<srcdir>]
Imports /tmp/brk/<PROP>/m<n>.diff (+ demo test) as /verif/seeded/<PROP>-m<n>/ after confirming, in a scratch
worktree, that (a) the demo passes on the unchanged tree, (b) with the patch the packages build and their existing
tests pass, (c) the demo fails with the patch."""
import json, os, subprocess, sys, shutil, re
prop, n, pkg = sys.argv[1], sys.argv[2], sys.argv[3]
src = sys.argv[4] if len(sys.argv) > 4 else f'/tmp/brk/{prop}'
name = f'{prop}-m{n}'
dst = f'/verif/seeded/{name}'
wt = f'/tmp/wt-confirm-{name}'
env = dict(os.environ, GOFLAGS='-mod=mod', GOPROXY='off')
env.pop('GOSUMDB', None); env.pop('GOTOOLCHAIN', None)
def run(cmd, cwd=wt, timeout=1500):
    p = subprocess.run(cmd, shell=True, cwd=cwd, env=env, capture_output=True, text=True, timeout=timeout)
    return p.returncode, (p.stdout + p.stderr)[-3000:]
subprocess.run(f'git -C /repo worktree remove --force {wt}', shell=True, capture_output=True)
rc, out = run(f'git -C /repo worktree add --detach {wt} HEAD', cwd='/')
assert rc == 0, out
log = {}
try:
    demo = f'{src}/zz_demo_{n}_test.go'
    tests = re.findall(r'func (Test\w+)\(', open(demo).read())
    runre = '^(' + '|'.join(tests) + ')$'
    shutil.copy(demo, f'{wt}/{pkg}/zz_demo_{n}_test.go')
    rc, out = run(f'go test -count=1 -run "{runre}" ./{pkg}/')
    log['demo_on_unchanged'] = 'PASS' if rc == 0 else 'FAIL: ' + out[-800:]
    rc2, out2 = run(f'git apply {src}/m{n}.diff')
    assert rc2 == 0, out2
    files = subprocess.run('git diff --name-only', shell=True, cwd=wt, capture_output=True, text=True).stdout.split()
    pkgs = sorted({'./' + os.path.dirname(f) + '/...' for f in files})
    rc3, out3 = run('go build ./...')
    log['build_with_patch'] = 'OK' if rc3 == 0 else 'FAIL: ' + out3[-800:]
    rc4, out4 = run(f'go test -count=1 -run "{runre}" ./{pkg}/')
    log['demo_with_patch'] = 'FAIL (as required)' if rc4 != 0 else 'PASS (demo does not detect the change!)'
    os.remove(f'{wt}/{pkg}/zz_demo_{n}_test.go')
    skip = ' -skip TestRealAutoConfURL' if any('autoconf' in x for x in pkgs) else ''  # needs network, fails in the sandbox regardless
    rc5, out5 = run('go test -count=1' + skip + ' ' + ' '.join(pkgs))
    log['existing_tests_with_patch'] = 'PASS' if rc5 == 0 else 'FAIL: ' + out5[-1200:]
    ok = rc == 0 and rc3 == 0 and rc4 != 0 and rc5 == 0
    log['confirmed'] = ok
    log['packages_tested'] = pkgs
    if ok:
        os.makedirs(dst, exist_ok=True)
        shutil.copy(f'{src}/m{n}.diff', f'{dst}/patch.diff')
        shutil.copy(demo, f'{dst}/zz_demo_{n}_test.go')
        m = {}
        try: m = json.load(open(f'{src}/meta{n}.json'))
        except Exception: pass
        meta = {"property": prop, "summary": m.get("summary"), "needs": m.get("needs"), "files": files,
                "demo_pkg": pkg, "demo_run": f'go test -count=1 -run "{runre}" ./{pkg}/',
                "confirmed_by_lead": log}
        json.dump(meta, open(f'{dst}/meta.json', 'w'), indent=1)
finally:
    subprocess.run(f'git -C /repo worktree remove --force {wt}', shell=True, capture_output=True)
print(name, json.dumps(log)[:600])
