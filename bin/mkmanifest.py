#!/usr/bin/env python3
"""Regenerates /verif/MANIFEST.json from harness/*/spec.json (section "manifest", "registered": true)
and not_applicable.json (id -> reason for every property without a registered check)."""
import json, os, glob
root = '/verif'
props = [json.loads(l)['id'] for l in open(f'{root}/properties.jsonl')]
na = json.load(open(f'{root}/not_applicable.json'))
checks, served = [], []
for pid in props:
    sp = f'{root}/harness/{pid}/spec.json'
    if not os.path.exists(sp):
        continue
    spec = json.load(open(sp))
    if not spec.get('registered'):
        continue
    m = spec.get('manifest', {})
    served.append(pid)
    checks.append({
        "property_id": pid,
        "quick_cmd": f"bin/check {pid} quick",
        "thorough_cmd": f"bin/check {pid} thorough",
        "evidence_file": f"/verif/evidence/{pid}.json",
        "replay_cmd_template": "cat {path}  # inputs of the counterexample; bin/check re-runs them natively through go test -overlay",
        "engine": "gosx",
        "level_claimed": {
            "category": "model_checking",
            "text": m.get("level_text", "bounded symbolic model checking of the real code (go/ssa -> SMT); every explored path is decided by z3 for all input values, within the bounds listed in the evidence file"),
            "design_ref": m.get("design_ref", f"DESIGN.md section 7, {pid}"),
        },
        "level_note": m.get("level_note", "trusted: go/ssa lowering, z3, the engine's models of sync/time/fmt/errors and the stubs listed in the evidence file; nothing is claimed outside the stated bounds"),
        "technique": m.get("technique", "SMT-based symbolic execution of go/ssa (bounded), counterexamples replayed natively"),
    })
nas = []
for pid in props:
    if pid in served:
        continue
    nas.append({"property_id": pid, "reason": na.get(pid, "no check registered yet: harness not built or not yet clean on the unchanged tree")})
man = {
    "version": 1,
    "setup_cmd": "sh bin/setup",
    "hooks": {
        "guard": "verif",
        "enable": "no source hooks: harnesses and the verifrt runtime are injected into the package under test with go/packages overlays and `go test -overlay`; /repo is only changed by fix: commits",
        "baseline_off_cmd": "cd /repo && GOFLAGS=-mod=mod go test -vet=off -count=1 -timeout 25m ./...",
        "source_commits": [],
        "add_only": True,
    },
    "engines": [{"name": "gosx", "path": "/verif/engine", "serves_properties": served,
                 "kind_free_text": "own symbolic executor for go/ssa (x/tools v0.50.0) with a z3 back end: bit-vector terms, path forking with feasibility queries, cooperative goroutine scheduler, native replay of counterexamples"}],
    "checks": checks,
    "not_applicable": nas,
    "notes": "exit 2 + INCONCLUSIVE line = the check could not decide (solver unknown, unwinding cap, unsupported construct, counterexample that did not reproduce natively); it is never reported as a pass.",
}
json.dump(man, open(f'{root}/MANIFEST.json', 'w'), indent=1)
print(f"{len(checks)} checks, {len(nas)} not applicable")
