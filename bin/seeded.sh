#!/bin/sh
# usage: bin/seeded.sh [ID|name ...]  — for every /verif/seeded/<name>/patch.diff: make a scratch worktree of
# /repo's HEAD, apply the patch there, run the property's check against that tree (gosx -repo), remove the worktree.
# /repo itself is never modified. TIER=quick|thorough. Prints one line per seeded change.
cd /verif || exit 3
tier="${TIER:-quick}"
export GOFLAGS=-mod=mod GOPROXY=off
unset GOTOOLCHAIN GOSUMDB
[ -x engine/gosx ] || sh bin/setup >/dev/null
for d in seeded/*/; do
  name=$(basename "$d")
  [ -f "$d/patch.diff" ] || continue
  prop=$(python3 -c "import json,sys; print(json.load(open('$d/meta.json'))['property'])")
  if [ $# -gt 0 ]; then case " $* " in *" $prop "*|*" $name "*) ;; *) continue;; esac; fi
  wt=/tmp/wt-seeded-$name-$$
  git -C /repo worktree add --detach "$wt" HEAD >/dev/null 2>&1 || { echo "$name $prop WORKTREE-FAILED"; continue; }
  if ! git -C "$wt" apply "/verif/$d/patch.diff" 2>/dev/null; then echo "$name $prop APPLY-FAILED"; git -C /repo worktree remove --force "$wt"; continue; fi
  out=$(engine/gosx check -id "$prop" -tier "$tier" -repo "$wt" -evidence-suffix ".seeded-$name" 2>&1); rc=$?
  git -C /repo worktree remove --force "$wt" >/dev/null 2>&1
  v=$(echo "$out" | grep -c '^VIOLATION')
  case $rc in 1) res=CAUGHT;; 0) res=MISSED;; *) res="INCONCLUSIVE";; esac
  line="$name $prop $res rc=$rc violations=$v $(echo "$out" | grep -m1 'assert=' | cut -c1-140)"
  echo "$line"
  printf '%s\t%s\t%s\t%s\t%s\t%s\n' "$name" "$prop" "$res" "$tier" "$(git -C /verif rev-parse --short HEAD)" "$(echo "$out" | grep -m1 'assert=' | sed 's/^ *//' | cut -c1-160)" >> /verif/seeded/RESULTS.tsv
  [ "$res" = INCONCLUSIVE ] && echo "$out" | grep -m2 INCONCLUSIVE | cut -c1-300
done
rm -f evidence/*.seeded-*.json
