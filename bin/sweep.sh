#!/bin/sh
# usage: bin/sweep.sh quick|thorough [ID ...] — runs the registered checks one after another, records exit code and wall time.
tier="$1"; shift
cd /verif || exit 3
ids="$*"
[ -n "$ids" ] || ids=$(python3 -c "import json; print(' '.join(c['property_id'] for c in json.load(open('MANIFEST.json'))['checks']))")
out=/tmp/sweep_$tier.tsv
for id in $ids; do
  t0=$(date +%s)
  o=$(timeout 5400 bin/check $id $tier 2>&1); rc=$?
  t1=$(date +%s)
  printf '%s\t%s\t%s\t%s\n' "$id" "$rc" "$((t1-t0))" "$(echo "$o" | grep -E '^(VIOLATION|INCONCLUSIVE|KNOWN-FINDING)' | head -3 | cut -c1-200 | tr '\n' ' ')" | tee -a $out
done
