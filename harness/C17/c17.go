package io

import (
	"context"
	"encoding/binary"
	"errors"
	"os"
	"time"

	"github.com/ipfs/boxo/internal/verifrt"
	mdag "github.com/ipfs/boxo/ipld/merkledag"
	format "github.com/ipfs/boxo/ipld/unixfs"
	pb "github.com/ipfs/boxo/ipld/unixfs/pb"
	cid "github.com/ipfs/go-cid"
	ipld "github.com/ipfs/go-ipld-format"
	mh "github.com/multiformats/go-multihash"
	"google.golang.org/protobuf/proto"
)

// ---------------------------------------------------------------------------------------------------
// protobuf model for the UnixFS Data message (engine only; natively the real protobuf-go runs and the
// translator validation compares lengths/bytes). Written from unixfs.proto (proto2 wire format).
// ---------------------------------------------------------------------------------------------------

func zzvAppendVarint(b []byte, v uint64) []byte {
	for v >= 0x80 {
		b = append(b, byte(v)|0x80)
		v >>= 7
	}
	return append(b, byte(v))
}

func zzvEncTimestamp(t *pb.IPFSTimestamp) ([]byte, error) {
	var b []byte
	if t.Seconds == nil {
		return nil, errors.New("required field seconds not set")
	}
	b = append(b, 0x08)
	b = zzvAppendVarint(b, uint64(*t.Seconds))
	if t.Nanos != nil {
		b = append(b, 0x15)
		b = binary.LittleEndian.AppendUint32(b, *t.Nanos)
	}
	return b, nil
}

func zzvEncData(d *pb.Data) ([]byte, error) {
	var b []byte
	if d.Type == nil {
		return nil, errors.New("required field Type not set")
	}
	b = append(b, 0x08)
	b = zzvAppendVarint(b, uint64(int64(int32(*d.Type))))
	if d.Data != nil {
		b = append(b, 0x12)
		b = zzvAppendVarint(b, uint64(len(d.Data)))
		b = append(b, d.Data...)
	}
	if d.Filesize != nil {
		b = append(b, 0x18)
		b = zzvAppendVarint(b, *d.Filesize)
	}
	for _, s := range d.Blocksizes {
		b = append(b, 0x20)
		b = zzvAppendVarint(b, s)
	}
	if d.HashType != nil {
		b = append(b, 0x28)
		b = zzvAppendVarint(b, *d.HashType)
	}
	if d.Fanout != nil {
		b = append(b, 0x30)
		b = zzvAppendVarint(b, *d.Fanout)
	}
	if d.Mode != nil {
		b = append(b, 0x38)
		b = zzvAppendVarint(b, uint64(*d.Mode))
	}
	if d.Mtime != nil {
		tb, err := zzvEncTimestamp(d.Mtime)
		if err != nil {
			return nil, err
		}
		b = append(b, 0x42)
		b = zzvAppendVarint(b, uint64(len(tb)))
		b = append(b, tb...)
	}
	return b, nil
}

func zzvMarshal(m proto.Message) ([]byte, error) {
	switch x := m.(type) {
	case *pb.Data:
		return zzvEncData(x)
	case *pb.IPFSTimestamp:
		return zzvEncTimestamp(x)
	}
	panic("zzvMarshal: unmodelled message type")
}

var errZzvTrunc = errors.New("proto: truncated")

func zzvReadVarint(b []byte, i int) (uint64, int, error) {
	var v uint64
	for shift := uint(0); shift < 70; shift += 7 {
		if i >= len(b) {
			return 0, i, errZzvTrunc
		}
		c := b[i]
		i++
		v |= uint64(c&0x7f) << shift
		if c < 0x80 {
			return v, i, nil
		}
	}
	return 0, i, errors.New("proto: varint overflow")
}

func zzvSkip(b []byte, i int, wt uint64) (int, error) {
	switch wt {
	case 0:
		_, j, err := zzvReadVarint(b, i)
		return j, err
	case 1:
		if i+8 > len(b) {
			return i, errZzvTrunc
		}
		return i + 8, nil
	case 2:
		l, j, err := zzvReadVarint(b, i)
		if err != nil {
			return j, err
		}
		if uint64(len(b)-j) < l {
			return j, errZzvTrunc
		}
		return j + int(l), nil
	case 5:
		if i+4 > len(b) {
			return i, errZzvTrunc
		}
		return i + 4, nil
	}
	return i, errors.New("proto: bad wire type")
}

func zzvDecTimestamp(b []byte, t *pb.IPFSTimestamp) error {
	t.Seconds, t.Nanos = nil, nil
	i := 0
	for i < len(b) {
		tag, j, err := zzvReadVarint(b, i)
		if err != nil {
			return err
		}
		i = j
		switch tag {
		case 0x08:
			v, j, err := zzvReadVarint(b, i)
			if err != nil {
				return err
			}
			i = j
			s := int64(v)
			t.Seconds = &s
		case 0x15:
			if i+4 > len(b) {
				return errZzvTrunc
			}
			n := binary.LittleEndian.Uint32(b[i:])
			i += 4
			t.Nanos = &n
		default:
			if i, err = zzvSkip(b, i, tag&7); err != nil {
				return err
			}
		}
	}
	if t.Seconds == nil {
		return errors.New("proto: required field seconds not set")
	}
	return nil
}

func zzvDecData(b []byte, d *pb.Data) error {
	d.Type, d.Data, d.Filesize, d.Blocksizes, d.HashType, d.Fanout, d.Mode, d.Mtime = nil, nil, nil, nil, nil, nil, nil, nil
	i := 0
	for i < len(b) {
		tag, j, err := zzvReadVarint(b, i)
		if err != nil {
			return err
		}
		i = j
		switch tag {
		case 0x08, 0x18, 0x20, 0x28, 0x30, 0x38:
			v, j, err := zzvReadVarint(b, i)
			if err != nil {
				return err
			}
			i = j
			switch tag {
			case 0x08:
				t := pb.Data_DataType(int32(v))
				d.Type = &t
			case 0x18:
				d.Filesize = &v
			case 0x20:
				d.Blocksizes = append(d.Blocksizes, v)
			case 0x28:
				d.HashType = &v
			case 0x30:
				d.Fanout = &v
			case 0x38:
				m := uint32(v)
				d.Mode = &m
			}
		case 0x12, 0x42:
			l, j, err := zzvReadVarint(b, i)
			if err != nil {
				return err
			}
			i = j
			if uint64(len(b)-i) < l {
				return errZzvTrunc
			}
			body := b[i : i+int(l)]
			i += int(l)
			if tag == 0x12 {
				d.Data = append([]byte{}, body...)
			} else {
				if d.Mtime == nil {
					d.Mtime = &pb.IPFSTimestamp{}
				}
				if err := zzvDecTimestamp(body, d.Mtime); err != nil {
					return err
				}
			}
		default:
			if i, err = zzvSkip(b, i, tag&7); err != nil {
				return err
			}
		}
	}
	if d.Type == nil {
		return errors.New("proto: required field Type not set")
	}
	return nil
}

func zzvUnmarshal(b []byte, m proto.Message) error {
	switch x := m.(type) {
	case *pb.Data:
		return zzvDecData(b, x)
	case *pb.IPFSTimestamp:
		return zzvDecTimestamp(b, x)
	}
	panic("zzvUnmarshal: unmodelled message type")
}

// ---------------------------------------------------------------------------------------------------
// helpers
// ---------------------------------------------------------------------------------------------------

// zzvCid builds a CID of one of several byte lengths without hashing (mh.Encode only frames the digest).
// class: 0 CIDv0 sha2-256 (34 B) | 1 CIDv1 raw sha2-256 (36) | 2 CIDv1 dag-json(0x0129) sha2-256 (37) |
// 3 CIDv1 dag-pb blake2b-256 (38) | 4 CIDv1 raw sha2-512 (68) | 5 CIDv1 raw identity, empty digest (4) |
// 6 CIDv1 raw identity 130-byte digest (135: length varint of the Hash field takes two bytes)
const zzvCidClasses = 7

func zzvCid(class int, salt byte) cid.Cid {
	mk := func(n int, code uint64) mh.Multihash {
		d := make([]byte, n)
		if n > 0 {
			d[0] = salt
		}
		m, err := mh.Encode(d, code)
		if err != nil {
			panic(err)
		}
		return m
	}
	switch class {
	case 0:
		return cid.NewCidV0(mk(32, mh.SHA2_256))
	case 1:
		return cid.NewCidV1(cid.Raw, mk(32, mh.SHA2_256))
	case 2:
		return cid.NewCidV1(0x0129, mk(32, mh.SHA2_256))
	case 3:
		return cid.NewCidV1(cid.DagProtobuf, mk(32, 0xb220))
	case 4:
		return cid.NewCidV1(cid.Raw, mk(64, mh.SHA2_512))
	case 5:
		return cid.NewCidV1(cid.Raw, mk(0, mh.IDENTITY))
	default:
		return cid.NewCidV1(cid.Raw, mk(130, mh.IDENTITY))
	}
}

func zzvName(n int, fill byte) string {
	b := make([]byte, n)
	for i := range b {
		b[i] = fill
	}
	return string(b)
}

// zzvChild is a minimal ipld.Node: a CID and a cumulative size, which is all MakeLink looks at.
type zzvChild struct {
	ipld.Node
	c    cid.Cid
	size uint64
}

func (n *zzvChild) Cid() cid.Cid            { return n.c }
func (n *zzvChild) Size() (uint64, error)   { return n.size, nil }
func (n *zzvChild) RawData() []byte         { return nil }
func (n *zzvChild) Links() []*ipld.Link     { return nil }
func (n *zzvChild) String() string          { return "zzvChild" }
func (n *zzvChild) Loggable() map[string]any { return nil }

func zzvNanos(name string) int64 {
	ns := int64(verifrt.NondetU32(name))
	verifrt.Assume(ns < 1000000000)
	return ns
}

// zzvMtime returns a symbolic wall-clock instant, or the zero time.
func zzvMtime() time.Time {
	if verifrt.NondetBool("mtime-unset") {
		return time.Time{}
	}
	return time.Unix(verifrt.NondetI64("s"), zzvNanos("ns"))
}

// ---------------------------------------------------------------------------------------------------
// (a) varint length
// ---------------------------------------------------------------------------------------------------

// HarnessC17Varint: varintLen(v) = number of 7-bit groups of v (at least one), all 2^64 values.
func HarnessC17Varint() {
	v := verifrt.NondetU64("v")
	got := varintLen(v)
	verifrt.Observe("got", got)
	want := 1
	for x := v; x >= 0x80; x >>= 7 {
		want++
	}
	verifrt.Assert("C17.varint-len", got == want)
	verifrt.Reach("end")
}

// ---------------------------------------------------------------------------------------------------
// (b) one link against the real dag-pb encoder
// ---------------------------------------------------------------------------------------------------

var zzvNameLensQuick = []int{0, 1, 2, 63, 77, 78, 79, 80, 81, 82, 83, 84, 85, 86, 87, 88, 89, 90, 91, 92, 120, 126, 127, 128, 129, 200, 255, 256, 300}

// HarnessC17LinkSize: a ProtoNode holding exactly one link and no Data serializes to linkSerializedSize bytes.
// Tsize is symbolic over 0..2^63-1 (the real encoder forks per varint length class), name length and CID length
// are shape parameters.
func HarnessC17LinkSize() {
	var nameLen int
	if verifrt.Param("ALLNAMES", 0) == 1 {
		nameLen = verifrt.NondetRange("nameLen", 0, 300)
	} else {
		nameLen = zzvNameLensQuick[verifrt.NondetRange("nameLenIdx", 0, len(zzvNameLensQuick)-1)]
	}
	class := verifrt.NondetRange("cidClass", 0, zzvCidClasses-1)
	tsize := verifrt.NondetU64("tsize")
	verifrt.Assume(tsize <= 1<<63-1)
	name := zzvName(nameLen, 'n')
	c := zzvCid(class, 1)
	est := linkSerializedSize(name, c, tsize)
	nd := new(mdag.ProtoNode)
	err := nd.AddRawLink(name, &ipld.Link{Cid: c, Size: tsize})
	verifrt.Assert("C17.link-add-ok", err == nil)
	enc, err := nd.Marshal()
	verifrt.Assert("C17.link-marshal-ok", err == nil)
	verifrt.Observe("len", len(enc))
	verifrt.Assert("C17.link-size-exact", est == len(enc))
	verifrt.Reach("end")
}

// ---------------------------------------------------------------------------------------------------
// (c) data field
// ---------------------------------------------------------------------------------------------------

// HarnessC17DataField: an empty directory node with (mode, mtime) serializes to dataFieldSerializedSize bytes.
// mode is a symbolic os.FileMode (all 32 bits), mtime a symbolic instant (any seconds, any nanoseconds) or unset.
func HarnessC17DataField() {
	mode := os.FileMode(verifrt.NondetU32("mode"))
	mtime := zzvMtime()
	est := dataFieldSerializedSize(mode, mtime)
	verifrt.Observe("est", est)
	var node *mdag.ProtoNode
	if mode != 0 || !mtime.IsZero() {
		node = format.EmptyDirNodeWithStat(mode, mtime)
	} else {
		node = format.EmptyDirNode()
	}
	enc, err := node.Marshal()
	verifrt.Assert("C17.data-marshal-ok", err == nil)
	verifrt.Observe("len", len(enc))
	verifrt.Assert("C17.data-field-size-exact", est == len(enc))
	verifrt.Reach("end")
}

// ---------------------------------------------------------------------------------------------------
// (d) incremental tracking through the BasicDirectory API
// ---------------------------------------------------------------------------------------------------

func zzvBlockMode() DirectoryOption { return WithSizeEstimationMode(SizeEstimationBlock) }

func zzvCheckExact(id string, d *BasicDirectory) {
	enc, err := d.node.Marshal()
	verifrt.Assert("C17.track-marshal-ok", err == nil)
	verifrt.Observe("len", len(enc))
	verifrt.Observe("est", d.estimatedSize)
	verifrt.Assert(id, d.estimatedSize == len(enc))
}

var zzvPoolNames = []string{"a", zzvName(90, 'b'), zzvName(130, 'c')}
var zzvPoolCids = []int{0, 6}

// HarnessC17Track: a basic directory in block-size estimation mode, created without stat / with a full symbolic
// stat (permission bits, seconds, nanoseconds; one varint class each - the classes are HarnessC17DataField's job) /
// (HarnessC17Reload covers every mode/mtime class for the reload step); then K operations over a name pool: add or replace (2 CID length
// classes, symbolic Tsize < 2^14), remove (present or missing), and an add that the node rejects (Tsize > MaxInt64
// or an undefined CID). After every operation - successful or not - the tracked estimate equals the length of the
// serialized node; finally the node is re-loaded (NewBasicDirectoryFromNode, as NewDirectoryFromNode does) and the
// freshly computed estimate must be exact too.
func HarnessC17Track() {
	ctx := context.Background()
	var mode os.FileMode
	var mtime time.Time
	switch verifrt.NondetRange("stat", 0, 1) {
	case 1:
		mode = os.FileMode(verifrt.NondetU32("mode")&0x1FF | 0x80)
		s := verifrt.NondetI64("s")
		verifrt.Assume(s >= 1<<28 && s < 1<<35)
		ns := zzvNanos("ns")
		verifrt.Assume(ns > 0)
		mtime = time.Unix(s, ns)
	}
	d, err := NewBasicDirectory(nil, zzvBlockMode(), WithStat(mode, mtime))
	verifrt.Assert("C17.track-new-ok", err == nil)
	zzvCheckExact("C17.track-exact-empty", d)
	k := verifrt.Param("K", 2)
	names := zzvPoolNames[:verifrt.Param("NAMES", 2)]
	model := map[string]bool{}
	for i := 0; i < k; i++ {
		name := names[verifrt.NondetRange("name", 0, len(names)-1)]
		switch verifrt.NondetRange("op", 0, 2) {
		case 0:
			ci := verifrt.NondetRange("cid", 0, verifrt.Param("CIDS", 2)-1)
			ts := verifrt.NondetU64("tsize")
			verifrt.Assume(ts < 1<<14)
			err := d.AddChild(ctx, name, &zzvChild{c: zzvCid(zzvPoolCids[ci], byte(i+1)), size: ts})
			verifrt.Assert("C17.track-add-ok", err == nil)
			model[name] = true
			zzvCheckExact("C17.track-exact-after-add", d)
		case 1:
			err := d.RemoveChild(ctx, name)
			if model[name] {
				verifrt.Assert("C17.track-remove-ok", err == nil)
			} else {
				verifrt.Assert("C17.track-remove-missing", errors.Is(err, os.ErrNotExist))
			}
			delete(model, name)
			zzvCheckExact("C17.track-exact-after-remove", d)
		case 2:
			child := &zzvChild{c: zzvCid(1, 9), size: verifrt.NondetU64("badsize")}
			if verifrt.NondetBool("undef") {
				child.c = cid.Undef
			} else {
				verifrt.Assume(child.size > 1<<63-1)
			}
			err := d.AddChild(ctx, name, child)
			verifrt.Assert("C17.track-bad-add-rejected", err != nil)
			// whatever the failed call did to the entry list, the estimate must describe the node as it is now
			zzvCheckExact("C17.track-exact-after-rejected-add", d)
			if _, err := d.node.GetNodeLink(name); err != nil {
				delete(model, name)
			}
		}
		verifrt.Assert("C17.track-total-links", d.totalLinks == len(d.node.Links()))
	}
	// reload from the node
	saved := HAMTSizeEstimation
	HAMTSizeEstimation = SizeEstimationBlock
	d2 := NewBasicDirectoryFromNode(nil, d.node.Copy().(*mdag.ProtoNode))
	HAMTSizeEstimation = saved
	zzvCheckExact("C17.track-exact-after-reload", d2)
	verifrt.Reach("end")
}

// HarnessC17Reload: a block-mode directory created with any stat (symbolic 32-bit mode, symbolic or unset mtime) and
// zero or one entry is serialized and loaded again the way NewDirectoryFromNode does it; the estimate computed on
// load must equal the length of the serialized node. The case "mode has type bits but no permission bits"
// (e.g. os.ModeDir for a d--------- directory: the Mode field is written with value 0) has its own assertion id.
func HarnessC17Reload() {
	mode := os.FileMode(verifrt.NondetU32("mode"))
	var mtime time.Time
	if !verifrt.NondetBool("mtime-unset") {
		// one varint class of seconds (the classes are HarnessC17DataField's subject), nanoseconds zero or not
		s := verifrt.NondetI64("s")
		verifrt.Assume(s >= 1<<28)
		verifrt.Assume(s < 1<<35)
		mtime = time.Unix(s, zzvNanos("ns"))
	}
	d, err := NewBasicDirectory(nil, zzvBlockMode(), WithStat(mode, mtime))
	verifrt.Assert("C17.reload-new-ok", err == nil)
	zzvCheckExact("C17.reload-exact-before", d)
	if verifrt.NondetBool("withlink") {
		ts := verifrt.NondetU64("tsize")
		verifrt.Assume(ts < 1<<14)
		err := d.AddChild(context.Background(), "a", &zzvChild{c: zzvCid(1, 1), size: ts})
		verifrt.Assert("C17.reload-add-ok", err == nil)
	}
	saved := HAMTSizeEstimation
	HAMTSizeEstimation = SizeEstimationBlock
	d2 := NewBasicDirectoryFromNode(nil, d.node.Copy().(*mdag.ProtoNode))
	HAMTSizeEstimation = saved
	if mode != 0 && mode&(os.ModePerm|os.ModeSetuid|os.ModeSetgid|os.ModeSticky) == 0 {
		zzvCheckExact("C17.reload-exact-permless-mode", d2)
	} else {
		zzvCheckExact("C17.reload-exact", d2)
	}
	verifrt.Reach("end")
}
