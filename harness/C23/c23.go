package dspinner

import (
	"context"
	"path"

	"github.com/ipfs/boxo/internal/verifrt"
	"github.com/ipfs/boxo/pinning/pinner/dsindex"
	ipfspinner "github.com/ipfs/boxo/pinning/pinner"
	ds "github.com/ipfs/go-datastore"
	"github.com/ipfs/go-datastore/query"
)

// zzvLogDS is the datastore the pinner runs on: a MapDatastore plus a log of every write in order.
// Crash model: the process stops after some write; what was written before is on disk, nothing after it
// (ordered, non-torn writes). Sync is logged but has no effect on what survives.
type zzvWrite struct {
	kind int // 0 Put, 1 Delete, 2 Sync
	key  ds.Key
	val  []byte
}

type zzvLogDS struct {
	inner *ds.MapDatastore
	log   []zzvWrite
}

func (l *zzvLogDS) Put(ctx context.Context, k ds.Key, v []byte) error {
	l.log = append(l.log, zzvWrite{0, k, append([]byte(nil), v...)})
	return l.inner.Put(ctx, k, v)
}
func (l *zzvLogDS) Delete(ctx context.Context, k ds.Key) error {
	l.log = append(l.log, zzvWrite{1, k, nil})
	return l.inner.Delete(ctx, k)
}
func (l *zzvLogDS) Sync(ctx context.Context, k ds.Key) error {
	l.log = append(l.log, zzvWrite{2, k, nil})
	return l.inner.Sync(ctx, k)
}
func (l *zzvLogDS) Get(ctx context.Context, k ds.Key) ([]byte, error) { return l.inner.Get(ctx, k) }
func (l *zzvLogDS) Has(ctx context.Context, k ds.Key) (bool, error)   { return l.inner.Has(ctx, k) }
func (l *zzvLogDS) GetSize(ctx context.Context, k ds.Key) (int, error) {
	return l.inner.GetSize(ctx, k)
}
func (l *zzvLogDS) Query(ctx context.Context, q query.Query) (query.Results, error) {
	return l.inner.Query(ctx, q)
}
func (l *zzvLogDS) Close() error { return nil }

// zzvReplayLog builds the store that holds exactly the first n state-changing writes (Put/Delete) of the log.
func zzvReplayLog(log []zzvWrite, n int) *ds.MapDatastore {
	ctx := context.Background()
	st := ds.NewMapDatastore()
	for _, w := range log {
		if w.kind == 2 {
			continue
		}
		if n == 0 {
			break
		}
		n--
		if w.kind == 0 {
			st.Put(ctx, w.key, w.val)
		} else {
			st.Delete(ctx, w.key)
		}
	}
	return st
}

func zzvCountWrites(log []zzvWrite) int {
	n := 0
	for _, w := range log {
		if w.kind != 2 {
			n++
		}
	}
	return n
}

var zzvOpName = []string{"pin-recursive", "pin-direct", "pin-with-invalid-mode", "unpin", "update"}

// zzvInReplaceWindow: among the surviving writes base..base+cut-1 (Syncs not counted) a pin record was deleted
// and no pin record was written.
func zzvInReplaceWindow(log []zzvWrite, base, cut int) bool {
	pfx := pinKeyPath + "/"
	del, put := false, false
	i := 0
	for _, w := range log {
		if w.kind == 2 {
			continue
		}
		if i >= base && i < base+cut {
			k := w.key.String()
			if len(k) > len(pfx) && k[:len(pfx)] == pfx {
				if w.kind == 1 {
					del = true
				} else {
					put = true
				}
			}
		}
		i++
	}
	return del && !put
}

// zzvConsistent: records <-> indexes on the re-opened pinner.
func zzvConsistent(p *pinner, store ds.Datastore) {
	ctx := context.Background()
	res, err := store.Query(ctx, query.Query{Prefix: pinKeyPath})
	verifrt.Assert("C23.scan-ok", err == nil)
	ents, err := res.Rest()
	verifrt.Assert("C23.scan-ok", err == nil)
	verifrt.Observe("records", len(ents))
	for _, e := range ents {
		pp, err := decodePin(path.Base(e.Key), e.Value)
		verifrt.Assert("C23.record-decodes", err == nil)
		if err != nil {
			continue
		}
		var own, other dsindex.Indexer
		switch pp.Mode {
		case ipfspinner.Recursive:
			own, other = p.cidRIndex, p.cidDIndex
		case ipfspinner.Direct:
			own, other = p.cidDIndex, p.cidRIndex
		default:
			verifrt.Assert("C23.record-mode-valid", false)
			continue
		}
		has, err := own.HasValue(ctx, pp.Cid.KeyString(), pp.Id)
		verifrt.Assert("C23.record-has-cid-index", err == nil && has)
		has, err = other.HasValue(ctx, pp.Cid.KeyString(), pp.Id)
		verifrt.Assert("C23.record-not-in-other-cid-index", err == nil && !has)
		if pp.Name != "" {
			has, err = p.nameIndex.HasValue(ctx, pp.Name, pp.Id)
			verifrt.Assert("C23.record-has-name-index", err == nil && has)
		}
	}
	chk := func(id string, idx dsindex.Indexer, mode ipfspinner.Mode) {
		ok := true
		err := idx.ForEach(ctx, "", func(key, value string) bool {
			pp, err := p.loadPin(ctx, value)
			if err != nil || pp.Cid.KeyString() != key || pp.Mode != mode {
				ok = false
			}
			return true
		})
		verifrt.Assert(id, err == nil && ok)
	}
	chk("C23.recursive-index-has-record", p.cidRIndex, ipfspinner.Recursive)
	chk("C23.direct-index-has-record", p.cidDIndex, ipfspinner.Direct)
	okName := true
	err = p.nameIndex.ForEach(ctx, "", func(key, value string) bool {
		pp, err := p.loadPin(ctx, value)
		if err != nil || pp.Name != key {
			okName = false
		}
		return true
	})
	verifrt.Assert("C23.name-index-has-record", err == nil && okName)
}

// HarnessC23Crash: a state reached by 0..PRE setup operations; one more operation runs to completion on the
// logging store; a cut index selects how many of that operation's state-changing writes (Put/Delete, in order)
// survive, everything written before the operation survives; the pinner is re-opened with New on that store.
func HarnessC23Crash() { zzvCrash() }

// HarnessC23Crash2: the same from states reached by exactly two setup operations (thorough tier only).
func HarnessC23Crash2() { zzvCrash() }

// HarnessC23CrashRD: the same from the scripted state {node 0 recursive, node 1 direct} (SCRIPT=1) with the
// interrupted operation restricted to Unpin and Update (NOPINS=1; the Pin variants from one-pin states are
// HarnessC23Crash): covers Update onto a directly pinned CID and unpin of either next to another pin.
func HarnessC23CrashRD() { zzvCrash() }

func zzvCrash() {
	n := verifrt.Param("N", 2)
	d := zzvNewDag(n, false)
	m := &zzvModel{n: n}
	st := &zzvLogDS{inner: ds.NewMapDatastore()}
	p := zzvNewPinner(d, st)
	if verifrt.Param("SCRIPT", 0) == 1 {
		// scripted state: node 0 pinned recursively, node 1 pinned directly (symbolic 1-byte names)
		ctx := context.Background()
		n0 := verifrt.NondetString("name", 1)
		n1 := verifrt.NondetString("name", 1)
		verifrt.Assume(p.PinWithMode(ctx, d.cids[0], ipfspinner.Recursive, n0) == nil)
		m.set(0, zzvRec, n0)
		verifrt.Assume(p.PinWithMode(ctx, d.cids[1], ipfspinner.Direct, n1) == nil)
		m.set(1, zzvDir, n1)
	} else {
		pre := verifrt.NondetRange("pre", verifrt.Param("PREMIN", 0), verifrt.Param("PRE", 1))
		for i := 0; i < pre; i++ {
			zzvStep(p, d, m, zzvStepOpt{setup: true, succeed: true})
		}
	}
	base := zzvCountWrites(st.log)
	m0 := *m
	info := zzvStep(p, d, m, zzvStepOpt{faults: verifrt.Param("FAULTS", 0) == 1, skipMode: verifrt.Param("SKIPMODE", 0) == 1, noPins: verifrt.Param("NOPINS", 0) == 1})
	total := zzvCountWrites(st.log)
	verifrt.Observe("writes", total-base)
	verifrt.Observe("failed", info.failed)

	cut := verifrt.NondetRange("cut", 0, total-base)
	store2 := zzvReplayLog(st.log, base+cut)
	d.fault, d.fk = 0, 0
	p2, err := New(context.Background(), store2, d)
	verifrt.Assert("C23.reopen-ok", err == nil)
	if err != nil {
		verifrt.Reach("end")
		return
	}
	zzvConsistent(p2, store2)

	// every CID pinned before the interrupted operation that the operation would not unpin is still pinned
	ctx := context.Background()
	for c := 0; c < n; c++ {
		if m0.mode[c] == zzvNone {
			continue
		}
		if info.op == 3 && info.cid == c {
			continue
		}
		if info.op == 4 && info.cid == c && info.flag && info.to != c {
			continue
		}
		_, pinned, err := p2.IsPinned(ctx, d.cids[c])
		id := "C23.still-pinned-other-cid"
		if info.cid == c || info.to == c {
			// Pin/PinWithMode of an already pinned CID replaces the pin: ids "...-after-pin-<new>-of-<old>" are
			// reserved for a cut inside the replace window (old pin record deleted, new one not yet written);
			// a CID lost at any other cut gets a different id.
			id = "C23.still-pinned-after-" + zzvOpName[info.eff] + "-of-" + []string{"", "recursive", "direct"}[m0.mode[c]]
			if !(info.eff <= 1 && info.cid == c && zzvInReplaceWindow(st.log, base, cut)) {
				id += "-outside-replace-window"
			}
		}
		verifrt.Assert(id, err == nil && pinned)
	}
	// without a crash the operation's own outcome is what the model says
	if cut == total-base {
		for c := 0; c < n; c++ {
			_, pinned, err := p2.IsPinnedWithType(ctx, d.cids[c], ipfspinner.Recursive)
			verifrt.Assert(zzvLbl(m, c, "C23.complete-op-recursive"), err == nil && pinned == (m.mode[c] == zzvRec))
			_, pinned, err = p2.IsPinnedWithType(ctx, d.cids[c], ipfspinner.Direct)
			verifrt.Assert(zzvLbl(m, c, "C23.complete-op-direct"), err == nil && pinned == (m.mode[c] == zzvDir))
		}
		// and the store is marked clean (autosync): dirty flag 0 or absent
		v, err := store2.Get(ctx, dirtyKey)
		verifrt.Assert("C23.complete-op-clean", err == ds.ErrNotFound || (err == nil && len(v) == 1 && v[0] == 0))
	}
	verifrt.Reach("end")
}
