package gateway

import (
	"strings"

	"github.com/ipfs/boxo/internal/verifrt"
)

// zzwValidDNSName: labels are non-empty and neither start nor end with a hyphen (RFC 1123 host names).
// Written over the three byte classes that matter to the label encoding: '.', '-', anything else.
func zzwValidDNSName(p []byte) bool {
	n := len(p)
	if n == 0 {
		return false
	}
	if p[0] == '.' || p[0] == '-' || p[n-1] == '.' || p[n-1] == '-' {
		return false
	}
	for i := 0; i+1 < n; i++ {
		a, b := p[i], p[i+1]
		if a == '.' && (b == '.' || b == '-') {
			return false
		}
		if a == '-' && b == '.' {
			return false
		}
	}
	return true
}

// HarnessC32InlineRoundTrip: for every valid DNS name of 1..N bytes over {a, z, 1, '-', '.'}:
// InlineDNSLink succeeds (the label is far below 63 bytes), the label is a single DNS label of the specified
// length, and UninlineDNSLink returns the original name.
func HarnessC32InlineRoundTrip() {
	n := verifrt.NondetRange("n", 1, verifrt.Param("N", 6))
	p := verifrt.NondetBytes("fqdn", n)
	for i := range p {
		verifrt.Assume(verifrt.OneOf(p[i], "az1-."))
	}
	verifrt.Assume(zzwValidDNSName(p))
	fqdn := string(p)
	hy := 0
	for i := range p {
		if p[i] == '-' {
			hy++
		}
	}
	label, err := InlineDNSLink(fqdn)
	verifrt.Observe("err", err == nil)
	verifrt.Assert("C32.inline-short-name-accepted", err == nil)
	if err != nil {
		verifrt.Reach("end")
		return
	}
	verifrt.Observe("label", label)
	verifrt.Assert("C32.inline-label-length", len(label) == n+hy)
	verifrt.Assert("C32.inline-label-has-no-dot", !strings.Contains(label, "."))
	verifrt.Assert("C32.inline-label-no-edge-hyphen", label[0] != '-' && label[len(label)-1] != '-')
	back := UninlineDNSLink(label)
	verifrt.Observe("back", back)
	verifrt.Assert("C32.uninline-inverts-inline", back == fqdn)
	verifrt.Reach("end")
}

// HarnessC32LabelLimit: names of L0..L1 bytes whose ordinary bytes are symbolic (any byte except '-' and
// '.'), with k hyphens and d dots at fixed interior positions: InlineDNSLink succeeds exactly when the
// label (n + k bytes) fits the 63-byte DNS label limit, and then round-trips.
func HarnessC32LabelLimit() {
	n := verifrt.NondetRange("n", verifrt.Param("L0", 58), verifrt.Param("L1", 66))
	k := verifrt.NondetRange("hyphens", 0, verifrt.Param("K", 4))
	d := verifrt.NondetRange("dots", 0, 2)
	p := verifrt.NondetBytes("fqdn", n)
	// hyphens at 2, 5, 8, ...; dots at 20, 40
	isH := func(i int) bool { return i%3 == 2 && i/3 < k }
	isD := func(i int) bool { return (i == 20 && d >= 1) || (i == 40 && d >= 2) }
	for i := range p {
		switch {
		case isD(i):
			verifrt.Assume(p[i] == '.')
		case isH(i):
			verifrt.Assume(p[i] == '-')
		default:
			verifrt.Assume(p[i] != '-')
			verifrt.Assume(p[i] != '.')
		}
	}
	fqdn := string(p)
	label, err := InlineDNSLink(fqdn)
	verifrt.Observe("err", err == nil)
	fits := n+k <= 63
	verifrt.Assert("C32.inline-accepts-iff-label-fits-63", (err == nil) == fits)
	if err == nil {
		verifrt.Assert("C32.inline-label-at-most-63", len(label) <= 63)
		verifrt.Assert("C32.inline-label-length", len(label) == n+k)
		verifrt.Assert("C32.inline-label-has-no-dot", !strings.Contains(label, "."))
		verifrt.Assert("C32.uninline-inverts-inline", UninlineDNSLink(label) == fqdn)
	} else {
		verifrt.Assert("C32.inline-error-returns-no-label", label == "")
	}
	verifrt.Reach("end")
}
