package gateway

import (
	"bytes"
	"context"
	"errors"
	"net/http"
	"net/url"
	"strings"

	"github.com/ipfs/boxo/internal/verifrt"
	"github.com/ipfs/boxo/path"
	cid "github.com/ipfs/go-cid"
	"github.com/libp2p/go-libp2p/core/peer"
)

// zzwValidDNSName: labels are non-empty and neither start nor end with a hyphen (RFC 1123 host names).
// Written over the three byte classes that matter to the label encoding: '.', '-', anything else.
func zzwValidDNSName(p []byte) bool {
	n := len(p)
	if n == 0 {
		return false
	}
	if p[0] == '.' || p[0] == '-' || p[n-1] == '.' || p[n-1] == '-' {
		return false
	}
	for i := 0; i+1 < n; i++ {
		a, b := p[i], p[i+1]
		if a == '.' && (b == '.' || b == '-') {
			return false
		}
		if a == '-' && b == '.' {
			return false
		}
	}
	return true
}

// HarnessC32InlineRoundTrip: for every valid DNS name of 1..N bytes over {a, z, 1, '-', '.'}:
// InlineDNSLink succeeds (the label is far below 63 bytes), the label is a single DNS label of the specified
// length, and UninlineDNSLink returns the original name.
func HarnessC32InlineRoundTrip() {
	n := verifrt.NondetRange("n", 1, verifrt.Param("N", 6))
	p := verifrt.NondetBytes("fqdn", n)
	for i := range p {
		verifrt.Assume(verifrt.OneOf(p[i], "az1-."))
	}
	verifrt.Assume(zzwValidDNSName(p))
	fqdn := string(p)
	hy := 0
	for i := range p {
		if p[i] == '-' {
			hy++
		}
	}
	label, err := InlineDNSLink(fqdn)
	verifrt.Observe("err", err == nil)
	verifrt.Assert("C32.inline-short-name-accepted", err == nil)
	if err != nil {
		verifrt.Reach("end")
		return
	}
	verifrt.Observe("label", label)
	verifrt.Assert("C32.inline-label-length", len(label) == n+hy)
	verifrt.Assert("C32.inline-label-has-no-dot", !strings.Contains(label, "."))
	verifrt.Assert("C32.inline-label-no-edge-hyphen", label[0] != '-' && label[len(label)-1] != '-')
	back := UninlineDNSLink(label)
	verifrt.Observe("back", back)
	verifrt.Assert("C32.uninline-inverts-inline", back == fqdn)
	verifrt.Reach("end")
}

// HarnessC32LabelLimit: names of L0..L1 bytes whose ordinary bytes are symbolic (any byte except '-' and
// '.'), with k hyphens and d dots at fixed interior positions: InlineDNSLink succeeds exactly when the
// label (n + k bytes) fits the 63-byte DNS label limit, and then round-trips.
func HarnessC32LabelLimit() {
	n := verifrt.NondetRange("n", verifrt.Param("L0", 58), verifrt.Param("L1", 66))
	k := verifrt.NondetRange("hyphens", 0, verifrt.Param("K", 4))
	d := verifrt.NondetRange("dots", 0, 2)
	p := verifrt.NondetBytes("fqdn", n)
	// hyphens at 2, 5, 8, ...; dots at 20, 40
	isH := func(i int) bool { return i%3 == 2 && i/3 < k }
	isD := func(i int) bool { return (i == 20 && d >= 1) || (i == 40 && d >= 2) }
	for i := range p {
		switch {
		case isD(i):
			verifrt.Assume(p[i] == '.')
		case isH(i):
			verifrt.Assume(p[i] == '-')
		default:
			verifrt.Assume(p[i] != '-')
			verifrt.Assume(p[i] != '.')
		}
	}
	fqdn := string(p)
	label, err := InlineDNSLink(fqdn)
	verifrt.Observe("err", err == nil)
	fits := n+k <= 63
	verifrt.Assert("C32.inline-accepts-iff-label-fits-63", (err == nil) == fits)
	if err == nil {
		verifrt.Assert("C32.inline-label-at-most-63", len(label) <= 63)
		verifrt.Assert("C32.inline-label-length", len(label) == n+k)
		verifrt.Assert("C32.inline-label-has-no-dot", !strings.Contains(label, "."))
		verifrt.Assert("C32.uninline-inverts-inline", UninlineDNSLink(label) == fqdn)
	} else {
		verifrt.Assert("C32.inline-error-returns-no-label", label == "")
	}
	verifrt.Reach("end")
}

// ---------------------------------------------------------------------------------------------------
// Path request -> subdomain redirect -> subdomain request -> content path (NewHostnameHandler, both hops).
// ---------------------------------------------------------------------------------------------------

// zzwBackend answers DNSLink lookups from a fixed set of names; nothing else is used by the hostname handler.
type zzwBackend struct {
	IPFSBackend
	names map[string]bool
}

func (b *zzwBackend) GetDNSLinkRecord(ctx context.Context, name string) (path.Path, error) {
	if b.names[name] {
		return nil, nil
	}
	return nil, errors.New("no DNSLink record")
}

// zzwWebError stands in for gateway.webError (content negotiation, logging): only the status matters.
func zzwWebError(w http.ResponseWriter, r *http.Request, c *Config, err error, defaultCode int) {
	w.WriteHeader(defaultCode)
}

type zzwRW struct {
	h    http.Header
	code int
}

func (w *zzwRW) Header() http.Header { return w.h }
func (w *zzwRW) WriteHeader(c int) {
	if w.code == 0 {
		w.code = c
	}
}
func (w *zzwRW) Write(p []byte) (int, error) {
	if w.code == 0 {
		w.code = 200
	}
	return len(p), nil
}

// zzwNext records what the wrapped handler is given.
type zzwNext struct {
	calls    int
	path     string
	rawQuery string
	subdomGw string
	dnslink  string
	gwHost   string
}

func (n *zzwNext) ServeHTTP(w http.ResponseWriter, r *http.Request) {
	n.calls++
	n.path = r.URL.Path
	n.rawQuery = r.URL.RawQuery
	n.subdomGw, _ = r.Context().Value(SubdomainHostnameKey).(string)
	n.dnslink, _ = r.Context().Value(DNSLinkHostnameKey).(string)
	n.gwHost, _ = r.Context().Value(GatewayHostnameKey).(string)
	w.WriteHeader(200)
}

const (
	zzwKindCID     = iota // /ipfs/<cid>: identity = codec + multihash
	zzwKindPeer           // /ipns/<peer id or key cid>: identity = peer ID
	zzwKindDNSLink        // /ipns/<fqdn> with a DNSLink record: identity = the FQDN
	zzwKindTooLong        // a CID that has no 63-byte label: must be refused, never redirected
)

type zzwSample struct {
	kind int
	ns   string
	id   string
	fqdn string // DNSLink: the name the id stands for
}

var zzwPool = []zzwSample{
	{zzwKindCID, "ipfs", "QmbCMUZw6JFeZ7Wp9jkzbye3Fzp2GGcPgC3nmeUjfVF87n", ""},                                                                     // CIDv0
	{zzwKindCID, "ipfs", "bafybeif7a7gdklt6hodwdrmwmxnhksctcuav6lfxlcyfz4khzl3qfmvcgu", ""},                                                        // CIDv1 base32 dag-pb
	{zzwKindCID, "ipfs", "bafkqaglimvwgy3zakrsxg5cun5jxkyten5wwc2lokvjeycq", ""},                                                                   // CIDv1 raw, identity multihash
	{zzwKindCID, "ipfs", "zdj7WiHbqzzwmjFRppjtUicUMUbtD1Typ2XYWTKSSsQUvp2Hi", ""},                                                                  // CIDv1 base58btc
	{zzwKindPeer, "ipns", "QmY3hE8xgFCjGcz6PHgnvJz5HZi1BaKRfPkn1ghZUcYMjD", ""},                                                                    // RSA peer ID, base58 multihash
	{zzwKindPeer, "ipns", "12D3KooWFB51PRY9BxcXSH6khFXw1BZeszeLDy7C8GciskqCTZn5", ""},                                                              // ed25519 peer ID (identity multihash)
	{zzwKindPeer, "ipns", "bafybeickencdqw37dpz3ha36ewrh4undfjt2do52chtcky4rxkj447qhdm", ""},                                                       // key as CIDv1 with dag-pb codec
	{zzwKindPeer, "ipns", "bafzaajaiaejca4syrpdu6gdx4wsdnokxkprgzxf4wrstuc34gxw5k5jrag2so5gk", ""},                                                 // ed25519 key, CIDv1 libp2p-key base32 (65 bytes)
	{zzwKindPeer, "ipns", "k2k4r8n0flx3ra0y5dr8fmyvwbzy3eiztmtq6th694k5a3rznayp3e4o", ""},                                                          // already canonical
	{zzwKindDNSLink, "ipns", "dnslink.long-name.example.com", "dnslink.long-name.example.com"},                                                     // FQDN on the path
	{zzwKindDNSLink, "ipns", "dnslink-long--name-example-com", "dnslink.long-name.example.com"},                                                    // inlined FQDN on the path
	{zzwKindDNSLink, "ipns", "en.wikipedia-on-ipfs.org", "en.wikipedia-on-ipfs.org"},                                                               //
	{zzwKindTooLong, "ipfs", "bafkrgqe3ohjcjplc6n4f3fwunlj6upltggn7xqujbsvnvyw764srszz4u4rshq6ztos4chl4plgg4ffyyxnayrtdi5oc4xb2332g645433aeg", ""}, // sha2-512
}

// zzwSameRoot: does `got` (a root identifier taken from a rewritten path) name the same content as the sample?
func zzwSameRoot(s zzwSample, got string) bool {
	switch s.kind {
	case zzwKindCID:
		a, err1 := cid.Decode(s.id)
		b, err2 := cid.Decode(got)
		return err1 == nil && err2 == nil && a.Type() == b.Type() && bytes.Equal(a.Hash(), b.Hash())
	case zzwKindPeer:
		// the key's multihash; `got` must be a well-formed peer ID (base58 multihash or libp2p-key CID)
		var want []byte
		if a, err := peer.Decode(s.id); err == nil {
			want = []byte(a)
		} else if c, err := cid.Decode(s.id); err == nil {
			want = c.Hash()
		} else {
			return false
		}
		b, err := peer.Decode(got)
		return err == nil && bytes.Equal(want, []byte(b))
	case zzwKindDNSLink:
		return got == s.fqdn
	}
	return false
}

func zzwRequest(host, p, rawQuery string, https bool) *http.Request {
	r := &http.Request{Method: http.MethodHead, Host: host, Header: http.Header{}, URL: &url.URL{Path: p, RawQuery: rawQuery}}
	if https {
		r.Header.Set("X-Forwarded-Proto", "https")
	}
	return r
}

// HarnessC32Redirect: a path request for every sample x remainder x query x {http, https} x
// {InlineDNSLink off, on} against the subdomain gateway dweb.link: the redirect target is a subdomain URL whose
// first label fits 63 bytes; requesting that URL hands the wrapped handler a content path with the same
// namespace, the same root identity, the same remainder and the same query, without a further redirect.
func HarnessC32Redirect() {
	s := zzwPool[verifrt.NondetRange("sample", 0, len(zzwPool)-1)]
	inline := verifrt.NondetRange("inline", 0, 1) == 1
	https := verifrt.NondetRange("https", 0, 1) == 1
	nr := verifrt.NondetRange("restLen", 0, verifrt.Param("R", 2))
	rest := verifrt.NondetBytes("rest", nr)
	for i := range rest {
		verifrt.Assume(verifrt.OneOf(rest[i], "a/ %"))
	}
	if nr > 0 {
		// "/ns/root//x": the empty first segment of the remainder is dropped by the redirect (URL.Path = "/x");
		// the content path is the same after path cleaning, the literal remainder is not claimed here
		verifrt.Assume(rest[0] != '/')
	}
	nq := verifrt.NondetRange("queryLen", 0, verifrt.Param("Q", 1))
	query := verifrt.NondetBytes("query", nq)
	for i := range query {
		verifrt.Assume(verifrt.OneOf(query[i], "a=&"))
	}
	hasSlash := nr > 0 || verifrt.NondetRange("trailingSlash", 0, 1) == 1

	backend := &zzwBackend{names: map[string]bool{"dnslink.long-name.example.com": true, "en.wikipedia-on-ipfs.org": true}}
	c := Config{PublicGateways: map[string]*PublicGateway{
		"dweb.link": {Paths: []string{"/ipfs", "/ipns"}, UseSubdomains: true, InlineDNSLink: inline},
	}}
	next := &zzwNext{}
	h := NewHostnameHandler(c, backend, next)

	// hop 1: path request on the gateway host
	p := "/" + s.ns + "/" + s.id
	remainder := ""
	if hasSlash {
		remainder = "/" + string(rest)
	}
	w1 := &zzwRW{h: http.Header{}}
	h(w1, zzwRequest("dweb.link", p+remainder, string(query), https))
	verifrt.Observe("code1", w1.code)
	loc := headerGetExact(w1.h, "Location")
	verifrt.Observe("location", loc)

	if s.kind == zzwKindTooLong {
		verifrt.Assert("C32.no-redirect-without-a-63-byte-label", w1.code != http.StatusMovedPermanently && next.calls == 0)
		verifrt.Reach("end")
		return
	}
	verifrt.Assert("C32.path-request-is-redirected-to-subdomain", w1.code == http.StatusMovedPermanently && next.calls == 0 && loc != "")
	if w1.code != http.StatusMovedPermanently || loc == "" {
		verifrt.Reach("end")
		return
	}
	u, err := url.Parse(loc)
	verifrt.Assert("C32.location-parses", err == nil)
	if err != nil {
		verifrt.Reach("end")
		return
	}
	wantScheme := "http"
	if https {
		wantScheme = "https"
	}
	verifrt.Assert("C32.location-scheme", u.Scheme == wantScheme)
	suffix := "." + s.ns + ".dweb.link"
	verifrt.Assert("C32.location-host-is-root.ns.gateway", strings.HasSuffix(u.Host, suffix) && len(u.Host) > len(suffix))
	if !strings.HasSuffix(u.Host, suffix) {
		verifrt.Reach("end")
		return
	}
	root := strings.TrimSuffix(u.Host, suffix)
	labels := strings.Split(root, ".")
	for _, l := range labels {
		verifrt.Assert("C32.every-label-fits-63", len(l) >= 1 && len(l) <= 63)
	}
	if s.kind != zzwKindDNSLink || inline || https {
		verifrt.Assert("C32.root-is-a-single-label", len(labels) == 1)
	}
	if s.kind == zzwKindDNSLink {
		if len(labels) == 1 {
			verifrt.Assert("C32.redirect-root-names-same-content", UninlineDNSLink(root) == s.fqdn)
		} else {
			verifrt.Assert("C32.redirect-root-names-same-content", root == s.fqdn)
		}
	} else {
		verifrt.Assert("C32.redirect-root-names-same-content", zzwSameRoot(s, root))
	}
	verifrt.Assert("C32.redirect-preserves-query", u.RawQuery == string(query))

	// hop 2: the subdomain request
	w2 := &zzwRW{h: http.Header{}}
	h(w2, zzwRequest(u.Host, u.Path, u.RawQuery, https))
	verifrt.Observe("code2", w2.code)
	verifrt.Observe("path2", next.path)
	verifrt.Assert("C32.subdomain-request-reaches-handler", next.calls == 1 && w2.code == 200)
	if next.calls != 1 {
		verifrt.Reach("end")
		return
	}
	verifrt.Assert("C32.subdomain-context-names-gateway", next.subdomGw == "dweb.link")
	got := next.path
	prefix := "/" + s.ns + "/"
	verifrt.Assert("C32.rewritten-path-keeps-namespace", strings.HasPrefix(got, prefix))
	if !strings.HasPrefix(got, prefix) {
		verifrt.Reach("end")
		return
	}
	gotRoot, gotRem, _ := strings.Cut(got[len(prefix):], "/")
	verifrt.Assert("C32.rewritten-path-names-same-content", zzwSameRoot(s, gotRoot))
	wantRem := string(rest) // "/" + rest, with Cut having consumed the slash
	verifrt.Assert("C32.rewritten-path-keeps-remainder", gotRem == wantRem)
	verifrt.Assert("C32.rewritten-request-keeps-query", next.rawQuery == string(query))
	verifrt.Reach("end")
}

// zzwTail draws a short symbolic remainder ("/"+rest or "") and query.
func zzwTail() (remainder, rest, query string) {
	nr := verifrt.NondetRange("restLen", 0, verifrt.Param("R", 2))
	rb := verifrt.NondetBytes("rest", nr)
	for i := range rb {
		verifrt.Assume(verifrt.OneOf(rb[i], "a/ %"))
	}
	if nr > 0 {
		verifrt.Assume(rb[0] != '/')
	}
	nq := verifrt.NondetRange("queryLen", 0, verifrt.Param("Q", 1))
	qb := verifrt.NondetBytes("query", nq)
	for i := range qb {
		verifrt.Assume(verifrt.OneOf(qb[i], "a=&"))
	}
	return "/" + string(rb), string(rb), string(qb)
}

// HarnessC32HostToPath: the other routes of NewHostnameHandler. Each case states which content path the wrapped
// handler must see (or that nothing may be served) for a symbolic remainder and query.
func HarnessC32HostToPath() {
	remainder, rest, query := zzwTail()
	backend := &zzwBackend{names: map[string]bool{"dnslink.long-name.example.com": true, "en.wikipedia-on-ipfs.org": true, "my-site": true}}
	c := Config{PublicGateways: map[string]*PublicGateway{
		"dweb.link":                     {Paths: []string{"/ipfs", "/ipns"}, UseSubdomains: true},
		"ipfs.io":                       {Paths: []string{"/ipfs", "/ipns"}, UseSubdomains: false},
		"dnslink.long-name.example.com": {Paths: []string{"/ipfs"}, NoDNSLink: false},
		"nodnslink.example.com":         {Paths: []string{"/ipfs"}, NoDNSLink: true},
	}}
	next := &zzwNext{}
	h := NewHostnameHandler(c, backend, next)
	w := &zzwRW{h: http.Header{}}
	cidPath := "/ipfs/bafybeif7a7gdklt6hodwdrmwmxnhksctcuav6lfxlcyfz4khzl3qfmvcgu"

	switch verifrt.NondetRange("case", 0, 10) {
	case 0: // path gateway without subdomains: the request passes through untouched
		h(w, zzwRequest("ipfs.io", cidPath+remainder, query, false))
		verifrt.Assert("C32.path-gateway-passes-request-through", next.calls == 1 && w.code == 200 && next.path == cidPath+remainder && next.rawQuery == query)
		verifrt.Assert("C32.path-gateway-no-dnslink-context", next.dnslink == "" && next.subdomGw == "")
	case 1: // DNSLink host that is no configured gateway
		h(w, zzwRequest("en.wikipedia-on-ipfs.org", remainder, query, false))
		verifrt.Assert("C32.dnslink-host-maps-to-ipns-name", next.calls == 1 && next.path == "/ipns/en.wikipedia-on-ipfs.org"+remainder && next.rawQuery == query)
		verifrt.Assert("C32.dnslink-context-names-host", next.dnslink == "en.wikipedia-on-ipfs.org")
	case 2: // the same with a port in Host
		h(w, zzwRequest("en.wikipedia-on-ipfs.org:8080", remainder, query, false))
		verifrt.Assert("C32.dnslink-host-maps-to-ipns-name", next.calls == 1 && next.path == "/ipns/en.wikipedia-on-ipfs.org"+remainder && next.rawQuery == query)
	case 3: // configured gateway host, path outside its Paths, DNSLink present
		h(w, zzwRequest("dnslink.long-name.example.com", remainder, query, false))
		verifrt.Assert("C32.dnslink-host-maps-to-ipns-name", next.calls == 1 && next.path == "/ipns/dnslink.long-name.example.com"+remainder && next.rawQuery == query)
	case 4: // configured gateway host with NoDNSLink: nothing outside Paths exists
		h(w, zzwRequest("nodnslink.example.com", remainder, query, false))
		verifrt.Assert("C32.nodnslink-host-serves-nothing-outside-paths", next.calls == 0 && w.code == http.StatusNotFound)
	case 5: // subdomain-style host on a gateway that does not use subdomains: not a gateway route; the
		// host has no DNSLink record either, so the request reaches the handler unchanged
		h(w, zzwRequest("bafybeif7a7gdklt6hodwdrmwmxnhksctcuav6lfxlcyfz4khzl3qfmvcgu.ipfs.ipfs.io", remainder, query, false))
		verifrt.Assert("C32.subdomain-host-on-path-gateway-is-not-content", w.code == http.StatusNotFound && next.calls == 0)
	case 6: // X-Forwarded-Host names the subdomain gateway
		r := zzwRequest("backend.internal:8080", cidPath+remainder, query, false)
		r.Header.Set("X-Forwarded-Host", "dweb.link")
		h(w, r)
		loc := headerGetExact(w.h, "Location")
		verifrt.Observe("location", loc)
		verifrt.Assert("C32.forwarded-host-path-request-is-redirected", w.code == http.StatusMovedPermanently && next.calls == 0)
		u, err := url.Parse(loc)
		if err == nil {
			verifrt.Assert("C32.forwarded-host-redirect-target", u.Host == "bafybeif7a7gdklt6hodwdrmwmxnhksctcuav6lfxlcyfz4khzl3qfmvcgu.ipfs.dweb.link" && u.Path == "/"+rest && u.RawQuery == query)
		} else {
			verifrt.Assert("C32.location-parses", false)
		}
	case 7: // subdomain request whose root is not in canonical DNS form: either redirected to a canonical label
		// or served as it is; in both cases the same content, remainder and query
		var s zzwSample
		switch verifrt.NondetRange("noncanon", 0, 2) {
		case 0:
			s = zzwPool[3] // CIDv1 base58btc
		case 1:
			s = zzwPool[6] // key as CIDv1 with dag-pb codec
		case 2:
			s = zzwPool[7] // ed25519 key as base32 CIDv1: 65 bytes, over the label limit
		}
		h(w, zzwRequest(s.id+"."+s.ns+".dweb.link", remainder, query, false))
		loc := headerGetExact(w.h, "Location")
		verifrt.Observe("location", loc)
		verifrt.Assert("C32.subdomain-request-redirected-or-served", (w.code == http.StatusMovedPermanently && next.calls == 0) || (w.code == 200 && next.calls == 1))
		if w.code == http.StatusMovedPermanently {
			u, err := url.Parse(loc)
			if err != nil {
				verifrt.Assert("C32.location-parses", false)
				break
			}
			suffix := "." + s.ns + ".dweb.link"
			verifrt.Assert("C32.location-host-is-root.ns.gateway", strings.HasSuffix(u.Host, suffix))
			root := strings.TrimSuffix(u.Host, suffix)
			verifrt.Assert("C32.every-label-fits-63", len(root) >= 1 && len(root) <= 63 && !strings.Contains(root, "."))
			verifrt.Assert("C32.redirect-root-names-same-content", zzwSameRoot(s, root))
			verifrt.Assert("C32.redirect-keeps-remainder", u.Path == "/"+rest)
			verifrt.Assert("C32.redirect-preserves-query", u.RawQuery == query)
		} else if next.calls == 1 {
			prefix := "/" + s.ns + "/"
			verifrt.Assert("C32.rewritten-path-keeps-namespace", strings.HasPrefix(next.path, prefix))
			if strings.HasPrefix(next.path, prefix) {
				gotRoot, gotRem, _ := strings.Cut(next.path[len(prefix):], "/")
				verifrt.Assert("C32.rewritten-path-names-same-content", zzwSameRoot(s, gotRoot))
				verifrt.Assert("C32.rewritten-path-keeps-remainder", gotRem == rest)
				verifrt.Assert("C32.rewritten-request-keeps-query", next.rawQuery == query)
				verifrt.Assert("C32.served-label-fits-63", len(gotRoot) <= 63)
			}
		}
	case 8: // a single-label DNSLink name that contains a hyphen and has a record of its own ("my-site"), while
		// its un-inlined reading ("my.site") has none: the subdomain names "my-site"
		h(w, zzwRequest("my-site.ipns.dweb.link", remainder, query, false))
		verifrt.Assert("C32.hyphenated-single-label-dnslink-kept", next.calls == 1 && next.path == "/ipns/my-site"+remainder && next.rawQuery == query)
	case 9: // inlined label whose un-inlined name has the record: mapped to the FQDN
		h(w, zzwRequest("en-wikipedia--on--ipfs-org.ipns.dweb.link", remainder, query, false))
		verifrt.Assert("C32.inlined-subdomain-maps-to-fqdn", next.calls == 1 && next.path == "/ipns/en.wikipedia-on-ipfs.org"+remainder && next.rawQuery == query)
	case 10: // neither reading has a record: the request still reaches the handler under /ipns/ with one of
		// the two readings of the label (the un-inlined one is documented), remainder and query kept
		h(w, zzwRequest("no-record.ipns.dweb.link", remainder, query, false))
		verifrt.Assert("C32.unknown-inlined-label-keeps-a-reading", next.calls == 1 && (next.path == "/ipns/no.record"+remainder || next.path == "/ipns/no-record"+remainder) && next.rawQuery == query)
	}
	verifrt.Observe("code", w.code)
	verifrt.Observe("nextPath", next.path)
	verifrt.Reach("end")
}

// ---------------------------------------------------------------------------------------------------
// DNSLink names with symbolic bytes and a symbolic set of DNSLink records.
// ---------------------------------------------------------------------------------------------------

// zzwRecBackend answers DNSLink lookups from a list of (name, has-record) pairs; names and flags may be symbolic.
type zzwRecBackend struct {
	IPFSBackend
	names []string
	recs  []bool
}

func (b *zzwRecBackend) GetDNSLinkRecord(ctx context.Context, name string) (path.Path, error) {
	for i, n := range b.names {
		if n == name {
			if b.recs[i] {
				return nil, nil
			}
			break
		}
	}
	return nil, errors.New("no DNSLink record")
}

// zzwSymName: a valid DNS name of lo..hi bytes over {a, y, '-', '.'} (no byte that starts a multibase or
// base58 peer-ID spelling, so the name is never a CID or peer ID).
func zzwSymName(tag string, lo, hi int) []byte {
	n := verifrt.NondetRange(tag+"Len", lo, hi)
	p := verifrt.NondetBytes(tag, n)
	for i := range p {
		verifrt.Assume(verifrt.OneOf(p[i], "ay-."))
	}
	verifrt.Assume(zzwValidDNSName(p))
	return p
}

// zzwRefUninline / zzwRefInline: the label encoding as the subdomain gateway specification words it
// ("--" stands for '-', a single '-' stands for '.'), written independently of hostname.go.
func zzwRefUninline(label []byte) string {
	var out []byte
	for i := 0; i < len(label); i++ {
		switch {
		case label[i] != '-':
			out = append(out, label[i])
		case i+1 < len(label) && label[i+1] == '-':
			out = append(out, '-')
			i++
		default:
			out = append(out, '.')
		}
	}
	return string(out)
}

func zzwRefInline(fqdn []byte) string {
	var out []byte
	for _, c := range fqdn {
		switch c {
		case '-':
			out = append(out, '-', '-')
		case '.':
			out = append(out, '-')
		default:
			out = append(out, c)
		}
	}
	return string(out)
}

func zzwHas(p []byte, c byte) bool {
	for _, x := range p {
		if x == c {
			return true
		}
	}
	return false
}

// HarnessC32DNSLinkNames: /ipns/<name> for a symbolic valid DNS name (single labels with and without hyphens,
// double hyphens, dotted names) against a subdomain gateway, with the set of names that have a DNSLink record
// as an input: the name itself yes/no x its other spelling yes/no (other spelling = the un-inlined reading of a
// hyphenated single label, or the inlined label of a dotted name). Either the path request (followed through the
// 301 to the subdomain host) or the subdomain host directly. The content path the wrapped handler finally sees
// must name the DNSLink name of the request:
//   - a dotted name or a label without hyphen stands for itself, whatever records exist;
//   - a hyphenated single label stands for itself or for its un-inlined reading; when exactly one of the two has
//     a record, for that one.
func HarnessC32DNSLinkNames() {
	p := zzwSymName("name", verifrt.Param("D0", 1), verifrt.Param("D", 5))
	name := string(p)
	dotted := zzwHas(p, '.')
	hyph := zzwHas(p, '-')
	recSelf := verifrt.NondetBool("recSelf")
	recOther := verifrt.NondetBool("recOther")
	other := ""
	switch {
	case dotted:
		other = zzwRefInline(p)
	case hyph:
		other = zzwRefUninline(p)
	}
	verifrt.Observe("name", name)
	verifrt.Observe("other", other)
	backend := &zzwRecBackend{names: []string{name}, recs: []bool{recSelf}}
	if other != "" {
		backend.names = append(backend.names, other)
		backend.recs = append(backend.recs, recOther)
	}
	// a label with a double hyphen (a--y): its un-inlined reading (a-y) is again a hyphenated single label, whose own
	// un-inlined reading (a.y) is a third name. Param T3=1 makes "the third name has a record" an input as well.
	recThird := false
	if verifrt.Param("T3", 0) == 1 && !dotted && hyph && !strings.Contains(other, ".") && strings.Contains(other, "-") {
		recThird = verifrt.NondetBool("recThird")
		backend.names = append(backend.names, zzwRefUninline([]byte(other)))
		backend.recs = append(backend.recs, recThird)
	}
	inline := verifrt.NondetRange("inline", 0, 1) == 1
	https := verifrt.NondetRange("https", 0, 1) == 1
	direct := verifrt.NondetRange("direct", 0, 1) == 1
	const remainder, query = "/p/q r", "k=v&x"

	c := Config{PublicGateways: map[string]*PublicGateway{
		"dweb.link": {Paths: []string{"/ipfs", "/ipns"}, UseSubdomains: true, InlineDNSLink: inline},
	}}
	next := &zzwNext{}
	h := NewHostnameHandler(c, backend, next)

	host2, path2, query2 := name+".ipns.dweb.link", remainder, query
	if !direct {
		w1 := &zzwRW{h: http.Header{}}
		h(w1, zzwRequest("dweb.link", "/ipns/"+name+remainder, query, https))
		verifrt.Observe("code1", w1.code)
		loc := headerGetExact(w1.h, "Location")
		verifrt.Observe("location", loc)
		verifrt.Assert("C32.dnslink-path-request-redirected-or-served",
			(w1.code == http.StatusMovedPermanently && next.calls == 0 && loc != "") || (w1.code == 200 && next.calls == 1))
		if w1.code == http.StatusMovedPermanently && loc != "" {
			u, err := url.Parse(loc)
			verifrt.Assert("C32.location-parses", err == nil)
			if err != nil {
				verifrt.Reach("end")
				return
			}
			suffix := ".ipns.dweb.link"
			verifrt.Assert("C32.location-host-is-root.ns.gateway", strings.HasSuffix(u.Host, suffix) && len(u.Host) > len(suffix))
			for _, l := range strings.Split(u.Host, ".") {
				verifrt.Assert("C32.every-label-fits-63", len(l) >= 1 && len(l) <= 63)
			}
			verifrt.Assert("C32.redirect-preserves-query", u.RawQuery == query)
			host2, path2, query2 = u.Host, u.Path, u.RawQuery
		} else {
			host2 = ""
		}
	}
	if host2 != "" {
		w2 := &zzwRW{h: http.Header{}}
		h(w2, zzwRequest(host2, path2, query2, https))
		verifrt.Observe("code2", w2.code)
		verifrt.Assert("C32.subdomain-request-reaches-handler", next.calls == 1 && w2.code == 200)
		if next.calls == 1 {
			verifrt.Assert("C32.subdomain-context-names-gateway", next.subdomGw == "dweb.link")
		}
	}
	if next.calls != 1 {
		verifrt.Reach("end")
		return
	}
	got := next.path
	verifrt.Observe("path2", got)
	verifrt.Assert("C32.rewritten-path-keeps-namespace", strings.HasPrefix(got, "/ipns/"))
	if !strings.HasPrefix(got, "/ipns/") {
		verifrt.Reach("end")
		return
	}
	gotRoot, gotRem, _ := strings.Cut(got[len("/ipns/"):], "/")
	if dotted || !hyph {
		verifrt.Assert("C32.dnslink-name-stands-for-itself", gotRoot == name)
	} else {
		isSelf, isOther := gotRoot == name, gotRoot == other
		if recThird {
			verifrt.Assert("C32.hyphenated-label-keeps-a-reading-when-third-name-has-record", isSelf || isOther)
		} else {
			verifrt.Assert("C32.hyphenated-label-keeps-a-reading", isSelf || isOther)
		}
		if recSelf && !recOther {
			verifrt.Assert("C32.hyphenated-label-with-own-record-kept", isSelf)
		}
		if recOther && !recSelf {
			verifrt.Assert("C32.inlined-label-maps-to-fqdn-with-record", isOther)
		}
	}
	verifrt.Assert("C32.rewritten-path-keeps-remainder", "/"+gotRem == remainder)
	verifrt.Assert("C32.rewritten-request-keeps-query", next.rawQuery == query)
	verifrt.Reach("end")
}

// ---------------------------------------------------------------------------------------------------
// Host / X-Forwarded-Host: the effective host decides, in every branch of the handler.
// ---------------------------------------------------------------------------------------------------

// zzwCheckSubdomainOutcome: a subdomain request for sample s on gateway host gwHost (with its port, if any) was either redirected to a canonical label of the
// same content or served with a content path of the same content; remainder and query kept.
func zzwCheckSubdomainOutcome(s zzwSample, gwHost string, w *zzwRW, next *zzwNext, rest, query string) {
	loc := headerGetExact(w.h, "Location")
	verifrt.Observe("location", loc)
	verifrt.Assert("C32.subdomain-request-redirected-or-served", (w.code == http.StatusMovedPermanently && next.calls == 0) || (w.code == 200 && next.calls == 1))
	if w.code == http.StatusMovedPermanently {
		u, err := url.Parse(loc)
		if err != nil {
			verifrt.Assert("C32.location-parses", false)
			return
		}
		suffix := "." + s.ns + "." + gwHost
		verifrt.Assert("C32.location-host-is-root.ns.gateway", strings.HasSuffix(u.Host, suffix))
		root := strings.TrimSuffix(u.Host, suffix)
		verifrt.Assert("C32.every-label-fits-63", len(root) >= 1 && len(root) <= 63 && !strings.Contains(root, "."))
		if s.kind == zzwKindDNSLink {
			verifrt.Assert("C32.redirect-root-names-same-content", root == s.fqdn || UninlineDNSLink(root) == s.fqdn)
		} else {
			verifrt.Assert("C32.redirect-root-names-same-content", zzwSameRoot(s, root))
		}
		verifrt.Assert("C32.redirect-keeps-remainder", u.Path == "/"+rest)
		verifrt.Assert("C32.redirect-preserves-query", u.RawQuery == query)
	} else if next.calls == 1 {
		verifrt.Assert("C32.subdomain-context-names-gateway", next.subdomGw == gwHost || next.subdomGw == "dweb.link")
		prefix := "/" + s.ns + "/"
		verifrt.Assert("C32.rewritten-path-keeps-namespace", strings.HasPrefix(next.path, prefix))
		if strings.HasPrefix(next.path, prefix) {
			gotRoot, gotRem, _ := strings.Cut(next.path[len(prefix):], "/")
			verifrt.Assert("C32.rewritten-path-names-same-content", zzwSameRoot(s, gotRoot))
			verifrt.Assert("C32.rewritten-path-keeps-remainder", gotRem == rest)
			verifrt.Assert("C32.rewritten-request-keeps-query", next.rawQuery == query)
			verifrt.Assert("C32.served-label-fits-63", len(gotRoot) <= 63)
		}
	}
}

// HarnessC32ForwardedHost: the host a client asked for is X-Forwarded-Host when a reverse proxy supplies it,
// otherwise Host. Input: the branch of the handler the effective host selects (wildcard DNSLink host with symbolic
// name bytes / configured gateway host outside its Paths / subdomain host / path request on the subdomain gateway /
// path request on a path gateway), X-Forwarded-Host absent / equal to
// Host / present with Host naming something else (another symbolic DNS name, the subdomain gateway itself, or a
// subdomain host of other content), an optional port on either, and a DNSLink record yes/no for the effective
// host and for the other name. The content path handed on names the effective host's content and agrees with
// DNSLinkHostnameKey.
func HarnessC32ForwardedHost() {
	branch := verifrt.NondetRange("branch", 0, 4)
	mode := verifrt.NondetRange("xfh", 0, 2)
	recE := verifrt.NondetBool("recEffective")
	recO := verifrt.NondetBool("recOther")
	remainder, rest, query := zzwTail()

	port := func(tag string) string {
		if verifrt.NondetRange(tag, 0, 1) == 1 {
			return ":8080"
		}
		return ""
	}
	// effective host
	var effName string
	var sample zzwSample
	switch branch {
	case 0:
		effName = string(zzwSymName("eff", 3, verifrt.Param("W", 4)))
	case 1:
		effName = "gw.example.com"
	case 2:
		switch verifrt.NondetRange("sample", 0, 2) {
		case 0:
			sample = zzwPool[1] // CIDv1 base32
		case 1:
			sample = zzwPool[8] // libp2p-key base36
		case 2:
			sample = zzwSample{zzwKindDNSLink, "ipns", "en-wikipedia--on--ipfs-org", "en.wikipedia-on-ipfs.org"}
		}
		effName = sample.id + "." + sample.ns + ".dweb.link"
	case 3: // path request on the subdomain gateway
		effName = "dweb.link"
	case 4: // path request on a gateway without subdomains
		effName = "gw.example.com"
	}
	const cidID = "bafybeif7a7gdklt6hodwdrmwmxnhksctcuav6lfxlcyfz4khzl3qfmvcgu"
	reqPath := remainder
	if branch >= 3 {
		reqPath = "/ipfs/" + cidID + remainder
	}
	effPort := port("effPort")
	eff := effName + effPort
	// the other name (used as Host when X-Forwarded-Host overrides it)
	otherName := ""
	other := ""
	if mode == 2 {
		switch verifrt.NondetRange("otherKind", 0, 2) {
		case 0:
			otherName = string(zzwSymName("oth", 3, verifrt.Param("W", 4)))
			verifrt.Assume(otherName != effName)
		case 1:
			otherName = "dweb.link"
			verifrt.Assume(branch != 3)
		case 2:
			otherName = "bafkqaglimvwgy3zakrsxg5cun5jxkyten5wwc2lokvjeycq.ipfs.dweb.link"
		}
		other = otherName + port("othPort")
	}
	verifrt.Observe("eff", eff)
	verifrt.Observe("other", other)

	backend := &zzwRecBackend{names: []string{effName}, recs: []bool{recE}}
	if otherName != "" {
		backend.names = append(backend.names, otherName)
		backend.recs = append(backend.recs, recO)
	}
	if sample.kind == zzwKindDNSLink {
		backend.names = append(backend.names, sample.fqdn)
		backend.recs = append(backend.recs, true)
	}
	c := Config{PublicGateways: map[string]*PublicGateway{
		"dweb.link":      {Paths: []string{"/ipfs", "/ipns"}, UseSubdomains: true},
		"gw.example.com": {Paths: []string{"/ipfs"}},
	}}
	next := &zzwNext{}
	h := NewHostnameHandler(c, backend, next)
	w := &zzwRW{h: http.Header{}}
	var r *http.Request
	switch mode {
	case 0:
		r = zzwRequest(eff, reqPath, query, false)
	case 1:
		r = zzwRequest(eff, reqPath, query, false)
		r.Header.Set("X-Forwarded-Host", eff)
	case 2:
		r = zzwRequest(other, reqPath, query, false)
		r.Header.Set("X-Forwarded-Host", eff)
	}
	h(w, r)
	verifrt.Observe("code", w.code)
	verifrt.Observe("nextPath", next.path)
	verifrt.Observe("dnslink", next.dnslink)

	ctxOK := (next.dnslink == eff || next.dnslink == effName) && (next.gwHost == eff || next.gwHost == effName)
	switch branch {
	case 0:
		verifrt.Assert("C32.wildcard-host-request-reaches-handler", next.calls == 1 && w.code == 200 && next.rawQuery == query)
		if recE {
			verifrt.Assert("C32.dnslink-host-maps-to-effective-host-name", next.path == "/ipns/"+effName+remainder)
			verifrt.Assert("C32.dnslink-context-names-effective-host", ctxOK)
		} else {
			verifrt.Assert("C32.host-without-record-is-not-rewritten", next.path == remainder && next.dnslink == "")
		}
	case 1:
		if recE {
			verifrt.Assert("C32.gateway-host-dnslink-reaches-handler", next.calls == 1 && w.code == 200 && next.rawQuery == query)
			verifrt.Assert("C32.dnslink-host-maps-to-effective-host-name", next.path == "/ipns/"+effName+remainder)
			verifrt.Assert("C32.dnslink-context-names-effective-host", ctxOK)
		} else {
			verifrt.Assert("C32.gateway-host-serves-nothing-outside-paths", next.calls == 0 && w.code == http.StatusNotFound)
		}
	case 2:
		zzwCheckSubdomainOutcome(sample, "dweb.link"+effPort, w, next, rest, query)
		verifrt.Assert("C32.subdomain-host-has-no-dnslink-context", next.dnslink == "")
	case 3:
		loc := headerGetExact(w.h, "Location")
		verifrt.Observe("location", loc)
		verifrt.Assert("C32.forwarded-host-path-request-is-redirected", w.code == http.StatusMovedPermanently && next.calls == 0)
		u, err := url.Parse(loc)
		verifrt.Assert("C32.location-parses", err == nil)
		if err == nil {
			verifrt.Assert("C32.forwarded-host-redirect-target", u.Host == cidID+".ipfs."+eff && u.Path == "/"+rest && u.RawQuery == query)
		}
	case 4:
		verifrt.Assert("C32.path-gateway-passes-request-through", next.calls == 1 && w.code == 200 && next.path == reqPath && next.rawQuery == query)
		verifrt.Assert("C32.path-gateway-no-dnslink-context", next.dnslink == "" && next.subdomGw == "")
		verifrt.Assert("C32.path-gateway-context-names-effective-host", next.gwHost == eff || next.gwHost == effName)
	}
	verifrt.Reach("end")
}
