package ipns

import (
	"strings"

	"github.com/ipfs/boxo/internal/verifrt"
	"github.com/ipfs/boxo/path"
	"github.com/ipfs/go-cid"
	"github.com/libp2p/go-libp2p/core/peer"
	mh "github.com/multiformats/go-multihash"
)

const zzvCid = "bafkqaaa" // identity CIDv1 (raw), decodes without hashing

func zzvSegmentsOK(id string, segs []string) {
	for _, s := range segs {
		verifrt.Assert("C28."+id+".no-empty-segment", s != "")
		verifrt.Assert("C28."+id+".no-dot-segment", s != "." && s != "..")
		verifrt.Assert("C28."+id+".no-slash-in-segment", !strings.Contains(s, "/"))
	}
}

func zzvSameStrings(a, b []string) bool {
	if len(a) != len(b) {
		return false
	}
	for i := range a {
		if a[i] != b[i] {
			return false
		}
	}
	return true
}

// zzvCheckPath: properties of an accepted path p parsed from any text.
func zzvCheckPath(id string, p path.Path) {
	str := p.String()
	segs := p.Segments()
	verifrt.Assert("C28."+id+".at-least-two-segments", len(segs) >= 2)
	if len(segs) < 2 {
		return
	}
	zzvSegmentsOK(id, segs)
	verifrt.Assert("C28."+id+".namespace-is-first-segment", segs[0] == p.Namespace())
	verifrt.Assert("C28."+id+".namespace-known", p.Namespace() == "ipfs" || p.Namespace() == "ipns" || p.Namespace() == "ipld")
	verifrt.Assert("C28."+id+".mutable-iff-ipns", p.Mutable() == (p.Namespace() == "ipns"))
	// the printed form is canonical: it is exactly "/" + segments joined by "/" (+ optional trailing slash)
	canon := "/" + strings.Join(segs, "/")
	verifrt.Assert("C28."+id+".printed-is-canonical", str == canon || str == canon+"/")
	// idempotence
	p2, err := path.NewPath(str)
	verifrt.Assert("C28."+id+".reparse-accepted", err == nil)
	if err != nil {
		return
	}
	verifrt.Assert("C28."+id+".reparse-same-string", p2.String() == str)
	verifrt.Assert("C28."+id+".reparse-same-namespace", p2.Namespace() == p.Namespace())
	verifrt.Assert("C28."+id+".reparse-same-segments", zzvSameStrings(p2.Segments(), segs))
	if ip, ok := p.(path.ImmutablePath); ok {
		ip2, ok2 := p2.(path.ImmutablePath)
		verifrt.Assert("C28."+id+".reparse-immutable", ok2)
		if ok2 {
			verifrt.Assert("C28."+id+".reparse-same-root", ip.RootCid().Equals(ip2.RootCid()))
		}
		c, derr := cid.Decode(segs[1])
		verifrt.Assert("C28."+id+".root-cid-is-second-segment", derr == nil && c.Equals(ip.RootCid()))
	}
	// rebuilding from segments gives the same path (without the trailing slash)
	p3, err := path.NewPathFromSegments(segs...)
	verifrt.Assert("C28."+id+".from-segments-accepted", err == nil)
	if err == nil {
		verifrt.Assert("C28."+id+".from-segments-same", p3.String() == canon)
	}
}

// HarnessC28Path: head (namespace + root) from a pool, followed by a symbolic tail over {'/', '.', 'a'}.
func HarnessC28Path() {
	heads := []string{"/ipfs/" + zzvCid, "/ipld/" + zzvCid, "/ipns/a", "/ipns/", "/ipns", "/", "", "/x/a", "//ipfs//" + zzvCid, "/ipfs/./" + zzvCid, "/ipns/a/../b", "/ipfs"}
	head := heads[verifrt.NondetRange("head", 0, len(heads)-1)]
	n := verifrt.NondetRange("n", 0, verifrt.Param("N", 5))
	tail := verifrt.NondetBytes("t", n)
	for i := range tail {
		verifrt.Assume(verifrt.OneOf(tail[i], "/.a"))
	}
	s := head + string(tail)
	p, err := path.NewPath(s)
	verifrt.Observe("accepted", err == nil)
	if err != nil {
		verifrt.Reach("end")
		return
	}
	verifrt.Observe("str", p.String())
	verifrt.Assert("C28.path.input-absolute", strings.HasPrefix(s, "/"))
	zzvCheckPath("path", p)
	// trailing slash preserved exactly when the input had one
	verifrt.Assert("C28.path.trailing-slash-preserved", strings.HasSuffix(p.String(), "/") == strings.HasSuffix(s, "/"))
	verifrt.Reach("end")
}

// HarnessC28URI: the URI forms map to the same path as the canonical form.
func HarnessC28URI() {
	schemes := []string{"ipfs", "ipns", "ipld", "IPFS", "IpNs", "iPLD"}
	seps := []string{"://", ":", ":/", ":///"}
	si := verifrt.NondetRange("scheme", 0, len(schemes)-1)
	sep := seps[verifrt.NondetRange("sep", 0, len(seps)-1)]
	root := zzvCid
	switch verifrt.NondetRange("root", 0, 1) {
	case 1:
		// case-sensitive text: a CIDv0 / a base58 peer ID with upper-case letters
		root = "QmUNLLsPACCz1vLxQVkXqqLX5R1X345qqfHbsf67hvA3Nn"
	}
	if strings.ToLower(schemes[si]) == "ipns" {
		root = "a.b"
		switch verifrt.NondetRange("nsroot", 0, 2) {
		case 1:
			root = "12D3KooWGzxzKZYveHXtpG6AsrUJBcWxHBFS2HsEoGTxrMLvKXtf"
		case 2:
			root = "Ab.Example"
		}
	}
	n := verifrt.NondetRange("n", 0, verifrt.Param("N", 4))
	tail := verifrt.NondetBytes("t", n)
	for i := range tail {
		verifrt.Assume(verifrt.OneOf(tail[i], "/.a"))
	}
	rest := root
	if n > 0 {
		rest += "/" + string(tail)
	}
	uri := schemes[si] + sep + rest
	pu, eu := path.NewPathFromURI(uri)
	ns := strings.ToLower(schemes[si])
	var canonIn string
	switch sep {
	case "://", ":":
		canonIn = "/" + ns + "/" + rest
	case ":/":
		canonIn = "/" + ns + "//" + rest
	case ":///":
		canonIn = "/" + ns + "//" + rest
	}
	pc, ec := path.NewPath(canonIn)
	verifrt.Assert("C28.uri.accept-iff-canonical-accepts", (eu == nil) == (ec == nil))
	verifrt.Observe("accepted", eu == nil)
	if eu == nil && ec == nil {
		verifrt.Assert("C28.uri.same-string", pu.String() == pc.String())
		verifrt.Assert("C28.uri.same-namespace", pu.Namespace() == ns && pc.Namespace() == ns)
		zzvCheckPath("uri", pu)
	}
	// a canonical path is handed to NewPath unchanged
	p1, e1 := path.NewPathFromURI(canonIn)
	verifrt.Assert("C28.uri.canonical-unchanged", (e1 == nil) == (ec == nil) && (e1 != nil || p1.String() == pc.String()))
	verifrt.Reach("end")
}

// HarnessC28Name: IPNS names round-trip through their routing-key, peer-ID and CID forms for every
// sha2-256 / identity multihash (digest bytes symbolic).
func HarnessC28Name() {
	kind := verifrt.NondetRange("kind", 0, 1)
	var m mh.Multihash
	var err error
	if kind == 0 {
		m, err = mh.Encode(verifrt.NondetBytes("d", 32), mh.SHA2_256)
	} else {
		// identity multihashes carry inlined public keys: Ed25519 36 bytes, secp256k1 37 bytes (libp2p inlines up to 42)
		lens := []int{0, 1, 2, 5, 35, 36, 37, 38, 41, 42}
		m, err = mh.Encode(verifrt.NondetBytes("d", lens[verifrt.NondetRange("idlen", 0, len(lens)-1)]), mh.IDENTITY)
	}
	if err != nil {
		panic(err)
	}
	pid := peer.ID(m)
	n := NameFromPeer(pid)
	verifrt.Assert("C28.name.peer-roundtrip", n.Peer() == pid)
	rk := n.RoutingKey()
	verifrt.Assert("C28.name.routing-key-prefix", strings.HasPrefix(string(rk), "/ipns/") && string(rk[6:]) == string(m))
	n2, err := NameFromRoutingKey(rk)
	verifrt.Assert("C28.name.routing-key-roundtrip", err == nil && n2.Equal(n))
	c := n.Cid()
	verifrt.Assert("C28.name.cid-is-libp2p-key", c.Defined() && c.Type() == cid.Libp2pKey && string(c.Hash()) == string(m))
	n3, err := NameFromCid(c)
	verifrt.Assert("C28.name.cid-roundtrip", err == nil && n3.Equal(n))
	// other codecs are refused
	_, err = NameFromCid(cid.NewCidV1(cid.Raw, m))
	verifrt.Assert("C28.name.cid-wrong-codec-rejected", err != nil)
	// routing keys without the namespace prefix are refused
	_, err = NameFromRoutingKey([]byte(m))
	verifrt.Assert("C28.name.routing-key-needs-prefix", err != nil)
	verifrt.Observe("len", len(rk))
	verifrt.Reach("end")
}

// HarnessC28NameString: string form round trip on concrete names (base36/base58 big-number arithmetic over
// symbolic digests is outside what the solvers finish), including the /ipns/ prefixed form.
func HarnessC28NameString() {
	samples := []string{
		"k51qzi5uqu5dlvj2baxnqndepeb86cbk3ng7n3i46uzyxzyqj2xjonzllnv0v8",
		"12D3KooWRBy97UB99e3J6hiPesre1MZeuNQvfan4gBziswrRJsNK",
		"QmbvWUo8hRMqCjXBU5pYr9pMEW5AmuHhLQfcqCnPyBd4nM",
		"bafzaajaiaejcb3vxepdhbhmzamdzgsdfidhf5blmaa3sdwnerll2pwvsxzgsigac",
	}
	s := samples[verifrt.NondetRange("i", 0, len(samples)-1)]
	pref := []string{"", "/ipns/"}[verifrt.NondetRange("pref", 0, 1)]
	n, err := NameFromString(pref + s)
	verifrt.Assert("C28.namestr.accepted", err == nil)
	if err != nil {
		return
	}
	str := n.String()
	n2, err := NameFromString(str)
	verifrt.Assert("C28.namestr.roundtrip", err == nil && n2.Equal(n) && n2.String() == str)
	verifrt.Assert("C28.namestr.base36", strings.HasPrefix(str, "k"))
	p := n.AsPath()
	verifrt.Assert("C28.namestr.aspath", p.String() == "/ipns/"+str && p.Namespace() == "ipns")
	verifrt.Observe("str", str)
	verifrt.Reach("end")
}
