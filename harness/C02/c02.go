package blockstore

import (
	"bytes"
	"context"
	"errors"
	"sync"

	lru "github.com/hashicorp/golang-lru/v2"
	bloom "github.com/ipfs/bbloom"
	"github.com/ipfs/boxo/internal/verifrt"
	blocks "github.com/ipfs/go-block-format"
	cid "github.com/ipfs/go-cid"
	ipld "github.com/ipfs/go-ipld-format"
	metrics "github.com/ipfs/go-metrics-interface"
	mh "github.com/multiformats/go-multihash"
)

// =========================================================================================================
// Abstractions of the two third-party containers (active under the engine only; natively the real
// golang-lru 2Q cache and the real bbloom filter run, and every observation is compared).
//
//   2Q cache  = partial map key -> value: Get/Peek return the value last Added and not Removed. "Evicted" is
//               the same as "never added"; every cache size and eviction order is covered because the step
//               harnesses start from an ARBITRARY partial map satisfying the representation invariant and the
//               invariant is closed under dropping entries.
//   bbloom    = set of keys: HasTS(k) <=> k was added. A false positive is the same as "was added"; every
//               filter size / hash count is covered because the step harnesses start from an ARBITRARY set
//               that contains (at least) what the invariant demands.
// =========================================================================================================

var (
	zz2RealLRU  bool // entry wants the real golang-lru code under the engine too
	zz2CacheMu  sync.Mutex
	zz2Cache    map[string]any
	zz2StubHits int
	zz2Filters  map[*bloom.Bloom]map[string]bool
)

func zz2TQGet(c *lru.TwoQueueCache[string, any], key string) (any, bool) {
	zz2StubHits++
	if zz2RealLRU {
		return c.Get(key)
	}
	zz2CacheMu.Lock()
	defer zz2CacheMu.Unlock()
	v, ok := zz2Cache[key]
	return v, ok
}

func zz2TQPeek(c *lru.TwoQueueCache[string, any], key string) (any, bool) {
	if zz2RealLRU {
		return c.Peek(key)
	}
	zz2CacheMu.Lock()
	defer zz2CacheMu.Unlock()
	v, ok := zz2Cache[key]
	return v, ok
}

func zz2TQAdd(c *lru.TwoQueueCache[string, any], key string, value any) {
	zz2StubHits++
	if zz2RealLRU {
		c.Add(key, value)
		return
	}
	zz2CacheMu.Lock()
	defer zz2CacheMu.Unlock()
	if zz2Cache == nil {
		zz2Cache = map[string]any{}
	}
	zz2Cache[key] = value
}

func zz2TQRemove(c *lru.TwoQueueCache[string, any], key string) {
	zz2StubHits++
	if zz2RealLRU {
		c.Remove(key)
		return
	}
	zz2CacheMu.Lock()
	defer zz2CacheMu.Unlock()
	delete(zz2Cache, key)
}

func zz2BloomNew(params ...float64) (*bloom.Bloom, error) {
	zz2StubHits++
	return new(bloom.Bloom), nil
}

func zz2BloomAddTS(bl *bloom.Bloom, entry []byte) {
	zz2StubHits++
	bl.Mtx.Lock()
	defer bl.Mtx.Unlock()
	if zz2Filters == nil {
		zz2Filters = map[*bloom.Bloom]map[string]bool{}
	}
	s := zz2Filters[bl]
	if s == nil {
		s = map[string]bool{}
		zz2Filters[bl] = s
	}
	s[string(entry)] = true
}

func zz2BloomHasTS(bl *bloom.Bloom, entry []byte) bool {
	zz2StubHits++
	bl.Mtx.RLock()
	defer bl.Mtx.RUnlock()
	return zz2Filters[bl][string(entry)]
}

// =========================================================================================================
// Pool and backing store (the "uncached store": a map over a pool of multihashes, content addressed)
// =========================================================================================================

type zz2Ent struct {
	m    mh.Multihash
	key  string
	data []byte
}

func zz2Pool() []*zz2Ent {
	mk := func(fill byte, data []byte) *zz2Ent {
		d := make([]byte, 32)
		for i := range d {
			d[i] = fill + byte(i)
		}
		m, err := mh.Encode(d, mh.SHA2_256)
		if err != nil {
			panic(err)
		}
		return &zz2Ent{m: m, key: string(m), data: data}
	}
	// block 0 may be the empty block (size 0 must be distinguished from "size unknown")
	la := zz2Range("len0", 0, verifrt.Param("LEN0", 1))
	return []*zz2Ent{mk(0x10, zz2Bytes("data0", la)), mk(0x60, zz2Bytes("data1", 2))}
}

// form: 0 = CIDv1 raw, 1 = CIDv1 dag-pb, 2 = CIDv0
func (e *zz2Ent) cid(form int) cid.Cid {
	switch form {
	case 0:
		return cid.NewCidV1(cid.Raw, e.m)
	case 1:
		return cid.NewCidV1(cid.DagProtobuf, e.m)
	}
	return cid.NewCidV0(e.m)
}

func (e *zz2Ent) block(form int) blocks.Block {
	b, err := blocks.NewBlockWithCid(e.data, e.cid(form))
	if err != nil {
		panic(err)
	}
	return b
}

var (
	zz2ErrStore = errors.New("zz: store failure")
	zz2ErrEnum  = errors.New("zz: enumeration failed")
	zz2ErrCb    = errors.New("zz: callback says no")
)

type zz2Back struct {
	mu      sync.Mutex
	pool    []*zz2Ent
	present []bool
	calls   int // calls that reached this store
	// fault injection (single-key calls): 0 none, 1 the next call fails without effect, 2 fails after taking effect
	fault   int
	faulted bool
	// key enumeration
	enumMode  int // 0 complete, 1 fails after enumAt keys, 2 the context is cancelled after enumAt keys
	enumAt    int
	enumCalls int
	cancel    context.CancelFunc
}

func zz2NewBack(pool []*zz2Ent) *zz2Back {
	return &zz2Back{pool: pool, present: make([]bool, len(pool))}
}

func (b *zz2Back) clone() *zz2Back {
	t := zz2NewBack(b.pool)
	copy(t.present, b.present)
	return t
}

func (b *zz2Back) idx(c cid.Cid) int {
	if !c.Defined() {
		return -1
	}
	k := string(c.Hash())
	for i, e := range b.pool {
		if e.key == k {
			return i
		}
	}
	return -1
}

// enter accounts for a call and reports whether it is the one that fails.
func (b *zz2Back) enter() bool {
	b.calls++
	if b.fault != 0 && !b.faulted {
		b.faulted = true
		return true
	}
	return false
}

func (b *zz2Back) Has(ctx context.Context, c cid.Cid) (bool, error) {
	b.mu.Lock()
	defer b.mu.Unlock()
	if b.enter() {
		return false, zz2ErrStore
	}
	i := b.idx(c)
	return i >= 0 && b.present[i], nil
}

func (b *zz2Back) Get(ctx context.Context, c cid.Cid) (blocks.Block, error) {
	b.mu.Lock()
	defer b.mu.Unlock()
	if b.enter() {
		return nil, zz2ErrStore
	}
	i := b.idx(c)
	if i < 0 || !b.present[i] {
		return nil, ipld.ErrNotFound{Cid: c}
	}
	return blocks.NewBlockWithCid(b.pool[i].data, c)
}

func (b *zz2Back) GetSize(ctx context.Context, c cid.Cid) (int, error) {
	b.mu.Lock()
	defer b.mu.Unlock()
	if b.enter() {
		return -1, zz2ErrStore
	}
	i := b.idx(c)
	if i < 0 || !b.present[i] {
		return -1, ipld.ErrNotFound{Cid: c}
	}
	return len(b.pool[i].data), nil
}

func (b *zz2Back) View(ctx context.Context, c cid.Cid, cb func([]byte) error) error {
	b.mu.Lock()
	if b.enter() {
		b.mu.Unlock()
		return zz2ErrStore
	}
	i := b.idx(c)
	if i < 0 || !b.present[i] {
		b.mu.Unlock()
		return ipld.ErrNotFound{Cid: c}
	}
	data := b.pool[i].data
	b.mu.Unlock()
	return cb(data)
}

func (b *zz2Back) Put(ctx context.Context, blk blocks.Block) error {
	b.mu.Lock()
	defer b.mu.Unlock()
	fail := b.enter()
	if fail && b.fault == 1 {
		return zz2ErrStore
	}
	i := b.idx(blk.Cid())
	if i < 0 || !bytes.Equal(blk.RawData(), b.pool[i].data) {
		panic("zz: harness bug: foreign block")
	}
	b.present[i] = true
	if fail {
		return zz2ErrStore
	}
	return nil
}

func (b *zz2Back) PutMany(ctx context.Context, bs []blocks.Block) error {
	b.mu.Lock()
	defer b.mu.Unlock()
	b.calls++
	for _, blk := range bs {
		i := b.idx(blk.Cid())
		if i < 0 {
			panic("zz: harness bug: foreign block")
		}
		b.present[i] = true
	}
	return nil
}

func (b *zz2Back) DeleteBlock(ctx context.Context, c cid.Cid) error {
	b.mu.Lock()
	defer b.mu.Unlock()
	fail := b.enter()
	if fail && b.fault == 1 {
		return zz2ErrStore
	}
	if i := b.idx(c); i >= 0 {
		b.present[i] = false
	}
	if fail {
		return zz2ErrStore
	}
	return nil
}

// enumerate is a point-in-time snapshot of the present keys (as the map datastore, leveldb, badger give);
// depending on enumMode only a prefix is delivered and the failure is reported through the returned error.
func (b *zz2Back) enumerate(ctx context.Context) (<-chan cid.Cid, error) {
	b.mu.Lock()
	defer b.mu.Unlock()
	b.enumCalls++
	var keys []cid.Cid
	for i, e := range b.pool {
		if b.present[i] {
			keys = append(keys, cid.NewCidV1(cid.Raw, e.m))
		}
	}
	n := len(keys)
	var err error
	switch b.enumMode {
	case 1:
		n, err = min(b.enumAt, n), zz2ErrEnum
	case 2:
		n = min(b.enumAt, n)
		b.cancel()
		err = ctx.Err()
		if err == nil {
			panic("zz: harness bug: cancel does not cancel the enumeration context")
		}
	}
	ch := make(chan cid.Cid, len(keys)+1)
	for _, k := range keys[:n] {
		ch <- k
	}
	close(ch)
	return ch, err
}

// AllKeysChan alone cannot report a truncated enumeration (documented best effort).
func (b *zz2Back) AllKeysChan(ctx context.Context) (<-chan cid.Cid, error) {
	ch, _ := b.enumerate(ctx)
	return ch, nil
}

// zz2BackE adds the AllKeysChanWithErrer capability.
type zz2BackE struct{ *zz2Back }

func (b zz2BackE) AllKeysChanWithErr(ctx context.Context) (<-chan cid.Cid, func() error, error) {
	ch, err := b.enumerate(ctx)
	return ch, func() error { return err }, nil
}

// zz2Plain hides everything but the Blockstore methods (no Viewer, no AllKeysChanWithErrer).
type zz2Plain struct{ Blockstore }

// =========================================================================================================
// Operations and their observable results
// =========================================================================================================

const (
	zz2LTQ    = 1
	zz2LBloom = 2
)

const (
	zz2Has = iota
	zz2Get
	zz2GetSize
	zz2View
	zz2Put
	zz2Delete
	zz2PutMany01
	zz2PutMany10
	zz2PutMany00
	zz2PutManyNone
	zz2PutMany001 // a duplicate followed (in key order) by a distinct block
	zz2PutMany110 // a duplicate preceded (in key order) by a distinct block
	zz2PutMany010
)

type zz2Res struct {
	errk int // 0 nil, 1 not found, 2 injected store failure, 3 the View callback's error, 4 anything else
	has  bool
	size int
	data []byte
	cbs  int
	blk  bool // a block was returned
	cidOK bool
}

func zz2ErrKind(err error) int {
	switch {
	case err == nil:
		return 0
	case ipld.IsNotFound(err):
		return 1
	case errors.Is(err, zz2ErrStore):
		return 2
	case errors.Is(err, zz2ErrCb):
		return 3
	}
	return 4
}

// zz2Do runs one operation against bs. `c` is the target of single-key operations; form is the CID form of
// blocks built for Put/PutMany; cbFails makes the View callback return an error.
func zz2Do(bs Blockstore, pool []*zz2Ent, op int, c cid.Cid, target, form int, cbFails bool) zz2Res {
	ctx := context.Background()
	var r zz2Res
	switch op {
	case zz2Has:
		has, err := bs.Has(ctx, c)
		r.has, r.errk = has, zz2ErrKind(err)
	case zz2Get:
		blk, err := bs.Get(ctx, c)
		r.errk = zz2ErrKind(err)
		if blk != nil {
			r.blk, r.data, r.cidOK = true, blk.RawData(), blk.Cid().Equals(c)
		}
	case zz2GetSize:
		n, err := bs.GetSize(ctx, c)
		r.size, r.errk = n, zz2ErrKind(err)
	case zz2View:
		cb := func(p []byte) error {
			r.cbs++
			r.data = append([]byte{}, p...)
			if cbFails {
				return zz2ErrCb
			}
			return nil
		}
		var err error
		if v, ok := bs.(Viewer); ok {
			err = v.View(ctx, c, cb)
		} else {
			// the documented equivalent for stores without the capability
			var blk blocks.Block
			if blk, err = bs.Get(ctx, c); err == nil {
				err = cb(blk.RawData())
			}
		}
		r.errk = zz2ErrKind(err)
	case zz2Put:
		r.errk = zz2ErrKind(bs.Put(ctx, pool[target].block(form)))
	case zz2Delete:
		r.errk = zz2ErrKind(bs.DeleteBlock(ctx, c))
	case zz2PutMany01:
		r.errk = zz2ErrKind(bs.PutMany(ctx, []blocks.Block{pool[0].block(form), pool[1].block(0)}))
	case zz2PutMany10:
		r.errk = zz2ErrKind(bs.PutMany(ctx, []blocks.Block{pool[1].block(0), pool[0].block(form)}))
	case zz2PutMany00:
		r.errk = zz2ErrKind(bs.PutMany(ctx, []blocks.Block{pool[target].block(form), pool[target].block(0)}))
	case zz2PutManyNone:
		r.errk = zz2ErrKind(bs.PutMany(ctx, nil))
	case zz2PutMany001:
		r.errk = zz2ErrKind(bs.PutMany(ctx, []blocks.Block{pool[0].block(form), pool[0].block(0), pool[1].block(0)}))
	case zz2PutMany110:
		r.errk = zz2ErrKind(bs.PutMany(ctx, []blocks.Block{pool[1].block(form), pool[1].block(0), pool[0].block(0)}))
	case zz2PutMany010:
		r.errk = zz2ErrKind(bs.PutMany(ctx, []blocks.Block{pool[0].block(form), pool[1].block(0), pool[0].block(0)}))
	}
	return r
}

func zz2Same(a, b zz2Res) bool {
	return a.errk == b.errk && a.has == b.has && a.size == b.size && a.cbs == b.cbs && a.blk == b.blk &&
		a.cidOK == b.cidOK && bytes.Equal(a.data, b.data)
}

func zz2SameState(a, b *zz2Back) bool {
	for i := range a.present {
		if a.present[i] != b.present[i] {
			return false
		}
	}
	return true
}

// =========================================================================================================
// The world: backing store + layers with an arbitrary pre-state satisfying the representation invariant
// =========================================================================================================

type zz2World struct {
	pool   []*zz2Ent
	back   *zz2Back
	layers int // bit 0: two-queue cache, bit 1: bloom cache (on top)
	focus  int // pool index addressed by single-key operations
	tq     *tqcache
	bc     *bloomcache
	top    Blockstore
}

func zz2Reset() {
	zz2Cache = map[string]any{}
	zz2Filters = map[*bloom.Bloom]map[string]bool{}
	zz2StubHits = 0
}

// zz2Lower wraps the backing store with the capabilities chosen for this path.
func zz2Lower(back *zz2Back, viewer, withErr bool) Blockstore {
	switch {
	case viewer && withErr:
		return struct {
			*zz2Back
			AllKeysChanWithErrer
		}{back, zz2BackE{back}}
	case viewer:
		return back
	case withErr:
		return struct {
			Blockstore
			AllKeysChanWithErrer
		}{back, zz2BackE{back}}
	}
	return zz2Plain{back}
}

func zz2NewBloom(ctx context.Context, under Blockstore) *bloomcache {
	bl, err := bloom.New(float64(64*8), float64(3))
	if err != nil {
		panic(err)
	}
	bc := &bloomcache{
		blockstore: under,
		bloomSize:  64 * 8,
		hashCount:  3,
		hits:       metrics.NewCtx(ctx, "bloom.hits_total", "x").Counter(),
		total:      metrics.NewCtx(ctx, "bloom_total", "x").Counter(),
		buildChan:  make(chan struct{}),
	}
	bc.bloom.Store(bl)
	if v, ok := under.(Viewer); ok {
		bc.viewer = v
	}
	return bc
}

// zz2NewWorld builds the layered store. statesTQ/statesBloom say whether the cache / filter pre-state is
// arbitrary (true) or empty/inactive (false).
func zz2NewWorld(layers int, arbitrary bool, lower func(*zz2Back) Blockstore, lruSize int) *zz2World {
	ctx := context.Background()
	zz2Reset()
	w := &zz2World{pool: zz2Pool(), layers: layers}
	w.back = zz2NewBack(w.pool)
	under := lower(w.back)
	// per key: 0 absent, 1 absent + cached "not there", 2 present, 3 present + cached "there", 4 present + cached size
	hasTQ, hasBloom := layers&zz2LTQ != 0, layers&zz2LBloom != 0
	// the key that single-key operations will address gets every state; the other key a reduced set when the
	// composite's state space would otherwise be too large (REDUCE: 0 none, 1 three states, 2 two states)
	reduce := verifrt.Param("REDUCE", 0)
	if arbitrary && verifrt.Param("NOFOCUS", 0) == 0 {
		w.focus = zz2Range("focus", 0, len(w.pool)-1)
	}
	st := make([]int, len(w.pool))
	for i := range w.pool {
		switch {
		case !(hasTQ && arbitrary):
			st[i] = 2 * zz2Range("state", 0, 1)
		case i == w.focus || reduce == 0:
			st[i] = zz2Range("state", 0, 4)
		case reduce == 1:
			st[i] = []int{0, 1, 4}[zz2Range("state", 0, 2)]
		default:
			st[i] = []int{0, 4}[zz2Range("state", 0, 1)]
		}
		w.back.present[i] = st[i] >= 2
	}
	if hasTQ {
		tq, err := newTwoQueueCachedBS(ctx, under, lruSize)
		if err != nil {
			panic(err)
		}
		w.tq = tq
		for i, e := range w.pool {
			switch st[i] {
			case 1:
				tq.cache.Add(e.key, cacheHave(false))
			case 3:
				tq.cache.Add(e.key, cacheHave(true))
			case 4:
				tq.cache.Add(e.key, cacheSize(len(e.data)))
			}
		}
		under = tq
	}
	w.top = under
	if hasBloom {
		w.bc = zz2NewBloom(ctx, under)
		w.top = w.bc
		if arbitrary {
			active := zz2Bool("active")
			if active {
				// "active" is reached the way the product reaches it: a complete enumeration (this also puts
				// every stored key into the filter); the harness never writes the flag itself
				if err := w.bc.build(ctx); err != nil {
					panic(err)
				}
				w.back.enumCalls = 0
			}
			for i, e := range w.pool {
				// the invariant forces present keys into an active filter; everything else is arbitrary
				// (false positives, keys deleted since, leftovers of a failed build)
				in := w.back.present[i]
				if !(active && in) && (i == w.focus || reduce < 2) {
					in = zz2Bool("infilter")
				}
				if in {
					w.bc.bloom.Load().AddTS(e.m)
				}
			}
			if w.bc.BloomActive() != active {
				panic("zz: harness bug: bloom pre-state")
			}
		}
	}
	w.back.calls = 0
	return w
}

func (w *zz2World) cached(i int) (any, bool) { return w.tq.cache.Peek(w.pool[i].key) }

// checkInvariant asserts the representation invariant of every layer against the backing store.
func (w *zz2World) checkInvariant(tag string) {
	if w.tq != nil {
		for i, e := range w.pool {
			v, ok := w.cached(i)
			if !ok {
				continue
			}
			switch v := v.(type) {
			case cacheHave:
				verifrt.Assert("C02."+tag+"tq-cached-existence-agrees-with-store", bool(v) == w.back.present[i])
			case cacheSize:
				verifrt.Assert("C02."+tag+"tq-cached-size-implies-present", w.back.present[i])
				verifrt.Assert("C02."+tag+"tq-cached-size-is-block-size", int(v) == len(e.data))
			default:
				verifrt.Assert("C02."+tag+"tq-cached-value-has-known-type", false)
			}
		}
		_, ok := w.tq.cache.Peek("")
		verifrt.Assert("C02."+tag+"tq-nothing-cached-for-undefined-cid", !ok)
	}
	if w.bc != nil && w.bc.BloomActive() {
		f := w.bc.bloom.Load()
		for i, e := range w.pool {
			if w.back.present[i] {
				verifrt.Assert("C02."+tag+"bloom-active-filter-contains-stored-key", f.HasTS(e.m))
			}
		}
	}
}

// checkReads compares every read operation on every pool key (and the undefined CID) with the backing store.
func (w *zz2World) checkReads(tag string) {
	ref := w.back.clone()
	for i := 0; i <= len(w.pool); i++ {
		c := cid.Undef
		if i < len(w.pool) {
			c = w.pool[i].cid(0)
		}
		for _, op := range []int{zz2Has, zz2GetSize, zz2Get} {
			got := zz2Do(w.top, w.pool, op, c, i, 0, false)
			want := zz2Do(ref, w.pool, op, c, i, 0, false)
			if i < len(w.pool) && w.back.present[i] {
				verifrt.Assert("C02."+tag+"stored-block-not-reported-missing", got.errk != 1 && (op != zz2Has || got.has))
			}
			verifrt.Assert("C02."+tag+"read-agrees-with-store", zz2Same(got, want))
		}
	}
}

func zz2StubsActive() {
	if verifrt.Symbolic() {
		verifrt.Assert("C02.harness-container-abstractions-bound", zz2StubHits > 0)
	}
}

// =========================================================================================================
// T1: one inductive step per operation
// =========================================================================================================

func zz2PickTarget(w *zz2World, allowUndef bool) (int, int, cid.Cid) {
	if allowUndef && verifrt.NondetBool("undef") {
		return len(w.pool), 0, cid.Undef
	}
	form := zz2PickForm()
	return w.focus, form, w.pool[w.focus].cid(form)
}

// zz2PickForm: CIDv1-raw or CIDv0 of the same multihash (FORMS=2: also CIDv1 dag-pb).
func zz2PickForm() int {
	if verifrt.Param("FORMS", 1) >= 2 {
		return verifrt.NondetRange("form", 0, 2)
	}
	return 2 * verifrt.NondetRange("form", 0, 1)
}

func zz2Step(layers int, ops []int) {
	op := ops[verifrt.NondetRange("op", 0, len(ops)-1)]
	viewer := op != zz2View || verifrt.NondetBool("viewer") // only View looks at the capability
	w := zz2NewWorld(layers, true, func(b *zz2Back) Blockstore { return zz2Lower(b, viewer, false) }, 64)
	w.checkInvariant("pre-") // sanity of the generator itself
	single := op <= zz2Delete
	target, form, c := 0, 0, cid.Undef
	if single {
		target, form, c = zz2PickTarget(w, op != zz2Put)
	} else {
		target = w.focus
		form = zz2PickForm()
	}
	cbFails := op == zz2View && verifrt.NondetBool("cbfails")
	twin := w.back.clone()
	want := zz2Do(twin, w.pool, op, c, target, form, cbFails)
	got := zz2Do(w.top, w.pool, op, c, target, form, cbFails)
	verifrt.Observe("errk", got.errk)
	verifrt.Observe("has", got.has)
	verifrt.Observe("size", got.size)
	verifrt.Observe("data", got.data)
	verifrt.Assert("C02.step-answer-equals-uncached-store", zz2Same(got, want))
	verifrt.Assert("C02.step-store-state-equals-uncached-store", zz2SameState(w.back, twin))
	if target < len(w.pool) && want.errk == 1 {
		verifrt.Assert("C02.step-notfound-only-for-absent", !twin.present[target])
	}
	w.checkInvariant("step-")
	if w.bc != nil && (op == zz2Put || op >= zz2PutMany01) && got.errk == 0 {
		// mechanism: writes land in the live filter whether or not it is active (needed while a build runs)
		f := w.bc.bloom.Load()
		switch op {
		case zz2Put, zz2PutMany00:
			verifrt.Assert("C02.step-put-adds-to-live-filter", f.HasTS(w.pool[target].m))
		case zz2PutMany01, zz2PutMany10, zz2PutMany001, zz2PutMany110, zz2PutMany010:
			verifrt.Assert("C02.step-putmany-adds-to-live-filter", f.HasTS(w.pool[0].m) && f.HasTS(w.pool[1].m))
		}
	}
	// and the next reads are those of the store (the cache state just produced is used here)
	w.checkReads("step-then-")
	w.checkInvariant("step-then-reads-")
	zz2StubsActive()
	verifrt.Reach("end")
}

var (
	zz2ReadOps  = []int{zz2Has, zz2Get, zz2GetSize, zz2View}
	zz2WriteOps = []int{zz2Put, zz2Delete, zz2PutMany01, zz2PutMany10, zz2PutMany00, zz2PutManyNone, zz2PutMany001, zz2PutMany110, zz2PutMany010}
)

func HarnessC02StepTQRead()     { zz2Step(zz2LTQ, zz2ReadOps) }
func HarnessC02StepTQWrite()    { zz2Step(zz2LTQ, zz2WriteOps) }
func HarnessC02StepBloomRead()  { zz2Step(zz2LBloom, zz2ReadOps) }
func HarnessC02StepBloomWrite() { zz2Step(zz2LBloom, zz2WriteOps) }
func HarnessC02StepBothRead()   { zz2Step(zz2LTQ|zz2LBloom, zz2ReadOps) }
func HarnessC02StepBothWrite()  { zz2Step(zz2LTQ|zz2LBloom, zz2WriteOps) }

// HarnessC02StepFaults: one single-key operation whose backing-store call fails (with or without having taken
// effect): the failure is reported, and whatever the caches hold afterwards still agrees with the store.
func HarnessC02StepFaults() {
	layers := verifrt.NondetRange("layers", 1, 3)
	w := zz2NewWorld(layers, true, func(b *zz2Back) Blockstore { return zz2Lower(b, true, false) }, 64)
	op := verifrt.NondetRange("op", zz2Has, zz2Delete)
	target, form, c := zz2PickTarget(w, false)
	// a failed call that nevertheless took effect is only played against the two-queue cache, whose code
	// invalidates on error; the bloom layer has no such mechanism (and the property does not ask for one)
	maxFault := 1
	if layers == zz2LTQ {
		maxFault = 2
	}
	w.back.fault = verifrt.NondetRange("fault", 1, maxFault)
	pre := w.back.clone()
	twin := w.back.clone()
	want := zz2Do(twin, w.pool, op, c, target, form, false)
	got := zz2Do(w.top, w.pool, op, c, target, form, false)
	verifrt.Observe("errk", got.errk)
	if w.back.faulted {
		verifrt.Assert("C02.fault-store-failure-reported", got.errk == 2)
		if w.back.fault == 1 {
			verifrt.Assert("C02.fault-without-effect-leaves-store", zz2SameState(w.back, pre))
		} else {
			verifrt.Assert("C02.fault-with-effect-store-as-uncached", zz2SameState(w.back, twin))
		}
	} else {
		// answered without reaching the failing store: must be the fault-free answer
		verifrt.Assert("C02.fault-not-reached-answer-equals-uncached-store", zz2Same(got, want))
		verifrt.Assert("C02.fault-not-reached-store-as-uncached", zz2SameState(w.back, twin))
	}
	w.back.fault = 0
	w.checkInvariant("fault-")
	w.checkReads("fault-then-")
	verifrt.Reach("end")
}

// =========================================================================================================
// T1/T3: bounded histories, optionally over the real golang-lru code with tiny cache sizes
// =========================================================================================================

// HarnessC02History: K operations from an arbitrary store state with empty caches; every answer and the final
// store state are those of the uncached twin. REALLRU=1 runs golang-lru's 2Q implementation itself with cache
// sizes 1..2 (so that evictions happen inside the history).
func HarnessC02History() {
	layers := verifrt.NondetRange("layers", 1, 3)
	size := 64
	if verifrt.Param("REALLRU", 0) == 1 {
		zz2RealLRU = true
		// (golang-lru rejects a 2Q cache of size 1: its ghost list would have size 0; see HarnessC02Constructor)
		size = verifrt.NondetRange("lrusize", 2, 3)
	}
	defer func() { zz2RealLRU = false }()
	w := zz2NewWorld(layers, false, func(b *zz2Back) Blockstore { return zz2Lower(b, true, true) }, size)
	if w.bc != nil {
		// a completed initial build
		if err := w.bc.build(context.Background()); err != nil {
			panic(err)
		}
		verifrt.Assert("C02.history-build-activates", w.bc.BloomActive())
	}
	twin := w.back.clone()
	ops := []int{zz2Has, zz2Get, zz2GetSize, zz2View, zz2Put, zz2Delete, zz2PutMany01}
	k := verifrt.Param("K", 2)
	for j := 0; j < k; j++ {
		op := ops[verifrt.NondetRange("op", 0, len(ops)-1)]
		target := verifrt.NondetRange("target", 0, len(w.pool)-1)
		c := w.pool[target].cid(0)
		want := zz2Do(twin, w.pool, op, c, target, 0, false)
		got := zz2Do(w.top, w.pool, op, c, target, 0, false)
		verifrt.Observe("errk", got.errk)
		verifrt.Observe("has", got.has)
		verifrt.Observe("size", got.size)
		verifrt.Assert("C02.history-answer-equals-uncached-store", zz2Same(got, want))
		verifrt.Assert("C02.history-store-state-equals-uncached-store", zz2SameState(w.back, twin))
		w.checkInvariant("history-")
	}
	w.checkReads("history-then-")
	verifrt.Reach("end")
}

// =========================================================================================================
// Bloom filter build / Rebuild with a failing or cancelled key enumeration
// =========================================================================================================

func zz2SetEnum(w *zz2World, tag string) (complete bool, cancel bool) {
	n := 0
	for _, p := range w.back.present {
		if p {
			n++
		}
	}
	if verifrt.Param("ENUMLITE", 0) == 1 {
		// complete, or failing before the first key
		w.back.enumMode = zz2Range(tag+".mode", 0, 1)
		w.back.enumAt = 0
		return w.back.enumMode == 0, false
	}
	w.back.enumMode = zz2Range(tag+".mode", 0, 2)
	w.back.enumAt = 0
	if w.back.enumMode != 0 {
		// position of the failure: after 0..n keys (n = every key delivered, and still a failure)
		w.back.enumAt = zz2Range(tag+".at", 0, n)
	}
	return w.back.enumMode == 0, w.back.enumMode == 2
}

// falsePositives lets the live filter answer "maybe" for arbitrary further keys (tiny filters).
func (w *zz2World) falsePositives() {
	if verifrt.Param("FPALL", 0) == 1 {
		// cheaper variant: either no further key or every pool key answers "maybe"
		if verifrt.NondetBool("fp") {
			for _, e := range w.pool {
				w.bc.bloom.Load().AddTS(e.m)
			}
		}
		return
	}
	for _, e := range w.pool {
		if verifrt.NondetBool("fp") {
			w.bc.bloom.Load().AddTS(e.m)
		}
	}
}

// HarnessC02BloomBuild: bloomCached() over a store whose enumeration completes, fails or is cancelled at any
// position; then Put of a key; then Rebuild with a second enumeration outcome.
func HarnessC02BloomBuild() {
	// the store below the bloom cache: the backing store itself or the two-queue cache over it
	layers := verifrt.NondetRange("layers", 0, 1)
	w := zz2NewWorld(layers, false, func(b *zz2Back) Blockstore { return zz2Lower(b, true, true) }, 64)
	under := w.top
	ctx, cancel := context.WithCancel(context.Background())
	defer cancel()
	w.back.cancel = cancel
	complete, _ := zz2SetEnum(w, "build")
	bc, err := bloomCached(ctx, under, 64*8, 3)
	verifrt.Assert("C02.build-constructor-succeeds", err == nil && bc != nil)
	w.bc, w.top = bc, bc
	werr := bc.Wait(context.Background())
	verifrt.Observe("buildok", werr == nil)
	verifrt.Assert("C02.build-enumerates-once", w.back.enumCalls == 1)
	if complete {
		verifrt.Assert("C02.build-complete-enumeration-no-error", werr == nil)
		verifrt.Assert("C02.build-complete-enumeration-activates", bc.BloomActive())
	} else {
		verifrt.Assert("C02.build-truncated-enumeration-reports-error", werr != nil)
		verifrt.Assert("C02.build-truncated-enumeration-stays-inactive", !bc.BloomActive())
	}
	w.falsePositives()
	w.checkInvariant("build-")
	w.checkReads("build-then-")

	// a write after the (possibly failed) build
	t := verifrt.NondetRange("put", 0, len(w.pool)-1)
	verifrt.Assert("C02.build-then-put-succeeds", bc.Put(context.Background(), w.pool[t].block(0)) == nil)
	verifrt.Assert("C02.build-then-put-stored", w.back.present[t])
	w.checkReads("build-put-then-")

	// Rebuild (the retry after a failed build, or a refresh) with its own enumeration outcome
	ctx2, cancel2 := context.WithCancel(context.Background())
	defer cancel2()
	w.back.cancel = cancel2
	complete2, _ := zz2SetEnum(w, "rebuild")
	rerr := bc.Rebuild(ctx2)
	verifrt.Observe("rebuildok", rerr == nil)
	verifrt.Assert("C02.rebuild-enumerates-once", w.back.enumCalls == 2)
	if complete2 {
		verifrt.Assert("C02.rebuild-complete-enumeration-no-error", rerr == nil)
		verifrt.Assert("C02.rebuild-complete-enumeration-activates", bc.BloomActive())
	} else {
		verifrt.Assert("C02.rebuild-truncated-enumeration-reports-error", rerr != nil)
		verifrt.Assert("C02.rebuild-truncated-enumeration-stays-inactive", !bc.BloomActive())
	}
	w.falsePositives()
	w.checkInvariant("rebuild-")
	w.checkReads("rebuild-then-")
	zz2StubsActive()
	verifrt.Reach("end")
}

// HarnessC02Rebuild: Rebuild from an ARBITRARY filter state (active or not, arbitrary contents satisfying the
// invariant): enumeration outcome at any position, an already cancelled context, a failing enumeration set-up
// is covered by enumMode 1 at position 0. Lower store with or without the AllKeysChanWithErrer capability.
func HarnessC02Rebuild() {
	withErr := verifrt.NondetBool("witherr")
	w := zz2NewWorld(zz2LBloom, true, func(b *zz2Back) Blockstore { return zz2Lower(b, true, withErr) }, 64)
	ctx, cancel := context.WithCancel(context.Background())
	defer cancel()
	w.back.cancel = cancel
	wasActive := w.bc.BloomActive()
	old := w.bc.bloom.Load()
	if verifrt.NondetBool("precancelled") {
		cancel()
		err := w.bc.Rebuild(ctx)
		verifrt.Assert("C02.rebuild-cancelled-context-reports-error", err != nil)
		verifrt.Assert("C02.rebuild-cancelled-context-does-not-enumerate", w.back.enumCalls == 0)
		verifrt.Assert("C02.rebuild-cancelled-context-keeps-state", w.bc.BloomActive() == wasActive && w.bc.bloom.Load() == old)
		w.checkInvariant("rebuild-cancelled-")
		w.checkReads("rebuild-cancelled-then-")
		verifrt.Reach("end")
		return
	}
	complete := true
	if withErr {
		complete, _ = zz2SetEnum(w, "rebuild")
	}
	err := w.bc.Rebuild(ctx)
	verifrt.Observe("rebuildok", err == nil)
	if complete {
		verifrt.Assert("C02.rebuild-complete-enumeration-no-error", err == nil)
		verifrt.Assert("C02.rebuild-complete-enumeration-activates", w.bc.BloomActive())
	} else {
		verifrt.Assert("C02.rebuild-truncated-enumeration-reports-error", err != nil)
		verifrt.Assert("C02.rebuild-truncated-enumeration-stays-inactive", !w.bc.BloomActive())
	}
	verifrt.Assert("C02.rebuild-discards-old-filter", w.bc.bloom.Load() != old)
	w.falsePositives()
	w.checkInvariant("rebuild-")
	w.checkReads("rebuild-then-")
	verifrt.Reach("end")
}

// HarnessC02Constructor: the public constructor CachedBlockstore over the option space (two-queue size
// -1/0/1/2/64 over the REAL golang-lru code, bloom size -1/0/64 bytes, hash count -1/0/3): invalid options are
// rejected; whatever is returned without an error is a store that answers like the uncached one.
func HarnessC02Constructor() {
	ctx := context.Background()
	zz2Reset()
	zz2RealLRU = true
	defer func() { zz2RealLRU = false }()
	w := &zz2World{pool: zz2Pool()}
	w.back = zz2NewBack(w.pool)
	for i := range w.pool {
		w.back.present[i] = verifrt.NondetBool("present")
	}
	opts := CacheOpts{
		HasTwoQueueCacheSize: []int{-1, 0, 1, 2, 64}[verifrt.NondetRange("tqsize", 0, 4)],
		HasBloomFilterSize:   []int{-1, 0, 64}[verifrt.NondetRange("bloomsize", 0, 2)],
		HasBloomFilterHashes: []int{-1, 0, 3}[verifrt.NondetRange("hashes", 0, 2)],
	}
	cbs, err := CachedBlockstore(ctx, zz2Lower(w.back, true, true), opts)
	verifrt.Observe("ok", err == nil)
	invalid := opts.HasTwoQueueCacheSize < 0 || opts.HasBloomFilterSize < 0 || opts.HasBloomFilterHashes < 0 ||
		(opts.HasBloomFilterSize != 0 && opts.HasBloomFilterHashes == 0)
	if invalid {
		verifrt.Assert("C02.ctor-invalid-options-rejected", err != nil)
	}
	if err != nil {
		verifrt.Reach("end")
		return
	}
	verifrt.Assert("C02.ctor-returns-a-store", cbs != nil)
	if s, ok := cbs.(BloomCacheStatus); ok {
		verifrt.Assert("C02.ctor-bloom-configured-iff-status", opts.HasBloomFilterSize != 0)
		verifrt.Assert("C02.ctor-initial-build-succeeds", s.Wait(ctx) == nil && s.BloomActive())
	} else {
		verifrt.Assert("C02.ctor-bloom-configured-iff-status", opts.HasBloomFilterSize == 0)
	}
	w.top = cbs
	w.checkReads("ctor-")
	t := verifrt.NondetRange("put", 0, len(w.pool)-1)
	verifrt.Assert("C02.ctor-put-succeeds", cbs.Put(ctx, w.pool[t].block(0)) == nil && w.back.present[t])
	w.checkReads("ctor-put-then-")
	verifrt.Assert("C02.ctor-delete-succeeds", cbs.DeleteBlock(ctx, w.pool[t].cid(0)) == nil && !w.back.present[t])
	w.checkReads("ctor-delete-then-")
	verifrt.Reach("end")
}
