package blockstore

import (
	"context"
	"runtime"
	"sync"
	"sync/atomic"
	"time"

	"github.com/ipfs/boxo/internal/verifrt"
)

// =========================================================================================================
// Input tape. The concurrent scenarios are run once under the engine (which enumerates the interleavings
// itself). Natively nobody controls the Go scheduler, so a scenario is REPEATED with the same inputs, with
// real goroutines on real cores, until the oracle fails or the budget is used up: the first run records the
// inputs it drew, the following runs replay them.
// =========================================================================================================

var zz2Tape struct {
	replay bool
	vals   []uint64
	pos    int
}

func zz2TapeNext(draw func() uint64) uint64 {
	if zz2Tape.replay {
		v := zz2Tape.vals[zz2Tape.pos]
		zz2Tape.pos++
		return v
	}
	v := draw()
	if !verifrt.Symbolic() {
		zz2Tape.vals = append(zz2Tape.vals, v)
	}
	return v
}

func zz2Range(name string, lo, hi int) int {
	if verifrt.Symbolic() {
		return verifrt.NondetRange(name, lo, hi)
	}
	return int(zz2TapeNext(func() uint64 { return uint64(verifrt.NondetRange(name, lo, hi)) }))
}

func zz2Bool(name string) bool {
	if verifrt.Symbolic() {
		return verifrt.NondetBool(name)
	}
	return zz2TapeNext(func() uint64 {
		if verifrt.NondetBool(name) {
			return 1
		}
		return 0
	}) != 0
}

func zz2Bytes(name string, n int) []byte {
	if verifrt.Symbolic() {
		return verifrt.NondetBytes(name, n)
	}
	var fresh []byte
	out := make([]byte, n)
	for i := range out {
		i := i
		out[i] = byte(zz2TapeNext(func() uint64 {
			if fresh == nil {
				fresh = verifrt.NondetBytes(name, n)
			}
			return uint64(fresh[i])
		}))
	}
	return out
}

// zz2Overlap runs `op` concurrently with `other`.
// Under the engine: two goroutines, op once, other once; the exploring scheduler supplies the interleavings.
// Natively the Go scheduler cannot be told where to switch, so the harness lets the asynchronous pre-emption
// of the Go runtime sample the switch points: on ONE processor (GOMAXPROCS=1) the op goroutine issues
// prepare();op() again and again for the stress budget, while a second goroutine cycles other();rearm().
// Whenever the runtime pre-empts the op goroutine (10 ms slice, at whatever instruction it happens to be) the
// other goroutine runs its cycles inside that instruction gap and is itself pre-empted at an arbitrary point.
// `rearm` re-establishes the state `other` started from (nil if other leaves it intact); `prepare` does the same
// for op (nil for idempotent operations). op returns false to stop (a deviating answer was recorded).
// The cycle always ends with `other`, so the final state is the one the engine's scenario ends in.
// Needs no parallelism, hence insensitive to the load of the machine; the replays of this property are built
// with -race (spec replay_flags), which turns atomic operations into calls and widens instruction-level windows.
func zz2Overlap(prepare func(), op func() bool, other func(), rearm func()) {
	var wg sync.WaitGroup
	wg.Add(2)
	if verifrt.Symbolic() {
		go func() {
			defer wg.Done()
			op()
		}()
		go func() {
			defer wg.Done()
			other()
		}()
		wg.Wait()
		return
	}
	ms := verifrt.Param("STRESSMS", 300)
	if verifrt.Param("CONFIRM", 0) == 1 {
		ms = verifrt.Param("CONFIRMMS", 20000) // the engine replays a counterexample: look harder
	}
	deadline := time.Now().Add(time.Duration(ms) * time.Millisecond)
	prev := runtime.GOMAXPROCS(1)
	defer runtime.GOMAXPROCS(prev)
	var started, stop atomic.Bool
	go func() {
		defer wg.Done()
		for !started.Load() {
			runtime.Gosched()
		}
		for {
			other()
			if stop.Load() {
				return
			}
			if rearm != nil {
				rearm()
			}
		}
	}()
	go func() {
		defer wg.Done()
		defer stop.Store(true)
		started.Store(true)
		for i := 0; ; i++ {
			if prepare != nil && i > 0 {
				prepare()
			}
			if !op() {
				return
			}
			if i&63 == 0 && time.Now().After(deadline) {
				return
			}
		}
	}()
	wg.Wait()
}

// zz2Repeat runs the scenario once under the engine; natively up to STRESS times or for about two seconds.
func zz2Repeat(scenario func()) {
	zz2Tape.replay, zz2Tape.vals, zz2Tape.pos = false, nil, 0
	scenario()
	if verifrt.Symbolic() {
		return
	}
	defer func() { zz2Tape.replay = false }() // also when an assertion fails in a repetition
	n := verifrt.Param("STRESS", 200000)
	ms := verifrt.Param("STRESSMS", 300)
	if verifrt.Param("CONFIRM", 0) == 1 {
		ms = verifrt.Param("CONFIRMMS", 20000) // the engine replays a counterexample: look harder
	}
	deadline := time.Now().Add(time.Duration(ms) * time.Millisecond)
	for i := 1; i < n && time.Now().Before(deadline); i++ {
		zz2Tape.replay, zz2Tape.pos = true, 0
		scenario()
	}
}

// =========================================================================================================
// T2: two goroutines, one operation each, on the same key, from an arbitrary state satisfying the
// representation invariant; the engine's exploring scheduler interleaves them at every synchronisation point
// (per-key lock, lklk, the containers' and the store's own locks, atomics) with a bounded number of pre-emptions.
// Oracle: linearizability for two overlapping calls = the pair of answers and the final store state are those
// of one of the two serial orders on the uncached twin; afterwards the invariant holds again and every read
// agrees with the store (no stored block is reported missing).
// =========================================================================================================

var zz2ConcOps = []int{zz2Has, zz2Get, zz2GetSize, zz2View, zz2Put, zz2Delete, zz2PutMany01, zz2PutMany10}

var zz2QuickPairs = [][2]int{
	{zz2Has, zz2Delete}, {zz2Put, zz2Delete}, {zz2Has, zz2Put}, {zz2GetSize, zz2Delete},
	{zz2Get, zz2Put}, {zz2View, zz2Delete}, {zz2Delete, zz2PutMany01}, {zz2PutMany01, zz2PutMany10},
}

func zz2Conc(layers int) {
	zz2Repeat(func() {
		var a, b int
		if verifrt.Param("PAIRS", 0) == 1 {
			// quick tier: the read/write and write/write pairs that exercise every lock mode combination
			p := zz2QuickPairs[zz2Range("pair", verifrt.Param("PAIRLO", 0), verifrt.Param("PAIRHI", len(zz2QuickPairs)-1))]
			a, b = p[0], p[1]
		} else {
			ia := zz2Range("opA", 0, len(zz2ConcOps)-1)
			ib := zz2Range("opB", ia, len(zz2ConcOps)-1) // unordered pair: the scheduler supplies both orders
			a, b = zz2ConcOps[ia], zz2ConcOps[ib]
		}
		w := zz2NewWorld(layers, true, func(bk *zz2Back) Blockstore { return zz2Lower(bk, true, false) }, 64)
		c := w.pool[w.focus].cid(0)
		pre := w.back.clone()

		var ra, rb zz2Res
		var wg sync.WaitGroup
		wg.Add(2)
		go func() {
			defer wg.Done()
			ra = zz2Do(w.top, w.pool, a, c, w.focus, 0, false)
		}()
		go func() {
			defer wg.Done()
			rb = zz2Do(w.top, w.pool, b, c, w.focus, 0, false)
		}()
		wg.Wait()

		tab := pre.clone()
		wa1 := zz2Do(tab, w.pool, a, c, w.focus, 0, false)
		wb1 := zz2Do(tab, w.pool, b, c, w.focus, 0, false)
		tba := pre.clone()
		wb2 := zz2Do(tba, w.pool, b, c, w.focus, 0, false)
		wa2 := zz2Do(tba, w.pool, a, c, w.focus, 0, false)
		okAB := zz2Same(ra, wa1) && zz2Same(rb, wb1) && zz2SameState(w.back, tab)
		okBA := zz2Same(ra, wa2) && zz2Same(rb, wb2) && zz2SameState(w.back, tba)
		verifrt.Assert("C02.conc-pair-explained-by-a-serial-order", okAB || okBA)
		if w.tq != nil {
			verifrt.Assert("C02.conc-key-locks-released", len(w.tq.lks) == 0)
		}
		w.checkInvariant("conc-")
		w.checkReads("conc-then-")
	})
	verifrt.Reach("end")
}

func HarnessC02ConcTQ()    { zz2Conc(zz2LTQ) }
func HarnessC02ConcBloom() { zz2Conc(zz2LBloom) }
func HarnessC02ConcBoth()  { zz2Conc(zz2LTQ | zz2LBloom) }

// zz2ConcRebuild: one operation on a key runs concurrently with Rebuild (complete, failing or cancelled
// enumeration) from an arbitrary filter state. The store's enumeration is a point-in-time snapshot (the
// documented requirement on the datastore). Rebuild changes nothing observable, so the operation's answer must
// be that of the uncached twin, and afterwards nothing stored is reported missing.
func zz2ConcRebuild(ops []int) {
	func() {
		op := ops[zz2Range("op", 0, len(ops)-1)]
		layers := zz2LBloom
		if verifrt.Param("OVERTQ", 0) == 1 {
			layers |= zz2LTQ
		}
		w := zz2NewWorld(layers, true, func(bk *zz2Back) Blockstore { return zz2Lower(bk, true, true) }, 64)
		complete, _ := zz2SetEnum(w, "rebuild")
		mode, at := w.back.enumMode, w.back.enumAt
		wasActive := w.bc.BloomActive()
		c := w.pool[w.focus].cid(0)
		twin := w.back.clone()

		want := zz2Do(twin, w.pool, op, c, w.focus, 0, false)
		// Under the engine the operation is issued once, concurrently with one Rebuild. Natively (zz2Overlap)
		// the operation is issued again and again (every answer must be `want`: reads and Put/PutMany are
		// idempotent, a Delete is preceded by a Put of the block from the second round on) while Rebuild with the
		// scenario's enumeration outcome alternates with a Rebuild that brings the filter back to the activeness
		// it started from. The first deviating answer / store state is kept.
		var got zz2Res
		var rerr error
		stateOK := true
		ctx0, cancel0 := context.WithCancel(context.Background())
		defer cancel0()
		w.back.cancel = cancel0
		rebuild := func(mode, at int) error {
			ctx, cancel := context.WithCancel(context.Background())
			defer cancel()
			w.back.cancel, w.back.enumMode, w.back.enumAt = cancel, mode, at
			return w.bc.Rebuild(ctx)
		}
		var prepare, rearm func()
		seenAfterPut := true
		switch op {
		case zz2Delete:
			prepare = func() { zz2Do(w.top, w.pool, zz2Put, c, w.focus, 0, false) }
		case zz2Put, zz2PutMany01:
			// from the second round on the blocks are deleted first, so that every round really writes
			prepare = func() {
				for i, e := range w.pool {
					if op == zz2PutMany01 || i == w.focus {
						zz2Do(w.top, w.pool, zz2Delete, e.cid(0), 0, 0, false)
					}
				}
			}
		}
		if complete != wasActive {
			rearm = func() {
				if wasActive {
					rebuild(0, 0)
				} else {
					rebuild(1, 0)
				}
			}
		}
		zz2Overlap(prepare, func() bool {
			got = zz2Do(w.top, w.pool, op, c, w.focus, 0, false)
			if !verifrt.Symbolic() && op != zz2Has && op != zz2Get && op != zz2GetSize {
				w.back.mu.Lock()
				stateOK = zz2SameState(w.back, twin)
				w.back.mu.Unlock()
				if op != zz2Delete && got.errk == 0 {
					// the put has returned and nobody deletes: the block must be visible from now on
					h := zz2Do(w.top, w.pool, zz2Has, c, w.focus, 0, false)
					seenAfterPut = h.errk == 0 && h.has
				}
			}
			return stateOK && seenAfterPut && zz2Same(got, want)
		}, func() {
			if verifrt.Symbolic() {
				rerr = w.bc.Rebuild(ctx0) // context prepared outside: no extra scheduling points
			} else {
				rerr = rebuild(mode, at)
			}
		}, rearm)
		verifrt.Assert("C02.conc-rebuild-store-state-equals-uncached-store", stateOK)
		verifrt.Assert("C02.conc-rebuild-then-stored-block-not-reported-missing", seenAfterPut)

		if want.errk == 0 && op == zz2Has && want.has {
			verifrt.Assert("C02.conc-rebuild-stored-block-not-reported-missing", got.errk == 0 && got.has)
		}
		verifrt.Assert("C02.conc-rebuild-answer-equals-uncached-store", zz2Same(got, want))
		verifrt.Assert("C02.conc-rebuild-store-state-equals-uncached-store", zz2SameState(w.back, twin))
		if complete {
			verifrt.Assert("C02.conc-rebuild-complete-enumeration-no-error", rerr == nil)
			verifrt.Assert("C02.conc-rebuild-complete-enumeration-activates", w.bc.BloomActive())
		} else {
			verifrt.Assert("C02.conc-rebuild-truncated-enumeration-reports-error", rerr != nil)
			verifrt.Assert("C02.conc-rebuild-truncated-enumeration-stays-inactive", !w.bc.BloomActive())
		}
		w.checkInvariant("conc-rebuild-")
		w.checkReads("conc-rebuild-then-")
	}()
	verifrt.Reach("end")
}

func HarnessC02ConcRebuildRead()  { zz2ConcRebuild([]int{zz2Has, zz2Get, zz2GetSize}) }
func HarnessC02ConcRebuildWrite() { zz2ConcRebuild([]int{zz2Put, zz2Delete, zz2PutMany01}) }

// the same scenarios, registered a second time with two pre-emptions (thorough tier only)
func HarnessC02ConcTQ2()           { zz2Conc(zz2LTQ) }
func HarnessC02ConcBloom2()        { zz2Conc(zz2LBloom) }
func HarnessC02ConcRebuildRead2()  { zz2ConcRebuild([]int{zz2Has, zz2Get, zz2GetSize}) }
func HarnessC02ConcRebuildWrite2() { zz2ConcRebuild([]int{zz2Put, zz2Delete, zz2PutMany01}) }

func HarnessC02ConcBuild()  { zz2ConcBuild() }
func HarnessC02ConcBuild2() { zz2ConcBuild() }

// zz2ConcBuild: the initial asynchronous build (bloomCached) races with one operation.
func zz2ConcBuild() {
	zz2Repeat(func() {
		ops := []int{zz2Has, zz2Get, zz2Put, zz2Delete}
		op := ops[zz2Range("op", 0, len(ops)-1)]
		w := zz2NewWorld(0, false, func(bk *zz2Back) Blockstore { return zz2Lower(bk, true, true) }, 64)
		ctx, cancel := context.WithCancel(context.Background())
		defer cancel()
		w.back.cancel = cancel
		complete, _ := zz2SetEnum(w, "build")
		t := zz2Range("target", 0, len(w.pool)-1)
		c := w.pool[t].cid(0)
		twin := w.back.clone()
		bc, err := bloomCached(ctx, w.top, 64*8, 3) // starts the build goroutine
		verifrt.Assert("C02.build-constructor-succeeds", err == nil && bc != nil)
		w.bc, w.top = bc, bc
		got := zz2Do(bc, w.pool, op, c, t, 0, false)
		werr := bc.Wait(context.Background())
		want := zz2Do(twin, w.pool, op, c, t, 0, false)
		verifrt.Assert("C02.conc-build-answer-equals-uncached-store", zz2Same(got, want))
		verifrt.Assert("C02.conc-build-store-state-equals-uncached-store", zz2SameState(w.back, twin))
		if complete {
			verifrt.Assert("C02.conc-build-complete-enumeration-activates", werr == nil && bc.BloomActive())
		} else {
			verifrt.Assert("C02.conc-build-truncated-enumeration-stays-inactive", werr != nil && !bc.BloomActive())
		}
		w.checkInvariant("conc-build-")
		w.checkReads("conc-build-then-")
	})
	verifrt.Reach("end")
}
