package tar

import (
	"archive/tar"
	"bytes"
	"errors"
	"io"
	"io/fs"
	"os"
	"path/filepath"
	"sort"
	"strings"
	"time"

	"github.com/ipfs/boxo/internal/verifrt"
)

// ----------------------------------------------------------------------------------------------- T1 kernel

// HarnessC38Path: the path-validation pipeline applied to every entry after the root
// (validateTarPath -> getRelativePath -> Extractor.outputPath). Path text of 1..N bytes over {'/', '.', 'a',
// 'b', NUL}, root entry name "a", every intermediate component an existing directory. An accepted path has no
// empty, "." or ".." component, no NUL, is not absolute, lies under the root entry, and the output path is the
// base joined with exactly those components (so component-wise strictly below the base).
func HarnessC38Path() {
	n := verifrt.NondetRange("n", 1, verifrt.Param("N", 6))
	pb := verifrt.NondetBytes("p", n)
	for i := range pb {
		verifrt.Assume(verifrt.OneOf(pb[i], "/.ab\x00"))
	}
	p := string(pb)
	const root = "a"

	base := "/w/t"
	cleanup := func() {}
	if verifrt.Symbolic() {
		zzvFS = zzvNewModel()
		zzvFS.lenient = true
	} else {
		tmp, err := os.MkdirTemp("", "zzvc38-")
		if err != nil {
			panic(err)
		}
		cleanup = func() { os.RemoveAll(tmp) }
		base = tmp + "/1/2/3/4/5/6/7/8/w/t"
		if err := os.MkdirAll(base, 0o755); err != nil {
			panic(err)
		}
	}
	defer cleanup()

	accepted := false
	out := ""
	if validateTarPath(p) == nil {
		if rel, err := getRelativePath(root, p); err == nil {
			if !verifrt.Symbolic() && !strings.Contains(rel, "\x00") {
				// natively the intermediate directories have to exist (at most 4 ".." fit into 8 bytes: the
				// nesting above keeps even a wrongly accepted path inside the temp dir)
				os.MkdirAll(filepath.Join(base, filepath.Dir(rel)), 0o755)
			}
			te := &Extractor{Path: base}
			o, err := te.outputPath(base, rel)
			if err == nil {
				accepted, out = true, o
			}
		}
	}
	verifrt.Observe("accepted", accepted)
	if !accepted {
		verifrt.Reach("end")
		return
	}
	verifrt.Assert("C38.path-output-has-base-prefix", strings.HasPrefix(out, base+"/"))
	if !strings.HasPrefix(out, base+"/") {
		return
	}
	below := out[len(base)+1:]
	verifrt.Observe("below", below)
	// reference: split the tar path by hand
	bad := p[0] == '/'
	start := 0
	ncomp := 0
	for i := 0; i <= len(p); i++ {
		if i == len(p) || p[i] == '/' {
			c := p[start:i]
			if c == "" || c == "." || c == ".." {
				bad = true
			}
			ncomp++
			start = i + 1
		}
	}
	verifrt.Assert("C38.path-no-empty-dot-dotdot-or-absolute", !bad)
	verifrt.Assert("C38.path-no-nul", !strings.Contains(p, "\x00"))
	verifrt.Assert("C38.path-under-root-entry", ncomp >= 2 && strings.HasPrefix(p, root+"/"))
	verifrt.Assert("C38.path-output-is-base-plus-components", strings.HasPrefix(p, root+"/") && below == p[len(root)+1:])
	verifrt.Assert("C38.path-output-clean", filepath.Clean(out) == out)
	verifrt.Reach("end")
}

// ------------------------------------------------------------------------------------- T3: Extract on the model

// zzvRec is one object outside the target as seen by lstat/readlink/read.
type zzvRec struct {
	rel     string
	kind    zzvKind
	mode    os.FileMode
	mt      int64
	payload string
}

const zzvOldTime = 1_000_000_000

// the model's "now" (what a directory's mtime becomes when an entry is created in or removed from it); outside
// the range of archive mtimes so that it cannot be confused with one
const zzvNowTime = 2_100_000_000

// zzvWorld is the situation an extraction runs in: <prefix>/w is the world, <prefix>/w/t the target,
// <prefix>/w/o (a directory with one file) and <prefix>/w/of (a file) are the things that must not change.
type zzvWorld struct {
	prefix  string
	cleanup func()
}

func (w *zzvWorld) p(path string) string { return w.prefix + path }

type zzvSeed struct {
	path   string
	kind   zzvKind
	mode   os.FileMode
	target string // absolute targets are given without the prefix and start with '/'
	data   string
}

func zzvSeeds(state int) []zzvSeed {
	s := []zzvSeed{
		{"/w", zzvDir, 0o755, "", ""},
		{"/w/o", zzvDir, 0o750, "", ""},
		{"/w/o/keep", zzvFile, 0o640, "", "k"},
		{"/w/of", zzvFile, 0o644, "", "x"},
	}
	switch state {
	case 0: // target missing
	case 1: // empty directory
		s = append(s, zzvSeed{"/w/t", zzvDir, 0o755, "", ""})
	case 2: // populated directory with links leading out
		s = append(s,
			zzvSeed{"/w/t", zzvDir, 0o755, "", ""},
			zzvSeed{"/w/t/d", zzvLink, 0o777, "/w/o", ""},
			zzvSeed{"/w/t/e", zzvDir, 0o755, "", ""},
			zzvSeed{"/w/t/e/g", zzvFile, 0o644, "", "g"},
			zzvSeed{"/w/t/f", zzvFile, 0o644, "", "f"},
			zzvSeed{"/w/t/l", zzvLink, 0o777, "../of", ""})
	case 3: // the target itself is a link to an outside directory
		s = append(s, zzvSeed{"/w/t", zzvLink, 0o777, "/w/o", ""})
	case 4: // the target is a file
		s = append(s, zzvSeed{"/w/t", zzvFile, 0o644, "", "old"})
	}
	return s
}

func zzvSetup(state int) *zzvWorld {
	w := &zzvWorld{cleanup: func() {}}
	seeds := zzvSeeds(state)
	if verifrt.Symbolic() {
		m := zzvNewModel()
		m.target = "/w/t"
		zzvFS = m
		for _, sd := range seeds {
			parent, name, _, err := m.walk(sd.path, false)
			if err != nil || parent == nil {
				panic("zzv seed " + sd.path)
			}
			n := &zzvNode{kind: sd.kind, mode: sd.mode, mtime: zzvOldTime, target: sd.target, data: []byte(sd.data)}
			if sd.kind == zzvDir {
				n.kids = map[string]*zzvNode{}
			}
			m.addChild(parent, name, n, sd.path == m.target)
		}
		m.escape = ""
		m.now = zzvNowTime
		return w
	}
	tmp, err := os.MkdirTemp("", "zzvc38-")
	if err != nil {
		panic(err)
	}
	w.prefix = tmp
	w.cleanup = func() { os.RemoveAll(tmp) }
	for _, sd := range seeds {
		var err error
		switch sd.kind {
		case zzvDir:
			err = os.Mkdir(w.p(sd.path), 0o700)
		case zzvFile:
			err = os.WriteFile(w.p(sd.path), []byte(sd.data), 0o600)
		case zzvLink:
			err = os.Symlink(w.link(sd.target), w.p(sd.path))
		}
		if err != nil {
			panic(err)
		}
	}
	// modes and times last (children first so directory times stick)
	for i := len(seeds) - 1; i >= 0; i-- {
		sd := seeds[i]
		if sd.kind != zzvLink {
			if err := os.Chmod(w.p(sd.path), sd.mode); err != nil {
				panic(err)
			}
			t := time.Unix(zzvOldTime, 0)
			if err := os.Chtimes(w.p(sd.path), t, t); err != nil {
				panic(err)
			}
		}
	}
	return w
}

// link maps a link target of the pools to the world: absolute targets get the prefix.
func (w *zzvWorld) link(t string) string {
	if strings.HasPrefix(t, "/") {
		return w.prefix + t
	}
	return t
}

// snapshot lists everything under <prefix>/w except the subtree at the target.
func (w *zzvWorld) snapshot() []zzvRec {
	var out []zzvRec
	if verifrt.Symbolic() {
		m := zzvFS
		var rec func(n *zzvNode, rel string)
		rec = func(n *zzvNode, rel string) {
			if rel == m.target {
				return
			}
			r := zzvRec{rel: rel, kind: n.kind, mode: n.mode, mt: n.mtime}
			switch n.kind {
			case zzvFile:
				r.payload = string(n.data)
			case zzvLink:
				r.payload = n.target
			}
			out = append(out, r)
			if n.kind == zzvDir {
				names := append([]string(nil), n.names...)
				sort.Strings(names)
				for _, c := range names {
					rec(n.kids[c], rel+"/"+c)
				}
			}
		}
		rec(m.root.kids["w"], "/w")
		return out
	}
	var rec func(rel string)
	rec = func(rel string) {
		if rel == "/w/t" {
			return
		}
		fi, err := os.Lstat(w.p(rel))
		if err != nil {
			panic(err)
		}
		r := zzvRec{rel: rel, mode: fi.Mode() & (fs.ModePerm | fs.ModeSetuid | fs.ModeSetgid | fs.ModeSticky), mt: fi.ModTime().Unix()}
		switch {
		case fi.Mode()&fs.ModeSymlink != 0:
			r.kind = zzvLink
			t, _ := os.Readlink(w.p(rel))
			r.payload = strings.TrimPrefix(t, w.prefix)
			r.mt = 0
		case fi.IsDir():
			r.kind = zzvDir
		default:
			r.kind = zzvFile
			b, _ := os.ReadFile(w.p(rel))
			r.payload = string(b)
		}
		out = append(out, r)
		if r.kind == zzvDir {
			ents, err := os.ReadDir(w.p(rel))
			if err != nil {
				panic(err)
			}
			for _, e := range ents {
				rec(rel + "/" + e.Name())
			}
		}
	}
	rec("/w")
	return out
}

// inside lists the target subtree as text (names, kinds, link targets): the observation that keeps the file
// system model honest against the real one.
func (w *zzvWorld) inside() string {
	var sb strings.Builder
	if verifrt.Symbolic() {
		m := zzvFS
		var rec func(n *zzvNode, rel string)
		rec = func(n *zzvNode, rel string) {
			sb.WriteString(rel)
			switch n.kind {
			case zzvDir:
				sb.WriteString("/ ")
				names := append([]string(nil), n.names...)
				sort.Strings(names)
				for _, c := range names {
					rec(n.kids[c], rel+"/"+c)
				}
			case zzvFile:
				sb.WriteString("=" + string(n.data) + " ")
			case zzvLink:
				sb.WriteString("->" + n.target + " ")
			}
		}
		if t := m.root.kids["w"].kids["t"]; t != nil {
			rec(t, "t")
		}
		return sb.String()
	}
	var rec func(path, rel string)
	rec = func(path, rel string) {
		fi, err := os.Lstat(path)
		if err != nil {
			return
		}
		sb.WriteString(rel)
		switch {
		case fi.Mode()&fs.ModeSymlink != 0:
			t, _ := os.Readlink(path)
			sb.WriteString("->" + strings.TrimPrefix(t, w.prefix) + " ")
		case fi.IsDir():
			sb.WriteString("/ ")
			ents, _ := os.ReadDir(path)
			for _, e := range ents {
				rec(path+"/"+e.Name(), rel+"/"+e.Name())
			}
		default:
			b, _ := os.ReadFile(path)
			sb.WriteString("=" + string(b) + " ")
		}
	}
	rec(w.p("/w/t"), "t")
	return sb.String()
}

// zzvCompare is the property's observable: nothing outside the target was created, removed, replaced, or had
// its content, permissions or modification time changed. /w itself (the target's parent) legitimately gets a
// new modification time when the target is created in it.
func zzvCompare(before, after []zzvRec) {
	find := func(l []zzvRec, rel string) *zzvRec {
		for i := range l {
			if l[i].rel == rel {
				return &l[i]
			}
		}
		return nil
	}
	for i := range before {
		b := &before[i]
		a := find(after, b.rel)
		verifrt.Assert("C38.outside-object-not-removed", a != nil)
		if a == nil {
			continue
		}
		verifrt.Assert("C38.outside-object-not-replaced", a.kind == b.kind)
		verifrt.Assert("C38.outside-content-unchanged", a.payload == b.payload)
		verifrt.Assert("C38.outside-mode-unchanged", a.mode == b.mode)
		if b.rel != "/w" {
			verifrt.Assert("C38.outside-mtime-unchanged", a.mt == b.mt)
		}
	}
	for i := range after {
		verifrt.Assert("C38.outside-object-not-created", find(before, after[i].rel) != nil)
	}
}

var zzvTypes = []byte{tar.TypeDir, tar.TypeReg, tar.TypeSymlink, tar.TypeFifo}

// entry names after the root "r": plain, nested, through the pre-existing links d/l, colliding with the
// pre-existing objects, and hostile ones (covered byte-wise by HarnessC38Path, here for the composition)
var zzvNames = []string{"r/d", "r/d/x", "r/f", "r/e", "r/l", "r/n", "r/n/x", "r/../o/x", "r/d/../../of", "/w/of", "x", "r"}

// link targets: absolute outside directory / file, relative escapes, inside
var zzvLinks = []string{"/w/o", "../o", "/w/of", "..", "f", "../../w/o"}

func zzvTarBytes(w *zzvWorld, ents []zzvEntry) []byte {
	var buf bytes.Buffer
	tw := tar.NewWriter(&buf)
	for _, e := range ents {
		h := &tar.Header{Typeflag: e.typ, Name: e.name, Linkname: e.link, Mode: e.mode, ModTime: time.Unix(e.mt, 0), Size: int64(len(e.data))}
		if err := tw.WriteHeader(h); err != nil {
			panic("zzv tar encode: " + err.Error())
		}
		if len(e.data) > 0 {
			tw.Write(e.data)
		}
	}
	tw.Close()
	return buf.Bytes()
}

// zzvRun extracts the archive "ents followed by whatever gen yields" and applies the property's oracle.
// gen(i) describes the i-th further member (ok=false: end of archive). Under the engine it is called by the
// scripted tar reader only when Extract asks for the next header, so the choices for members behind the point at
// which Extract gives up are never enumerated (Extract does not read them either); natively the members are
// drawn up front in the same order (inputs that the engine never chose read as 0 = "no further member").
func zzvRun(w *zzvWorld, ents []zzvEntry, gen func(i int) (zzvEntry, bool)) {
	before := w.snapshot()
	var rd io.Reader
	if verifrt.Symbolic() {
		zzvNextScript = &zzvScript{ents: ents, gen: gen}
		// os.ErrNotExist lives in an opaque package whose init never ran
		os.ErrNotExist = fs.ErrNotExist
		os.ErrExist = fs.ErrExist
	} else {
		if gen != nil {
			for i := 0; ; i++ {
				e, ok := gen(i)
				if !ok {
					break
				}
				ents = append(ents, e)
			}
		}
		rd = bytes.NewReader(zzvTarBytes(w, ents))
	}
	te := &Extractor{Path: w.p("/w/t")}
	err := te.Extract(rd)
	verifrt.Observe("ok", err == nil)
	if err != nil && verifrt.Symbolic() && verifrt.Param("DBG", 0) == 1 {
		msg := "other"
		var pe *fs.PathError
		var le *os.LinkError
		if errors.As(err, &pe) {
			msg = "patherr " + pe.Op + " " + pe.Path
			if pe.Err == nil {
				msg += " nilErr"
			}
		} else if errors.As(err, &le) {
			msg = "linkerr " + le.Op + " " + le.Old + " " + le.New
			if le.Err == nil {
				msg += " nilErr"
			}
		}
		verifrt.Assert("dbg:"+msg, false)
	}
	verifrt.Observe("inside", w.inside())
	after := w.snapshot()
	zzvCompare(before, after)
	if verifrt.Symbolic() {
		// per-call oracle of the model: no mutating call resolved to an object outside the target
		verifrt.Assert("C38.no-call-lands-outside", zzvFS.escape == "")
	}
	verifrt.Reach("end")
}

// zzvPools bounds the further members of an archive: at most k of them, each with a type, a name and (for
// symlinks) a link target from the pools; mode and mtime are symbolic.
type zzvPools struct {
	types []byte
	names []string
	links []string
	k     int
}

func zzvEntryFromPools(w *zzvWorld, i int, p *zzvPools) zzvEntry {
	e := zzvEntry{}
	e.typ = p.types[verifrt.NondetRange("typ", 0, len(p.types)-1)]
	e.name = p.names[verifrt.NondetRange("name", 0, len(p.names)-1)]
	if strings.HasPrefix(e.name, "/") {
		e.name = w.prefix + e.name
	}
	if e.typ == tar.TypeSymlink {
		e.link = w.link(p.links[verifrt.NondetRange("link", 0, len(p.links)-1)])
	}
	if e.typ == tar.TypeReg {
		e.data = []byte{'D', byte('0' + i)}
	}
	mode := verifrt.NondetU32("mode")
	verifrt.Assume(mode <= 0o7777)
	e.mode = int64(mode)
	// archive/tar never yields an unset time: an absent mtime field reads as the Unix epoch (mt = 0)
	mt := verifrt.NondetI64("mt")
	verifrt.Assume(mt >= 0 && mt <= 2_000_000_000)
	e.mt = mt
	return e
}

// zzvGen: 0..p.k further members, each drawn from the pools; whether there is a further member is a choice too.
func zzvGen(w *zzvWorld, p *zzvPools) func(i int) (zzvEntry, bool) {
	return func(i int) (zzvEntry, bool) {
		if i >= p.k || verifrt.NondetRange("more", 0, 1) == 0 {
			return zzvEntry{}, false
		}
		return zzvEntryFromPools(w, i, p), true
	}
}

func zzvRootDir() zzvEntry {
	rootMode := verifrt.NondetU32("rootmode")
	verifrt.Assume(rootMode <= 0o7777)
	return zzvEntry{typ: tar.TypeDir, name: "r", mode: int64(rootMode), mt: 1_500_000_000}
}

// HarnessC38Extract (breadth): root directory entry "r" followed by 0..K entries (4 types, the wide name pool
// incl. hostile names and names through pre-existing links; mode and mtime symbolic) into each of the five
// pre-populated situations.
func HarnessC38Extract() {
	state := verifrt.NondetRange("state", 0, 4)
	w := zzvSetup(state)
	defer w.cleanup()
	p := &zzvPools{types: zzvTypes, k: verifrt.Param("K", 2),
		names: zzvNames[:verifrt.Param("NAMES", len(zzvNames))],
		links: zzvLinks[:verifrt.Param("L", len(zzvLinks))]}
	zzvRun(w, []zzvEntry{zzvRootDir()}, zzvGen(w, p))
}

// Sequences in which later members act on what earlier members of the same archive left behind: the same name
// again with another type (dir->symlink, dir->file, symlink->dir, file->dir, ...), members below a name an
// earlier member created or replaced, siblings with shorter and longer names (deferUpdate applies the pending
// directory metadata early depending on path lengths), link targets leading out of the target absolutely and
// by "..". SN/SL cut the pools per tier.
var zzvSeqTypes = []byte{tar.TypeDir, tar.TypeSymlink, tar.TypeReg}
var zzvSeqNames = []string{"r/d", "r/d/x", "r/dd", "r/e"}
var zzvSeqLinks = []string{"/w/o", "../o", "/w/of"}

// HarnessC38Seq (depth): root directory entry "r" followed by 0..K entries from the small pools above (type in
// {dir, symlink, file}; mode and mtime symbolic) into each of the five pre-populated situations.
func HarnessC38Seq() {
	state := verifrt.NondetRange("state", verifrt.Param("S0", 0), verifrt.Param("S1", 4))
	w := zzvSetup(state)
	defer w.cleanup()
	p := &zzvPools{types: zzvSeqTypes, k: verifrt.Param("K", 3),
		names: zzvSeqNames[:verifrt.Param("SN", len(zzvSeqNames))],
		links: zzvSeqLinks[:verifrt.Param("SL", len(zzvSeqLinks))]}
	root := zzvRootDir()
	if verifrt.Param("RM0", 1) == 0 {
		// tier bound: the root entry carries a non-zero mode (mode 0 = "no mode recorded" is a separate path
		// through deferUpdate/updateMode for every archive; HarnessC38Extract keeps it)
		verifrt.Assume(root.mode != 0)
	}
	zzvRun(w, []zzvEntry{root}, zzvGen(w, p))
}

// HarnessC38Seq4: as HarnessC38Seq with its own (longer, narrower) bounds.
func HarnessC38Seq4() { HarnessC38Seq() }

// HarnessC38Single: archives whose first entry is a file or a symlink (cp-like semantics: the object is put at
// the target path, or inside it when the target is an existing directory), optionally followed by a second entry
// (which must be refused).
func HarnessC38Single() {
	state := verifrt.NondetRange("state", 0, 4)
	w := zzvSetup(state)
	defer w.cleanup()
	rootNames := []string{"r", "d", "f", "l", "e", "..", "../of", ".", "o/../../of"}
	first := zzvEntryFromPools(w, 0, &zzvPools{types: zzvTypes, names: rootNames, links: zzvLinks[:verifrt.Param("L", len(zzvLinks))]})
	verifrt.Assume(first.typ != tar.TypeDir)
	ents := []zzvEntry{first}
	if verifrt.NondetRange("second", 0, 1) == 1 {
		ents = append(ents, zzvEntry{typ: tar.TypeReg, name: first.name + "/x", mode: 0o644, mt: 5, data: []byte("S")})
	}
	zzvRun(w, ents, nil)
}
