package tar

import (
	"archive/tar"
	"errors"
	"io"
	"io/fs"
	"os"
	"sort"
	"strconv"
	"strings"
	"time"

	"github.com/ipfs/boxo/internal/verifrt"
)

// ---------------------------------------------------------------------------------------------------------
// In-memory POSIX file-system model. Under the engine the os.* calls of tar/extractor.go and files/meta*.go are
// bound to the zzvOs* functions below (spec.json "stubs"); natively the real os calls run against a temp dir.
//
// Symlink resolution per call follows POSIX: Lstat, Remove, Rename, Symlink and utimensat(AT_SYMLINK_NOFOLLOW)
// do not follow a symlink in the final component; Stat, Chmod, MkdirAll, CreateTemp's directory do. Symlinks in
// non-final components are always followed. Permission bits are recorded but never enforced (the native replay
// runs as root, too). Creating or removing a directory entry sets the directory's modification time to "now".

type zzvKind int

const (
	zzvDir zzvKind = iota + 1
	zzvFile
	zzvLink
)

type zzvNode struct {
	kind    zzvKind
	mode    os.FileMode // permission bits (+setuid/setgid/sticky as os.FileMode flags)
	mtime   int64       // seconds
	target  string      // symlink target
	data    []byte
	names   []string // directory entries in creation order
	kids    map[string]*zzvNode
	outside bool // not at or below the extraction target
}

type zzvModel struct {
	root    *zzvNode
	lenient bool // path-kernel mode: every Lstat answers "directory"
	handles map[*os.File]*zzvHandle
	tmpSeq  int
	target  string // absolute path of the extraction target
	// first mutation that landed outside the target (engine-side per-call oracle)
	escape string
	// modification time a directory gets when an entry is created in or removed from it (0 while seeding)
	now int64
}

type zzvHandle struct {
	node *zzvNode
	name string
}

var zzvFS *zzvModel

var (
	zzvENOTDIR   = errors.New("not a directory")
	zzvENOTEMPTY = errors.New("directory not empty")
	zzvELOOP     = errors.New("too many levels of symbolic links")
	zzvEISDIR    = errors.New("is a directory")
	zzvEINVAL    = errors.New("invalid argument")
)

func zzvNewModel() *zzvModel {
	return &zzvModel{root: &zzvNode{kind: zzvDir, mode: 0o755, kids: map[string]*zzvNode{}, outside: true},
		handles: map[*os.File]*zzvHandle{}}
}

func zzvPathErr(op, path string, err error) error { return &fs.PathError{Op: op, Path: path, Err: err} }

type zzvStep struct {
	n    *zzvNode
	name string
}

// walk resolves an absolute path. It returns the directory holding the final component, the final component's
// name and the node it names (nil if it does not exist). followLast decides whether a symlink in the final
// position is followed.
func (m *zzvModel) walk(path string, followLast bool) (parent *zzvNode, name string, n *zzvNode, err error) {
	if strings.Contains(path, "\x00") {
		return nil, "", nil, zzvEINVAL
	}
	if path == "" || path[0] != '/' {
		return nil, "", nil, fs.ErrNotExist // the harness only uses absolute paths
	}
	stack := []zzvStep{{m.root, ""}}
	comps := strings.Split(path, "/")
	hops := 0
	for len(comps) > 0 {
		c := comps[0]
		comps = comps[1:]
		rest := false
		for _, r := range comps {
			if r != "" && r != "." {
				rest = true
			}
		}
		top := stack[len(stack)-1].n
		switch c {
		case "", ".":
			continue
		case "..":
			if len(stack) > 1 {
				stack = stack[:len(stack)-1]
			}
			continue
		}
		if top.kind != zzvDir {
			return nil, "", nil, zzvENOTDIR
		}
		ch := top.kids[c]
		if ch == nil {
			if rest {
				return nil, "", nil, fs.ErrNotExist
			}
			return top, c, nil, nil
		}
		if ch.kind == zzvLink && (rest || followLast) {
			hops++
			if hops > 8 {
				return nil, "", nil, zzvELOOP
			}
			if ch.target == "" {
				return nil, "", nil, fs.ErrNotExist
			}
			if strings.Contains(ch.target, "\x00") {
				return nil, "", nil, zzvEINVAL
			}
			tc := strings.Split(ch.target, "/")
			if ch.target[0] == '/' {
				stack = stack[:1]
			}
			comps = append(tc, comps...)
			if !rest {
				// the link was the final component: whatever it resolves to is the result
				// (a dangling final link resolves to "missing entry in the link's directory")
			}
			continue
		}
		if !rest {
			if ch.kind == zzvDir {
				stack = append(stack, zzvStep{ch, c})
				break
			}
			return top, c, ch, nil
		}
		if ch.kind != zzvDir {
			return nil, "", nil, zzvENOTDIR
		}
		stack = append(stack, zzvStep{ch, c})
	}
	// the path named a directory (possibly through "..", "." or a followed link)
	last := stack[len(stack)-1]
	if len(stack) == 1 {
		return nil, "", last.n, nil
	}
	return stack[len(stack)-2].n, last.name, last.n, nil
}

func (m *zzvModel) noteEscape(what string) {
	if m.escape == "" {
		m.escape = what
	}
}

func (m *zzvModel) addChild(dir *zzvNode, name string, n *zzvNode, isTarget bool) {
	n.outside = dir.outside && !isTarget
	dir.kids[name] = n
	dir.names = append(dir.names, name)
	if m.now != 0 {
		dir.mtime = m.now
	}
}

func (m *zzvModel) delChild(dir *zzvNode, name string) {
	if m.now != 0 {
		dir.mtime = m.now
	}
	delete(dir.kids, name)
	for i, x := range dir.names {
		if x == name {
			dir.names = append(dir.names[:i:i], dir.names[i+1:]...)
			break
		}
	}
}

// ------------------------------------------------------------------------------------------ os.* bindings

type zzvInfo struct {
	name string
	mode os.FileMode
	mt   int64
}

func (i *zzvInfo) Name() string       { return i.name }
func (i *zzvInfo) Size() int64        { return 0 }
func (i *zzvInfo) Mode() os.FileMode  { return i.mode }
func (i *zzvInfo) ModTime() time.Time { return time.Unix(i.mt, 0) }
func (i *zzvInfo) IsDir() bool        { return i.mode.IsDir() }
func (i *zzvInfo) Sys() any           { return nil }

func zzvInfoOf(name string, n *zzvNode) os.FileInfo {
	m := n.mode
	switch n.kind {
	case zzvDir:
		m |= os.ModeDir
	case zzvLink:
		m |= os.ModeSymlink
	}
	return &zzvInfo{name: name, mode: m, mt: n.mtime}
}

func zzvOsLstat(path string) (os.FileInfo, error) {
	m := zzvFS
	if m.lenient {
		if strings.Contains(path, "\x00") {
			return nil, zzvPathErr("lstat", path, zzvEINVAL)
		}
		return &zzvInfo{name: path, mode: os.ModeDir | 0o755}, nil
	}
	_, name, n, err := m.walk(path, false)
	if err != nil {
		return nil, zzvPathErr("lstat", path, err)
	}
	if n == nil {
		return nil, zzvPathErr("lstat", path, fs.ErrNotExist)
	}
	return zzvInfoOf(name, n), nil
}

func zzvOsIsNotExist(err error) bool { return errors.Is(err, fs.ErrNotExist) }

// mkdir creates one directory (final component not followed; an existing entry of any kind is EEXIST).
func (m *zzvModel) mkdir(path string, perm os.FileMode) error {
	parent, name, n, err := m.walk(path, false)
	if err != nil {
		return zzvPathErr("mkdir", path, err)
	}
	if n != nil {
		return zzvPathErr("mkdir", path, fs.ErrExist)
	}
	if parent.outside && path != m.target {
		m.noteEscape("mkdir " + path)
	}
	m.addChild(parent, name, &zzvNode{kind: zzvDir, mode: perm & 0o777, kids: map[string]*zzvNode{}}, path == m.target)
	return nil
}

// MkdirAll as implemented by package os: Stat (following links); missing => make the parent, then Mkdir; if
// that fails, an Lstat that shows a directory still counts as success.
func zzvOsMkdirAll(path string, perm os.FileMode) error {
	m := zzvFS
	_, _, n, err := m.walk(path, true)
	if err == nil && n != nil {
		if n.kind == zzvDir {
			return nil
		}
		return zzvPathErr("mkdir", path, zzvENOTDIR)
	}
	i := len(path)
	for i > 0 && path[i-1] == '/' {
		i--
	}
	j := i
	for j > 0 && path[j-1] != '/' {
		j--
	}
	if j > 1 {
		if err := zzvOsMkdirAll(path[:j-1], perm); err != nil {
			return err
		}
	}
	err = m.mkdir(path, perm)
	if err != nil {
		_, _, n, err1 := m.walk(path, false)
		if err1 == nil && n != nil && n.kind == zzvDir {
			return nil
		}
		return err
	}
	return nil
}

func zzvOsRemove(path string) error {
	m := zzvFS
	parent, name, n, err := m.walk(path, false)
	if err != nil {
		return zzvPathErr("remove", path, err)
	}
	if n == nil {
		return zzvPathErr("remove", path, fs.ErrNotExist)
	}
	if parent == nil {
		return zzvPathErr("remove", path, zzvEINVAL)
	}
	if n.kind == zzvDir && len(n.names) > 0 {
		return zzvPathErr("remove", path, zzvENOTEMPTY)
	}
	if n.outside {
		m.noteEscape("remove " + path)
	}
	m.delChild(parent, name)
	return nil
}

func zzvOsSymlink(oldname, newname string) error {
	m := zzvFS
	parent, name, n, err := m.walk(newname, false)
	if err != nil {
		return &os.LinkError{Op: "symlink", Old: oldname, New: newname, Err: err}
	}
	if n != nil {
		return &os.LinkError{Op: "symlink", Old: oldname, New: newname, Err: fs.ErrExist}
	}
	if oldname == "" {
		return &os.LinkError{Op: "symlink", Old: oldname, New: newname, Err: fs.ErrNotExist}
	}
	if strings.Contains(oldname, "\x00") {
		return &os.LinkError{Op: "symlink", Old: oldname, New: newname, Err: zzvEINVAL}
	}
	if parent.outside && newname != m.target {
		m.noteEscape("symlink " + newname)
	}
	m.addChild(parent, name, &zzvNode{kind: zzvLink, mode: 0o777, target: oldname}, newname == m.target)
	return nil
}

func zzvOsChmod(path string, mode os.FileMode) error {
	m := zzvFS
	_, _, n, err := m.walk(path, true)
	if err != nil {
		return zzvPathErr("chmod", path, err)
	}
	if n == nil {
		return zzvPathErr("chmod", path, fs.ErrNotExist)
	}
	if n.outside {
		m.noteEscape("chmod " + path)
	}
	n.mode = mode &^ os.ModeType
	return nil
}

// files.updateMtime: utimensat(AT_FDCWD, path, {mtime, mtime}, AT_SYMLINK_NOFOLLOW); no-op for the zero time.
func zzvUpdateMtime(path string, mtime time.Time) error {
	if mtime.IsZero() {
		return nil
	}
	m := zzvFS
	_, _, n, err := m.walk(path, false)
	if err != nil {
		return err
	}
	if n == nil {
		return fs.ErrNotExist
	}
	if n.outside {
		m.noteEscape("utimensat " + path)
	}
	n.mtime = mtime.Unix()
	return nil
}

func zzvOsCreateTemp(dir, pattern string) (*os.File, error) {
	m := zzvFS
	_, _, n, err := m.walk(dir, true)
	if err != nil {
		return nil, zzvPathErr("open", dir, err)
	}
	if n == nil {
		return nil, zzvPathErr("open", dir, fs.ErrNotExist)
	}
	if n.kind != zzvDir {
		return nil, zzvPathErr("open", dir, zzvENOTDIR)
	}
	m.tmpSeq++
	name := ".zzvtmp" + strconv.Itoa(m.tmpSeq)
	// a temporary file next to a single-file target (i.e. in the target's parent) is transient and allowed;
	// anywhere else outside is an escape. The final snapshot catches anything left behind.
	if n.outside && dir != zzvParent(m.target) {
		m.noteEscape("createtemp " + dir)
	}
	f := &zzvNode{kind: zzvFile, mode: 0o600}
	m.addChild(n, name, f, false)
	h := new(os.File)
	m.handles[h] = &zzvHandle{node: f, name: dir + "/" + name}
	return h, nil
}

func zzvFileWrite(f *os.File, b []byte) (int, error) {
	h := zzvFS.handles[f]
	if h == nil {
		return 0, fs.ErrClosed
	}
	h.node.data = append(h.node.data, b...)
	return len(b), nil
}

func zzvFileClose(f *os.File) error { return nil }

func zzvFileName(f *os.File) string {
	if h := zzvFS.handles[f]; h != nil {
		return h.name
	}
	return ""
}

func zzvOsRename(oldpath, newpath string) error {
	m := zzvFS
	op, on, o, err := m.walk(oldpath, false)
	if err != nil || o == nil || op == nil {
		if err == nil {
			err = fs.ErrNotExist
		}
		return &os.LinkError{Op: "rename", Old: oldpath, New: newpath, Err: err}
	}
	np, nn, n, err := m.walk(newpath, false)
	if err != nil {
		return &os.LinkError{Op: "rename", Old: oldpath, New: newpath, Err: err}
	}
	if np == nil {
		return &os.LinkError{Op: "rename", Old: oldpath, New: newpath, Err: zzvEINVAL}
	}
	if n != nil {
		if n.kind == zzvDir && o.kind != zzvDir {
			return &os.LinkError{Op: "rename", Old: oldpath, New: newpath, Err: zzvEISDIR}
		}
		if n.kind != zzvDir && o.kind == zzvDir {
			return &os.LinkError{Op: "rename", Old: oldpath, New: newpath, Err: zzvENOTDIR}
		}
		if n.kind == zzvDir && len(n.names) > 0 {
			return &os.LinkError{Op: "rename", Old: oldpath, New: newpath, Err: zzvENOTEMPTY}
		}
		if n.outside {
			m.noteEscape("rename over " + newpath)
		}
		m.delChild(np, nn)
	}
	if np.outside && newpath != m.target {
		m.noteEscape("rename to " + newpath)
	}
	m.delChild(op, on)
	m.addChild(np, nn, o, newpath == m.target)
	return nil
}

// ------------------------------------------------------------------------------------------ tar stream

// zzvEntry is one archive member as the harness describes it.
type zzvEntry struct {
	typ  byte
	name string
	link string
	mode int64
	mt   int64 // seconds; archive/tar never yields an unset time (absent = Unix epoch)
	data []byte
}

type zzvScript struct {
	ents []zzvEntry
	gen  func(i int) (zzvEntry, bool) // further members, drawn when the reader asks for them
	ngen int
	pos  int
	off  int
}

var zzvScripts = map[*tar.Reader]*zzvScript{}
var zzvNextScript *zzvScript

// Under the engine tar.NewReader / Reader.Next / Reader.Read are bound to these: the members are handed over
// as Header values (what archive/tar would have parsed); natively the members are really encoded with
// tar.Writer and parsed by the real reader.
func zzvTarNewReader(r io.Reader) *tar.Reader {
	tr := new(tar.Reader)
	zzvScripts[tr] = zzvNextScript
	return tr
}

func zzvTarNext(tr *tar.Reader) (*tar.Header, error) {
	s := zzvScripts[tr]
	if s != nil && s.pos == len(s.ents) && s.gen != nil {
		if e, ok := s.gen(s.ngen); ok {
			s.ngen++
			s.ents = append(s.ents, e)
		} else {
			s.gen = nil
		}
	}
	if s == nil || s.pos >= len(s.ents) {
		if s != nil {
			s.pos = len(s.ents) + 1
		}
		return nil, io.EOF
	}
	e := s.ents[s.pos]
	s.pos++
	s.off = 0
	return &tar.Header{Typeflag: e.typ, Name: e.name, Linkname: e.link, Mode: e.mode, ModTime: time.Unix(e.mt, 0), Size: int64(len(e.data))}, nil
}

func zzvTarRead(tr *tar.Reader, b []byte) (int, error) {
	s := zzvScripts[tr]
	if s == nil || s.pos == 0 || s.pos > len(s.ents) {
		return 0, io.EOF
	}
	d := s.ents[s.pos-1].data
	if s.off >= len(d) {
		return 0, io.EOF
	}
	n := copy(b, d[s.off:])
	s.off += n
	return n, nil
}

func zzvParent(p string) string {
	i := strings.LastIndexByte(p, '/')
	if i <= 0 {
		return "/"
	}
	return p[:i]
}

var _ = verifrt.Symbolic
var _ = sort.Strings
