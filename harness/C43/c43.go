package iter

import (
	"errors"

	"github.com/ipfs/boxo/internal/verifrt"
)

// zzvSrc is the recording source iterator: a fixed list of values, counting every call it receives.
type zzvSrc struct {
	vals           []uint32
	i              int // number of successful Next calls so far
	cur            uint32
	nextCalls      int
	closeCalls     int
	nextAfterClose int
	nextAfterEnd   int // Next calls after the source already reported exhaustion
	ended          bool
}

func (s *zzvSrc) Next() bool {
	s.nextCalls++
	if s.closeCalls > 0 {
		s.nextAfterClose++
	}
	if s.ended {
		s.nextAfterEnd++
		return false
	}
	if s.i >= len(s.vals) {
		s.ended = true
		return false
	}
	s.cur = s.vals[s.i]
	s.i++
	return true
}

func (s *zzvSrc) Val() uint32 { return s.cur }

func (s *zzvSrc) Close() error {
	s.closeCalls++
	return nil
}

// reference element: the value and the index of the source element it stems from
type zzvEl struct {
	v   uint32
	src int
}

const (
	zzvMap = iota
	zzvFilter
	zzvLimit
)

func zzvMapFn(k uint32) func(uint32) uint32 { return func(v uint32) uint32 { return (v ^ k) + 1 } }
func zzvPred(m uint32) func(uint32) bool    { return func(v uint32) bool { return v&m == 0 } }

// HarnessC43Compose builds a composition of Map/Filter/Limit of depth 1..D over a recording source of n
// symbolic values and compares what it yields with the list semantics map / filter / take-prefix.
func HarnessC43Compose() {
	N := verifrt.Param("N", 3)
	D := verifrt.Param("D", 2)
	L := verifrt.Param("L", 4)
	n := verifrt.NondetRange("n", 0, N)
	depth := verifrt.NondetRange("depth", 1, D)
	src := &zzvSrc{vals: make([]uint32, n)}
	ref := make([]zzvEl, n)
	for i := 0; i < n; i++ {
		src.vals[i] = verifrt.NondetU32("v")
		ref[i] = zzvEl{src.vals[i], i}
	}
	// bound on source reads implied by a Limit layer that reached its cap: -1 = none
	capIdx := -1
	var it Iter[uint32] = src
	for d := 0; d < depth; d++ {
		kind := verifrt.NondetRange("kind", 0, 2)
		switch kind {
		case zzvMap:
			k := verifrt.NondetU32("k")
			it = Map[uint32, uint32](it, zzvMapFn(k))
			for i := range ref {
				ref[i].v = (ref[i].v ^ k) + 1
			}
		case zzvFilter:
			m := verifrt.NondetU32("m")
			it = Filter[uint32](it, zzvPred(m))
			var out []zzvEl
			for _, e := range ref {
				if e.v&m == 0 {
					out = append(out, e)
				}
			}
			ref = out
		case zzvLimit:
			l := verifrt.NondetInt("l")
			verifrt.Assume(l >= -1)
			verifrt.Assume(l <= L)
			it = Limit[uint32](it, l)
			// take-prefix; a limit of 0 or less is documented as "no limit"
			if l > 0 && len(ref) >= l {
				ref = ref[:l]
				// the l-th input of this layer stems from source element ref[l-1].src
				if capIdx < 0 || ref[l-1].src < capIdx {
					capIdx = ref[l-1].src
				}
			}
		}
	}
	verifrt.Observe("reflen", len(ref))

	mode := verifrt.NondetRange("mode", 0, 2)
	var got []uint32
	switch mode {
	case 0:
		got = ReadAll[uint32](it)
	case 1:
		// manual driver: Val is stable and does not advance anything
		for it.Next() {
			before := src.nextCalls
			a := it.Val()
			b := it.Val()
			verifrt.Assert("C43.val-stable", a == b)
			verifrt.Assert("C43.val-does-not-advance", src.nextCalls == before)
			got = append(got, a)
		}
		again := it.Next()
		verifrt.Assert("C43.stays-exhausted", !again)
		verifrt.Assert("C43.close-returns-source-result", it.Close() == nil)
	case 2:
		// stop early after `stop` values, then close
		stop := verifrt.NondetRange("stop", 0, N)
		verifrt.Assume(stop <= len(ref))
		for len(got) < stop && it.Next() {
			got = append(got, it.Val())
		}
		verifrt.Assert("C43.prefix-len", len(got) == stop)
		it.Close()
		for i := range got {
			verifrt.Assert("C43.prefix-values", got[i] == ref[i].v)
		}
		verifrt.Assert("C43.close-reaches-source-once", src.closeCalls == 1)
		if stop > 0 {
			// yielding element number stop needs the source up to ref[stop-1].src, one more is tolerated
			verifrt.Assert("C43.early-stop-readahead", src.nextCalls <= ref[stop-1].src+2)
		} else {
			verifrt.Assert("C43.early-stop-readahead", src.nextCalls == 0)
		}
		verifrt.Reach("end")
		return
	}
	verifrt.Observe("gotlen", len(got))
	verifrt.Assert("C43.length", len(got) == len(ref))
	if len(got) == len(ref) {
		for i := range got {
			verifrt.Assert("C43.values", got[i] == ref[i].v)
		}
	}
	verifrt.Assert("C43.close-reaches-source-once", src.closeCalls == 1)
	verifrt.Assert("C43.no-next-after-close", src.nextAfterClose == 0)
	if capIdx >= 0 {
		// a Limit layer reached its cap at source element capIdx: at most one element past it may be read
		verifrt.Assert("C43.no-read-past-limit", src.nextCalls <= capIdx+2)
	}
	if mode == 0 {
		verifrt.Assert("C43.no-next-after-end", src.nextAfterEnd == 0)
	}
	verifrt.Reach("end")
}

// HarnessC43Slice: slice iterators are the list itself; ToResultIter/ReadAllResults round-trip, an error
// result aborts ReadAllResults; ReadAll(nil) is nil.
func HarnessC43Slice() {
	N := verifrt.Param("N", 3)
	n := verifrt.NondetRange("n", 0, N)
	s := make([]uint16, n)
	for i := range s {
		s[i] = verifrt.NondetU16("s")
	}
	it := FromSlice(s)
	var got []uint16
	for it.Next() {
		a := it.Val()
		verifrt.Assert("C43.slice-val-stable", a == it.Val())
		got = append(got, a)
	}
	verifrt.Assert("C43.slice-stays-exhausted", !it.Next())
	verifrt.Assert("C43.slice-close", it.Close() == nil)
	verifrt.Assert("C43.slice-length", len(got) == n)
	for i := range got {
		verifrt.Assert("C43.slice-values", got[i] == s[i])
	}
	got2 := ReadAll[uint16](FromSlice(s))
	verifrt.Assert("C43.slice-readall-length", len(got2) == n)
	for i := range got2 {
		verifrt.Assert("C43.slice-readall-values", got2[i] == s[i])
	}
	var nilIter Iter[uint16]
	verifrt.Assert("C43.readall-nil", ReadAll[uint16](nilIter) == nil)

	// results: values wrapped by ToResultIter come back unwrapped
	vs, err := ReadAllResults[uint16](ToResultIter[uint16](FromSlice(s)))
	verifrt.Assert("C43.results-roundtrip-err", err == nil)
	verifrt.Assert("C43.results-roundtrip-length", len(vs) == n)
	for i := range vs {
		verifrt.Assert("C43.results-roundtrip-values", vs[i] == s[i])
	}
	// an error at position e aborts
	if n > 0 {
		e := verifrt.NondetRange("e", 0, n-1)
		rs := make([]Result[uint16], n)
		boom := errors.New("boom")
		for i := range rs {
			rs[i].Val = s[i]
		}
		rs[e].Err = boom
		vs, err = ReadAllResults[uint16](FromSlice(rs))
		verifrt.Assert("C43.results-error-reported", err != nil && errors.Is(err, boom))
		verifrt.Assert("C43.results-error-no-values", vs == nil)
		// a limit in front of the error hides it
		l := verifrt.NondetInt("l")
		verifrt.Assume(l >= 1)
		verifrt.Assume(l <= N)
		vs, err = ReadAllResults[uint16](Limit[Result[uint16]](FromSlice(rs), l))
		if l <= e {
			verifrt.Assert("C43.results-limit-before-error", err == nil && len(vs) == l)
		} else {
			verifrt.Assert("C43.results-limit-after-error", err != nil)
		}
	}
	verifrt.Reach("end")
}
