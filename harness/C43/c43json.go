package iter

import (
	"bytes"
	"encoding/json"
	"errors"
	"io"
	"strconv"

	"github.com/ipfs/boxo/internal/verifrt"
)

// Model of encoding/json's stream decoder for the JSON iterator (encoding/json is opaque under the engine):
// the stream is a list of tokens; a number is stored into the *int32 target, `null` leaves a non-pointer target
// untouched (documented Unmarshal behaviour), a malformed token is a syntax error, the end of the stream is
// io.EOF. Natively the real decoder reads the text built from the same tokens.
type zzvTok struct {
	kind int // 0 number, 1 null, 2 malformed
	v    int32
}

var (
	zzvToks []zzvTok
	zzvPos  int
)

func zzvNewDecoder(r io.Reader) *json.Decoder { return &json.Decoder{} }

func zzvDecode(dec *json.Decoder, v any) error {
	if zzvPos >= len(zzvToks) {
		return io.EOF
	}
	t := zzvToks[zzvPos]
	zzvPos++
	switch t.kind {
	case 2:
		return errors.New("invalid character '}' looking for beginning of value")
	case 1:
		return nil
	}
	*(v.(*int32)) = t.v
	return nil
}

type zzvReadCloser struct {
	*bytes.Reader
	closed int
}

func (r *zzvReadCloser) Close() error {
	r.closed++
	return nil
}

// HarnessC43JSON: the JSON iterator yields the encoded list, each value decoded independently of the ones
// before it; a malformed value is yielded as an error and ends the iteration; Close closes the reader.
func HarnessC43JSON() {
	N := verifrt.Param("N", 3)
	n := verifrt.NondetRange("n", 0, N)
	zzvToks, zzvPos = nil, 0
	var text []byte
	for i := 0; i < n; i++ {
		k := verifrt.NondetRange("kind", 0, 2)
		t := zzvTok{kind: k}
		switch k {
		case 0:
			t.v = verifrt.NondetI32("v")
			if !verifrt.Symbolic() { // the model reads the token list; decimal text only natively
				text = append(text, strconv.Itoa(int(t.v))...)
			}
		case 1:
			text = append(text, "null"...)
		case 2:
			text = append(text, '}')
		}
		text = append(text, ' ')
		zzvToks = append(zzvToks, t)
	}
	rc := &zzvReadCloser{Reader: bytes.NewReader(text)}
	it := FromReaderJSON[int32](rc)
	i := 0
	for it.Next() {
		res := it.Val()
		verifrt.Assert("C43.json-not-past-end", i < n)
		if i >= n {
			break
		}
		switch zzvToks[i].kind {
		case 0:
			verifrt.Assert("C43.json-value", res.Err == nil && res.Val == zzvToks[i].v)
		case 1:
			verifrt.Assert("C43.json-null-is-zero-value", res.Err == nil && res.Val == 0)
		case 2:
			verifrt.Assert("C43.json-error-yielded", res.Err != nil)
		}
		i++
		if res.Err != nil {
			verifrt.Assert("C43.json-stops-after-error", !it.Next())
			break
		}
	}
	// everything up to and including the first malformed token was yielded
	want := n
	for j := 0; j < n; j++ {
		if zzvToks[j].kind == 2 {
			want = j + 1
			break
		}
	}
	verifrt.Observe("yielded", i)
	verifrt.Assert("C43.json-length", i == want)
	verifrt.Assert("C43.json-close", it.Close() == nil)
	verifrt.Assert("C43.json-close-reaches-reader-once", rc.closed == 1)
	verifrt.Assert("C43.json-no-next-after-close", !it.Next())
	verifrt.Reach("end")
}
