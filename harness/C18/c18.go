package unixfs

import (
	"encoding/binary"
	"errors"
	"os"
	"time"

	"github.com/ipfs/boxo/files"
	"github.com/ipfs/boxo/internal/verifrt"
	pb "github.com/ipfs/boxo/ipld/unixfs/pb"
	"google.golang.org/protobuf/proto"
)

// ---------------------------------------------------------------------------------------------------
// protobuf model (engine only; natively the real protobuf-go runs and translator validation compares).
// A plain proto2 wire encoder/decoder for pb.Data / pb.IPFSTimestamp written from unixfs.proto.
// ---------------------------------------------------------------------------------------------------

func zzvAppendVarint(b []byte, v uint64) []byte {
	for v >= 0x80 {
		b = append(b, byte(v)|0x80)
		v >>= 7
	}
	return append(b, byte(v))
}

func zzvEncTimestamp(t *pb.IPFSTimestamp) ([]byte, error) {
	var b []byte
	if t.Seconds == nil {
		return nil, errors.New("required field seconds not set")
	}
	b = append(b, 0x08)
	b = zzvAppendVarint(b, uint64(*t.Seconds))
	if t.Nanos != nil {
		b = append(b, 0x15)
		b = binary.LittleEndian.AppendUint32(b, *t.Nanos)
	}
	return b, nil
}

func zzvEncData(d *pb.Data) ([]byte, error) {
	var b []byte
	if d.Type == nil {
		return nil, errors.New("required field Type not set")
	}
	b = append(b, 0x08)
	b = zzvAppendVarint(b, uint64(int64(int32(*d.Type))))
	if d.Data != nil {
		b = append(b, 0x12)
		b = zzvAppendVarint(b, uint64(len(d.Data)))
		b = append(b, d.Data...)
	}
	if d.Filesize != nil {
		b = append(b, 0x18)
		b = zzvAppendVarint(b, *d.Filesize)
	}
	for _, s := range d.Blocksizes {
		b = append(b, 0x20)
		b = zzvAppendVarint(b, s)
	}
	if d.HashType != nil {
		b = append(b, 0x28)
		b = zzvAppendVarint(b, *d.HashType)
	}
	if d.Fanout != nil {
		b = append(b, 0x30)
		b = zzvAppendVarint(b, *d.Fanout)
	}
	if d.Mode != nil {
		b = append(b, 0x38)
		b = zzvAppendVarint(b, uint64(*d.Mode))
	}
	if d.Mtime != nil {
		tb, err := zzvEncTimestamp(d.Mtime)
		if err != nil {
			return nil, err
		}
		b = append(b, 0x42)
		b = zzvAppendVarint(b, uint64(len(tb)))
		b = append(b, tb...)
	}
	return b, nil
}

func zzvMarshal(m proto.Message) ([]byte, error) {
	switch x := m.(type) {
	case *pb.Data:
		return zzvEncData(x)
	case *pb.IPFSTimestamp:
		return zzvEncTimestamp(x)
	}
	panic("zzvMarshal: unmodelled message type")
}

var errZzvTrunc = errors.New("proto: truncated")

func zzvReadVarint(b []byte, i int) (uint64, int, error) {
	var v uint64
	for shift := uint(0); shift < 70; shift += 7 {
		if i >= len(b) {
			return 0, i, errZzvTrunc
		}
		c := b[i]
		i++
		v |= uint64(c&0x7f) << shift
		if c < 0x80 {
			return v, i, nil
		}
	}
	return 0, i, errors.New("proto: varint overflow")
}

// zzvSkip skips a field of the given wire type.
func zzvSkip(b []byte, i int, wt uint64) (int, error) {
	switch wt {
	case 0:
		_, j, err := zzvReadVarint(b, i)
		return j, err
	case 1:
		if i+8 > len(b) {
			return i, errZzvTrunc
		}
		return i + 8, nil
	case 2:
		l, j, err := zzvReadVarint(b, i)
		if err != nil {
			return j, err
		}
		if uint64(len(b)-j) < l {
			return j, errZzvTrunc
		}
		return j + int(l), nil
	case 5:
		if i+4 > len(b) {
			return i, errZzvTrunc
		}
		return i + 4, nil
	}
	return i, errors.New("proto: bad wire type")
}

func zzvDecTimestamp(b []byte, t *pb.IPFSTimestamp) error {
	t.Seconds, t.Nanos = nil, nil
	i := 0
	for i < len(b) {
		tag, j, err := zzvReadVarint(b, i)
		if err != nil {
			return err
		}
		i = j
		switch tag {
		case 0x08:
			v, j, err := zzvReadVarint(b, i)
			if err != nil {
				return err
			}
			i = j
			s := int64(v)
			t.Seconds = &s
		case 0x15:
			if i+4 > len(b) {
				return errZzvTrunc
			}
			n := binary.LittleEndian.Uint32(b[i:])
			i += 4
			t.Nanos = &n
		default:
			if i, err = zzvSkip(b, i, tag&7); err != nil {
				return err
			}
		}
	}
	if t.Seconds == nil {
		return errors.New("proto: required field seconds not set")
	}
	return nil
}

func zzvDecData(b []byte, d *pb.Data) error {
	d.Type, d.Data, d.Filesize, d.Blocksizes, d.HashType, d.Fanout, d.Mode, d.Mtime = nil, nil, nil, nil, nil, nil, nil, nil
	i := 0
	for i < len(b) {
		tag, j, err := zzvReadVarint(b, i)
		if err != nil {
			return err
		}
		i = j
		switch tag {
		case 0x08, 0x18, 0x20, 0x28, 0x30, 0x38:
			v, j, err := zzvReadVarint(b, i)
			if err != nil {
				return err
			}
			i = j
			switch tag {
			case 0x08:
				t := pb.Data_DataType(int32(v))
				d.Type = &t
			case 0x18:
				d.Filesize = &v
			case 0x20:
				d.Blocksizes = append(d.Blocksizes, v)
			case 0x28:
				d.HashType = &v
			case 0x30:
				d.Fanout = &v
			case 0x38:
				m := uint32(v)
				d.Mode = &m
			}
		case 0x12, 0x42:
			l, j, err := zzvReadVarint(b, i)
			if err != nil {
				return err
			}
			i = j
			if uint64(len(b)-i) < l {
				return errZzvTrunc
			}
			body := b[i : i+int(l)]
			i += int(l)
			if tag == 0x12 {
				d.Data = append([]byte{}, body...)
			} else {
				if d.Mtime == nil {
					d.Mtime = &pb.IPFSTimestamp{}
				}
				if err := zzvDecTimestamp(body, d.Mtime); err != nil {
					return err
				}
			}
		default:
			if i, err = zzvSkip(b, i, tag&7); err != nil {
				return err
			}
		}
	}
	if d.Type == nil {
		return errors.New("proto: required field Type not set")
	}
	return nil
}

func zzvUnmarshal(b []byte, m proto.Message) error {
	switch x := m.(type) {
	case *pb.Data:
		return zzvDecData(b, x)
	case *pb.IPFSTimestamp:
		return zzvDecTimestamp(b, x)
	}
	panic("zzvUnmarshal: unmodelled message type")
}

// ---------------------------------------------------------------------------------------------------
// reference model of the permission mapping (from the os.FileMode documentation and POSIX mode bits):
//   rwxrwxrwx -> 0o777, setuid -> 0o4000, setgid -> 0o2000, sticky -> 0o1000
// ---------------------------------------------------------------------------------------------------

const zzvPermMask = os.ModePerm | os.ModeSetuid | os.ModeSetgid | os.ModeSticky

func zzvRefUnix(m os.FileMode) uint32 {
	u := uint32(m & os.ModePerm)
	if m&os.ModeSetuid != 0 {
		u |= 0o4000
	}
	if m&os.ModeSetgid != 0 {
		u |= 0o2000
	}
	if m&os.ModeSticky != 0 {
		u |= 0o1000
	}
	return u
}

func zzvRefMode(u uint32) os.FileMode {
	m := os.FileMode(u & 0o777)
	if u&0o4000 != 0 {
		m |= os.ModeSetuid
	}
	if u&0o2000 != 0 {
		m |= os.ModeSetgid
	}
	if u&0o1000 != 0 {
		m |= os.ModeSticky
	}
	return m
}

// HarnessC18PermBits: the two conversion helpers against the reference mapping, all 2^32 inputs each.
func HarnessC18PermBits() {
	m := os.FileMode(verifrt.NondetU32("m"))
	u := files.ModePermsToUnixPerms(m)
	verifrt.Observe("u", u)
	verifrt.Assert("C18.mode-to-unix-matches-reference", u == zzvRefUnix(m))
	x := verifrt.NondetU32("x")
	fm := files.UnixPermsToModePerms(x)
	verifrt.Observe("fm", uint32(fm))
	verifrt.Assert("C18.unix-to-mode-matches-reference", fm == zzvRefMode(x))
	verifrt.Assert("C18.perm-helpers-roundtrip-mode", files.UnixPermsToModePerms(files.ModePermsToUnixPerms(m)) == m&zzvPermMask)
	verifrt.Assert("C18.perm-helpers-roundtrip-unix", files.ModePermsToUnixPerms(files.UnixPermsToModePerms(x)) == x&0o7777)
	verifrt.Reach("end")
}

var zzvTypes = []pb.Data_DataType{pb.Data_Raw, pb.Data_Directory, pb.Data_File, pb.Data_Metadata, pb.Data_Symlink, pb.Data_HAMTShard}

func zzvReload(n *FSNode) *FSNode {
	b, err := n.GetBytes()
	verifrt.Assert("C18.getbytes-ok", err == nil)
	verifrt.Observe("bytes", b)
	n2, err := FSNodeFromBytes(b)
	verifrt.Assert("C18.frombytes-ok", err == nil)
	return n2
}

func zzvCheckTypeBits(id string, typ pb.Data_DataType, got os.FileMode, wantPerm os.FileMode) {
	var typeBit os.FileMode
	switch typ {
	case pb.Data_Directory, pb.Data_HAMTShard:
		typeBit = os.ModeDir
	case pb.Data_Symlink:
		typeBit = os.ModeSymlink
	}
	if wantPerm != 0 {
		verifrt.Assert(id, got&^zzvPermMask == typeBit)
	} else {
		// no permission bits stored: the property only fixes the permission bits; the derived type bit may or may
		// not be reported, nothing else may
		verifrt.Assert(id+"-permless", got&^(zzvPermMask|typeBit) == 0)
	}
}

// HarnessC18Mode: SetMode / SetExtendedMode in either order (or a second SetMode replacing a first one), serialize,
// reload: permission bits, extended bits and derived type bits.
func HarnessC18Mode() {
	typ := zzvTypes[verifrt.NondetRange("type", 0, len(zzvTypes)-1)]
	m := os.FileMode(verifrt.NondetU32("m"))
	ext := verifrt.NondetU32("ext")
	n := NewFSNode(typ)
	script := verifrt.NondetRange("script", 0, 3)
	wantExt := uint32(0)
	switch script {
	case 0: // mode only
		n.SetMode(m)
	case 1: // extended first
		n.SetExtendedMode(ext)
		n.SetMode(m)
		wantExt = ext & 0xFFFFF
	case 2: // mode first
		n.SetMode(m)
		n.SetExtendedMode(ext)
		wantExt = ext & 0xFFFFF
	case 3: // overwrite an earlier mode
		n.SetMode(os.FileMode(verifrt.NondetU32("m0")))
		n.SetMode(m)
	}
	wantPerm := m & zzvPermMask
	// before serialization
	verifrt.Assert("C18.mode-perm-bits-live", n.Mode()&zzvPermMask == wantPerm)
	n2 := zzvReload(n)
	got := n2.Mode()
	verifrt.Observe("got", uint32(got))
	verifrt.Assert("C18.mode-perm-bits-roundtrip", got&zzvPermMask == wantPerm)
	zzvCheckTypeBits("C18.mode-type-bits", typ, got, wantPerm)
	verifrt.Assert("C18.extended-mode-roundtrip", n2.ExtendedMode() == wantExt)
	verifrt.Assert("C18.type-roundtrip", n2.Type() == typ)
	// zero <=> unset on the wire
	if wantPerm == 0 && wantExt == 0 {
		verifrt.Assert("C18.mode-zero-is-unset", n2.format.Mode == nil)
	} else {
		verifrt.Assert("C18.mode-nonzero-is-set", n2.format.Mode != nil)
	}
	verifrt.Reach("end")
}

// HarnessC18UnixPerms: SetModeFromUnixPermissions with a raw 32-bit value.
func HarnessC18UnixPerms() {
	typ := zzvTypes[verifrt.NondetRange("type", 0, len(zzvTypes)-1)]
	u := verifrt.NondetU32("u")
	n := NewFSNode(typ)
	withExt := verifrt.NondetBool("withExt")
	ext := verifrt.NondetU32("ext")
	wantExt := uint32(0)
	if withExt {
		n.SetExtendedMode(ext)
		wantExt = ext & 0xFFFFF
	}
	n.SetModeFromUnixPermissions(u)
	n2 := zzvReload(n)
	got := n2.Mode()
	verifrt.Observe("got", uint32(got))
	verifrt.Assert("C18.unixperms-roundtrip", got&zzvPermMask == zzvRefMode(u&0o7777))
	verifrt.Assert("C18.unixperms-back", files.ModePermsToUnixPerms(got) == u&0o7777)
	zzvCheckTypeBits("C18.unixperms-type-bits", typ, got, zzvRefMode(u&0o7777))
	verifrt.Assert("C18.unixperms-keeps-extended", n2.ExtendedMode() == wantExt)
	verifrt.Reach("end")
}

func zzvNanos(name string) int64 {
	ns := int64(verifrt.NondetU32(name))
	verifrt.Assume(ns < 1000000000)
	return ns
}

// HarnessC18ModTime: SetModTime with any wall-clock instant (symbolic seconds incl. negative, symbolic nanoseconds),
// optionally over an earlier timestamp, serialize, reload.
func HarnessC18ModTime() {
	typ := zzvTypes[verifrt.NondetRange("type", 0, len(zzvTypes)-1)]
	s := verifrt.NondetI64("s")
	ns := zzvNanos("ns")
	t := time.Unix(s, ns)
	n := NewFSNode(typ)
	if verifrt.NondetBool("overwrite") {
		n.SetModTime(time.Unix(verifrt.NondetI64("s0"), zzvNanos("ns0")))
	}
	n.SetModTime(t)
	verifrt.Assert("C18.mtime-live", n.ModTime().Equal(t))
	n2 := zzvReload(n)
	got := n2.ModTime()
	verifrt.Observe("gots", got.Unix())
	verifrt.Observe("gotns", got.Nanosecond())
	verifrt.Assert("C18.mtime-roundtrip-instant", got.Equal(t))
	verifrt.Assert("C18.mtime-roundtrip-seconds", got.Unix() == s)
	verifrt.Assert("C18.mtime-roundtrip-nanos", int64(got.Nanosecond()) == ns)
	if t.IsZero() {
		verifrt.Assert("C18.mtime-zero-is-unset", n2.format.Mtime == nil)
	} else {
		verifrt.Assert("C18.mtime-nonzero-is-set", n2.format.Mtime != nil)
	}
	// a node on which nothing was set reports the zero time
	n3 := zzvReload(NewFSNode(typ))
	verifrt.Assert("C18.mtime-unset-is-zero", n3.ModTime().IsZero())
	verifrt.Assert("C18.mode-unset-is-zero", n3.Mode() == 0)
	verifrt.Reach("end")
}

// HarnessC18WithStat: the *WithStat constructors (pbDataAddStat, HAMTShardDataWithStat) followed by FSNodeFromBytes.
func HarnessC18WithStat() {
	which := verifrt.NondetRange("ctor", 0, 2)
	m := os.FileMode(verifrt.NondetU32("m"))
	s := verifrt.NondetI64("s")
	ns := zzvNanos("ns")
	t := time.Unix(s, ns)
	if verifrt.NondetBool("zerotime") {
		t = time.Time{}
	}
	var b []byte
	var typ pb.Data_DataType
	switch which {
	case 0:
		typ = pb.Data_File
		b = FilePBDataWithStat([]byte{1, 2, 3}, 3, m, t)
	case 1:
		typ = pb.Data_Directory
		b = FolderPBDataWithStat(m, t)
	case 2:
		typ = pb.Data_HAMTShard
		var err error
		b, err = HAMTShardDataWithStat([]byte{0}, 8, 0x22, m, t)
		verifrt.Assert("C18.withstat-hamt-ok", err == nil)
	}
	verifrt.Observe("bytes", b)
	n2, err := FSNodeFromBytes(b)
	verifrt.Assert("C18.withstat-frombytes-ok", err == nil)
	got := n2.Mode()
	verifrt.Assert("C18.withstat-perm-bits", got&zzvPermMask == m&zzvPermMask)
	zzvCheckTypeBits("C18.withstat-type-bits", typ, got, m&zzvPermMask)
	gt := n2.ModTime()
	verifrt.Observe("gots", gt.Unix())
	verifrt.Assert("C18.withstat-mtime", gt.Equal(t))
	verifrt.Assert("C18.withstat-mtime-zero-iff-unset", t.IsZero() == (n2.format.Mtime == nil))
	verifrt.Reach("end")
}

// HarnessC18FileSize: size accessors for files, raw nodes and symlinks.
func HarnessC18FileSize() {
	nd := verifrt.NondetRange("ndata", 0, verifrt.Param("D", 3))
	data := verifrt.NondetBytes("data", nd)
	switch verifrt.NondetRange("kind", 0, 5) {
	case 0: // file built through FSNode: inline data + child block sizes, with removal
		n := NewFSNode(pb.Data_File)
		n.SetData(data)
		k := verifrt.NondetRange("nblocks", 0, verifrt.Param("B", 3))
		want := uint64(nd)
		var sizes []uint64
		for i := 0; i < k; i++ {
			sz := uint64(verifrt.NondetU16("bs")) // three varint classes are enough: the claim is about sums, not encodings
			sizes = append(sizes, sz)
			n.AddBlockSize(sz)
			want += sz
		}
		if k > 0 && verifrt.NondetBool("remove") {
			r := verifrt.NondetRange("ridx", 0, k-1)
			n.RemoveBlockSize(r)
			want -= sizes[r]
		}
		n2 := zzvReload(n)
		verifrt.Observe("fs", n2.FileSize())
		verifrt.Assert("C18.filesize-file", n2.FileSize() == want)
		verifrt.Assert("C18.filesize-file-live", n.FileSize() == want)
		n.RemoveAllBlockSizes()
		verifrt.Assert("C18.filesize-after-remove-all", zzvReload(n).FileSize() == uint64(nd))
	case 1: // file replaced data
		n := NewFSNode(pb.Data_File)
		n.SetData(data)
		n.SetData([]byte{9})
		verifrt.Assert("C18.filesize-setdata-replace", zzvReload(n).FileSize() == 1)
	case 2: // raw via WrapData
		b := WrapData(data)
		n2, err := FSNodeFromBytes(b)
		verifrt.Assert("C18.wrapdata-frombytes-ok", err == nil)
		verifrt.Assert("C18.filesize-raw", n2.FileSize() == uint64(nd))
		ds, err := DataSize(b)
		verifrt.Assert("C18.datasize-raw", err == nil && ds == uint64(nd))
	case 3: // raw via FSNode
		n := NewFSNode(pb.Data_Raw)
		n.SetData(data)
		verifrt.Assert("C18.filesize-raw-node", zzvReload(n).FileSize() == uint64(nd))
	case 4: // symlink
		b, err := SymlinkData(string(data))
		verifrt.Assert("C18.symlinkdata-ok", err == nil)
		n2, err := FSNodeFromBytes(b)
		verifrt.Assert("C18.symlink-frombytes-ok", err == nil)
		verifrt.Assert("C18.filesize-symlink", n2.FileSize() == uint64(nd))
		ds, err := DataSize(b)
		verifrt.Assert("C18.datasize-symlink", err == nil && ds == uint64(nd))
		n := NewFSNode(pb.Data_Symlink)
		n.SetData(data)
		verifrt.Assert("C18.filesize-symlink-node", zzvReload(n).FileSize() == uint64(nd))
	case 5: // FilePBData: declared total size
		ts := verifrt.NondetU64("total")
		verifrt.Assume(ts < 1<<28)
		n2, err := FSNodeFromBytes(FilePBData(data, ts))
		verifrt.Assert("C18.filepbdata-frombytes-ok", err == nil)
		verifrt.Assert("C18.filesize-filepbdata", n2.FileSize() == ts)
	}
	verifrt.Reach("end")
}
