package gateway

import (
	"context"
	"errors"
	"io"
	"strconv"

	"github.com/ipfs/boxo/internal/verifrt"
	blocks "github.com/ipfs/go-block-format"
	cid "github.com/ipfs/go-cid"
	"github.com/ipfs/go-unixfsnode"
	dagpb "github.com/ipld/go-codec-dagpb"
	"github.com/ipld/go-ipld-prime"
	"github.com/ipld/go-ipld-prime/codec"
	"github.com/ipld/go-ipld-prime/datamodel"
	mh "github.com/multiformats/go-multihash"
)

// ---------------------------------------------------------------------------------------------------
// Numbers (same device as C30): under the engine a decimal number in the entity-bytes text is a placeholder
// token "@k" and strconv.ParseInt is bound to zz31ParseInt, which returns the k-th symbolic int64 (the
// ParseInt contract for an in-range decimal). Natively the text carries the real decimal.
// ---------------------------------------------------------------------------------------------------

var zz31Num [4]int64

func zz31Tok(k int) string {
	if verifrt.Symbolic() {
		return "@" + string(rune('0'+k))
	}
	return strconv.FormatInt(zz31Num[k], 10)
}

func zz31ParseInt(s string, base int, bitSize int) (int64, error) {
	if len(s) == 2 && s[0] == '@' && s[1] >= '0' && s[1] < '4' {
		return zz31Num[int(s[1]-'0')], nil
	}
	return strconv.ParseInt(s, base, bitSize)
}

// HarnessC31ByteRange: NewDagByteRange accepts exactly the documented entity-bytes forms and returns the numbers.
func HarnessC31ByteRange() {
	a := verifrt.NondetI64("a")
	b := verifrt.NondetI64("b")
	zz31Num[0], zz31Num[1] = a, b
	shape := verifrt.NondetRange("shape", 0, 13)
	var text string
	wellFormed, open := false, false
	switch shape {
	case 0:
		text, wellFormed = zz31Tok(0)+":"+zz31Tok(1), true
	case 1:
		text, wellFormed, open = zz31Tok(0)+":*", true, true
	case 2:
		text = zz31Tok(0)
	case 3:
		text = zz31Tok(0) + ":"
	case 4:
		text = ":" + zz31Tok(1)
	case 5:
		text = zz31Tok(0) + ":" + zz31Tok(1) + ":" + zz31Tok(1)
	case 6:
		text = "*:" + zz31Tok(1)
	case 7:
		text = ""
	case 8:
		text = "a:b"
	case 9:
		text = zz31Tok(0) + ":-*"
	case 10:
		text = "99999999999999999999:*"
	case 11:
		text = zz31Tok(0) + ":99999999999999999999"
	case 12:
		text = " " + zz31Tok(0) + ":" + zz31Tok(1)
	case 13:
		text = zz31Tok(0) + ":" + zz31Tok(1) + " "
	}
	r, err := NewDagByteRange(text)
	verifrt.Observe("accepted", err == nil)
	if !wellFormed {
		verifrt.Assert("C31.malformed-entity-bytes-rejected", err != nil)
		verifrt.Reach("end")
		return
	}
	if open {
		verifrt.Assert("C31.open-range-accepted", err == nil)
		verifrt.Assert("C31.open-range-fields", r.From == a && r.To == nil)
		verifrt.Reach("end")
		return
	}
	// documented rule: with both ends counted from the same side, 'from' must not be after 'to'
	bothPos := a >= 0 && b >= 0
	bothNeg := a < 0 && b < 0
	inverted := (bothPos || bothNeg) && a > b
	verifrt.Assert("C31.range-accepted-iff-not-inverted", (err == nil) == !inverted)
	if err == nil {
		verifrt.Assert("C31.range-fields", r.From == a && r.To != nil && *r.To == b)
	}
	verifrt.Reach("end")
}

// ---------------------------------------------------------------------------------------------------
// entity-bytes clamping in walkGatewaySimpleSelector's file branch.
// Under the engine the terminal block is a 4-byte dag-pb node whose Data is a UnixFS "File" header (decoded by
// the real go-codec-dagpb and go-unixfsnode/data), unixfsnode.Reify is bound to a stub that presents the file as
// a large-bytes node over zz31File - a ReadSeeker of symbolic length that records the interval read - and
// io.Copy / io.CopyN are bound to their contract on that reader. Natively (c31_native.go) the same request runs
// against a real chunked UnixFS file and the blocks loaded are compared with the requested range.
// ---------------------------------------------------------------------------------------------------

type zz31File struct {
	L, pos int64
	lo, hi int64 // bytes [lo,hi) were read (hi > lo), valid if touched
	touched bool
}

func (f *zz31File) note(from, to int64) {
	if to <= from {
		return
	}
	if !f.touched {
		f.lo, f.hi, f.touched = from, to, true
		return
	}
	if from < f.lo {
		f.lo = from
	}
	if to > f.hi {
		f.hi = to
	}
}

func (f *zz31File) Seek(off int64, whence int) (int64, error) {
	switch whence {
	case io.SeekStart:
		f.pos = off
	case io.SeekCurrent:
		f.pos += off
	case io.SeekEnd:
		f.pos = f.L + off
	}
	return f.pos, nil
}

func (f *zz31File) avail() int64 {
	if f.pos < 0 || f.pos >= f.L {
		return 0
	}
	return f.L - f.pos
}

func (f *zz31File) Read(p []byte) (int, error) {
	a := f.avail()
	if a == 0 {
		return 0, io.EOF
	}
	n := int64(len(p))
	if n > a {
		n = a
	}
	f.note(f.pos, f.pos+n)
	f.pos += n
	return int(n), nil
}

func zz31Copy(dst io.Writer, src io.Reader) (int64, error) {
	if f, ok := src.(*zz31File); ok {
		a := f.avail()
		f.note(f.pos, f.pos+a)
		f.pos += a
		return a, nil
	}
	return io.Copy(dst, src)
}

func zz31CopyN(dst io.Writer, src io.Reader, n int64) (int64, error) {
	if f, ok := src.(*zz31File); ok {
		if n <= 0 {
			return 0, nil
		}
		a := f.avail()
		k := n
		if k > a {
			k = a
		}
		f.note(f.pos, f.pos+k)
		f.pos += k
		if k < n {
			return k, io.EOF
		}
		return k, nil
	}
	return io.CopyN(dst, src, n)
}

type zz31Node struct {
	datamodel.Node
	f *zz31File
}

func (n *zz31Node) Kind() datamodel.Kind                  { return datamodel.Kind_Bytes }
func (n *zz31Node) AsLargeBytes() (io.ReadSeeker, error) { return n.f, nil }

var zz31Cur *zz31File

func zz31Reify(lnkCtx ipld.LinkContext, n ipld.Node, lsys *ipld.LinkSystem) (ipld.Node, error) {
	if zz31Cur == nil {
		return unixfsnode.Reify(lnkCtx, n, lsys) // HarnessC31CAR: the real reifier
	}
	return &zz31Node{f: zz31Cur}, nil
}

func zz31PBCid() cid.Cid {
	digest := make([]byte, 32)
	digest[0] = 0x31
	m, err := mh.Encode(digest, mh.SHA2_256)
	if err != nil {
		panic(err)
	}
	return cid.NewCidV1(cid.DagProtobuf, m)
}

// zz31Clip: the bytes [cs, ce] of a file of length L that the entity-bytes range (from, to|*) denotes
// (IPIP-402 / DagByteRange doc: negative numbers count from the end, everything is clipped to the file).
// ok=false: the range denotes no byte of the file.
func zz31Clip(L, from int64, hasTo bool, to int64) (cs, ce int64, ok bool) {
	cs = from
	if from < 0 {
		cs = L + from
		if cs < 0 {
			cs = 0
		}
	}
	ce = L - 1
	if hasTo {
		if to >= 0 {
			if to < ce {
				ce = to
			}
		} else if L+to < ce {
			ce = L + to
		}
	}
	return cs, ce, cs <= ce && cs < L && ce >= 0
}

// HarnessC31EntityBytes: with dag-scope=entity on a file, the bytes the walk reads cover the requested range
// clipped to the file, for positive / negative / open / beyond-the-end ranges.
func HarnessC31EntityBytes() {
	L := verifrt.NondetI64("L")
	verifrt.Assume(L >= 0)
	verifrt.Assume(L <= int64(verifrt.Param("MAXLEN", 4096)))
	form := verifrt.NondetRange("form", 0, 2) // 0: no range, 1: from:*, 2: from:to
	from := int64(0)
	to := int64(0)
	params := CarParams{Scope: DagScopeEntity}
	if form >= 1 {
		from = verifrt.NondetI64("from")
		params.Range = &DagByteRange{From: from}
		if form == 2 {
			to = verifrt.NondetI64("to")
			params.Range.To = &to
		}
	}

	var werr error
	covered := false
	cs, ce, nonEmpty := zz31Clip(L, from, form == 2, to)
	if verifrt.Symbolic() {
		f := &zz31File{L: L}
		zz31Cur = f
		lsys := ipld.LinkSystem{DecoderChooser: func(ipld.Link) (codec.Decoder, error) { return dagpb.Decode, nil }}
		// dag-pb node with Data = UnixFS{Type: File}
		blk, err := blocks.NewBlockWithCid([]byte{0x0a, 0x02, 0x08, 0x02}, zz31PBCid())
		if err != nil {
			panic(err)
		}
		werr = walkGatewaySimpleSelector(context.Background(), zz31PBCid(), blk, nil, params, &lsys)
		covered = f.touched && f.lo <= cs && f.hi > ce
	} else {
		werr, covered = zz31RealFile(L, params, cs, ce, nonEmpty)
	}
	clean := werr == nil || errors.Is(werr, io.EOF) // GetCAR closes the pipe with this error: EOF is a clean end
	verifrt.Observe("clean", clean)
	if nonEmpty {
		verifrt.Assert("C31.entity-bytes-walk-succeeds", clean)
		if clean {
			verifrt.Assert("C31.entity-bytes-range-covered", covered)
		}
	}
	verifrt.Reach("end")
}
