package gateway

import (
	"context"
	"encoding/binary"
	"errors"
	"hash"
	"net/http"
	"net/url"
	"strconv"
	"strings"
	"time"

	"github.com/ipfs/boxo/blockservice"
	"github.com/ipfs/boxo/internal/verifrt"
	"github.com/ipfs/boxo/path"
	blocks "github.com/ipfs/go-block-format"
	cid "github.com/ipfs/go-cid"
	format "github.com/ipfs/go-ipld-format"
	"github.com/ipld/go-ipld-prime/datamodel"
	"github.com/ipld/go-ipld-prime/node/basicnode"
	"github.com/ipld/go-ipld-prime/traversal/selector"
	selbuilder "github.com/ipld/go-ipld-prime/traversal/selector/builder"
	mh "github.com/multiformats/go-multihash"
	mhcore "github.com/multiformats/go-multihash/core"
	"github.com/prometheus/client_golang/prometheus"
)

// ---------------------------------------------------------------------------------------------------
// CAR responses: the real handler.serveCAR (buildCarParams, BlocksBackend.GetCAR: path resolution, CAR writer
// over the recording block getter, walkGatewaySimpleSelector, go-unixfsnode, ipld-prime traversal, go-car
// storage writer) runs on small concrete UnixFS DAGs held in a harness blockstore; the response body is decoded
// by a harness CARv1 reader and compared with a reference walk over the DAG the harness built.
// Raw blocks: the real handler.serveRawBlock + BlocksBackend.GetBlock on the same DAGs.
// ---------------------------------------------------------------------------------------------------

// ---- hashing (engine only; natively the real sha2-256 runs) -----------------------------------------
var zz31Intern []string

// multihash.Sum: an interned digest (01 | index) for concrete input - one particular collision-free
// deterministic function; an uninterpreted collision-free function for symbolic input.
func zz31MhSum(data []byte, code uint64, length int) (mh.Multihash, error) {
	if code == mh.IDENTITY {
		return mh.Encode(data, mh.IDENTITY)
	}
	if length < 0 {
		length = 32
	}
	if verifrt.IsConcrete(data) {
		key := string(data) + string(rune(code))
		idx := -1
		for i, k := range zz31Intern {
			if k == key {
				idx = i
			}
		}
		if idx < 0 {
			idx = len(zz31Intern)
			zz31Intern = append(zz31Intern, key)
		}
		d := make([]byte, length)
		d[0] = 0x01
		binary.BigEndian.PutUint32(d[1:], uint32(idx))
		return mh.Encode(d, code)
	}
	d := verifrt.HashUF("crypto:mh-sha2-256", data, length)
	verifrt.Assume(d[0] == 0xFE)
	return mh.Encode(d, code)
}

// core.GetVariableHasher: a hash.Hash that buffers what is written and answers Sum with zz31MhSum's digest, so
// that the link system's own hash check (computed link == requested link) is executed for real.
type zz31Hasher struct {
	code uint64
	buf  []byte
}

func (h *zz31Hasher) Write(p []byte) (int, error) { h.buf = append(h.buf, p...); return len(p), nil }
func (h *zz31Hasher) Reset()                      { h.buf = nil }
func (h *zz31Hasher) Size() int                   { return 32 }
func (h *zz31Hasher) BlockSize() int              { return 64 }
func (h *zz31Hasher) Sum(b []byte) []byte {
	m, err := zz31MhSum(h.buf, h.code, 32)
	if err != nil {
		panic(err)
	}
	d, err := mh.Decode(m)
	if err != nil {
		panic(err)
	}
	return append(b, d.Digest...)
}

func zz31GetHasher(code uint64, sizeHint int) (hash.Hash, error) {
	switch code {
	case mh.SHA2_256:
		return &zz31Hasher{code: code}, nil
	}
	return nil, mhcore.ErrSumNotSupported
}

// ---- selectorparse.ParseJSONSelector (engine only) ---------------------------------------------------
// go-ipld-prime's selector/parse package parses four constant JSON texts at init time with dag-json (refmt:
// opaque). The stub returns the same selector specs built with the selector builder.
func zz31ParseJSONSelector(jsonStr string) (datamodel.Node, error) {
	ssb := selbuilder.NewSelectorSpecBuilder(basicnode.Prototype.Any)
	switch jsonStr {
	case `{".":{}}`:
		return ssb.Matcher().Node(), nil
	case `{"a":{">":{".":{}}}}`:
		return ssb.ExploreAll(ssb.Matcher()).Node(), nil
	case `{"R":{"l":{"none":{}},":>":{"a":{">":{"@":{}}}}}}`:
		return ssb.ExploreRecursive(selector.RecursionLimitNone(), ssb.ExploreAll(ssb.ExploreRecursiveEdge())).Node(), nil
	case `{"R":{"l":{"none":{}},":>":{"|":[{".":{}},{"a":{">":{"@":{}}}}]}}}`:
		return ssb.ExploreRecursive(selector.RecursionLimitNone(),
			ssb.ExploreUnion(ssb.Matcher(), ssb.ExploreAll(ssb.ExploreRecursiveEdge()))).Node(), nil
	}
	return nil, errors.New("zz31ParseJSONSelector: unmodelled selector text")
}

// ---- harness blockstore ------------------------------------------------------------------------------
type zz31Blk struct {
	c    cid.Cid
	data []byte
}

type zz31Store struct {
	blks []zz31Blk
	gets int
}

func (s *zz31Store) find(c cid.Cid) int {
	k := c.KeyString()
	for i := range s.blks {
		if s.blks[i].c.KeyString() == k {
			return i
		}
	}
	return -1
}

func (s *zz31Store) add(codec uint64, data []byte) cid.Cid {
	c, err := cid.Prefix{Version: 1, Codec: codec, MhType: mh.SHA2_256, MhLength: -1}.Sum(data)
	if err != nil {
		panic(err)
	}
	if s.find(c) < 0 {
		s.blks = append(s.blks, zz31Blk{c, data})
	}
	return c
}

func (s *zz31Store) DeleteBlock(context.Context, cid.Cid) error { return errors.New("read-only") }
func (s *zz31Store) Has(_ context.Context, c cid.Cid) (bool, error) {
	return s.find(c) >= 0, nil
}
func (s *zz31Store) Get(_ context.Context, c cid.Cid) (blocks.Block, error) {
	s.gets++
	i := s.find(c)
	if i < 0 {
		return nil, format.ErrNotFound{Cid: c}
	}
	return blocks.NewBlockWithCid(s.blks[i].data, c)
}
func (s *zz31Store) GetSize(_ context.Context, c cid.Cid) (int, error) {
	i := s.find(c)
	if i < 0 {
		return -1, format.ErrNotFound{Cid: c}
	}
	return len(s.blks[i].data), nil
}
func (s *zz31Store) Put(context.Context, blocks.Block) error       { return errors.New("read-only") }
func (s *zz31Store) PutMany(context.Context, []blocks.Block) error { return errors.New("read-only") }
func (s *zz31Store) AllKeysChan(ctx context.Context) (<-chan cid.Cid, error) {
	return nil, errors.New("not supported")
}

// ---- dag-pb / UnixFS encoders (canonical dag-pb: links first, then data) ------------------------------
func zz31Varint(b []byte, v uint64) []byte {
	for v >= 0x80 {
		b = append(b, byte(v)|0x80)
		v >>= 7
	}
	return append(b, byte(v))
}

type zz31Link struct {
	name  string
	c     cid.Cid
	tsize uint64
}

func zz31PB(data []byte, links []zz31Link) []byte {
	var b []byte
	for _, l := range links {
		var lb []byte
		cb := l.c.Bytes()
		lb = append(lb, 0x0a)
		lb = zz31Varint(lb, uint64(len(cb)))
		lb = append(lb, cb...)
		lb = append(lb, 0x12)
		lb = zz31Varint(lb, uint64(len(l.name)))
		lb = append(lb, l.name...)
		lb = append(lb, 0x18)
		lb = zz31Varint(lb, l.tsize)
		b = append(b, 0x12)
		b = zz31Varint(b, uint64(len(lb)))
		b = append(b, lb...)
	}
	if data != nil {
		b = append(b, 0x0a)
		b = zz31Varint(b, uint64(len(data)))
		b = append(b, data...)
	}
	return b
}

// UnixFS Data message: Type, optional inline Data, filesize (files), blocksizes, hashType/fanout (HAMT)
func zz31UnixFS(typ uint64, inline []byte, hasSize bool, filesize uint64, blocksizes []uint64, hashType, fanout uint64) []byte {
	b := []byte{0x08}
	b = zz31Varint(b, typ)
	if inline != nil {
		b = append(b, 0x12)
		b = zz31Varint(b, uint64(len(inline)))
		b = append(b, inline...)
	}
	if hasSize {
		b = append(b, 0x18)
		b = zz31Varint(b, filesize)
	}
	for _, s := range blocksizes {
		b = append(b, 0x20)
		b = zz31Varint(b, s)
	}
	if fanout != 0 {
		b = append(b, 0x28)
		b = zz31Varint(b, hashType)
		b = append(b, 0x30)
		b = zz31Varint(b, fanout)
	}
	return b
}

// ---- reference view of the DAG the harness built --------------------------------------------------------
const (
	zz31KRaw = iota // raw leaf (a file on its own, or a chunk)
	zz31KFile
	zz31KDir
	zz31KHamt // HAMT shard (root or interior); kids = sub-shards and entries
)

type zz31Ref struct {
	c     cid.Cid
	kind  int
	size  int64      // content bytes below (files / chunks)
	tsize uint64     // cumulative size for links
	kids  []*zz31Ref // file: chunks in order; dir: entries
	names []string   // dir: entry names
}

func (s *zz31Store) rawLeaf(data []byte) *zz31Ref {
	c := s.add(cid.Raw, data)
	return &zz31Ref{c: c, kind: zz31KRaw, size: int64(len(data)), tsize: uint64(len(data))}
}

func (s *zz31Store) fileNode(kids []*zz31Ref) *zz31Ref {
	var links []zz31Link
	var bs []uint64
	var total int64
	var ts uint64
	for _, k := range kids {
		links = append(links, zz31Link{"", k.c, k.tsize})
		bs = append(bs, uint64(k.size))
		total += k.size
		ts += k.tsize
	}
	blk := zz31PB(zz31UnixFS(2, nil, true, uint64(total), bs, 0, 0), links)
	c := s.add(cid.DagProtobuf, blk)
	return &zz31Ref{c: c, kind: zz31KFile, size: total, tsize: ts + uint64(len(blk)), kids: kids}
}

// dirNode: names must be sorted (canonical dag-pb)
func (s *zz31Store) dirNode(names []string, kids []*zz31Ref) *zz31Ref {
	var links []zz31Link
	var ts uint64
	for i, k := range kids {
		links = append(links, zz31Link{names[i], k.c, k.tsize})
		ts += k.tsize
	}
	blk := zz31PB(zz31UnixFS(1, nil, false, 0, nil, 0, 0), links)
	c := s.add(cid.DagProtobuf, blk)
	return &zz31Ref{c: c, kind: zz31KDir, tsize: ts + uint64(len(blk)), kids: kids, names: names}
}

// zz31All: every block below n (with repetitions, in depth-first order)
func zz31All(n *zz31Ref, out []cid.Cid) []cid.Cid {
	out = append(out, n.c)
	for _, k := range n.kids {
		out = zz31All(k, out)
	}
	return out
}

// zz31Shards: the shard blocks of the sharded directory n (not the entries' own blocks)
func zz31Shards(n *zz31Ref, out []cid.Cid) []cid.Cid {
	for _, k := range n.kids {
		if k.kind == zz31KHamt {
			out = append(out, k.c)
			out = zz31Shards(k, out)
		}
	}
	return out
}

// zz31FileRange: the blocks of file n needed for the content bytes [cs, ce] (n starts at offset off): every
// leaf overlapping the range and the interior nodes leading to them.
func zz31FileRange(n *zz31Ref, off, cs, ce int64, out []cid.Cid) []cid.Cid {
	out = append(out, n.c)
	for _, k := range n.kids {
		if k.size > 0 && off <= ce && off+k.size-1 >= cs {
			out = zz31FileRange(k, off, cs, ce, out)
		}
		off += k.size
	}
	return out
}

// ---- CARv1 reader (harness; the response is re-read offline) ----------------------------------------------
func zz31Uvarint(b []byte) (uint64, int) {
	var v uint64
	for i := 0; i < len(b) && i < 10; i++ {
		v |= uint64(b[i]&0x7f) << (7 * uint(i))
		if b[i] < 0x80 {
			return v, i + 1
		}
	}
	return 0, 0
}

// header: dag-cbor map {"roots": [CID...], "version": 1} in any key order
func zz31ParseHeader(h []byte) (roots []cid.Cid, version int, ok bool) {
	version = -1
	if len(h) < 1 || h[0] != 0xa2 {
		return nil, 0, false
	}
	i := 1
	for e := 0; e < 2; e++ {
		if i >= len(h) || h[i]&0xe0 != 0x60 || h[i]&0x1f > 23 {
			return nil, 0, false
		}
		kl := int(h[i] & 0x1f)
		i++
		if i+kl > len(h) {
			return nil, 0, false
		}
		key := string(h[i : i+kl])
		i += kl
		switch key {
		case "version":
			if i >= len(h) || h[i] > 23 {
				return nil, 0, false
			}
			version = int(h[i])
			i++
		case "roots":
			if i >= len(h) || h[i]&0xe0 != 0x80 || h[i]&0x1f > 23 {
				return nil, 0, false
			}
			n := int(h[i] & 0x1f)
			i++
			for r := 0; r < n; r++ {
				if i+2 > len(h) || h[i] != 0xd8 || h[i+1] != 0x2a {
					return nil, 0, false
				}
				i += 2
				if i >= len(h) {
					return nil, 0, false
				}
				var bl int
				switch {
				case h[i]&0xe0 == 0x40 && h[i]&0x1f <= 23:
					bl = int(h[i] & 0x1f)
					i++
				case h[i] == 0x58 && i+1 < len(h):
					bl = int(h[i+1])
					i += 2
				default:
					return nil, 0, false
				}
				if bl < 1 || i+bl > len(h) || h[i] != 0x00 {
					return nil, 0, false
				}
				c, err := cid.Cast(h[i+1 : i+bl])
				if err != nil {
					return nil, 0, false
				}
				roots = append(roots, c)
				i += bl
			}
		default:
			return nil, 0, false
		}
	}
	return roots, version, i == len(h)
}

func zz31ParseCAR(b []byte) (roots []cid.Cid, blks []zz31Blk, ok bool) {
	hl, n := zz31Uvarint(b)
	if n == 0 || uint64(len(b)-n) < hl {
		return nil, nil, false
	}
	roots, version, hok := zz31ParseHeader(b[n : n+int(hl)])
	if !hok || version != 1 {
		return nil, nil, false
	}
	b = b[n+int(hl):]
	for len(b) > 0 {
		sl, n := zz31Uvarint(b)
		if n == 0 || sl == 0 || uint64(len(b)-n) < sl {
			return roots, blks, false
		}
		sec := b[n : n+int(sl)]
		cn, c, err := cid.CidFromBytes(sec)
		if err != nil {
			return roots, blks, false
		}
		blks = append(blks, zz31Blk{c, sec[cn:]})
		b = b[n+int(sl):]
	}
	return roots, blks, true
}

// ---- the request -------------------------------------------------------------------------------------------
func zz31Count(set []cid.Cid, c cid.Cid) int {
	n := 0
	for _, x := range set {
		if x.Equals(c) {
			n++
		}
	}
	return n
}

// pbLeaf: a chunk stored as a dag-pb UnixFS File node with inline data (files imported without raw leaves)
func (s *zz31Store) pbLeaf(data []byte) *zz31Ref {
	blk := zz31PB(zz31UnixFS(2, data, true, uint64(len(data)), nil, 0, 0), nil)
	c := s.add(cid.DagProtobuf, blk)
	return &zz31Ref{c: c, kind: zz31KFile, size: int64(len(data)), tsize: uint64(len(blk))}
}

// hamtNode: one shard of a sharded directory with fan-out 8 and murmur3 hashing. slots = bucket index of each
// kid (ascending); names[i] = "" for a sub-shard.
func (s *zz31Store) hamtNode(slots []int, names []string, kids []*zz31Ref) *zz31Ref {
	var links []zz31Link
	var ts uint64
	var bits byte
	for i, k := range kids {
		bits |= 1 << uint(slots[i])
		links = append(links, zz31Link{string(rune('0'+slots[i])) + names[i], k.c, k.tsize})
		ts += k.tsize
	}
	blk := zz31PB(zz31UnixFS(5, []byte{bits}, false, 0, nil, 0x22, 8), links)
	c := s.add(cid.DagProtobuf, blk)
	return &zz31Ref{c: c, kind: zz31KHamt, tsize: ts + uint64(len(blk)), kids: kids, names: names}
}

type zz31Path struct {
	text  string
	nodes []*zz31Ref // blocks of the path traversal, the last one is the terminal entity
}

// zz31Trees builds dag dagI (see HarnessC31CAR) in a fresh store.
func zz31Trees(dagI int) (st *zz31Store, root *zz31Ref, paths []zz31Path) {
	zz31Intern = nil
	zz31Cur = nil
	st = &zz31Store{}
	lf := verifrt.Param("LEAF", 3) // chunk length (the last chunk is one byte shorter)
	ipfs := func(r *zz31Ref, rest string) string { return "/ipfs/" + r.c.String() + rest }
	switch dagI {
	case 0, 1:
		la, lb, lc := st.rawLeaf([]byte("abc")[:lf]), st.rawLeaf([]byte("def")[:lf]), st.rawLeaf([]byte("ghi")[:lf-1])
		la2 := st.rawLeaf([]byte("abc")[:lf])
		i0 := st.fileNode([]*zz31Ref{la, lb})
		i1 := st.fileNode([]*zz31Ref{la2, lc})
		F := st.fileNode([]*zz31Ref{i0, i1})
		S := st.rawLeaf([]byte("xyz"))
		T := st.rawLeaf([]byte("tuv"))
		if dagI == 0 {
			D2 := st.dirNode([]string{"g", "t"}, []*zz31Ref{F, T})
			D := st.dirNode([]string{"f", "s", "sub"}, []*zz31Ref{F, S, D2})
			root = D
			paths = []zz31Path{
				{ipfs(F, ""), []*zz31Ref{F}},
				{ipfs(D, ""), []*zz31Ref{D}},
				{ipfs(D, "/f"), []*zz31Ref{D, F}},
				{ipfs(D, "/sub/g"), []*zz31Ref{D, D2, F}},
				{ipfs(D, "/sub"), []*zz31Ref{D, D2}},
				{ipfs(D, "/s"), []*zz31Ref{D, S}},
			}
		} else {
			H4 := st.hamtNode([]int{1, 3}, []string{"a", "c"}, []*zz31Ref{F, T})
			H := st.hamtNode([]int{3, 4}, []string{"b", ""}, []*zz31Ref{S, H4})
			root = H
			paths = []zz31Path{
				{ipfs(H, "/a"), []*zz31Ref{H, H4, F}},
				{ipfs(H, ""), []*zz31Ref{H}},
				{ipfs(H, "/b"), []*zz31Ref{H, S}},
				{ipfs(H, "/c"), []*zz31Ref{H, H4, T}},
			}
		}
	default:
		J := st.fileNode([]*zz31Ref{st.pbLeaf([]byte("ab")), st.pbLeaf([]byte("cd"))})
		J2 := st.fileNode([]*zz31Ref{st.pbLeaf([]byte("ab")), st.pbLeaf([]byte("cd"))})
		G := st.fileNode([]*zz31Ref{J, J2})
		E := st.dirNode([]string{"p", "q"}, []*zz31Ref{G, G})
		root = E
		paths = []zz31Path{
			{ipfs(E, "/q"), []*zz31Ref{E, G}},
			{ipfs(E, ""), []*zz31Ref{E}},
			{ipfs(G, ""), []*zz31Ref{G}},
		}
	}
	return st, root, paths
}

// HarnessC31CAR: GetCAR on small UnixFS trees.
//
// dag 0 (width-2 balanced file with a repeated chunk, raw leaves, nested in two basic directories):
//
//	D  = dir { "f": F, "s": S, "sub": D2 }     D2 = dir { "g": F, "t": T }
//	F  = file [ I0 = [ "abc", "def" ], I1 = [ "abc", "gh" ] ]   (LEAF=3: 11 bytes; chunk "abc" appears twice)
//	S  = raw "xyz"                              T = raw "tuv"
//
// dag 1 (sharded directory, two levels: murmur3("a") and murmur3("c") start with bucket 4, murmur3("b") with 3):
//
//	H  = hamt { 3: "b" -> S, 4: H4 }            H4 = hamt { 1: "a" -> F, 3: "c" -> T }
//
// dag 2 (a file whose two halves are the same subtree, dag-pb leaves; the same file under two names):
//
//	E  = dir { "p": G, "q": G }                 G = file [ J, J ]    J = file [ pb "ab", pb "cd" ]
func HarnessC31CAR() {
	dagI := verifrt.NondetRange("dag", verifrt.Param("DLO", 0), verifrt.Param("DHI", 2))
	st, root, paths := zz31Trees(dagI)
	hi := len(paths) - 1
	if ph := verifrt.Param("PHI", 5); ph < hi {
		hi = ph
	}
	pi := verifrt.NondetRange("path", verifrt.Param("PLO", 0), hi)
	// RNG1x / RNG2x: bit i set = requests for path i of dag x also use the entity-bytes forms from:* / from:to
	rng1 := []int{verifrt.Param("RNG1A", 63), verifrt.Param("RNG1B", 63), verifrt.Param("RNG1C", 63)}[dagI]
	rng2 := []int{verifrt.Param("RNG2A", 63), verifrt.Param("RNG2B", 63), verifrt.Param("RNG2C", 63)}[dagI]
	zz31CARRequest(st, root, paths[pi].text, paths[pi].nodes, rng1&(1<<uint(pi)) != 0, rng2&(1<<uint(pi)) != 0)
}

// zz31CARRequest: one CAR request for textPath (whose traversal passes the blocks nodes; the last one is the
// terminal entity). The request parameters are given as the URL query and the Accept content-type parameters
// and parsed by the real buildCarParams: dag-scope absent/block/entity/all, entity-bytes absent / from:* /
// from:to (numbers symbolic; forms enabled by open/fromTo), dups absent / ?car-dups=y / Accept dups=n /
// Accept dups=y / ?car-dups=n.
func zz31CARRequest(st *zz31Store, dagRoot *zz31Ref, textPath string, nodes []*zz31Ref, open, fromTo bool) {
	term := nodes[len(nodes)-1]
	scopeI := verifrt.NondetRange("scope", verifrt.Param("SCOPELO", 0), 3)
	scope := []DagScope{DagScopeAll, DagScopeBlock, DagScopeEntity, DagScopeAll}[scopeI] // absent: all (IPIP-402)
	query := ""
	add := func(kv string) {
		if query != "" {
			query += "&"
		}
		query += kv
	}
	if scopeI > 0 {
		add("dag-scope=" + string(scope))
	}

	form := 0
	var from, to int64
	if scope == DagScopeEntity {
		hi := 0
		if open {
			hi = 1
		}
		if fromTo {
			hi = 2
		}
		form = verifrt.NondetRange("form", 0, hi) // 0: no entity-bytes, 1: from:*, 2: from:to
	}
	if form >= 1 {
		W := int64(verifrt.Param("WIN", 3))
		from = verifrt.NondetI64("from")
		verifrt.Assume(from >= -term.size-W && from <= term.size+W)
		zz31Num[0] = from
		text := zz31Tok(0) + ":*"
		if form == 2 {
			to = verifrt.NondetI64("to")
			verifrt.Assume(to >= -term.size-W && to <= term.size+W)
			zz31Num[1] = to
			text = zz31Tok(0) + ":" + zz31Tok(1)
		}
		if _, err := NewDagByteRange(text); err != nil {
			verifrt.Reach("end") // rejected entity-bytes text: no CAR response (HarnessC31ByteRange)
			return
		}
		add("entity-bytes=" + text)
	}

	dvHi := verifrt.Param("DUPHI", 4)
	if form == 2 {
		dvHi = verifrt.Param("DUPHI2", 4)
	}
	dv := verifrt.NondetRange("dups", 0, dvHi)
	accept := map[string]string{}
	switch dv {
	case 1:
		add("car-dups=y")
	case 2:
		accept["dups"] = "n"
	case 3:
		accept["dups"] = "y"
	case 4:
		add("car-dups=n")
	}
	dupsRequested := dv == 1 || dv == 3
	p, err := path.NewPath(textPath)
	if err != nil {
		panic(err)
	}
	ip, err := path.NewImmutablePath(p)
	if err != nil {
		panic(err)
	}
	backend, err := NewBlocksBackend(blockservice.New(st, nil))
	if err != nil {
		panic(err)
	}
	h := newHandlerWithMetrics(&Config{}, backend, prometheus.NewRegistry())
	r := &http.Request{Method: http.MethodGet, Header: http.Header{}, URL: &url.URL{Path: textPath, RawQuery: query}}
	w := &zz31RW{h: http.Header{}}
	rq := &requestData{begin: time.Now(), contentPath: p, immutablePath: ip, responseFormat: carResponseFormat, responseParams: accept}
	done := h.serveCAR(context.Background(), w, r, rq)
	verifrt.Observe("code", w.code)
	verifrt.Assert("C31.car-request-accepted", w.code == http.StatusOK)
	if w.code != http.StatusOK {
		verifrt.Reach("end")
		return
	}
	body := w.body
	streamErr := w.h.Get("X-Stream-Error")
	rerr := streamErr != ""
	verifrt.Assert("C31.car-stream-error-reported-iff-incomplete", done == !rerr)
	roots, blks, ok := zz31ParseCAR(body)

	// reference: what the response must contain
	var need []cid.Cid
	for _, n := range nodes {
		need = append(need, n.c)
	}
	rangeEmpty := false
	switch scope {
	case DagScopeAll:
		need = zz31All(term, need)
	case DagScopeEntity:
		switch term.kind {
		case zz31KFile, zz31KRaw:
			cs, ce, nonEmpty := zz31Clip(term.size, from, form == 2, to)
			if form == 0 {
				cs, ce, nonEmpty = 0, term.size-1, true
			}
			if nonEmpty {
				need = zz31FileRange(term, 0, cs, ce, need)
			} else {
				rangeEmpty = true
			}
		case zz31KHamt:
			need = zz31Shards(term, need) // a sharded directory is one entity: all of its shard blocks
		}
	}
	universe := zz31All(dagRoot, nil)

	verifrt.Observe("nblocks", len(blks))
	verifrt.Observe("readerr", rerr)
	if !rangeEmpty {
		verifrt.Assert("C31.car-stream-complete", !rerr)
	}
	verifrt.Assert("C31.car-well-formed", ok)
	verifrt.Assert("C31.car-root-is-resolved-content-root", len(roots) == 1 && roots[0].Equals(term.c))
	// X-Ipfs-Roots: the logical roots of the path segments, the last one is the resolved content root
	rootsHdr := w.h.Get("X-Ipfs-Roots")
	verifrt.Assert("C31.car-roots-header-ends-with-content-root", strings.HasSuffix(rootsHdr, term.c.String()))
	var got []cid.Cid
	for _, b := range blks {
		want, herr := b.c.Prefix().Sum(b.data)
		verifrt.Assert("C31.car-block-bytes-hash-to-cid", herr == nil && want.Equals(b.c))
		verifrt.Assert("C31.car-block-belongs-to-dag", zz31Count(universe, b.c) > 0)
		if !dupsRequested {
			verifrt.Assert("C31.car-no-duplicate-blocks-unless-requested", zz31Count(got, b.c) == 0)
		}
		got = append(got, b.c)
	}
	if !rerr {
		for i, c := range need {
			if i < len(nodes) {
				verifrt.Assert("C31.car-has-path-blocks", zz31Count(got, c) > 0)
			} else {
				verifrt.Assert("C31.car-has-scope-blocks", zz31Count(got, c) > 0)
			}
		}
	}
	verifrt.Reach("end")
}

// getCarEtag (engine only): the CAR Etag is an xxhash of the request parameters (unsafe casts and assembly:
// not executable); cache validators are not part of this property, the request carries no If-None-Match.
func zz31CarEtag(imPath path.ImmutablePath, params CarParams, rootCid cid.Cid) string {
	return `W/"` + rootCid.String() + `.car.zz31"`
}

// ---- raw blocks ------------------------------------------------------------------------------------------
type zz31RW struct {
	h    http.Header
	code int
	body []byte
}

func (w *zz31RW) Header() http.Header { return w.h }
func (w *zz31RW) WriteHeader(code int) {
	if w.code == 0 {
		w.code = code
	}
}
func (w *zz31RW) Write(p []byte) (int, error) {
	w.WriteHeader(http.StatusOK)
	w.body = append(w.body, p...)
	return len(p), nil
}

// HarnessC31RawBlock: the real handler.serveRawBlock over the real BlocksBackend.GetBlock (path resolution
// included) for every path of the trees of HarnessC31CAR: the body is exactly the block the path resolves to and
// hashes to that CID.
func HarnessC31RawBlock() {
	dagI := verifrt.NondetRange("dag", verifrt.Param("DLO", 0), verifrt.Param("DHI", 2))
	st, _, paths := zz31Trees(dagI)
	pi := verifrt.NondetRange("path", 0, len(paths)-1)
	nodes := paths[pi].nodes
	term := nodes[len(nodes)-1]
	p, err := path.NewPath(paths[pi].text)
	if err != nil {
		panic(err)
	}
	ip, err := path.NewImmutablePath(p)
	if err != nil {
		panic(err)
	}
	backend, err := NewBlocksBackend(blockservice.New(st, nil))
	if err != nil {
		panic(err)
	}
	h := newHandlerWithMetrics(&Config{}, backend, prometheus.NewRegistry())
	head := verifrt.NondetBool("head")
	method := http.MethodGet
	if head {
		method = http.MethodHead
	}
	r := &http.Request{Method: method, Header: http.Header{}, URL: &url.URL{Path: paths[pi].text, RawQuery: "format=raw"}}
	w := &zz31RW{h: http.Header{}}
	rq := &requestData{begin: time.Now(), contentPath: p, immutablePath: ip, responseFormat: rawResponseFormat}
	sent := h.serveRawBlock(context.Background(), w, r, rq)
	verifrt.Observe("code", w.code)
	verifrt.Observe("bodylen", len(w.body))
	verifrt.Assert("C31.raw-block-served", w.code == http.StatusOK)
	if head {
		verifrt.Assert("C31.raw-block-head-has-no-body", len(w.body) == 0)
	} else {
		verifrt.Assert("C31.raw-block-data-sent", sent)
		want := st.blks[st.find(term.c)].data
		verifrt.Assert("C31.raw-block-is-the-requested-block", string(w.body) == string(want))
		c, herr := term.c.Prefix().Sum(w.body)
		verifrt.Assert("C31.raw-block-bytes-hash-to-cid", herr == nil && c.Equals(term.c))
	}
	verifrt.Assert("C31.raw-block-content-length", w.h.Get("Content-Length") == strconv.Itoa(len(st.blks[st.find(term.c)].data)))
	verifrt.Reach("end")
}
