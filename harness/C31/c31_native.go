package gateway

import (
	"bytes"
	"context"
	"encoding/binary"

	chunker "github.com/ipfs/boxo/chunker"
	dag "github.com/ipfs/boxo/ipld/merkledag"
	mdtest "github.com/ipfs/boxo/ipld/merkledag/test"
	"github.com/ipfs/boxo/ipld/unixfs/importer/balanced"
	ihelper "github.com/ipfs/boxo/ipld/unixfs/importer/helpers"
	cid "github.com/ipfs/go-cid"
	format "github.com/ipfs/go-ipld-format"
	"github.com/ipfs/go-unixfsnode"
	cidlink "github.com/ipld/go-ipld-prime/linking/cid"
)

const zz31Chunk = 64

type zz31RecGetter struct {
	format.NodeGetter
	loaded map[cid.Cid]bool
}

func (g *zz31RecGetter) Get(ctx context.Context, c cid.Cid) (format.Node, error) {
	g.loaded[c] = true
	return g.NodeGetter.Get(ctx, c)
}

// zz31RealFile is the native twin of the model file (never run under the engine): a real UnixFS file of L
// bytes in 64-byte dag-pb leaves under a balanced dag-pb tree with fan-out 4, a real link system with the
// go-unixfsnode reifier and a recording block getter. covered = every leaf that overlaps [cs, ce] was loaded.
func zz31RealFile(L int64, params CarParams, cs, ce int64, nonEmpty bool) (error, bool) {
	ctx := context.Background()
	dserv := dag.NewDAGService(mdtest.Bserv())
	data := make([]byte, L)
	for off := int64(0); off+8 <= L; off += zz31Chunk {
		binary.BigEndian.PutUint64(data[off:], uint64(off)+1) // every chunk is a distinct block
	}
	// dag-pb leaves: the root is a dag-pb UnixFS file node for every length (a single raw block would not enter
	// the file branch at all)
	dbp := ihelper.DagBuilderParams{Maxlinks: 4, RawLeaves: false, Dagserv: dserv}
	db, err := dbp.New(chunker.NewSizeSplitter(bytes.NewReader(data), zz31Chunk))
	if err != nil {
		panic(err)
	}
	root, err := balanced.Layout(db)
	if err != nil {
		panic(err)
	}

	var leaves []cid.Cid
	var walk func(n format.Node)
	walk = func(n format.Node) {
		for _, l := range n.Links() {
			child, err := dserv.Get(ctx, l.Cid)
			if err != nil {
				panic(err)
			}
			if len(child.Links()) == 0 {
				leaves = append(leaves, child.Cid())
			} else {
				walk(child)
			}
		}
	}
	walk(root)

	rec := &zz31RecGetter{NodeGetter: dserv, loaded: map[cid.Cid]bool{}}
	lsys := cidlink.DefaultLinkSystem()
	unixfsnode.AddUnixFSReificationToLinkSystem(&lsys)
	lsys.StorageReadOpener = blockOpener(ctx, rec)

	werr := walkGatewaySimpleSelector(ctx, root.Cid(), root, nil, params, &lsys)
	if _, ok := root.(*dag.ProtoNode); !ok || len(leaves) == 0 {
		return werr, true // the terminal block is the whole file
	}
	covered := true
	for i, c := range leaves {
		lo := int64(i) * zz31Chunk
		hi := lo + zz31Chunk - 1
		if hi > L-1 {
			hi = L - 1
		}
		if nonEmpty && hi >= cs && lo <= ce && !rec.loaded[c] {
			covered = false
		}
	}
	return werr, covered
}
