package message

import (
	"bytes"
	"errors"

	pb "github.com/ipfs/boxo/bitswap/message/pb"
	"github.com/ipfs/boxo/internal/verifrt"
	blocks "github.com/ipfs/go-block-format"
	cid "github.com/ipfs/go-cid"
	mh "github.com/multiformats/go-multihash"
	"google.golang.org/protobuf/proto"
)

// ---------------------------------------------------------------------------------------------------------
// Stubs (engine only; natively the real functions run)
// ---------------------------------------------------------------------------------------------------------

const (
	zz34AlgoSha256 = "crypto:mh-sha2-256"
	zz34AlgoSha512 = "crypto:mh-sha2-512"
)

// zz34MhSum stands in for multihash.Sum. code and length may be symbolic (they come from prefix bytes):
// identity is computed for real, sha2-256 / sha2-512 are uninterpreted collision-free functions of the data,
// truncated like multihash.Sum truncates; codes 0x01..0x10 (not registered in go-multihash) are "unsupported".
// Other codes are outside the claim (Assume).
func zz34MhSum(data []byte, code uint64, length int) (mh.Multihash, error) {
	switch code {
	case mh.IDENTITY:
		if length >= 0 && length != len(data) {
			return nil, errors.New("the length of the identity hash must be equal to the length of the data")
		}
		return mh.Encode(append([]byte(nil), data...), mh.IDENTITY)
	case mh.SHA2_256:
		return zz34Digest(zz34AlgoSha256, data, mh.SHA2_256, 32, length)
	case mh.SHA2_512:
		return zz34Digest(zz34AlgoSha512, data, mh.SHA2_512, 64, length)
	}
	verifrt.Assume(code >= 1 && code <= 0x10)
	return nil, mh.ErrSumNotSupported
}

func zz34Digest(algo string, data []byte, code uint64, size, length int) (mh.Multihash, error) {
	if length > size {
		return nil, mh.ErrLenTooLarge
	}
	if length < 0 {
		length = size
	}
	if verifrt.Param("MHL_ALL", 1) == 0 {
		// every truncation length is a separate path: sample both ends of the range unless MHL_ALL
		verifrt.Assume(length <= 2 || length >= size-1)
	}
	d := verifrt.HashUF(algo, data, size)
	// the fixed pool CIDs (digest byte 0 = 1) are not the hash of any block of the message: otherwise the
	// solver is free to let the uninterpreted hash hit them, which no real run can reproduce
	verifrt.Assume(d[0] != 1)
	return mh.Encode(d[:length], code)
}

// zz34ProtoSize stands in for proto.Size (size accounting is not part of C34).
func zz34ProtoSize(m proto.Message) int { return 8 }

func init() {
	if !verifrt.Symbolic() {
		verifrt.HashHook = func(algo string, data []byte, n int) []byte {
			code := uint64(mh.SHA2_256)
			if algo == zz34AlgoSha512 {
				code = mh.SHA2_512
			}
			m, err := mh.Sum(data, code, -1)
			if err != nil {
				panic(err)
			}
			dec, err := mh.Decode(m)
			if err != nil {
				panic(err)
			}
			return dec.Digest
		}
	}
}

// ---------------------------------------------------------------------------------------------------------
// Reference helpers (written from the CID / multihash wire formats, not from go-cid)
// ---------------------------------------------------------------------------------------------------------

// zz34Uvarint decodes an unsigned LEB128 number (at most 9 bytes, as multiformats varints).
func zz34Uvarint(b []byte) (v uint64, n int, ok bool) {
	var shift uint
	for i := 0; i < len(b) && i < 9; i++ {
		c := b[i]
		v |= uint64(c&0x7f) << shift
		if c < 0x80 {
			return v, i + 1, true
		}
		shift += 7
	}
	return 0, 0, false
}

func zz34PutUvarint(out []byte, v uint64) []byte {
	for v >= 0x80 {
		out = append(out, byte(v)|0x80)
		v >>= 7
	}
	return append(out, byte(v))
}

// zz34ParsePrefix: <version><codec><mh-type><mh-length>, four varints.
func zz34ParsePrefix(b []byte) (ver, codec, mht, mhl uint64, ok bool) {
	var n int
	if ver, n, ok = zz34Uvarint(b); !ok {
		return
	}
	b = b[n:]
	if codec, n, ok = zz34Uvarint(b); !ok {
		return
	}
	b = b[n:]
	if mht, n, ok = zz34Uvarint(b); !ok {
		return
	}
	b = b[n:]
	mhl, _, ok = zz34Uvarint(b)
	return
}

// zz34RefCid: the binary CID that a block with this prefix and this data must carry:
// v0: <0x12 0x20 sha2-256(data)>; v1: <1><codec><mh-type><digest-len><digest>, the digest being the hash of the
// data truncated to mh-length (identity: the data itself).
func zz34RefCid(ver, codec, mht, mhl uint64, data []byte) ([]byte, bool) {
	if ver > 1 {
		return nil, false
	}
	if ver == 0 && (mht != mh.SHA2_256 || mhl != 32) {
		return nil, false
	}
	var digest []byte
	switch mht {
	case mh.IDENTITY:
		digest = data
	case mh.SHA2_256:
		if mhl > 32 {
			return nil, false
		}
		digest = verifrt.HashUF(zz34AlgoSha256, data, 32)[:mhl]
	case mh.SHA2_512:
		if mhl > 64 {
			return nil, false
		}
		digest = verifrt.HashUF(zz34AlgoSha512, data, 64)[:mhl]
	default:
		return nil, false
	}
	var out []byte
	if ver == 1 {
		out = append(out, 1)
		out = zz34PutUvarint(out, codec)
	}
	out = zz34PutUvarint(out, mht)
	out = zz34PutUvarint(out, uint64(len(digest)))
	out = append(out, digest...)
	return out, true
}

// zz34WellFormedCid: exactly one binary CID, nothing else: either a 34-byte CIDv0 or
// <1><codec><mh-type><len><len digest bytes>.
func zz34WellFormedCid(b []byte) bool {
	if len(b) == 34 && b[0] == 0x12 && b[1] == 0x20 {
		return true
	}
	ver, n, ok := zz34Uvarint(b)
	if !ok || ver != 1 {
		return false
	}
	b = b[n:]
	_, n, ok = zz34Uvarint(b)
	if !ok {
		return false
	}
	b = b[n:]
	_, n, ok = zz34Uvarint(b)
	if !ok {
		return false
	}
	b = b[n:]
	l, n, ok := zz34Uvarint(b)
	if !ok {
		return false
	}
	b = b[n:]
	return uint64(len(b)) == l
}

func zz34FixedDigest(tag byte) []byte {
	d := make([]byte, 32)
	d[0] = tag
	d[31] = 0x34
	return d
}

// zz34Pool: CIDs from raw digests; [0] and [1] share one multihash (CIDv1/raw vs CIDv0), [2] is an identity CID.
func zz34Pool() []cid.Cid {
	m1, err := mh.Encode(zz34FixedDigest(1), mh.SHA2_256)
	if err != nil {
		panic(err)
	}
	id, err := mh.Encode([]byte{0xAA, 0xBB}, mh.IDENTITY)
	if err != nil {
		panic(err)
	}
	return []cid.Cid{cid.NewCidV1(cid.Raw, m1), cid.NewCidV0(m1), cid.NewCidV1(cid.DagCBOR, id)}
}

// ---------------------------------------------------------------------------------------------------------
// Round trip: build a message through the public mutators, ToProtoV1 / ToProtoV0, parse back, compare.
// ---------------------------------------------------------------------------------------------------------

type zz34ModelEntry struct {
	has                bool
	prio               int32
	typ                pb.Message_Wantlist_WantType
	cancel, sendDontHv bool
}

func zz34FindEntry(es []Entry, c cid.Cid) (Entry, int) {
	var out Entry
	n := 0
	for _, e := range es {
		if e.Cid == c {
			out = e
			n++
		}
	}
	return out, n
}

// zz34SameWantlist: b holds exactly the entries of a (all five fields).
func zz34SameWantlist(tag string, a, b BitSwapMessage) {
	ea, eb := a.Wantlist(), b.Wantlist()
	verifrt.Assert("C34."+tag+".wantlist-size", len(ea) == len(eb))
	for _, e := range ea {
		g, n := zz34FindEntry(eb, e.Cid)
		verifrt.Assert("C34."+tag+".wantlist-entry-present-once", n == 1)
		if n == 1 {
			verifrt.Assert("C34."+tag+".entry-priority", g.Priority == e.Priority)
			verifrt.Assert("C34."+tag+".entry-type", g.WantType == e.WantType)
			verifrt.Assert("C34."+tag+".entry-cancel", g.Cancel == e.Cancel)
			verifrt.Assert("C34."+tag+".entry-send-dont-have", g.SendDontHave == e.SendDontHave)
		}
	}
}

// HarnessC34RoundTripBlocks: the same harness with parameters that put the weight on blocks and presences
// (two blocks of different prefixes / digest lengths, few wantlist operations).
func HarnessC34RoundTripBlocks() { HarnessC34RoundTrip() }

func HarnessC34RoundTrip() {
	pool := zz34Pool()
	npool := verifrt.Param("POOL", 2)
	full := verifrt.NondetBool("full")
	m := New(full)
	var model [3]zz34ModelEntry

	// ---- wantlist operations over the pool (colliding CIDs => merges)
	ne := verifrt.NondetRange("ne", 0, verifrt.Param("NE", 2))
	for k := 0; k < ne; k++ {
		i := verifrt.NondetRange("e_cid", 0, npool-1)
		c := pool[i]
		me := &model[i]
		if verifrt.NondetRange("e_kind", 0, 1) == 1 {
			m.Cancel(c)
			// a CANCEL is an entry (priority 0, want-block, no send-dont-have) with the cancel flag
			if !me.has {
				*me = zz34ModelEntry{has: true, cancel: true}
			} else {
				if me.typ == pb.Message_Wantlist_Block {
					me.prio = 0
				}
				me.cancel = true
				me.typ = pb.Message_Wantlist_Block
			}
			continue
		}
		prio := verifrt.NondetI32("e_prio")
		typ := pb.Message_Wantlist_WantType(verifrt.NondetI32("e_type"))
		verifrt.Assume(typ == pb.Message_Wantlist_Block || typ == pb.Message_Wantlist_Have)
		sdh := verifrt.NondetBool("e_sdh")
		m.AddEntry(c, prio, typ, sdh)
		if !me.has {
			*me = zz34ModelEntry{has: true, prio: prio, typ: typ, sendDontHv: sdh}
		} else {
			// documented merge rules: priority follows a want of the same type; cancel and send-dont-have
			// only ever switch on; want-block overrides want-have, never the reverse
			if me.typ == typ {
				me.prio = prio
			}
			if sdh {
				me.sendDontHv = true
			}
			if typ == pb.Message_Wantlist_Block {
				me.typ = pb.Message_Wantlist_Block
			}
		}
	}
	// the message agrees with the merge model
	{
		es := m.Wantlist()
		cnt := 0
		for i := 0; i < npool; i++ {
			if !model[i].has {
				continue
			}
			cnt++
			g, n := zz34FindEntry(es, pool[i])
			verifrt.Assert("C34.merge.entry-present-once", n == 1)
			if n == 1 {
				verifrt.Assert("C34.merge.priority", g.Priority == model[i].prio)
				verifrt.Assert("C34.merge.type", g.WantType == model[i].typ)
				verifrt.Assert("C34.merge.cancel", g.Cancel == model[i].cancel)
				verifrt.Assert("C34.merge.send-dont-have", g.SendDontHave == model[i].sendDontHv)
			}
		}
		verifrt.Assert("C34.merge.size", len(es) == cnt)
	}

	// ---- blocks (content addressed: CID = prefix.Sum(data)), presences before and after them
	nb := verifrt.NondetRange("nb", 0, verifrt.Param("NB", 1))
	blks := make([]blocks.Block, 0, nb)
	for k := 0; k < nb; k++ {
		blen := 1 + k%2
		if verifrt.Param("BLENFORK", 1) == 1 {
			blen = verifrt.NondetRange("b_len", 1, 2)
		}
		data := verifrt.NondetBytes("b_data", blen)
		var pref cid.Prefix
		switch verifrt.NondetRange("b_shape", 0, 4) {
		case 4: // same version / codec / hash function as shape 0, truncated digest
			pref = cid.Prefix{Version: 1, Codec: cid.Raw, MhType: mh.SHA2_256, MhLength: 20}
		case 0:
			pref = cid.Prefix{Version: 1, Codec: cid.Raw, MhType: mh.SHA2_256, MhLength: 32}
		case 1:
			pref = cid.Prefix{Version: 0, Codec: cid.DagProtobuf, MhType: mh.SHA2_256, MhLength: 32}
		case 2:
			codec := verifrt.NondetU64("b_codec")
			verifrt.Assume(codec < 1<<14)
			pref = cid.Prefix{Version: 1, Codec: codec, MhType: mh.IDENTITY, MhLength: len(data)}
		case 3:
			pref = cid.Prefix{Version: 1, Codec: cid.DagProtobuf, MhType: mh.SHA2_512, MhLength: 20}
		}
		c, err := pref.Sum(data)
		if err != nil {
			verifrt.Fatalf("harness: prefix.Sum: %v", err)
		}
		b, err := blocks.NewBlockWithCid(data, c)
		if err != nil {
			verifrt.Fatalf("harness: NewBlockWithCid: %v", err)
		}
		blks = append(blks, b)
	}
	presCid := func() cid.Cid {
		lim := npool - 1
		if len(blks) > 0 {
			lim = npool
		}
		i := verifrt.NondetRange("p_cid", 0, lim)
		if i == npool {
			return blks[0].Cid() // a presence for a CID that also comes as a block
		}
		return pool[i]
	}
	np := verifrt.Param("NP", 1)
	if np >= 1 && verifrt.NondetRange("p_before", 0, 1) == 1 {
		m.AddBlockPresence(presCid(), pb.Message_BlockPresenceType(verifrt.NondetI32("p_type")))
	}
	for _, b := range blks {
		m.AddBlock(b)
	}
	if np >= 2 && verifrt.NondetRange("p_after", 0, 1) == 1 {
		m.AddBlockPresence(presCid(), pb.Message_BlockPresenceType(verifrt.NondetI32("p_type")))
	}
	m.SetPendingBytes(verifrt.NondetI32("pending"))

	// ---- v1 round trip
	m2, err := newMessageFromProto(m.ToProtoV1())
	verifrt.Assert("C34.v1.parses", err == nil && m2 != nil)
	if err != nil || m2 == nil {
		return
	}
	verifrt.Assert("C34.v1.full", m2.Full() == m.Full())
	verifrt.Assert("C34.v1.pending-bytes", m2.PendingBytes() == m.PendingBytes())
	zz34SameWantlist("v1", m, m2)
	b1, b2 := m.Blocks(), m2.Blocks()
	verifrt.Assert("C34.v1.blocks-size", len(b1) == len(b2))
	for _, b := range b1 {
		n := 0
		for _, g := range b2 {
			if g.Cid() == b.Cid() {
				n++
				verifrt.Assert("C34.v1.block-data", bytes.Equal(g.RawData(), b.RawData()))
			}
		}
		verifrt.Assert("C34.v1.block-present-once", n == 1)
	}
	p1, p2 := m.BlockPresences(), m2.BlockPresences()
	verifrt.Assert("C34.v1.presences-size", len(p1) == len(p2))
	for _, p := range p1 {
		n := 0
		for _, g := range p2 {
			if g.Cid == p.Cid {
				n++
				verifrt.Assert("C34.v1.presence-type", g.Type == p.Type)
			}
		}
		verifrt.Assert("C34.v1.presence-present-once", n == 1)
	}
	verifrt.Observe("entries", len(m.Wantlist()))
	verifrt.Observe("presences", len(p1))

	// ---- v0 round trip: wantlist (and the full flag) and the block bytes survive
	m0, err := newMessageFromProto(m.ToProtoV0())
	verifrt.Assert("C34.v0.parses", err == nil && m0 != nil)
	if err != nil || m0 == nil {
		return
	}
	verifrt.Assert("C34.v0.full", m0.Full() == m.Full())
	zz34SameWantlist("v0", m, m0)
	b0 := m0.Blocks()
	for _, b := range b1 {
		found := false
		for _, g := range b0 {
			if bytes.Equal(g.RawData(), b.RawData()) {
				found = true
			}
		}
		verifrt.Assert("C34.v0.block-bytes-kept", found)
	}
	for _, g := range b0 {
		found := false
		for _, b := range b1 {
			if bytes.Equal(g.RawData(), b.RawData()) {
				found = true
			}
		}
		verifrt.Assert("C34.v0.no-invented-block", found)
		// v0 blocks are CIDv0 / sha2-256 of their own bytes
		ref, ok := zz34RefCid(0, cid.DagProtobuf, mh.SHA2_256, 32, g.RawData())
		verifrt.Assert("C34.v0.block-self-certifying", ok && bytes.Equal(g.Cid().Bytes(), ref))
	}
	verifrt.Reach("end")
}

// ---------------------------------------------------------------------------------------------------------
// Parse: an arbitrary pb.Message struct (what the wire codec can hand over) -> newMessageFromProto.
// ---------------------------------------------------------------------------------------------------------

var zz34CidLens = []int{0, 1, 2, 3, 4, 5, 6, 34, 36}

func zz34CidBytes(name string) []byte {
	n := zz34CidLens[verifrt.NondetRange(name+"_len", 0, verifrt.Param("CIDSHAPES", len(zz34CidLens))-1)]
	b := verifrt.NondetBytes(name, n)
	// long shapes: the header bytes are unconstrained, the digest bytes are 7-bit (a varint read off the end
	// of the header stops at the first digest byte; keeps the number of varint-chain paths bounded)
	if n >= 34 {
		for k := 4; k < n; k++ {
			verifrt.Assume(b[k] < 0x80)
		}
	}
	return b
}

type zz34Blk struct {
	ref  []byte // the CID the block must carry
	data []byte
}

// HarnessC34ParseEntryCids: the CID bytes of the first wantlist entry are symbolic (a second entry, blocks and
// presences are well-formed).
func HarnessC34ParseEntryCids() { zz34Parse(0) }

// HarnessC34ParsePresenceCids: the CID bytes of a block presence are symbolic (entries and blocks well-formed).
func HarnessC34ParsePresenceCids() { zz34Parse(2) }

// HarnessC34ParseBlocks: the prefix bytes and data of the first payload block and the deprecated blocks field are
// symbolic; entries are well-formed; a presence may name the very CID the first block hashes to.
func HarnessC34ParseBlocks() { zz34Parse(1) }

// HarnessC34ParseBlocksAllLengths: the same with its own parameters (thorough tier: every truncation length).
func HarnessC34ParseBlocksAllLengths() { zz34Parse(1) }

func zz34Parse(mode int) {
	pool := zz34Pool()
	pbm := &pb.Message{}
	var entryBytes, presBytes [][]byte
	// (the nil wantlist is covered by the CID modes; in block mode it is varied only when WLNIL is set)
	if (mode == 1 && verifrt.Param("WLNIL", 1) == 0) || verifrt.NondetRange("wl", 0, 1) == 1 {
		wl := &pb.Message_Wantlist{Full: verifrt.NondetBool("full")}
		ne := verifrt.Param("NE", 1)
		if mode == 0 {
			ne = verifrt.NondetRange("ne", 0, ne)
		}
		for i := 0; i < ne; i++ {
			var b []byte
			if mode == 0 && i == 0 {
				b = zz34CidBytes("e_cid")
			} else {
				b = pool[i%2].Bytes()
			}
			entryBytes = append(entryBytes, b)
			wl.Entries = append(wl.Entries, &pb.Message_Wantlist_Entry{
				Block:        b,
				Priority:     verifrt.NondetI32("e_prio"),
				Cancel:       verifrt.NondetBool("e_cancel"),
				WantType:     pb.Message_Wantlist_WantType(verifrt.NondetI32("e_type")),
				SendDontHave: verifrt.NondetBool("e_sdh"),
			})
		}
		pbm.Wantlist = wl
	}
	npay := verifrt.NondetRange("npay", 0, verifrt.Param("NB", 1))
	for i := 0; i < npay; i++ {
		var prefix []byte
		if i == 0 && mode == 1 {
			// fully symbolic prefix bytes
			prefix = verifrt.NondetBytes("prefix", verifrt.NondetRange("prefix_len", 0, verifrt.Param("PFX", 5)))
		} else {
			// further blocks: a well-formed sha2-256 v0/v1 prefix, symbolic data
			if verifrt.NondetRange("prefix_v", 0, 1) == 0 {
				prefix = cid.Prefix{Version: 0, Codec: cid.DagProtobuf, MhType: mh.SHA2_256, MhLength: 32}.Bytes()
			} else {
				prefix = cid.Prefix{Version: 1, Codec: cid.Raw, MhType: mh.SHA2_256, MhLength: 32}.Bytes()
			}
		}
		dlen := 1
		if mode == 1 {
			if verifrt.Param("DLEN1", 1) == 0 {
				dlen = 2 * verifrt.NondetRange("data_len", 0, 1) // quick: data of 0 or 2 bytes
			} else {
				dlen = verifrt.NondetRange("data_len", 0, 2)
			}
		}
		blk := &pb.Message_Block{Prefix: prefix, Data: verifrt.NondetBytes("data", dlen)}
		if len(prefix) == 0 && len(blk.Data) == 0 && verifrt.NondetRange("nil_block", 0, 1) == 1 {
			blk = nil // a nil element (getters are nil-safe)
		}
		pbm.Payload = append(pbm.Payload, blk)
	}
	// The rest of the message is varied only around a usable first block (by the oracle's own reading of the
	// prefix); a message whose first block is malformed carries one fixed deprecated block and one fixed
	// presence - it has to be rejected as a whole whatever else it holds.
	good := true
	if mode == 1 && len(pbm.Payload) > 0 {
		ver, codec, mht, mhl, ok := zz34ParsePrefix(pbm.Payload[0].GetPrefix())
		good = ok && ver <= 1 && (ver == 1 || (mht == mh.SHA2_256 && mhl == 32)) &&
			(mht == mh.IDENTITY || (mht == mh.SHA2_256 && mhl <= 32) || (mht == mh.SHA2_512 && mhl <= 64))
		_ = codec
	}
	if mode == 1 {
		nold := verifrt.Param("NOLD", 1)
		if good {
			nold = verifrt.NondetRange("nold", 0, nold)
		}
		for i := 0; i < nold; i++ {
			olen := 1
			if good {
				olen = verifrt.NondetRange("old_len", 1-verifrt.Param("OLDEMPTY", 1), 1)
			}
			pbm.Blocks = append(pbm.Blocks, verifrt.NondetBytes("old_data", olen))
		}
	}
	npres := verifrt.Param("NP", 1)
	if good || mode != 1 {
		npres = verifrt.NondetRange("npres", 0, npres)
	}
	for i := 0; i < npres; i++ {
		var b []byte
		if mode == 2 {
			b = zz34CidBytes("p_cid")
		} else {
			b = pool[0].Bytes()
			if good && len(pbm.Payload) > 0 && verifrt.NondetRange("p_cid_of_block", 0, 1) == 1 {
				// the CID the first payload block hashes to (when its prefix is usable)
				if ver, codec, mht, mhl, ok := zz34ParsePrefix(pbm.Payload[0].GetPrefix()); ok {
					if ref, ok := zz34RefCid(ver, codec, mht, mhl, pbm.Payload[0].GetData()); ok {
						b = ref
					}
				}
			}
		}
		presBytes = append(presBytes, b)
		pbm.BlockPresences = append(pbm.BlockPresences, &pb.Message_BlockPresence{
			Cid:  b,
			Type: pb.Message_BlockPresenceType(verifrt.NondetI32("p_type")),
		})
	}
	pbm.PendingBytes = verifrt.NondetI32("pending")

	m, err := newMessageFromProto(pbm) // a panic in here is reported by the engine as a violation candidate
	verifrt.Observe("accepted", err == nil)
	if err != nil {
		verifrt.Assert("C34.parse.error-means-no-message", m == nil)
		verifrt.Reach("end")
		return
	}
	verifrt.Assert("C34.parse.accepted-message-not-nil", m != nil)

	// ---- accepted => every CID was exactly one well-formed binary CID, kept verbatim
	es := m.Wantlist()
	for _, b := range entryBytes {
		verifrt.Assert("C34.parse.entry-cid-wellformed", zz34WellFormedCid(b))
		n := 0
		for _, e := range es {
			if bytes.Equal(e.Cid.Bytes(), b) {
				n++
			}
		}
		verifrt.Assert("C34.parse.entry-kept", n == 1)
	}
	for _, e := range es {
		verifrt.Assert("C34.parse.entry-cid-defined", e.Cid.Defined())
		found := false
		for _, b := range entryBytes {
			if bytes.Equal(e.Cid.Bytes(), b) {
				found = true
			}
		}
		verifrt.Assert("C34.parse.no-invented-entry", found)
	}
	verifrt.Assert("C34.parse.full", m.Full() == (pbm.Wantlist != nil && pbm.Wantlist.Full))
	verifrt.Assert("C34.parse.pending-bytes", m.PendingBytes() == pbm.PendingBytes)

	// ---- accepted => every block carries the CID computed from its own bytes under its own prefix
	var want []zz34Blk
	for _, d := range pbm.Blocks {
		ref, ok := zz34RefCid(0, cid.DagProtobuf, mh.SHA2_256, 32, d)
		verifrt.Assert("C34.parse.old-block-ref", ok)
		want = append(want, zz34Blk{ref, d})
	}
	for _, pbk := range pbm.Payload {
		ver, codec, mht, mhl, ok := zz34ParsePrefix(pbk.GetPrefix())
		verifrt.Assert("C34.parse.prefix-wellformed", ok)
		if !ok {
			return
		}
		ref, ok := zz34RefCid(ver, codec, mht, mhl, pbk.GetData())
		verifrt.Assert("C34.parse.prefix-usable", ok)
		if !ok {
			return
		}
		want = append(want, zz34Blk{ref, pbk.GetData()})
	}
	got := m.Blocks()
	for _, w := range want {
		n := 0
		for _, g := range got {
			if bytes.Equal(g.Cid().Bytes(), w.ref) {
				n++
				verifrt.Assert("C34.parse.block-data", bytes.Equal(g.RawData(), w.data))
			}
		}
		verifrt.Assert("C34.parse.block-kept", n == 1)
	}
	for _, g := range got {
		found := false
		for _, w := range want {
			if bytes.Equal(g.RawData(), w.data) && bytes.Equal(g.Cid().Bytes(), w.ref) {
				found = true
			}
		}
		verifrt.Assert("C34.parse.block-self-certifying", found)
	}
	verifrt.Observe("blocks", len(got))

	// ---- presences: well-formed, kept unless a block with that CID is in the message
	ps := m.BlockPresences()
	for _, b := range presBytes {
		verifrt.Assert("C34.parse.presence-cid-wellformed", zz34WellFormedCid(b))
		hasBlock := false
		for _, g := range got {
			if bytes.Equal(g.Cid().Bytes(), b) {
				hasBlock = true
			}
		}
		n := 0
		for _, p := range ps {
			if bytes.Equal(p.Cid.Bytes(), b) {
				n++
			}
		}
		if hasBlock {
			verifrt.Assert("C34.parse.presence-shadowed-by-block", n == 0)
		} else {
			verifrt.Assert("C34.parse.presence-kept", n == 1)
		}
	}
	for _, p := range ps {
		found := false
		for _, b := range presBytes {
			if bytes.Equal(p.Cid.Bytes(), b) {
				found = true
			}
		}
		verifrt.Assert("C34.parse.no-invented-presence", found)
	}
	verifrt.Reach("end")
}
