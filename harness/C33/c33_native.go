package resolver

import (
	"context"
	"errors"
	"fmt"

	bsfetcher "github.com/ipfs/boxo/fetcher/impl/blockservice"
	"github.com/ipfs/boxo/internal/verifrt"
	dag "github.com/ipfs/boxo/ipld/merkledag"
	mdtest "github.com/ipfs/boxo/ipld/merkledag/test"
	ft "github.com/ipfs/boxo/ipld/unixfs"
	uio "github.com/ipfs/boxo/ipld/unixfs/io"
	"github.com/ipfs/boxo/path"
	cid "github.com/ipfs/go-cid"
	format "github.com/ipfs/go-ipld-format"
	"github.com/ipfs/go-unixfsnode"
	dagpb "github.com/ipld/go-codec-dagpb"
)

// zz33RealUnixFS is the native twin of a UnixFS-shaped model world (never run under the engine): the same
// shape is built with the real UnixFS directory code (basic, or HAMT-sharded with a fan-out of 8 and 24 filler
// entries so that lookups cross shard blocks), stored in a real offline block service, and resolved with the
// real fetcher + go-unixfsnode reifier. It checks (a) the property on the real stack and (b) that the real
// stack behaves as the model world the engine explored (same outcome class, same named segment, the block
// at the same position on the path).
func zz33RealUnixFS(tag string, k int, segs []string, exp zz33Expect, hamt bool) {
	ctx := context.Background()
	bserv := mdtest.Bserv()
	dserv := dag.NewDAGService(bserv)

	file := func(label string) format.Node {
		n := dag.NodeWithData(ft.FilePBData([]byte(label), uint64(len(label))))
		if err := dserv.Add(ctx, n); err != nil {
			panic(err)
		}
		return n
	}
	type entry struct {
		name string
		n    format.Node
	}
	mkdir := func(entries []entry) format.Node {
		var d uio.Directory
		var err error
		if hamt {
			d, err = uio.NewHAMTDirectory(dserv, 0, uio.WithMaxHAMTFanout(8))
			if err == nil {
				filler := file("filler")
				for i := 0; i < 24 && err == nil; i++ {
					err = d.AddChild(ctx, fmt.Sprintf("f%02d", i), filler)
				}
			}
		} else {
			d, err = uio.NewBasicDirectory(dserv)
		}
		if err != nil {
			panic(err)
		}
		for _, e := range entries {
			if err := d.AddChild(ctx, e.name, e.n); err != nil {
				panic(err)
			}
		}
		nd, err := d.GetNode()
		if err != nil {
			panic(err)
		}
		if err := dserv.Add(ctx, nd); err != nil {
			panic(err)
		}
		return nd
	}

	reached := map[int]cid.Cid{} // number of segments consumed -> CID of the block reached
	var build func(i int) format.Node
	build = func(i int) format.Node {
		entries := []entry{{fmt.Sprintf("marker%d", i), file(fmt.Sprintf("marker%d", i))}}
		if i < len(exp.levels) {
			lv := exp.levels[i]
			entries = append(entries, entry{lv.other, mkdir([]entry{{"decoy", file(fmt.Sprintf("decoy%d", i))}})})
			if lv.exists {
				var child format.Node
				if lv.kind == zz33LinkDir {
					child = build(i + 1)
				} else {
					child = file(fmt.Sprintf("file%d", i))
					reached[i+1] = child.Cid()
				}
				entries = append(entries, entry{lv.name, child})
			}
		}
		nd := mkdir(entries)
		reached[i] = nd.Cid()
		return nd
	}
	root := build(0)

	cfg := bsfetcher.NewFetcherConfig(bserv)
	cfg.NodeReifier = unixfsnode.Reify
	cfg.PrototypeChooser = dagpb.AddSupportToChooser(bsfetcher.DefaultPrototypeChooser)
	r := NewBasicResolver(cfg)

	s := "/ipfs/" + root.Cid().String()
	for _, seg := range segs {
		s += "/" + seg
	}
	p, err := path.NewPath(s)
	if err != nil {
		panic(err)
	}
	ip, err := path.NewImmutablePath(p)
	if err != nil {
		panic(err)
	}
	c, rem, err := r.ResolveToLastNode(ctx, ip)
	if exp.missing < 0 {
		verifrt.Assert(tag+".existing-path-resolves", err == nil)
		verifrt.Assert(tag+".cid-of-named-entry", err == nil && c.Equals(reached[k]))
		verifrt.Assert(tag+".remainder-empty", err == nil && len(rem) == 0)
		n, lnk, err := r.ResolvePath(ctx, ip)
		verifrt.Assert(tag+".resolvepath-link-of-named-entry", err == nil && n != nil && lnk.String() == reached[k].String())
		return
	}
	verifrt.Assert(tag+".missing-name-fails", err != nil)
	var nl *ErrNoLink
	isNoLink := errors.As(err, &nl)
	if !(exp.wrongKind && exp.missing == k-1) {
		verifrt.Assert(tag+".error-is-ErrNoLink", isNoLink)
	}
	if isNoLink {
		verifrt.Assert(tag+".ErrNoLink-names-first-missing-segment", nl.Name == segs[exp.missing])
		verifrt.Assert(tag+".ErrNoLink-node-is-last-block-reached", nl.Node.Equals(reached[exp.missing]))
	}
	_, _, err = r.ResolvePath(ctx, ip)
	verifrt.Assert(tag+".resolvepath-missing-fails", err != nil)
}
