package resolver

import (
	"context"
	"errors"
	"fmt"

	"github.com/ipfs/boxo/blockservice"
	"github.com/ipfs/boxo/blockstore"
	offline "github.com/ipfs/boxo/exchange/offline"
	bsfetcher "github.com/ipfs/boxo/fetcher/impl/blockservice"
	"github.com/ipfs/boxo/internal/verifrt"
	dag "github.com/ipfs/boxo/ipld/merkledag"
	ft "github.com/ipfs/boxo/ipld/unixfs"
	uio "github.com/ipfs/boxo/ipld/unixfs/io"
	"github.com/ipfs/boxo/path"
	blocks "github.com/ipfs/go-block-format"
	cid "github.com/ipfs/go-cid"
	ds "github.com/ipfs/go-datastore"
	dssync "github.com/ipfs/go-datastore/sync"
	format "github.com/ipfs/go-ipld-format"
	"github.com/ipfs/go-unixfsnode"
	dagpb "github.com/ipld/go-codec-dagpb"
)

// zz33CtxBlockstore is an in-memory blockstore that honours cancellation like any block source doing I/O
// (bitswap, remote or on-disk stores): a read whose context is already done is refused with the context's error.
type zz33CtxBlockstore struct {
	blockstore.Blockstore
	reads int
}

func (b *zz33CtxBlockstore) Get(ctx context.Context, c cid.Cid) (blocks.Block, error) {
	if err := ctx.Err(); err != nil {
		return nil, err
	}
	b.reads++
	return b.Blockstore.Get(ctx, c)
}

func (b *zz33CtxBlockstore) Has(ctx context.Context, c cid.Cid) (bool, error) {
	if err := ctx.Err(); err != nil {
		return false, err
	}
	return b.Blockstore.Has(ctx, c)
}

func (b *zz33CtxBlockstore) GetSize(ctx context.Context, c cid.Cid) (int, error) {
	if err := ctx.Err(); err != nil {
		return 0, err
	}
	return b.Blockstore.GetSize(ctx, c)
}

// zz33AllChildShards: every slot of the root shard block of a HAMT directory (fan-out 8: link names carry a
// one-digit slot prefix) holds a child shard, so that looking up any name - present or not - needs at least
// one more block than the directory's own.
func zz33AllChildShards(nd format.Node) bool {
	links := nd.Links()
	if len(links) != 8 {
		return false
	}
	for _, l := range links {
		if len(l.Name) != 1 {
			return false
		}
	}
	return true
}

// zz33RealUnixFS is the native twin of a UnixFS-shaped model world (never run under the engine): the same
// shape is built with the real UnixFS directory code - every directory on the path is a basic directory or,
// where the model directory is lazy, a HAMT-sharded one (fan-out 8, 24+ filler entries, as many as it takes
// to push every entry into a child shard block) - stored in a real offline block service over a blockstore
// that honours context cancellation, and resolved with the real fetcher + go-unixfsnode reifier. It checks
// (a) the property on the real stack and (b) that the real stack behaves as the model world the engine explored
// (same outcome class, same named segment, the block at the same position on the path).
// callerCancelled: resolve with a context the caller has already cancelled.
func zz33RealUnixFS(tag string, k int, segs []string, exp zz33Expect, callerCancelled bool) {
	bctx := context.Background()
	store := &zz33CtxBlockstore{Blockstore: blockstore.NewBlockstore(dssync.MutexWrap(ds.NewMapDatastore()))}
	bserv := blockservice.New(store, offline.Exchange(store))
	dserv := dag.NewDAGService(bserv)

	file := func(label string) format.Node {
		n := dag.NodeWithData(ft.FilePBData([]byte(label), uint64(len(label))))
		if err := dserv.Add(bctx, n); err != nil {
			panic(err)
		}
		return n
	}
	type entry struct {
		name string
		n    format.Node
	}
	mkdir := func(entries []entry, hamt bool) format.Node {
		var d uio.Directory
		var err error
		if hamt {
			d, err = uio.NewHAMTDirectory(dserv, 0, uio.WithMaxHAMTFanout(8))
		} else {
			d, err = uio.NewBasicDirectory(dserv)
		}
		if err != nil {
			panic(err)
		}
		for _, e := range entries {
			if err := d.AddChild(bctx, e.name, e.n); err != nil {
				panic(err)
			}
		}
		var nd format.Node
		if hamt {
			filler := file("filler")
			for i := 0; ; i++ {
				if i >= 24 {
					if nd, err = d.GetNode(); err != nil {
						panic(err)
					}
					if zz33AllChildShards(nd) {
						break
					}
					if i > 400 {
						panic("zz33: HAMT root shard still holds entries")
					}
				}
				if err := d.AddChild(bctx, fmt.Sprintf("f%02d", i), filler); err != nil {
					panic(err)
				}
			}
		} else if nd, err = d.GetNode(); err != nil {
			panic(err)
		}
		if err := dserv.Add(bctx, nd); err != nil {
			panic(err)
		}
		return nd
	}

	reached := map[int]cid.Cid{} // number of segments consumed -> CID of the block reached
	var build func(i int) format.Node
	build = func(i int) format.Node {
		entries := []entry{{fmt.Sprintf("marker%d", i), file(fmt.Sprintf("marker%d", i))}}
		if i < len(exp.levels) {
			lv := exp.levels[i]
			entries = append(entries, entry{lv.other, mkdir([]entry{{"decoy", file(fmt.Sprintf("decoy%d", i))}}, false)})
			if lv.exists {
				var child format.Node
				if lv.kind == zz33LinkDir {
					child = build(i + 1)
				} else {
					child = file(fmt.Sprintf("file%d", i))
					reached[i+1] = child.Cid()
				}
				entries = append(entries, entry{lv.name, child})
			}
		}
		nd := mkdir(entries, exp.lazy[i])
		reached[i] = nd.Cid()
		return nd
	}
	root := build(0)

	cfg := bsfetcher.NewFetcherConfig(bserv)
	cfg.NodeReifier = unixfsnode.Reify
	cfg.PrototypeChooser = dagpb.AddSupportToChooser(bsfetcher.DefaultPrototypeChooser)
	r := NewBasicResolver(cfg)

	s := "/ipfs/" + root.Cid().String()
	for _, seg := range segs {
		s += "/" + seg
	}
	p, err := path.NewPath(s)
	if err != nil {
		panic(err)
	}
	ip, err := path.NewImmutablePath(p)
	if err != nil {
		panic(err)
	}
	// the caller's context: alive until this function returns, or cancelled before the calls
	ctx, cancel := context.WithCancel(context.Background())
	defer cancel()
	if callerCancelled {
		cancel()
		store.reads = 0
		c, rem, err := r.ResolveToLastNode(ctx, ip)
		if k > 0 {
			verifrt.Assert(tag+".tolastnode-fails", err != nil)
		}
		if err != nil {
			verifrt.Assert(tag+".tolastnode-returns-nothing", !c.Defined() && len(rem) == 0)
		}
		n, lnk, err := r.ResolvePath(ctx, ip)
		verifrt.Assert(tag+".resolvepath-fails", err != nil)
		verifrt.Assert(tag+".resolvepath-returns-nothing", n == nil && lnk == nil)
		nodes, err := r.ResolvePathComponents(ctx, ip)
		verifrt.Assert(tag+".components-fails", err != nil)
		verifrt.Assert(tag+".components-returns-nothing", len(nodes) == 0)
		verifrt.Assert(tag+".nothing-fetched", store.reads == 0)
		return
	}

	c, rem, err := r.ResolveToLastNode(ctx, ip)
	verifrt.Assert(tag+".no-context-error-while-caller-alive", !zz33IsCtxErr(err))
	if exp.missing < 0 {
		verifrt.Assert(tag+".existing-path-resolves", err == nil)
		verifrt.Assert(tag+".cid-of-named-entry", err == nil && c.Equals(reached[k]))
		verifrt.Assert(tag+".remainder-empty", err == nil && len(rem) == 0)
		n, lnk, err := r.ResolvePath(ctx, ip)
		verifrt.Assert(tag+".resolvepath-link-of-named-entry", err == nil && n != nil && lnk.String() == reached[k].String())
		lastIsDir := k == 0 || exp.levels[k-1].kind == zz33LinkDir
		if err == nil && lastIsDir {
			// the directory handed out stays usable (lazy shard loads included) while the caller's context lives
			m, lerr := n.LookupByString(fmt.Sprintf("marker%d", k))
			verifrt.Assert(tag+".resolvepath-node-usable-while-caller-alive", lerr == nil && m != nil)
		}
		nodes, err := r.ResolvePathComponents(ctx, ip)
		verifrt.Assert(tag+".components-one-node-per-segment", err == nil && len(nodes) == k+1)
		return
	}
	verifrt.Assert(tag+".missing-name-fails", err != nil)
	var nl *ErrNoLink
	isNoLink := errors.As(err, &nl)
	if !(exp.wrongKind && exp.missing == k-1) {
		verifrt.Assert(tag+".error-is-ErrNoLink", isNoLink)
	}
	if isNoLink {
		verifrt.Assert(tag+".ErrNoLink-names-first-missing-segment", nl.Name == segs[exp.missing])
		verifrt.Assert(tag+".ErrNoLink-node-is-last-block-reached", nl.Node.Equals(reached[exp.missing]))
	}
	_, _, err = r.ResolvePath(ctx, ip)
	verifrt.Assert(tag+".resolvepath-missing-fails", err != nil)
	verifrt.Assert(tag+".resolvepath-no-context-error-while-caller-alive", !zz33IsCtxErr(err))
}
