package resolver

import (
	"context"
	"errors"
	"hash"
	"strings"

	"github.com/ipfs/boxo/blockservice"
	"github.com/ipfs/boxo/blockstore"
	"github.com/ipfs/boxo/exchange"
	bsfetcher "github.com/ipfs/boxo/fetcher/impl/blockservice"
	"github.com/ipfs/boxo/internal/verifrt"
	"github.com/ipfs/boxo/path"
	blocks "github.com/ipfs/go-block-format"
	cid "github.com/ipfs/go-cid"
	format "github.com/ipfs/go-ipld-format"
	_ "github.com/ipld/go-ipld-prime/codec/raw"
	"github.com/ipld/go-ipld-prime/datamodel"
	"github.com/ipld/go-ipld-prime/linking"
	cidlink "github.com/ipld/go-ipld-prime/linking/cid"
	basicnode "github.com/ipld/go-ipld-prime/node/basic"
	"github.com/ipld/go-ipld-prime/schema"
	mh "github.com/multiformats/go-multihash"
)

// ---- C33: model world ----
//
// What is boxo's own in path resolution is the bookkeeping of resolver.go on top of the fetcher. The harness
// runs the real resolver, the real blockservice fetcher (bsfetcher) and the real ipld-prime selector walk over
// a model world: every block is a raw-codec block holding one byte (its id), and the link system's node
// reifier - the hook through which go-unixfsnode presents dag-pb directories (basic and HAMT alike) as maps
// from names to links - maps the decoded block to a model directory node. What a directory block decodes to
// is therefore modelled; everything from the reified node upwards is the real code.

func zz33Cid(id byte) cid.Cid {
	digest := make([]byte, 32)
	digest[0] = id
	digest[31] = 0x33
	m, err := mh.Encode(digest, mh.SHA2_256)
	if err != nil {
		panic(err)
	}
	return cid.NewCidV1(cid.Raw, m)
}

// zz33GetHasher is bound to go-multihash/core.GetHasher under the engine: the link system asks for a hasher
// for every load, but with TrustedStorage (which bsfetcher sets) never feeds it. crypto/* is opaque.
type zz33Hash struct{ hash.Hash }

func zz33GetHasher(indicator uint64) (hash.Hash, error) { return zz33Hash{}, nil }

type zz33Entry struct {
	name string
	node datamodel.Node // a link node (crosses a block boundary) or an in-block node
}

// zz33Dir is a map node. unixfs=true behaves like a go-unixfsnode directory (missing name =>
// schema.ErrNoSuchField), unixfs=false like a plain data-model map inside a block (datamodel.ErrNotExists).
//
// shard != 0 makes the directory lazy, the way a HAMT-sharded go-unixfsnode directory is: the block of the
// directory itself (the root shard) does not hold the entries; every lookup loads the child shard block `shard`
// through the link system (and link context) the directory was reified with - i.e. through the fetcher
// session that produced the node, whose block opener captured the session context - and answers from the
// loaded shard. A lookup therefore fails with the context's error once that session context is done.
type zz33Dir struct {
	datamodel.Node // nil: methods not overridden below are not expected to be called
	unixfs         bool
	entries        []zz33Entry
	shard          byte
	ls             *linking.LinkSystem // lazy, reified: the session's link system
	lctx           linking.LinkContext // lazy, reified: the link context of the load that produced the node
	orig           *zz33Dir            // lazy, reified: the world's directory this node is a session-bound view of
}

func (d *zz33Dir) Kind() datamodel.Kind { return datamodel.Kind_Map }
func (d *zz33Dir) IsAbsent() bool       { return false }
func (d *zz33Dir) IsNull() bool         { return false }
func (d *zz33Dir) Length() int64        { return int64(len(d.entries)) }
func (d *zz33Dir) Prototype() datamodel.NodePrototype {
	return basicnode.Prototype.Any
}
func (d *zz33Dir) AsLink() (datamodel.Link, error) {
	return nil, datamodel.ErrWrongKind{MethodName: "AsLink", AppropriateKind: datamodel.KindSet_JustLink, ActualKind: datamodel.Kind_Map}
}
func (d *zz33Dir) LookupByString(key string) (datamodel.Node, error) {
	if d.shard != 0 {
		if d.ls == nil {
			panic("zz33: lookup in a lazy directory that did not come out of a link system")
		}
		n, err := d.ls.Load(linking.LinkContext{Ctx: d.lctx.Ctx}, cidlink.Link{Cid: zz33Cid(d.shard)}, basicnode.Prototype.Any)
		if err != nil {
			return nil, err
		}
		return n.LookupByString(key)
	}
	for _, e := range d.entries {
		if e.name == key {
			return e.node, nil
		}
	}
	if d.unixfs {
		return nil, schema.ErrNoSuchField{Type: nil, Field: datamodel.PathSegmentOfString(key)}
	}
	return nil, datamodel.ErrNotExists{Segment: datamodel.PathSegmentOfString(key)}
}
func (d *zz33Dir) LookupBySegment(seg datamodel.PathSegment) (datamodel.Node, error) {
	return d.LookupByString(seg.String())
}

type zz33World struct {
	blocks map[byte]datamodel.Node // id -> reified node of that block (directory); files: no entry
	ids    []byte
	gets   []byte // ids of the blocks fetched, in order
}

func (w *zz33World) newBlock(n datamodel.Node) byte {
	id := byte(len(w.ids) + 1)
	w.ids = append(w.ids, id)
	if n != nil {
		w.blocks[id] = n
	}
	return id
}

func (w *zz33World) idOf(c cid.Cid) int {
	for _, id := range w.ids {
		if zz33Cid(id).Equals(c) {
			return int(id)
		}
	}
	return -1
}

// blockstore side: only Get is used by blockservice.getBlock.
type zz33Blockstore struct {
	blockstore.Blockstore
	w *zz33World
}

// Get honours cancellation like any block source that does I/O (bitswap, remote or on-disk stores): a request
// whose context is already done is refused with the context's error.
func (b *zz33Blockstore) Get(ctx context.Context, c cid.Cid) (blocks.Block, error) {
	if err := ctx.Err(); err != nil {
		return nil, err
	}
	id := b.w.idOf(c)
	if id < 0 {
		return nil, format.ErrNotFound{Cid: c}
	}
	b.w.gets = append(b.w.gets, byte(id))
	return blocks.NewBlockWithCid([]byte{byte(id)}, c)
}

type zz33BlockService struct {
	blockservice.BlockService
	bs *zz33Blockstore
}

func (s *zz33BlockService) Blockstore() blockstore.Blockstore { return s.bs }
func (s *zz33BlockService) Exchange() exchange.Interface       { return nil }

func (w *zz33World) reify(lc linking.LinkContext, n datamodel.Node, ls *linking.LinkSystem) (datamodel.Node, error) {
	b, err := n.AsBytes()
	if err != nil || len(b) != 1 {
		return nil, errors.New("zz33: not a model block")
	}
	if d, ok := w.blocks[b[0]]; ok {
		if dd, isDir := d.(*zz33Dir); isDir && dd.shard != 0 {
			// a lazy directory is bound to the link system that loaded it (go-unixfsnode's HAMT node keeps lsys
			// and lnkCtx.Ctx the same way)
			return &zz33Dir{unixfs: true, shard: dd.shard, ls: ls, lctx: lc, orig: dd}, nil
		}
		return d, nil
	}
	return n, nil // a file: its bytes
}

func (w *zz33World) resolver() *basicResolver {
	cfg := bsfetcher.NewFetcherConfig(&zz33BlockService{bs: &zz33Blockstore{w: w}})
	return &basicResolver{FetcherFactory: cfg.WithReifier(w.reify)}
}

// zz33Same: n is the world's node want (or the session-bound view of the lazy directory want).
func zz33Same(n, want datamodel.Node) bool {
	if d, ok := n.(*zz33Dir); ok && d.orig != nil {
		return datamodel.Node(d.orig) == want
	}
	return n == want
}

// zz33Usable looks a name that does not exist up in a directory node handed out by the resolver: a directory
// that is still usable answers "no such field"; a lazy one whose session is gone answers with a context error.
func zz33Usable(n datamodel.Node) bool {
	_, err := n.LookupByString("zz")
	_, ok := err.(schema.ErrNoSuchField)
	return ok
}

// kinds of what a name points at
const (
	zz33LinkDir   = 0 // link to another directory block (UnixFS: every directory entry is such a link)
	zz33LinkFile  = 1 // link to a file block
	zz33InMap     = 2 // map inside the same block (dag-cbor like)
	zz33InScalar  = 3 // scalar inside the same block
	zz33NumUnixfs = 2
)

type zz33Expect struct {
	missing   int    // index of the first segment that does not exist, -1 if the whole path exists
	wrongKind bool   // the path continues below a non-map node
	block     byte   // block that contains the last node reached
	inblock   []string
	target    byte   // missing<0: block id of the final node's block (== block)
	nodes     []datamodel.Node
	levels    []zz33Level
	lazy      []bool // per directory block on the path (root first): lazy (HAMT-like) or not
}

// zz33Level describes the directory the i-th segment is looked up in (for the native real-UnixFS twin).
type zz33Level struct {
	name, other string
	exists      bool
	kind        int
}

// zz33Scenario builds a world with one root directory and a path of k segments through it.
func zz33Scenario(k int, inblock bool) (*zz33World, []string, zz33Expect) {
	pool := []string{"a", "b"}
	w := &zz33World{blocks: map[byte]datamodel.Node{}}
	exp := zz33Expect{missing: -1}
	// mkDir makes a directory block on the path: head is the node the block reifies to, store the node that
	// holds the entries (the child shard of a lazy directory, else head itself).
	mkDir := func() (head, store *zz33Dir, id byte) {
		lazy := verifrt.Param("LAZY", 1) == 1 && verifrt.NondetRange("lazy", 0, 1) == 1
		exp.lazy = append(exp.lazy, lazy)
		head = &zz33Dir{unixfs: true}
		id = w.newBlock(head)
		store = head
		if lazy {
			store = &zz33Dir{unixfs: true}
			head.shard = w.newBlock(store)
		}
		return
	}
	root, cur, rootID := mkDir() // cur: container the next segment is looked up in; nil below a non-map
	exp.block, exp.target, exp.nodes = rootID, rootID, []datamodel.Node{root}
	curLazy := root != cur
	var segs []string
	for i := 0; i < k; i++ {
		pick := verifrt.NondetRange("seg", 0, 1)
		name, other := pool[pick], pool[1-pick]
		segs = append(segs, name)
		if exp.missing >= 0 {
			continue
		}
		if cur == nil {
			exp.missing, exp.wrongKind = i, true
			continue
		}
		// the other name always exists and leads elsewhere
		decoy := w.newBlock(&zz33Dir{unixfs: true})
		cur.entries = append(cur.entries, zz33Entry{other, basicnode.NewLink(cidlink.Link{Cid: zz33Cid(decoy)})})
		if verifrt.NondetRange("exists", 0, 1) == 0 {
			exp.missing = i
			exp.levels = append(exp.levels, zz33Level{name: name, other: other})
			continue
		}
		maxKind := zz33NumUnixfs - 1
		if inblock && !curLazy { // the entries of a sharded directory are always links
			maxKind = zz33InScalar
		}
		kind := verifrt.NondetRange("kind", 0, maxKind)
		exp.levels = append(exp.levels, zz33Level{name: name, other: other, exists: true, kind: kind})
		switch kind {
		case zz33LinkDir:
			d, store, id := mkDir()
			cur.entries = append(cur.entries, zz33Entry{name, basicnode.NewLink(cidlink.Link{Cid: zz33Cid(id)})})
			cur, exp.block, exp.target, exp.inblock = store, id, id, nil
			curLazy = d != store
			exp.nodes = append(exp.nodes, d)
		case zz33LinkFile:
			id := w.newBlock(nil)
			cur.entries = append(cur.entries, zz33Entry{name, basicnode.NewLink(cidlink.Link{Cid: zz33Cid(id)})})
			cur, curLazy, exp.block, exp.target, exp.inblock = nil, false, id, id, nil
			exp.nodes = append(exp.nodes, nil)
		case zz33InMap:
			d := &zz33Dir{unixfs: false}
			cur.entries = append(cur.entries, zz33Entry{name, d})
			cur, curLazy = d, false
			exp.inblock = append(exp.inblock, name)
			exp.nodes = append(exp.nodes, d)
		case zz33InScalar:
			s := basicnode.NewString("leaf")
			cur.entries = append(cur.entries, zz33Entry{name, s})
			cur = nil
			exp.inblock = append(exp.inblock, name)
			exp.nodes = append(exp.nodes, s)
		}
	}
	return w, segs, exp
}

func zz33Path(segs []string) path.ImmutablePath {
	p, err := path.NewPath("/ipfs/" + zz33Cid(1).String() + "/" + strings.Join(segs, "/"))
	if err != nil {
		panic(err)
	}
	ip, err := path.NewImmutablePath(p)
	if err != nil {
		panic(err)
	}
	return ip
}

func zz33ToLastNode(id string, inblock bool) {
	k := verifrt.NondetRange("k", 0, verifrt.Param("K", 3))
	w, segs, exp := zz33Scenario(k, inblock)
	r := w.resolver()
	// the caller's context stays alive for the whole entry (cancelled only when the entry is over)
	ctx, cancel := context.WithCancel(context.Background())
	defer cancel()
	c, rem, err := r.ResolveToLastNode(ctx, zz33Path(segs))
	verifrt.Observe("err", err != nil)
	verifrt.Observe("cid", w.idOf(c))
	verifrt.Observe("rem", strings.Join(rem, "/"))
	verifrt.Observe("gets", w.gets)

	if !verifrt.Symbolic() && !inblock {
		// native only (witness and counterexample replays): the same shape on the real UnixFS stack
		zz33RealUnixFS("C33.real-unixfs", k, segs, exp, false)
	}

	// whatever the outcome, a live caller context must never surface as a context error
	verifrt.Assert(id+".no-context-error-while-caller-alive", !zz33IsCtxErr(err))
	if exp.missing < 0 {
		verifrt.Assert(id+".existing-path-resolves", err == nil)
		if err == nil {
			verifrt.Assert(id+".cid-of-named-entry", w.idOf(c) == int(exp.target))
			verifrt.Assert(id+".remainder", strings.Join(rem, "/") == strings.Join(exp.inblock, "/"))
		}
		verifrt.Reach("end")
		return
	}
	verifrt.Assert(id+".missing-name-fails", err != nil)
	if err != nil {
		var nl *ErrNoLink
		isNoLink := errors.As(err, &nl)
		// Looking the *last* segment up in something that is not a UnixFS directory (a file, a scalar, a
		// plain in-block map) surfaces the node's own error; everywhere else the error must be ErrNoLink.
		lastInNonDir := exp.missing == k-1 && (exp.wrongKind || len(exp.inblock) > 0)
		if !lastInNonDir {
			verifrt.Assert(id+".error-is-ErrNoLink", isNoLink)
		}
		if isNoLink {
			verifrt.Assert(id+".ErrNoLink-names-first-missing-segment", nl.Name == segs[exp.missing])
			verifrt.Assert(id+".ErrNoLink-node-is-last-block-reached", w.idOf(nl.Node) == int(exp.block))
		}
	}
	verifrt.Reach("end")
}

func zz33IsCtxErr(err error) bool {
	return err != nil && (errors.Is(err, context.Canceled) || errors.Is(err, context.DeadlineExceeded))
}

// HarnessC33ToLastNode: UnixFS-shaped worlds (every entry is a link to a directory or file block; every
// directory on the path is eager (basic) or lazy (HAMT-like)).
func HarnessC33ToLastNode() { zz33ToLastNode("C33", false) }

// HarnessC33ToLastNodeInBlock: worlds that also contain maps and scalars inside a block (the remainder
// bookkeeping of ResolveToLastNode).
func HarnessC33ToLastNodeInBlock() { zz33ToLastNode("C33.inblock", true) }

// HarnessC33ResolvePath: ResolvePath and ResolvePathComponents over the same worlds.
func HarnessC33ResolvePath() {
	k := verifrt.NondetRange("k", 0, verifrt.Param("K", 3))
	w, segs, exp := zz33Scenario(k, verifrt.Param("INBLOCK", 0) == 1)
	r := w.resolver()
	fp := zz33Path(segs)
	ctx, cancel := context.WithCancel(context.Background())
	defer cancel()

	n, lnk, err := r.ResolvePath(ctx, fp)
	verifrt.Observe("err", err != nil)
	verifrt.Assert("C33.resolvepath-no-context-error-while-caller-alive", !zz33IsCtxErr(err))
	if exp.missing < 0 {
		verifrt.Assert("C33.resolvepath-existing-resolves", err == nil)
		if err == nil {
			cl, ok := lnk.(cidlink.Link)
			verifrt.Assert("C33.resolvepath-link-is-cidlink", ok)
			verifrt.Observe("cid", w.idOf(cl.Cid))
			verifrt.Assert("C33.resolvepath-link-of-named-entry", w.idOf(cl.Cid) == int(exp.target))
			want := exp.nodes[len(exp.nodes)-1]
			if want != nil {
				verifrt.Assert("C33.resolvepath-node-is-named-entry", zz33Same(n, want))
				if d, isDir := want.(*zz33Dir); isDir && d.unixfs {
					// the directory handed out stays usable (lazy loads included) while the caller's context lives
					verifrt.Assert("C33.resolvepath-node-usable-while-caller-alive", zz33Usable(n))
				}
			} else {
				b, berr := n.AsBytes()
				verifrt.Assert("C33.resolvepath-node-is-named-entry", berr == nil && len(b) == 1 && b[0] == exp.target)
			}
		}
	} else {
		verifrt.Assert("C33.resolvepath-missing-fails", err != nil)
	}

	nodes, err := r.ResolvePathComponents(ctx, fp)
	verifrt.Observe("ncomp", len(nodes))
	verifrt.Assert("C33.components-no-context-error-while-caller-alive", !zz33IsCtxErr(err))
	if exp.missing < 0 {
		verifrt.Assert("C33.components-existing-resolves", err == nil)
		verifrt.Assert("C33.components-one-node-per-segment", len(nodes) == k+1)
	} else if err == nil {
		// the nodes up to the first missing segment
		verifrt.Assert("C33.components-stop-at-missing", len(nodes) == exp.missing+1)
	}
	if err == nil {
		for i := range nodes {
			if i < len(exp.nodes) && exp.nodes[i] != nil {
				verifrt.Assert("C33.components-are-path-nodes", zz33Same(nodes[i], exp.nodes[i]))
				if d, isDir := exp.nodes[i].(*zz33Dir); isDir && d.unixfs {
					verifrt.Assert("C33.components-nodes-usable-while-caller-alive", zz33Usable(nodes[i]))
				}
			}
		}
	}
	verifrt.Reach("end")
}

// HarnessC33CallerCancelled: the caller cancels its own context before the call. Every block load is then
// refused by the block source, so a resolution that needs a block must fail and return nothing.
func HarnessC33CallerCancelled() {
	k := verifrt.NondetRange("k", 0, verifrt.Param("K", 2))
	w, segs, exp := zz33Scenario(k, false)
	r := w.resolver()
	fp := zz33Path(segs)
	ctx, cancel := context.WithCancel(context.Background())
	cancel()

	c, rem, err := r.ResolveToLastNode(ctx, fp)
	verifrt.Observe("err", err != nil)
	if k > 0 { // k == 0 names the root itself: no block is needed to answer
		verifrt.Assert("C33.cancelled-caller-tolastnode-fails", err != nil)
	}
	if err != nil {
		verifrt.Assert("C33.cancelled-caller-tolastnode-returns-nothing", !c.Defined() && len(rem) == 0)
	} else {
		verifrt.Assert("C33.cancelled-caller-tolastnode-root-only", k == 0 && w.idOf(c) == 1 && len(rem) == 0)
	}
	n, lnk, err := r.ResolvePath(ctx, fp)
	verifrt.Assert("C33.cancelled-caller-resolvepath-fails", err != nil)
	verifrt.Assert("C33.cancelled-caller-resolvepath-returns-nothing", n == nil && lnk == nil)
	nodes, err := r.ResolvePathComponents(ctx, fp)
	verifrt.Assert("C33.cancelled-caller-components-fails", err != nil)
	verifrt.Assert("C33.cancelled-caller-components-returns-nothing", len(nodes) == 0)
	verifrt.Assert("C33.cancelled-caller-nothing-fetched", len(w.gets) == 0)
	if !verifrt.Symbolic() {
		zz33RealUnixFS("C33.real-unixfs-cancelled", k, segs, exp, true)
	}
	verifrt.Reach("end")
}
