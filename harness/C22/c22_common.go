package dspinner

import (
	"context"
	"errors"
	"strconv"
	"sync"

	"github.com/ipfs/boxo/internal/verifrt"
	"github.com/ipfs/boxo/ipld/merkledag"
	ipfspinner "github.com/ipfs/boxo/pinning/pinner"
	cid "github.com/ipfs/go-cid"
	ds "github.com/ipfs/go-datastore"
	ipld "github.com/ipfs/go-ipld-format"
	mh "github.com/multiformats/go-multihash"
)

// ---------------------------------------------------------------------------------------------------
// Shared by C22 (pin model) and C23 (crash consistency).
//
// Pool DAG: nodes 0..n-1, node i may link to node j only for i < j. Which edges exist and which blocks
// are missing are symbolic bits, decided (forked) the first time the pinner or the model looks at them.
// ---------------------------------------------------------------------------------------------------

const zzvMaxN = 4

type zzvDag struct {
	mu   sync.Mutex
	n    int
	cids []cid.Cid
	idx  map[cid.Cid]int
	edge [zzvMaxN][zzvMaxN]bool // symbolic
	ek   [zzvMaxN][zzvMaxN]int8 // decided value of edge: 0 unknown, 1 present, 2 absent
	miss [zzvMaxN]bool          // symbolic: block i is not available
	mk   [zzvMaxN]int8          // decided value of miss: 0 unknown, 1 missing, 2 present

	// fault injected into the operation in progress (symbolic, decided at the first block fetch of the
	// operation): 0 none, 1 no block can be fetched, 2 the caller's context is cancelled at the first fetch
	fault  uint8
	fk     int8 // decided fault, -1 undecided
	cancel context.CancelFunc
	fired  bool // some Get failed during the operation in progress
	gets   int
}

func zzvCid(i int) cid.Cid {
	digest := make([]byte, 32)
	digest[0] = byte(i + 1)
	digest[31] = 0x5a
	m, err := mh.Encode(digest, mh.SHA2_256)
	if err != nil {
		panic(err)
	}
	// not cid.Raw: GetLinks short-circuits raw CIDs to "no links"
	return cid.NewCidV1(cid.DagProtobuf, m)
}

// zzvNewDag creates all symbolic bits up front (deterministic names). withMissing=false: every block is
// available unless a fault is injected.
func zzvNewDag(n int, withMissing bool) *zzvDag {
	d := &zzvDag{n: n, idx: map[cid.Cid]int{}}
	for i := 0; i < n; i++ {
		c := zzvCid(i)
		d.cids = append(d.cids, c)
		d.idx[c] = i
	}
	for i := 0; i < n; i++ {
		for j := i + 1; j < n; j++ {
			d.edge[i][j] = verifrt.NondetBool("edge")
		}
	}
	for i := 0; i < n; i++ {
		if withMissing {
			d.miss[i] = verifrt.NondetBool("missing")
		} else {
			d.mk[i] = 2
		}
	}
	return d
}

func (d *zzvDag) has(i, j int) bool {
	switch d.ek[i][j] {
	case 1:
		return true
	case 2:
		return false
	}
	if d.edge[i][j] {
		d.ek[i][j] = 1
		return true
	}
	d.ek[i][j] = 2
	return false
}

func (d *zzvDag) missing(i int) bool {
	switch d.mk[i] {
	case 1:
		return true
	case 2:
		return false
	}
	if d.miss[i] {
		d.mk[i] = 1
		return true
	}
	d.mk[i] = 2
	return false
}

func (d *zzvDag) faultNow() int {
	if d.fk >= 0 {
		return int(d.fk)
	}
	if d.fault == 1 {
		d.fk = 1
	} else if d.fault == 2 {
		d.fk = 2
	} else {
		d.fk = 0
	}
	return int(d.fk)
}

// reach: is there a path of >= 1 links from i to j?
func (d *zzvDag) reach(i, j int) bool {
	for k := i + 1; k <= j; k++ {
		if d.has(i, k) && (k == j || d.reach(k, j)) {
			return true
		}
	}
	return false
}

// missingBelow: i or something reachable from i is missing (model side).
func (d *zzvDag) missingBelow(i int) bool {
	if d.missing(i) {
		return true
	}
	for k := i + 1; k < d.n; k++ {
		if d.has(i, k) && d.missingBelow(k) {
			return true
		}
	}
	return false
}

func zzvLock(mu *sync.Mutex) func() {
	if verifrt.Symbolic() {
		return func() {}
	}
	mu.Lock()
	return mu.Unlock
}

type zzvNode struct {
	ipld.Node
	d *zzvDag
	i int
}

func (n *zzvNode) Cid() cid.Cid    { return n.d.cids[n.i] }
func (n *zzvNode) RawData() []byte { return []byte{0x0a, byte(n.i)} }
func (n *zzvNode) String() string  { return "zzvNode" + strconv.Itoa(n.i) }
func (n *zzvNode) Links() []*ipld.Link {
	defer zzvLock(&n.d.mu)()
	var l []*ipld.Link
	for j := n.i + 1; j < n.d.n; j++ {
		if n.d.has(n.i, j) {
			l = append(l, &ipld.Link{Name: strconv.Itoa(j), Cid: n.d.cids[j]})
		}
	}
	return l
}

// ipld.DAGService
func (d *zzvDag) Get(ctx context.Context, c cid.Cid) (ipld.Node, error) {
	defer zzvLock(&d.mu)()
	d.gets++
	if err := ctx.Err(); err != nil {
		d.fired = true
		return nil, err
	}
	switch d.faultNow() {
	case 1:
		d.fired = true
		return nil, ipld.ErrNotFound{Cid: c}
	case 2:
		d.fired = true
		d.cancel()
		return nil, context.Canceled
	}
	i, ok := d.idx[c]
	if !ok || d.missing(i) {
		d.fired = true
		return nil, ipld.ErrNotFound{Cid: c}
	}
	return &zzvNode{d: d, i: i}, nil
}

func (d *zzvDag) GetMany(ctx context.Context, cids []cid.Cid) <-chan *ipld.NodeOption {
	out := make(chan *ipld.NodeOption, len(cids))
	for _, c := range cids {
		nd, err := d.Get(ctx, c)
		out <- &ipld.NodeOption{Node: nd, Err: err}
	}
	close(out)
	return out
}

// Add makes the block available (Pin adds the root it is given).
func (d *zzvDag) Add(ctx context.Context, nd ipld.Node) error {
	defer zzvLock(&d.mu)()
	if i, ok := d.idx[nd.Cid()]; ok {
		d.mk[i] = 2
	}
	return nil
}

func (d *zzvDag) AddMany(ctx context.Context, nds []ipld.Node) error {
	for _, nd := range nds {
		d.Add(ctx, nd)
	}
	return nil
}
func (d *zzvDag) Remove(ctx context.Context, c cid.Cid) error        { return nil }
func (d *zzvDag) RemoveMany(ctx context.Context, c []cid.Cid) error { return nil }

// ---------------------------------------------------------------------------------------------------
// Stubs bound in spec.json (active only under the engine).
// ---------------------------------------------------------------------------------------------------

// Pin-record codec: refmt/cbor is opaque to the engine. Invertible harness codec
// [mode][len(name)][name][cid bytes]; a truncated record does not decode.
func zzvEncodePin(p *pin) ([]byte, error) {
	if len(p.Name) > 255 {
		return nil, errors.New("zzv: name too long for the harness codec")
	}
	b := []byte{byte(p.Mode), byte(len(p.Name))}
	b = append(b, p.Name...)
	b = append(b, p.Cid.Bytes()...)
	return b, nil
}

func zzvDecodePin(pid string, data []byte) (*pin, error) {
	if len(data) < 2 || len(data) < 2+int(data[1]) {
		return nil, errors.New("zzv: short pin record")
	}
	nl := int(data[1])
	c, err := cid.Cast(data[2+nl:])
	if err != nil {
		return nil, err
	}
	return &pin{Id: pid, Cid: c, Mode: ipfspinner.Mode(data[0]), Name: string(data[2 : 2+nl])}, nil
}

// ds.RandomKey uses uuid (crypto/rand): fresh 32-character ids from a counter.
var zzvIdCtr int

func zzvRandomKey() ds.Key {
	zzvIdCtr++
	s := strconv.Itoa(zzvIdCtr)
	for len(s) < 32 {
		s = "0" + s
	}
	return ds.NewKey(s)
}

// merkledag.FetchGraph: with REALFETCH=1 the real parallel walk runs; otherwise a sequential reference walk that
// fetches every block reachable from root through the same DAG service (same outcome: an error iff some
// reachable block cannot be fetched; all injected faults are seen by it).
func zzvFetchGraph(ctx context.Context, root cid.Cid, serv ipld.DAGService, opts ...merkledag.WalkOption) error {
	if verifrt.Param("REALFETCH", 0) == 1 {
		return merkledag.FetchGraph(ctx, root, serv, opts...)
	}
	seen := map[cid.Cid]bool{}
	var walk func(c cid.Cid) error
	walk = func(c cid.Cid) error {
		if seen[c] {
			return nil
		}
		seen[c] = true
		nd, err := serv.Get(ctx, c)
		if err != nil {
			return err
		}
		for _, l := range nd.Links() {
			if err := walk(l.Cid); err != nil {
				return err
			}
		}
		return nil
	}
	return walk(root)
}

// ---------------------------------------------------------------------------------------------------
// The pin model (from the property text).
// ---------------------------------------------------------------------------------------------------

const (
	zzvNone = 0
	zzvRec  = 1
	zzvDir  = 2
)

type zzvModel struct {
	n    int
	mode [zzvMaxN]int
	name [zzvMaxN]string
	// labelling only (assert ids): Update made this CID recursive while it was directly pinned
	updOntoDirect [zzvMaxN]bool
}

func (m *zzvModel) set(i, mode int, name string) {
	m.mode[i], m.name[i], m.updOntoDirect[i] = mode, name, false
}
func (m *zzvModel) clear(i int) { m.mode[i], m.name[i], m.updOntoDirect[i] = zzvNone, "", false }

// via: the recursive roots (other than c) from which c is reachable.
func (m *zzvModel) via(d *zzvDag, c int) []int {
	var r []int
	for i := 0; i < c; i++ {
		if m.mode[i] == zzvRec && d.reach(i, c) {
			r = append(r, i)
		}
	}
	return r
}

// travMayFail: a traversal of the recursive pins' graphs can hit a missing block.
func (m *zzvModel) travMayFail(d *zzvDag) bool {
	for i := 0; i < m.n; i++ {
		if m.mode[i] == zzvRec && d.missingBelow(i) {
			return true
		}
	}
	return false
}

func zzvIn(x int, l []int) bool {
	for _, y := range l {
		if x == y {
			return true
		}
	}
	return false
}

// zzvName: a pin name: empty or one arbitrary byte.
func zzvName() string {
	nl := verifrt.NondetRange("namelen", 0, 1)
	return verifrt.NondetString("name", nl)
}

// zzvStep performs one symbolic pinner operation and the corresponding model transition.
// faults: inject fetch faults / cancelled contexts into this operation.
// Returns the operation kind and whether it failed.
type zzvStepOpt struct {
	faults  bool // inject fetch faults into the operation; also offer the operations with a cancelled context
	setup   bool // restricted menu for a history prefix: Pin recursive/direct of node 0 or 1 with a 1-byte name
	succeed bool // assume the operation succeeds (a failed prefix operation is a shorter history)
	assert  bool // check the per-operation outcome rules (C22 ids)
	skipMode bool // leave PinWithMode out of the menu
	noPins   bool // only Unpin and Update
}

type zzvOpInfo struct {
	op     int  // 0 Pin recursive, 1 Pin direct, 2 PinWithMode, 3 Unpin, 4 Update
	eff    int  // like op, but PinWithMode(Recursive) = 0, PinWithMode(Direct) = 1 (2: invalid mode)
	cid    int  // target (Update: from)
	to     int  // Update only
	flag   bool // Update: unpin
	failed bool
}

func zzvStep(p *pinner, d *zzvDag, m *zzvModel, o zzvStepOpt) zzvOpInfo {
	info := zzvOpInfo{cid: -1, to: -1, eff: 2}
	nOps := 4
	if o.faults {
		nOps = 5
	}
	if o.setup {
		nOps = 1
	}
	op := verifrt.NondetRange("op", 0, nOps)
	if o.skipMode && op == 2 {
		verifrt.Assume(false)
	}
	if o.noPins && op <= 2 {
		verifrt.Assume(false)
	}
	ctx, cancel := context.WithCancel(context.Background())
	defer cancel()
	d.cancel, d.fired, d.fault, d.fk = cancel, false, 0, 0
	pre := false
	if op == 5 {
		// any operation with an already cancelled context (fixed arguments: nothing may happen anyway)
		pre = true
		cancel()
		op = verifrt.NondetRange("cop", 0, 4)
	} else if o.faults {
		d.fault = verifrt.NondetU8("fault")
		verifrt.Assume(d.fault <= 2)
		d.fk = -1
	}
	pickCid := func() int {
		if pre {
			return 0
		}
		if o.setup {
			return verifrt.NondetRange("cid", 0, 1)
		}
		return verifrt.NondetRange("cid", 0, d.n-1)
	}
	pickName := func() string {
		if pre {
			return "x"
		}
		if o.setup {
			return verifrt.NondetString("name", 1)
		}
		return zzvName()
	}
	var err error
	mustFail := false
	switch op {
	case 0: // Pin, recursive (fetches the graph)
		i := pickCid()
		info.cid = i
		name := pickName()
		err = p.Pin(ctx, &zzvNode{d: d, i: i}, true, name)
		if err == nil {
			m.set(i, zzvRec, name)
		}
	case 1: // Pin, direct
		i := pickCid()
		info.cid = i
		name := pickName()
		mustFail = m.mode[i] == zzvRec
		err = p.Pin(ctx, &zzvNode{d: d, i: i}, false, name)
		if err == nil {
			m.set(i, zzvDir, name)
		}
	case 2: // PinWithMode, any mode value
		i := pickCid()
		info.cid = i
		name := pickName()
		mode := ipfspinner.Mode(verifrt.NondetI64("mode"))
		err = p.PinWithMode(ctx, d.cids[i], mode, name)
		if mode == ipfspinner.Recursive {
			info.eff = 0
		} else if mode == ipfspinner.Direct {
			info.eff = 1
		}
		if mode == ipfspinner.Recursive {
			if err == nil {
				m.set(i, zzvRec, name)
			}
		} else if mode == ipfspinner.Direct {
			mustFail = m.mode[i] == zzvRec
			if err == nil {
				m.set(i, zzvDir, name)
			}
		} else {
			mustFail = true
		}
	case 3: // Unpin
		i := pickCid()
		info.cid = i
		rec := verifrt.NondetBool("unpinrec")
		err = p.Unpin(ctx, d.cids[i], rec)
		switch m.mode[i] {
		case zzvNone:
			mustFail = true
			if !pre && o.assert {
				verifrt.Assert("C22.unpin-not-pinned-error", errors.Is(err, ipfspinner.ErrNotPinned))
			}
		case zzvRec:
			if !rec {
				mustFail = true
			}
		}
		if err == nil {
			m.clear(i)
		}
	case 4: // Update
		from := pickCid()
		to := 1
		if !pre {
			to = verifrt.NondetRange("cid", 0, d.n-1)
		}
		unpin := verifrt.NondetBool("updunpin")
		info.cid, info.to, info.flag = from, to, unpin
		mustFail = m.mode[from] != zzvRec || (from != to && m.mode[to] == zzvRec)
		err = p.Update(ctx, d.cids[from], d.cids[to], unpin)
		if err == nil && from != to {
			wasDirect := m.mode[to] == zzvDir
			m.set(to, zzvRec, m.name[from])
			m.updOntoDirect[to] = wasDirect
			if unpin {
				m.clear(from)
			}
		}
	}
	d.fault, d.fk = 0, 0
	verifrt.Observe("err", err != nil)
	if d.fired && (op == 0 || op == 4) {
		// a block of the graph to be pinned could not be fetched: the pin must not be recorded
		mustFail = true
	}
	if o.assert {
		if mustFail {
			verifrt.Assert("C22.op-must-fail", err != nil)
		} else if err != nil {
			// an error needs a cause: cancelled context or a block that could not be fetched
			verifrt.Assert("C22.op-unexpected-error", pre || d.fired)
		}
	}
	if o.succeed {
		verifrt.Assume(err == nil)
	}
	info.op, info.failed = op, err != nil
	if op != 2 {
		info.eff = op
	}
	return info
}
