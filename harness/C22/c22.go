package dspinner

import (
	"context"

	"github.com/ipfs/boxo/internal/verifrt"
	ipfspinner "github.com/ipfs/boxo/pinning/pinner"
	cid "github.com/ipfs/go-cid"
	ds "github.com/ipfs/go-datastore"
)

// zzvLbl picks the assert id: queries about a CID that Update turned recursive while it was directly pinned are
// reported under their own id (the model says "recursive supersedes direct").
func zzvLbl(m *zzvModel, c int, id string) string {
	if m.updOntoDirect[c] {
		return id + "-after-update-onto-direct"
	}
	return id
}

func zzvModeOf(x int) ipfspinner.Mode {
	switch x {
	case zzvRec:
		return ipfspinner.Recursive
	case zzvDir:
		return ipfspinner.Direct
	}
	return ipfspinner.NotPinned
}

// zzvBattery compares every pin query with the model. q selects groups (bit 0: IsPinned/IsPinnedWithType,
// bit 1: CheckIfPinned(WithType), bit 2: DirectKeys/RecursiveKeys).
func zzvBattery(p *pinner, d *zzvDag, m *zzvModel, q int) {
	ctx := context.Background()
	d.fault, d.fk = 0, 0
	mayFail := m.travMayFail(d)
	verifrt.Observe("travMayFail", mayFail)

	if q&1 != 0 {
		for c := 0; c < d.n; c++ {
			via := m.via(d, c)
			reason, pinned, err := p.IsPinned(ctx, d.cids[c])
			switch {
			case m.mode[c] == zzvRec:
				verifrt.Assert(zzvLbl(m, c, "C22.ispinned-recursive"), err == nil && pinned && reason == "recursive")
			case m.mode[c] == zzvDir:
				verifrt.Assert("C22.ispinned-direct", err == nil && pinned && reason == "direct")
			case err != nil:
				verifrt.Assert("C22.ispinned-error-needs-missing-block", mayFail)
			case len(via) > 0:
				ok := false
				for _, r := range via {
					if reason == d.cids[r].String() {
						ok = true
					}
				}
				verifrt.Assert("C22.ispinned-indirect", pinned && ok)
			default:
				verifrt.Assert("C22.ispinned-not-pinned", !pinned && reason == "")
			}
			verifrt.Observe("ispinned", pinned)

			_, pinned, err = p.IsPinnedWithType(ctx, d.cids[c], ipfspinner.Recursive)
			verifrt.Assert(zzvLbl(m, c, "C22.withtype-recursive"), err == nil && pinned == (m.mode[c] == zzvRec))
			_, pinned, err = p.IsPinnedWithType(ctx, d.cids[c], ipfspinner.Direct)
			verifrt.Assert(zzvLbl(m, c, "C22.withtype-direct"), err == nil && pinned == (m.mode[c] == zzvDir))
			_, pinned, err = p.IsPinnedWithType(ctx, d.cids[c], ipfspinner.Internal)
			verifrt.Assert("C22.withtype-internal", err == nil && !pinned)
			reason, pinned, err = p.IsPinnedWithType(ctx, d.cids[c], ipfspinner.Indirect)
			if err != nil {
				verifrt.Assert("C22.withtype-indirect-error-needs-missing-block", mayFail)
			} else if m.mode[c] == zzvRec {
				// "indirect means reachable from a recursive root but not itself a recursive root"
				verifrt.Assert("C22.withtype-indirect-excludes-recursive-root", !pinned)
			} else {
				verifrt.Assert("C22.withtype-indirect", pinned == (len(via) > 0))
				if pinned && len(via) > 0 {
					ok := false
					for _, r := range via {
						if reason == d.cids[r].String() {
							ok = true
						}
					}
					verifrt.Assert("C22.withtype-indirect-via", ok)
				}
			}
			r2, p2, e2 := p.IsPinnedWithType(ctx, d.cids[c], ipfspinner.Any)
			if m.mode[c] != zzvNone {
				want := "recursive"
				if m.mode[c] == zzvDir {
					want = "direct"
				}
				verifrt.Assert(zzvLbl(m, c, "C22.withtype-any"), e2 == nil && p2 && r2 == want)
			} else if e2 != nil {
				verifrt.Assert("C22.withtype-any-error-needs-missing-block", mayFail)
			} else {
				verifrt.Assert("C22.withtype-any", p2 == (len(via) > 0))
			}
		}
		// a mode value outside the enumeration is rejected
		bad := ipfspinner.Mode(verifrt.NondetI64("badmode"))
		verifrt.Assume(uint64(bad) > uint64(ipfspinner.Any)) // negative or above the enumeration (one comparison: no fork)
		_, pinned, err := p.IsPinnedWithType(ctx, d.cids[0], bad)
		verifrt.Assert("C22.withtype-invalid-mode-error", err != nil && !pinned)
		_, pinned, err = p.IsPinnedWithType(ctx, d.cids[0], ipfspinner.NotPinned)
		verifrt.Assert("C22.withtype-invalid-mode-error", err != nil && !pinned)
	}

	if q&2 != 0 {
		all := d.cids[:d.n]
		check := func(id string, mode ipfspinner.Mode, names bool, res []ipfspinner.Pinned, err error, plain bool) {
			if err != nil {
				verifrt.Assert(id+"-error-needs-missing-block", mayFail && (mode == ipfspinner.Any || mode == ipfspinner.Indirect))
				return
			}
			verifrt.Assert(id+"-one-answer-per-cid", len(res) == d.n)
			seen := [zzvMaxN]bool{}
			for _, r := range res {
				c, ok := d.idx[r.Key]
				if !ok || seen[c] {
					verifrt.Assert(id+"-one-answer-per-cid", false)
					continue
				}
				seen[c] = true
				via := m.via(d, c)
				want := ipfspinner.NotPinned
				switch mode {
				case ipfspinner.Any:
					if m.mode[c] != zzvNone {
						want = zzvModeOf(m.mode[c])
					} else if len(via) > 0 {
						want = ipfspinner.Indirect
					}
				case ipfspinner.Recursive:
					if m.mode[c] == zzvRec {
						want = ipfspinner.Recursive
					}
				case ipfspinner.Direct:
					if m.mode[c] == zzvDir {
						want = ipfspinner.Direct
					}
				case ipfspinner.Indirect:
					if m.mode[c] != zzvRec && len(via) > 0 {
						want = ipfspinner.Indirect
					}
				}
				verifrt.Assert(zzvLbl(m, c, id+"-mode"), r.Mode == want)
				if r.Mode == want && want == ipfspinner.Indirect {
					v, ok := d.idx[r.Via]
					verifrt.Assert(id+"-via", ok && zzvIn(v, via))
				}
				if r.Mode == want && (want == ipfspinner.Recursive || want == ipfspinner.Direct) {
					wn := ""
					if names {
						wn = m.name[c]
					}
					verifrt.Assert(zzvLbl(m, c, id+"-name"), r.Name == wn)
				}
			}
		}
		res, err := p.CheckIfPinned(ctx, all...)
		check("C22.checkifpinned", ipfspinner.Any, false, res, err, true)
		for _, mode := range []ipfspinner.Mode{ipfspinner.Any, ipfspinner.Recursive, ipfspinner.Direct, ipfspinner.Indirect, ipfspinner.Internal} {
			names := mode != ipfspinner.Indirect && mode != ipfspinner.Internal
			res, err := p.CheckIfPinnedWithType(ctx, mode, names, all...)
			check("C22.checkwithtype", mode, names, res, err, false)
		}
		bad := ipfspinner.Mode(verifrt.NondetI64("badmode"))
		verifrt.Assume(uint64(bad) > uint64(ipfspinner.Any))
		_, err = p.CheckIfPinnedWithType(ctx, bad, false, all...)
		verifrt.Assert("C22.checkwithtype-invalid-mode-error", err != nil)
		_, err = p.CheckIfPinnedWithType(ctx, ipfspinner.NotPinned, false, all...)
		verifrt.Assert("C22.checkwithtype-invalid-mode-error", err != nil)
	}

	if q&4 != 0 {
		keys := func(id string, ch <-chan ipfspinner.StreamedPin, want int, detailed bool) {
			seen := [zzvMaxN]bool{}
			for sp := range ch {
				if sp.Err != nil {
					verifrt.Assert(id+"-no-error", false)
					continue
				}
				c, ok := d.idx[sp.Pin.Key]
				if !ok || seen[c] {
					verifrt.Assert(id+"-each-once", false)
					continue
				}
				seen[c] = true
				if detailed {
					verifrt.Assert(zzvLbl(m, c, id+"-detail"), sp.Pin.Mode == zzvModeOf(want) && sp.Pin.Name == m.name[c])
				}
			}
			for c := 0; c < d.n; c++ {
				verifrt.Assert(zzvLbl(m, c, id+"-equals-model"), seen[c] == (m.mode[c] == want))
			}
		}
		keys("C22.recursivekeys", p.RecursiveKeys(ctx, false), zzvRec, false)
		keys("C22.directkeys", p.DirectKeys(ctx, false), zzvDir, false)
		keys("C22.recursivekeys-detailed", p.RecursiveKeys(ctx, true), zzvRec, true)
		keys("C22.directkeys-detailed", p.DirectKeys(ctx, true), zzvDir, true)
	}
}

func zzvObserveModel(m *zzvModel) {
	for c := 0; c < m.n; c++ {
		verifrt.Observe("model", m.mode[c])
	}
}

func zzvNewPinner(d *zzvDag, dstore ds.Datastore) *pinner {
	zzvIdCtr = 0
	p, err := New(context.Background(), dstore, d)
	if err != nil {
		panic(err)
	}
	return p
}

// zzvRun: K operations on a fresh pinner over MapDatastore, then the query battery.
func zzvRun() {
	n := verifrt.Param("N", 3)
	K := verifrt.Param("K", 2)
	d := zzvNewDag(n, verifrt.Param("MISSING", 0) == 1)
	m := &zzvModel{n: n}
	p := zzvNewPinner(d, ds.NewMapDatastore())
	faultAll := verifrt.Param("FAULTALL", 0) == 1
	setup := verifrt.Param("SETUP", 0) == 1
	for i := 0; i < K; i++ {
		last := i == K-1
		zzvStep(p, d, m, zzvStepOpt{faults: faultAll || last, setup: setup && !last, succeed: !last && !faultAll, assert: true})
	}
	zzvObserveModel(m)
	zzvBattery(p, d, m, verifrt.Param("Q", 7))
	verifrt.Reach("end")
}

// HarnessC22Ops1: one symbolic operation (with faults) on the empty pinner, all queries against the pin model.
func HarnessC22Ops1() { zzvRun() }

// HarnessC22Ops: K symbolic operations, faults in the last one (FAULTALL=1: in every one); operations before the
// last one succeed (a failed one is covered as the last operation of the shorter history) and, with SETUP=1, are
// Pin recursive/direct of node 0 or 1 with a one-byte name. All queries against the pin model at the end.
func HarnessC22Ops() { zzvRun() }

// HarnessC22Ops3: the same with K=3 (thorough tier only).
func HarnessC22Ops3() { zzvRun() }

// HarnessC22Update: node 0 pinned recursively with a symbolic name; node TO (1 or 2) not pinned / pinned directly /
// pinned recursively; then Update(0 -> TO or 0 -> 0, unpin symbolic) with symbolic fetch faults; all queries.
func HarnessC22Update() {
	n := verifrt.Param("N", 3)
	d := zzvNewDag(n, verifrt.Param("MISSING", 0) == 1)
	m := &zzvModel{n: n}
	p := zzvNewPinner(d, ds.NewMapDatastore())
	ctx := context.Background()
	name0 := zzvName()
	verifrt.Assert("C22.op-unexpected-error", p.PinWithMode(ctx, d.cids[0], ipfspinner.Recursive, name0) == nil)
	m.set(0, zzvRec, name0)
	to := verifrt.NondetRange("to", 0, 2)
	if to != 0 {
		name1 := verifrt.NondetString("name", 1)
		switch verifrt.NondetRange("tostate", 0, 2) {
		case 1:
			verifrt.Assert("C22.op-unexpected-error", p.PinWithMode(ctx, d.cids[to], ipfspinner.Direct, name1) == nil)
			m.set(to, zzvDir, name1)
		case 2:
			verifrt.Assert("C22.op-unexpected-error", p.PinWithMode(ctx, d.cids[to], ipfspinner.Recursive, name1) == nil)
			m.set(to, zzvRec, name1)
		}
	}
	cctx, cancel := context.WithCancel(ctx)
	defer cancel()
	d.cancel, d.fired = cancel, false
	d.fault = verifrt.NondetU8("fault")
	verifrt.Assume(d.fault <= 2)
	d.fk = -1
	unpin := verifrt.NondetBool("updunpin")
	mustFail := to != 0 && m.mode[to] == zzvRec
	err := p.Update(cctx, d.cids[0], d.cids[to], unpin)
	d.fault, d.fk = 0, 0
	verifrt.Observe("err", err != nil)
	if mustFail {
		verifrt.Assert("C22.op-must-fail", err != nil)
	} else if err != nil {
		verifrt.Assert("C22.op-unexpected-error", d.fired)
	}
	if err == nil && to != 0 {
		wasDirect := m.mode[to] == zzvDir
		m.set(to, zzvRec, name0)
		m.updOntoDirect[to] = wasDirect
		if unpin {
			m.clear(0)
		}
	}
	zzvObserveModel(m)
	zzvBattery(p, d, m, 7)
	verifrt.Reach("end")
}

// HarnessC22Repin: the history the design singles out: a CID pinned (any mode, name), then pinned again
// recursively with a fetch that fails (missing block or cancelled context): the call fails, so every query must
// still show the first pin.
func HarnessC22Repin() {
	n := verifrt.Param("N", 2)
	d := zzvNewDag(n, false)
	m := &zzvModel{n: n}
	p := zzvNewPinner(d, ds.NewMapDatastore())
	ctx := context.Background()
	name1 := zzvName()
	first := verifrt.NondetRange("first", 0, 2)
	var err error
	switch first {
	case 0:
		err = p.Pin(ctx, &zzvNode{d: d, i: 0}, true, name1)
		m.set(0, zzvRec, name1)
	case 1:
		err = p.PinWithMode(ctx, d.cids[0], ipfspinner.Recursive, name1)
		m.set(0, zzvRec, name1)
	case 2:
		err = p.Pin(ctx, &zzvNode{d: d, i: 0}, false, name1)
		m.set(0, zzvDir, name1)
	}
	verifrt.Assert("C22.op-unexpected-error", err == nil)

	cctx, cancel := context.WithCancel(ctx)
	defer cancel()
	d.cancel, d.fired = cancel, false
	d.fault = verifrt.NondetU8("fault")
	verifrt.Assume(d.fault == 1 || d.fault == 2)
	d.fk = -1
	name2 := zzvName()
	err = p.Pin(cctx, &zzvNode{d: d, i: 0}, true, name2)
	d.fault, d.fk = 0, 0
	verifrt.Observe("err2", err != nil)
	verifrt.Assert("C22.repin-failing-fetch-fails", err != nil)
	if err == nil {
		m.set(0, zzvRec, name2)
	}
	zzvObserveModel(m)
	zzvBattery(p, d, m, 7)
	verifrt.Reach("end")
}

var _ = cid.Undef
