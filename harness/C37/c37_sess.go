package client

// C37 at the session level: one GetBlocks request (through Client.GetBlocks' temporary session or through a
// session made with NewSession) over the REAL Session (run loop, sessionWants, sessionWantSender), the real
// SessionManager, SessionInterestManager, BlockPresenceManager, SessionPeerManager, PeerManager /
// peerWantManager and notifier, composed the way client.New composes them. Only the per-peer message queues
// (recording), the connection tagger and the gauges are harness stubs; no provider finder. Incoming messages
// enter through Client.receiveBlocksFrom. The oracle is the property text: requested blocks that arrive are
// delivered once, nothing else is, the channel closes on completion / cancellation / session close, and
// afterwards the requester's want-list (Client.GetWantlist) holds none of the request's CIDs and every peer
// that was told a want was told to cancel it.

import (
	"context"
	"runtime"
	"time"

	bsbpm "github.com/ipfs/boxo/bitswap/client/internal/blockpresencemanager"
	"github.com/ipfs/boxo/bitswap/client/internal/notifications"
	bspm "github.com/ipfs/boxo/bitswap/client/internal/peermanager"
	bssession "github.com/ipfs/boxo/bitswap/client/internal/session"
	bssim "github.com/ipfs/boxo/bitswap/client/internal/sessioninterestmanager"
	bssm "github.com/ipfs/boxo/bitswap/client/internal/sessionmanager"
	bsspm "github.com/ipfs/boxo/bitswap/client/internal/sessionpeermanager"
	"github.com/ipfs/boxo/internal/verifrt"
	blocks "github.com/ipfs/go-block-format"
	cid "github.com/ipfs/go-cid"
	"github.com/libp2p/go-libp2p/core/peer"
)

// zzvWireQ is the message queue of one connected peer: for every pool member it tracks whether the peer
// currently believes we want it (a want of any kind was queued and no CANCEL since).
type zzvWireQ struct {
	mu       zzvMu
	pool     []cid.Cid
	wanted   [zzvPoolN]bool // told a want, not cancelled since
	everTold [zzvPoolN]bool
	strays   int // keys outside the pool
}

func (q *zzvWireQ) mark(ks []cid.Cid, v bool) {
	q.mu.lock()
	defer q.mu.unlock()
	for _, k := range ks {
		i := zzvPoolIndex(q.pool, k)
		if i < 0 {
			q.strays++
			continue
		}
		q.wanted[i] = v
		if v {
			q.everTold[i] = true
		}
	}
}
func (q *zzvWireQ) AddBroadcastWantHaves(ks []cid.Cid) { q.mark(ks, true) }
func (q *zzvWireQ) AddWants(wb []cid.Cid, wh []cid.Cid) {
	q.mark(wb, true)
	q.mark(wh, true)
}
func (q *zzvWireQ) AddCancels(ks []cid.Cid)       { q.mark(ks, false) }
func (q *zzvWireQ) ResponseReceived(ks []cid.Cid) {}
func (q *zzvWireQ) HasMessage() bool              { return false }
func (q *zzvWireQ) Startup()                      {}
func (q *zzvWireQ) Shutdown()                     {}
func (q *zzvWireQ) snapshot() (wanted, ever [zzvPoolN]bool, strays int) {
	q.mu.lock()
	defer q.mu.unlock()
	return q.wanted, q.everTold, q.strays
}

type zzvTagger struct{}

func (zzvTagger) TagPeer(peer.ID, string, int)   {}
func (zzvTagger) UntagPeer(peer.ID, string)      {}
func (zzvTagger) Protect(peer.ID, string)        {}
func (zzvTagger) Unprotect(peer.ID, string) bool { return false }

type zzvGauge struct{}

func (zzvGauge) Inc() {}
func (zzvGauge) Dec() {}

func HarnessC37Session() {
	if !verifrt.Symbolic() {
		defer runtime.GOMAXPROCS(runtime.GOMAXPROCS(1))
	}
	K := verifrt.Param("K", 2)
	E := verifrt.Param("E", 2)
	P := verifrt.Param("P", 1)
	pool := zzvPool()
	ctx, stopAll := context.WithCancel(context.Background())
	defer stopAll()

	// ---- the client-side stack, composed as in client.New
	np := verifrt.NondetRange("npeers", 1, P)
	peers := []peer.ID{peer.ID("peerA"), peer.ID("peerB")}[:np]
	qs := map[peer.ID]*zzvWireQ{}
	for _, p := range peers {
		qs[p] = &zzvWireQ{pool: pool}
	}
	sim := bssim.New()
	bpm := bsbpm.New()
	notif := notifications.New(false)
	pm := bspm.New(ctx, func(_ context.Context, p peer.ID) bspm.PeerQueue {
		if q, ok := qs[p]; ok {
			return q
		}
		return &zzvWireQ{pool: pool}
	}, bspm.BroadcastControl{})
	gauge := zzvGauge{}
	sf := func(sessctx context.Context, sessmgr bssession.SessionManager, id uint64, spm bssession.SessionPeerManager,
		sim *bssim.SessionInterestManager, pm bssession.PeerManager, bpm *bsbpm.BlockPresenceManager,
		notif notifications.PubSub, provSearchDelay, rebroadcastDelay time.Duration, self peer.ID) bssm.Session {
		return bssession.New(sessctx, sessmgr, id, spm, nil, sim, pm, bpm, notif, provSearchDelay, rebroadcastDelay, self, gauge)
	}
	spmf := func(id uint64) bssession.SessionPeerManager { return bsspm.New(id, zzvTagger{}) }
	sm := bssm.New(sf, sim, spmf, bpm, pm, notif, peer.ID("self"))
	// search / rebroadcast timers far away: re-broadcasts on idleness are outside this entry
	bs := &Client{pm: pm, sm: sm, sim: sim, notif: notif, closing: make(chan struct{}),
		provSearchDelay: 1000 * time.Hour, rebroadcastDelay: 1000 * time.Hour, havesReceivedGauge: gauge}
	// 1..np of the peers are connected when the request is made; the others may connect while it is alive
	nconn := verifrt.NondetRange("connectedAtStart", 1, np)
	for _, p := range peers[:nconn] {
		bs.PeerConnected(p)
	}

	// ---- the request
	nk := verifrt.NondetRange("nkeys", 1, K)
	keys := make([]cid.Cid, nk)
	var requested [zzvPoolN]bool
	nreq := 0
	for i := range keys {
		hi := nreq
		if hi > zzvPoolN-1 {
			hi = zzvPoolN - 1
		}
		j := verifrt.NondetRange("key", 0, hi)
		keys[i] = pool[j]
		if !requested[j] {
			nreq++
		}
		requested[j] = true
	}
	hiKey := nreq
	if hiKey > zzvPoolN-1 {
		hiKey = zzvPoolN - 1
	}
	reqctx, cancelReq := context.WithCancel(ctx)
	defer cancelReq()
	sessctx, closeSess := context.WithCancel(ctx)
	defer closeSess()
	viaSession := verifrt.NondetRange("viaSession", 0, 1) == 1
	var out <-chan blocks.Block
	var err error
	if viaSession {
		out, err = bs.NewSession(sessctx).GetBlocks(reqctx, keys)
	} else {
		out, err = bs.GetBlocks(reqctx, keys)
	}
	verifrt.Assert("C37.session-get-blocks-no-error", err == nil && out != nil)
	if err != nil {
		return
	}
	sink := zzvConsume(out)
	zzvDrain()

	// the want has been expressed: every requested key is on the want-list and was told to every connected peer
	wl := bs.GetWantlist()
	for i := range pool {
		verifrt.Assert("C37.session-request-is-on-the-wantlist", zzvHasCid(wl, pool[i]) == requested[i])
		for _, p := range peers[:nconn] {
			w, _, _ := qs[p].snapshot()
			verifrt.Assert("C37.session-request-told-to-connected-peers", w[i] == requested[i])
		}
	}

	// ---- events: a block, or a HAVE, for a requested key or an unrequested one, from a connected peer; or a
	// further peer connects
	ne := verifrt.NondetRange("nevents", 0, E)
	var arrived [zzvPoolN]bool // a block for pool[i] arrived while the request was alive
	var tagOf [zzvPoolN]int
	for e := 0; e < ne; e++ {
		hiKind := 1
		if nconn < np {
			hiKind = 2
		}
		kind := verifrt.NondetRange("event", 0, hiKind)
		if kind == 2 {
			// another peer connects: it learns the wants that are still alive (they were broadcast), not the dead ones
			p := peers[nconn]
			nconn++
			bs.PeerConnected(p)
			zzvDrain()
			w, _, _ := qs[p].snapshot()
			for i := range pool {
				verifrt.Assert("C37.session-late-peer-told-live-wants-only", w[i] == (requested[i] && !arrived[i]))
			}
			continue
		}
		k := verifrt.NondetRange("eventKey", 0, hiKey)
		from := peers[verifrt.NondetRange("eventPeer", 0, nconn-1)]
		if kind == 0 {
			if !arrived[k] {
				arrived[k] = true
				tagOf[k] = e + 1
			}
			bs.receiveBlocksFrom(ctx, from, []blocks.Block{zzvBlock(pool[k], e+1)}, nil, nil)
		} else {
			bs.receiveBlocksFrom(ctx, from, nil, []cid.Cid{pool[k]}, nil)
		}
		zzvDrain()
		// a want that is still alive is never cancelled behind the request's back
		wl := bs.GetWantlist()
		for i := range pool {
			if requested[i] && !arrived[i] {
				verifrt.Assert("C37.session-live-want-stays-on-the-wantlist", zzvHasCid(wl, pool[i]))
			}
			if arrived[i] {
				verifrt.Assert("C37.session-received-key-off-the-wantlist", !zzvHasCid(wl, pool[i]))
			}
		}
	}

	complete := true
	for i := range pool {
		if requested[i] && !arrived[i] {
			complete = false
		}
	}
	verifrt.Observe("complete", complete)
	if complete {
		verifrt.Assert("C37.session-closes-after-all-delivered", zzvClosed(sink.done))
	} else {
		verifrt.Assert("C37.session-open-while-blocks-outstanding", !zzvClosed(sink.done))
		// the request ends: its context is cancelled, or (session request) the session is closed
		if viaSession && verifrt.NondetRange("endBySessionClose", 0, 1) == 1 {
			closeSess()
		} else {
			cancelReq()
		}
		zzvDrain()
		verifrt.Assert("C37.session-closes-on-cancel", zzvClosed(sink.done))
	}
	if !zzvClosed(sink.done) {
		return
	}

	// ---- delivery: exactly the requested blocks that arrived, once each (first arrival)
	got := sink.blocks()
	verifrt.Observe("delivered", len(got))
	var delivered [zzvPoolN]bool
	for _, b := range got {
		i := zzvPoolIndex(pool, b.Cid())
		verifrt.Assert("C37.delivered-block-was-requested", i >= 0 && requested[i])
		if i < 0 {
			continue
		}
		verifrt.Assert("C37.delivered-block-was-published", arrived[i] && zzvTag(b) == tagOf[i])
		verifrt.Assert("C37.block-delivered-at-most-once", !delivered[i])
		delivered[i] = true
	}
	for i := range pool {
		if requested[i] && arrived[i] {
			verifrt.Assert("C37.published-requested-block-delivered", delivered[i])
		}
	}

	// ---- cleanup: the want-list holds none of the request's CIDs (nor anything else: it was the only request),
	// and no peer is left believing we want one of them
	wl = bs.GetWantlist()
	wbl, whl := bs.GetWantBlocks(), bs.GetWantHaves()
	for i := range pool {
		verifrt.Assert("C37.session-wantlist-clean-after-request", !zzvHasCid(wl, pool[i]))
		verifrt.Assert("C37.session-want-blocks-clean-after-request", !zzvHasCid(wbl, pool[i]))
		verifrt.Assert("C37.session-want-haves-clean-after-request", !zzvHasCid(whl, pool[i]))
	}
	verifrt.Assert("C37.session-wantlist-clean-after-request", len(wl) == 0)
	for _, p := range peers {
		w, ever, strays := qs[p].snapshot()
		verifrt.Assert("C37.session-peer-told-only-pool-keys", strays == 0)
		for i := range pool {
			verifrt.Assert("C37.session-peer-told-cancel-for-every-want", !w[i])
			if ever[i] {
				verifrt.Assert("C37.session-peer-told-only-requested-keys", requested[i])
			}
		}
	}
	// nobody is interested any more: a late copy of a requested block is unwanted
	for i := range pool {
		w, _ := sim.SplitWantedUnwanted([]blocks.Block{zzvBlock(pool[i], 99)})
		verifrt.Assert("C37.session-no-interest-after-request", len(w) == 0)
	}
	// release everything (sessions shut down on their context)
	closeSess()
	cancelReq()
	stopAll()
	zzvDrain()
	notif.Shutdown()
	verifrt.Reach("end")
}

// zzvRandFloat stands in for math/rand/v2.Float64 under the engine (floats are concrete there): the session's
// peerResponseTracker draws one to pick the peer that gets the want-block among several candidates; two
// representative draws make both ends of its weighted choice reachable. Natively the real generator runs.
func zzvRandFloat() float64 {
	if verifrt.NondetRange("rnd", 0, 1) == 1 {
		return 0.75
	}
	return 0.25
}
