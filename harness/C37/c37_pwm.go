package peermanager

// C37, last clause ("after the request completes or its context is cancelled the requester's want-list no longer
// contains those CIDs") at the mechanism that IS the requester's want-list: peerWantManager (what
// PeerManager.CurrentWants / Client.GetWantlist report, and what is told to the per-peer message queues).
//
// The real peerWantManager is executed from source against a small reference model written from the documented
// meaning of the structure ("keeps track of which want-haves and want-blocks have been sent to each peer"; "a
// peer's wants is the union of the broadcast wants and the wants in this list"; wantPeers is the "reverse index of
// all wants in peerWants"):
//
//	conn[p]   peer p is connected
//	bc[c]     c is a live broadcast want
//	st[p][c]  none / want-block / want-have: the live targeted want for c sent to p
//
// HarnessC37PwmStep is ONE inductive step: an arbitrary state satisfying the representation invariant (written
// down at zzvPwmRig.build / checked by zzvPwmRig.checkState) is built directly into the unexported fields, one arbitrary
// operation is applied to the real structure and to the model, and the harness asserts the messages handed to
// the per-peer queues, the three want-list views and the representation invariant of the successor state.
// Together with the base case (the state made by newPeerWantManager, covered by HarnessC37PwmHistory) this is an
// induction over all histories within the CID/peer pool. HarnessC37PwmHistory drives short histories from the
// empty state through the same operations (states made by the real code, not by the harness).

import (
	"github.com/ipfs/boxo/internal/verifrt"
	cid "github.com/ipfs/go-cid"
	peer "github.com/libp2p/go-libp2p/core/peer"
	mh "github.com/multiformats/go-multihash"
)

const (
	zzvMaxC = 3
	zzvMaxP = 2

	zzvNone = 0
	zzvWB   = 1
	zzvWH   = 2
)

func zzvPwmPool(n int) []cid.Cid {
	out := make([]cid.Cid, n)
	for i := range out {
		d := make([]byte, 32)
		d[0] = byte(i + 1)
		m, err := mh.Encode(d, mh.SHA2_256)
		if err != nil {
			panic(err)
		}
		out[i] = cid.NewCidV1(cid.Raw, m)
	}
	return out
}

func zzvPwmIndex(pool []cid.Cid, c cid.Cid) int {
	for i := range pool {
		if pool[i].Equals(c) {
			return i
		}
	}
	return -1
}

type zzvNoGauge struct{}

func (zzvNoGauge) Inc() {}
func (zzvNoGauge) Dec() {}

// zzvQ is the message queue of one peer: it records (copies) what it is handed since the last reset.
type zzvQ struct {
	bcast, wb, wh, cancels []cid.Cid
	shutdowns              int
}

func (q *zzvQ) AddBroadcastWantHaves(ks []cid.Cid) { q.bcast = append(q.bcast, ks...) }
func (q *zzvQ) AddWants(wb []cid.Cid, wh []cid.Cid) {
	q.wb = append(q.wb, wb...)
	q.wh = append(q.wh, wh...)
}
func (q *zzvQ) AddCancels(ks []cid.Cid)       { q.cancels = append(q.cancels, ks...) }
func (q *zzvQ) ResponseReceived(ks []cid.Cid) {}
func (q *zzvQ) HasMessage() bool              { return false }
func (q *zzvQ) Startup()                      {}
func (q *zzvQ) Shutdown()                     { q.shutdowns++ }
func (q *zzvQ) reset()                        { *q = zzvQ{} }

// zzvModel is the reference model.
type zzvModel struct {
	nc, np int
	conn   [zzvMaxP]bool
	bc     [zzvMaxC]bool
	st     [zzvMaxP][zzvMaxC]int
}

// what one operation must hand to the queue of each peer (sets over the pool)
type zzvMsgs struct {
	bcast, wb, wh, cancel [zzvMaxP][zzvMaxC]bool
}

func (m *zzvModel) addPeer(p int, out *zzvMsgs) {
	if m.conn[p] {
		return
	}
	m.conn[p] = true
	// the newly connected peer learns the live broadcast wants
	for c := 0; c < m.nc; c++ {
		out.bcast[p][c] = m.bc[c]
	}
}

func (m *zzvModel) removePeer(p int) {
	m.conn[p] = false
	for c := 0; c < m.nc; c++ {
		m.st[p][c] = zzvNone
	}
}

func (m *zzvModel) broadcast(ks []int, out *zzvMsgs) {
	for _, c := range ks {
		if m.bc[c] {
			continue // already broadcast
		}
		m.bc[c] = true
		for p := 0; p < m.np; p++ {
			// not told again to a peer that already holds a want for it
			if m.conn[p] && m.st[p][c] == zzvNone {
				out.bcast[p][c] = true
			}
		}
	}
}

func (m *zzvModel) sendWants(p int, wbs, whs []int, out *zzvMsgs) {
	if !m.conn[p] {
		return
	}
	for _, c := range wbs {
		if m.st[p][c] != zzvWB {
			m.st[p][c] = zzvWB // a want-block supersedes a want-have
			out.wb[p][c] = true
		}
	}
	for _, c := range whs {
		// a want-have adds nothing when the peer already holds a want for the key (targeted or broadcast)
		if m.st[p][c] == zzvNone && !m.bc[c] {
			m.st[p][c] = zzvWH
			out.wh[p][c] = true
		}
	}
}

func (m *zzvModel) sendCancels(ks []int, out *zzvMsgs) {
	for _, c := range ks {
		for p := 0; p < m.np; p++ {
			// CANCEL goes to every peer that holds a want for the key, and to nobody else
			if m.conn[p] && (m.bc[c] || m.st[p][c] != zzvNone) {
				out.cancel[p][c] = true
			}
			m.st[p][c] = zzvNone
		}
		m.bc[c] = false
	}
}

func (m *zzvModel) wantBlock(c int) bool {
	for p := 0; p < m.np; p++ {
		if m.st[p][c] == zzvWB {
			return true
		}
	}
	return false
}

func (m *zzvModel) wantHave(c int) bool {
	if m.bc[c] {
		return true
	}
	for p := 0; p < m.np; p++ {
		if m.st[p][c] == zzvWH {
			return true
		}
	}
	return false
}

type zzvPwmRig struct {
	pool  []cid.Cid
	peers [zzvMaxP]peer.ID
	qs    [zzvMaxP]*zzvQ
	pwm   *peerWantManager
	m     *zzvModel
}

func zzvNewPwmRig(nc, np int) *zzvPwmRig {
	r := &zzvPwmRig{pool: zzvPwmPool(nc), m: &zzvModel{nc: nc, np: np}}
	r.peers = [zzvMaxP]peer.ID{peer.ID("peerA"), peer.ID("peerB")}
	for p := range r.qs {
		r.qs[p] = &zzvQ{}
	}
	r.pwm = newPeerWantManager(zzvNoGauge{}, zzvNoGauge{}, BroadcastControl{})
	return r
}

// build writes the model state into the real structure. This is the representation invariant:
//   - peerWants has exactly the connected peers, each with its own queue;
//   - a peer's wantBlocks / wantHaves are disjoint and hold exactly its live targeted wants;
//   - wantPeers[c] exists iff some peer holds a targeted want for c and is exactly the set of those peers;
//   - broadcastWants holds exactly the live broadcast wants (independent of the targeted wants).
func (r *zzvPwmRig) build() {
	m := r.m
	for p := 0; p < m.np; p++ {
		if !m.conn[p] {
			continue
		}
		pw := &peerWant{wantBlocks: cid.NewSet(), wantHaves: cid.NewSet(), peerQueue: r.qs[p]}
		r.pwm.peerWants[r.peers[p]] = pw
		for c := 0; c < m.nc; c++ {
			switch m.st[p][c] {
			case zzvWB:
				pw.wantBlocks.Add(r.pool[c])
			case zzvWH:
				pw.wantHaves.Add(r.pool[c])
			}
			if m.st[p][c] != zzvNone {
				ps, ok := r.pwm.wantPeers[r.pool[c]]
				if !ok {
					ps = make(map[peer.ID]struct{})
					r.pwm.wantPeers[r.pool[c]] = ps
				}
				ps[r.peers[p]] = struct{}{}
			}
		}
	}
	for c := 0; c < m.nc; c++ {
		if m.bc[c] {
			r.pwm.broadcastWants.Add(r.pool[c])
		}
	}
}

// nondetState draws an arbitrary model state (every state satisfying the invariant over the pool).
func (r *zzvPwmRig) nondetState() {
	m := r.m
	for p := 0; p < m.np; p++ {
		m.conn[p] = verifrt.NondetRange("connected", 0, 1) == 1
	}
	sym := verifrt.Param("SYM", 0) == 1
	prev := 0
	for c := 0; c < m.nc; c++ {
		m.bc[c] = verifrt.NondetRange("broadcast", 0, 1) == 1
		code := zzvB2I(m.bc[c])
		for p := 0; p < m.np; p++ {
			if m.conn[p] {
				m.st[p][c] = verifrt.NondetRange("targeted", zzvNone, zzvWH)
			}
			code = code*3 + m.st[p][c]
		}
		// SYM: the pool members are interchangeable (every operation ranges over all key subsets), so only
		// states whose per-key descriptions are in non-decreasing order are explored
		if sym && code < prev {
			verifrt.Assume(false)
		}
		prev = code
	}
}

// zzvKeyList: an arbitrary list over the pool without repetition (subset, pool order), optionally with its first
// key repeated at the end (dup) — callers pass lists with duplicates.
func zzvKeyList(name string, nc int, nonEmpty bool) []int {
	var ks []int
	for c := 0; c < nc; c++ {
		if verifrt.NondetRange(name, 0, 1) == 1 {
			ks = append(ks, c)
		}
	}
	if nonEmpty && len(ks) == 0 {
		verifrt.Assume(false)
	}
	if len(ks) > 0 && verifrt.Param("DUP", 1) == 1 && verifrt.NondetRange(name+"Dup", 0, 1) == 1 {
		ks = append(ks, ks[0])
	}
	return ks
}

func (r *zzvPwmRig) cids(ks []int) []cid.Cid {
	out := make([]cid.Cid, len(ks))
	for i, c := range ks {
		out[i] = r.pool[c]
	}
	return out
}

// step applies one arbitrary operation to the real structure and to the model and checks everything observable.
// It returns the operation kind (for Observe).
func (r *zzvPwmRig) step() int {
	m := r.m
	for p := range r.qs {
		r.qs[p].reset()
	}
	var want zzvMsgs
	var cancelled [zzvMaxC]bool
	op := verifrt.NondetRange("op", 0, 4)
	switch op {
	case 0: // a peer connects (also: connects although already connected)
		p := verifrt.NondetRange("peer", 0, m.np-1)
		r.pwm.addPeer(r.qs[p], r.peers[p])
		m.addPeer(p, &want)
	case 1: // a peer disconnects (also: unknown peer)
		p := verifrt.NondetRange("peer", 0, m.np-1)
		r.pwm.removePeer(r.peers[p])
		m.removePeer(p)
	case 2:
		ks := zzvKeyList("bcastKey", m.nc, true)
		r.pwm.broadcastWantHaves(r.cids(ks))
		m.broadcast(ks, &want)
	case 3: // targeted wants to one peer: per key none / want-block / want-have / both
		p := verifrt.NondetRange("peer", 0, m.np-1)
		var wbs, whs []int
		for c := 0; c < m.nc; c++ {
			k := verifrt.NondetRange("wantKind", 0, verifrt.Param("KB", 3)) // KB=2: never the same key as both kinds
			if k&1 != 0 {
				wbs = append(wbs, c)
			}
			if k&2 != 0 {
				whs = append(whs, c)
			}
		}
		if len(wbs)+len(whs) == 0 {
			verifrt.Assume(false)
		}
		r.pwm.sendWants(r.peers[p], r.cids(wbs), r.cids(whs))
		m.sendWants(p, wbs, whs, &want)
	case 4:
		ks := zzvKeyList("cancelKey", m.nc, true)
		for _, c := range ks {
			cancelled[c] = true
		}
		r.pwm.sendCancels(r.cids(ks))
		m.sendCancels(ks, &want)
	}

	// ---- messages handed to the per-peer queues
	for p := 0; p < m.np; p++ {
		q := r.qs[p]
		// (a CANCEL may name a key twice when the caller's list does: harmless, the queue keeps a set)
		zzvSameKeys(r.pool, q.cancels, want.cancel[p], "C37.pwm-cancel-for-key-without-want", "", "C37.pwm-no-cancel-to-peer-holding-the-want")
		zzvSameKeys(r.pool, q.bcast, want.bcast[p], "C37.pwm-unexpected-broadcast-want-have", "C37.pwm-broadcast-want-have-sent-twice", "C37.pwm-broadcast-want-have-not-sent")
		zzvSameKeys(r.pool, q.wb, want.wb[p], "C37.pwm-unexpected-want-block", "C37.pwm-want-block-sent-twice", "C37.pwm-want-block-not-sent")
		zzvSameKeys(r.pool, q.wh, want.wh[p], "C37.pwm-unexpected-want-have", "C37.pwm-want-have-sent-twice", "C37.pwm-want-have-not-sent")
	}
	// ---- the want-list views
	wants, wbl, whl := r.pwm.getWants(), r.pwm.getWantBlocks(), r.pwm.getWantHaves()
	for c := 0; c < m.nc; c++ {
		if cancelled[c] {
			// the property's clause, whatever else is in the batch
			verifrt.Assert("C37.pwm-cancelled-key-off-the-wantlist", !zzvHas(wants, r.pool[c]))
			verifrt.Assert("C37.pwm-cancelled-key-off-the-want-blocks", !zzvHas(wbl, r.pool[c]))
			verifrt.Assert("C37.pwm-cancelled-key-off-the-want-haves", !zzvHas(whl, r.pool[c]))
		}
	}
	r.checkViews(wants, wbl, whl)
	// ---- the successor state satisfies the representation invariant and is the model's state
	r.checkState()
	return op
}

func (r *zzvPwmRig) checkViews(wants, wbl, whl []cid.Cid) {
	m := r.m
	for c := 0; c < m.nc; c++ {
		b, h := m.wantBlock(c), m.wantHave(c)
		if b || h {
			verifrt.Assert("C37.pwm-live-want-on-the-wantlist", zzvCount(wants, r.pool[c]) >= 1)
		} else {
			verifrt.Assert("C37.pwm-wantlist-free-of-dead-wants", zzvCount(wants, r.pool[c]) == 0)
		}
		verifrt.Assert("C37.pwm-wantlist-lists-key-once", zzvCount(wants, r.pool[c]) <= 1)
		verifrt.Assert("C37.pwm-want-blocks-match-model", zzvCount(wbl, r.pool[c]) == zzvB2I(b))
		verifrt.Assert("C37.pwm-want-haves-match-model", zzvCount(whl, r.pool[c]) == zzvB2I(h))
	}
	for _, l := range [][]cid.Cid{wants, wbl, whl} {
		for _, k := range l {
			verifrt.Assert("C37.pwm-wantlist-key-from-nowhere", zzvPwmIndex(r.pool, k) >= 0)
		}
	}
}

// checkState: the real structure is exactly build(model).
func (r *zzvPwmRig) checkState() {
	m := r.m
	pwm := r.pwm
	nconn := 0
	for p := 0; p < m.np; p++ {
		pw, ok := pwm.peerWants[r.peers[p]]
		verifrt.Assert("C37.pwm-tracked-peers-are-the-connected-peers", ok == m.conn[p])
		if !ok {
			continue
		}
		nconn++
		for c := 0; c < m.nc; c++ {
			verifrt.Assert("C37.pwm-peer-want-blocks-match-model", pw.wantBlocks.Has(r.pool[c]) == (m.st[p][c] == zzvWB))
			verifrt.Assert("C37.pwm-peer-want-haves-match-model", pw.wantHaves.Has(r.pool[c]) == (m.st[p][c] == zzvWH))
		}
		verifrt.Assert("C37.pwm-peer-wants-within-pool", pw.wantBlocks.Len()+pw.wantHaves.Len() <= m.nc)
	}
	verifrt.Assert("C37.pwm-tracked-peers-are-the-connected-peers", len(pwm.peerWants) == nconn)
	nidx := 0
	for c := 0; c < m.nc; c++ {
		ps, ok := pwm.wantPeers[r.pool[c]]
		any := false
		n := 0
		for p := 0; p < m.np; p++ {
			_, in := ps[r.peers[p]]
			holds := m.conn[p] && m.st[p][c] != zzvNone
			if holds {
				verifrt.Assert("C37.pwm-reverse-index-misses-a-peer", in)
				any = true
			} else {
				verifrt.Assert("C37.pwm-reverse-index-has-stale-peer", !in)
			}
			if in {
				n++
			}
		}
		verifrt.Assert("C37.pwm-reverse-index-has-stale-peer", len(ps) == n)
		if !any {
			verifrt.Assert("C37.pwm-reverse-index-has-stale-key", !ok)
		}
		if ok {
			nidx++
		}
		verifrt.Assert("C37.pwm-broadcast-wants-match-model", pwm.broadcastWants.Has(r.pool[c]) == m.bc[c])
	}
	verifrt.Assert("C37.pwm-reverse-index-has-stale-key", len(pwm.wantPeers) == nidx)
	nbc := 0
	for c := 0; c < m.nc; c++ {
		if m.bc[c] {
			nbc++
		}
	}
	verifrt.Assert("C37.pwm-broadcast-wants-match-model", pwm.broadcastWants.Len() == nbc)
}

func zzvB2I(b bool) int {
	if b {
		return 1
	}
	return 0
}

func zzvHas(ks []cid.Cid, c cid.Cid) bool { return zzvCount(ks, c) > 0 }

func zzvCount(ks []cid.Cid, c cid.Cid) int {
	n := 0
	for _, k := range ks {
		if k.Equals(c) {
			n++
		}
	}
	return n
}

// zzvSameKeys: got (a recorded message stream of one operation) names exactly the keys of want (each once when
// idTwice is given: "so that the PeerManager doesn't send duplicates" is the documented purpose for wants).
func zzvSameKeys(pool []cid.Cid, got []cid.Cid, want [zzvMaxC]bool, idExtra, idTwice, idMissing string) {
	var seen [zzvMaxC]bool
	for _, k := range got {
		i := zzvPwmIndex(pool, k)
		verifrt.Assert(idExtra, i >= 0 && want[i])
		if i < 0 {
			continue
		}
		if idTwice != "" {
			verifrt.Assert(idTwice, !seen[i])
		}
		seen[i] = true
	}
	for i := range pool {
		if want[i] {
			verifrt.Assert(idMissing, seen[i])
		}
	}
}

// HarnessC37PwmStep: one operation from an arbitrary state satisfying the representation invariant.
func HarnessC37PwmStep() {
	r := zzvNewPwmRig(verifrt.Param("C", 2), verifrt.Param("P", 2))
	r.nondetState()
	r.build()
	// the hand-built state is a fixed point of the abstraction (sanity of the harness itself) and its views are
	// the model's
	r.checkState()
	r.checkViews(r.pwm.getWants(), r.pwm.getWantBlocks(), r.pwm.getWantHaves())
	op := r.step()
	verifrt.Observe("op", op)
	verifrt.Observe("wantlistLen", len(r.pwm.getWants()))
	verifrt.Reach("end")
}

// HarnessC37PwmHistory: 1..H operations from the state made by newPeerWantManager (plus 0..P connected peers).
func HarnessC37PwmHistory() {
	r := zzvNewPwmRig(verifrt.Param("C", 2), verifrt.Param("P", 2))
	r.checkState() // base case of the induction
	// 0..P peers connect first (through the real addPeer) so that the bounded history is spent on want traffic
	n0 := verifrt.NondetRange("connectedAtStart", 0, r.m.np)
	for p := 0; p < n0; p++ {
		var none zzvMsgs
		r.pwm.addPeer(r.qs[p], r.peers[p])
		r.m.addPeer(p, &none)
	}
	r.checkState()
	H := verifrt.Param("H", 3)
	n := verifrt.NondetRange("nops", 1, H)
	for i := 0; i < n; i++ {
		r.step()
	}
	verifrt.Observe("wantlistLen", len(r.pwm.getWants()))
	verifrt.Reach("end")
}
