package client

// C37: the client-side mechanisms behind "each requested block is delivered exactly once, nothing else is
// delivered, and the want-list is cleaned up": notifications (Subscribe/Publish/Shutdown over cskr/pubsub),
// getter (AsyncGetBlocks/handleIncoming/SyncGetBlock) and the wanted/unwanted filter of
// Client.receiveBlocksFrom. All of this code is executed from source; the oracle below is written from the
// property text.

import (
	"context"
	"runtime"
	"sync"
	"time"

	bsgetter "github.com/ipfs/boxo/bitswap/client/internal/getter"
	"github.com/ipfs/boxo/bitswap/client/internal/notifications"
	"github.com/ipfs/boxo/internal/verifrt"
	blocks "github.com/ipfs/go-block-format"
	cid "github.com/ipfs/go-cid"
	"github.com/libp2p/go-libp2p/core/peer"
	mh "github.com/multiformats/go-multihash"
)

const zzvPoolN = 3

// zzvPool: distinct CIDv1/raw/sha2-256 identifiers (the digests are arbitrary: nothing here hashes).
func zzvPool() []cid.Cid {
	out := make([]cid.Cid, zzvPoolN)
	for i := range out {
		d := make([]byte, 32)
		d[0] = byte(i + 1)
		m, err := mh.Encode(d, mh.SHA2_256)
		if err != nil {
			panic(err)
		}
		out[i] = cid.NewCidV1(cid.Raw, m)
	}
	return out
}

func zzvPoolIndex(pool []cid.Cid, c cid.Cid) int {
	for i := range pool {
		if pool[i].Equals(c) {
			return i
		}
	}
	return -1
}

// zzvBlock: a block whose one payload byte is the publication sequence number, so that the oracle can tell
// which publication a delivered block came from.
func zzvBlock(c cid.Cid, tag int) blocks.Block {
	b, err := blocks.NewBlockWithCid([]byte{byte(tag)}, c)
	if err != nil {
		panic(err)
	}
	return b
}

func zzvTag(b blocks.Block) int {
	d := b.RawData()
	if len(d) != 1 {
		return -1
	}
	return int(d[0])
}

// zzvDrain: run every other goroutine until quiescent. Natively the harness pins GOMAXPROCS to 1 and all
// hand-offs are channel operations, so a run of Gosched calls reaches quiescence.
func zzvDrain() {
	if verifrt.Symbolic() {
		verifrt.Drain()
		return
	}
	for i := 0; i < 200; i++ {
		runtime.Gosched()
	}
}

func zzvClosed(ch chan struct{}) bool {
	select {
	case <-ch:
		return true
	default:
		return false
	}
}

// zzvCtx is the request/session context handed to the code under test in the scheduling entries: a Done
// channel that the harness (main goroutine only) closes. The standard library's cancelCtx works too (the
// canonical entries use it) but every Done()/Err() on it is an atomic or mutex operation, i.e. a pre-emption
// point for the schedule exploration, which multiplies the schedules without touching the code under test.
type zzvCtx struct {
	done      chan struct{}
	cancelled bool
}

func zzvNewCtx() *zzvCtx                      { return &zzvCtx{done: make(chan struct{})} }
func (c *zzvCtx) Deadline() (time.Time, bool) { return time.Time{}, false }
func (c *zzvCtx) Done() <-chan struct{}       { return c.done }
func (c *zzvCtx) Value(key any) any           { return nil }
func (c *zzvCtx) Err() error {
	select {
	case <-c.done:
		return context.Canceled
	default:
		return nil
	}
}
func (c *zzvCtx) cancel() {
	if !c.cancelled {
		c.cancelled = true
		close(c.done)
	}
}

// zzvMu is a mutex natively and nothing under the engine (where goroutines only switch at synchronisation
// points, so the recorders below need no lock and should not add pre-emption points of their own).
type zzvMu struct{ mu sync.Mutex }

func (m *zzvMu) lock() {
	if !verifrt.Symbolic() {
		m.mu.Lock()
	}
}
func (m *zzvMu) unlock() {
	if !verifrt.Symbolic() {
		m.mu.Unlock()
	}
}

// zzvRec records the want / cancel-wants callbacks.
type zzvRec struct {
	mu        zzvMu
	wantCalls int
	wantKeys  []cid.Cid
	cwCalls   int
	cwKeys    []cid.Cid
	onWant    func() // what the "network" does as soon as the want is out (e.g. answer at once)
}

func (r *zzvRec) want(ctx context.Context, ks []cid.Cid) {
	r.mu.lock()
	r.wantCalls++
	r.wantKeys = append(r.wantKeys, ks...)
	r.mu.unlock()
	if r.onWant != nil {
		r.onWant()
	}
}

func (r *zzvRec) cwants(ks []cid.Cid) {
	r.mu.lock()
	r.cwCalls++
	r.cwKeys = append(r.cwKeys, ks...)
	r.mu.unlock()
}

func (r *zzvRec) snapshot() (int, []cid.Cid, int, []cid.Cid) {
	r.mu.lock()
	defer r.mu.unlock()
	return r.wantCalls, append([]cid.Cid(nil), r.wantKeys...), r.cwCalls, append([]cid.Cid(nil), r.cwKeys...)
}

// zzvSink collects what a consumer reads from an output channel until the channel closes.
type zzvSink struct {
	mu   zzvMu
	got  []blocks.Block
	done chan struct{}
}

func zzvConsume(out <-chan blocks.Block) *zzvSink {
	s := &zzvSink{done: make(chan struct{})}
	go func() {
		for b := range out {
			s.mu.lock()
			s.got = append(s.got, b)
			s.mu.unlock()
		}
		close(s.done)
	}()
	return s
}

func (s *zzvSink) blocks() []blocks.Block {
	s.mu.lock()
	defer s.mu.unlock()
	return append([]blocks.Block(nil), s.got...)
}

// zzvPubLog: what was published, per pool index.
type zzvPubLog struct {
	tags       [zzvPoolN][]int // sequence numbers of the publications of pool[i]
	beforeStop [zzvPoolN]bool  // published before the cancellation point
	seq        int
	conc       [zzvPoolN]bool // published by the concurrent publisher goroutine (tag zzvConcTag+i); written by it only
}

const zzvConcTag = 200

func (l *zzvPubLog) has(i, tag int) bool {
	if l.conc[i] && tag == zzvConcTag+i {
		return true
	}
	for _, t := range l.tags[i] {
		if t == tag {
			return true
		}
	}
	return false
}

// published: pool[i] was published at or after the moment the want was expressed
func (l *zzvPubLog) published(i int) bool { return l.conc[i] || len(l.tags[i]) > 0 }

// zzvCheckDelivery: the oracle shared by the getter/notification entries.
//
//	requested[i]  pool[i] was in the request
//	got           blocks read from the output channel (which has been observed closed)
//	exact         no cancellation raced with deliveries: every requested block that was published must have
//	              arrived; otherwise only the safety half is claimed
func zzvCheckDelivery(pool []cid.Cid, requested [zzvPoolN]bool, log *zzvPubLog, got []blocks.Block, exact bool) (delivered [zzvPoolN]bool) {
	for _, b := range got {
		i := zzvPoolIndex(pool, b.Cid())
		verifrt.Assert("C37.delivered-block-was-requested", i >= 0 && requested[i])
		if i < 0 {
			continue
		}
		verifrt.Assert("C37.delivered-block-was-published", log.has(i, zzvTag(b)))
		verifrt.Assert("C37.block-delivered-at-most-once", !delivered[i])
		delivered[i] = true
	}
	if exact {
		for i := range pool {
			if requested[i] && log.published(i) {
				verifrt.Assert("C37.published-requested-block-delivered", delivered[i])
			}
		}
	}
	return delivered
}

// zzvCheckCleanup: cwants ran exactly once; its argument has no repetition, contains every requested key
// that was never published and no key that was delivered (when nothing raced: exactly the undelivered ones).
func zzvCheckCleanup(pool []cid.Cid, requested [zzvPoolN]bool, log *zzvPubLog, delivered [zzvPoolN]bool, rec *zzvRec, exact bool) {
	_, _, cwCalls, cwKeys := rec.snapshot()
	verifrt.Assert("C37.cleanup-called-exactly-once", cwCalls == 1)
	var inCw [zzvPoolN]bool
	for _, k := range cwKeys {
		i := zzvPoolIndex(pool, k)
		verifrt.Assert("C37.cleanup-key-was-requested", i >= 0 && requested[i])
		if i < 0 {
			continue
		}
		verifrt.Assert("C37.cleanup-key-not-repeated", !inCw[i])
		inCw[i] = true
		verifrt.Assert("C37.cleanup-key-was-not-delivered", !delivered[i])
	}
	for i := range pool {
		if !requested[i] {
			continue
		}
		if !log.published(i) {
			verifrt.Assert("C37.unreceived-key-is-cleaned-up", inCw[i])
		}
		if exact && !delivered[i] {
			verifrt.Assert("C37.undelivered-key-is-cleaned-up", inCw[i])
		}
	}
}

// zzvPublishBatch builds one batch of 1..S blocks over the pool (any CID, repeats allowed) and publishes it.
func zzvPublishBatch(notif notifications.PubSub, pool []cid.Cid, log *zzvPubLog, S int, stopped bool) {
	sz := verifrt.NondetRange("batchSize", 1, S)
	batch := make([]blocks.Block, sz)
	for j := range batch {
		c := verifrt.NondetRange("blk", 0, zzvPoolN-1)
		log.seq++
		batch[j] = zzvBlock(pool[c], log.seq)
		log.tags[c] = append(log.tags[c], log.seq)
		if !stopped {
			log.beforeStop[c] = true
		}
	}
	notif.Publish(peer.ID(""), batch...)
}

// HarnessC37Getter: one AsyncGetBlocks request (key list with duplicates) against the real notifier; block
// batches (requested, unrequested, repeated) are published while a consumer drains the output channel; the
// request context or the session context is cancelled at a symbolic point (or never, in which case the
// harness cancels once everything is quiescent so that the run ends).
func HarnessC37Getter() { zzvGetter(false) }

// HarnessC37GetterSched: the same scenario under schedule exploration (pre-emptions at the synchronisation
// points of notifications / getter / cskr-pubsub), with the harness context so that the standard library's
// context bookkeeping does not add pre-emption points.
func HarnessC37GetterSched() { zzvGetter(true) }

func zzvGetter(light bool) {
	if !verifrt.Symbolic() {
		defer runtime.GOMAXPROCS(runtime.GOMAXPROCS(1))
	}
	K := verifrt.Param("K", 2)
	B := verifrt.Param("B", 2)
	S := verifrt.Param("S", 1)
	pool := zzvPool()

	nk := verifrt.NondetRange("nkeys", 0, K)
	keys := make([]cid.Cid, nk)
	var requested [zzvPoolN]bool
	nreq := 0
	for i := range keys {
		// canonical labelling (the pool members are interchangeable): the next key is one already requested
		// or the next unused pool member
		hi := nreq
		if hi > zzvPoolN-1 {
			hi = zzvPoolN - 1
		}
		j := verifrt.NondetRange("key", 0, hi)
		keys[i] = pool[j]
		if !requested[j] {
			nreq++
		}
		requested[j] = true
	}

	notif := notifications.New(false)
	var ctx, sessctx context.Context
	var cancel, sesscancel func()
	if light {
		c1, c2 := zzvNewCtx(), zzvNewCtx()
		ctx, cancel, sessctx, sesscancel = c1, c1.cancel, c2, c2.cancel
	} else {
		var f1, f2 context.CancelFunc
		ctx, f1 = context.WithCancel(context.Background())
		sessctx, f2 = context.WithCancel(context.Background())
		cancel, sesscancel = f1, f2
	}
	defer cancel()
	defer sesscancel()
	rec := &zzvRec{}
	log := &zzvPubLog{}
	// Zero-latency answers: orderings of "express the want" / "subscribe" / "publish". Whatever is published at or
	// after the moment the want has been expressed counts as published for the oracle below.
	//   W&1: from inside the want callback (i.e. before AsyncGetBlocks returns) an arbitrary subset of the
	//        requested keys and of one unrequested pool member is published, one Publish per block;
	//   W&2: a publisher goroutine that is released by the want callback publishes one block (requested or not)
	//        concurrently with the rest of AsyncGetBlocks — where exactly is up to the schedule exploration.
	W := verifrt.Param("W", 1)
	hiKey := nreq // pool[0..nreq-1] are the requested keys, pool[nreq] (if any) stands for an unrequested one
	if hiKey > zzvPoolN-1 {
		hiKey = zzvPoolN - 1
	}
	if nk > 0 && W&1 != 0 {
		var during []int
		for i := 0; i <= hiKey; i++ {
			if verifrt.NondetRange("answeredDuringWant", 0, 1) == 1 {
				during = append(during, i)
			}
		}
		if len(during) > 0 {
			rec.onWant = func() {
				for _, i := range during {
					log.seq++
					log.tags[i] = append(log.tags[i], log.seq)
					log.beforeStop[i] = true
					notif.Publish(peer.ID(""), zzvBlock(pool[i], log.seq))
				}
			}
		}
	}
	if nk > 0 && W&2 != 0 && verifrt.NondetRange("answeredConcurrently", 0, 1) == 1 {
		ck := verifrt.NondetRange("concKey", 0, hiKey)
		wantOut := make(chan struct{})
		prev := rec.onWant
		rec.onWant = func() {
			close(wantOut)
			if !verifrt.Symbolic() {
				// natively (GOMAXPROCS 1) the want callback yields here — the real one hands the keys to the
				// session's run loop over a channel — so the released publisher runs at this very point, which is
				// one of the schedules the engine explores
				for i := 0; i < 20; i++ {
					runtime.Gosched()
				}
			}
			if prev != nil {
				prev()
			}
		}
		go func() {
			<-wantOut
			log.conc[ck] = true
			notif.Publish(peer.ID(""), zzvBlock(pool[ck], zzvConcTag+ck))
		}()
	}

	out, err := bsgetter.AsyncGetBlocks(ctx, sessctx, keys, notif, rec.want, rec.cwants)
	verifrt.Assert("C37.async-get-no-error", err == nil && out != nil)
	sink := zzvConsume(out)

	if nk == 0 {
		zzvDrain()
		verifrt.Assert("C37.empty-request-closes", zzvClosed(sink.done))
		verifrt.Assert("C37.empty-request-delivers-nothing", len(sink.blocks()) == 0)
		verifrt.Reach("end")
		return
	}

	nb := verifrt.NondetRange("nbatches", 0, B)
	cancelAt := verifrt.NondetRange("cancelAt", -1, nb) // -1: not before quiescence; i: before batch i; nb: right after the last batch
	which := verifrt.NondetRange("cancelWhich", 0, 1)   // 0: request context, 1: session context
	stop := func() {
		if which == 0 {
			cancel()
		} else {
			sesscancel()
		}
	}
	stopped := false
	for i := 0; i < nb; i++ {
		if cancelAt == i {
			stop()
			stopped = true
		}
		zzvPublishBatch(notif, pool, log, S, stopped)
	}
	if cancelAt == nb {
		stop()
		stopped = true
	}
	zzvDrain()

	exact := !stopped
	if !stopped {
		all := true
		for i := range pool {
			if requested[i] && !log.published(i) {
				all = false
			}
		}
		verifrt.Observe("allPublished", all)
		if all {
			verifrt.Assert("C37.closes-after-all-delivered", zzvClosed(sink.done))
		} else {
			verifrt.Assert("C37.open-while-blocks-outstanding", !zzvClosed(sink.done))
			stop()
			zzvDrain()
		}
	}
	verifrt.Assert("C37.closes-on-cancel", zzvClosed(sink.done))
	if !zzvClosed(sink.done) {
		return
	}

	got := sink.blocks()
	if exact {
		verifrt.Observe("delivered", len(got))
	}
	delivered := zzvCheckDelivery(pool, requested, log, got, exact)
	zzvCheckCleanup(pool, requested, log, delivered, rec, exact)
	wantCalls, wantKeys, _, _ := rec.snapshot()
	verifrt.Assert("C37.want-sent-once-for-the-request", wantCalls == 1 && len(wantKeys) == nk)
	// the caller releases the request context (after a session cancellation the subscription lives until then)
	cancel()
	sesscancel()
	zzvDrain()
	notif.Shutdown()
	verifrt.Reach("end")
}
