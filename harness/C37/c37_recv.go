package client

import (
	"context"
	"runtime"
	"time"

	bsbpm "github.com/ipfs/boxo/bitswap/client/internal/blockpresencemanager"
	bsgetter "github.com/ipfs/boxo/bitswap/client/internal/getter"
	"github.com/ipfs/boxo/bitswap/client/internal/notifications"
	bspm "github.com/ipfs/boxo/bitswap/client/internal/peermanager"
	bssession "github.com/ipfs/boxo/bitswap/client/internal/session"
	bssim "github.com/ipfs/boxo/bitswap/client/internal/sessioninterestmanager"
	bssm "github.com/ipfs/boxo/bitswap/client/internal/sessionmanager"
	"github.com/ipfs/boxo/internal/verifrt"
	blocks "github.com/ipfs/go-block-format"
	cid "github.com/ipfs/go-cid"
	"github.com/libp2p/go-libp2p/core/peer"
)

// ---- notifications only: two overlapping subscriptions, Shutdown -------------------------------------------

// HarnessC37TwoSubs: two concurrent overlapping subscriptions on one notifier; every subscriber receives each
// of its keys at most once, only its keys, and its channel closes once all of its keys arrived.
func HarnessC37TwoSubs() {
	if !verifrt.Symbolic() {
		defer runtime.GOMAXPROCS(runtime.GOMAXPROCS(1))
	}
	K := verifrt.Param("K", 2)
	B := verifrt.Param("B", 2)
	S := verifrt.Param("S", 2)
	pool := zzvPool()
	notif := notifications.New(false)
	ctx, cancel := context.WithCancel(context.Background())
	defer cancel()

	var requested [2][zzvPoolN]bool
	var sinks [2]*zzvSink
	var nks [2]int
	for s := 0; s < 2; s++ {
		nk := verifrt.NondetRange("nkeys", 1, K)
		nks[s] = nk
		keys := make([]cid.Cid, nk)
		fresh := 0
		for i := range keys {
			hi := zzvPoolN - 1
			if s == 0 && fresh < hi {
				hi = fresh // first subscription: canonical labelling (pool members are interchangeable)
			}
			j := verifrt.NondetRange("key", 0, hi)
			keys[i] = pool[j]
			if !requested[s][j] {
				fresh++
			}
			requested[s][j] = true
		}
		sinks[s] = zzvConsume(notif.Subscribe(ctx, keys...))
	}
	log := &zzvPubLog{}
	nb := verifrt.NondetRange("nbatches", 0, B)
	for i := 0; i < nb; i++ {
		zzvPublishBatch(notif, pool, log, S, false)
	}
	zzvDrain()
	for s := 0; s < 2; s++ {
		all := true
		for i := range pool {
			if requested[s][i] && len(log.tags[i]) == 0 {
				all = false
			}
		}
		verifrt.Observe("allPublished", all)
		if all {
			verifrt.Assert("C37.subscription-closes-after-all-delivered", zzvClosed(sinks[s].done))
		} else {
			verifrt.Assert("C37.subscription-open-while-blocks-outstanding", !zzvClosed(sinks[s].done))
		}
	}
	cancel()
	zzvDrain()
	for s := 0; s < 2; s++ {
		verifrt.Assert("C37.subscription-closes-on-cancel", zzvClosed(sinks[s].done))
		if !zzvClosed(sinks[s].done) {
			return
		}
		got := sinks[s].blocks()
		verifrt.Observe("delivered", len(got))
		zzvCheckDelivery(pool, requested[s], log, got, true)
	}
	// a later publication of the same blocks reaches nobody
	notif.Shutdown()
	verifrt.Reach("end")
}

// HarnessC37Shutdown: after Shutdown a subscription is closed at once and delivers nothing, Publish is a
// no-op, and a request made through AsyncGetBlocks closes its output and hands every key to cwants.
func HarnessC37Shutdown() {
	if !verifrt.Symbolic() {
		defer runtime.GOMAXPROCS(runtime.GOMAXPROCS(1))
	}
	pool := zzvPool()
	notif := notifications.New(false)
	log := &zzvPubLog{}
	if verifrt.NondetRange("publishBefore", 0, 1) == 1 {
		zzvPublishBatch(notif, pool, log, 1, false)
	}
	notif.Shutdown()
	if verifrt.NondetRange("shutdownTwice", 0, 1) == 1 {
		notif.Shutdown()
	}
	nk := verifrt.NondetRange("nkeys", 1, 2)
	keys := make([]cid.Cid, nk)
	var requested [zzvPoolN]bool
	for i := range keys {
		j := verifrt.NondetRange("key", 0, zzvPoolN-1)
		keys[i] = pool[j]
		requested[j] = true
	}
	rec := &zzvRec{}
	var sink *zzvSink
	viaGetter := verifrt.NondetRange("viaGetter", 0, 1) == 1
	if viaGetter {
		out, err := bsgetter.AsyncGetBlocks(context.Background(), context.Background(), keys, notif, rec.want, rec.cwants)
		verifrt.Assert("C37.async-get-no-error", err == nil && out != nil)
		sink = zzvConsume(out)
	} else {
		sink = zzvConsume(notif.Subscribe(context.Background(), keys...))
	}
	late := &zzvPubLog{}
	zzvPublishBatch(notif, pool, late, 1, false)
	zzvDrain()
	verifrt.Assert("C37.closed-after-shutdown", zzvClosed(sink.done))
	if !zzvClosed(sink.done) {
		return
	}
	verifrt.Assert("C37.nothing-delivered-after-shutdown", len(sink.blocks()) == 0)
	if viaGetter {
		var none [zzvPoolN]bool
		zzvCheckCleanup(pool, requested, &zzvPubLog{}, none, rec, true)
	}
	verifrt.Reach("end")
}

// ---- SyncGetBlock -------------------------------------------------------------------------------------------

// HarnessC37SyncGet: SyncGetBlock over AsyncGetBlocks and the real notifier. A publisher goroutine publishes
// up to two single-block batches (the wanted block or another one) and, if the wanted block was not among
// them, cancels the caller's context. The call returns the wanted block or the context's error, never another
// block; afterwards the request has been cleaned up exactly once.
func HarnessC37SyncGet() {
	if !verifrt.Symbolic() {
		defer runtime.GOMAXPROCS(runtime.GOMAXPROCS(1))
	}
	pool := zzvPool()
	notif := notifications.New(false)
	parent, cancel := context.WithCancel(context.Background())
	defer cancel()
	rec := &zzvRec{}
	k := pool[0]

	if verifrt.NondetRange("undefinedKey", 0, 1) == 1 {
		blk, err := bsgetter.SyncGetBlock(parent, cid.Undef, func(ctx context.Context, ks []cid.Cid) (<-chan blocks.Block, error) {
			verifrt.Assert("C37.undefined-key-never-requested", false)
			return nil, nil
		})
		verifrt.Assert("C37.undefined-key-rejected", blk == nil && err != nil)
		verifrt.Reach("end")
		return
	}

	nsteps := verifrt.NondetRange("steps", 0, 2)
	var plan [2]int
	wantedPublished := false
	for i := 0; i < nsteps; i++ {
		plan[i] = verifrt.NondetRange("blk", 0, 1) // 0: the wanted block, 1: another block
		if plan[i] == 0 {
			wantedPublished = true
		}
	}
	log := &zzvPubLog{}
	started := make(chan struct{})
	go func() {
		<-started
		for i := 0; i < nsteps; i++ {
			log.seq++
			log.tags[plan[i]] = append(log.tags[plan[i]], log.seq)
			notif.Publish(peer.ID(""), zzvBlock(pool[plan[i]], log.seq))
		}
		if !wantedPublished {
			cancel()
		}
	}()
	gb := func(ctx context.Context, ks []cid.Cid) (<-chan blocks.Block, error) {
		out, err := bsgetter.AsyncGetBlocks(ctx, context.Background(), ks, notif, rec.want, rec.cwants)
		close(started) // publications start once the subscription exists
		return out, err
	}
	blk, err := bsgetter.SyncGetBlock(parent, k, gb)
	zzvDrain()
	verifrt.Observe("gotBlock", err == nil)
	if wantedPublished {
		verifrt.Assert("C37.sync-get-returns-published-block", err == nil && blk != nil)
	} else {
		verifrt.Assert("C37.sync-get-fails-when-cancelled", err != nil && blk == nil)
	}
	if err == nil && blk != nil {
		verifrt.Assert("C37.sync-get-returns-requested-cid", blk.Cid().Equals(k))
		verifrt.Assert("C37.sync-get-returns-published-data", log.has(0, zzvTag(blk)))
	}
	_, _, cwCalls, cwKeys := rec.snapshot()
	verifrt.Assert("C37.cleanup-called-exactly-once", cwCalls == 1)
	if err == nil {
		verifrt.Assert("C37.cleanup-key-was-not-delivered", len(cwKeys) == 0)
	} else {
		verifrt.Assert("C37.unreceived-key-is-cleaned-up", len(cwKeys) == 1 && cwKeys[0].Equals(k))
	}
	notif.Shutdown()
	verifrt.Reach("end")
}

// ---- Client.receiveBlocksFrom: only wanted blocks are published -------------------------------------------

// zzvPubRec is a notifications.PubSub that records what is published.
type zzvPubRec struct {
	calls int
	from  []peer.ID
	blks  []blocks.Block
}

func (p *zzvPubRec) Publish(from peer.ID, bs ...blocks.Block) {
	p.calls++
	for _, b := range bs {
		p.from = append(p.from, from)
		p.blks = append(p.blks, b)
	}
}

func (p *zzvPubRec) Subscribe(ctx context.Context, keys ...cid.Cid) <-chan blocks.Block {
	panic("zzvPubRec.Subscribe: not used")
}
func (p *zzvPubRec) Shutdown() {}

// zzvSess is a recording session registered with the real SessionManager.
type zzvSess struct {
	id    uint64
	calls int
	blks  []cid.Cid
}

func (s *zzvSess) GetBlock(context.Context, cid.Cid) (blocks.Block, error) { panic("unused") }
func (s *zzvSess) GetBlocks(context.Context, []cid.Cid) (<-chan blocks.Block, error) {
	panic("unused")
}
func (s *zzvSess) ID() uint64 { return s.id }
func (s *zzvSess) ReceiveFrom(p peer.ID, blks []cid.Cid, haves []cid.Cid, dontHaves []cid.Cid) {
	s.calls++
	s.blks = append(s.blks, blks...)
}
func (s *zzvSess) Close() {}

type zzvNotifier struct {
	calls int
	blks  []blocks.Block
}

func (n *zzvNotifier) ReceivedBlocks(p peer.ID, bs []blocks.Block) {
	n.calls++
	n.blks = append(n.blks, bs...)
}

// HarnessC37Receive: Client.receiveBlocksFrom with the real SessionInterestManager, SessionManager and
// PeerManager (no peers connected), two recording sessions with arbitrary interest sets (recorded, partly
// withdrawn again), an incoming message of up to N blocks over the pool (repeats allowed) plus HAVE /
// DONT_HAVE entries: exactly the blocks some session currently wants are published (in arrival order) and
// reported to the block-received notifier; nothing is published once the client is closing.
func HarnessC37Receive() {
	N := verifrt.Param("N", 3)
	pool := zzvPool()
	sim := bssim.New()
	pub := &zzvPubRec{}
	ctx := context.Background()
	pm := bspm.New(ctx, nil, bspm.BroadcastControl{})
	sf := func(ctx context.Context, sm bssession.SessionManager, id uint64, sprm bssession.SessionPeerManager,
		sim *bssim.SessionInterestManager, pm bssession.PeerManager, bpm *bsbpm.BlockPresenceManager,
		notif notifications.PubSub, provSearchDelay, rebroadcastDelay time.Duration, self peer.ID) bssm.Session {
		return &zzvSess{id: id}
	}
	pmf := func(id uint64) bssession.SessionPeerManager { return nil }
	sm := bssm.New(sf, sim, pmf, bsbpm.New(), pm, pub, peer.ID("self"))
	var sess [2]*zzvSess
	for s := range sess {
		sess[s] = sm.NewSession(ctx, time.Second, time.Second).(*zzvSess)
	}
	ntf := &zzvNotifier{}
	bs := &Client{pm: pm, sm: sm, sim: sim, notif: pub, closing: make(chan struct{}), blockReceivedNotifier: ntf}

	// interest: bit i of want[s] — session s asked for pool[i]; bit i of drop[s] — and withdrew it again
	// interest history per CID (the two sessions are interchangeable): 0 nobody; 1 session A wants it; 2 both
	// want it; 3 A wanted it and withdrew; 4 both wanted it, A withdrew (B still wants it); 5 both wanted it
	// and both withdrew. The last pool member only takes histories 0..1.
	var interested [2][zzvPoolN]bool
	var wanted [zzvPoolN]bool
	closing := verifrt.NondetRange("closing", 0, 1) == 1
	var ks, rm [2][]cid.Cid
	for i := range pool {
		hi := 5
		if i == zzvPoolN-1 {
			hi = 1
		}
		h := 1
		if !closing {
			h = verifrt.NondetRange("interest", 0, hi)
		}
		if h >= 1 {
			ks[0] = append(ks[0], pool[i])
			interested[0][i] = true
		}
		if h == 2 || h >= 4 {
			ks[1] = append(ks[1], pool[i])
			interested[1][i] = true
		}
		if h >= 3 {
			rm[0] = append(rm[0], pool[i])
			interested[0][i] = false
		}
		if h == 5 {
			rm[1] = append(rm[1], pool[i])
			interested[1][i] = false
		}
	}
	for s := 0; s < 2; s++ {
		sim.RecordSessionInterest(sess[s].id, ks[s])
	}
	for s := 0; s < 2; s++ {
		if len(rm[s]) > 0 {
			sim.RemoveSessionWants(sess[s].id, rm[s])
		}
		for i := range pool {
			if interested[s][i] {
				wanted[i] = true
			}
		}
	}
	if closing {
		close(bs.closing)
		N = 1
	}

	n := verifrt.NondetRange("nblocks", 0, N)
	blks := make([]blocks.Block, n)
	idx := make([]int, n)
	for j := range blks {
		idx[j] = verifrt.NondetRange("blk", 0, zzvPoolN-1)
		blks[j] = zzvBlock(pool[idx[j]], j+1)
	}
	var haves, dontHaves []cid.Cid
	// block presences travelling with the blocks: none, one HAVE, or one DONT_HAVE (X = number of pool members
	// they may name)
	if X := verifrt.Param("X", 1); !closing {
		switch verifrt.NondetRange("presence", 0, 2) {
		case 1:
			haves = append(haves, pool[verifrt.NondetRange("presenceKey", 0, X-1)])
		case 2:
			dontHaves = append(dontHaves, pool[verifrt.NondetRange("presenceKey", 0, X-1)])
		}
	}
	from := peer.ID("peerA")
	bs.receiveBlocksFrom(ctx, from, blks, haves, dontHaves)

	if closing {
		verifrt.Assert("C37.nothing-published-when-closing", len(pub.blks) == 0)
		verifrt.Reach("end")
		return
	}
	// reference: the incoming blocks some session currently wants, in arrival order
	var expect []int
	for j := range blks {
		if wanted[idx[j]] {
			expect = append(expect, j+1)
		}
	}
	verifrt.Observe("published", len(pub.blks))
	for _, b := range pub.blks {
		i := zzvPoolIndex(pool, b.Cid())
		verifrt.Assert("C37.unwanted-block-never-published", i >= 0 && wanted[i])
	}
	verifrt.Assert("C37.every-wanted-block-published", len(pub.blks) >= len(expect))
	verifrt.Assert("C37.wanted-blocks-published-once-each", len(pub.blks) == len(expect))
	for j := range pub.blks {
		if j < len(expect) {
			verifrt.Assert("C37.published-in-arrival-order", zzvTag(pub.blks[j]) == expect[j])
		}
		verifrt.Assert("C37.published-with-sender", pub.from[j] == from)
	}
	// the block-received notifier (decision engine ledger) sees the same wanted blocks
	verifrt.Assert("C37.notifier-sees-wanted-blocks-only", len(ntf.blks) == len(expect))
	for j := range ntf.blks {
		if j < len(expect) {
			verifrt.Assert("C37.notifier-sees-wanted-blocks-only", zzvTag(ntf.blks[j]) == expect[j])
		}
	}
	// sessions are told only about keys some session is interested in, and only interested sessions are told
	for s := 0; s < 2; s++ {
		for _, k := range sess[s].blks {
			i := zzvPoolIndex(pool, k)
			verifrt.Assert("C37.session-told-only-wanted-keys", i >= 0 && wanted[i])
		}
		for j := range blks {
			if interested[s][idx[j]] {
				verifrt.Assert("C37.interested-session-told-of-block", zzvHasCid(sess[s].blks, pool[idx[j]]))
			}
		}
	}
	verifrt.Reach("end")
}

func zzvHasCid(ks []cid.Cid, c cid.Cid) bool {
	for _, k := range ks {
		if k.Equals(c) {
			return true
		}
	}
	return false
}

// ---- want-list cleanup behind cwants: SessionManager.CancelSessionWants / RemoveSession ----------------------

// zzvPQ is the message queue of the one connected peer behind the real PeerManager: it records the CANCELs.
type zzvPQ struct {
	cancels []cid.Cid
}

func (q *zzvPQ) AddBroadcastWantHaves([]cid.Cid) {}
func (q *zzvPQ) AddWants([]cid.Cid, []cid.Cid)   {}
func (q *zzvPQ) AddCancels(ks []cid.Cid)         { q.cancels = append(q.cancels, ks...) }
func (q *zzvPQ) ResponseReceived(ks []cid.Cid)   {}
func (q *zzvPQ) HasMessage() bool                { return false }
func (q *zzvPQ) Startup()                        {}
func (q *zzvPQ) Shutdown()                       {}

// HarnessC37CancelWants: what the getter's cleanup callback triggers in the session layer. Two sessions with
// arbitrary interest in the pool; session A gives up a key list (duplicates allowed) through
// CancelSessionWants, or shuts down (RemoveSession). CANCEL goes to the peers for exactly those keys that A
// wanted and nobody wants any more — never for a key the other session still wants — and afterwards an
// arriving block for a given-up key counts as wanted iff the other session wants it.
func HarnessC37CancelWants() {
	L := verifrt.Param("L", 2)
	pool := zzvPool()
	sim := bssim.New()
	pub := &zzvPubRec{}
	ctx := context.Background()
	pmr := &zzvPQ{}
	remote := peer.ID("peerA")
	pm := bspm.New(ctx, func(context.Context, peer.ID) bspm.PeerQueue { return pmr }, bspm.BroadcastControl{})
	pm.Connected(remote)
	sf := func(ctx context.Context, sm bssession.SessionManager, id uint64, sprm bssession.SessionPeerManager,
		sim *bssim.SessionInterestManager, pm bssession.PeerManager, bpm *bsbpm.BlockPresenceManager,
		notif notifications.PubSub, provSearchDelay, rebroadcastDelay time.Duration, self peer.ID) bssm.Session {
		return &zzvSess{id: id}
	}
	pmf := func(id uint64) bssession.SessionPeerManager { return nil }
	sm := bssm.New(sf, sim, pmf, bsbpm.New(), pm, pub, peer.ID("self"))
	a := sm.NewSession(ctx, time.Second, time.Second).(*zzvSess)
	b := sm.NewSession(ctx, time.Second, time.Second).(*zzvSess)

	// interest: 0 nobody, 1 A, 2 both, 3 B only (IB = highest case used). Every wanted key has been sent to
	// the network, either as a broadcast want-have or as a targeted want-block to the connected peer.
	IB := verifrt.Param("IB", 2)
	var wantA, wantB [zzvPoolN]bool
	var ka, kb []cid.Cid
	for i := range pool {
		switch verifrt.NondetRange("interest", 0, IB) {
		case 1:
			wantA[i] = true
		case 2:
			wantA[i], wantB[i] = true, true
		case 3:
			wantB[i] = true
		}
		if wantA[i] {
			ka = append(ka, pool[i])
		}
		if wantB[i] {
			kb = append(kb, pool[i])
		}
		if wantA[i] || wantB[i] {
			if verifrt.NondetRange("sentAsBroadcast", 0, 1) == 1 {
				pm.BroadcastWantHaves([]cid.Cid{pool[i]})
			} else {
				pm.SendWants(remote, []cid.Cid{pool[i]}, nil)
			}
		}
	}
	sim.RecordSessionInterest(a.id, ka)
	sim.RecordSessionInterest(b.id, kb)
	for i := range pool {
		verifrt.Assert("C37.sent-want-is-on-the-wantlist", zzvHasCid(pm.CurrentWants(), pool[i]) == (wantA[i] || wantB[i]))
	}

	var given [zzvPoolN]bool
	if verifrt.NondetRange("shutdownSession", 0, 1) == 1 {
		sm.RemoveSession(a.id)
		for i := range pool {
			given[i] = wantA[i]
		}
	} else {
		n := verifrt.NondetRange("ncancel", 0, L)
		ks := make([]cid.Cid, n)
		for j := range ks {
			i := verifrt.NondetRange("cancelKey", 0, zzvPoolN-1)
			ks[j] = pool[i]
			given[i] = true
		}
		sm.CancelSessionWants(a.id, ks)
	}

	var cancelled [zzvPoolN]bool
	for _, k := range pmr.cancels {
		i := zzvPoolIndex(pool, k)
		verifrt.Assert("C37.cancel-only-for-given-up-wants", i >= 0 && given[i] && wantA[i])
		if i < 0 {
			continue
		}
		verifrt.Assert("C37.no-cancel-for-want-shared-with-other-session", !wantB[i])
		verifrt.Assert("C37.cancel-sent-once-per-key", !cancelled[i])
		cancelled[i] = true
	}
	for i := range pool {
		if given[i] && wantA[i] && !wantB[i] {
			verifrt.Assert("C37.given-up-want-is-cancelled", cancelled[i])
		}
	}
	// afterwards: a block for pool[i] is wanted iff some session still wants it, and the requester's want-list
	// (PeerManager.CurrentWants, what Client.GetWantlist reports) holds exactly the wants still alive
	now := pm.CurrentWants()
	for i := range pool {
		still := wantB[i] || (wantA[i] && !given[i])
		if still {
			verifrt.Assert("C37.wantlist-keeps-live-wants", zzvHasCid(now, pool[i]))
		} else {
			verifrt.Assert("C37.wantlist-free-of-cancelled-keys", !zzvHasCid(now, pool[i]))
		}
		w, nw := sim.SplitWantedUnwanted([]blocks.Block{zzvBlock(pool[i], 1)})
		verifrt.Assert("C37.interest-after-cleanup", (len(w) == 1) == still && len(w)+len(nw) == 1)
	}
	verifrt.Reach("end")
}
