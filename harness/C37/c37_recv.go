package client

import (
	"context"
	"runtime"
	"time"

	bsbpm "github.com/ipfs/boxo/bitswap/client/internal/blockpresencemanager"
	bsgetter "github.com/ipfs/boxo/bitswap/client/internal/getter"
	"github.com/ipfs/boxo/bitswap/client/internal/notifications"
	bspm "github.com/ipfs/boxo/bitswap/client/internal/peermanager"
	bssession "github.com/ipfs/boxo/bitswap/client/internal/session"
	bssim "github.com/ipfs/boxo/bitswap/client/internal/sessioninterestmanager"
	bssm "github.com/ipfs/boxo/bitswap/client/internal/sessionmanager"
	"github.com/ipfs/boxo/internal/verifrt"
	blocks "github.com/ipfs/go-block-format"
	cid "github.com/ipfs/go-cid"
	"github.com/libp2p/go-libp2p/core/peer"
)

// ---- notifications only: two overlapping subscriptions, Shutdown -------------------------------------------

// HarnessC37TwoSubs: two concurrent overlapping subscriptions on one notifier; every subscriber receives each
// of its keys at most once, only its keys, and its channel closes once all of its keys arrived.
func HarnessC37TwoSubs() {
	if !verifrt.Symbolic() {
		defer runtime.GOMAXPROCS(runtime.GOMAXPROCS(1))
	}
	K := verifrt.Param("K", 2)
	B := verifrt.Param("B", 2)
	S := verifrt.Param("S", 2)
	pool := zzvPool()
	notif := notifications.New(false)
	ctx, cancel := context.WithCancel(context.Background())
	defer cancel()

	var requested [2][zzvPoolN]bool
	var sinks [2]*zzvSink
	var nks [2]int
	for s := 0; s < 2; s++ {
		nk := verifrt.NondetRange("nkeys", 1, K)
		nks[s] = nk
		keys := make([]cid.Cid, nk)
		for i := range keys {
			j := verifrt.NondetRange("key", 0, zzvPoolN-1)
			keys[i] = pool[j]
			requested[s][j] = true
		}
		sinks[s] = zzvConsume(notif.Subscribe(ctx, keys...))
	}
	log := &zzvPubLog{}
	nb := verifrt.NondetRange("nbatches", 0, B)
	for i := 0; i < nb; i++ {
		zzvPublishBatch(notif, pool, log, S, false)
	}
	zzvDrain()
	for s := 0; s < 2; s++ {
		all := true
		for i := range pool {
			if requested[s][i] && len(log.tags[i]) == 0 {
				all = false
			}
		}
		verifrt.Observe("allPublished", all)
		if all {
			verifrt.Assert("C37.subscription-closes-after-all-delivered", zzvClosed(sinks[s].done))
		} else {
			verifrt.Assert("C37.subscription-open-while-blocks-outstanding", !zzvClosed(sinks[s].done))
		}
	}
	cancel()
	zzvDrain()
	for s := 0; s < 2; s++ {
		verifrt.Assert("C37.subscription-closes-on-cancel", zzvClosed(sinks[s].done))
		if !zzvClosed(sinks[s].done) {
			return
		}
		got := sinks[s].blocks()
		verifrt.Observe("delivered", len(got))
		zzvCheckDelivery(pool, requested[s], log, got, true)
	}
	// a later publication of the same blocks reaches nobody
	notif.Shutdown()
	verifrt.Reach("end")
}

// HarnessC37Shutdown: after Shutdown a subscription is closed at once and delivers nothing, Publish is a
// no-op, and a request made through AsyncGetBlocks closes its output and hands every key to cwants.
func HarnessC37Shutdown() {
	if !verifrt.Symbolic() {
		defer runtime.GOMAXPROCS(runtime.GOMAXPROCS(1))
	}
	pool := zzvPool()
	notif := notifications.New(false)
	log := &zzvPubLog{}
	if verifrt.NondetRange("publishBefore", 0, 1) == 1 {
		zzvPublishBatch(notif, pool, log, 1, false)
	}
	notif.Shutdown()
	if verifrt.NondetRange("shutdownTwice", 0, 1) == 1 {
		notif.Shutdown()
	}
	nk := verifrt.NondetRange("nkeys", 1, 2)
	keys := make([]cid.Cid, nk)
	var requested [zzvPoolN]bool
	for i := range keys {
		j := verifrt.NondetRange("key", 0, zzvPoolN-1)
		keys[i] = pool[j]
		requested[j] = true
	}
	rec := &zzvRec{}
	var sink *zzvSink
	viaGetter := verifrt.NondetRange("viaGetter", 0, 1) == 1
	if viaGetter {
		out, err := bsgetter.AsyncGetBlocks(context.Background(), context.Background(), keys, notif, rec.want, rec.cwants)
		verifrt.Assert("C37.async-get-no-error", err == nil && out != nil)
		sink = zzvConsume(out)
	} else {
		sink = zzvConsume(notif.Subscribe(context.Background(), keys...))
	}
	late := &zzvPubLog{}
	zzvPublishBatch(notif, pool, late, 1, false)
	zzvDrain()
	verifrt.Assert("C37.closed-after-shutdown", zzvClosed(sink.done))
	if !zzvClosed(sink.done) {
		return
	}
	verifrt.Assert("C37.nothing-delivered-after-shutdown", len(sink.blocks()) == 0)
	if viaGetter {
		var none [zzvPoolN]bool
		zzvCheckCleanup(pool, requested, &zzvPubLog{}, none, rec, true)
	}
	verifrt.Reach("end")
}

// ---- SyncGetBlock -------------------------------------------------------------------------------------------

// HarnessC37SyncGet: SyncGetBlock over AsyncGetBlocks and the real notifier. A publisher goroutine publishes
// up to two single-block batches (the wanted block or another one) and, if the wanted block was not among
// them, cancels the caller's context. The call returns the wanted block or the context's error, never another
// block; afterwards the request has been cleaned up exactly once.
func HarnessC37SyncGet() {
	if !verifrt.Symbolic() {
		defer runtime.GOMAXPROCS(runtime.GOMAXPROCS(1))
	}
	pool := zzvPool()
	notif := notifications.New(false)
	parent, cancel := context.WithCancel(context.Background())
	defer cancel()
	rec := &zzvRec{}
	k := pool[0]

	if verifrt.NondetRange("undefinedKey", 0, 1) == 1 {
		blk, err := bsgetter.SyncGetBlock(parent, cid.Undef, func(ctx context.Context, ks []cid.Cid) (<-chan blocks.Block, error) {
			verifrt.Assert("C37.undefined-key-never-requested", false)
			return nil, nil
		})
		verifrt.Assert("C37.undefined-key-rejected", blk == nil && err != nil)
		verifrt.Reach("end")
		return
	}

	nsteps := verifrt.NondetRange("steps", 0, 2)
	var plan [2]int
	wantedPublished := false
	for i := 0; i < nsteps; i++ {
		plan[i] = verifrt.NondetRange("blk", 0, 1) // 0: the wanted block, 1: another block
		if plan[i] == 0 {
			wantedPublished = true
		}
	}
	log := &zzvPubLog{}
	started := make(chan struct{})
	go func() {
		<-started
		for i := 0; i < nsteps; i++ {
			log.seq++
			log.tags[plan[i]] = append(log.tags[plan[i]], log.seq)
			notif.Publish(peer.ID(""), zzvBlock(pool[plan[i]], log.seq))
		}
		if !wantedPublished {
			cancel()
		}
	}()
	gb := func(ctx context.Context, ks []cid.Cid) (<-chan blocks.Block, error) {
		out, err := bsgetter.AsyncGetBlocks(ctx, context.Background(), ks, notif, rec.want, rec.cwants)
		close(started) // publications start once the subscription exists
		return out, err
	}
	blk, err := bsgetter.SyncGetBlock(parent, k, gb)
	zzvDrain()
	verifrt.Observe("gotBlock", err == nil)
	if wantedPublished {
		verifrt.Assert("C37.sync-get-returns-published-block", err == nil && blk != nil)
	} else {
		verifrt.Assert("C37.sync-get-fails-when-cancelled", err != nil && blk == nil)
	}
	if err == nil && blk != nil {
		verifrt.Assert("C37.sync-get-returns-requested-cid", blk.Cid().Equals(k))
		verifrt.Assert("C37.sync-get-returns-published-data", log.has(0, zzvTag(blk)))
	}
	_, _, cwCalls, cwKeys := rec.snapshot()
	verifrt.Assert("C37.cleanup-called-exactly-once", cwCalls == 1)
	if err == nil {
		verifrt.Assert("C37.cleanup-key-was-not-delivered", len(cwKeys) == 0)
	} else {
		verifrt.Assert("C37.unreceived-key-is-cleaned-up", len(cwKeys) == 1 && cwKeys[0].Equals(k))
	}
	notif.Shutdown()
	verifrt.Reach("end")
}

// ---- Client.receiveBlocksFrom: only wanted blocks are published -------------------------------------------

// zzvPubRec is a notifications.PubSub that records what is published.
type zzvPubRec struct {
	calls int
	from  []peer.ID
	blks  []blocks.Block
}

func (p *zzvPubRec) Publish(from peer.ID, bs ...blocks.Block) {
	p.calls++
	for _, b := range bs {
		p.from = append(p.from, from)
		p.blks = append(p.blks, b)
	}
}

func (p *zzvPubRec) Subscribe(ctx context.Context, keys ...cid.Cid) <-chan blocks.Block {
	panic("zzvPubRec.Subscribe: not used")
}
func (p *zzvPubRec) Shutdown() {}

// zzvSess is a recording session registered with the real SessionManager.
type zzvSess struct {
	id    uint64
	calls int
	blks  []cid.Cid
}

func (s *zzvSess) GetBlock(context.Context, cid.Cid) (blocks.Block, error) { panic("unused") }
func (s *zzvSess) GetBlocks(context.Context, []cid.Cid) (<-chan blocks.Block, error) {
	panic("unused")
}
func (s *zzvSess) ID() uint64 { return s.id }
func (s *zzvSess) ReceiveFrom(p peer.ID, blks []cid.Cid, haves []cid.Cid, dontHaves []cid.Cid) {
	s.calls++
	s.blks = append(s.blks, blks...)
}
func (s *zzvSess) Close() {}

type zzvNotifier struct {
	calls int
	blks  []blocks.Block
}

func (n *zzvNotifier) ReceivedBlocks(p peer.ID, bs []blocks.Block) {
	n.calls++
	n.blks = append(n.blks, bs...)
}

// HarnessC37Receive: Client.receiveBlocksFrom with the real SessionInterestManager, SessionManager and
// PeerManager (no peers connected), two recording sessions with arbitrary interest sets (recorded, partly
// withdrawn again), an incoming message of up to N blocks over the pool (repeats allowed) plus HAVE /
// DONT_HAVE entries: exactly the blocks some session currently wants are published (in arrival order) and
// reported to the block-received notifier; nothing is published once the client is closing.
func HarnessC37Receive() {
	N := verifrt.Param("N", 3)
	pool := zzvPool()
	sim := bssim.New()
	pub := &zzvPubRec{}
	ctx := context.Background()
	pm := bspm.New(ctx, nil, bspm.BroadcastControl{})
	sf := func(ctx context.Context, sm bssession.SessionManager, id uint64, sprm bssession.SessionPeerManager,
		sim *bssim.SessionInterestManager, pm bssession.PeerManager, bpm *bsbpm.BlockPresenceManager,
		notif notifications.PubSub, provSearchDelay, rebroadcastDelay time.Duration, self peer.ID) bssm.Session {
		return &zzvSess{id: id}
	}
	pmf := func(id uint64) bssession.SessionPeerManager { return nil }
	sm := bssm.New(sf, sim, pmf, bsbpm.New(), pm, pub, peer.ID("self"))
	var sess [2]*zzvSess
	for s := range sess {
		sess[s] = sm.NewSession(ctx, time.Second, time.Second).(*zzvSess)
	}
	ntf := &zzvNotifier{}
	bs := &Client{pm: pm, sm: sm, sim: sim, notif: pub, closing: make(chan struct{}), blockReceivedNotifier: ntf}

	// interest: bit i of want[s] — session s asked for pool[i]; bit i of drop[s] — and withdrew it again
	var interested [2][zzvPoolN]bool
	var wanted [zzvPoolN]bool
	for s := 0; s < 2; s++ {
		var ks, rm []cid.Cid
		for i := range pool {
			if verifrt.NondetRange("want", 0, 1) == 1 {
				ks = append(ks, pool[i])
				interested[s][i] = true
				if verifrt.NondetRange("drop", 0, 1) == 1 {
					rm = append(rm, pool[i])
					interested[s][i] = false
				}
			}
		}
		sim.RecordSessionInterest(sess[s].id, ks)
		if len(rm) > 0 {
			sim.RemoveSessionWants(sess[s].id, rm)
		}
		for i := range pool {
			if interested[s][i] {
				wanted[i] = true
			}
		}
	}
	closing := verifrt.NondetRange("closing", 0, 1) == 1
	if closing {
		close(bs.closing)
	}

	n := verifrt.NondetRange("nblocks", 0, N)
	blks := make([]blocks.Block, n)
	idx := make([]int, n)
	for j := range blks {
		idx[j] = verifrt.NondetRange("blk", 0, zzvPoolN-1)
		blks[j] = zzvBlock(pool[idx[j]], j+1)
	}
	var haves, dontHaves []cid.Cid
	if verifrt.NondetRange("have", 0, 1) == 1 {
		haves = append(haves, pool[verifrt.NondetRange("haveKey", 0, zzvPoolN-1)])
	}
	if verifrt.NondetRange("dontHave", 0, 1) == 1 {
		dontHaves = append(dontHaves, pool[verifrt.NondetRange("dontHaveKey", 0, zzvPoolN-1)])
	}
	from := peer.ID("peerA")
	bs.receiveBlocksFrom(ctx, from, blks, haves, dontHaves)

	if closing {
		verifrt.Assert("C37.nothing-published-when-closing", len(pub.blks) == 0)
		verifrt.Reach("end")
		return
	}
	// reference: the incoming blocks some session currently wants, in arrival order
	var expect []int
	for j := range blks {
		if wanted[idx[j]] {
			expect = append(expect, j+1)
		}
	}
	verifrt.Observe("published", len(pub.blks))
	for _, b := range pub.blks {
		i := zzvPoolIndex(pool, b.Cid())
		verifrt.Assert("C37.unwanted-block-never-published", i >= 0 && wanted[i])
	}
	verifrt.Assert("C37.every-wanted-block-published", len(pub.blks) >= len(expect))
	verifrt.Assert("C37.wanted-blocks-published-once-each", len(pub.blks) == len(expect))
	for j := range pub.blks {
		if j < len(expect) {
			verifrt.Assert("C37.published-in-arrival-order", zzvTag(pub.blks[j]) == expect[j])
		}
		verifrt.Assert("C37.published-with-sender", pub.from[j] == from)
	}
	// the block-received notifier (decision engine ledger) sees the same wanted blocks
	verifrt.Assert("C37.notifier-sees-wanted-blocks-only", len(ntf.blks) == len(expect))
	for j := range ntf.blks {
		if j < len(expect) {
			verifrt.Assert("C37.notifier-sees-wanted-blocks-only", zzvTag(ntf.blks[j]) == expect[j])
		}
	}
	// sessions are told only about keys some session is interested in, and only interested sessions are told
	for s := 0; s < 2; s++ {
		for _, k := range sess[s].blks {
			i := zzvPoolIndex(pool, k)
			verifrt.Assert("C37.session-told-only-wanted-keys", i >= 0 && wanted[i])
		}
		for j := range blks {
			if interested[s][idx[j]] {
				verifrt.Assert("C37.interested-session-told-of-block", zzvHasCid(sess[s].blks, pool[idx[j]]))
			}
		}
	}
	verifrt.Reach("end")
}

func zzvHasCid(ks []cid.Cid, c cid.Cid) bool {
	for _, k := range ks {
		if k.Equals(c) {
			return true
		}
	}
	return false
}
