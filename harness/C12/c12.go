package merkledag

import (
	"context"
	"errors"
	"sync"
	"time"

	"github.com/ipfs/boxo/internal/verifrt"
	cid "github.com/ipfs/go-cid"
	format "github.com/ipfs/go-ipld-format"
	mh "github.com/multiformats/go-multihash"
)

// ---------------------------------------------------------------------------------------------------
// A pool DAG over at most zzvMaxN nodes. Node i may link to node j only for i < j (acyclic by
// construction, every DAG shape over the pool including shared children). Which edges exist and
// which nodes are missing / failing are symbolic bits; the walk under test only sees the DAG through
// getLinks (or through the DAG-service stub for FetchGraph).
// ---------------------------------------------------------------------------------------------------

const zzvMaxN = 5

const (
	zzvOK      = 0
	zzvMissing = 1 // getLinks -> format.ErrNotFound
	zzvIOErr   = 2 // getLinks -> zzvErrIO
	zzvCustom  = 3 // only as a handler result: zzvErrCustom
)

var (
	zzvErrIO     = errors.New("zzv: i/o error")
	zzvErrCustom = errors.New("zzv: replaced by OnError handler")
)

type zzvDag struct {
	mu    sync.Mutex
	n     int
	root  cid.Cid
	cids  []cid.Cid
	idx   map[cid.Cid]int
	byMh  map[string]int
	edge  [zzvMaxN][zzvMaxN]bool // symbolic
	ek    [zzvMaxN][zzvMaxN]int8 // concrete cache of edge: 0 unknown, 1 present, 2 absent
	st    [zzvMaxN]uint8         // symbolic: zzvOK / zzvMissing / zzvIOErr
	sk    [zzvMaxN]int8          // concrete cache of st (-1 unknown)
	dup   bool                   // every link list is emitted twice (duplicate links)
	slow  int                    // fetching this node takes long (-1: none): the rest of the walk overtakes it
	calls []int                  // getLinks / Get calls in order
	alien int                    // calls with a CID that is not in the pool
}

func zzvCid(i int) cid.Cid {
	digest := make([]byte, 32)
	digest[0] = byte(i + 1)
	digest[31] = 0x5a
	m, err := mh.Encode(digest, mh.SHA2_256)
	if err != nil {
		panic(err)
	}
	return cid.NewCidV1(cid.Raw, m)
}

// zzvNewDag creates all symbolic bits up front (on the harness goroutine, so that names are deterministic).
// failures: 0 = every node is fine, 1 = nodes may be missing, 2 = nodes may be missing or fail with an i/o error.
func zzvNewDag(n int, failures int, dup bool) *zzvDag {
	d := &zzvDag{n: n, idx: map[cid.Cid]int{}, byMh: map[string]int{}, dup: dup, slow: -1}
	for i := 0; i < n; i++ {
		c := zzvCid(i)
		d.cids = append(d.cids, c)
		d.idx[c] = i
		d.byMh[string(c.Hash())] = i
		d.sk[i] = -1
	}
	d.root = d.cids[0]
	for i := 0; i < n; i++ {
		for j := i + 1; j < n; j++ {
			d.edge[i][j] = verifrt.NondetBool("edge")
		}
	}
	for i := 0; i < n; i++ {
		if failures == 0 {
			d.sk[i] = zzvOK
			continue
		}
		s := verifrt.NondetU8("status")
		verifrt.Assume(s <= uint8(failures))
		d.st[i] = s
	}
	return d
}

// has decides (and remembers) whether the edge i->j exists. The first query of a bit forks the path.
func (d *zzvDag) has(i, j int) bool {
	switch d.ek[i][j] {
	case 1:
		return true
	case 2:
		return false
	}
	if d.edge[i][j] {
		d.ek[i][j] = 1
		return true
	}
	d.ek[i][j] = 2
	return false
}

func (d *zzvDag) status(i int) int {
	if d.sk[i] >= 0 {
		return int(d.sk[i])
	}
	if d.st[i] == zzvMissing {
		d.sk[i] = zzvMissing
	} else if d.st[i] == zzvIOErr {
		d.sk[i] = zzvIOErr
	} else {
		d.sk[i] = zzvOK
	}
	return int(d.sk[i])
}

// children returns the link targets of an intact node in link order.
func (d *zzvDag) children(i int) []int {
	var ch []int
	for j := i + 1; j < d.n; j++ {
		if d.has(i, j) {
			ch = append(ch, j)
		}
	}
	if d.dup {
		ch = append(ch, ch...)
	}
	return ch
}

func (d *zzvDag) fetch(c cid.Cid) ([]*format.Link, error) {
	links, i, err := d.fetchLocked(c)
	if i >= 0 && i == d.slow {
		// fetch latency: every other goroutine runs until it blocks (engine) / for a while (native replay)
		if verifrt.Symbolic() {
			for k := 0; k < 3; k++ {
				verifrt.Yield()
			}
		} else {
			time.Sleep(30 * time.Millisecond)
		}
	}
	return links, err
}

func (d *zzvDag) fetchLocked(c cid.Cid) ([]*format.Link, int, error) {
	defer zzvLock(&d.mu)()
	i, ok := d.idx[c]
	if !ok {
		d.alien++
		return nil, -1, errors.New("zzv: CID not in pool")
	}
	d.calls = append(d.calls, i)
	switch d.status(i) {
	case zzvMissing:
		return nil, i, format.ErrNotFound{Cid: c}
	case zzvIOErr:
		return nil, i, zzvErrIO
	}
	var links []*format.Link
	for _, j := range d.children(i) {
		links = append(links, &format.Link{Cid: d.cids[j]})
	}
	return links, i, nil
}

func (d *zzvDag) getLinks(ctx context.Context, c cid.Cid) ([]*format.Link, error) {
	return d.fetch(c)
}

// zzvLock protects the recorders in the native replay (real threads). Under the engine a goroutine runs atomically
// between synchronisation points, so the lock is not taken there (it would only add scheduling points).
func zzvLock(mu *sync.Mutex) func() {
	if verifrt.Symbolic() {
		return func() {}
	}
	mu.Lock()
	return mu.Unlock
}

func zzvErrKind(err error) int {
	switch {
	case err == nil:
		return zzvOK
	case err == zzvErrIO:
		return zzvIOErr
	case err == zzvErrCustom:
		return zzvCustom
	case format.IsNotFound(err):
		return zzvMissing
	}
	return 9
}

// ---------------------------------------------------------------------------------------------------
// Options under test and their recorders
// ---------------------------------------------------------------------------------------------------

const (
	zzvOptIgnoreErrors = iota
	zzvOptIgnoreMissing
	zzvOptOnMissing
	zzvOptOnError
	zzvNumErrOpts
)

type zzvCall struct{ node, kind int }

type zzvRec struct {
	mu        sync.Mutex
	d         *zzvDag
	visits    []zzvCall // node, depth
	missingCb []int
	onErr     []zzvCall // node, kind of the error passed in
	provided  []int
	alienCb   int
	forced    int // StartProviding(force=true) calls
	onErrMode int // what the custom OnError handler does with a non-nil error: 0 pass, 1 swallow, 2 replace
}

func (r *zzvRec) node(c cid.Cid) int {
	i, ok := r.d.idx[c]
	if !ok {
		r.alienCb++
		return -1
	}
	return i
}

func (r *zzvRec) onMissing(c cid.Cid) {
	defer zzvLock(&r.mu)()
	r.missingCb = append(r.missingCb, r.node(c))
}

func (r *zzvRec) onError(c cid.Cid, err error) error {
	defer zzvLock(&r.mu)()
	if err == nil {
		// a composed chain may hand an already-handled (nil) error on; nothing to record, nothing to do
		return nil
	}
	r.onErr = append(r.onErr, zzvCall{r.node(c), zzvErrKind(err)})
	switch r.onErrMode {
	case 1:
		return nil
	case 2:
		return zzvErrCustom
	}
	return err
}

// StartProviding implements provider.MultihashProvider.
func (r *zzvRec) StartProviding(force bool, keys ...mh.Multihash) error {
	defer zzvLock(&r.mu)()
	if force {
		r.forced++
	}
	for _, k := range keys {
		i, ok := r.d.byMh[string(k)]
		if !ok {
			r.alienCb++
			i = -1
		}
		r.provided = append(r.provided, i)
	}
	return nil
}

// zzvOptions builds the option list. chain is the list of error-handling options in the order in which they are
// passed (the order in which the handlers are composed).
func (r *zzvRec) options(skipRoot, withProvider bool, chain []int) []WalkOption {
	var opts []WalkOption
	if skipRoot {
		opts = append(opts, SkipRoot())
	}
	for _, k := range chain {
		switch k {
		case zzvOptIgnoreErrors:
			opts = append(opts, IgnoreErrors())
		case zzvOptIgnoreMissing:
			opts = append(opts, IgnoreMissing())
		case zzvOptOnMissing:
			opts = append(opts, OnMissing(r.onMissing))
		case zzvOptOnError:
			opts = append(opts, OnError(r.onError))
		}
	}
	if withProvider {
		opts = append(opts, WithProvider(r))
	}
	return opts
}

// zzvChooseChain picks a symbolic subset of the four error-handling options, in declaration order or reversed.
func zzvChooseChain(maxOpts int) []int {
	var chain []int
	for k := 0; k < zzvNumErrOpts; k++ {
		if len(chain) < maxOpts && verifrt.NondetBool("opt") {
			chain = append(chain, k)
		}
	}
	if len(chain) > 1 && verifrt.NondetBool("reverse") {
		for a, b := 0, len(chain)-1; a < b; a, b = a+1, b-1 {
			chain[a], chain[b] = chain[b], chain[a]
		}
	}
	return chain
}

// ---------------------------------------------------------------------------------------------------
// Reference model (from the property text)
// ---------------------------------------------------------------------------------------------------

// zzvModel is what a walk over the DAG must do, independent of traversal order where noted.
type zzvModel struct {
	d        *zzvDag
	chain    []int
	mode     int
	skipRoot bool
	lim      int  // depth limit of the walk (-1 = none): nodes beyond it are not expanded
	partial  bool // the walk was aborted by an error: judge it on the part of the DAG it fetched

	// order-insensitive part
	dist      [zzvMaxN]int  // shortest distance from the root through intact nodes, -1 = unreachable
	depths    [zzvMaxN]uint // bit k set: some path of length k from the root through intact nodes
	fatal     [zzvMaxN]int  // for reachable failing nodes: error kind the handler chain leaves (0 = ignored)
	anyFatal  bool
	expMiss   [zzvMaxN]bool // OnMissing must be called for this node when the walk reaches it
	expOnErr  [zzvMaxN]int  // kind OnError must be called with for this node when reached (0 = not called)
	reachable int
}

// handle runs the composed handler chain of the property ("options can be used together"): every option sees the
// error left by the options before it.
func (m *zzvModel) handle(i, kind int) int {
	for _, k := range m.chain {
		switch k {
		case zzvOptIgnoreErrors:
			kind = zzvOK
		case zzvOptIgnoreMissing:
			if kind == zzvMissing {
				kind = zzvOK
			}
		case zzvOptOnMissing:
			if kind == zzvMissing {
				m.expMiss[i] = true
			}
		case zzvOptOnError:
			if kind != zzvOK {
				m.expOnErr[i] = kind
				switch m.mode {
				case 1:
					kind = zzvOK
				case 2:
					kind = zzvCustom
				}
			}
		}
	}
	return kind
}

// analyse computes reachability (failing nodes have no children), shortest distances and possible depths.
// Nodes are in topological order by construction (edges only go from lower to higher index).
func (m *zzvModel) analyse() {
	d := m.d
	for i := 0; i < d.n; i++ {
		m.dist[i] = -1
	}
	m.dist[0] = 0
	m.depths[0] = 1
	for i := 0; i < d.n; i++ {
		if m.dist[i] < 0 {
			continue
		}
		m.reachable++
		if m.lim >= 0 && m.dist[i] > m.lim {
			continue
		}
		if m.partial && zzvCount(d.calls, i) == 0 {
			continue
		}
		if s := d.status(i); s != zzvOK {
			m.fatal[i] = m.handle(i, s)
			if m.fatal[i] != zzvOK {
				m.anyFatal = true
			}
			continue
		}
		for j := i + 1; j < d.n; j++ {
			if d.has(i, j) {
				if m.dist[j] < 0 || m.dist[j] > m.dist[i]+1 {
					m.dist[j] = m.dist[i] + 1
				}
				m.depths[j] |= m.depths[i] << 1
			}
		}
	}
}

func zzvCount(xs []int, v int) int {
	n := 0
	for _, x := range xs {
		if x == v {
			n++
		}
	}
	return n
}

func zzvEqInts(a, b []int) bool {
	if len(a) != len(b) {
		return false
	}
	for i := range a {
		if a[i] != b[i] {
			return false
		}
	}
	return true
}

// checkCommon holds for every walk, sequential or concurrent, finished or aborted (order-insensitive).
func (m *zzvModel) checkCommon(pfx string, r *zzvRec, err error) {
	d := m.d
	verifrt.Assert(pfx+".no-alien-cid", d.alien == 0 && r.alienCb == 0)
	// visit callback: only reachable nodes, never the skipped root, depth = length of a real path
	okVisit, okDepth := true, true
	var nvis [zzvMaxN]int
	for _, v := range r.visits {
		if v.node < 0 || m.dist[v.node] < 0 || (m.skipRoot && v.node == 0) {
			okVisit = false
			continue
		}
		nvis[v.node]++
		if v.kind < 0 || v.kind >= zzvMaxN || m.depths[v.node]&(1<<uint(v.kind)) == 0 {
			okDepth = false
		}
	}
	verifrt.Assert(pfx+".visit-only-reachable", okVisit)
	verifrt.Assert(pfx+".visit-depth-is-path-length", okDepth)
	// fetches: only nodes handed to visit (or the skipped root)
	okFetch := true
	for _, i := range d.calls {
		if !(nvis[i] > 0 || (m.skipRoot && i == 0)) {
			okFetch = false
		}
	}
	verifrt.Assert(pfx+".fetch-only-visited", okFetch)
	// OnMissing: the CID of a block that was fetched and is missing, and only where the composition lets it through
	okMiss := true
	for _, i := range r.missingCb {
		if i < 0 || d.status(i) != zzvMissing || zzvCount(d.calls, i) == 0 || !m.expMiss[i] {
			okMiss = false
		}
	}
	verifrt.Assert(pfx+".onmissing-gets-failing-cid", okMiss)
	// OnError: the CID of the block whose fetch failed together with that block's error
	okErr := true
	for _, c := range r.onErr {
		if c.node < 0 || d.status(c.node) == zzvOK || zzvCount(d.calls, c.node) == 0 || m.expOnErr[c.node] != c.kind {
			okErr = false
		}
	}
	verifrt.Assert(pfx+".onerror-gets-failing-cid", okErr)
	// each failed fetch is reported once to the callbacks the composition routes it to
	okCnt := true
	for i := 0; i < d.n; i++ {
		failedFetches := 0
		if d.sk[i] > 0 {
			failedFetches = zzvCount(d.calls, i)
		}
		wantM, wantE := 0, 0
		if m.expMiss[i] {
			wantM = failedFetches
		}
		if m.expOnErr[i] != 0 {
			wantE = failedFetches
		}
		gotE := 0
		for _, c := range r.onErr {
			if c.node == i {
				gotE++
			}
		}
		if err == nil {
			if zzvCount(r.missingCb, i) != wantM || gotE != wantE {
				okCnt = false
			}
		} else if zzvCount(r.missingCb, i) > wantM || gotE > wantE {
			okCnt = false
		}
	}
	verifrt.Assert(pfx+".callbacks-once-per-failed-fetch", okCnt)
	// provider: announces exactly the nodes whose links were fetched successfully; nodes whose failed fetch was
	// ignored and the skipped root are left open (not required, not forbidden).
	okProvOnly, okProvAll := r.forced == 0, true
	for i := 0; i < d.n; i++ {
		got := zzvCount(r.provided, i)
		fetched := zzvCount(d.calls, i)
		if got > fetched {
			okProvOnly = false
		}
		if err == nil && d.sk[i] == zzvOK && !(m.skipRoot && i == 0) && got != fetched {
			okProvAll = false
		}
	}
	if zzvCount(r.provided, -1) > 0 {
		okProvOnly = false
	}
	verifrt.Assert(pfx+".provider-only-fetched-nodes", okProvOnly)
	verifrt.Assert(pfx+".provider-every-fetched-node", okProvAll)
	// result
	if err == nil {
		verifrt.Assert(pfx+".nil-result-only-without-fatal-error", !m.anyFatal)
	} else {
		k := zzvErrKind(err)
		okRes := false
		for i := 0; i < d.n; i++ {
			if m.dist[i] >= 0 && m.fatal[i] != zzvOK && m.fatal[i] == k && zzvCount(d.calls, i) > 0 {
				okRes = true
			}
		}
		verifrt.Assert(pfx+".error-is-a-fetched-nodes-error", okRes)
	}
}

// checkVisitedSet: a walk that finished visits every reachable node, each exactly once (visit = cid.Set.Visit).
func (m *zzvModel) checkVisitedSet(pfx string, r *zzvRec, err error) {
	if err != nil {
		return
	}
	ok := true
	for i := 0; i < m.d.n; i++ {
		want := 0
		if m.dist[i] >= 0 && !(m.skipRoot && i == 0) {
			want = 1
		}
		got := 0
		for _, v := range r.visits {
			if v.node == i {
				got++
			}
		}
		// a node offered to visit again is a repeat call of the callback; cid.Set.Visit answers false then. With
		// shared children the callback is legitimately invoked once per incoming link, so count first offers.
		if (got > 0) != (want > 0) {
			ok = false
		}
	}
	verifrt.Assert(pfx+".visited-set-is-reachable-set", ok)
	// expanded exactly once each
	okOnce := true
	for i := 0; i < m.d.n; i++ {
		want := 0
		if m.dist[i] >= 0 {
			want = 1
		}
		if zzvCount(m.d.calls, i) != want {
			okOnce = false
		}
	}
	verifrt.Assert(pfx+".each-reachable-node-fetched-once", okOnce)
}

// ---------------------------------------------------------------------------------------------------
// Sequential walk: exact reference (pre-order DFS, links in order, stops at the first error the chain leaves)
// ---------------------------------------------------------------------------------------------------

type zzvSeqRef struct {
	m       *zzvModel
	seen    [zzvMaxN]bool
	visits  []zzvCall
	fetches []int
	errKind int
	errNode int
}

func (s *zzvSeqRef) walk(i, depth int) bool {
	if !(s.m.skipRoot && depth == 0) {
		s.visits = append(s.visits, zzvCall{i, depth})
		if s.seen[i] {
			return true
		}
		s.seen[i] = true
	}
	s.fetches = append(s.fetches, i)
	if st := s.m.d.status(i); st != zzvOK {
		if k := s.m.fatal[i]; k != zzvOK {
			s.errKind, s.errNode = k, i
			return false
		}
		return true
	}
	for _, j := range s.m.d.children(i) {
		if !s.walk(j, depth+1) {
			return false
		}
	}
	return true
}

func zzvRunSeq(n, failures, maxOpts int, dup bool) {
	d := zzvNewDag(n, failures, dup)
	r := &zzvRec{d: d}
	skipRoot := verifrt.NondetBool("skipRoot")
	var chain []int
	if failures > 0 {
		chain = zzvChooseChain(maxOpts)
		if zzvCount(chain, zzvOptOnError) > 0 {
			r.onErrMode = verifrt.NondetRange("onErrMode", 0, 2)
		}
	}
	set := cid.NewSet()
	visit := func(c cid.Cid, depth int) bool {
		r.visits = append(r.visits, zzvCall{r.node(c), depth})
		return set.Visit(c)
	}
	err := WalkDepth(context.Background(), d.getLinks, d.root, visit, r.options(skipRoot, true, chain)...)

	m := &zzvModel{d: d, chain: chain, mode: r.onErrMode, skipRoot: skipRoot, lim: -1, partial: err != nil}
	m.analyse()
	verifrt.Observe("err", zzvErrKind(err))
	verifrt.Observe("nvisits", len(r.visits))
	m.checkCommon("C12.seq", r, err)
	m.checkVisitedSet("C12.seq", r, err)
	ref := &zzvSeqRef{m: m}
	ref.walk(0, 0)
	okOrder := len(ref.visits) == len(r.visits)
	if okOrder {
		for i := range ref.visits {
			if ref.visits[i] != r.visits[i] {
				okOrder = false
			}
		}
	}
	verifrt.Assert("C12.seq.preorder-dfs-in-link-order", okOrder)
	verifrt.Assert("C12.seq.fetch-order", zzvEqInts(ref.fetches, d.calls))
	verifrt.Assert("C12.seq.first-error-in-dfs-order", zzvErrKind(err) == ref.errKind)
	verifrt.Reach("end")
}

// HarnessC12SeqShapes: every DAG shape over N nodes, no failures, SkipRoot on/off, provider configured.
func HarnessC12SeqShapes() {
	zzvRunSeq(verifrt.Param("N", 4), 0, 0, verifrt.Param("DUP", 0) != 0 && verifrt.NondetBool("dup"))
}

// HarnessC12SeqErrors: DAG shapes over N nodes with missing / failing blocks and every subset (two orders) of the
// error-handling options.
func HarnessC12SeqErrors() {
	zzvRunSeq(verifrt.Param("N", 3), verifrt.Param("FAIL", 2), verifrt.Param("MAXOPTS", 4), false)
}

// ---------------------------------------------------------------------------------------------------
// Concurrent walk (order-insensitive oracle)
// ---------------------------------------------------------------------------------------------------

func zzvRunPar(n, failures, maxOpts, workers int) {
	d := zzvNewDag(n, failures, false)
	r := &zzvRec{d: d}
	if verifrt.Param("SLOW", 0) != 0 {
		d.slow = verifrt.NondetRange("slowNode", 0, n-2)
		if d.slow == 0 {
			d.slow = -1
		}
	}
	skipRoot := verifrt.NondetBool("skipRoot")
	var chain []int
	if failures > 0 {
		chain = zzvChooseChain(maxOpts)
		if zzvCount(chain, zzvOptOnError) > 0 {
			r.onErrMode = verifrt.NondetRange("onErrMode", 0, 2)
		}
	}
	set := cid.NewSet()
	inVisit := false
	overlap := false
	visit := func(c cid.Cid, depth int) bool {
		// documented: the walk never makes concurrent calls to visit
		if inVisit {
			overlap = true
		}
		inVisit = true
		r.visits = append(r.visits, zzvCall{r.node(c), depth})
		ok := set.Visit(c)
		inVisit = false
		return ok
	}
	opts := append(r.options(skipRoot, true, chain), Concurrency(workers))
	err := WalkDepth(context.Background(), d.getLinks, d.root, visit, opts...)

	m := &zzvModel{d: d, chain: chain, mode: r.onErrMode, skipRoot: skipRoot, lim: -1, partial: err != nil}
	m.analyse()
	verifrt.Observe("failed", err != nil)
	verifrt.Assert("C12.par.visit-calls-do-not-overlap", !overlap)
	m.checkCommon("C12.par", r, err)
	m.checkVisitedSet("C12.par", r, err)
	verifrt.Reach("end")
}

// HarnessC12ParShapes: concurrent walk, every DAG shape over N nodes, no failures.
func HarnessC12ParShapes() {
	zzvRunPar(verifrt.Param("N", 4), 0, 0, verifrt.Param("W", 2))
}

// HarnessC12ParErrors: concurrent walk with missing / failing blocks and composed options.
func HarnessC12ParErrors() {
	zzvRunPar(verifrt.Param("N", 3), verifrt.Param("FAIL", 2), verifrt.Param("MAXOPTS", 4), verifrt.Param("W", 2))
}

// ---------------------------------------------------------------------------------------------------
// FetchGraphWithDepthLimit over a DAG-service stub
// ---------------------------------------------------------------------------------------------------

type zzvNode struct {
	format.Node
	c     cid.Cid
	links []*format.Link
}

func (n *zzvNode) Cid() cid.Cid          { return n.c }
func (n *zzvNode) Links() []*format.Link { return n.links }
func (n *zzvNode) RawData() []byte       { return []byte{1} }

// zzvServ is a format.DAGService of which the walk only uses Get.
type zzvServ struct {
	format.DAGService
	d *zzvDag
}

func (s *zzvServ) Get(ctx context.Context, c cid.Cid) (format.Node, error) {
	links, err := s.d.fetch(c)
	if err != nil {
		return nil, err
	}
	return &zzvNode{c: c, links: links}, nil
}

func zzvRunFetchGraph(n, failures, workers int) {
	d := zzvNewDag(n, failures, false)
	r := &zzvRec{d: d}
	if workers != 1 && verifrt.Param("SLOW", 0) != 0 {
		// the root (nothing else runs yet) and the last node (no children) are never the slow one; 0 = none
		d.slow = verifrt.NondetRange("slowNode", 0, n-2)
		if d.slow == 0 {
			d.slow = -1
		}
	}
	lim := verifrt.NondetRange("depthLimit", -1, verifrt.Param("LIMMAX", n-1))
	var chain []int
	if failures > 0 && verifrt.NondetBool("ignoreMissing") {
		chain = []int{zzvOptIgnoreMissing}
	}
	opts := r.options(false, true, chain)
	if workers > 0 {
		opts = append(opts, Concurrency(workers))
	}
	serv := &zzvServ{d: d}
	var err error
	if lim < 0 && verifrt.NondetBool("unlimitedEntry") {
		err = FetchGraph(context.Background(), d.root, serv, opts...)
	} else {
		err = FetchGraphWithDepthLimit(context.Background(), d.root, lim, serv, opts...)
	}

	m := &zzvModel{d: d, chain: chain, lim: lim, partial: err != nil}
	m.analyse()
	verifrt.Observe("failed", err != nil)
	verifrt.Assert("C12.fetch.no-alien-cid", d.alien == 0 && r.alienCb == 0)
	if err == nil {
		verifrt.Assert("C12.fetch.nil-result-only-without-fatal-error", func() bool {
			for i := 0; i < n; i++ {
				if m.dist[i] >= 0 && (lim < 0 || m.dist[i] <= lim) && m.fatal[i] != zzvOK {
					return false
				}
			}
			return true
		}())
		// exactly the blocks within the limit (shortest distance) were fetched; intact ones are now local
		okSet, okProv := true, true
		for i := 0; i < n; i++ {
			want := m.dist[i] >= 0 && (lim < 0 || m.dist[i] <= lim)
			got := zzvCount(d.calls, i)
			if want != (got > 0) {
				okSet = false
			}
			if d.sk[i] == zzvOK && zzvCount(r.provided, i) != got {
				okProv = false
			}
			if zzvCount(r.provided, i) > got {
				okProv = false
			}
		}
		verifrt.Assert("C12.fetch.local-blocks-are-those-within-limit", okSet)
		verifrt.Assert("C12.fetch.provider-announces-fetched-blocks", okProv)
		// a block is re-fetched only when met at a strictly smaller depth: at most once per possible depth
		okRe := true
		for i := 0; i < n; i++ {
			nd := 0
			for k := uint(0); k < zzvMaxN; k++ {
				if m.depths[i]&(1<<k) != 0 {
					nd++
				}
			}
			if zzvCount(d.calls, i) > nd {
				okRe = false
			}
		}
		verifrt.Assert("C12.fetch.refetch-only-when-shallower", okRe)
	} else {
		k := zzvErrKind(err)
		okRes := false
		for i := 0; i < n; i++ {
			if m.dist[i] >= 0 && m.fatal[i] == k && k != zzvOK && zzvCount(d.calls, i) > 0 {
				okRes = true
			}
		}
		verifrt.Assert("C12.fetch.error-is-a-fetched-nodes-error", okRes)
	}
	verifrt.Reach("end")
}

// HarnessC12FetchGraphSeq: depth-limited fetch through the sequential walk (Concurrency(1)).
func HarnessC12FetchGraphSeq() {
	zzvRunFetchGraph(verifrt.Param("N", 4), verifrt.Param("FAIL", 0), 1)
}

// HarnessC12FetchGraphPar: depth-limited fetch through the concurrent walk.
func HarnessC12FetchGraphPar() {
	zzvRunFetchGraph(verifrt.Param("N", 4), verifrt.Param("FAIL", 0), verifrt.Param("W", 2))
}

// HarnessC12ParShapesExplore / HarnessC12ParErrorsExplore / HarnessC12FetchGraphExplore: the same checks with the
// scheduler forking at every synchronisation point (bounded number of pre-emptions), small pools.
func HarnessC12ParShapesExplore() {
	zzvRunPar(verifrt.Param("N", 3), 0, 0, verifrt.Param("W", 2))
}

func HarnessC12ParErrorsExplore() {
	zzvRunPar(verifrt.Param("N", 2), verifrt.Param("FAIL", 2), verifrt.Param("MAXOPTS", 2), verifrt.Param("W", 2))
}

func HarnessC12FetchGraphExplore() {
	zzvRunFetchGraph(verifrt.Param("N", 3), verifrt.Param("FAIL", 0), verifrt.Param("W", 2))
}

// HarnessC12FetchGraphDefault: FetchGraph with its default concurrency (32 fetchers), one schedule.
func HarnessC12FetchGraphDefault() {
	zzvRunFetchGraph(verifrt.Param("N", 4), verifrt.Param("FAIL", 0), 0)
}
