package blockstore

import (
	"bytes"
	"context"
	"errors"
	stdb32 "encoding/base32"

	"github.com/ipfs/boxo/datastore/dshelp"
	"github.com/ipfs/boxo/internal/verifrt"
	blocks "github.com/ipfs/go-block-format"
	cid "github.com/ipfs/go-cid"
	ds "github.com/ipfs/go-datastore"
	dsq "github.com/ipfs/go-datastore/query"
	ipld "github.com/ipfs/go-ipld-format"
	mh "github.com/multiformats/go-multihash"
)

// ---------------------------------------------------------------------------------------------------------
// Reference key: "/" + RFC 4648 base32 (upper case, no padding) of the multihash bytes, under "/blocks"
// unless NoPrefix. Computed with the standard library's encoder, not with go-base32/dshelp.
// ---------------------------------------------------------------------------------------------------------

var zzB32 = stdb32.StdEncoding.WithPadding(stdb32.NoPadding)

func zzRefKey(m []byte, noPrefix bool) string {
	k := "/" + zzB32.EncodeToString(m)
	if !noPrefix {
		k = "/blocks" + k
	}
	return k
}

// zzRecDS is the go-datastore MapDatastore with a log of the mutating calls that reach it.
type zzRecDS struct {
	*ds.MapDatastore
	putKeys []string
	putVals [][]byte
	delKeys []string
	failAt  int // when > 0: Query yields failAt-1 entries and then an iteration error
}

var zzErrIter = errors.New("zz: iteration failed")

func (r *zzRecDS) Query(ctx context.Context, q dsq.Query) (dsq.Results, error) {
	res, err := r.MapDatastore.Query(ctx, q)
	if err != nil || r.failAt <= 0 {
		return res, err
	}
	ents, err := res.Rest()
	if err != nil {
		return nil, err
	}
	i := 0
	return dsq.ResultsFromIterator(q, dsq.Iterator{
		Next: func() (dsq.Result, bool) {
			i++
			if i == r.failAt {
				return dsq.Result{Error: zzErrIter}, true
			}
			if i > r.failAt || i > len(ents) {
				return dsq.Result{}, false
			}
			return dsq.Result{Entry: ents[i-1]}, true
		},
		Close: func() error { return nil },
	}), nil
}

func (r *zzRecDS) Put(ctx context.Context, k ds.Key, v []byte) error {
	r.putKeys = append(r.putKeys, k.String())
	r.putVals = append(r.putVals, v)
	return r.MapDatastore.Put(ctx, k, v)
}

func (r *zzRecDS) Delete(ctx context.Context, k ds.Key) error {
	r.delKeys = append(r.delKeys, k.String())
	return r.MapDatastore.Delete(ctx, k)
}

func (r *zzRecDS) Batch(ctx context.Context) (ds.Batch, error) { return ds.NewBasicBatch(r), nil }

// zzViewBS makes the default blockstore a Viewer (as the flatfs/badger backed ones are), so that the identity
// store takes its viewer path.
type zzViewBS struct {
	Blockstore
	views int
}

func (v *zzViewBS) View(ctx context.Context, c cid.Cid, cb func([]byte) error) error {
	v.views++
	blk, err := v.Blockstore.Get(ctx, c)
	if err != nil {
		return err
	}
	return cb(blk.RawData())
}

// pool entry: one multihash with the only payload that content addressing allows for it
type zzEnt struct {
	m       []byte // multihash bytes
	data    []byte
	ident   bool
	present bool // model: in the backing map
}

func zzMustEncode(d []byte, code uint64) []byte {
	m, err := mh.Encode(d, code)
	if err != nil {
		panic(err)
	}
	return m
}

// zzDigest returns a 32 byte digest whose first `sym` bytes are symbolic and the rest a fixed pattern.
func zzDigest(name string, sym int, fill byte) []byte {
	d := make([]byte, 32)
	s := verifrt.NondetBytes(name, sym)
	copy(d, s)
	for i := sym; i < 32; i++ {
		d[i] = fill + byte(i)
	}
	return d
}

func zzNeq(a, b []byte) bool {
	var x byte
	for i := range a {
		x |= a[i] ^ b[i]
	}
	return x != 0
}

// form: 0 = CIDv1 raw, 1 = CIDv1 dag-pb, 2 = CIDv0 (sha2-256 only)
func zzCid(e *zzEnt, form int) cid.Cid {
	switch form {
	case 0:
		return cid.NewCidV1(cid.Raw, mh.Multihash(e.m))
	case 1:
		return cid.NewCidV1(cid.DagProtobuf, mh.Multihash(e.m))
	}
	return cid.NewCidV0(mh.Multihash(e.m))
}

func zzPickCid(pool []*zzEnt, tag string) (int, cid.Cid) { return zzPickCidForms(pool, tag, 2) }

func zzPickCidForms(pool []*zzEnt, tag string, maxForm int) (int, cid.Cid) {
	i := verifrt.NondetRange(tag+".mh", 0, len(pool)-1)
	if pool[i].ident && maxForm > 1 {
		maxForm = 1
	}
	f := verifrt.NondetRange(tag+".form", 0, maxForm)
	return i, zzCid(pool[i], f)
}

func zzBlock(e *zzEnt, c cid.Cid) blocks.Block {
	b, err := blocks.NewBlockWithCid(e.data, c)
	if err != nil {
		panic(err)
	}
	return b
}

// HarnessC01StepRead (Get/Has/GetSize/View), ...Write, ...PutMany: one operation of the default blockstore (optionally wrapped in the identity store) from an
// arbitrary state over a pool of three multihashes, compared with a map keyed by multihash.
func HarnessC01StepRead() { zzStep([]int{0, 1, 2, 6, 7}) }

// HarnessC01StepWrite: Put / DeleteBlock.
func HarnessC01StepWrite() { zzStep([]int{3, 5}) }

// HarnessC01StepFullDigest: Get/Has/GetSize/Put/DeleteBlock with all 32 digest bytes of both sha2-256 pool entries
// symbolic (prefixed keys, existence check on), every state of those two entries.
func HarnessC01StepFullDigest() { zzStep([]int{0, 1, 2, 3, 5}) }

// HarnessC01StepPutMany: batched puts.
func HarnessC01StepPutMany() { zzStep([]int{4}) }

func zzStep(ops []int) {
	ctx := context.Background()
	sym := verifrt.Param("SYM", 2)
	dl := verifrt.NondetRange("datalen", 0, verifrt.Param("DLEN", 0)) // entry a: the empty block included
	il := verifrt.NondetRange("identlen", verifrt.Param("ILENMIN", 1), verifrt.Param("ILEN", 1))

	a := &zzEnt{m: zzMustEncode(zzDigest("da", sym, 0x10), mh.SHA2_256), data: verifrt.NondetBytes("xa", dl)}
	b := &zzEnt{m: zzMustEncode(zzDigest("db", sym, 0x10), mh.SHA2_256), data: verifrt.NondetBytes("xb", 1)}
	verifrt.Assume(zzNeq(a.m, b.m)) // two pool entries are two multihashes
	ip := verifrt.NondetBytes("xi", il)
	id := &zzEnt{m: zzMustEncode(ip, mh.IDENTITY), data: ip, ident: true}
	pool := []*zzEnt{a, b, id}

	writeThrough := false
	if verifrt.Param("NOWRITETHROUGH", 0) == 0 {
		writeThrough = verifrt.NondetBool("writeThrough")
	}
	noPrefix := false
	if verifrt.Param("PREFIXONLY", 0) == 0 {
		noPrefix = verifrt.NondetBool("noPrefix")
	}
	withID := verifrt.NondetBool("idstore")

	rec := &zzRecDS{MapDatastore: ds.NewMapDatastore()}
	// arbitrary pre-state, written behind the blockstore's back with the reference key
	for _, e := range pool {
		if e.ident && verifrt.Param("IDENTABSENT", 0) != 0 {
			continue
		}
		if verifrt.NondetBool("present") {
			e.present = true
			if err := rec.MapDatastore.Put(ctx, ds.RawKey(zzRefKey(e.m, noPrefix)), e.data); err != nil {
				panic(err)
			}
		}
	}

	var opts []Option
	if writeThrough {
		opts = append(opts, WriteThrough(true))
	}
	if noPrefix {
		opts = append(opts, NoPrefix())
	}
	op := ops[verifrt.NondetRange("op", 0, len(ops)-1)]
	var bs Blockstore = NewBlockstore(rec, opts...)
	var vbs *zzViewBS
	if withID {
		if op == 6 && verifrt.NondetBool("viewerBacking") {
			vbs = &zzViewBS{Blockstore: bs}
			bs = vbs
		}
		bs = NewIdStore(bs)
	}

	// model view through the store under test: the identity store makes identity CIDs always present
	has := func(e *zzEnt) bool { return e.present || (withID && e.ident) }

	switch op {
	case 0: // Get
		i, c := zzPickCid(pool, "t")
		blk, err := bs.Get(ctx, c)
		verifrt.Observe("get.ok", err == nil)
		if has(pool[i]) {
			verifrt.Assert("C01.get-present-succeeds", err == nil)
			verifrt.Assert("C01.get-returns-stored-bytes", bytes.Equal(blk.RawData(), pool[i].data))
			verifrt.Assert("C01.get-returns-requested-cid", blk.Cid().Equals(c))
			verifrt.Observe("get.data", blk.RawData())
		} else {
			verifrt.Assert("C01.get-absent-notfound", err != nil && ipld.IsNotFound(err))
			verifrt.Assert("C01.get-absent-no-block", blk == nil)
		}
	case 1: // Has
		i, c := zzPickCid(pool, "t")
		ok, err := bs.Has(ctx, c)
		verifrt.Observe("has", ok)
		verifrt.Assert("C01.has-no-error", err == nil)
		verifrt.Assert("C01.has-matches-model", ok == has(pool[i]))
	case 2: // GetSize
		i, c := zzPickCid(pool, "t")
		n, err := bs.GetSize(ctx, c)
		verifrt.Observe("size", n)
		if has(pool[i]) {
			verifrt.Assert("C01.getsize-present", err == nil && n == len(pool[i].data))
		} else {
			verifrt.Assert("C01.getsize-absent-notfound", err != nil && ipld.IsNotFound(err))
			verifrt.Assert("C01.getsize-absent-minus-one", n == -1)
		}
	case 3: // Put
		i, c := zzPickCid(pool, "t")
		was := pool[i].present
		err := bs.Put(ctx, zzBlock(pool[i], c))
		verifrt.Assert("C01.put-no-error", err == nil)
		if withID && pool[i].ident {
			verifrt.Assert("C01.idstore-put-not-forwarded", len(rec.putKeys) == 0)
		} else {
			pool[i].present = true
			if writeThrough {
				verifrt.Assert("C01.put-writethrough-writes", len(rec.putKeys) == 1)
			} else if was {
				verifrt.Assert("C01.put-present-not-rewritten", len(rec.putKeys) == 0)
			} else {
				verifrt.Assert("C01.put-absent-written-once", len(rec.putKeys) == 1)
			}
		}
	case 4: // PutMany
		n := verifrt.NondetRange("batch", 0, verifrt.Param("BATCH", 2))
		var bl []blocks.Block
		for j := 0; j < n; j++ {
			maxForm := 2
			if j >= 2 {
				maxForm = 0 // the third block of a batch is always CIDv1-raw (bounds the fork count)
			}
			i, c := zzPickCidForms(pool, "b", maxForm)
			bl = append(bl, zzBlock(pool[i], c))
			if !(withID && pool[i].ident) {
				pool[i].present = true
			}
		}
		err := bs.PutMany(ctx, bl)
		verifrt.Assert("C01.putmany-no-error", err == nil)
	case 5: // DeleteBlock
		i, c := zzPickCid(pool, "t")
		err := bs.DeleteBlock(ctx, c)
		verifrt.Assert("C01.delete-no-error", err == nil)
		if withID && pool[i].ident {
			verifrt.Assert("C01.idstore-delete-not-forwarded", len(rec.delKeys) == 0)
		} else {
			pool[i].present = false
		}
	case 7: // the undefined CID is never present
		blk, err := bs.Get(ctx, cid.Undef)
		verifrt.Assert("C01.undef-get-notfound", blk == nil && err != nil && ipld.IsNotFound(err))
		ok, err := bs.Has(ctx, cid.Undef)
		verifrt.Assert("C01.undef-has-false", err == nil && !ok)
		n, err := bs.GetSize(ctx, cid.Undef)
		verifrt.Assert("C01.undef-getsize-notfound", n == -1 && err != nil && ipld.IsNotFound(err))
	case 6: // View (offered by the identity store)
		verifrt.Assume(withID)
		i, c := zzPickCid(pool, "t")
		var seen []byte
		calls := 0
		err := bs.(Viewer).View(ctx, c, func(p []byte) error { seen = p; calls++; return nil })
		verifrt.Observe("view.ok", err == nil)
		if vbs != nil && pool[i].ident {
			verifrt.Assert("C01.idstore-view-identity-not-forwarded", vbs.views == 0)
		}
		if has(pool[i]) {
			verifrt.Assert("C01.view-present", err == nil && calls == 1 && bytes.Equal(seen, pool[i].data))
		} else {
			verifrt.Assert("C01.view-absent-notfound", err != nil && ipld.IsNotFound(err))
			verifrt.Assert("C01.view-absent-no-callback", calls == 0)
		}
	}

	// every write that reached the backing map is keyed by a pool multihash and carries that block's bytes;
	// behind the identity store no identity multihash is ever written or deleted
	for j, k := range rec.putKeys {
		matched := false
		for _, e := range pool {
			if k == zzRefKey(e.m, noPrefix) {
				matched = true
				verifrt.Assert("C01.write-carries-block-bytes", bytes.Equal(rec.putVals[j], e.data))
				if withID {
					verifrt.Assert("C01.idstore-never-writes-identity", !e.ident)
				}
			}
		}
		verifrt.Assert("C01.write-key-is-base32-multihash", matched)
	}
	for _, k := range rec.delKeys {
		if withID {
			verifrt.Assert("C01.idstore-never-deletes-identity", k != zzRefKey(id.m, noPrefix))
		}
	}

	// post-state of the backing map = model
	want := 0
	for _, e := range pool {
		v, err := rec.MapDatastore.Get(ctx, ds.RawKey(zzRefKey(e.m, noPrefix)))
		if e.present {
			want++
			verifrt.Assert("C01.post-present-entry-kept", err == nil && bytes.Equal(v, e.data))
		} else {
			verifrt.Assert("C01.post-absent-entry-absent", err == ds.ErrNotFound)
		}
	}
	q, err := rec.MapDatastore.Query(ctx, dsq.Query{KeysOnly: true})
	if err != nil {
		panic(err)
	}
	all, err := q.Rest()
	if err != nil {
		panic(err)
	}
	verifrt.Assert("C01.post-no-extra-entries", len(all) == want)
	verifrt.Reach("end")
}

// HarnessC01KeyRoundTrip: dshelp key <-> binary round trip and injectivity for byte strings of length 0..KLEN.
func HarnessC01KeyRoundTrip() {
	n := verifrt.NondetRange("n", 0, verifrt.Param("KLEN", 36))
	raw := verifrt.NondetBytes("raw", n)
	k := dshelp.NewKeyFromBinary(raw)
	verifrt.Assert("C01.key-is-slash-base32", k.String() == "/"+zzB32.EncodeToString(raw))
	back, err := dshelp.BinaryFromDsKey(k)
	verifrt.Assert("C01.key-roundtrip-no-error", err == nil)
	verifrt.Assert("C01.key-roundtrip-identity", bytes.Equal(back, raw))
	verifrt.Observe("key", k.String())
	verifrt.Reach("end")
}

// HarnessC01KeyInjective: two different byte strings never share a key.
func HarnessC01KeyInjective() {
	n1 := verifrt.NondetRange("n1", 0, verifrt.Param("ILEN", 6))
	n2 := verifrt.NondetRange("n2", 0, verifrt.Param("ILEN", 6))
	r1 := verifrt.NondetBytes("r1", n1)
	r2 := verifrt.NondetBytes("r2", n2)
	k1 := dshelp.MultihashToDsKey(mh.Multihash(r1))
	k2 := dshelp.MultihashToDsKey(mh.Multihash(r2))
	if k1.String() == k2.String() {
		verifrt.Assert("C01.key-injective", bytes.Equal(r1, r2))
	}
	verifrt.Reach("end")
}

// HarnessC01KeyMultihash: DsKeyToMultihash(MultihashToDsKey(m)) = m for well-formed multihashes (sha2-256 with a
// symbolic 32-byte digest, identity with 0..4 payload bytes).
func HarnessC01KeyMultihash() {
	var m []byte
	if verifrt.NondetBool("identity") {
		m = zzMustEncode(verifrt.NondetBytes("p", verifrt.NondetRange("pl", 0, 4)), mh.IDENTITY)
	} else {
		m = zzMustEncode(verifrt.NondetBytes("d", 32), mh.SHA2_256)
	}
	back, err := dshelp.DsKeyToMultihash(dshelp.MultihashToDsKey(mh.Multihash(m)))
	verifrt.Assert("C01.mhkey-roundtrip-no-error", err == nil)
	verifrt.Assert("C01.mhkey-roundtrip-identity", bytes.Equal(back, m))
	c, err := dshelp.DsKeyToCidV1(dshelp.MultihashToDsKey(mh.Multihash(m)), cid.Raw)
	verifrt.Assert("C01.mhkey-cid-no-error", err == nil)
	verifrt.Assert("C01.mhkey-cid-same-multihash", bytes.Equal(c.Hash(), m))
	verifrt.Reach("end")
}

// HarnessC01AllKeys: key enumeration. Pre-state over the pool plus (optionally) a key that is not base32; every
// stored multihash is emitted exactly once as CIDv1-raw, nothing else is emitted, the unparsable key is skipped
// and the error function reports a complete enumeration.
func HarnessC01AllKeys() {
	ctx := context.Background()
	sym := verifrt.Param("SYM", 2)
	a := &zzEnt{m: zzMustEncode(zzDigest("da", sym, 0x10), mh.SHA2_256), data: []byte{}}
	b := &zzEnt{m: zzMustEncode(zzDigest("db", sym, 0x10), mh.SHA2_256), data: verifrt.NondetBytes("xb", 1)}
	verifrt.Assume(zzNeq(a.m, b.m))
	ip := verifrt.NondetBytes("xi", 1)
	id := &zzEnt{m: zzMustEncode(ip, mh.IDENTITY), data: ip, ident: true}
	pool := []*zzEnt{a, b, id}
	noPrefix := verifrt.NondetBool("noPrefix")
	withID := verifrt.NondetBool("idstore")
	withErr := verifrt.NondetBool("withErr")

	rec := &zzRecDS{MapDatastore: ds.NewMapDatastore()}
	for _, e := range pool {
		if verifrt.NondetBool("present") {
			e.present = true
			if err := rec.MapDatastore.Put(ctx, ds.RawKey(zzRefKey(e.m, noPrefix)), e.data); err != nil {
				panic(err)
			}
		}
	}
	if verifrt.NondetBool("junk") {
		k := "/blocks/not-base32!"
		if noPrefix {
			k = "/not-base32!"
		}
		if err := rec.MapDatastore.Put(ctx, ds.RawKey(k), []byte{1}); err != nil {
			panic(err)
		}
	}
	var opts []Option
	if noPrefix {
		opts = append(opts, NoPrefix())
	}
	var bs Blockstore = NewBlockstore(rec, opts...)
	if withID {
		bs = NewIdStore(bs)
	}

	var ch <-chan cid.Cid
	var errf func() error
	var err error
	if withErr {
		ch, errf, err = bs.(AllKeysChanWithErrer).AllKeysChanWithErr(ctx)
	} else {
		ch, err = bs.AllKeysChan(ctx)
	}
	verifrt.Assert("C01.allkeys-setup-no-error", err == nil)
	seen := make([]int, len(pool))
	total := 0
	for c := range ch {
		total++
		verifrt.Assert("C01.allkeys-emits-cidv1-raw", c.Version() == 1 && c.Type() == cid.Raw)
		hit := false
		for i, e := range pool {
			if bytes.Equal(c.Hash(), e.m) {
				seen[i]++
				hit = true
			}
		}
		verifrt.Assert("C01.allkeys-emits-only-stored-multihashes", hit)
	}
	for i, e := range pool {
		if e.present {
			verifrt.Assert("C01.allkeys-emits-each-stored-once", seen[i] == 1)
		} else {
			verifrt.Assert("C01.allkeys-never-emits-absent", seen[i] == 0)
		}
	}
	verifrt.Observe("total", total)
	if errf != nil {
		verifrt.Assert("C01.allkeys-complete-enumeration-reports-nil", errf() == nil)
	}
	verifrt.Reach("end")
}

// HarnessC01AllKeysErr: the datastore iteration fails after p of the three stored keys: the p keys are emitted,
// the channel is closed, and AllKeysChanWithErr's error function reports the failure.
func HarnessC01AllKeysErr() {
	ctx := context.Background()
	a := &zzEnt{m: zzMustEncode(zzDigest("da", 0, 0x10), mh.SHA2_256), data: []byte{}}
	b := &zzEnt{m: zzMustEncode(zzDigest("db", 0, 0x40), mh.SHA2_256), data: []byte{7}}
	id := &zzEnt{m: zzMustEncode([]byte{9}, mh.IDENTITY), data: []byte{9}, ident: true}
	pool := []*zzEnt{a, b, id}
	noPrefix := verifrt.NondetBool("noPrefix")
	withID := verifrt.NondetBool("idstore")
	withErr := verifrt.NondetBool("withErr")
	rec := &zzRecDS{MapDatastore: ds.NewMapDatastore()}
	for _, e := range pool {
		if err := rec.MapDatastore.Put(ctx, ds.RawKey(zzRefKey(e.m, noPrefix)), e.data); err != nil {
			panic(err)
		}
	}
	p := verifrt.NondetRange("failAfter", 0, len(pool))
	rec.failAt = p + 1
	var opts []Option
	if noPrefix {
		opts = append(opts, NoPrefix())
	}
	var bs Blockstore = NewBlockstore(rec, opts...)
	if withID {
		bs = NewIdStore(bs)
	}
	var ch <-chan cid.Cid
	var errf func() error
	var err error
	if withErr {
		ch, errf, err = bs.(AllKeysChanWithErrer).AllKeysChanWithErr(ctx)
	} else {
		ch, err = bs.AllKeysChan(ctx)
	}
	verifrt.Assert("C01.allkeys-setup-no-error", err == nil)
	seen := make([]int, len(pool))
	total := 0
	for c := range ch {
		total++
		hit := false
		for i, e := range pool {
			if bytes.Equal(c.Hash(), e.m) {
				seen[i]++
				hit = true
			}
		}
		verifrt.Assert("C01.allkeys-emits-only-stored-multihashes", hit)
	}
	for i := range pool {
		verifrt.Assert("C01.allkeys-emits-no-duplicates", seen[i] <= 1)
	}
	verifrt.Assert("C01.allkeys-emits-keys-before-failure", total == p)
	if errf != nil {
		e := errf()
		verifrt.Assert("C01.allkeys-iteration-error-reported", e != nil && errors.Is(e, zzErrIter))
	}
	verifrt.Reach("end")
}
