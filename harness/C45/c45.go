package autoconf

import (
	"encoding/json"
	"errors"
	"fmt"
	"io/fs"
	"os"
	"path/filepath"
	"sort"
	"strconv"
	"strings"
	"sync"
	"syscall"
	"time"

	"github.com/ipfs/boxo/internal/verifrt"
)

// ---------------------------------------------------------------------------------------------------------
// Crash model. Under the engine the os.* calls of autoconf/{fetch,client}.go are bound to a flat in-memory
// directory. The data writes of an update (os.WriteFile's write phase after open(O_CREATE|O_TRUNC), or
// (*os.File).Write) are numbered; the process stops in data write number cutW after t of its bytes reached the
// disk (t = 0: the file was created/truncated and nothing written; t = len: everything written and nothing
// after it happened). Once stopped, no further call has any effect (deferred clean-up does not run in a dead
// process). Natively the same update runs against a real directory with RLIMIT_FSIZE = t, so the kernel stops
// the real write after t bytes (same bytes on disk as after a crash at that point).

type zzvCrash struct{}

type zzvFile struct {
	data []byte
}

type zzvDisk struct {
	files  map[string]*zzvFile
	names  []string
	writes int
	cutW   int // -1: never
	cutLen int
	dead   bool
	tmpSeq int
	open   map[*os.File]string
}

var zzvD *zzvDisk
var zzvNowSec int64

func zzvTimeNow() time.Time { return time.Unix(zzvNowSec, 0) }

var errZzvDead = errors.New("zzv: process is dead")

func (d *zzvDisk) get(path string) *zzvFile { return d.files[path] }

func (d *zzvDisk) put(path string) *zzvFile {
	f := d.files[path]
	if f == nil {
		f = &zzvFile{}
		d.files[path] = f
		d.names = append(d.names, path)
	}
	return f
}

func (d *zzvDisk) del(path string) {
	delete(d.files, path)
	for i, n := range d.names {
		if n == path {
			d.names = append(d.names[:i:i], d.names[i+1:]...)
			return
		}
	}
}

func (d *zzvDisk) write(f *zzvFile, b []byte) {
	n := d.writes
	d.writes++
	if n == d.cutW {
		t := d.cutLen
		verifrt.Assume(t <= len(b))
		f.data = append(f.data, b[:t]...)
		d.dead = true
		panic(zzvCrash{})
	}
	f.data = append(f.data, b...)
}

func zzvNotExist(op, path string) error { return &fs.PathError{Op: op, Path: path, Err: fs.ErrNotExist} }

func zzvOsWriteFile(name string, data []byte, perm os.FileMode) error {
	d := zzvD
	if d.dead {
		return errZzvDead
	}
	f := d.put(name)
	f.data = nil // O_TRUNC
	d.write(f, data)
	return nil
}

func zzvOsReadFile(name string) ([]byte, error) {
	f := zzvD.get(name)
	if f == nil {
		return nil, zzvNotExist("open", name)
	}
	return append([]byte(nil), f.data...), nil
}

type zzvDirEntry struct{ name string }

func (e zzvDirEntry) Name() string               { return e.name }
func (e zzvDirEntry) IsDir() bool                { return false }
func (e zzvDirEntry) Type() fs.FileMode          { return 0 }
func (e zzvDirEntry) Info() (fs.FileInfo, error) { return nil, errors.New("not modelled") }

func zzvOsReadDir(dir string) ([]os.DirEntry, error) {
	var names []string
	for _, p := range zzvD.names {
		if filepath.Dir(p) == dir {
			names = append(names, filepath.Base(p))
		}
	}
	sort.Strings(names)
	out := make([]os.DirEntry, 0, len(names))
	for _, n := range names {
		out = append(out, zzvDirEntry{n})
	}
	return out, nil
}

func zzvOsRemove(name string) error {
	d := zzvD
	if d.dead {
		return errZzvDead
	}
	if d.get(name) == nil {
		return zzvNotExist("remove", name)
	}
	d.del(name)
	return nil
}

func zzvOsMkdirAll(path string, perm os.FileMode) error { return nil }

// The calls an atomic-replace implementation would use (temp file in the same directory + rename).
func zzvOsCreateTemp(dir, pattern string) (*os.File, error) {
	d := zzvD
	if d.dead {
		return nil, errZzvDead
	}
	d.tmpSeq++
	name := filepath.Join(dir, pattern+"zzvtmp"+strconv.Itoa(d.tmpSeq))
	if i := strings.LastIndexByte(pattern, '*'); i >= 0 {
		name = filepath.Join(dir, pattern[:i]+"zzvtmp"+strconv.Itoa(d.tmpSeq)+pattern[i+1:])
	}
	d.put(name)
	h := new(os.File)
	d.open[h] = name
	return h, nil
}

func zzvFileWrite(f *os.File, b []byte) (int, error) {
	d := zzvD
	file := d.get(d.open[f])
	if file == nil || d.dead {
		return 0, fs.ErrClosed
	}
	d.write(file, b)
	return len(b), nil
}
func zzvFileClose(f *os.File) error                  { return nil }
func zzvFileSync(f *os.File) error                   { return nil }
func zzvFileChmod(f *os.File, m os.FileMode) error   { return nil }
func zzvFileName(f *os.File) string                  { return zzvD.open[f] }
func zzvOsChmod(name string, mode os.FileMode) error { return nil }

func zzvOsRename(oldpath, newpath string) error {
	d := zzvD
	o := d.get(oldpath)
	if o == nil {
		return &os.LinkError{Op: "rename", Old: oldpath, New: newpath, Err: fs.ErrNotExist}
	}
	if d.dead {
		return errZzvDead
	}
	d.del(oldpath)
	d.put(newpath).data = o.data
	return nil
}

// json.Unmarshal as an opaque codec over the documents of this harness: exactly the complete documents parse;
// a strict prefix (or anything else) does not. Natively the real decoder runs on the real bytes.
func zzvJSONUnmarshal(data []byte, v any) error {
	cfg, ok := v.(*Config)
	if !ok {
		return errors.New("zzv: unexpected json target")
	}
	for ver := int64(1); ver <= 9; ver++ {
		if string(data) == zzvDoc(ver) {
			*cfg = Config{AutoConfVersion: ver, AutoConfSchema: 1}
			return nil
		}
	}
	return errors.New("zzv: invalid json")
}

func zzvDoc(ver int64) string {
	return `{"AutoConfVersion":` + strconv.FormatInt(ver, 10) + `,"AutoConfSchema":1}`
}

// ---------------------------------------------------------------------------------------------------------

const zzvFallbackVersion = 99

// zzvUpdate is what getLatest does with a freshly fetched and validated payload: store it, then prune.
func zzvUpdate(c *Client, dir string, ver int64) {
	body := []byte(zzvDoc(ver))
	if c.isNewPayload(dir, body) {
		_ = c.saveToCache(dir, body, "etag"+strconv.FormatInt(ver, 10), "", time.Unix(1_700_000_000, 0))
	}
	_ = c.cleanupOldVersions(dir)
}

// HarnessC45Crash: E in 0..EMAX complete updates (each in the same second as the previous one or a later one),
// then one more update during which the process stops in data write number cutW after t bytes. GetCached afterwards must return the new configuration or the newest earlier one;
// while an earlier one exists it must not fall back, and it never returns anything else.
func HarnessC45Crash() {
	earlier := verifrt.NondetRange("earlier", 0, verifrt.Param("EMAX", 2))
	cutOp := verifrt.NondetRange("cutW", 0, verifrt.Param("WRITES", 3))
	cutLen := verifrt.NondetRange("t", 0, len(zzvDoc(1)))
	gaps := make([]int, earlier+1)
	for i := range gaps {
		gaps[i] = verifrt.NondetRange("gap", 0, 1)
	}

	fellBack := false
	c := &Client{cacheSize: verifrt.Param("KEEP", 2), urls: []string{"https://example.invalid/autoconf.json"}}
	c.fallbackFunc = func() *Config { fellBack = true; return &Config{AutoConfVersion: zzvFallbackVersion} }

	var got *Config
	var interrupted bool
	if verifrt.Symbolic() {
		got, interrupted = zzvRunModel(c, earlier, gaps, cutOp, cutLen)
	} else {
		got, interrupted = zzvRunNative(c, earlier, gaps, cutOp, cutLen)
	}
	newVer := int64(earlier + 1)
	validOnDisk := zzvValid
	verifrt.Assert("C45.result-present", got != nil)
	if got == nil {
		return
	}
	if !(cutOp == 0 && cutLen == len(zzvDoc(1))) {
		// (a cut right after the last byte of the first write: whether the new version is already visible
		// depends on whether the implementation publishes by rename; natively that cut cannot be placed)
		verifrt.Observe("version", got.AutoConfVersion)
		verifrt.Observe("fallback", fellBack)
	}
	if earlier >= 1 {
		if gaps[earlier] == 0 {
			// the interrupted update happens in the same second as the newest earlier one (same file name)
			verifrt.Assert("C45.no-fallback-after-same-second-update", !fellBack)
		} else {
			verifrt.Assert("C45.no-fallback-while-earlier-version-cached", !fellBack)
		}
	}
	if validOnDisk {
		verifrt.Assert("C45.no-fallback-while-valid-version-on-disk", !fellBack)
	}
	if !fellBack {
		verifrt.Assert("C45.result-is-new-or-newest-earlier", got.AutoConfVersion == newVer || (earlier >= 1 && got.AutoConfVersion == int64(earlier)))
	}
	if !interrupted {
		verifrt.Assert("C45.completed-update-is-served", !fellBack && got.AutoConfVersion == newVer)
	}
	verifrt.Reach("end")
}


// zzvValid is set by the run functions just before the cached read: the state-based clause of the property,
// "never the built-in fallback while a valid cached version exists" — a valid version exists when some file
// with a cache file name holds one of the complete documents.
var zzvValid bool

func zzvValidOnDisk(c *Client, newVer int64) bool {
	valid := false
	if dir, err := c.getCacheDir(); err == nil {
		ents, _ := os.ReadDir(dir)
		for _, e := range ents {
			n := e.Name()
			if !strings.HasPrefix(n, "autoconf-") || !strings.HasSuffix(n, ".json") {
				continue
			}
			data, err := os.ReadFile(filepath.Join(dir, n))
			if err != nil {
				continue
			}
			for v := int64(1); v <= newVer; v++ {
				if string(data) == zzvDoc(v) {
					valid = true
				}
			}
		}
	}
	return valid
}

func zzvRunModel(c *Client, earlier int, gaps []int, cutOp, cutLen int) (*Config, bool) {
	c.cacheDir = "/cache"
	dir, err := c.getCacheDir()
	if err != nil {
		panic(err)
	}
	zzvD = &zzvDisk{files: map[string]*zzvFile{}, cutW: -1, open: map[*os.File]string{}}
	zzvNowSec = 1_700_000_000
	for i := 0; i < earlier; i++ {
		zzvNowSec += int64(gaps[i])
		zzvUpdate(c, dir, int64(i+1))
	}
	zzvNowSec += int64(gaps[earlier])
	zzvD.writes = 0
	zzvD.cutW = cutOp
	zzvD.cutLen = cutLen
	crashed := false
	func() {
		defer func() {
			if r := recover(); r != nil {
				if _, ok := r.(zzvCrash); !ok {
					panic(r)
				}
				crashed = true
			}
		}()
		zzvUpdate(c, dir, int64(earlier+1))
	}()
	if !crashed {
		// cutW beyond the data writes of this update: nothing was interrupted; a cut length only means
		// something together with a cut
		verifrt.Assume(cutLen == 0)
	}
	// the next process: a fresh client over the same directory
	zzvD.cutW = -1
	zzvD.dead = false
	c.cacheMu = sync.RWMutex{}
	zzvValid = zzvValidOnDisk(c, int64(earlier+1))
	return c.GetCached(), crashed
}

var errZzvRetry = errors.New("retry")

func zzvRunNative(c *Client, earlier int, gaps []int, cutOp, cutLen int) (*Config, bool) {
	for attempt := 0; ; attempt++ {
		got, interrupted, err := zzvRunNativeOnce(c, earlier, gaps, cutOp, cutLen)
		if err == nil {
			return got, interrupted
		}
		if attempt > 5 {
			panic(err)
		}
	}
}

// Natively: the earlier updates run for real and their files are renamed to the timestamps the scenario
// asks for (relative to "now"); the interrupted update runs for real, under RLIMIT_FSIZE = t when the cut is in
// the first data write (the configuration file), which makes the kernel stop that write after t bytes. Cuts in
// later data writes (metadata files) are placed by blocking the final names of those files, see below.
func zzvRunNativeOnce(c *Client, earlier int, gaps []int, cutOp, cutLen int) (*Config, bool, error) {
	tmp, err := os.MkdirTemp("", "zzvc45-")
	if err != nil {
		panic(err)
	}
	defer os.RemoveAll(tmp)
	c.cacheDir = tmp
	c.cacheMu = sync.RWMutex{}
	dir, err := c.getCacheDir()
	if err != nil {
		panic(err)
	}
	if err := os.MkdirAll(dir, 0o755); err != nil {
		panic(err)
	}
	list := func() map[string]bool {
		m := map[string]bool{}
		ents, _ := os.ReadDir(dir)
		for _, e := range ents {
			if strings.HasPrefix(e.Name(), "autoconf-") {
				m[e.Name()] = true
			}
		}
		return m
	}
	// seconds, relative to the interrupted update, at which the earlier updates happen
	total := 0
	for _, g := range gaps {
		total += g
	}
	base := time.Now().Unix()
	at := base - int64(total)
	for i := 0; i < earlier; i++ {
		at += int64(gaps[i])
		want := fmt.Sprintf("autoconf-%d.json", at)
		before := list()
		body := []byte(zzvDoc(int64(i + 1)))
		if c.isNewPayload(dir, body) {
			if err := c.saveToCache(dir, body, "etag", "", time.Unix(1_700_000_000, 0)); err != nil {
				panic(err)
			}
		}
		// move the file this update produced to the second the scenario wants it at
		for n := range list() {
			if !before[n] && n != want {
				if err := os.Rename(filepath.Join(dir, n), filepath.Join(dir, want)); err != nil {
					panic(err)
				}
			}
		}
		_ = c.cleanupOldVersions(dir)
	}
	cutInConfig := cutOp == 0
	var old syscall.Rlimit
	if cutInConfig {
		if err := syscall.Getrlimit(syscall.RLIMIT_FSIZE, &old); err != nil {
			panic(err)
		}
		lim := old
		lim.Cur = uint64(cutLen)
		if err := syscall.Setrlimit(syscall.RLIMIT_FSIZE, &lim); err != nil {
			panic(err)
		}
	}
	body := []byte(zzvDoc(int64(earlier + 1)))
	// A cut in a later data write (the metadata files, in the order saveToCache writes them: .etag, then
	// .last-refresh; .last-modified is not written because the harness passes no Last-Modified value): the
	// process stops before that write reaches its final name, and no later write happens. Natively this is
	// placed by putting a directory at the final name of every metadata file from the cut on (rename onto a
	// directory fails), with the earlier update's file of that name moved aside and put back afterwards. A cut
	// after t > 0 bytes of a metadata write leaves the same visible state as t = 0 as long as writes go to a
	// temporary name first; if they do not, the replay differs from the model and the run is inconclusive.
	cutInMeta := cutOp >= 1 && cutOp < verifrt.Param("WRITES", 3)
	var blocked []string
	if cutInMeta {
		meta := []string{etagFile, lastRefreshFile}
		if cutOp-1 < len(meta) {
			blocked = meta[cutOp-1:]
		}
		for k, n := range blocked {
			full := filepath.Join(dir, n)
			if _, err := os.Lstat(full); err == nil {
				if err := os.Rename(full, filepath.Join(tmp, "stash-"+strconv.Itoa(k))); err != nil {
					panic(err)
				}
			}
			if err := os.Mkdir(full, 0o755); err != nil {
				panic(err)
			}
		}
	}
	var saveErr error
	if c.isNewPayload(dir, body) {
		saveErr = c.saveToCache(dir, body, "etag"+strconv.Itoa(earlier+1), "", time.Unix(1_700_000_000, 0))
	}
	for k, n := range blocked {
		full := filepath.Join(dir, n)
		if err := os.Remove(full); err != nil {
			panic(err)
		}
		if _, err := os.Lstat(filepath.Join(tmp, "stash-"+strconv.Itoa(k))); err == nil {
			if err := os.Rename(filepath.Join(tmp, "stash-"+strconv.Itoa(k)), full); err != nil {
				panic(err)
			}
		}
	}
	if cutInConfig {
		if err := syscall.Setrlimit(syscall.RLIMIT_FSIZE, &old); err != nil {
			panic(err)
		}
	}
	if time.Now().Unix() != base {
		return nil, false, errZzvRetry // the interrupted update did not get the file name the scenario asks for
	}
	if cutInConfig && cutLen < len(body) && saveErr == nil {
		panic("zzv: the size limit did not interrupt the write")
	}
	if saveErr == nil && !cutInConfig && !cutInMeta {
		_ = c.cleanupOldVersions(dir)
	}
	zzvValid = zzvValidOnDisk(c, int64(earlier+1))
	return c.GetCached(), saveErr != nil || cutOp < verifrt.Param("WRITES", 3), nil
}

var _ = json.Unmarshal
