package gateway

import (
	"context"
	"fmt"
	"io"
	"time"

	"github.com/gabriel-vasile/mimetype"
	"github.com/ipfs/boxo/internal/verifrt"
	"github.com/ipfs/boxo/path"
	cid "github.com/ipfs/go-cid"
	"github.com/prometheus/client_golang/prometheus"
)

// ---------------------------------------------------------------------------------------------------
// The real (*handler).serveDefaults (GET and HEAD) -> serveFile -> serveContent/httpServeContent over a stub
// IPFSBackend that returns the harness file positioned as BlocksBackend.Get positions it.
// ---------------------------------------------------------------------------------------------------

const (
	zzhDagPbCid   = "bafybeigdyrzt5sfp7udm7hu76uh7y26nf3efuylqabf3oclgtqy55fbzdi" // CIDv1, dag-pb
	zzhSeekFailed = "zzh: could not position the reader at the first range"
	zzhBackendCT  = "application/x-zzh" // content type supplied by the backend (ContentPathMetadata.ContentType)
)

// zzhBackend is the IPFSBackend of the handler entries: one UnixFS file (the harness file) behind every path.
type zzhBackend struct {
	IPFSBackend
	f      *zzvFile
	md     ContentPathMetadata
	noSeek bool
	gets   int
	heads  int
}

// Get does what BlocksBackend.Get does once it holds the file: seekToRangeStart on the first range as
// requested, then NewGetResponseFromReader(file, size) (backend_blocks.go, both the lazy and the regular path;
// the real Get is HarnessC30BackendGet).
func (b *zzhBackend) Get(ctx context.Context, p path.ImmutablePath, ranges ...ByteRange) (ContentPathMetadata, *GetResponse, error) {
	b.gets++
	var ra *ByteRange
	if len(ranges) > 0 {
		ra = &ranges[0]
	}
	if err := seekToRangeStart(b.f, ra, b.f.size); err != nil {
		return ContentPathMetadata{}, nil, fmt.Errorf("%s: %w", zzhSeekFailed, err)
	}
	if b.noSeek {
		return b.md, NewGetResponseFromReader(&zzhNoSeek{b.f}, b.f.size), nil
	}
	return b.md, NewGetResponseFromReader(b.f, b.f.size), nil
}

// zzhNoSeek hides the file's Seek (a streaming backend such as the CAR backend; experiment NOSEEK=1 only).
type zzhNoSeek struct{ f *zzvFile }

func (n *zzhNoSeek) Read(p []byte) (int, error) { return n.f.Read(p) }
func (n *zzhNoSeek) Close() error               { return nil }

// Head does what BlocksBackend.Head does for a file: the file from its start and its size.
func (b *zzhBackend) Head(ctx context.Context, p path.ImmutablePath) (ContentPathMetadata, *HeadResponse, error) {
	b.heads++
	return b.md, NewHeadResponseForFile(b.f, b.f.size), nil
}

func (b *zzhBackend) WrapContextForRequest(ctx context.Context) context.Context { return ctx }

// zzhTypeByExtension stands in for mime.TypeByExtension (which reads the system's mime.types files through os):
// the entries of its built-in table that the harness paths use.
func zzhTypeByExtension(ext string) string {
	switch ext {
	case ".pdf":
		return "application/pdf"
	case ".html":
		return "text/html; charset=utf-8"
	}
	return ""
}

// zzhDetectReader stands in for mimetype.DetectReader: it reads 0..SNIFF bytes from the reader in one Read and
// answers a fixed type. (The real one reads up to 3072 bytes; it runs in the native replay.)
func zzhDetectReader(r io.Reader) (*mimetype.MIME, error) {
	k := verifrt.NondetRange("sniff", 0, verifrt.Param("SNIFF", 3))
	if k > 0 {
		buf := make([]byte, k)
		if _, err := r.Read(buf); err != nil && err != io.EOF {
			return nil, err
		}
	}
	return mimetype.Lookup("application/octet-stream"), nil
}

// zzhLimit draws a configured size limit that the file does not exceed: any value > 0 and >= size
// (on == false: 0, the limit is disabled).
func zzhLimit(name string, on bool, size int64) int64 {
	if !on {
		return 0
	}
	l := verifrt.NondetI64(name)
	verifrt.Assume(l > 0)
	verifrt.Assume(l >= size)
	return l
}

// zzhServeDefaults runs the request through the real serveDefaults.
func zzhServeDefaults(w *zzvRW, q *zzvRequest, f *zzvFile) {
	c, err := cid.Decode(zzhDagPbCid)
	if err != nil {
		panic(err)
	}
	zzvETag = `"` + zzhDagPbCid + `"` // what addCacheControlHeaders/getEtag give a deserialized response
	r := q.build()

	str := "/ipfs/" + zzhDagPbCid + "/f"
	if q.ctSrc == 0 {
		str += ".pdf"
	}
	r.URL.Path = str
	contentPath, err := path.NewPath(str)
	if err != nil {
		panic(err)
	}
	imPath, err := path.NewImmutablePath(contentPath)
	if err != nil {
		panic(err)
	}

	md := ContentPathMetadata{PathSegmentRoots: []cid.Cid{c, c}, LastSegment: path.FromCid(c)}
	if q.ctSrc == 1 {
		md.ContentType = zzhBackendCT
	}
	backend := &zzhBackend{f: f, md: md, noSeek: verifrt.Param("NOSEEK", 0) == 1}
	cfg := &Config{
		DeserializedResponses:       true,
		MaxRangeRequestFileSize:     zzhLimit("maxRange", q.limits, f.size),
		MaxUnixFSDAGResponseSize:    zzhLimit("maxDag", q.limits, f.size),
		MaxDeserializedResponseSize: zzhLimit("maxDeser", q.limits, f.size),
	}
	// the handler as NewHandler builds it (metrics wrapper around the backend included)
	h := newHandlerWithMetrics(cfg, backend, prometheus.NewRegistry())
	rq := &requestData{
		begin:         time.Now(),
		logger:        log.With("from", str),
		contentPath:   contentPath,
		immutablePath: imPath,
	}
	ok := h.serveDefaults(r.Context(), w, r, rq)
	verifrt.Observe("served", ok)
	if q.head {
		verifrt.Assert("C30.handler-head-uses-backend-head", backend.heads == 1 && backend.gets == 0)
	} else if w.code != 400 {
		verifrt.Assert("C30.handler-get-uses-backend-get", backend.gets == 1 && backend.heads == 0)
	}
}

// zzhDraw draws what is specific to the handler entries.
func zzhDraw(q *zzvRequest) {
	q.handler = true
	q.ctSrc = verifrt.NondetRange("ctsrc", verifrt.Param("CTLO", 0), 2)
	q.limits = verifrt.NondetRange("limits", verifrt.Param("LIMLO", 0), 1) == 1
	q.head = verifrt.NondetRange("head", 0, verifrt.Param("HEADHI", 1)) == 1
}

// HarnessC30HandlerSingle: HarnessC30Single's requests (no Range / one spec of every form / another unit, If-Range
// in every state, GET/HEAD) through the real serveDefaults -> serveFile -> httpServeContent, content type from the
// extension / the backend / sniffed.
func HarnessC30HandlerSingle() {
	zzvReset()
	q := &zzvRequest{}
	zzhDraw(q)
	switch verifrt.NondetRange("shape", 0, 2) {
	case 0: // no Range header
	case 1:
		q.hasRange = true
		q.specs = zzvDrawSpecs(1, zzvNForms)
	case 2:
		q.hasRange, q.badUnit = true, true
		q.specs = zzvDrawSpecs(1, 1)
	}
	q.ifRange = verifrt.NondetRange("ifRange", 0, verifrt.Param("IFRANGE", 3))
	size := zzvSize()
	zzvCheck(q, size, zzvServe(q, size))
}

// HarnessC30HandlerMulti: HarnessC30Multi's requests (lists of 2..NS specs) through the real handler.
func HarnessC30HandlerMulti() {
	zzvReset()
	q := &zzvRequest{hasRange: true}
	zzhDraw(q)
	ns := verifrt.NondetRange("nspec", 2, verifrt.Param("NS", 2))
	q.specs = zzvDrawSpecs(ns, zzvMultiForms(ns))
	q.ifRange = zzvMultiIfRange(ns)
	size := zzvSize()
	zzvCheck(q, size, zzvServe(q, size))
}
