package gateway

import (
	"context"
	"errors"
	"io"

	"github.com/ipfs/boxo/blockservice"
	"github.com/ipfs/boxo/internal/verifrt"
	"github.com/ipfs/boxo/path"
	"github.com/ipfs/boxo/path/resolver"
	blocks "github.com/ipfs/go-block-format"
	cid "github.com/ipfs/go-cid"
	format "github.com/ipfs/go-ipld-format"
)

// ---------------------------------------------------------------------------------------------------
// BlocksBackend.Get itself (backend_blocks.go), range branch, for a file that is one raw block: the real Get,
// getPathRoots, resolvePath, getNode and their seekToRangeStart call sites run; path resolution, the block
// service and the DAG service are harness objects that know exactly one block.
// ---------------------------------------------------------------------------------------------------

const zzbRawCid = "bafkreiba3vpkcqpc6xtp3hsatzcod6iwneouzjoq7ymy4m2js6gc3czt6i" // a CIDv1 with the raw codec

var zzbData = []byte("0123456") // the block, i.e. the whole file

type zzbNode struct {
	format.Node
	c    cid.Cid
	data []byte
}

func (n *zzbNode) Cid() cid.Cid    { return n.c }
func (n *zzbNode) RawData() []byte { return n.data }

type zzbBlockService struct {
	blockservice.BlockService
	c    cid.Cid
	gets int
}

func (s *zzbBlockService) GetBlock(ctx context.Context, c cid.Cid) (blocks.Block, error) {
	s.gets++
	if !c.Equals(s.c) {
		return nil, format.ErrNotFound{Cid: c}
	}
	return &zzbNode{c: s.c, data: zzbData}, nil
}

type zzbDagService struct {
	format.DAGService
	c cid.Cid
}

func (s *zzbDagService) Get(ctx context.Context, c cid.Cid) (format.Node, error) {
	if !c.Equals(s.c) {
		return nil, format.ErrNotFound{Cid: c}
	}
	return &zzbNode{c: s.c, data: zzbData}, nil
}

type zzbResolver struct {
	resolver.Resolver
}

func (zzbResolver) ResolveToLastNode(ctx context.Context, p path.ImmutablePath) (cid.Cid, []string, error) {
	if len(p.Segments()) != 2 {
		return cid.Undef, nil, errors.New("harness resolver: only bare CID paths")
	}
	return p.RootCid(), nil, nil
}

// HarnessC30BackendGet: for every first range {A-B, A-, -B} (symbolic numbers, as parseRangeWithoutLength
// hands them over), with or without a second range, and for no range at all: BlocksBackend.Get returns the
// whole-file size and a reader positioned on the first byte of the first requested range (the IPFSBackend.Get
// contract the handlers rely on), reading the file's bytes from there.
func HarnessC30BackendGet() {
	c, err := cid.Decode(zzbRawCid)
	if err != nil {
		panic(err)
	}
	bb := &BlocksBackend{blockService: &zzbBlockService{c: c}, dagService: &zzbDagService{c: c}, resolver: zzbResolver{}}
	size := int64(len(zzbData))

	var ranges []ByteRange
	want := int64(0)
	form := verifrt.NondetRange("form", 0, 3)
	if form > 0 {
		a := verifrt.NondetI64("a")
		b := verifrt.NondetI64("b")
		verifrt.Assume(a >= 0)
		verifrt.Assume(b >= 0)
		// numbers around the file: 0 .. size+2
		verifrt.Assume(a <= size+2)
		verifrt.Assume(b <= size+2)
		switch form {
		case 1: // A-B
			verifrt.Assume(a <= b)
			ranges = append(ranges, ByteRange{From: a, To: &b})
			want = a
		case 2: // A-
			ranges = append(ranges, ByteRange{From: a})
			want = a
		case 3: // -B; "-0" selects nothing and is not representable as a ByteRange (From = -0 = 0)
			verifrt.Assume(b >= 1)
			ranges = append(ranges, ByteRange{From: -b})
			want = size - b
			if want < 0 {
				want = 0
			}
		}
		if verifrt.NondetRange("second", 0, 1) == 1 {
			one := int64(1)
			ranges = append(ranges, ByteRange{From: 1, To: &one})
		}
	}

	md, resp, err := bb.Get(context.Background(), path.FromCid(c), ranges...)
	verifrt.Observe("err", err == nil)
	verifrt.Assert("C30.backend-get-serves-raw-block", err == nil && resp != nil && resp.bytes != nil)
	if err != nil || resp == nil || resp.bytes == nil {
		verifrt.Reach("end")
		return
	}
	verifrt.Assert("C30.backend-get-last-segment", md.LastSegment.RootCid().Equals(c))
	verifrt.Assert("C30.backend-get-size-is-file-size", resp.bytesSize == size)
	sk, ok := resp.bytes.(io.Seeker)
	verifrt.Assert("C30.backend-get-reader-seekable", ok)
	if ok {
		pos, err := sk.Seek(0, io.SeekCurrent)
		verifrt.Observe("pos", pos)
		verifrt.Assert("C30.backend-get-positioned-at-first-range", err == nil && pos == want)
	}
	if want < size {
		var buf [1]byte
		n, _ := resp.bytes.Read(buf[:])
		verifrt.Observe("first", buf[0])
		verifrt.Assert("C30.backend-get-first-byte", n == 1 && buf[0] == zzbData[want])
	}
	verifrt.Reach("end")
}
