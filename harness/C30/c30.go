package gateway

import (
	"errors"
	"fmt"
	"io"
	"net/http"
	"net/url"
	"strconv"
	"strings"
	"time"

	"github.com/ipfs/boxo/internal/verifrt"
)

// ---------------------------------------------------------------------------------------------------
// Numbers. Under the engine the decimal numbers of the Range header are placeholder tokens "@k" and
// strconv.ParseInt is bound to zzvParseInt, which returns the k-th symbolic number (ParseInt contract
// for an in-range decimal: value, nil). Natively the header carries the real decimal text.
// ---------------------------------------------------------------------------------------------------

var zzvNum [8]int64

func zzvTok(k int) string {
	if verifrt.Symbolic() {
		return "@" + string(rune('0'+k))
	}
	return strconv.FormatInt(zzvNum[k], 10)
}

func zzvParseInt(s string, base int, bitSize int) (int64, error) {
	t := s
	neg := false
	if len(t) == 3 && t[0] == '-' {
		neg = true
		t = t[1:]
	}
	if len(t) == 2 && t[0] == '@' {
		v := zzvNum[int(t[1]-'0')]
		if neg {
			v = -v
		}
		return v, nil
	}
	return strconv.ParseInt(s, base, bitSize)
}

// Formatting: strconv.FormatInt (Content-Length) and fmt.Sprintf (Content-Range) are bound to recording
// stubs under the engine: the numbers are kept, the text is a token. Natively the real text is parsed back.
var (
	zzvFmtVals []int64
	zzvCR      [3]int64
	zzvCRn     int
	zzvCRStar  int64
)

func zzvFormatInt(i int64, base int) string {
	zzvFmtVals = append(zzvFmtVals, i)
	return "#" + string(rune('a'+len(zzvFmtVals)-1))
}

func zzvSprintf(format string, a ...any) string {
	switch format {
	case "bytes %d-%d/%d":
		zzvCR = [3]int64{a[0].(int64), a[1].(int64), a[2].(int64)}
		zzvCRn++
		return "bytes @R"
	case "bytes */%d":
		zzvCRStar = a[0].(int64)
		return "bytes */@"
	}
	return fmt.Sprintf(format, a...)
}

func zzvReset() {
	zzvFmtVals = nil
	zzvCRn = 0
	zzvBits = 63
	zzvETag = `"abc"`
}

const (
	zzvCRNone = iota
	zzvCRRange
	zzvCRStarKind
	zzvCRBad
)

// zzvReadCR decodes a Content-Range response header.
func zzvReadCR(h string) (kind int, s, e, total int64) {
	if h == "" {
		return zzvCRNone, 0, 0, 0
	}
	if verifrt.Symbolic() {
		switch h {
		case "bytes @R":
			return zzvCRRange, zzvCR[0], zzvCR[1], zzvCR[2]
		case "bytes */@":
			return zzvCRStarKind, 0, 0, zzvCRStar
		}
		return zzvCRBad, 0, 0, 0
	}
	rest, ok := strings.CutPrefix(h, "bytes ")
	if !ok {
		return zzvCRBad, 0, 0, 0
	}
	rng, tot, ok := strings.Cut(rest, "/")
	if !ok {
		return zzvCRBad, 0, 0, 0
	}
	total, err := strconv.ParseInt(tot, 10, 64)
	if err != nil {
		return zzvCRBad, 0, 0, 0
	}
	if rng == "*" {
		return zzvCRStarKind, 0, 0, total
	}
	// "s-e" where e may be printed negative ("5--1"): cut at the first '-' after the first byte
	i := strings.IndexByte(rng[1:], '-')
	if i < 0 {
		return zzvCRBad, 0, 0, 0
	}
	s, err1 := strconv.ParseInt(rng[:i+1], 10, 64)
	e, err2 := strconv.ParseInt(rng[i+2:], 10, 64)
	if err1 != nil || err2 != nil {
		return zzvCRBad, 0, 0, 0
	}
	return zzvCRRange, s, e, total
}

// zzvReadCL decodes a Content-Length response header (ok=false: absent or not a number).
func zzvReadCL(h string) (int64, bool) {
	if h == "" {
		return 0, false
	}
	if verifrt.Symbolic() {
		if len(h) == 2 && h[0] == '#' {
			return zzvFmtVals[int(h[1]-'a')], true
		}
		return 0, false
	}
	v, err := strconv.ParseInt(h, 10, 64)
	return v, err == nil
}

// ---------------------------------------------------------------------------------------------------
// The file and the response writer.
// ---------------------------------------------------------------------------------------------------

// zzvFile is a seekable file of `size` bytes whose byte at offset p is a fixed function of p, so a body
// is identified by (offset of its first byte, number of bytes).
type zzvFile struct {
	size, pos int64
	seeks     int
	// the reads that handed out real bytes (content sniffing): offset of the first byte, count
	rdPos, rdN []int64
}

// zzvByteAt is the content of the file at offset p.
func zzvByteAt(p int64) byte { return byte(p*7 + (p>>8)*5 + 3) }

func (f *zzvFile) Read(p []byte) (int, error) {
	if len(p) == 0 {
		return 0, nil
	}
	if f.pos >= f.size {
		return 0, io.EOF
	}
	n := int64(len(p))
	if n > f.size-f.pos {
		n = f.size - f.pos
	}
	i := int64(0) // the loop pins n to the (concrete) count i
	for ; i < n; i++ {
		p[i] = zzvByteAt(f.pos + i)
	}
	f.rdPos = append(f.rdPos, f.pos)
	f.rdN = append(f.rdN, i)
	f.pos += i
	return int(i), nil
}

func (f *zzvFile) Seek(off int64, whence int) (int64, error) {
	f.seeks++
	switch whence {
	case io.SeekStart:
	case io.SeekCurrent:
		off += f.pos
	case io.SeekEnd:
		off += f.size
	}
	if off < 0 {
		return f.pos, errors.New("invalid offset")
	}
	f.pos = off
	return off, nil
}

func (f *zzvFile) Close() error { return nil }

// take hands out up to n bytes from the current position: (offset of the first byte, count).
func (f *zzvFile) take(n int64) (int64, int64) {
	start := f.pos
	avail := f.size - f.pos
	if avail < 0 {
		avail = 0
	}
	if n > avail {
		n = avail
	}
	if n < 0 {
		n = 0
	}
	f.pos += n
	return start, n
}

// zzvRW is the recording http.ResponseWriter. Like net/http's own response it implements io.ReaderFrom,
// which is how io.CopyN hands the (limited) file reader over without a byte loop.
type zzvRW struct {
	h         http.Header
	code      int
	file      *zzvFile // the file behind the response (to identify body bytes that went through a buffer)
	crAtHdr   string   // Content-Range / Content-Length as they were when the status line went out
	clAtHdr   string
	hasCE     bool
	fileBytes int64 // bytes of the file sent as body
	fileStart int64 // offset of the first of them
	fileCalls int
	scattered bool   // the body is not one contiguous slice of the file
	alien     bool   // the body holds bytes that are not bytes the file handed out
	text      []byte // bytes written with Write (error texts)
}

func (w *zzvRW) Header() http.Header { return w.h }

func (w *zzvRW) WriteHeader(code int) {
	if w.code != 0 {
		return
	}
	w.code = code
	w.crAtHdr = headerGetExact(w.h, "Content-Range")
	w.clAtHdr = headerGetExact(w.h, "Content-Length")
}

func (w *zzvRW) Write(p []byte) (int, error) {
	if w.code == 0 {
		w.WriteHeader(http.StatusOK)
	}
	w.text = append(w.text, p...)
	return len(p), nil
}

func (w *zzvRW) ReadFrom(r io.Reader) (int64, error) {
	if w.code == 0 {
		w.WriteHeader(http.StatusOK)
	}
	lr, ok := r.(*io.LimitedReader)
	if !ok {
		panic("zzvRW.ReadFrom: expected *io.LimitedReader")
	}
	switch src := lr.R.(type) {
	case *zzvFile:
		start, n := src.take(lr.N)
		lr.N -= n
		w.addChunk(start, n)
		return n, nil
	case *zzhNoSeek:
		start, n := src.f.take(lr.N)
		lr.N -= n
		w.addChunk(start, n)
		return n, nil
	case io.WriterTo:
		// a composite reader (io.MultiReader of the sniffed prefix and the file): drained through its
		// WriteTo into a sink that stops after lr.N bytes; the stream is the same as with Read
		sink := &zzvSink{w: w, left: lr.N, f: w.file}
		src.WriteTo(sink)
		n := lr.N - sink.left
		lr.N = sink.left
		return n, nil
	}
	panic("zzvRW.ReadFrom: expected the harness file or a composite reader over it")
}

// addChunk appends count bytes of the file starting at offset start to the body.
func (w *zzvRW) addChunk(start, n int64) {
	if w.fileCalls == 0 {
		w.fileStart = start
	} else if n != 0 && start != w.fileStart+w.fileBytes {
		w.scattered = true
	}
	w.fileCalls++
	w.fileBytes += n
}

// zzvSink receives the body from a composite reader: real bytes (Write) are identified with the file offsets
// they were read from by their value, the file itself (ReadFrom) hands over (offset, count).
type zzvSink struct {
	w    *zzvRW
	f    *zzvFile
	left int64
}

var errZzvSinkFull = errors.New("zzvSink: limit reached")

func (s *zzvSink) Write(b []byte) (int, error) {
	m := int64(len(b))
	short := false
	if m > s.left {
		m = int64(verifrt.Concretize(uint64(s.left)))
		short = true
	}
	if m > 0 {
		off, ok := int64(0), false
		if s.f != nil {
			off, ok = s.f.locate(b[:m])
		}
		if !ok {
			s.w.alien = true
		}
		s.w.addChunk(off, m)
		s.left -= m
	}
	if short {
		return int(m), errZzvSinkFull
	}
	return int(m), nil
}

func (s *zzvSink) ReadFrom(r io.Reader) (int64, error) {
	f, ok := r.(*zzvFile)
	if ns, isNs := r.(*zzhNoSeek); isNs {
		f, ok = ns.f, true
	}
	if !ok {
		panic("zzvSink.ReadFrom: expected the harness file")
	}
	start, n := f.take(s.left)
	s.left -= n
	s.w.addChunk(start, n)
	return n, nil
}

// locate finds the offset at which the file handed out the bytes b (by value, among the recorded reads).
func (f *zzvFile) locate(b []byte) (int64, bool) {
	m := int64(len(b))
	for e := range f.rdPos {
		for d := int64(0); d+m <= f.rdN[e]; d++ {
			match := true
			for j := int64(0); j < m; j++ {
				if b[j] != zzvByteAt(f.rdPos[e]+d+j) {
					match = false
					break
				}
			}
			if match {
				return f.rdPos[e] + d, true
			}
		}
	}
	return 0, false
}

// ---------------------------------------------------------------------------------------------------
// Request grammar.
// ---------------------------------------------------------------------------------------------------

const (
	zzvFormFirstLast = iota // "A-B"
	zzvFormOpen             // "A-"
	zzvFormSuffix           // "-B"
	zzvFormEmpty            // "" (empty list element, skipped)
	zzvFormSpaced           // " A - B " (optional white space, accepted by both parsers)
	zzvFormNoDash           // "A"   malformed
	zzvFormNegEnd           // "A--B" malformed (B >= 1; "-0" is read as 0 by strconv)
	zzvFormDash             // "-"   malformed
	zzvNForms
)

type zzvSpec struct {
	form int
	a, b int64
}

func (s zzvSpec) text(k int) string {
	A, B := zzvTok(2*k), zzvTok(2*k+1)
	switch s.form {
	case zzvFormFirstLast:
		return A + "-" + B
	case zzvFormOpen:
		return A + "-"
	case zzvFormSuffix:
		return "-" + B
	case zzvFormSpaced:
		return " " + A + " - " + B + " "
	case zzvFormEmpty:
		return ""
	case zzvFormNoDash:
		return A
	case zzvFormNegEnd:
		return A + "--" + B
	case zzvFormDash:
		return "-"
	}
	panic("form")
}

func (s zzvSpec) malformed() bool {
	switch s.form {
	case zzvFormNoDash, zzvFormNegEnd, zzvFormDash:
		return true
	case zzvFormFirstLast, zzvFormSpaced:
		return s.a > s.b
	}
	return false
}

// slice is the RFC 7233 meaning of one (well-formed, non-empty) spec on a file of `size` bytes:
// ok=false when it selects nothing (unsatisfiable).
func (s zzvSpec) slice(size int64) (first, last int64, ok bool) {
	switch s.form {
	case zzvFormFirstLast, zzvFormSpaced:
		if s.a >= size {
			return 0, 0, false
		}
		last = s.b
		if last > size-1 {
			last = size - 1
		}
		return s.a, last, true
	case zzvFormOpen:
		if s.a >= size {
			return 0, 0, false
		}
		return s.a, size - 1, true
	case zzvFormSuffix:
		if s.b == 0 || size == 0 {
			return 0, 0, false
		}
		n := s.b
		if n > size {
			n = size
		}
		return size - n, size - 1, true
	}
	return 0, 0, false
}

// zzvRequest is one request drawn from the grammar.
type zzvRequest struct {
	head     bool
	hasRange bool
	badUnit  bool
	specs    []zzvSpec
	ifRange  int    // 0 absent, 1 the strong ETag, 2 another ETag, 3 the ETag as weak validator
	inm      int    // If-None-Match: 0 absent, 1 the ETag, 2 another ETag, 3 "*", 4 the ETag as weak validator, 5 a list containing it
	ifMatch  int    // If-Match: 0 absent, 1 the ETag, 2 another ETag, 3 the ETag as weak validator, 4 "*", 5 a list containing it
	raw      bool   // raw-block pipeline (handler_block.go / handler_codec.go) instead of the UnixFS-file pipeline
	text     string // when set: the literal Range header (HarnessC30Text); specs then hold its reference parse

	// the real handler.serveDefaults over a stub backend (c30_handler.go) instead of the harness composition
	handler bool
	ctSrc   int  // content type from: 0 the file extension, 1 the backend, 2 nowhere (sniffed)
	limits  bool // MaxRangeRequestFileSize, MaxUnixFSDAGResponseSize, MaxDeserializedResponseSize configured (and not exceeded)
}

// zzvETag is the ETag of the response: set by the harness composition, or by the real handler ("<cid>").
var zzvETag = `"abc"`

func (q *zzvRequest) rangeHeader() string {
	if !q.hasRange {
		return ""
	}
	if q.text != "" {
		return q.text
	}
	var sb strings.Builder
	if q.badUnit {
		sb.WriteString("lines=")
	} else {
		sb.WriteString("bytes=")
	}
	for k, s := range q.specs {
		if k > 0 {
			sb.WriteString(",")
		}
		sb.WriteString(s.text(k))
	}
	return sb.String()
}

func (q *zzvRequest) build() *http.Request {
	r := &http.Request{Method: http.MethodGet, Header: http.Header{}, URL: &url.URL{Path: "/ipfs/bafkqaaa"}}
	if q.head {
		r.Method = http.MethodHead
	}
	if h := q.rangeHeader(); h != "" {
		r.Header.Set("Range", h)
	}
	switch q.ifRange {
	case 1:
		r.Header.Set("If-Range", zzvETag)
	case 2:
		r.Header.Set("If-Range", `"xyz"`)
	case 3:
		r.Header.Set("If-Range", "W/"+zzvETag)
	}
	switch q.inm {
	case 1:
		r.Header.Set("If-None-Match", zzvETag)
	case 2:
		r.Header.Set("If-None-Match", `"xyz"`)
	case 3:
		r.Header.Set("If-None-Match", "*")
	case 4:
		r.Header.Set("If-None-Match", "W/"+zzvETag)
	case 5:
		r.Header.Set("If-None-Match", `"xyz", `+zzvETag)
	}
	switch q.ifMatch {
	case 1:
		r.Header.Set("If-Match", zzvETag)
	case 2:
		r.Header.Set("If-Match", `"xyz"`)
	case 3:
		r.Header.Set("If-Match", "W/"+zzvETag)
	case 4:
		r.Header.Set("If-Match", "*")
	case 5:
		r.Header.Set("If-Match", `"xyz" , `+zzvETag)
	}
	return r
}

// zzvDrawSpecs draws nspec range specs; the numbers are symbolic and non-negative.
func zzvDrawSpecs(nspec, nforms int) []zzvSpec {
	specs := make([]zzvSpec, nspec)
	for k := range specs {
		specs[k].form = verifrt.NondetRange("form", 0, nforms-1)
		zzvNum[2*k] = verifrt.NondetI64("a")
		zzvNum[2*k+1] = verifrt.NondetI64("b")
		verifrt.Assume(zzvNum[2*k] >= 0)
		verifrt.Assume(zzvNum[2*k+1] >= 0)
		if lim := zzvLimit(); lim > 0 {
			verifrt.Assume(zzvNum[2*k] < lim)
			verifrt.Assume(zzvNum[2*k+1] < lim)
		}
		specs[k].a, specs[k].b = zzvNum[2*k], zzvNum[2*k+1]
		if specs[k].form == zzvFormNegEnd {
			verifrt.Assume(specs[k].b >= 1)
		}
	}
	return specs
}

// ---------------------------------------------------------------------------------------------------
// Composition, as the product composes the units.
// ---------------------------------------------------------------------------------------------------

const zzvBackendError = 599 // the seek to the first requested range failed (IPFSBackend.Get error / 400 of the raw pipeline)

// zzvWebError stands in for gateway.webError (content negotiation, logging): only the status matters.
func zzvWebError(w http.ResponseWriter, r *http.Request, c *Config, err error, defaultCode int) {
	w.WriteHeader(defaultCode)
	io.WriteString(w, err.Error())
}

// zzvServeUnixFSFile follows serveDefaults -> BlocksBackend.Get -> serveFile -> serveContent for a file.
func zzvServeUnixFSFile(w *zzvRW, r *http.Request, f *zzvFile) {
	w.h.Set("Etag", zzvETag)
	w.h.Set("Content-Type", "application/octet-stream")
	var ranges []ByteRange
	if r.Method == http.MethodGet {
		// handler_defaults.go: serveDefaults, GET
		rangeHeader := r.Header.Get("Range")
		if rangeHeader != "" {
			var err error
			ranges, err = parseRangeWithoutLength(rangeHeader)
			if err != nil {
				w.WriteHeader(http.StatusBadRequest)
				return
			}
		}
		// backend_blocks.go: Get / loadUnixFSFileWithLazyBlocks
		var ra *ByteRange
		if len(ranges) > 0 {
			ra = &ranges[0]
		}
		if err := seekToRangeStart(f, ra, f.size); err != nil {
			w.WriteHeader(zzvBackendError)
			return
		}
	}
	// handler_unixfs_file.go: serveFile
	serveContent(w, r, time.Time{}, f.size, f)
}

// zzvServeRawBlock follows serveRawBlock / serveCodecRaw: seekToStartOfFirstRange, then serveContent.
func zzvServeRawBlock(w *zzvRW, r *http.Request, f *zzvFile) {
	w.h.Set("Etag", zzvETag)
	w.h.Set("Content-Type", rawResponseFormat)
	i := &handler{config: &Config{}}
	if !i.seekToStartOfFirstRange(w, r, f, f.size) {
		return
	}
	serveContent(w, r, time.Time{}, f.size, f)
}

func zzvServe(q *zzvRequest, size int64) *zzvRW {
	f := &zzvFile{size: size}
	w := &zzvRW{h: http.Header{}, file: f}
	if q.handler {
		zzhServeDefaults(w, q, f)
		return w
	}
	if q.raw {
		zzvServeRawBlock(w, q.build(), f)
	} else {
		zzvServeUnixFSFile(w, q.build(), f)
	}
	return w
}

// ---------------------------------------------------------------------------------------------------
// Oracle (RFC 7232 section 6 and RFC 7233, as far as the property states them).
// ---------------------------------------------------------------------------------------------------

// zzvAssertThenAssume checks cond and then continues under it: the later clauses of the oracle are only
// evaluated on inputs that passed the earlier ones (a failure of the earlier clause is reported on its own),
// which hands the solver the facts it has just proved.
func zzvAssertThenAssume(id string, cond bool) {
	verifrt.Assert(id, cond)
	verifrt.Assume(cond)
}

func zzvCheck(q *zzvRequest, size int64, w *zzvRW) {
	code := w.code
	if code == 400 && q.raw && strings.Contains(string(w.text), "could not seek to location") {
		// serve_http_content.go seekToStartOfFirstRange: the seek to the first range failed
		code = zzvBackendError
	}
	if code == 500 && q.handler && strings.Contains(string(w.text), zzhSeekFailed) {
		// the stub backend's Get failed to position the reader at the first range
		code = zzvBackendError
	}
	verifrt.Observe("status", code)
	verifrt.Observe("fileBytes", w.fileBytes)
	verifrt.Observe("fileStart", w.fileStart)

	crKind, crS, crE, crTotal := zzvReadCR(w.crAtHdr)
	cl, hasCL := zzvReadCL(w.clAtHdr)
	verifrt.Observe("crKind", crKind)
	verifrt.Observe("crS", crS)
	verifrt.Observe("crE", crE)
	verifrt.Observe("cl", cl)

	// classification of the request
	malformed := q.hasRange && q.badUnit
	nspec := 0
	anySat := false
	zeroSuffix := false
	if q.hasRange && !q.badUnit {
		for _, s := range q.specs {
			if s.form == zzvFormEmpty {
				continue
			}
			nspec++
			if s.malformed() {
				malformed = true
			}
			if s.form == zzvFormSuffix && s.b == 0 {
				zeroSuffix = true
			}
		}
		// satisfiable well-formed specs (a malformed neighbour makes the whole header malformed, which a
		// server may reject or ignore; if it serves a range nevertheless it must be one of these)
		for _, s := range q.specs {
			if _, _, ok := s.slice(size); ok && !s.malformed() {
				anySat = true
			}
		}
	}
	rangeIgnored := !q.hasRange || (q.ifRange >= 2) || (!malformed && nspec == 0)
	precondFailed := q.ifMatch == 2 || q.ifMatch == 3
	notModified := !precondFailed && (q.inm == 1 || q.inm >= 3)

	verifrt.Assert("C30.status-known", code == 200 || code == 206 || code == 304 || code == 400 || code == 412 || code == 416 || code == zzvBackendError)
	if q.head {
		verifrt.Assert("C30.head-has-no-body", w.fileBytes == 0)
	}
	verifrt.Assert("C30.body-bytes-are-file-bytes", !w.alien)
	verifrt.Assert("C30.body-is-one-contiguous-slice", !w.scattered)
	if code != 200 && code != 206 {
		verifrt.Assert("C30.no-file-bytes-without-2xx", w.fileBytes == 0)
	}

	// A malformed Range header may be rejected up front (400), rejected by the range logic (416) or
	// ignored; nothing else is claimed about it.
	if code == 400 {
		verifrt.Assert("C30.400-only-for-malformed-range", malformed)
		verifrt.Reach("end")
		return
	}
	if code == zzvBackendError {
		// 9110 14.1.2: every well-formed spec has a meaning on every file
		verifrt.Assert("C30.well-formed-range-not-refused", malformed)
		verifrt.Reach("end")
		return
	}

	// preconditions (RFC 7232 section 6)
	verifrt.Assert("C30.412-iff-if-match-fails", (code == 412) == precondFailed)
	verifrt.Assert("C30.304-iff-if-none-match-hits", (code == 304) == notModified)
	if code == 304 || code == 412 {
		verifrt.Reach("end")
		return
	}

	switch code {
	case 206:
		verifrt.Assert("C30.206-has-content-range", crKind == zzvCRRange)
		if crKind != zzvCRRange {
			break
		}
		if crS == size && crE == size-1 && (zeroSuffix || size == 0) {
			// "bytes=-0" (any file) and "bytes=-N" on an empty file select nothing; they are answered as
			// an empty 206 with Content-Range "bytes <size>-<size-1>/<size>" (inherited from net/http).
			verifrt.Assert("C30.206-selects-at-least-one-byte", false)
			verifrt.Reach("end")
			return
		}
		verifrt.Assert("C30.206-only-for-honoured-range", !rangeIgnored && anySat)
		zzvAssertThenAssume("C30.206-range-inside-file", 0 <= crS && crS <= crE && crE < size && crTotal == size)
		match := false
		for _, s := range q.specs {
			if first, last, ok := s.slice(size); ok && !s.malformed() {
				if first == crS && last == crE {
					match = true
				}
			}
		}
		verifrt.Assert("C30.206-range-is-a-requested-slice", match)
		zzvAssertThenAssume("C30.206-content-length", hasCL && cl == crE-crS+1)
		if !q.head {
			zzvAssertThenAssume("C30.206-body-starts-at-range-start", w.fileStart == crS)
			verifrt.Assert("C30.206-body-length", w.fileBytes == cl)
		}
	case 200:
		verifrt.Assert("C30.200-no-content-range", crKind == zzvCRNone)
		verifrt.Assert("C30.200-content-length-is-size", hasCL && cl == size)
		if !q.head {
			verifrt.Assert("C30.200-body-is-whole-file", w.fileBytes == size && (size == 0 || w.fileStart == 0))
		}
	case 416:
		verifrt.Assert("C30.416-only-when-nothing-overlaps", !rangeIgnored && (malformed || !anySat))
		if !malformed {
			verifrt.Assert("C30.416-content-range-star", crKind == zzvCRStarKind && crTotal == size)
		}
	}
	// what must be served
	if malformed {
	} else if rangeIgnored {
		verifrt.Assert("C30.ignored-range-gives-200", code == 200)
	} else {
		if anySat {
			verifrt.Assert("C30.satisfiable-range-is-served", code == 206 || code == 200)
		} else if size > 0 {
			verifrt.Assert("C30.unsatisfiable-range-gives-416", code == 416)
		}
	}
	verifrt.Reach("end")
}

// zzvLimit is the exclusive upper bound of the file size and of the numbers in the header: 2^zzvBits
// (63 = every non-negative int64; lists of three specs use the tier parameter BITS3, see zzvMultiForms).
var zzvBits = 63

func zzvLimit() int64 {
	bits := zzvBits
	if bits >= 63 {
		return -1
	}
	return int64(1) << uint(bits)
}

func zzvSize() int64 {
	size := verifrt.NondetI64("size")
	verifrt.Assume(size >= 0)
	if lim := zzvLimit(); lim > 0 {
		verifrt.Assume(size < lim)
	}
	return size
}

// HarnessC30Single: at most one range spec of every form, If-Range in every state, GET/HEAD, both pipelines;
// file size and numbers symbolic.
func HarnessC30Single() {
	zzvReset()
	q := &zzvRequest{}
	q.raw = verifrt.NondetRange("raw", 0, 1) == 1
	q.head = verifrt.NondetRange("head", 0, 1) == 1
	switch verifrt.NondetRange("shape", 0, 2) {
	case 0: // no Range header
	case 1:
		q.hasRange = true
		q.specs = zzvDrawSpecs(1, zzvNForms)
	case 2:
		q.hasRange, q.badUnit = true, true
		q.specs = zzvDrawSpecs(1, 1)
	}
	q.ifRange = verifrt.NondetRange("ifRange", 0, 3)
	size := zzvSize()
	zzvCheck(q, size, zzvServe(q, size))
}

// HarnessC30Precond: If-Match x If-None-Match in every state, with and without a Range "A-B", GET/HEAD.
func HarnessC30Precond() {
	zzvReset()
	q := &zzvRequest{}
	q.raw = verifrt.NondetRange("raw", 0, 1) == 1
	q.head = verifrt.NondetRange("head", 0, 1) == 1
	if verifrt.NondetRange("shape", 0, 1) == 1 {
		q.hasRange = true
		q.specs = zzvDrawSpecs(1, 1)
	}
	q.inm = verifrt.NondetRange("inm", 0, 5)
	q.ifMatch = verifrt.NondetRange("ifMatch", 0, 5)
	size := zzvSize()
	zzvCheck(q, size, zzvServe(q, size))
}

// zzvMultiForms: lists of two draw from the first FORMS forms, longer lists from the first FORMS3.
func zzvMultiForms(ns int) int {
	f := verifrt.Param("FORMS", zzvNForms)
	zzvBits = 63
	if ns > 2 {
		// the sums of three clipped lengths over full 64-bit numbers stall the solver
		zzvBits = verifrt.Param("BITS3", 63)
		return verifrt.Param("FORMS3", f)
	}
	return f
}

// zzvMultiIfRange: If-Range absent / matching / other for lists of two; absent / other for longer lists
// (a matching If-Range behaves like an absent one, see HarnessC30Single and the lists of two).
func zzvMultiIfRange(ns int) int {
	if ns > 2 {
		return 2 * verifrt.NondetRange("ifRange", 0, 1)
	}
	return verifrt.NondetRange("ifRange", 0, 2)
}

// HarnessC30Multi: lists of 2..NS range specs over the first FORMS forms, If-Range absent/matching/other,
// GET/HEAD, UnixFS-file pipeline.
func HarnessC30Multi() {
	zzvReset()
	q := &zzvRequest{hasRange: true}
	q.head = verifrt.NondetRange("head", 0, 1) == 1
	ns := verifrt.NondetRange("nspec", 2, verifrt.Param("NS", 2))
	q.specs = zzvDrawSpecs(ns, zzvMultiForms(ns))
	q.ifRange = zzvMultiIfRange(ns)
	size := zzvSize()
	zzvCheck(q, size, zzvServe(q, size))
}

// HarnessC30MultiRaw: the same through the raw-block pipeline.
func HarnessC30MultiRaw() {
	zzvReset()
	q := &zzvRequest{hasRange: true, raw: true}
	q.head = verifrt.NondetRange("head", 0, 1) == 1
	ns := verifrt.NondetRange("nspec", 2, verifrt.Param("NS", 2))
	q.specs = zzvDrawSpecs(ns, zzvMultiForms(ns))
	q.ifRange = zzvMultiIfRange(ns)
	size := zzvSize()
	zzvCheck(q, size, zzvServe(q, size))
}

// ---------------------------------------------------------------------------------------------------
// Literal header text: the two parsers of the product against a reference reading of RFC 7233 byte-range-set
// (with the optional white space both parsers accept).
// ---------------------------------------------------------------------------------------------------

func zzvTrim(b []byte) []byte {
	for len(b) > 0 && b[0] == ' ' {
		b = b[1:]
	}
	for len(b) > 0 && b[len(b)-1] == ' ' {
		b = b[:len(b)-1]
	}
	return b
}

// zzvDigits: 1*DIGIT -> value
func zzvDigits(b []byte) (int64, bool) {
	if len(b) == 0 {
		return 0, false
	}
	var v int64
	for _, c := range b {
		if c < '0' || c > '9' {
			return 0, false
		}
		v = v*10 + int64(c-'0')
	}
	return v, true
}

// zzvRefParse reads the byte-range-set after "bytes=".
func zzvRefParse(txt []byte) []zzvSpec {
	var specs []zzvSpec
	start := 0
	for i := 0; i <= len(txt); i++ {
		if i < len(txt) && txt[i] != ',' {
			continue
		}
		el := zzvTrim(txt[start:i])
		start = i + 1
		if len(el) == 0 {
			specs = append(specs, zzvSpec{form: zzvFormEmpty})
			continue
		}
		dash := -1
		for j, c := range el {
			if c == '-' {
				dash = j
				break
			}
		}
		if dash < 0 {
			specs = append(specs, zzvSpec{form: zzvFormNoDash})
			continue
		}
		left, right := zzvTrim(el[:dash]), zzvTrim(el[dash+1:])
		if len(right) > 1 && right[0] == '-' {
			// "A--0": strconv reads "-0" as 0, so the product takes it for "A-0" (assumption shared with the
			// token grammar: not claimed either way)
			if v, ok := zzvDigits(right[1:]); ok {
				verifrt.Assume(v != 0)
			}
		}
		a, aok := zzvDigits(left)
		b, bok := zzvDigits(right)
		switch {
		case len(left) == 0 && bok:
			specs = append(specs, zzvSpec{form: zzvFormSuffix, b: b})
		case aok && len(right) == 0:
			specs = append(specs, zzvSpec{form: zzvFormOpen, a: a})
		case aok && bok:
			specs = append(specs, zzvSpec{form: zzvFormFirstLast, a: a, b: b})
		default:
			specs = append(specs, zzvSpec{form: zzvFormDash}) // malformed
		}
	}
	return specs
}

// HarnessC30Text: Range = "bytes=" + 1..N symbolic bytes over {'0','1','7','-',',',' '}, symbolic file size,
// GET/HEAD, both pipelines.
func HarnessC30Text() {
	zzvReset()
	q := &zzvRequest{hasRange: true}
	q.raw = verifrt.NondetRange("raw", 0, 1) == 1
	q.head = verifrt.NondetRange("head", 0, 1) == 1
	n := verifrt.NondetRange("n", 1, verifrt.Param("N", 3))
	txt := verifrt.NondetBytes("txt", n)
	for i := range txt {
		verifrt.Assume(verifrt.OneOf(txt[i], "017-, "))
	}
	q.text = "bytes=" + string(txt)
	q.specs = zzvRefParse(txt)
	size := zzvSize()
	zzvCheck(q, size, zzvServe(q, size))
}
