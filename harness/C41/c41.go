package filestore

import (
	"context"
	"path/filepath"
	"strings"

	"github.com/ipfs/boxo/filestore/posinfo"
	pb "github.com/ipfs/boxo/filestore/pb"
	"github.com/ipfs/boxo/internal/verifrt"
	cid "github.com/ipfs/go-cid"
	ds "github.com/ipfs/go-datastore"
	ipld "github.com/ipfs/go-ipld-format"
	mh "github.com/multiformats/go-multihash"
	"google.golang.org/protobuf/proto"
)

// zzvNode is a minimal ipld.Node carrying a fixed CID and payload (no hashing involved).
type zzvNode struct {
	ipld.Node
	c    cid.Cid
	data []byte
}

func (n *zzvNode) Cid() cid.Cid    { return n.c }
func (n *zzvNode) RawData() []byte { return n.data }

// zzvPutter records what putTo stores.
type zzvPutter struct {
	key  ds.Key
	data []byte
	n    int
}

func (p *zzvPutter) Put(ctx context.Context, key ds.Key, value []byte) error {
	p.key, p.data = key, value
	p.n++
	return nil
}

// Under the engine proto.Marshal is bound to this stub: the DataObj is remembered instead of encoded.
var zzvLastObj *pb.DataObj

func zzvMarshal(m proto.Message) ([]byte, error) {
	zzvLastObj = m.(*pb.DataObj)
	return []byte{0}, nil
}

func zzvStoredPath(p *zzvPutter) string {
	if verifrt.Symbolic() {
		return zzvLastObj.GetFilePath()
	}
	var d pb.DataObj
	if err := proto.Unmarshal(p.data, &d); err != nil {
		panic(err)
	}
	return d.GetFilePath()
}

func zzvFixedCid() cid.Cid {
	digest := make([]byte, 32)
	digest[0] = 7
	m, err := mh.Encode(digest, mh.SHA2_256)
	if err != nil {
		panic(err)
	}
	return cid.NewCidV1(cid.Raw, m)
}

// HarnessC41PutTo: for every path text over {'/', '.', 'a', 'b'} up to N bytes and both roots, a reference
// accepted by putTo resolves (the way readFileDataObj resolves it) to the root or below it, component-wise.
func HarnessC41PutTo() {
	roots := []string{"/a", "/a/ab"}
	root := roots[verifrt.NondetRange("root", 0, 1)]
	n := verifrt.NondetRange("n", 1, verifrt.Param("N", 7))
	p := verifrt.NondetBytes("p", n)
	for i := range p {
		verifrt.Assume(verifrt.OneOf(p[i], "/.ab"))
	}
	full := string(p)
	fm := &FileManager{AllowFiles: true, root: root}
	rec := &zzvPutter{}
	node := &posinfo.FilestoreNode{Node: &zzvNode{c: zzvFixedCid(), data: []byte{1, 2}}, PosInfo: &posinfo.PosInfo{FullPath: full}}
	err := fm.putTo(context.Background(), node, rec)
	verifrt.Observe("accepted", err == nil)
	if err != nil {
		verifrt.Assert("C41.rejected-stores-nothing", rec.n == 0)
		verifrt.Reach("end")
		return
	}
	rel := zzvStoredPath(rec)
	verifrt.Observe("rel", rel)
	// resolution on read (readFileDataObj)
	resolved := filepath.Join(fm.root, filepath.FromSlash(rel))
	inside := resolved == root || strings.HasPrefix(resolved, root+"/")
	verifrt.Assert("C41.ref-inside-root", inside)
	// and the accepted file itself is inside the root component-wise
	cl := filepath.Clean(full)
	verifrt.Assert("C41.accepted-file-inside-root", cl == root || strings.HasPrefix(cl, root+"/"))
	verifrt.Reach("end")
}
