package provider

import (
	"context"
	"time"

	"github.com/ipfs/boxo/internal/verifrt"
	"github.com/ipfs/boxo/verifcid"
	"github.com/ipfs/go-cid"
	"github.com/ipfs/go-datastore"
	metrics "github.com/ipfs/go-metrics-interface"
	"github.com/multiformats/go-multihash"
)

// zzvCtx is a context that counts Err() calls. Reprovide asks each of its two contexts exactly once per
// iteration of its outer loop, so the count is the number of loop iterations (the ranking observable).
// After `budget` calls it reports cancellation so that a run that would spin forever still returns and the
// iteration-bound assertion can be evaluated (and replayed natively in finite time).
type zzvCtx struct {
	context.Context
	errCalls int
	budget   int
}

func (c *zzvCtx) Err() error {
	c.errCalls++
	if c.budget > 0 && c.errCalls > c.budget {
		return context.Canceled
	}
	return nil
}

// zzvMany is a router with ProvideMany; zzvSingle one without.
type zzvMany struct {
	batches [][]multihash.Multihash
	singles int
}

func (r *zzvMany) Provide(context.Context, cid.Cid, bool) error {
	r.singles++
	return nil
}

func (r *zzvMany) ProvideMany(ctx context.Context, keys []multihash.Multihash) error {
	cp := make([]multihash.Multihash, len(keys))
	copy(cp, keys)
	r.batches = append(r.batches, cp)
	return nil
}

type zzvSingle struct {
	cids []cid.Cid
}

func (r *zzvSingle) Provide(ctx context.Context, c cid.Cid, announce bool) error {
	r.cids = append(r.cids, c)
	return nil
}

// zzvDS records Put/Sync, everything else is unused by Reprovide.
type zzvDS struct {
	datastore.Batching
	puts, syncs int
}

func (d *zzvDS) Put(ctx context.Context, key datastore.Key, value []byte) error {
	d.puts++
	return nil
}

func (d *zzvDS) Sync(ctx context.Context, prefix datastore.Key) error {
	d.syncs++
	return nil
}

// zzvAllow: hash codes with the low bit set are rejected (harness allowlist; the real default allowlist is
// used by HarnessC44DefaultAllowlist).
type zzvAllow struct{}

func (zzvAllow) IsAllowed(code uint64) bool    { return code&1 == 0 }
func (zzvAllow) MinDigestSize(code uint64) int { return 20 }
func (zzvAllow) MaxDigestSize(code uint64) int { return 128 }

// zzvKey builds a CIDv1/raw whose multihash has the given one-byte code, a 32-byte digest and the given
// first digest byte.
func zzvKey(code, id byte) cid.Cid {
	m := make([]byte, 34)
	m[0] = code
	m[1] = 32
	m[2] = id
	return cid.NewCidV1(cid.Raw, multihash.Multihash(m))
}

func zzvNewReprovider(rsys Provide, allow verifcid.Allowlist, kch chan cid.Cid, sctx context.Context) *reprovider {
	mctx := metrics.CtxScope(context.Background(), "provider")
	return &reprovider{
		ctx:              sctx,
		close:            func() {},
		allowlist:        allow,
		rsys:             rsys,
		ds:               &zzvDS{},
		provideCounter:   metrics.NewCtx(mctx, "zzv_provide_count", "x").Counter(),
		reprovideCounter: metrics.NewCtx(mctx, "zzv_reprovide_count", "x").Counter(),
		keyProvider: func(context.Context) (<-chan cid.Cid, error) {
			return kch, nil
		},
	}
}

func zzvMhEq(a, b multihash.Multihash) bool { return string(a) == string(b) }

// HarnessC44Reprovide drives one Reprovide pass over n keys with symbolic batch limit, throughput
// threshold, callback presence and answer.
func HarnessC44Reprovide() {
	N := verifrt.Param("N", 3)
	n := verifrt.NondetRange("n", 0, N)
	many := verifrt.NondetBool("many")
	keys := make([]cid.Cid, n)
	allowed := make([]bool, n)
	kch := make(chan cid.Cid, n+1)
	for i := range keys {
		code := verifrt.NondetU8("code")
		verifrt.Assume(code < 0x80) // one-byte varint
		id := verifrt.NondetU8("id")
		verifrt.Assume(id < 3) // small id space: duplicates are likely
		keys[i] = zzvKey(code, id)
		allowed[i] = code&1 == 0
		kch <- keys[i]
	}
	close(kch)

	var rmany *zzvMany
	var rsingle *zzvSingle
	var rsys Provide
	if many {
		rmany = &zzvMany{}
		rsys = rmany
	} else {
		rsingle = &zzvSingle{}
		rsys = rsingle
	}
	sctx := &zzvCtx{Context: context.Background()}
	s := zzvNewReprovider(rsys, zzvAllow{}, kch, sctx)
	maxBatch := uint(verifrt.NondetU64("maxBatch"))
	thrMin := uint(verifrt.NondetU64("thrMin"))
	s.maxReprovideBatchSize = maxBatch
	s.throughputMinimumProvides = thrMin
	hasCb := verifrt.NondetBool("hasCb")
	cbCalls := 0
	cbSum := uint(0)
	if hasCb {
		s.throughputCallback = func(reprovide, complete bool, total uint, dur time.Duration) bool {
			cbCalls++
			cbSum += total
			verifrt.Assert("C44.callback-threshold", total >= thrMin)
			verifrt.Assert("C44.callback-reprovide-flag", reprovide)
			return verifrt.NondetBool("cbMore")
		}
	}
	ctx := &zzvCtx{Context: context.Background(), budget: n + 3}
	err := s.Reprovide(ctx)
	iters := ctx.errCalls
	verifrt.Observe("iters", iters)
	verifrt.Observe("err", err == nil)

	// effective per-iteration read size according to the documentation of the two options
	eff := maxBatch
	if hasCb && thrMin < eff {
		eff = thrMin
	}
	// termination: every iteration but the last consumes eff keys, so iterations <= n/eff + 1; with a
	// configured size of 0 any finite reading is accepted as long as the pass ends within n+1 iterations.
	if eff > 0 {
		verifrt.Assert("C44.iterations-bounded", uint(iters-1) <= uint(n)/eff)
	} else {
		verifrt.Assert("C44.iterations-bounded-zero-batch", iters <= n+1)
	}
	verifrt.Assert("C44.returns-nil", err == nil)
	if err != nil {
		verifrt.Reach("end")
		return
	}

	// collect what was announced
	var ann []multihash.Multihash
	if many {
		verifrt.Assert("C44.many-router-uses-provide-many", rmany.singles == 0)
		for _, b := range rmany.batches {
			verifrt.Assert("C44.no-empty-batch", len(b) > 0)
			if maxBatch > 0 {
				verifrt.Assert("C44.batch-le-max", uint(len(b)) <= maxBatch)
			}
			if hasCb && thrMin > 0 {
				verifrt.Assert("C44.batch-le-throughput-minimum", uint(len(b)) <= thrMin)
			}
			ann = append(ann, b...)
		}
	} else {
		for _, c := range rsingle.cids {
			verifrt.Assert("C44.single-provide-cidv1-raw", c.Version() == 1 && c.Type() == cid.Raw)
			ann = append(ann, c.Hash())
		}
	}
	verifrt.Observe("announced", len(ann))
	for i := range keys {
		found := false
		for _, a := range ann {
			if zzvMhEq(a, keys[i].Hash()) {
				found = true
			}
		}
		if allowed[i] {
			verifrt.Assert("C44.allowed-key-announced", found)
		} else {
			verifrt.Assert("C44.rejected-key-not-announced", !found)
		}
	}
	for _, a := range ann {
		known := false
		for i := range keys {
			if allowed[i] && zzvMhEq(a, keys[i].Hash()) {
				known = true
			}
		}
		verifrt.Assert("C44.announced-is-an-allowed-input-key", known)
	}
	if hasCb {
		verifrt.Assert("C44.callback-total-le-announced", cbSum <= uint(len(ann)))
	}
	verifrt.Reach("end")
}

// zzvStream is a KeyChanFunc over a fixed list.
func zzvStream(ks []cid.Cid) KeyChanFunc {
	return func(context.Context) (<-chan cid.Cid, error) {
		ch := make(chan cid.Cid, len(ks)+1)
		for _, k := range ks {
			ch <- k
		}
		close(ch)
		return ch, nil
	}
}

// HarnessC44Prioritized: S streams of up to K keys over a small id space; the prioritized provider emits
// every key and does not repeat, from a later stream, a key an earlier stream already emitted.
func HarnessC44Prioritized() {
	S := verifrt.Param("S", 2)
	K := verifrt.Param("K", 2)
	ns := verifrt.NondetRange("streams", 1, S)
	streams := make([][]cid.Cid, ns)
	fns := make([]KeyChanFunc, ns)
	for i := range streams {
		k := verifrt.NondetRange("len", 0, K)
		streams[i] = make([]cid.Cid, k)
		for j := range streams[i] {
			id := verifrt.NondetU8("id")
			verifrt.Assume(id < 3)
			streams[i][j] = zzvKey(0x12, id)
		}
		fns[i] = zzvStream(streams[i])
	}
	ch, err := NewPrioritizedProvider(fns...)(context.Background())
	verifrt.Assert("C44.prio-no-error", err == nil)
	var out []cid.Cid
	for c := range ch {
		out = append(out, c)
	}
	verifrt.Observe("outlen", len(out))
	count := func(list []cid.Cid, c cid.Cid) int {
		k := 0
		for _, x := range list {
			if x == c {
				k++
			}
		}
		return k
	}
	for i := range streams {
		for _, c := range streams[i] {
			verifrt.Assert("C44.prio-every-key-emitted", count(out, c) >= 1)
			// first stream that carries c
			first := i
			for p := i - 1; p >= 0; p-- {
				if count(streams[p], c) > 0 {
					first = p
				}
			}
			// later streams must not emit it again: the output carries it at most as often as its first stream
			verifrt.Assert("C44.prio-suppressed-in-later-streams", count(out, c) <= count(streams[first], c))
		}
	}
	for _, c := range out {
		in := 0
		for i := range streams {
			in += count(streams[i], c)
		}
		verifrt.Assert("C44.prio-only-input-keys", in > 0)
	}
	// order: the keys of stream 0 come first, in order (minus repeats)
	if ns > 0 && len(streams[0]) > 0 && len(out) > 0 {
		verifrt.Assert("C44.prio-first-key-first", out[0] == streams[0][0])
	}
	verifrt.Reach("end")
}

// HarnessC44DefaultAllowlist: the same pass with the real default allowlist and concrete key kinds
// (allowed: sha2-256/32, sha2-512/64, identity/4; rejected: murmur3-x64-64, sha2-256 truncated to 16 bytes).
func HarnessC44DefaultAllowlist() {
	N := verifrt.Param("N", 2)
	n := verifrt.NondetRange("n", 1, N)
	type kind struct {
		code byte
		dlen int
		ok   bool
	}
	kinds := []kind{{0x12, 32, true}, {0x22, 32, false}, {0x12, 16, false}, {0x00, 4, true}, {0x13, 64, true}}
	keys := make([]cid.Cid, n)
	allowed := make([]bool, n)
	kch := make(chan cid.Cid, n+1)
	for i := range keys {
		k := kinds[verifrt.NondetRange("kind", 0, len(kinds)-1)]
		m := make([]byte, 2+k.dlen)
		m[0] = k.code
		m[1] = byte(k.dlen)
		m[2] = verifrt.NondetU8("id")
		keys[i] = cid.NewCidV1(cid.Raw, multihash.Multihash(m))
		allowed[i] = k.ok
		kch <- keys[i]
	}
	close(kch)
	r := &zzvMany{}
	s := zzvNewReprovider(r, verifcid.DefaultAllowlist, kch, &zzvCtx{Context: context.Background()})
	s.maxReprovideBatchSize = uint(verifrt.NondetU64("maxBatch"))
	verifrt.Assume(s.maxReprovideBatchSize > 0)
	ctx := &zzvCtx{Context: context.Background(), budget: n + 3}
	err := s.Reprovide(ctx)
	verifrt.Assert("C44.default-returns-nil", err == nil)
	var ann []multihash.Multihash
	for _, b := range r.batches {
		verifrt.Assert("C44.default-batch-le-max", uint(len(b)) <= s.maxReprovideBatchSize)
		ann = append(ann, b...)
	}
	verifrt.Observe("announced", len(ann))
	for i := range keys {
		found := false
		for _, a := range ann {
			if zzvMhEq(a, keys[i].Hash()) {
				found = true
			}
		}
		if allowed[i] {
			verifrt.Assert("C44.default-allowed-key-announced", found)
		} else {
			verifrt.Assert("C44.default-rejected-key-not-announced", !found)
		}
	}
	verifrt.Reach("end")
}
