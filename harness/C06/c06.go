package chunk

import (
	"bytes"
	"io"
	"math/bits"
	"strconv"

	"github.com/ipfs/boxo/internal/verifrt"
)

// zzvReader yields the bytes of data in fragments whose sizes are chosen nondeterministically
// (frag=true) or in one piece, optionally returning io.EOF together with the last data.
type zzvReader struct {
	data    []byte
	off     int
	frag    bool
	eofWith bool
	reads   int
}

func (r *zzvReader) Read(p []byte) (int, error) {
	r.reads++
	rem := len(r.data) - r.off
	if rem == 0 {
		return 0, io.EOF
	}
	n := rem
	if n > len(p) {
		n = len(p)
	}
	if r.frag && n > 1 {
		n = verifrt.NondetRange("frag", 1, n)
	}
	copy(p, r.data[r.off:r.off+n])
	r.off += n
	if r.eofWith && r.off == len(r.data) {
		return n, io.EOF
	}
	return n, nil
}

func zzvDrain(s Splitter, maxChunks int) (chunks [][]byte, err error) {
	for i := 0; i <= maxChunks; i++ {
		var c []byte
		c, err = s.NextBytes()
		if err != nil {
			return
		}
		chunks = append(chunks, c)
	}
	verifrt.Assert("C06.terminates", false)
	return
}

func zzvCheckLossless(id string, chunks [][]byte, in []byte) {
	total := 0
	for _, c := range chunks {
		verifrt.Assert("C06."+id+".no-empty-chunk", len(c) > 0)
		total += len(c)
	}
	verifrt.Assert("C06."+id+".total-length", total == len(in))
	if total != len(in) {
		return
	}
	var cat []byte
	for _, c := range chunks {
		cat = append(cat, c...)
	}
	same := bytes.Equal(cat, in)
	verifrt.Assert("C06."+id+".concat-equals-input", same)
}

// HarnessC06Size: fixed-size splitter, every input of length 0..L, every size 1..S, every fragmentation.
func HarnessC06Size() {
	L := verifrt.NondetRange("len", 0, verifrt.Param("L", 6))
	sz := verifrt.NondetRange("size", 1, verifrt.Param("S", 3))
	in := verifrt.NondetBytes("in", L)
	r := &zzvReader{data: in, frag: true, eofWith: verifrt.NondetRange("eofWith", 0, 1) == 1}
	s := NewSizeSplitter(r, int64(sz))
	chunks, err := zzvDrain(s, L+1)
	verifrt.Assert("C06.size.ends-with-EOF", err == io.EOF)
	zzvCheckLossless("size", chunks, in)
	for i, c := range chunks {
		verifrt.Assert("C06.size.max", len(c) <= sz)
		if i < len(chunks)-1 {
			verifrt.Assert("C06.size.all-but-last-full", len(c) == sz)
		}
	}
	// the number of chunks is determined by the input alone
	want := (L + sz - 1) / sz
	verifrt.Assert("C06.size.boundaries-independent-of-fragmentation", len(chunks) == want)
	// EOF is sticky
	c, err2 := s.NextBytes()
	verifrt.Assert("C06.size.eof-sticky", c == nil && err2 == io.EOF)
	verifrt.Observe("nchunks", len(chunks))
	verifrt.Reach("end")
}

// HarnessC06Realloc: reallocChunk keeps the first n bytes, never returns more than maxOverAllocBytes of slack.
func HarnessC06Realloc() {
	ns := []int{1, 2, 3, 1023, 1024, 1025, 2047, 2048, 2049, 3071, 3072, 3073, 4096, 4097, 65535, 65536, 65537}
	ds := []int{0, 1, 1023, 1024, 1025, 1026, 4000, 70000}
	n := ns[verifrt.NondetRange("ni", 0, len(ns)-1)]
	c := n + ds[verifrt.NondetRange("di", 0, len(ds)-1)]
	full := make([]byte, c)
	a, b, z := verifrt.NondetU8("a"), verifrt.NondetU8("b"), verifrt.NondetU8("z")
	full[0], full[n/2], full[n-1] = a, b, z
	if n/2 == 0 {
		a = b
	}
	if n-1 == n/2 {
		b = z
	}
	if n-1 == 0 {
		a = z
	}
	res := reallocChunk(full, n)
	verifrt.Assert("C06.realloc.len", len(res) == n)
	verifrt.Assert("C06.realloc.cap", cap(res) >= n)
	verifrt.Assert("C06.realloc.slack-bounded", cap(res)-n <= maxOverAllocBytes)
	verifrt.Assert("C06.realloc.content", res[0] == a && res[n/2] == b && res[n-1] == z)
	verifrt.Assert("C06.realloc.empty", reallocChunk(make([]byte, 8), 0) == nil)
	verifrt.Observe("cap", cap(res))
	verifrt.Reach("end")
}

// zzvWindowHash is the Buzhash of the 32 bytes b[j-32:j], computed from scratch (reference).
func zzvWindowHash(b []byte, j int) uint32 {
	var h uint32
	for k := 0; k < 32; k++ {
		h ^= bits.RotateLeft32(bytehash[b[j-32+k]], 31-k)
	}
	return h
}

// HarnessC06Buzhash: input of length buzMin+d; only the bytes that can influence a cut (the last 32+d+1) are
// symbolic, the prefix is zero (it is copied, never hashed: the rolling loop starts at buzMin-32).
func HarnessC06Buzhash() {
	D := verifrt.Param("D", 3)
	d := verifrt.NondetRange("d", -1, D)
	L := buzMin + d
	in := make([]byte, L)
	nsym := 32 + D + 1
	if nsym > L {
		nsym = L
	}
	sym := verifrt.NondetBytes("w", nsym)
	copy(in[L-nsym:], sym)
	r := &zzvReader{data: in, frag: verifrt.NondetRange("fragmented", 0, 1) == 1, eofWith: verifrt.NondetRange("eofWith", 0, 1) == 1}
	if r.frag {
		// two fragments: split point anywhere interesting (start, middle of the window, near the end)
		r.frag = false
		cut := []int{1, buzMin - 32, buzMin - 1, buzMin, buzMin + 1, L - 1}[verifrt.NondetRange("cutAt", 0, 5)]
		if cut < 1 || cut >= L {
			cut = 1
		}
		r = &zzvReader{data: in, eofWith: r.eofWith}
		s := NewBuzhash(&zzvTwoPart{inner: r, first: cut})
		zzvBuzCheck(s, in, d)
		return
	}
	s := NewBuzhash(r)
	zzvBuzCheck(s, in, d)
}

type zzvTwoPart struct {
	inner *zzvReader
	first int
	done  bool
}

func (t *zzvTwoPart) Read(p []byte) (int, error) {
	if !t.done {
		t.done = true
		if len(p) > t.first {
			p = p[:t.first]
		}
	}
	return t.inner.Read(p)
}

func zzvBuzCheck(s *Buzhash, in []byte, d int) {
	L := len(in)
	chunks, err := zzvDrain(s, 3)
	verifrt.Assert("C06.buz.ends-with-EOF", err == io.EOF)
	zzvCheckLossless("buz", chunks, in)
	// reference cut: first j >= buzMin with hash(window ending at j) & mask == 0, else the whole input
	want := L
	if L >= buzMin {
		for j := buzMin; j < L; j++ {
			if zzvWindowHash(in, j)&buzMask == 0 {
				want = j
				break
			}
		}
	}
	if len(chunks) > 0 {
		verifrt.Assert("C06.buz.first-cut-is-reference-cut", len(chunks[0]) == want)
	}
	for i, c := range chunks {
		verifrt.Assert("C06.buz.max", len(c) <= buzMax)
		if i < len(chunks)-1 {
			verifrt.Assert("C06.buz.min", len(c) >= buzMin)
		}
	}
	verifrt.Observe("n", len(chunks))
	verifrt.Reach("end")
}

// HarnessC06ParseSize: "size-<digits>" with 1..8 symbolic decimal digits: accepted iff 0 < N <= ChunkSizeLimit,
// and the splitter then really uses N.
func HarnessC06ParseSize() {
	nd := verifrt.NondetRange("ndigits", 1, verifrt.Param("DIG", 8))
	dg := verifrt.NondetBytes("dg", nd)
	val := 0
	for i := range dg {
		verifrt.Assume(dg[i] >= '0' && dg[i] <= '9')
		val = val*10 + int(dg[i]-'0')
	}
	s, err := FromString(&zzvReader{}, "size-"+string(dg))
	ok := val > 0 && val <= ChunkSizeLimit
	verifrt.Assert("C06.parse.size.accept-iff-in-range", (err == nil) == ok)
	if err == nil {
		ss, isSize := s.(*sizeSplitterv2)
		verifrt.Assert("C06.parse.size.kind", isSize)
		if isSize {
			verifrt.Assert("C06.parse.size.value", int(ss.size) == val)
		}
	}
	verifrt.Observe("ok", err == nil)
	verifrt.Reach("end")
}

// Under the engine NewRabinMinMax is bound to this stub (the third-party rolling-polynomial chunker is outside
// the claim): the parameters are recorded.
var zzvRabinArgs [3]uint64
var zzvRabinCalled bool

func zzvNewRabinMinMax(r io.Reader, min, avg, max uint64) *Rabin {
	zzvRabinArgs = [3]uint64{min, avg, max}
	zzvRabinCalled = true
	return &Rabin{reader: r}
}

// zzvRabinParams returns the (min, max) a Rabin splitter was built with: recorded by the stub under the engine,
// read back from the third-party chunker natively.
func zzvRabinParams(s Splitter) (min, max uint64, ok bool) {
	if verifrt.Symbolic() {
		return zzvRabinArgs[0], zzvRabinArgs[2], zzvRabinCalled
	}
	r, isR := s.(*Rabin)
	if !isR || r.r == nil {
		return 0, 0, false
	}
	return r.r.MinSize, r.r.MaxSize, true
}

// HarnessC06ParseRabin3: "rabin-<min>-<avg>-<max>" (optionally labelled) with symbolic 1..7 digit numbers.
func HarnessC06ParseRabin3() {
	var vals [3]int
	spec := "rabin"
	labels := []string{"min:", "avg:", "max:"}
	labelled := verifrt.NondetRange("labelled", 0, 1) == 1
	for k := 0; k < 3; k++ {
		nd := verifrt.NondetRange("nd", 1, verifrt.Param("DIG", 7))
		dg := verifrt.NondetBytes("dg", nd)
		v := 0
		for i := range dg {
			verifrt.Assume(dg[i] >= '0' && dg[i] <= '9')
			v = v*10 + int(dg[i]-'0')
		}
		vals[k] = v
		spec += "-"
		if labelled {
			spec += labels[k]
		}
		spec += string(dg)
	}
	zzvRabinCalled = false
	sp, err := FromString(&zzvReader{}, spec)
	min, avg, max := vals[0], vals[1], vals[2]
	ok := min >= 16 && min < avg && avg < max && max <= ChunkSizeLimit
	verifrt.Assert("C06.parse.rabin3.accept-iff-valid", (err == nil) == ok)
	if err == nil {
		gmin, gmax, got := zzvRabinParams(sp)
		verifrt.Assert("C06.parse.rabin3.params-passed-through", got && gmin == uint64(min) && gmax == uint64(max))
		if verifrt.Symbolic() {
			verifrt.Assert("C06.parse.rabin3.avg-passed-through", zzvRabinArgs[1] == uint64(avg))
		}
	}
	verifrt.Observe("ok", err == nil)
	verifrt.Reach("end")
}

// HarnessC06ParseRabin1: "rabin-<N>" at boundary values (the float32 *1.5 test is concrete per value).
func HarnessC06ParseRabin1() {
	lim := ChunkSizeLimit
	ns := []int{0, 1, 2, 3, 16, 47, 48, 49, 1024, 262144, lim*2/3 - 2, lim*2/3 - 1, lim * 2 / 3, lim*2/3 + 1, lim*2/3 + 2, lim - 1, lim, lim + 1, 1 << 24, 1<<24 + 1, 1 << 30}
	n := ns[verifrt.NondetRange("ni", 0, len(ns)-1)]
	zzvRabinCalled = false
	sp, err := FromString(&zzvReader{}, "rabin-"+strconv.Itoa(n))
	if err == nil {
		min, max, got := zzvRabinParams(sp)
		verifrt.Assert("C06.parse.rabin1.derived", got && min == uint64(n)/3 && max == uint64(n)+uint64(n)/2)
		verifrt.Assert("C06.parse.rabin1.max-within-limit", max <= uint64(ChunkSizeLimit))
		if verifrt.Symbolic() {
			verifrt.Assert("C06.parse.rabin1.avg", zzvRabinArgs[1] == uint64(n))
		}
	}
	if n+n/2 > ChunkSizeLimit {
		verifrt.Assert("C06.parse.rabin1.reject-too-large", err != nil)
	}
	verifrt.Observe("ok", err == nil)
	verifrt.Reach("end")
}

// HarnessC06ParseOther: default / buzhash / junk forms.
func HarnessC06ParseOther() {
	specs := []string{"", "default", "buzhash", "rabin", "size", "size-", "size-1-2", "rabin-1-2", "rabin-a", "nosuch-1", "size-x", "rabin-16-32", "rabin-min:16-avg:32-mix:64", "rabin-avg:16-32-64"}
	i := verifrt.NondetRange("i", 0, len(specs)-1)
	s, err := FromString(&zzvReader{}, specs[i])
	wantOK := i <= 3
	verifrt.Assert("C06.parse.other.accept", (err == nil) == wantOK)
	if err == nil {
		verifrt.Assert("C06.parse.other.non-nil", s != nil)
	}
	if i <= 1 && err == nil {
		ss, ok := s.(*sizeSplitterv2)
		verifrt.Assert("C06.parse.default-size", ok && int64(ss.size) == DefaultBlockSize)
	}
	verifrt.Observe("ok", err == nil)
	verifrt.Reach("end")
}
