package messagequeue

import (
	"time"

	bswl "github.com/ipfs/boxo/bitswap/client/wantlist"
	pb "github.com/ipfs/boxo/bitswap/message/pb"
	"github.com/ipfs/boxo/internal/verifrt"
	cid "github.com/ipfs/go-cid"
	mh "github.com/multiformats/go-multihash"
)

// ---------------------------------------------------------------------------------------------------------
// C35 / T1: the two-list ("pending" / "sent") bookkeeping of one recallWantlist as an inductive step.
// Pre-state: ANY pending list, sent list and sentAt map over a pool of two CIDs (built through the public
// Wantlist API: presence per CID is a shape, priority and want type are symbolic; the Entries() memo is either
// populated or not), then ONE operation with symbolic arguments, then the complete post-state is compared with
// the reference model "a list holds, per CID, the strongest type requested since the last removal":
//    strength(none)=0 < strength(want-have)=1 < strength(want-block)=2
//    add(c,t)        : replaces the entry iff strength(t) > strength(cur)
//    removeType(c,t) : removes the entry iff it is present and strength(cur) <= strength(t)
// The convergence argument of C35 rests on the derived clause "want-preserved": markSent and refresh never
// change max(strength(pending(c)), strength(sent(c))) for any c (no want is lost or weakened by bookkeeping).
// ---------------------------------------------------------------------------------------------------------

const zz35Pool = 2

func zz35Cid(i int) cid.Cid {
	d := make([]byte, 32)
	d[0] = byte(i + 1)
	d[31] = 0xC3
	m, err := mh.Encode(d, mh.SHA2_256)
	if err != nil {
		panic(err)
	}
	return cid.NewCidV1(cid.Raw, m)
}

type zz35Want struct {
	has  bool
	prio int32
	typ  pb.Message_Wantlist_WantType
}

type zz35List [zz35Pool]zz35Want

func zz35Strength(w zz35Want) int {
	if !w.has {
		return 0
	}
	if w.typ == pb.Message_Wantlist_Block {
		return 2
	}
	return 1
}

func zz35TypeStrength(t pb.Message_Wantlist_WantType) int {
	if t == pb.Message_Wantlist_Block {
		return 2
	}
	return 1
}

func (l *zz35List) add(i int, p int32, t pb.Message_Wantlist_WantType) bool {
	if zz35TypeStrength(t) > zz35Strength(l[i]) {
		l[i] = zz35Want{has: true, prio: p, typ: t}
		return true
	}
	return false
}

func (l *zz35List) removeType(i int, t pb.Message_Wantlist_WantType) bool {
	if l[i].has && zz35Strength(l[i]) <= zz35TypeStrength(t) {
		l[i] = zz35Want{}
		return true
	}
	return false
}

func (l *zz35List) count() int {
	n := 0
	for i := range l {
		if l[i].has {
			n++
		}
	}
	return n
}

type zz35SentAt [zz35Pool]struct {
	has bool
	off int64
}

func zz35Type(name string) pb.Message_Wantlist_WantType {
	t := pb.Message_Wantlist_WantType(verifrt.NondetI32(name))
	verifrt.Assume(t == pb.Message_Wantlist_Block || t == pb.Message_Wantlist_Have)
	return t
}

// zz35BuildList builds an arbitrary want-list over the pool through the public API.
func zz35BuildList(name string, cids []cid.Cid, only int) (*bswl.Wantlist, zz35List) {
	wl := bswl.New()
	var m zz35List
	for i := range cids {
		if only >= 0 && i != only {
			continue
		}
		if verifrt.NondetRange(name+"_has", 0, 1) == 1 {
			p := verifrt.NondetI32(name + "_prio")
			t := zz35Type(name + "_type")
			wl.Add(cids[i], p, t)
			m[i] = zz35Want{has: true, prio: p, typ: t}
		}
	}
	return wl, m
}

// zz35CheckList compares one real list with its model through every read accessor.
func zz35CheckList(tag string, wl *bswl.Wantlist, m *zz35List, cids []cid.Cid) {
	for i, c := range cids {
		e, ok := wl.Get(c)
		verifrt.Assert("C35.T1."+tag+".presence", ok == m[i].has)
		verifrt.Assert("C35.T1."+tag+".has-agrees-with-get", wl.Has(c) == ok)
		if ok && m[i].has {
			verifrt.Assert("C35.T1."+tag+".cid", e.Cid == c)
			verifrt.Assert("C35.T1."+tag+".type", e.WantType == m[i].typ)
			verifrt.Assert("C35.T1."+tag+".priority", e.Priority == m[i].prio)
		}
	}
	verifrt.Assert("C35.T1."+tag+".len", wl.Len() == m.count())
	es := wl.Entries()
	verifrt.Assert("C35.T1."+tag+".entries-len", len(es) == m.count())
	for k, e := range es {
		if k > 0 {
			verifrt.Assert("C35.T1."+tag+".entries-sorted", es[k-1].Priority >= e.Priority)
		}
		found := false
		for i, c := range cids {
			if e.Cid == c {
				found = true
				verifrt.Assert("C35.T1."+tag+".entries-stale", m[i].has)
				if m[i].has {
					verifrt.Assert("C35.T1."+tag+".entries-type", e.WantType == m[i].typ)
					verifrt.Assert("C35.T1."+tag+".entries-priority", e.Priority == m[i].prio)
				}
			}
		}
		verifrt.Assert("C35.T1."+tag+".entries-known-cid", found)
		for k2 := 0; k2 < k; k2++ {
			verifrt.Assert("C35.T1."+tag+".entries-distinct", es[k2].Cid != e.Cid)
		}
	}
}

func zz35Max(a, b int) int {
	if a > b {
		return a
	}
	return b
}

// HarnessC35Lists: one operation on an arbitrary recallWantlist state.
func HarnessC35Lists() {
	cids := []cid.Cid{zz35Cid(0), zz35Cid(1)}
	base := time.Unix(1_700_000_000, 0)
	// Times are concrete (time.Time arithmetic divides by 1e9, which stalls the solver on symbolic operands):
	// send times are 0 s or 5 s after base, "now" is 10 s after base, the interval ranges over
	// {0, 5, 6, 10, 11} s, i.e. below / at / above each possible age.

	// OTHER=1: the CID not touched by the operation is in an arbitrary state too (frame condition);
	// OTHER=0: only the operated CID is populated.
	other := verifrt.Param("OTHER", 1)
	op := verifrt.NondetRange("op", 0, 8)
	target := verifrt.NondetRange("target", 0, zz35Pool-1)
	only := -1
	if other == 0 {
		only = target
	}

	pending, mp := zz35BuildList("pend", cids, only)
	sent, ms := zz35BuildList("sent", cids, only)
	r := recallWantlist{pending: pending, sent: sent, sentAt: make(map[cid.Cid]time.Time)}
	var mat zz35SentAt
	for i, c := range cids {
		if only >= 0 && i != only {
			continue
		}
		if verifrt.NondetRange("sentAt_has", 0, 1) == 1 {
			off := int64(0)
			if op == 4 {
				off = int64(verifrt.NondetRange("sentAt_off", 0, 1)) * int64(5*time.Second)
			}
			r.sentAt[c] = base.Add(time.Duration(off))
			mat[i].has, mat[i].off = true, off
		}
	}
	// the memoised Entries() slice is either populated or not before the operation
	if verifrt.NondetRange("memo", 0, 1) == 1 {
		_ = r.pending.Entries()
		_ = r.sent.Entries()
	}

	var before [zz35Pool]int
	for i := range cids {
		before[i] = zz35Max(zz35Strength(mp[i]), zz35Strength(ms[i]))
	}

	c := cids[target]
	prio := verifrt.NondetI32("arg_prio")
	typ := zz35Type("arg_type")
	checkSentAt := true
	preserves := false

	switch op {
	case 0: // add: pending only
		r.add(c, prio, typ)
		mp.add(target, prio, typ)
	case 1: // remove: both lists and the timestamp
		r.remove(c)
		mp[target] = zz35Want{}
		ms[target] = zz35Want{}
		mat[target].has = false
	case 2: // removeType: both lists, type-respecting; timestamp dropped iff no longer in sent
		r.removeType(c, typ)
		mp.removeType(target, typ)
		ms.removeType(target, typ)
		if !ms[target].has {
			mat[target].has = false
		}
	case 3: // markSent: pending -> sent, only if still pending with a type the entry may stand for
		got := r.markSent(bswl.Entry{Cid: c, Priority: prio, WantType: typ})
		want := mp.removeType(target, typ)
		if want {
			ms.add(target, prio, typ)
		}
		verifrt.Assert("C35.T1.markSent.result", got == want)
		verifrt.Observe("markSent", got)
		// the message being marked carried (c, typ): afterwards the want is tracked at least that strongly
		if got {
			verifrt.Assert("C35.T1.markSent.sent-covers-message", zz35Strength(ms[target]) >= zz35TypeStrength(typ))
		}
		preserves = true
	case 4: // refresh: sent wants with an expired timestamp go back to pending
		nowOff := int64(10 * time.Second)
		interval := int64([]time.Duration{0, 5 * time.Second, 6 * time.Second, 10 * time.Second, 11 * time.Second}[verifrt.NondetRange("interval", 0, 4)])
		got := r.refresh(base.Add(time.Duration(nowOff)), time.Duration(interval))
		want := 0
		for i := range cids {
			if ms[i].has && mat[i].has && nowOff-mat[i].off >= interval {
				// the want is pending again; whether the sent list keeps a record of it meanwhile is left
				// open (both are consistent with "the peer may still hold it"), anything else is not
				mp.add(i, ms[i].prio, ms[i].typ)
				if !r.sent.Has(cids[i]) {
					ms[i] = zz35Want{}
				}
				want++
			}
		}
		verifrt.Assert("C35.T1.refresh.count", got == want)
		verifrt.Observe("refreshed", got)
		checkSentAt = false // what refresh does with the timestamps is not part of the claim
		preserves = true
	case 5: // setSentAt: first send time of a want that is (still) in sent
		off := int64(7 * time.Second)
		r.setSentAt(c, base.Add(time.Duration(off)))
		if ms[target].has && !mat[target].has {
			mat[target].has, mat[target].off = true, off
		}
		preserves = true
	case 6: // clearSentAt
		r.clearSentAt(c)
		mat[target].has = false
		preserves = true
	case 7: // Wantlist.Add result
		got := r.pending.Add(c, prio, typ)
		want := mp.add(target, prio, typ)
		verifrt.Assert("C35.T1.Add.result", got == want)
		verifrt.Observe("added", got)
	case 8: // Wantlist.RemoveType result
		got := r.pending.RemoveType(c, typ)
		want := mp.removeType(target, typ)
		verifrt.Assert("C35.T1.RemoveType.result", got == want)
		verifrt.Observe("removed", got)
	}

	zz35CheckList("pending", r.pending, &mp, cids)
	zz35CheckList("sent", r.sent, &ms, cids)
	if checkSentAt {
		for i, ci := range cids {
			at, ok := r.sentAt[ci]
			verifrt.Assert("C35.T1.sentAt.presence", ok == mat[i].has)
			if ok && mat[i].has {
				verifrt.Assert("C35.T1.sentAt.value", at.Equal(base.Add(time.Duration(mat[i].off))))
			}
		}
	}
	if preserves {
		for i := range cids {
			after := zz35Max(zz35Strength(mp[i]), zz35Strength(ms[i]))
			// and the real lists agree with that (independent of the per-list comparison above)
			pe, pok := r.pending.Get(cids[i])
			se, sok := r.sent.Get(cids[i])
			real := zz35Max(zz35Strength(zz35Want{has: pok, typ: pe.WantType}), zz35Strength(zz35Want{has: sok, typ: se.WantType}))
			verifrt.Assert("C35.T1.model-agrees", real == after)
			if op == 3 && i == target {
				// markSent of a message entry (c, typ): the tracked want is never weakened, and it is raised
				// at most to the type that message carried (the receiver then holds it that strongly)
				verifrt.Assert("C35.T1.want-not-weakened", real >= before[i])
				verifrt.Assert("C35.T1.want-not-invented", real <= zz35Max(before[i], zz35TypeStrength(typ)) && (before[i] > 0 || real == 0))
			} else {
				verifrt.Assert("C35.T1.want-preserved", real == before[i])
			}
		}
	}
	verifrt.Reach("end")
}
