package messagequeue

import (
	"sync"
	"time"

	"github.com/ipfs/boxo/internal/verifrt"
)

// ---------------------------------------------------------------------------------------------------------
// C35 / T2 (scheduler exploration): the same queue, fakes and oracle as HarnessC35Queue, but the producers are
// real goroutines and the interleaving is chosen by the engine's exploring scheduler (pre-emption at every
// synchronisation point: each wllock acquisition - in particular those around the lock-free window of
// extractOutgoingMessage -, the outgoingWork channel, the harness mutex below).
//
// Goroutine 0 requests (want-block / want-have / broadcast want-have), goroutine 1 retracts or upgrades
// (cancel / want-block); with CIDS=1 both work on CID 0, otherwise each call picks its CID. (The full call
// alphabet at every gap is HarnessC35Queue's job; this entry adds the scheduler's finer interleavings.)
//
// The harness mutex makes "producer call + update of the client model" one step with respect to the other
// producers (they are serialised by mq.wllock anyway); the sender never takes it, so no sender/producer
// interleaving is lost.
// ---------------------------------------------------------------------------------------------------------

func HarnessC35QueueSched() {
	q := zz35NewQ(verifrt.Param("NCID", 2))
	q.enabled = false // no hook injection: the scheduler interleaves
	q.quiet = true
	calls := verifrt.Param("CALLS", 1)
	ncid := verifrt.Param("CIDS", 1)
	var mu sync.Mutex
	var wg sync.WaitGroup
	for g := 0; g < 2; g++ {
		wg.Add(1)
		go func(g int) {
			defer wg.Done()
			for k := 0; k < calls; k++ {
				mu.Lock()
				i := 0
				if ncid > 1 {
					i = verifrt.NondetRange([]string{"request_cid", "retract_cid"}[g], 0, ncid-1)
				}
				if g == 0 {
					q.producerCallOn(i, verifrt.NondetRange("request_kind", 0, 2))
				} else {
					q.producerCallOn(i, 3*verifrt.NondetRange("retract_kind", 0, 1)) // 0 = want-block, 3 = cancel
				}
				mu.Unlock()
			}
		}(g)
	}
	rounds := verifrt.Param("NSEND", 2)
	for r := 0; r < rounds; r++ {
		// between rounds the sender is idle: any producer may run here without spending a pre-emption, the
		// pre-emption budget is for the interior of a round
		verifrt.Yield()
		if r > 0 && verifrt.Param("RB", 1) == 1 && verifrt.NondetRange("round_kind", 0, 1) == 1 {
			q.mq.rebroadcastWantlist(time.Now(), 0)
		} else {
			q.mq.sendMessage()
		}
	}
	wg.Wait()
	q.drainAndCheck()
	verifrt.Reach("end")
}

// HarnessC35QueueSched2: the same with a budget of two pre-emptions (thorough tier only).
func HarnessC35QueueSched2() { HarnessC35QueueSched() }
