package messagequeue

import (
	"sync"
	"time"

	"github.com/ipfs/boxo/internal/verifrt"
)

// ---------------------------------------------------------------------------------------------------------
// C35 / T2 (scheduler exploration): the same queue, fakes and oracle as HarnessC35Queue, but the producers are
// real goroutines and the interleaving is chosen by the engine's exploring scheduler (pre-emption at every
// synchronisation point: each wllock acquisition - in particular those around the lock-free window of
// extractOutgoingMessage -, the outgoingWork channel, the harness mutex below).
//
// The harness mutex makes "producer call + update of the client model" one step with respect to the other
// producers (they are serialised by mq.wllock anyway); the sender never takes it, so no sender/producer
// interleaving is lost.
// ---------------------------------------------------------------------------------------------------------

func HarnessC35QueueSched() {
	q := zz35NewQ(verifrt.Param("NCID", 2))
	q.enabled = false // no hook injection: the scheduler interleaves
	ng := verifrt.Param("NG", 2)
	calls := verifrt.Param("CALLS", 1)
	q.budget = ng * calls
	var mu sync.Mutex
	var wg sync.WaitGroup
	for g := 0; g < ng; g++ {
		wg.Add(1)
		go func() {
			defer wg.Done()
			for k := 0; k < calls; k++ {
				mu.Lock()
				q.producerCall()
				mu.Unlock()
			}
		}()
	}
	rounds := verifrt.Param("NSEND", 2)
	for r := 0; r < rounds; r++ {
		if r > 0 && verifrt.Param("RB", 1) == 1 && verifrt.NondetRange("round_kind", 0, 1) == 1 {
			q.mq.rebroadcastWantlist(time.Now(), 0)
		} else {
			q.mq.sendMessage()
		}
	}
	wg.Wait()
	q.drainAndCheck()
	verifrt.Reach("end")
}
