package messagequeue

import (
	"context"
	"time"

	bswl "github.com/ipfs/boxo/bitswap/client/wantlist"
	bsmsg "github.com/ipfs/boxo/bitswap/message"
	pb "github.com/ipfs/boxo/bitswap/message/pb"
	bsnet "github.com/ipfs/boxo/bitswap/network"
	"github.com/ipfs/boxo/internal/verifrt"
	cid "github.com/ipfs/go-cid"
	peer "github.com/libp2p/go-libp2p/core/peer"
	"github.com/libp2p/go-libp2p/p2p/protocol/ping"
	"google.golang.org/protobuf/proto"
)

// ---------------------------------------------------------------------------------------------------------
// C35 / T2 (deterministic interleavings): the real MessageQueue, built in package without a network.
//
// All state shared between the producers (AddWants / AddBroadcastWantHaves / AddCancels) and the sender
// (sendMessage -> extractOutgoingMessage -> SendMsg -> onSent, rebroadcastWantlist) is guarded by mq.wllock and
// every producer holds the lock for its whole effect. An interleaving is therefore a sequence of lock sections,
// and every such sequence is obtained by running the sender on the harness goroutine and executing producer
// calls *inside the sender's lock-free gaps*. The harness reaches those gaps through the objects the queue
// calls there:
//    pre-extract : MessageSender.SupportsHave()      (after refresh / before the first lock section of extract)
//    window      : first AddEntry/Cancel on mq.msg   (the lock-free message construction inside extract; the
//                                                     window touches only mq.msg and its private snapshots, so
//                                                     one injection point stands for every position in it)
//    pre-onSent  : MessageSender.SendMsg()           (after the re-check section, before onSent)
//    idle        : between two rounds / before the final drain
// This runs identically under the engine and natively (no scheduler involved), so counterexamples replay.
// HarnessC35QueueSched (c35_sched.go) runs real goroutines under the engine's exploring scheduler on top.
// ---------------------------------------------------------------------------------------------------------

// zz35ProtoSize stands in for proto.Size: every wantlist entry "costs" 48 bytes. Natively the real size of an
// entry with a 36-byte CID is between 40 (cancel) and 48 (want-have + send-dont-have) bytes, so the limits
// zz35OneEntry / zz35TwoEntries mean "one entry per message" / "two entries per message" under the engine and
// natively alike.
const (
	zz35EntrySize  = 48
	zz35OneEntry   = 40
	zz35TwoEntries = 64
)

func zz35ProtoSize(m proto.Message) int { return zz35EntrySize }

type zz35Q struct {
	mq           *MessageQueue
	cids         []cid.Cid
	supportsHave bool

	budget  int  // producer calls left
	calls   int  // producer calls made
	enabled bool // injection allowed (off during the final drain)
	quiet   bool // no Observe: the outcome depends on a schedule the native run does not reproduce

	// the client's side of the story
	peerWant  []int  // 0 none, 1 want-have, 2 want-block (strongest since the last cancel)
	bcstWant  []bool // broadcast want-have since the last cancel
	everBlock []bool // a want-block was requested at some point
	elided    []bool // history class: a queued cancel was taken back by a later want
	elidedByH []bool // ... by a targeted want-have
	merged    []bool // history class: wanted through the peer list and the broadcast list at once

	recv *bswl.Wantlist // the receiver: every sent message replayed onto an empty want-list
	sent int
}

// ---- the producers -----------------------------------------------------------------------------------------

func (q *zz35Q) producerCall() {
	q.calls++
	i := 0
	if q.calls > 1 { // the first call is on CID 0 without loss of generality (the queue treats CIDs alike)
		i = verifrt.NondetRange("call_cid", 0, len(q.cids)-1)
	}
	q.producerCallOn(i, verifrt.NondetRange("call_kind", 0, 3))
}

// cancelQueued peeks at the queue (under its lock): is a cancel for c waiting to be sent?
func (q *zz35Q) cancelQueued(c cid.Cid) bool {
	q.mq.wllock.Lock()
	defer q.mq.wllock.Unlock()
	return q.mq.cancels.Has(c)
}

func (q *zz35Q) producerCallOn(i, kind int) {
	c := q.cids[i]
	// history classes, used only to give distinct failure modes distinct assertion ids
	if kind != 3 && q.cancelQueued(c) {
		q.elided[i] = true // a want takes back a cancel that was queued but not yet sent
		if kind == 1 {
			q.elidedByH[i] = true
		}
	}
	defer func() {
		if q.peerWant[i] > 0 && q.bcstWant[i] {
			q.merged[i] = true // the CID is wanted through the peer list and the broadcast list at once
		}
	}()
	switch kind {
	case 0:
		q.mq.AddWants([]cid.Cid{c}, nil)
		q.peerWant[i] = 2
		q.everBlock[i] = true
	case 1:
		q.mq.AddWants(nil, []cid.Cid{c})
		if q.peerWant[i] < 1 {
			q.peerWant[i] = 1
		}
	case 2:
		q.mq.AddBroadcastWantHaves([]cid.Cid{c})
		q.bcstWant[i] = true
	case 3:
		q.mq.AddCancels([]cid.Cid{c})
		q.peerWant[i] = 0
		q.bcstWant[i] = false
	}
}

func (q *zz35Q) inject(point string) {
	if !q.enabled {
		return
	}
	for q.budget > 0 && verifrt.NondetRange("inject_"+point, 0, 1) == 1 {
		q.budget--
		q.producerCall()
	}
}

// ---- the objects the queue talks to ------------------------------------------------------------------------

type zz35Sender struct{ q *zz35Q }

func (s *zz35Sender) SupportsHave() bool {
	s.q.inject("pre_extract")
	return s.q.supportsHave
}

func (s *zz35Sender) Reset() error { return nil }

func (s *zz35Sender) SendMsg(ctx context.Context, m bsmsg.BitSwapMessage) error {
	q := s.q
	q.sent++
	// the receiver applies the message: cancels remove, wants are added with the want-list's type rule
	for _, e := range m.Wantlist() {
		if e.Cancel {
			q.recv.Remove(e.Cid)
		} else {
			q.recv.Add(e.Cid, e.Priority, e.WantType)
		}
	}
	verifrt.Assert("C35.T2.sent-message-not-full", !m.Full())
	q.inject("pre_onsent")
	return nil
}

type zz35Net struct{ q *zz35Q }

func (n *zz35Net) Connect(context.Context, peer.AddrInfo) error { return nil }
func (n *zz35Net) NewMessageSender(context.Context, peer.ID, *bsnet.MessageSenderOpts) (bsnet.MessageSender, error) {
	return &zz35Sender{q: n.q}, nil
}
func (n *zz35Net) Latency(peer.ID) time.Duration             { return 0 }
func (n *zz35Net) Ping(context.Context, peer.ID) ping.Result { return ping.Result{} }
func (n *zz35Net) Self() peer.ID                             { return peer.ID("self") }

// zz35Msg wraps the queue's reusable message: the first mutation of a message under construction is the
// harness's foothold inside the lock-free window of extractOutgoingMessage.
type zz35Msg struct {
	bsmsg.BitSwapMessage
	q     *zz35Q
	dirty bool
}

func (m *zz35Msg) window() {
	if !m.dirty {
		m.dirty = true
		m.q.inject("window")
	}
}

func (m *zz35Msg) AddEntry(c cid.Cid, p int32, t pb.Message_Wantlist_WantType, sdh bool) int {
	m.window()
	return m.BitSwapMessage.AddEntry(c, p, t, sdh)
}

func (m *zz35Msg) Cancel(c cid.Cid) int {
	m.window()
	return m.BitSwapMessage.Cancel(c)
}

func (m *zz35Msg) Reset(full bool) {
	m.dirty = false
	m.BitSwapMessage.Reset(full)
}

// ---- construction and the oracle ---------------------------------------------------------------------------

func zz35NewQ(ncid int) *zz35Q {
	q := &zz35Q{recv: bswl.New()}
	for i := 0; i < ncid; i++ {
		q.cids = append(q.cids, zz35Cid(i))
	}
	q.peerWant = make([]int, ncid)
	q.bcstWant = make([]bool, ncid)
	q.everBlock = make([]bool, ncid)
	q.elided = make([]bool, ncid)
	q.elidedByH = make([]bool, ncid)
	q.merged = make([]bool, ncid)
	q.supportsHave = verifrt.NondetBool("supports_have")
	// message size limit: one entry, two entries, or practically unlimited
	// (a symbolic choice: the engine only splits where a size comparison actually depends on it)
	maxSize := []int{zz35OneEntry, zz35TwoEntries, maxMessageSize}[verifrt.Choose("max_msg", 3)]
	q.mq = newMessageQueue(context.Background(), peer.ID("remote"), &zz35Net{q: q}, maxSize, sendErrorBackoff, maxValidLatency, nil, nil)
	q.mq.msg = &zz35Msg{BitSwapMessage: q.mq.msg, q: q}
	return q
}

// wanted: what the client currently wants from this peer, as the strongest requested type (0 = nothing).
// A peer without HAVE support is never asked want-have: its broadcast wants go out as want-block and
// targeted want-haves are not for this peer at all.
func (q *zz35Q) wanted(i int) int {
	if q.supportsHave {
		w := q.peerWant[i]
		if q.bcstWant[i] && w < 1 {
			w = 1
		}
		return w
	}
	if q.peerWant[i] == 2 || q.bcstWant[i] {
		return 2
	}
	return 0
}

// drainAndCheck: no producer runs any more; the sender keeps sending until nothing is pending; then the
// receiver's list must be the client's current wants.
func (q *zz35Q) drainAndCheck() {
	q.enabled = false
	for k := 0; k < 4*len(q.cids)+2 && q.mq.pendingWorkCount() > 0; k++ {
		q.mq.sendMessage()
	}
	verifrt.Assert("C35.T2.queue-drains", q.mq.pendingWorkCount() == 0)
	verifrt.Assert("C35.T2.idle-has-no-message", !q.mq.HasMessage())
	if !q.quiet {
		verifrt.Observe("messages", q.sent)
	}
	n := 0
	for i, c := range q.cids {
		want := q.wanted(i)
		e, has := q.recv.Get(c)
		if !q.quiet {
			verifrt.Observe("recv_has", has)
		}
		if want == 0 {
			if !q.supportsHave && (q.peerWant[i] == 1 || q.elidedByH[i]) {
				// a targeted want-have is never sent to a peer without HAVE support: when it is the client's
				// last word for the CID, or when it took back a queued cancel, such a peer must not be left
				// holding an older want either
				verifrt.Assert("C35.T2.cancelled-want-left-active.want-have-to-peer-without-have-support", !has)
			} else if q.elided[i] {
				// histories in which a queued cancel was taken back by a new want before it was sent
				verifrt.Assert("C35.T2.cancelled-want-left-active.after-elided-cancel", !has)
			} else {
				verifrt.Assert("C35.T2.cancelled-want-left-active", !has)
			}
			continue
		}
		n++
		if q.merged[i] {
			// histories in which the CID was wanted through the peer list and the broadcast list at once
			verifrt.Assert("C35.T2.current-want-unsent.peer-and-broadcast-want", has)
		} else {
			verifrt.Assert("C35.T2.current-want-unsent", has)
		}
		if !has {
			continue
		}
		got := 1
		if e.WantType == pb.Message_Wantlist_Block {
			got = 2
		}
		if q.merged[i] {
			verifrt.Assert("C35.T2.type-weaker-than-requested.peer-and-broadcast-want", got >= want)
		} else {
			verifrt.Assert("C35.T2.type-weaker-than-requested", got >= want)
		}
		verifrt.Assert("C35.T2.type-never-requested", got <= want || q.everBlock[i] || !q.supportsHave)
	}
	verifrt.Assert("C35.T2.receiver-has-only-current-wants", q.recv.Len() == n)
}

// HarnessC35Queue: NSEND sender rounds (plain sendMessage, or a rebroadcast tick = refresh + sendMessage) with
// up to NPROD producer calls placed in the gaps, then drain and compare.
func HarnessC35Queue() {
	q := zz35NewQ(verifrt.Param("NCID", 2))
	q.budget = verifrt.Param("NPROD", 2)
	q.enabled = true
	rounds := verifrt.Param("NSEND", 2)
	for r := 0; r < rounds; r++ {
		if r > 0 && verifrt.NondetRange("round_kind", 0, 1) == 1 {
			q.mq.rebroadcastWantlist(time.Now(), 0) // RebroadcastNow: everything sent (and timed) is due
		} else {
			q.mq.sendMessage()
		}
	}
	q.inject("idle")
	q.drainAndCheck()
	verifrt.Reach("end")
}

// HarnessC35Queue1: the same harness on a single CID, which affords one more producer call in the quick tier
// (histories such as want-block, want-have, cancel on one CID).
func HarnessC35Queue1() { HarnessC35Queue() }
