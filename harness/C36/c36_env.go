package decision

import (
	"context"
	"runtime"
	"time"

	bsmsg "github.com/ipfs/boxo/bitswap/message"
	"github.com/ipfs/boxo/internal/verifrt"
	blocks "github.com/ipfs/go-block-format"
	"github.com/ipfs/go-cid"
	"github.com/libp2p/go-libp2p/core/peer"
)

// HarnessC36Envelope: what actually goes out. One message of 1..M wants / cancels over the pool is taken in
// (symbolic priorities, types, send-dont-have flags, filter verdicts, presence), then the blockstore changes
// (a wanted block is removed, or a missing wanted block arrives and NotifyNewBlocks is called), then
// Engine.nextEnvelope builds the outgoing message. Block sizes are 1 or 5 bytes, the want-have replace
// threshold 0..8.
//
// Oracle (property text): a block is in the envelope only if it is in the blockstore now, the peer asked for
// it and has not cancelled it, and the filter permits it; HAVE only for blocks that are (or were, at intake)
// present and permitted; DONT_HAVE only for wanted CIDs whose block is absent or denied and only if the peer
// asked for DONT_HAVE; nothing for CIDs the peer did not mention; every want that was accepted and whose block
// is present is answered in the envelope (all tasks fit: target message size 16 KiB).
func HarnessC36Envelope() {
	M := verifrt.Param("M", 2)
	pool := zzvPool()
	p := peer.ID("peerA")
	bs := &zzvBS{pool: pool}
	var permitted [zzvN]bool
	for i := range pool {
		bs.present[i] = verifrt.NondetBool("present")
		bs.size[i] = 1
		if verifrt.NondetBool("bigBlock") {
			bs.size[i] = 5
		}
		permitted[i] = verifrt.NondetBool("permitted")
	}
	replace := verifrt.NondetInt("replaceSize")
	verifrt.Assume(replace >= 0 && replace <= 8)
	filter := func(_ peer.ID, c cid.Cid) bool {
		i := zzvIdx(pool, c)
		return i >= 0 && permitted[i]
	}
	const limit = 3
	e := zzvEngine(bs, limit, replace, true, filter, uint(pool[0].ByteLen()))
	defer zzvStop(e)
	ctx := context.Background()

	m := verifrt.NondetRange("entries", 1, M)
	msg := &zzvMsg{}
	var in [zzvN]zzvWant
	var cancel [zzvN]bool
	o := zzvOpts{answers: true}
	for j := 0; j < m; j++ {
		in[j] = zzvNondetWant(o)
		cancel[j] = verifrt.NondetBool("cancel")
		msg.entries = append(msg.entries, zzvEntry(pool[j], in[j], cancel[j]))
	}
	verifrt.Assert("C36.no-disconnect", !e.MessageReceived(ctx, p, msg))

	// ---- the blockstore moves on
	var wasPresent [zzvN]bool
	for i := range pool {
		wasPresent[i] = bs.present[i]
	}
	switch verifrt.NondetRange("change", 0, 2) {
	case 1: // the first wanted block is removed
		verifrt.Assume(bs.present[0])
		bs.present[0] = false
	case 2: // the first wanted block arrives
		verifrt.Assume(!bs.present[0])
		bs.present[0] = true
		blk, err := blocks.NewBlockWithCid(make([]byte, bs.size[0]), pool[0])
		if err != nil {
			panic(err)
		}
		e.NotifyNewBlocks([]blocks.Block{blk})
	}

	// is there anything to send? (nextEnvelope blocks until there is)
	queued := e.peerRequestQueue.Stats().NumPending
	verifrt.Observe("queued", queued)
	if queued == 0 {
		for i := 0; i < m; i++ {
			if !cancel[i] && permitted[i] && wasPresent[i] {
				verifrt.Assert("C36.accepted-present-want-is-answered", false)
			}
		}
		verifrt.Reach("end")
		return
	}
	env, err := zzvNextEnvelope(e, ctx)
	if err != nil || env == nil {
		// every queued task turned out to have nothing to say (block removed, no DONT_HAVE asked)
		verifrt.Reach("end")
		return
	}
	verifrt.Assert("C36.envelope-for-the-requesting-peer", env.Peer == p)
	out := env.Message

	var sentBlock, sentHave, sentDH [zzvN]bool
	for _, b := range out.Blocks() {
		i := zzvIdx(pool, b.Cid())
		verifrt.Assert("C36.sent-only-requested-cids", i >= 0 && i < m)
		if i < 0 || i >= m {
			continue
		}
		verifrt.Assert("C36.block-sent-once", !sentBlock[i])
		sentBlock[i] = true
		verifrt.Assert("C36.block-sent-only-if-in-blockstore", bs.present[i])
		verifrt.Assert("C36.block-sent-only-if-wanted", !cancel[i])
		verifrt.Assert("C36.block-sent-only-if-permitted", permitted[i])
		verifrt.Assert("C36.block-sent-only-for-want-block-or-small-block", in[i].block || bs.size[i] <= replace)
		verifrt.Assert("C36.sent-block-has-the-stored-size", len(b.RawData()) == bs.size[i])
	}
	for _, c := range out.Haves() {
		i := zzvIdx(pool, c)
		verifrt.Assert("C36.sent-only-requested-cids", i >= 0 && i < m)
		if i < 0 || i >= m {
			continue
		}
		sentHave[i] = true
		verifrt.Assert("C36.have-sent-only-for-present-block", bs.present[i] || wasPresent[i])
		verifrt.Assert("C36.have-sent-only-if-wanted", !cancel[i])
		verifrt.Assert("C36.have-sent-only-if-permitted", permitted[i])
		verifrt.Assert("C36.have-sent-only-for-want-have", !in[i].block)
	}
	for _, c := range out.DontHaves() {
		i := zzvIdx(pool, c)
		verifrt.Assert("C36.sent-only-requested-cids", i >= 0 && i < m)
		if i < 0 || i >= m {
			continue
		}
		sentDH[i] = true
		verifrt.Assert("C36.dont-have-sent-only-if-wanted", !cancel[i])
		verifrt.Assert("C36.dont-have-sent-only-for-absent-or-denied", !bs.present[i] || !wasPresent[i] || !permitted[i])
		verifrt.Assert("C36.dont-have-sent-only-when-asked", in[i].sendDH)
	}
	for i := 0; i < m; i++ {
		verifrt.Assert("C36.one-answer-per-cid", !(sentBlock[i] && (sentHave[i] || sentDH[i])) && !(sentHave[i] && sentDH[i]))
		if cancel[i] || !permitted[i] {
			continue
		}
		if bs.present[i] && wasPresent[i] {
			verifrt.Assert("C36.accepted-present-want-is-answered", sentBlock[i] || sentHave[i])
		}
		if bs.present[i] && in[i].block {
			verifrt.Assert("C36.want-block-answered-with-block", sentBlock[i])
		}
		if bs.present[i] && !wasPresent[i] {
			verifrt.Assert("C36.want-answered-when-block-arrives", sentBlock[i] || sentHave[i])
		}
		if !wasPresent[i] && !bs.present[i] && in[i].sendDH {
			verifrt.Assert("C36.accepted-absent-want-gets-dont-have", sentDH[i])
		}
	}
	env.Sent()
	verifrt.Assert("C36.queue-drained-after-send", e.peerRequestQueue.Stats().NumPending == 0 && e.peerRequestQueue.Stats().NumActive == 0)
	verifrt.Reach("end")
}

// zzvNextEnvelope calls nextEnvelope with a context that is already cancelled when the queue runs dry, so that
// the call returns instead of waiting for new work (nextEnvelope loops while the popped tasks yield an empty
// message).
func zzvNextEnvelope(e *Engine, ctx context.Context) (*Envelope, error) {
	cctx, cancel := context.WithCancel(ctx)
	defer cancel()
	done := make(chan struct{})
	var env *Envelope
	var err error
	go func() {
		env, err = e.nextEnvelope(cctx)
		close(done)
	}()
	zzvQuiesce()
	select {
	case <-done:
	default:
		cancel()
		<-done
	}
	return env, err
}

// zzvQuiesce lets the other goroutines (the blockstore worker, nextEnvelope) run until they block.
func zzvQuiesce() {
	if verifrt.Symbolic() {
		verifrt.Drain()
		return
	}
	for r := 0; r < 3; r++ {
		for i := 0; i < 100; i++ {
			runtime.Gosched()
		}
		time.Sleep(2 * time.Millisecond)
	}
}

var _ bsmsg.BitSwapMessage = (*zzvMsg)(nil)
