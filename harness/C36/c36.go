package decision

// C36: the intake step of the bitswap decision engine — Engine.MessageReceived with splitWantsCancelsDenials,
// filterOverflow, handleOverflow, the peer ledger and the task merger, all executed from source, together
// with the real blockstoreManager (one worker) and the real go-peertaskqueue. The Engine value is built
// directly (no task workers, no score-ledger goroutine); the blockstore is a harness presence/size map, the
// request filter a symbolic predicate. The oracle is written from the property text.

import (
	"context"
	"time"

	wl "github.com/ipfs/boxo/bitswap/client/wantlist"
	bsmsg "github.com/ipfs/boxo/bitswap/message"
	pb "github.com/ipfs/boxo/bitswap/message/pb"
	bmetrics "github.com/ipfs/boxo/bitswap/metrics"
	bstore "github.com/ipfs/boxo/blockstore"
	"github.com/ipfs/boxo/internal/verifrt"
	blocks "github.com/ipfs/go-block-format"
	"github.com/ipfs/go-cid"
	ipld "github.com/ipfs/go-ipld-format"
	"github.com/ipfs/go-peertaskqueue"
	"github.com/ipfs/go-peertaskqueue/peertask"
	"github.com/libp2p/go-libp2p/core/peer"
	mh "github.com/multiformats/go-multihash"
)

const zzvN = 6 // CID pool (a full ledger of 3 plus 3 newcomers)

func zzvMkCid(code uint64, digestLen int, tag byte) cid.Cid {
	d := make([]byte, digestLen)
	d[0] = tag
	m, err := mh.Encode(d, code)
	if err != nil {
		panic(err)
	}
	return cid.NewCidV1(cid.Raw, m)
}

func zzvPool() []cid.Cid {
	out := make([]cid.Cid, zzvN)
	for i := range out {
		out[i] = zzvMkCid(mh.SHA2_256, 32, byte(i+1))
	}
	return out
}

func zzvIdx(pool []cid.Cid, c cid.Cid) int {
	for i := range pool {
		if pool[i].Equals(c) {
			return i
		}
	}
	return -1
}

// zzvBS: the blockstore as a presence/size map over the pool.
type zzvBS struct {
	bstore.Blockstore
	pool    []cid.Cid
	present [zzvN]bool
	size    [zzvN]int
}

func (b *zzvBS) Has(ctx context.Context, c cid.Cid) (bool, error) {
	i := zzvIdx(b.pool, c)
	return i >= 0 && b.present[i], nil
}

func (b *zzvBS) GetSize(ctx context.Context, c cid.Cid) (int, error) {
	i := zzvIdx(b.pool, c)
	if i < 0 || !b.present[i] {
		return -1, ipld.ErrNotFound{Cid: c}
	}
	return b.size[i], nil
}

func (b *zzvBS) Get(ctx context.Context, c cid.Cid) (blocks.Block, error) {
	i := zzvIdx(b.pool, c)
	if i < 0 || !b.present[i] {
		return nil, ipld.ErrNotFound{Cid: c}
	}
	return blocks.NewBlockWithCid(make([]byte, b.size[i]), c)
}

// zzvPresenceSize stands in for bsmsg.BlockPresenceSize under the engine (protobuf's proto.Size is outside
// it): tag+length+CID bytes, tag+type. The value only feeds the work estimate of a HAVE / DONT_HAVE task.
func zzvPresenceSize(c cid.Cid) int { return 2 + c.ByteLen() + 2 }

type zzvTagger struct{}

func (zzvTagger) TagPeer(peer.ID, string, int) {}
func (zzvTagger) UntagPeer(peer.ID, string)    {}

type zzvScore struct{}

func (zzvScore) GetReceipt(p peer.ID) *Receipt       { return nil }
func (zzvScore) AddToSentBytes(p peer.ID, n int)     {}
func (zzvScore) AddToReceivedBytes(p peer.ID, n int) {}
func (zzvScore) PeerConnected(p peer.ID)             {}
func (zzvScore) PeerDisconnected(p peer.ID)          {}
func (zzvScore) Start(scorePeer ScorePeerFunc)       {}
func (zzvScore) Stop()                               {}

// zzvMsg is an incoming message: the three methods MessageReceived uses. The entry order is the harness's
// (the real message type hands out its entries in map order, i.e. any order; all orders are covered because
// every entry's fields are symbolic). Entries have distinct CIDs, as in a decoded message.
type zzvMsg struct {
	bsmsg.BitSwapMessage
	entries []bsmsg.Entry
	full    bool
}

func (m *zzvMsg) Empty() bool { return len(m.entries) == 0 }
func (m *zzvMsg) Full() bool  { return m.full }
func (m *zzvMsg) Wantlist() []bsmsg.Entry {
	return append([]bsmsg.Entry(nil), m.entries...)
}

// zzvEngine builds the Engine the way NewEngine does, minus startWorkers' task workers and score ledger.
func zzvEngine(bs bstore.Blockstore, limit uint, replaceSize int, sendDontHaves bool, filter PeerBlockRequestFilter, maxCid uint) *Engine {
	ctx := context.Background()
	e := &Engine{
		scoreLedger:                     zzvScore{},
		bstoreWorkerCount:               1,
		peerTagger:                      zzvTagger{},
		outbox:                          make(chan (<-chan *Envelope), outboxChanBuffer),
		workSignal:                      make(chan struct{}, 1),
		ticker:                          time.NewTicker(time.Hour),
		wantHaveReplaceSize:             replaceSize,
		sendDontHaves:                   sendDontHaves,
		self:                            peer.ID("self"),
		pendingGauge:                    bmetrics.PendingEngineGauge(ctx),
		activeGauge:                     bmetrics.ActiveEngineGauge(ctx),
		targetMessageSize:               defaultTargetMessageSize,
		maxQueuedWantlistEntriesPerPeer: limit,
		maxCidSize:                      maxCid,
		peerBlockRequestFilter:          filter,
		cancel:                          func() {},
	}
	e.peerLedger = newPeerLedger(e.maxQueuedWantlistEntriesPerPeer)
	if verifrt.Symbolic() {
		// hash/maphash is outside the engine; the seed only feeds the tie-break between two peers with equal
		// load, which a single-peer harness never reaches
		e.scheduler = &peerScheduler{}
	} else {
		e.scheduler = newPeerScheduler()
	}
	e.bsm =newBlockstoreManager(bs, e.bstoreWorkerCount, bmetrics.PendingBlocksGauge(ctx), bmetrics.ActiveBlocksGauge(ctx))
	e.bsm.start()
	e.peerRequestQueue = peertaskqueue.New(
		peertaskqueue.OnPeerAddedHook(e.onPeerAdded),
		peertaskqueue.OnPeerRemovedHook(e.onPeerRemoved),
		peertaskqueue.TaskMerger(newTaskMerger()),
		peertaskqueue.IgnoreFreezing(true),
		peertaskqueue.MaxOutstandingWorkPerPeer(0),
		peertaskqueue.PeerComparator(fairPeerComparator(e.scheduler)),
	)
	return e
}

func zzvStop(e *Engine) {
	e.bsm.stop()
	e.ticker.Stop()
}

// zzvWant is the harness's view of one want.
type zzvWant struct {
	in     bool
	prio   int32
	block  bool // want-block (else want-have)
	sendDH bool
}

func zzvType(block bool) pb.Message_Wantlist_WantType {
	if block {
		return pb.Message_Wantlist_Block
	}
	return pb.Message_Wantlist_Have
}

func zzvEntry(c cid.Cid, w zzvWant, cancel bool) bsmsg.Entry {
	return bsmsg.Entry{Entry: wl.Entry{Cid: c, Priority: w.prio, WantType: zzvType(w.block)}, Cancel: cancel, SendDontHave: w.sendDH}
}

// zzvOpts selects what an entry varies. answers=false ("overflow" entry): the ledger is full or nearly full and
// the message consists of wants only (priorities and block presence symbolic; want-block, no send-dont-have,
// everything permitted, incremental) — the eviction order is the subject. answers=true: everything about the
// entries, the filter, sizes and the engine switches is symbolic, with at most one want in the ledger before.
type zzvOpts struct{ answers bool }

func zzvBool(name string, symbolic, def bool) bool {
	if symbolic {
		return verifrt.NondetBool(name)
	}
	return def
}

func zzvNondetWant(o zzvOpts) zzvWant {
	return zzvWant{in: true, prio: verifrt.NondetI32("prio"), block: zzvBool("wantBlock", o.answers, true), sendDH: zzvBool("sendDontHave", o.answers, false)}
}

// zzvLedger reads the peer's want-list back through the public accessor.
func zzvLedger(e *Engine, p peer.ID, pool []cid.Cid) (l [zzvN]zzvWant, n int, foreign bool) {
	for _, en := range e.WantlistForPeer(p) {
		n++
		i := zzvIdx(pool, en.Cid)
		if i < 0 {
			foreign = true
			continue
		}
		if l[i].in {
			foreign = true // the same CID twice
		}
		l[i] = zzvWant{in: true, prio: en.Priority, block: en.WantType == pb.Message_Wantlist_Block}
	}
	return
}

// zzvPopAll takes every queued task of the (single) peer off the queue.
func zzvPopAll(e *Engine) (peer.ID, []*peertask.Task) {
	p, ts, _ := e.peerRequestQueue.PopTasks(1 << 30)
	return p, ts
}

// HarnessC36Intake: one peer. The pre-state is produced by a first message of 0..limit wants into the empty
// ledger (optionally followed by the tasks being popped and completed, i.e. answered but not yet acknowledged
// by MessageSent); then one arbitrary message of 1..M entries (wants for ledger CIDs and for new CIDs,
// cancels, an identity CID, an oversize CID; full or incremental) is taken in. Priorities, want types,
// send-dont-have flags, block presence and sizes, the want-have replace threshold, the filter's verdict per CID
// and the engine's sendDontHaves switch are symbolic.
func HarnessC36Intake() { zzvIntake(zzvOpts{answers: true}) }

// HarnessC36Overflow: the same step with a full (or nearly full) ledger and a message of new wants: who is
// evicted, who is rejected.
func HarnessC36Overflow() { zzvIntake(zzvOpts{}) }

// HarnessC36OverflowBig: the same with the parameters pinned to one larger shape: a full ledger of 3 wants and
// a message of 3 new wants (both phases of handleOverflow run, with several block-less wants freed in the
// first phase before priorities are compared in the second).
func HarnessC36OverflowBig() { zzvIntake(zzvOpts{}) }

func zzvIntake(o zzvOpts) {
	LIM := verifrt.Param("LIM", 2)
	M := verifrt.Param("M", 2)
	pool := zzvPool()
	idCid := zzvMkCid(mh.IDENTITY, 4, 9)
	bigCid := zzvMkCid(mh.SHA2_512, 64, 9)
	p := peer.ID("peerA")

	limit := verifrt.NondetRange("limit", verifrt.Param("LIMLO", 1), LIM)
	bs := &zzvBS{pool: pool}
	var permitted [zzvN]bool
	for i := range pool {
		bs.present[i] = verifrt.NondetBool("present")
		bs.size[i] = 100
		if o.answers {
			bs.size[i] = verifrt.NondetInt("size")
			verifrt.Assume(bs.size[i] >= 1 && bs.size[i] <= 1<<20)
		}
		permitted[i] = zzvBool("permitted", o.answers, true)
	}
	replace := 1024
	if o.answers {
		replace = verifrt.NondetInt("replaceSize")
		verifrt.Assume(replace >= 0 && replace <= 1<<20)
	}
	sendDHs := zzvBool("engineSendsDontHaves", o.answers, true)
	filter := func(_ peer.ID, c cid.Cid) bool {
		i := zzvIdx(pool, c)
		return i >= 0 && permitted[i]
	}
	e := zzvEngine(bs, uint(limit), replace, sendDHs, filter, uint(pool[0].ByteLen()))
	defer zzvStop(e)
	ctx := context.Background()

	// ---- pre-state: pool[0..n0) wanted (and permitted)
	lo, hi := 0, limit
	if o.answers {
		hi = 1 // (limit is at least 1)
	} else if limit > 1 {
		lo = limit - 1 // overflow entry: the ledger is full or has one free slot
	}
	if !o.answers && verifrt.Param("FULL", 0) == 1 {
		lo = limit // ... or just full
	}
	n0 := verifrt.NondetRange("preWants", lo, hi)
	var pre [zzvN]zzvWant
	if n0 > 0 {
		m1 := &zzvMsg{}
		for i := 0; i < n0; i++ {
			verifrt.Assume(permitted[i])
			pre[i] = zzvNondetWant(o)
			m1.entries = append(m1.entries, zzvEntry(pool[i], pre[i], false))
		}
		verifrt.Assert("C36.no-disconnect", !e.MessageReceived(ctx, p, m1))
		l1, cnt, foreign := zzvLedger(e, p, pool)
		verifrt.Assert("C36.want-within-limit-is-recorded", cnt == n0 && !foreign)
		for i := 0; i < n0; i++ {
			verifrt.Assert("C36.want-within-limit-is-recorded", l1[i].in && l1[i].prio == pre[i].prio && l1[i].block == pre[i].block)
		}
	}
	served := n0 > 0 && (!o.answers || verifrt.NondetRange("preTasksServed", 0, 1) == 1)
	if served {
		tp, ts := zzvPopAll(e)
		e.peerRequestQueue.TasksDone(tp, ts...)
	}

	// ---- the message under test
	m := verifrt.NondetRange("entries", verifrt.Param("MLO", 1), M)
	m2 := &zzvMsg{full: zzvBool("full", o.answers, false)}
	var in2 [zzvN]zzvWant // the message's entry for pool[i]
	var cancel2 [zzvN]bool
	usedOld, usedNew := 0, n0
	special := 0
	nWants2 := 0
	for j := 0; j < m; j++ {
		// which CID: 0 the next ledger CID not yet named, 1 the next new CID, 2 an identity CID, 3 an oversize
		// CID (pool members are interchangeable: all their attributes are symbolic)
		maxKind := 1
		if o.answers {
			maxKind = 3
		}
		kind := verifrt.NondetRange("kind", verifrt.Param("KINDLO", 0), maxKind)
		w := zzvNondetWant(o)
		cancel := zzvBool("cancel", o.answers, false)
		switch kind {
		case 0:
			if usedOld >= n0 {
				verifrt.Assume(false)
			}
			in2[usedOld], cancel2[usedOld] = w, cancel
			m2.entries = append(m2.entries, zzvEntry(pool[usedOld], w, cancel))
			usedOld++
		case 1:
			if usedNew >= zzvN {
				verifrt.Assume(false)
			}
			in2[usedNew], cancel2[usedNew] = w, cancel
			m2.entries = append(m2.entries, zzvEntry(pool[usedNew], w, cancel))
			usedNew++
		case 2:
			if special&1 != 0 {
				verifrt.Assume(false)
			}
			special |= 1
			m2.entries = append(m2.entries, zzvEntry(idCid, w, cancel))
		case 3:
			if special&2 != 0 {
				verifrt.Assume(false)
			}
			special |= 2
			m2.entries = append(m2.entries, zzvEntry(bigCid, w, cancel))
		}
		if kind <= 1 && !cancel {
			nWants2++
		}
	}
	// overflow entry: the message may end with a cancel for a ledger want it has not named (cancels travel in
	// the same message as the wants that fill the list)
	if !o.answers && usedOld < n0 && verifrt.Param("TC", 1) == 1 && verifrt.NondetRange("trailingCancel", 0, 1) == 1 {
		i := n0 - 1
		in2[i], cancel2[i] = zzvWant{in: true}, true
		m2.entries = append(m2.entries, zzvEntry(pool[i], in2[i], true))
	}
	verifrt.Assert("C36.no-disconnect", !e.MessageReceived(ctx, p, m2))

	fin, cnt, foreign := zzvLedger(e, p, pool)
	_, tasks := zzvPopAll(e)
	zzvCheckIntake(pool, bs, permitted, limit, replace, sendDHs, pre, m2.full, in2, cancel2, nWants2, fin, cnt, foreign, tasks, served)
	verifrt.Reach("end")
}

// zzvCheckIntake is the oracle for one intake step (see DESIGN 7/C36 and the property text).
func zzvCheckIntake(pool []cid.Cid, bs *zzvBS, permitted [zzvN]bool, limit, replace int, sendDHs bool,
	pre [zzvN]zzvWant, full bool, in2 [zzvN]zzvWant, cancel2 [zzvN]bool, nWants2 int,
	fin [zzvN]zzvWant, cnt int, foreign bool, tasks []*peertask.Task, served bool) {

	// ---- a full want-list replaces the old one: no answer stays queued for a want it dropped. (Checked first
	// so that it is reported independently of the ledger conditions below.)
	if full {
		for _, t := range tasks {
			c, _ := t.Topic.(cid.Cid)
			if i := zzvIdx(pool, c); i >= 0 {
				verifrt.Assert("C36.no-task-for-want-replaced-by-full-wantlist", !(pre[i].in && !(in2[i].in && !cancel2[i])))
			}
		}
	}

	// ---- the ledger
	verifrt.Assert("C36.ledger-only-holds-requested-cids", !foreign)
	verifrt.Assert("C36.ledger-within-limit", cnt <= limit)
	verifrt.Observe("ledgerSize", cnt)

	var old [zzvN]bool  // in the ledger when the wants of the message are taken in
	var want2 [zzvN]bool // the message asks for pool[i] and the filter permits it
	var eff [zzvN]zzvWant
	for i := range pool {
		old[i] = pre[i].in && !full
		want2[i] = in2[i].in && !cancel2[i] && permitted[i]
		eff[i] = pre[i]
		if want2[i] {
			eff[i] = in2[i]
		}
	}
	// A message carrying more (permitted) wants than the per-peer limit is cut down to the limit in arrival order
	// before any priority is looked at (splitWantsCancelsDenials); which of its wants survive is then not a
	// matter of priority. For such messages only the bounds and the per-task conditions are claimed.
	nW := 0
	for i := range pool {
		if want2[i] {
			nW++
		}
	}
	truncated := nW > limit
	// The cancels of a message are applied after its wants: a want turned away because the list was full stays
	// out although a cancel in the same message frees a slot afterwards. Who is evicted / turned away is claimed
	// only for messages that do not also cancel a want of the ledger.
	cancelsOld := false
	for i := range pool {
		if old[i] && cancel2[i] {
			cancelsOld = true
		}
	}
	_ = nWants2
	for i := range pool {
		if cancel2[i] {
			verifrt.Assert("C36.cancelled-want-removed", !fin[i].in)
		}
		if in2[i].in && !cancel2[i] && !permitted[i] {
			verifrt.Assert("C36.denied-want-not-recorded", !fin[i].in)
		}
		if !fin[i].in {
			continue
		}
		if want2[i] {
			if !truncated || !old[i] {
				verifrt.Assert("C36.ledger-entry-matches-latest-want", fin[i].prio == in2[i].prio && fin[i].block == in2[i].block)
			}
		} else {
			verifrt.Assert("C36.full-wantlist-replaces-ledger", !(full && pre[i].in))
			verifrt.Assert("C36.ledger-entry-was-requested", old[i])
			verifrt.Assert("C36.ledger-entry-unchanged", fin[i].prio == pre[i].prio && fin[i].block == pre[i].block)
		}
	}

	// ---- overflow: evictions and rejections
	nEvicted, nAccepted, nRejected := 0, 0, 0
	var evicted, accepted, rejected, kept [zzvN]bool
	for i := range pool {
		switch {
		case truncated || cancelsOld:
		case old[i] && !fin[i].in && !cancel2[i]:
			evicted[i] = true
			nEvicted++
		case old[i] && fin[i].in:
			kept[i] = true
		case !old[i] && want2[i] && fin[i].in:
			accepted[i] = true
			nAccepted++
		case !old[i] && want2[i] && !fin[i].in:
			rejected[i] = true
			nRejected++
		}
	}
	if nEvicted > 0 {
		verifrt.Assert("C36.eviction-only-when-full", cnt == limit)
		verifrt.Assert("C36.each-eviction-admits-a-newcomer", nEvicted <= nAccepted)
	}
	if nRejected > 0 {
		verifrt.Assert("C36.rejection-only-when-full", cnt == limit)
	}
	for i := range pool {
		if !evicted[i] {
			continue
		}
		for k := range pool {
			if !kept[k] {
				continue
			}
			hi, hk := bs.present[i], bs.present[k]
			verifrt.Assert("C36.evict-blockless-wants-first", !(hi && !hk))
			if hi && hk {
				verifrt.Assert("C36.evict-lowest-priority-first", eff[i].prio <= eff[k].prio)
			}
			if !hi && !hk {
				verifrt.Assert("C36.evict-blockless-lowest-priority-first", eff[i].prio <= eff[k].prio)
			}
		}
		if bs.present[i] {
			beaten := false
			for a := range pool {
				if accepted[a] && eff[a].prio >= eff[i].prio {
					beaten = true
				}
			}
			verifrt.Assert("C36.evicted-only-for-not-lower-priority-newcomer", beaten)
		}
	}
	for r := range pool {
		if !rejected[r] {
			continue
		}
		for k := range pool {
			if !kept[k] {
				continue
			}
			// a want that stayed must have a local block, and must not have a lower priority than a turned-away
			// newcomer that has a local block too (a newcomer without a block is itself first in line to go)
			if !bs.present[k] {
				verifrt.Assert("C36.blockless-want-kept-while-newcomer-rejected", !bs.present[r] && eff[r].prio <= eff[k].prio)
			} else if bs.present[r] {
				verifrt.Assert("C36.lower-priority-want-kept-while-newcomer-rejected", eff[r].prio <= eff[k].prio)
			}
		}
	}

	// ---- the task queue
	verifrt.Assert("C36.task-queue-within-limit", len(tasks) <= limit)
	// The queue bound is applied by go-peertaskqueue's PushTasksTruncated to "queued + pushed" before tasks for
	// the same CID are merged, so near the bound an answer (or the upgrade of a queued want-have) can be cut
	// although the merged queue would fit. "Every accepted want is answered" is therefore claimed only when
	// the tasks still queued from before plus this message's wants fit under the bound.
	nQueuedBefore := 0
	if !served {
		for i := range pool {
			if pre[i].in {
				nQueuedBefore++
			}
		}
	}
	room := nQueuedBefore+nWants2 <= limit
	verifrt.Observe("tasks", len(tasks))
	var haveTask, dhTask [zzvN]bool
	for _, t := range tasks {
		c, _ := t.Topic.(cid.Cid)
		i := zzvIdx(pool, c)
		verifrt.Assert("C36.ignored-cid-has-no-task", i >= 0)
		if i < 0 {
			continue
		}
		td := t.Data.(*taskData)
		// the want this task answers: the message's entry, or the pre-state's
		src := pre[i]
		if in2[i].in && !cancel2[i] {
			src = in2[i]
		}
		// the peer asked for it (earlier or in this message) ...
		verifrt.Assert("C36.task-only-for-requested-cid", pre[i].in || (in2[i].in && !cancel2[i]))
		// ... and did not drop it since by sending a full want-list without it
		verifrt.Assert("C36.no-task-for-want-replaced-by-full-wantlist", !(full && pre[i].in && !(in2[i].in && !cancel2[i])))
		// ... or by cancelling it
		verifrt.Assert("C36.cancelled-want-has-no-task", !cancel2[i])
		pending := !served && pre[i].in // the pre-state's task for this CID may still be queued (tasks merge)
		if td.HaveBlock {
			haveTask[i] = true
			verifrt.Assert("C36.have-or-block-only-for-present-block", bs.present[i])
			verifrt.Assert("C36.have-or-block-only-for-permitted-cid", permitted[i])
			// (a want-have taken in with the replace threshold at 0 is looked up with Has: its size is recorded as
			// 0, and the task merger keeps that 0 when the want is later upgraded to want-block)
			verifrt.Assert("C36.task-size-matches-block", td.BlockSize == bs.size[i] || (replace == 0 && td.BlockSize == 0))
			if td.IsWantBlock {
				verifrt.Assert("C36.block-only-for-want-block-or-small-block", src.block || bs.size[i] <= replace || (pending && pre[i].block))
			} else if room {
				// (when the queue is at its bound PushTasksTruncated drops the new task before merging, so an
				// upgrade of a queued want-have to want-block can be lost: go-peertaskqueue behaviour, not claimed)
				verifrt.Assert("C36.want-block-answered-with-block", !src.block)
			}
		} else {
			dhTask[i] = true
			verifrt.Assert("C36.dont-have-only-for-absent-or-denied", !bs.present[i] || !permitted[i])
			verifrt.Assert("C36.dont-have-only-when-asked", td.SendDontHave && (src.sendDH || (pending && pre[i].sendDH)))
			verifrt.Assert("C36.dont-have-only-when-enabled", sendDHs)
		}
	}
	// every accepted want of this message is answered (a task is queued) — unless the queue bound cut it
	if room && !truncated {
		for i := range pool {
			if !(want2[i] && fin[i].in) {
				continue
			}
			if bs.present[i] {
				verifrt.Assert("C36.accepted-present-want-is-answered", haveTask[i])
			} else if in2[i].sendDH && sendDHs {
				verifrt.Assert("C36.accepted-absent-want-gets-dont-have", dhTask[i])
			}
		}
	}
	_ = served
}
