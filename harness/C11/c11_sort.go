package merkledag

import (
	"bytes"

	"github.com/ipfs/boxo/internal/verifrt"
	format "github.com/ipfs/go-ipld-format"
)

// HarnessC11SortMany: nodes with 13 / 16 links (beyond the size up to which a non-stable library sort is an
// insertion sort) whose names come from {"", "a", "b", "c"}: the first FREE names are enumerated by the
// engine, the others follow a fixed pseudo-random pattern. Tsize records the insertion index. Links() and
// the encoding must list them sorted by name with equal names in insertion order; then one more link is
// added to the already sorted node and the check repeated.
func HarnessC11SortMany() {
	alphabet := []string{"", "a", "b", "c"}
	count := []int{13, 16}[verifrt.NondetRange("count", 0, 1)]
	free := verifrt.Param("FREE", 4)
	seed := uint32(1 + verifrt.NondetRange("seed", 0, verifrt.Param("SEEDS", 1)-1))
	n := NodeWithData([]byte("p"))
	var ins []*format.Link
	x := seed
	for i := 0; i < count; i++ {
		x = x*1664525 + 1013904223
		name := alphabet[(x>>16)%uint32(len(alphabet))]
		if i < free {
			name = alphabet[verifrt.NondetRange("name", 0, len(alphabet)-1)]
		}
		l := &format.Link{Name: name, Size: uint64(i), Cid: zzIdCid(byte(1 + i%3))}
		ins = append(ins, l)
		verifrt.Assert("C11.sortmany-addrawlink-ok", n.AddRawLink(name, l) == nil)
	}
	want := zzSorted(ins)
	raw, err := n.EncodeProtobuf(false)
	verifrt.Assert("C11.sortmany-encode-ok", err == nil)
	verifrt.Assert("C11.sortmany-links-sorted-stable", zzSameLinks(n.Links(), want))
	verifrt.Assert("C11.sortmany-rawdata-sorted-stable", bytes.Equal(raw, zzEnc(n.data, want)))
	c := n.Cid()
	w, _ := v0CidPrefix.Sum(zzEnc(n.data, want))
	verifrt.Assert("C11.sortmany-cid", c == w)

	// one more link on the sorted node
	extra := &format.Link{Name: alphabet[verifrt.NondetRange("extra", 0, len(alphabet)-1)], Size: uint64(count), Cid: zzIdCid(9)}
	ins = append(ins, extra)
	verifrt.Assert("C11.sortmany-addrawlink-ok", n.AddRawLink(extra.Name, extra) == nil)
	want = zzSorted(ins)
	verifrt.Assert("C11.sortmany-links-sorted-stable-after-add", zzSameLinks(n.Links(), want))
	raw, err = n.EncodeProtobuf(false)
	verifrt.Assert("C11.sortmany-rawdata-sorted-stable-after-add", err == nil && bytes.Equal(raw, zzEnc(n.data, want)))
	verifrt.Observe("nlinks", len(n.Links()))
	verifrt.Reach("end")
}
