package merkledag

import (
	"bytes"
	"encoding/binary"
	"hash"
	"math"

	"github.com/ipfs/boxo/internal/verifrt"
	cid "github.com/ipfs/go-cid"
	format "github.com/ipfs/go-ipld-format"
	mh "github.com/multiformats/go-multihash"
	mhcore "github.com/multiformats/go-multihash/core"
)

// ---------------------------------------------------------------------------------------------------------
// T1: cache invalidation as an inductive step. Pre-state: any node content (<= NL links with names from
// {"", "a", "b"}, symbolic Tsize, nil / 1-byte data, default or v1 builder) with any cache state allowed by
//   Inv:  encoded != nil && !linksDirty  =>  encoded is the encoding of the current content
//                                            && (cached defined => cached = builder.Sum(encoded))
// then one operation, then the observable reads. Under the engine marshalImmutable is an injective
// serialisation and the hash an uninterpreted collision-free function; natively both are the real ones.
// ---------------------------------------------------------------------------------------------------------

// zzMarshal is the engine-side stand-in for (*ProtoNode).marshalImmutable: injective in (data incl. nil-ness,
// links in Links() order: name, Tsize, CID).
func zzMarshal(n *ProtoNode) (*immutableProtoNode, error) {
	if zzRealCodec {
		return n.marshalImmutable()
	}
	links := n.Links()
	out := []byte{0xD0}
	var tmp [8]byte
	out = append(out, byte(len(links)))
	for _, l := range links {
		out = append(out, byte(len(l.Name)))
		out = append(out, l.Name...)
		binary.BigEndian.PutUint64(tmp[:], l.Size)
		out = append(out, tmp[:]...)
		cb := l.Cid.Bytes()
		out = append(out, byte(len(cb)))
		out = append(out, cb...)
	}
	if n.data != nil {
		out = append(out, 1, byte(len(n.data)))
		out = append(out, n.data...)
	} else {
		out = append(out, 0)
	}
	return &immutableProtoNode{encoded: out}, nil
}

// zzMhSum is the engine-side stand-in for multihash.Sum.
func zzMhSum(data []byte, code uint64, length int) (mh.Multihash, error) {
	if code == mh.IDENTITY {
		return mh.Encode(data, mh.IDENTITY)
	}
	if length < 0 {
		length = 32
	}
	algo := "crypto:mh-sha2-256"
	if code != mh.SHA2_256 {
		algo = "crypto:mh-other"
	}
	return mh.Encode(verifrt.HashUF(algo, data, length), code)
}

// zzGetHasher is the engine-side stand-in for multihash/core.GetVariableHasher (the registry is populated
// from crypto/* constructors, which the engine does not run): known codes are usable, others are not.
// Only the error is looked at by checkHasher.
func zzGetHasher(code uint64, sizeHint int) (hash.Hash, error) {
	switch code {
	case mh.IDENTITY, mh.SHA2_256, mh.SHA2_512, mh.SHA1:
		return nil, nil
	}
	return nil, mhcore.ErrSumNotSupported
}

func zzIdCid(b byte) cid.Cid {
	m, err := mh.Encode([]byte{b}, mh.IDENTITY)
	if err != nil {
		panic(err)
	}
	return cid.NewCidV1(cid.Raw, m)
}

var zzNames = []string{"", "a", "b"}

// zzChild is a minimal format.Node to link to.
type zzChild struct {
	format.Node
	c  cid.Cid
	sz uint64
}

func (c *zzChild) Cid() cid.Cid          { return c.c }
func (c *zzChild) Size() (uint64, error) { return c.sz, nil }

// ---- reference model -------------------------------------------------------------------------------------

type zzModel struct {
	data    []byte
	links   []*format.Link // insertion order (or as-decoded order)
	builder cid.Builder    // nil = never set
}

func (m *zzModel) clone() *zzModel {
	return &zzModel{data: m.data, links: append([]*format.Link(nil), m.links...), builder: m.builder}
}

// stable insertion sort by name (independent of slices.SortStableFunc)
func zzSorted(in []*format.Link) []*format.Link {
	out := make([]*format.Link, 0, len(in))
	for _, l := range in {
		i := len(out)
		for i > 0 && out[i-1].Name > l.Name {
			i--
		}
		out = append(out, nil)
		copy(out[i+1:], out[i:])
		out[i] = l
	}
	return out
}

// zzCopyData copies a data slice keeping the difference between nil and empty.
func zzCopyData(d []byte) []byte {
	if d == nil {
		return nil
	}
	out := make([]byte, len(d))
	copy(out, d)
	return out
}

// enc returns the reference encoding of (data, links in the given order): a cache-free node is encoded.
func zzEnc(data []byte, links []*format.Link) []byte {
	tmp := &ProtoNode{data: data, links: append([]*format.Link(nil), links...)}
	e, err := tmp.marshalImmutable()
	if err != nil {
		panic(err)
	}
	return e.encoded
}

func (m *zzModel) sum(enc []byte) cid.Cid {
	var b cid.Builder = v0CidPrefix
	if m.builder != nil {
		b = m.builder
	}
	c, err := b.Sum(enc)
	if err != nil {
		panic(err)
	}
	return c
}

func zzSameLinks(a, b []*format.Link) bool {
	if len(a) != len(b) {
		return false
	}
	ok := true
	for i := range a {
		ok = ok && a[i].Name == b[i].Name && a[i].Size == b[i].Size && a[i].Cid == b[i].Cid
	}
	return ok
}

// zzInv is the cache invariant (white box).
func zzInv(n *ProtoNode) bool {
	if n.encoded == nil || n.linksDirty {
		return true
	}
	if !bytes.Equal(zzEnc(n.data, n.links), n.encoded.encoded) {
		return false
	}
	if n.cached.Defined() {
		c, err := n.CidBuilder().Sum(n.encoded.encoded)
		return err == nil && c == n.cached
	}
	return true
}

// zzCopyDataRule: what the property lets us demand of the data of a node produced by Copy / UpdateNodeLink is
// that it is the same byte string; whether a present-but-empty Data field stays present is not stated (Copy turns
// it into an absent one — upstream behaviour, recorded in DESIGN.md 11.7 as an observation). The copy's own
// nil-ness is taken over into its model, so that every other clause (CID = hash of its encoding, encoding =
// reference encoding of its data and sorted links, decode round trip) is checked on the copy as it is.
func zzCopyDataRule(res *ProtoNode, mres *zzModel) {
	if res == nil {
		return
	}
	verifrt.Assert("C11.copy-data-bytes-equal", bytes.Equal(res.Data(), mres.data))
	if len(mres.data) == 0 {
		mres.data = zzCopyData(res.Data())
	}
}

// zzCheck: the observable reads of n agree with model m. mutated = an operation that changes links ran, so
// the encoding must be the sorted one; otherwise an as-decoded (unsorted, never touched) order is also fine.
func zzCheck(tag string, n *ProtoNode, m *zzModel, mustSort bool) {
	raw, err := n.EncodeProtobuf(false)
	verifrt.Assert("C11.encode-ok-"+tag, err == nil)
	c := n.Cid()
	raw2 := n.RawData()
	verifrt.Assert("C11.rawdata-stable-"+tag, bytes.Equal(raw, raw2))
	sorted := zzSorted(m.links)
	encSorted := zzEnc(m.data, sorted)
	if mustSort {
		verifrt.Assert("C11.rawdata-current-sorted-"+tag, bytes.Equal(raw, encSorted))
	} else {
		verifrt.Assert("C11.rawdata-current-"+tag, bytes.Equal(raw, encSorted) || bytes.Equal(raw, zzEnc(m.data, m.links)))
	}
	verifrt.Assert("C11.cid-is-hash-of-rawdata-"+tag, c == m.sum(raw))
	verifrt.Assert("C11.multihash-"+tag, bytes.Equal(n.Multihash(), c.Hash()))
	ls := n.Links()
	if mustSort {
		verifrt.Assert("C11.links-sorted-stable-"+tag, zzSameLinks(ls, sorted))
	} else {
		verifrt.Assert("C11.links-"+tag, zzSameLinks(ls, sorted) || zzSameLinks(ls, m.links))
	}
	verifrt.Assert("C11.data-"+tag, bytes.Equal(n.Data(), m.data) && (n.Data() == nil) == (m.data == nil))
}

func zzNondetLink(tag string, slot byte) *format.Link {
	name := zzNames[verifrt.NondetRange(tag+".name", 0, len(zzNames)-1)]
	sz := verifrt.NondetU64(tag + ".tsize")
	return &format.Link{Name: name, Size: sz, Cid: zzIdCid(slot)}
}

func zzIsSorted(ls []*format.Link) bool {
	for i := 1; i < len(ls); i++ {
		if ls[i-1].Name > ls[i].Name {
			return false
		}
	}
	return true
}

// zzPreState builds an arbitrary node satisfying Inv together with its model.
func zzPreState() (*ProtoNode, *zzModel) {
	nl := verifrt.NondetRange("nl", 0, verifrt.Param("NL", 1))
	m := &zzModel{}
	for i := 0; i < nl; i++ {
		l := zzNondetLink("pre", byte(1+i))
		verifrt.Assume(l.Size <= math.MaxInt64)
		m.links = append(m.links, l)
	}
	switch verifrt.NondetRange("pre.datakind", 0, 2) {
	case 1:
		m.data = []byte{} // present but empty: encoded as an empty Data field, unlike nil
	case 2:
		m.data = verifrt.NondetBytes("pre.data", 1)
	}
	if verifrt.NondetBool("pre.v1") {
		m.builder = v1CidPrefix
	}
	n := &ProtoNode{data: zzCopyData(m.data), builder: m.builder}
	for _, l := range m.links {
		n.links = append(n.links, &format.Link{Name: l.Name, Size: l.Size, Cid: l.Cid})
	}
	n.linksDirty = verifrt.NondetBool("pre.dirty")
	// cache state: 0 none, 1 encoded valid + cid valid, 2 encoded valid + no cid, 3 garbage (only where Inv allows)
	switch verifrt.NondetRange("pre.cache", 0, 3) {
	case 1:
		n.encoded = &immutableProtoNode{encoded: zzEnc(n.data, n.links)}
		n.cached = m.sum(n.encoded.encoded)
	case 2:
		n.encoded = &immutableProtoNode{encoded: zzEnc(n.data, n.links)}
	case 3:
		if n.linksDirty {
			n.encoded = &immutableProtoNode{encoded: []byte{0xEE}}
		}
		n.cached = zzIdCid(0x77)
		verifrt.Assume(n.linksDirty || n.encoded == nil)
	}
	return n, m
}

var zzOps = []string{"none", "SetData", "AddRawLink", "AddNodeLink", "RemoveNodeLink", "SetLinks", "SetCidBuilder",
	"Links", "EncodeProtobuf", "Copy", "UpdateNodeLink", "Tree", "Size"}

// HarnessC11Step: Inv-state, one operation, reads.
func HarnessC11Step() {
	n, m := zzPreState()
	// a never-mutated node may carry its links in as-decoded order; anything else must come out sorted
	mustSort := n.linksDirty || zzIsSorted(m.links)
	lo, hi := verifrt.Param("OPLO", 0), verifrt.Param("OPHI", len(zzOps)-1)
	op := zzOps[verifrt.NondetRange("op", lo, hi)]
	m0 := m.clone()
	var res *ProtoNode // node produced by Copy / UpdateNodeLink
	var mres *zzModel
	switch op {
	case "none":
	case "SetData":
		var d []byte
		switch verifrt.NondetRange("op.datakind", 0, 3) {
		case 1:
			d = []byte{}
		case 2:
			d = verifrt.NondetBytes("op.data", 1)
		case 3:
			// the caller edits the buffer the node already holds in place and hands it in again
			d = n.Data()
			if len(d) == 1 {
				x := verifrt.NondetU8("op.flip")
				verifrt.Assume(x != 0)
				d[0] ^= x
			}
		}
		n.SetData(d)
		m.data = zzCopyData(d)
	case "AddRawLink":
		l := zzNondetLink("op", 9)
		verifrt.Assume(l.Size <= math.MaxInt64)
		err := n.AddRawLink(l.Name, &format.Link{Name: "zz", Size: l.Size, Cid: l.Cid})
		verifrt.Assert("C11.addrawlink-ok", err == nil)
		m.links = append(m.links, l)
		mustSort = true
	case "AddNodeLink":
		name := zzNames[verifrt.NondetRange("op.name", 0, len(zzNames)-1)]
		ch := &zzChild{c: zzIdCid(9), sz: verifrt.NondetU64("op.tsize")}
		verifrt.Assume(ch.sz <= math.MaxInt64)
		err := n.AddNodeLink(name, ch)
		verifrt.Assert("C11.addnodelink-ok", err == nil)
		m.links = append(m.links, &format.Link{Name: name, Size: ch.sz, Cid: ch.c})
		mustSort = true
	case "RemoveNodeLink":
		name := zzNames[verifrt.NondetRange("op.name", 0, len(zzNames)-1)]
		err := n.RemoveNodeLink(name)
		var keep []*format.Link
		for _, l := range m.links {
			if l.Name != name {
				keep = append(keep, l)
			}
		}
		found := len(keep) != len(m.links)
		verifrt.Observe("err", err != nil)
		verifrt.Assert("C11.removenodelink-result", (err == nil) == found && (found || err == ErrLinkNotFound))
		if found {
			m.links = keep
			mustSort = true
		}
	case "SetLinks":
		k := verifrt.NondetRange("op.n", 0, 2)
		var ls []*format.Link
		for i := 0; i < k; i++ {
			l := zzNondetLink("op", byte(9+i))
			verifrt.Assume(l.Size <= math.MaxInt64)
			ls = append(ls, l)
		}
		err := n.SetLinks(ls)
		verifrt.Assert("C11.setlinks-ok", err == nil)
		m.links = ls
		mustSort = true
	case "SetCidBuilder":
		var b cid.Builder
		switch verifrt.NondetRange("op.builder", 0, 3) {
		case 1:
			b = v0CidPrefix
		case 2:
			b = v1CidPrefix
		case 3:
			p := cid.Prefix{Version: 1, Codec: cid.Raw, MhType: mh.SHA2_256, MhLength: -1} // codec is forced to dag-pb
			b = &p
		}
		err := n.SetCidBuilder(b)
		verifrt.Assert("C11.setcidbuilder-ok", err == nil)
		if b == nil {
			m.builder = nil
		} else {
			m.builder = b.WithCodec(cid.DagProtobuf)
		}
	case "Links":
		_ = n.Links()
	case "EncodeProtobuf":
		_, err := n.EncodeProtobuf(verifrt.NondetBool("op.force"))
		verifrt.Assert("C11.encodeprotobuf-ok", err == nil)
	case "Copy":
		res = n.Copy().(*ProtoNode)
		mres = m.clone()
		zzCopyDataRule(res, mres)
	case "UpdateNodeLink":
		name := zzNames[verifrt.NondetRange("op.name", 0, len(zzNames)-1)]
		that := NodeWithData(verifrt.NondetBytes("op.child", 1))
		var err error
		res, err = n.UpdateNodeLink(name, that)
		verifrt.Assert("C11.updatenodelink-ok", err == nil)
		mres = m.clone()
		zzCopyDataRule(res, mres)
		var keep []*format.Link
		for _, l := range mres.links {
			if l.Name != name {
				keep = append(keep, l)
			}
		}
		sz, _ := that.Size()
		mres.links = append(keep, &format.Link{Name: name, Size: sz, Cid: that.Cid()})
	case "Tree":
		_ = n.Tree("", -1)
	case "Size":
		_, err := n.Size()
		verifrt.Assert("C11.size-ok", err == nil)
	}
	inv := zzInv(n)
	if res != nil {
		verifrt.Assert("C11.inv-result-"+op, zzInv(res))
		zzCheck("result-"+op, res, mres, true)
	}
	zzCheck(op, n, m, mustSort)
	verifrt.Assert("C11.inv-after-"+op, inv)
	verifrt.Assert("C11.inv-after-reads-"+op, zzInv(n))
	_ = m0
	verifrt.Reach("end")
}
