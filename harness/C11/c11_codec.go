package merkledag

import (
	"bytes"
	"math"

	"github.com/ipfs/boxo/internal/verifrt"
	cid "github.com/ipfs/go-cid"
	format "github.com/ipfs/go-ipld-format"
	mh "github.com/multiformats/go-multihash"
)

// ---------------------------------------------------------------------------------------------------------
// T3: the real encoder / decoder (marshalImmutable, unmarshal, go-codec-dagpb, ipld-prime builders,
// protowire) on nodes with <= NL links, names of 0..2 symbolic bytes, symbolic Tsize, 0..2 data bytes.
// Oracle: an independent dag-pb wire encoder written here from the dag-pb spec (links sorted by name, equal
// names in insertion order, Hash/Name/Tsize fields, Data last).
// ---------------------------------------------------------------------------------------------------------

// zzRealCodec makes the marshalImmutable stand-in fall through to the real function.
var zzRealCodec bool

func zzVarint(out []byte, v uint64) []byte {
	for v >= 0x80 {
		out = append(out, byte(v)|0x80)
		v >>= 7
	}
	return append(out, byte(v))
}

// zzWire is the reference dag-pb encoding of (data, links already in serialisation order).
func zzWire(data []byte, links []*format.Link) []byte {
	var out []byte
	for _, l := range links {
		cb := l.Cid.Bytes()
		var msg []byte
		msg = append(msg, 0x0a)
		msg = zzVarint(msg, uint64(len(cb)))
		msg = append(msg, cb...)
		msg = append(msg, 0x12)
		msg = zzVarint(msg, uint64(len(l.Name)))
		msg = append(msg, l.Name...)
		msg = append(msg, 0x18)
		msg = zzVarint(msg, l.Size)
		out = append(out, 0x12)
		out = zzVarint(out, uint64(len(msg)))
		out = append(out, msg...)
	}
	if data != nil {
		out = append(out, 0x0a)
		out = zzVarint(out, uint64(len(data)))
		out = append(out, data...)
	}
	return out
}

func zzV0Cid(b byte) cid.Cid {
	d := make([]byte, 32)
	d[0], d[31] = b, 0xff
	m, err := mh.Encode(d, mh.SHA2_256)
	if err != nil {
		panic(err)
	}
	return cid.NewCidV0(m)
}

func HarnessC11Codec() { zzCodec() }

// HarnessC11CodecNames: the same with fewer links but longer names (prefix ordering "a" < "ab").
func HarnessC11CodecNames() { zzCodec() }

func zzCodec() {
	zzRealCodec = true
	defer func() { zzRealCodec = false }()
	nl := verifrt.NondetRange("nl", 0, verifrt.Param("NL", 2))
	maxName := verifrt.Param("NAME", 2)
	var ins []*format.Link
	for i := 0; i < nl; i++ {
		k := verifrt.NondetRange("namelen", 0, maxName)
		nb := verifrt.NondetBytes("name", k)
		for j := range nb {
			verifrt.Assume(nb[j] < 0x80)
		}
		sz := verifrt.NondetU64("tsize")
		verifrt.Assume(sz <= math.MaxInt64)
		if i > 0 {
			// only the first link ranges over all varint widths; the others stay below 2^14
			verifrt.Assume(sz < 1<<14)
		}
		c := zzIdCid(byte(1 + i))
		if i == 1 {
			c = zzV0Cid(7)
		}
		ins = append(ins, &format.Link{Name: string(nb), Size: sz, Cid: c})
	}
	var data []byte
	switch verifrt.NondetRange("datakind", 0, 3) {
	case 1:
		data = []byte{}
	case 2:
		data = verifrt.NondetBytes("data", 1)
	case 3:
		data = verifrt.NondetBytes("data", 2)
	}

	n := NodeWithData(data)
	for _, l := range ins {
		verifrt.Assert("C11.codec-addrawlink-ok", n.AddRawLink(l.Name, l) == nil)
	}
	enc, err := n.EncodeProtobuf(false)
	verifrt.Assert("C11.codec-encode-ok", err == nil)
	verifrt.Observe("enc", enc)
	sorted := zzSorted(ins)
	want := zzWire(data, sorted)
	verifrt.Assert("C11.codec-canonical-bytes", bytes.Equal(enc, want))
	verifrt.Assert("C11.codec-links-sorted-stable", zzSameLinks(n.Links(), sorted))

	// CID = hash of the encoding, for v0 and v1 builders
	c0 := n.Cid()
	w0, _ := v0CidPrefix.Sum(enc)
	verifrt.Assert("C11.codec-cid-v0", c0 == w0)
	n.SetCidBuilder(v1CidPrefix)
	c1 := n.Cid()
	w1, _ := v1CidPrefix.Sum(enc)
	verifrt.Assert("C11.codec-cid-v1", c1 == w1)

	// decoding yields the same data and links, and re-encodes to the same bytes
	dec, err := DecodeProtobuf(enc)
	verifrt.Assert("C11.codec-decode-ok", err == nil)
	if err != nil {
		verifrt.Reach("end")
		return
	}
	verifrt.Assert("C11.codec-decoded-links", zzSameLinks(dec.Links(), sorted))
	verifrt.Assert("C11.codec-decoded-data", bytes.Equal(dec.Data(), data))
	verifrt.Assert("C11.codec-decoded-rawdata", bytes.Equal(dec.encoded.encoded, enc))
	// re-encode the decoded node (marshalImmutable directly: no second hash application over re-derived terms)
	dec.encoded = nil
	re, err := dec.marshalImmutable()
	verifrt.Assert("C11.codec-reencode", err == nil && bytes.Equal(re.encoded, enc))

	// insertion order is irrelevant when the names are distinct
	distinct := true
	for i := range ins {
		for j := 0; j < i; j++ {
			if ins[i].Name == ins[j].Name {
				distinct = false
			}
		}
	}
	if distinct && nl > 1 {
		r := NodeWithData(data)
		for i := nl - 1; i >= 0; i-- {
			r.AddRawLink(ins[i].Name, ins[i])
		}
		renc, err := r.marshalImmutable()
		verifrt.Assert("C11.codec-order-independent", err == nil && bytes.Equal(renc.encoded, enc))
		if nl == 3 {
			// a rotation as well
			q := NodeWithData(data)
			for _, i := range []int{1, 2, 0} {
				q.AddRawLink(ins[i].Name, ins[i])
			}
			qenc, err := q.marshalImmutable()
			verifrt.Assert("C11.codec-order-independent", err == nil && bytes.Equal(qenc.encoded, enc))
		}
	}
	verifrt.Reach("end")
}
