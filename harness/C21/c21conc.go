package mfs

import (
	"context"
	"runtime"
	"sync"
	"time"

	"github.com/ipfs/boxo/internal/verifrt"
)

// ---- concurrent callers (exploring scheduler) ----------------------------------------------------------------

// before reports whether hand-in i returned before hand-in j started (real-time order of the calls).
func (r *zzvRec) before(i, j int) bool { return r.done[i] != 0 && r.done[i] < r.started[j] }

// handIn returns the index of the (unique) hand-in of pool value v, -1 if none.
func (r *zzvRec) handIn(v int) int {
	for i, x := range r.handed {
		if x == v {
			return i
		}
	}
	return -1
}

// covered: hand-in u is "published or superseded by a published later value" in the current log: some
// successful publish carries u's value or the value of a hand-in that is not older than u.
func (r *zzvRec) covered(u int) bool {
	for _, e := range r.log {
		p := r.handIn(e.val)
		if p >= 0 && (p == u || !r.before(p, u)) {
			return true
		}
	}
	return false
}

type zzvConcCfg struct {
	n1, gap, kind2, F int
	quiesce, stress  bool
}

func (r *zzvRec) returned(i int) bool {
	r.mu.Lock()
	defer r.mu.Unlock()
	return i < len(r.done) && r.done[i] != 0
}

var zzvConcIDs = []string{
	"C21.conc.waitpub-returns",
	"C21.conc.waitpub-implies-published",
	"C21.conc.close-returns-nil",
	"C21.conc.close-publishes-pending",
	"C21.conc.published-value-was-handed-in",
	"C21.conc.no-duplicate-publish",
	"C21.conc.no-regression",
	"C21.conc.something-published",
	"C21.conc.latest-eventually-published",
}

// zzvConcRun runs the scenario once: caller 1 hands in one or two fresh values (optional pause in between);
// caller 2 hands in one fresh value (kind2=0), or calls WaitPub (1), or calls Close (2). Every hand-in carries
// a distinct value, so the order oracle is exact: v is older than w iff Update(v) returned before Update(w)
// started. Returns the id of the first violated clause, "" if none.
func zzvConcRun(c zzvConcCfg) (bad string) {
	check := func(id string, ok bool) {
		if !ok && bad == "" {
			bad = id
		}
	}
	tm := zzvTimingCfg(0)
	r := &zzvRec{failsLeft: c.F, armed: -1}
	for i := range r.pool {
		r.pool[i] = zzvCid(i)
	}
	rp := NewRepublisher(r.publish, tm.short, tm.long, r.pool[r.initial])

	var wg sync.WaitGroup
	wg.Add(2)
	go func() {
		defer wg.Done()
		r.update(rp, 1)
		if c.n1 == 2 {
			switch c.gap {
			case 1:
				time.Sleep(tm.nap)
			case 2:
				time.Sleep(tm.sleepS)
			}
			r.update(rp, 2)
		}
	}()
	var waitErr, closeErr error
	covered := true
	go func() {
		defer wg.Done()
		if c.kind2 == 0 {
			r.update(rp, 3)
			return
		}
		if c.stress {
			// native stress only: start right after caller 1's first hand-in returned (the engine explores
			// every start point; natively this is where a second hand-in can overlap the call)
			for !r.returned(0) {
				runtime.Gosched()
			}
		}
		var seenAtCall []int // hand-ins that had returned when WaitPub/Close was called
		r.mu.Lock()
		for i := range r.handed {
			if r.done[i] != 0 {
				seenAtCall = append(seenAtCall, i)
			}
		}
		r.mu.Unlock()
		if c.kind2 == 1 {
			ctx, cancel := context.WithTimeout(context.Background(), time.Duration(c.F+3)*tm.sleepL)
			waitErr = rp.WaitPub(ctx)
			cancel()
		} else {
			closeErr = rp.Close()
		}
		r.mu.Lock()
		for _, u := range seenAtCall {
			if !r.covered(u) {
				covered = false
			}
		}
		r.mu.Unlock()
	}()
	wg.Wait()

	check("C21.conc.waitpub-returns", waitErr == nil)
	check("C21.conc.close-returns-nil", closeErr == nil)
	if c.kind2 == 1 {
		check("C21.conc.waitpub-implies-published", covered)
	} else {
		check("C21.conc.close-publishes-pending", covered)
	}

	quiescent := c.kind2 != 2 && c.quiesce
	if quiescent {
		for i := 0; i < c.F+2; i++ {
			time.Sleep(tm.sleepL)
			zzvSettle()
		}
	}
	r.mu.Lock()
	// the publish log: only handed-in values, no duplicates, never a value older than an earlier one
	prev := -1
	for k, e := range r.log {
		p := r.handIn(e.val)
		check("C21.conc.published-value-was-handed-in", p >= 0)
		if p < 0 {
			break
		}
		if k > 0 {
			check("C21.conc.no-duplicate-publish", p != prev)
			check("C21.conc.no-regression", !r.before(p, prev))
		}
		prev = p
	}
	if quiescent {
		// republisher still running: the last published value is a latest one (no hand-in started after its
		// hand-in returned)
		check("C21.conc.something-published", prev >= 0)
		if prev >= 0 {
			for j := range r.handed {
				check("C21.conc.latest-eventually-published", !r.before(prev, j))
			}
		}
	}
	r.mu.Unlock()
	if c.kind2 != 2 {
		rp.cancel()
	}
	return bad
}

// zzvConc: under the engine the scenario runs once under the exploring scheduler (pre-emption at every
// channel/select/timer operation, bounded number of pre-emptions; ready select cases and the order of
// runnable goroutines are symbolic choices). A schedule cannot be forced on the native runtime (there is no
// hook inside Update), so natively the same scenario is repeated on all cores until a clause fails or the
// budget is used up: a native confirmation of a schedule counterexample is a reproduction by stress.
func zzvConc(kind2 int) {
	c := zzvConcCfg{kind2: kind2, F: verifrt.Param("F", 0), quiesce: true}
	c.n1 = verifrt.NondetRange("n1", 1, 2)
	if c.n1 == 2 {
		c.gap = verifrt.NondetRange("gap", 0, 2)
	}
	bad := zzvConcRun(c)
	if !verifrt.Symbolic() {
		c.quiesce, c.stress = false, true
		start := time.Now()
		for i := 0; bad == "" && i < 3000000 && time.Since(start) < 45*time.Second; i++ {
			bad = zzvConcRun(c)
		}
	}
	for _, id := range zzvConcIDs {
		verifrt.Assert(id, bad != id)
	}
	verifrt.Reach("end")
}

// explore:1
func HarnessC21ConcUpdate() { zzvConc(0) }
func HarnessC21ConcWait()   { zzvConc(1) }
func HarnessC21ConcClose()  { zzvConc(2) }

// explore:2
func HarnessC21ConcUpdate2() { zzvConc(0) }
func HarnessC21ConcWait2()   { zzvConc(1) }
func HarnessC21ConcClose2()  { zzvConc(2) }

// HarnessC21SeqSel: the sequential script under the exploring scheduler with no pre-emption: which ready
// select case the republisher takes and which goroutine runs when the caller blocks are symbolic choices.
func HarnessC21SeqSel() { HarnessC21Seq() }
