package mfs

import (
	"context"
	"errors"
	"runtime"
	"sync"
	"time"

	"github.com/ipfs/boxo/internal/verifrt"
	cid "github.com/ipfs/go-cid"
	mh "github.com/multiformats/go-multihash"
)

// ---- value pool ------------------------------------------------------------------------------------------

const zzvPoolSize = 4

// zzvCid(i): four distinct concrete CIDs (raw codec, identity multihash of one byte).
func zzvCid(i int) cid.Cid {
	return cid.NewCidV1(cid.Raw, mh.Multihash([]byte{0x00, 0x01, byte('A' + i)}))
}

// ---- recording publish function --------------------------------------------------------------------------

// zzvMu21 is a real mutex natively; under the engine harness code between two synchronisation points of the
// code under test runs atomically, so the recorder adds no scheduling points of its own.
type zzvMu21 struct{ m sync.Mutex }

func (m *zzvMu21) Lock() {
	if !verifrt.Symbolic() {
		m.m.Lock()
	}
}

func (m *zzvMu21) Unlock() {
	if !verifrt.Symbolic() {
		m.m.Unlock()
	}
}

type zzvPubEntry struct {
	val    int // pool index of the published value (-1: not a pool value)
	handed int // number of completed-or-started hand-ins at the time of the publish call
}

// zzvRec is the reference bookkeeping: what was handed in (in hand-in order) and what the publish function
// was called with. All oracles are evaluated from the main goroutine over this log.
type zzvRec struct {
	mu        zzvMu21
	pool      [zzvPoolSize]cid.Cid
	initial   int
	handed    []int // pool index per Update call, in the order the calls started
	done      []int // logical time at which the i-th Update returned (0 = still running)
	started   []int // logical time at which the i-th Update started
	clock     int
	log       []zzvPubEntry // successful publishes
	attempts  int
	failsLeft int
	failures  int
	// armed >= 0: the next publish call hands pool value `armed` to the republisher from inside the publish
	// function, just before it returns — a deterministic placement of "an Update arrives while a publish is
	// in flight" (every state this reaches is reachable by a concurrent caller whose Update runs entirely
	// while the run loop is inside the publish function)
	armed int
	rp    *Republisher
}

func (r *zzvRec) index(c cid.Cid) int {
	for i := range r.pool {
		if r.pool[i].Equals(c) {
			return i
		}
	}
	return -1
}

func (r *zzvRec) publish(ctx context.Context, c cid.Cid) error {
	err := r.publish1(c)
	r.mu.Lock()
	v, rp := r.armed, r.rp
	r.armed = -1
	r.mu.Unlock()
	if v >= 0 && rp != nil {
		r.update(rp, v)
	}
	return err
}

func (r *zzvRec) publish1(c cid.Cid) error {
	r.mu.Lock()
	defer r.mu.Unlock()
	r.attempts++
	if r.failsLeft > 0 && verifrt.NondetBool("pubFail") {
		r.failsLeft--
		r.failures++
		return errors.New("publish failed")
	}
	r.log = append(r.log, zzvPubEntry{val: r.index(c), handed: len(r.handed)})
	return nil
}

// update hands pool value v to the republisher and records the call.
func (r *zzvRec) update(rp *Republisher, v int) {
	r.mu.Lock()
	r.clock++
	i := len(r.handed)
	r.handed = append(r.handed, v)
	r.started = append(r.started, r.clock)
	r.done = append(r.done, 0)
	r.mu.Unlock()
	rp.Update(r.pool[v])
	r.mu.Lock()
	r.clock++
	r.done[i] = r.clock
	r.mu.Unlock()
}

// lastPublished: value and attributed hand-in index of the most recent successful publish (initial value, -1
// when nothing was published yet).
func (r *zzvRec) lastPublished() (val, attr int) {
	val, attr = r.initial, -1
	for _, e := range r.log {
		val, attr = e.val, zzvAttr(r.handed, e)
	}
	return
}

// zzvAttr attributes a publish to the latest hand-in of the same value that started before the publish.
func zzvAttr(handed []int, e zzvPubEntry) int {
	for j := e.handed - 1; j >= 0; j-- {
		if handed[j] == e.val {
			return j
		}
	}
	return -1
}

// checkLog: the clauses of the property that are about the publish log alone.
func (r *zzvRec) checkLog() {
	r.mu.Lock()
	defer r.mu.Unlock()
	prevVal, prevAttr := r.initial, -1
	for _, e := range r.log {
		a := zzvAttr(r.handed, e)
		// only values that were handed in are published
		verifrt.Assert("C21.published-value-was-handed-in", e.val >= 0 && a >= 0)
		// never a value older than one already published
		verifrt.Assert("C21.no-regression", a >= prevAttr)
		// a value equal to the last published one is not published again
		verifrt.Assert("C21.no-duplicate-publish", e.val != prevVal)
		prevVal, prevAttr = e.val, a
	}
}

// ---- time ------------------------------------------------------------------------------------------------
//
// The same durations are used under the engine (virtual clock, timers fire when every goroutine is blocked)
// and natively (real clock); the script's sleeps keep >= 100 ms distance from every timer expiry so that a
// native replay follows the same order of events.

type zzvTiming struct {
	short, long          time.Duration
	nap, sleepS, sleepL  time.Duration
}

func zzvTimingCfg(k int) zzvTiming {
	if k == 0 {
		// long timer = retry timer only
		return zzvTiming{short: 300 * time.Millisecond, long: 1500 * time.Millisecond,
			nap: 150 * time.Millisecond, sleepS: 600 * time.Millisecond, sleepL: 2000 * time.Millisecond}
	}
	// long timer expires while updates keep re-arming the short one:
	// U@0 nap U@400 (short -> 1000) nap(->800): long@700 fires inside the second nap
	return zzvTiming{short: 600 * time.Millisecond, long: 700 * time.Millisecond,
		nap: 400 * time.Millisecond, sleepS: 900 * time.Millisecond, sleepL: 1100 * time.Millisecond}
}

func zzvSettle() {
	if verifrt.Symbolic() {
		verifrt.Drain()
		return
	}
	time.Sleep(25 * time.Millisecond)
}

// ---- sequential script (one caller) ------------------------------------------------------------------------

// HarnessC21Seq: one caller issues a script of Update / settle / nap / sleep / WaitPub operations, then
// optionally Close; publish calls fail on a symbolic subset (at most F failures). Canonical schedule
// (run-until-block); the script's explicit settle points decide which intermediate values the republisher
// goroutine gets to see, so every counterexample is deterministic natively (GOMAXPROCS=1).
func HarnessC21Seq() {
	if !verifrt.Symbolic() {
		defer runtime.GOMAXPROCS(runtime.GOMAXPROCS(1))
	}
	K := verifrt.Param("K", 4)
	F := verifrt.Param("F", 1)
	V := verifrt.Param("V", 3)
	tm := zzvTimingCfg(verifrt.NondetRange("timing", 0, verifrt.Param("T", 1)))

	r := &zzvRec{failsLeft: F, armed: -1}
	for i := range r.pool {
		r.pool[i] = zzvCid(i)
	}
	rp := NewRepublisher(r.publish, tm.short, tm.long, r.pool[r.initial])
	r.rp = rp

	closed := false
	nops := verifrt.NondetRange("nops", 1, K)
	for i := 0; i < nops && !closed; i++ {
		switch verifrt.NondetRange("op", 0, 5+verifrt.Param("ARM", 1)) {
		case 6: // the next publish call is overlapped by a hand-in of this value
			r.mu.Lock()
			r.armed = verifrt.NondetRange("val", 0, V-1)
			r.mu.Unlock()
		case 0: // hand in a value
			r.update(rp, verifrt.NondetRange("val", 0, V-1))
		case 1: // the republisher goroutine runs until it blocks; no time passes
			zzvSettle()
		case 2: // less than the short timeout passes
			time.Sleep(tm.nap)
			zzvSettle()
		case 3: // more than the short timeout passes
			time.Sleep(tm.sleepS)
			zzvSettle()
		case 4: // more than the long timeout passes
			time.Sleep(tm.sleepL)
			zzvSettle()
		case 5:
			zzvWaitPubChecked(r, rp, tm)
		}
		r.checkLog()
	}

	if verifrt.NondetRange("close", 0, 1) == 1 {
		r.mu.Lock()
		nh := len(r.handed)
		r.mu.Unlock()
		err := rp.Close()
		// closeTimeout (5 s) is longer than (F+1) retry periods, so Close cannot time out
		verifrt.Assert("C21.close-returns-nil", err == nil)
		r.mu.Lock()
		val, _ := r.lastPublished()
		if nh > 0 {
			verifrt.Assert("C21.close-publishes-pending", zzvLatestFrom(r.handed, nh-1, val))
		} else {
			verifrt.Assert("C21.close-publishes-nothing-unasked", len(r.log) == 0)
		}
		r.mu.Unlock()
		stopped := false
		select {
		case <-rp.stopped:
			stopped = true
		default:
		}
		verifrt.Assert("C21.close-stops-run", stopped)
	} else {
		// quiescence: every remaining failure can burn one retry period
		for i := 0; i < F+2; i++ {
			time.Sleep(tm.sleepL)
			zzvSettle()
		}
		r.mu.Lock()
		val, _ := r.lastPublished()
		if n := len(r.handed); n > 0 {
			verifrt.Assert("C21.latest-eventually-published", r.handed[n-1] == val)
		} else {
			verifrt.Assert("C21.nothing-published-unasked", len(r.log) == 0)
		}
		r.mu.Unlock()
		// a WaitPub at quiescence returns at once
		zzvWaitPubChecked(r, rp, tm)
		rp.cancel()
	}
	r.checkLog()
	r.mu.Lock()
	verifrt.Observe("handed", r.handed)
	verifrt.Observe("published", zzvVals(r.log))
	verifrt.Observe("failures", r.failures)
	r.mu.Unlock()
	verifrt.Reach("end")
}

// zzvLatestFrom: val is the value of hand-in `from` or of a later one (a hand-in that overlapped the call
// may legitimately be the published one).
func zzvLatestFrom(handed []int, from, val int) bool {
	for j := from; j < len(handed); j++ {
		if handed[j] == val {
			return true
		}
	}
	return false
}

func zzvVals(log []zzvPubEntry) []int {
	out := make([]int, 0, len(log))
	for _, e := range log {
		out = append(out, e.val)
	}
	return out
}

// zzvWaitPubChecked calls WaitPub with a deadline far beyond every retry the failure budget allows and checks
// its contract: it returns nil, and then the latest value handed in before the call is the published one.
func zzvWaitPubChecked(r *zzvRec, rp *Republisher, tm zzvTiming) {
	r.mu.Lock()
	nh := len(r.handed)
	budget := time.Duration(r.failsLeft+3) * tm.sleepL
	r.mu.Unlock()
	ctx, cancel := context.WithTimeout(context.Background(), budget)
	err := rp.WaitPub(ctx)
	cancel()
	verifrt.Assert("C21.waitpub-returns", err == nil)
	r.mu.Lock()
	val, _ := r.lastPublished()
	if nh > 0 {
		verifrt.Assert("C21.waitpub-implies-published", zzvLatestFrom(r.handed, nh-1, val))
	}
	r.mu.Unlock()
}

// HarnessC21SeqArm: the sequential script with the "hand-in overlapping a publish" operation (thorough tier; in the
// quick tier HarnessC21Seq itself runs with that operation).
func HarnessC21SeqArm() { HarnessC21Seq() }
