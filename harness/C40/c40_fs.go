package keystore

import (
	"bytes"
	"errors"
	"io/fs"
	"os"
	"path/filepath"
	"sort"
	"strings"

	"github.com/ipfs/boxo/internal/verifrt"
	ci "github.com/libp2p/go-libp2p/core/crypto"
	pb "github.com/libp2p/go-libp2p/core/crypto/pb"
)

// ---------------------------------------------------------------------------------------------------------
// Flat directory model bound to the os.* calls of keystore.go under the engine (natively: a real temp dir).
// Every call is checked for confinement: its path must be <dir>/<one component that is not "." or "..">.

type zzvKFile struct {
	path string
	data []byte
}

type zzvKDisk struct {
	dir     string
	dirMade bool
	files   []*zzvKFile
	open    map[*os.File]*zzvKFile
	dirs    map[*os.File]string
}

var zzvK *zzvKDisk

func (d *zzvKDisk) confined(path string) {
	pre := d.dir + "/"
	verifrt.Assert("C40.fs-path-under-keystore-dir", strings.HasPrefix(path, pre))
	if !strings.HasPrefix(path, pre) {
		return
	}
	base := path[len(pre):]
	verifrt.Assert("C40.fs-path-single-component-nonempty", len(base) > 0)
	for i := 0; i < len(base); i++ {
		verifrt.Assert("C40.fs-path-no-separator", base[i] != '/')
		verifrt.Assert("C40.fs-path-no-nul", base[i] != 0)
	}
	verifrt.Assert("C40.fs-path-not-dot", base != "." && base != "..")
}

func (d *zzvKDisk) find(path string) *zzvKFile {
	for _, f := range d.files {
		if f.path == path {
			return f
		}
	}
	return nil
}

func zzvKMkdir(name string, perm os.FileMode) error {
	if zzvK.dirMade {
		return &fs.PathError{Op: "mkdir", Path: name, Err: fs.ErrExist}
	}
	zzvK.dirMade = true
	zzvK.dir = name
	return nil
}

type zzvKInfo struct{ fs.FileInfo }

func zzvKStat(name string) (os.FileInfo, error) {
	zzvK.confined(name)
	if zzvK.find(name) == nil {
		return nil, &fs.PathError{Op: "stat", Path: name, Err: fs.ErrNotExist}
	}
	return zzvKInfo{}, nil
}

func zzvKOpenFile(name string, flag int, perm os.FileMode) (*os.File, error) {
	d := zzvK
	d.confined(name)
	f := d.find(name)
	if f != nil {
		if flag&os.O_EXCL != 0 && flag&os.O_CREATE != 0 {
			return nil, &fs.PathError{Op: "open", Path: name, Err: fs.ErrExist}
		}
		if flag&os.O_TRUNC != 0 {
			f.data = nil
		}
	} else {
		if flag&os.O_CREATE == 0 {
			return nil, &fs.PathError{Op: "open", Path: name, Err: fs.ErrNotExist}
		}
		f = &zzvKFile{path: name}
		d.files = append(d.files, f)
	}
	h := new(os.File)
	d.open[h] = f
	return h, nil
}

func zzvKFileWrite(h *os.File, b []byte) (int, error) {
	f := zzvK.open[h]
	if f == nil {
		return 0, fs.ErrClosed
	}
	// O_WRONLY without O_APPEND on a fresh descriptor: the write starts at offset 0
	if len(b) >= len(f.data) {
		f.data = append([]byte(nil), b...)
	} else {
		copy(f.data, b)
	}
	return len(b), nil
}

func zzvKFileClose(h *os.File) error { return nil }

func zzvKReadFile(name string) ([]byte, error) {
	zzvK.confined(name)
	f := zzvK.find(name)
	if f == nil {
		return nil, &fs.PathError{Op: "open", Path: name, Err: fs.ErrNotExist}
	}
	return append([]byte(nil), f.data...), nil
}

func zzvKRemove(name string) error {
	d := zzvK
	d.confined(name)
	for i, f := range d.files {
		if f.path == name {
			d.files = append(d.files[:i:i], d.files[i+1:]...)
			return nil
		}
	}
	return &fs.PathError{Op: "remove", Path: name, Err: fs.ErrNotExist}
}

func zzvKOpen(name string) (*os.File, error) {
	verifrt.Assert("C40.fs-open-is-keystore-dir", name == zzvK.dir)
	h := new(os.File)
	zzvK.dirs[h] = name
	return h, nil
}

func zzvKReaddirnames(h *os.File, n int) ([]string, error) {
	var out []string
	for _, f := range zzvK.files {
		out = append(out, filepath.Base(f.path))
	}
	return out, nil
}

// Keys: opaque codec under the engine, real Ed25519 keys natively.
type zzvKey struct{ id byte }

func (k *zzvKey) Equals(o ci.Key) bool {
	ok, is := o.(*zzvKey)
	return is && ok.id == k.id
}
func (k *zzvKey) Raw() ([]byte, error)          { return []byte{k.id}, nil }
func (k *zzvKey) Type() pb.KeyType              { return pb.KeyType_Ed25519 }
func (k *zzvKey) Sign([]byte) ([]byte, error)   { return nil, errors.New("not modelled") }
func (k *zzvKey) GetPublic() ci.PubKey          { return nil }
func zzvMarshalPriv(k ci.PrivKey) ([]byte, error) { return []byte{'K', k.(*zzvKey).id}, nil }
func zzvUnmarshalPriv(b []byte) (ci.PrivKey, error) {
	if len(b) != 2 || b[0] != 'K' {
		return nil, errors.New("zzv: bad key bytes")
	}
	return &zzvKey{id: b[1]}, nil
}

func zzvKeyPool() []ci.PrivKey {
	if verifrt.Symbolic() {
		return []ci.PrivKey{&zzvKey{1}, &zzvKey{2}}
	}
	var out []ci.PrivKey
	for i := byte(1); i <= 2; i++ {
		k, _, err := ci.GenerateEd25519Key(bytes.NewReader(bytes.Repeat([]byte{i}, 64)))
		if err != nil {
			panic(err)
		}
		out = append(out, k)
	}
	return out
}

// HarnessC40Ops: K operations (put/get/has/delete/list) over three names -- "n"+x and "n"+y with x, y arbitrary
// bytes (so equal, case variants, separators, NUL, dots are all in range) and the concrete hostile name
// "../n" -- against FSKeystore (over the directory model) and MemKeystore side by side.
func HarnessC40Ops() {
	x := verifrt.NondetU8("x")
	y := verifrt.NondetU8("y")
	names := []string{string([]byte{'n', x}), string([]byte{'n', y}), "../n"}
	keys := zzvKeyPool()

	root := "/home"
	cleanup := func() {}
	if verifrt.Symbolic() {
		zzvK = &zzvKDisk{open: map[*os.File]*zzvKFile{}, dirs: map[*os.File]string{}}
	} else {
		tmp, err := os.MkdirTemp("", "zzvc40-")
		if err != nil {
			panic(err)
		}
		root = tmp
		cleanup = func() { os.RemoveAll(tmp) }
	}
	defer cleanup()
	dir := root + "/ks"
	fsks, err := NewFSKeystore(dir)
	verifrt.Assert("C40.new-ok", err == nil)
	if err != nil {
		return
	}
	mem := NewMemKeystore()

	k := verifrt.NondetRange("k", 1, verifrt.Param("K", 2))
	for i := 0; i < k; i++ {
		op := verifrt.NondetRange("op", 0, 4)
		var name string
		if op != 4 {
			name = names[verifrt.NondetRange("name", 0, verifrt.Param("NAMES", 3)-1)]
		}
		switch op {
		case 0: // put
			key := keys[verifrt.NondetRange("key", 0, 1)]
			e1 := fsks.Put(name, key)
			e2 := mem.Put(name, key)
			verifrt.Observe("put", e1 == nil)
			verifrt.Assert("C40.put-agrees", (e1 == nil) == (e2 == nil))
			verifrt.Assert("C40.put-refuses-overwrite-with-ErrKeyExists", e2 == nil || (errors.Is(e1, ErrKeyExists) && errors.Is(e2, ErrKeyExists)))
		case 1: // get
			k1, e1 := fsks.Get(name)
			k2, e2 := mem.Get(name)
			verifrt.Observe("get", e1 == nil)
			verifrt.Assert("C40.get-agrees", (e1 == nil) == (e2 == nil))
			if e1 == nil && e2 == nil {
				verifrt.Assert("C40.get-returns-stored-key", k1.Equals(k2))
			} else if e2 != nil {
				verifrt.Assert("C40.get-missing-is-ErrNoSuchKey", errors.Is(e1, ErrNoSuchKey))
			}
		case 2: // has
			h1, e1 := fsks.Has(name)
			h2, e2 := mem.Has(name)
			verifrt.Observe("has", h1)
			verifrt.Assert("C40.has-no-error", e1 == nil && e2 == nil)
			verifrt.Assert("C40.has-agrees", h1 == h2)
		case 3: // delete (the in-memory keystore does not report a missing key; only the effect is compared)
			present, _ := mem.Has(name)
			e1 := fsks.Delete(name)
			_ = mem.Delete(name)
			verifrt.Observe("del", e1 == nil)
			if present {
				verifrt.Assert("C40.delete-present-succeeds", e1 == nil)
			}
			h1, _ := fsks.Has(name)
			verifrt.Assert("C40.delete-removes", !h1)
		case 4: // list
			l1, e1 := fsks.List()
			l2, e2 := mem.List()
			verifrt.Assert("C40.list-no-error", e1 == nil && e2 == nil)
			verifrt.Assert("C40.list-same-count", len(l1) == len(l2))
			if len(l1) == len(l2) {
				sort.Strings(l1)
				sort.Strings(l2)
				same := true
				for j := range l1 {
					if l1[j] != l2[j] {
						same = false
					}
				}
				verifrt.Assert("C40.list-same-names", same)
			}
		}
	}
	// nothing but key_* files in the keystore directory, nothing but the keystore directory next to it
	if verifrt.Symbolic() {
		for _, f := range zzvK.files {
			zzvK.confined(f.path)
			verifrt.Assert("C40.dir-holds-only-key-files", strings.HasPrefix(filepath.Base(f.path), keyFilenamePrefix))
		}
	} else {
		ents, err := os.ReadDir(root)
		if err != nil {
			panic(err)
		}
		verifrt.Assert("C40.fs-path-under-keystore-dir", len(ents) == 1 && ents[0].Name() == "ks")
		inner, err := os.ReadDir(dir)
		if err != nil {
			panic(err)
		}
		for _, e := range inner {
			verifrt.Assert("C40.dir-holds-only-key-files", strings.HasPrefix(e.Name(), keyFilenamePrefix) && !e.IsDir())
		}
	}
	verifrt.Reach("end")
}
