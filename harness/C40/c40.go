package keystore

import (
	"strings"

	"github.com/ipfs/boxo/internal/verifrt"
)

// HarnessC40Codec: file-name encoding kernel. For every name of 1..N arbitrary bytes (slashes, dots, NUL,
// UTF-8, upper/lower case): encode succeeds, yields "key_" + lower-case unpadded base32 (so no separator, no
// dot, no NUL, nothing a case-insensitive file system could fold together), of the length base32 prescribes,
// and decode gives the name back (hence encode is injective: two names never share a file).
func HarnessC40Codec() {
	n := verifrt.NondetRange("n", 1, verifrt.Param("N", 5))
	name := verifrt.NondetString("name", n)
	enc, err := encode(name)
	verifrt.Observe("enc", enc)
	verifrt.Assert("C40.encode-accepts-nonempty", err == nil)
	verifrt.Assert("C40.encode-prefix", strings.HasPrefix(enc, keyFilenamePrefix))
	verifrt.Assert("C40.encode-length", len(enc) == len(keyFilenamePrefix)+(8*n+4)/5)
	ok := true
	for i := len(keyFilenamePrefix); i < len(enc) && i >= 0; i++ {
		ok = ok && verifrt.OneOf(enc[i], "abcdefghijklmnopqrstuvwxyz234567")
	}
	verifrt.Assert("C40.encode-alphabet", ok)
	dec, err := decode(enc)
	verifrt.Assert("C40.decode-accepts-encoded", err == nil)
	verifrt.Assert("C40.decode-inverts-encode", dec == name)
	verifrt.Reach("end")
}

// HarnessC40Pair: two names of (possibly different) lengths: equal encodings only for equal names, also when
// the file system folds case (the encodings are compared case-insensitively).
func HarnessC40Pair() {
	n1 := verifrt.NondetRange("n1", 1, verifrt.Param("N", 3))
	n2 := verifrt.NondetRange("n2", 1, verifrt.Param("N", 3))
	a := verifrt.NondetString("a", n1)
	b := verifrt.NondetString("b", n2)
	ea, err1 := encode(a)
	eb, err2 := encode(b)
	verifrt.Assert("C40.pair-encode-ok", err1 == nil && err2 == nil)
	same := zzvEqualFoldB32(ea, eb)
	verifrt.Observe("same", same)
	verifrt.Assert("C40.encode-injective", same == (a == b))
	verifrt.Reach("end")
}

// HarnessC40Empty: the empty name is refused by both keystores' entry points.
func HarnessC40Empty() {
	_, err := encode("")
	verifrt.Assert("C40.empty-name-rejected", err != nil)
	_, err = decode("nokeyprefix")
	verifrt.Assert("C40.decode-requires-prefix", err != nil)
	verifrt.Reach("end")
}

// zzvEqualFoldB32 compares two encoded names the way a case-insensitive file system would, without branching
// per byte (for the alphabet [A-Za-z2-7] folding is "set bit 0x20").
func zzvEqualFoldB32(a, b string) bool {
	if len(a) != len(b) {
		return false
	}
	var diff byte
	for i := 0; i < len(a); i++ {
		diff |= (a[i] | 0x20) ^ (b[i] | 0x20)
	}
	return diff == 0
}

// zzvToLower / zzvToUpper are bound to strings.ToLower / strings.ToUpper under the engine. The real functions
// branch per byte on "is an upper-case letter" (2^len paths); for pure-ASCII input the stubs compute the same
// result with a per-byte conditional expression; any other input goes to the real function.
func zzvToLower(s string) string {
	var m byte
	for i := 0; i < len(s); i++ {
		m |= s[i]
	}
	if m >= 0x80 {
		return strings.ToLower(s)
	}
	b := make([]byte, len(s))
	for i := 0; i < len(s); i++ {
		c := s[i]
		if c-'A' < 26 {
			c += 'a' - 'A'
		}
		b[i] = c
	}
	return string(b)
}

func zzvToUpper(s string) string {
	var m byte
	for i := 0; i < len(s); i++ {
		m |= s[i]
	}
	if m >= 0x80 {
		return strings.ToUpper(s)
	}
	b := make([]byte, len(s))
	for i := 0; i < len(s); i++ {
		c := s[i]
		if c-'a' < 26 {
			c -= 'a' - 'A'
		}
		b[i] = c
	}
	return string(b)
}
