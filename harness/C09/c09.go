package io

import (
	"bytes"
	"context"
	"io"

	"github.com/ipfs/boxo/internal/verifrt"
	dag "github.com/ipfs/boxo/ipld/merkledag"
	balanced "github.com/ipfs/boxo/ipld/unixfs/importer/balanced"
	h "github.com/ipfs/boxo/ipld/unixfs/importer/helpers"
	trickle "github.com/ipfs/boxo/ipld/unixfs/importer/trickle"
	cid "github.com/ipfs/go-cid"
	ipld "github.com/ipfs/go-ipld-format"
)

func zzCfg9(cfg int) (cid.Prefix, bool) {
	switch cfg {
	case 0:
		return dag.V0CidPrefix(), false
	case 1:
		return dag.V1CidPrefix(), true
	}
	return dag.V1CidPrefix(), false
}

// zzBuild9 imports the chunks: layout 0 = balanced, 1 = trickle, 2 = trickle.Layout of the first half followed by
// trickle.Append of the rest (the DAG the modifier produces when a file grows).
func zzBuild9(layout int, ds *zzDag, chunks [][]byte, width int, prefix cid.Prefix, raw bool) ipld.Node {
	mk := func(cs [][]byte) *h.DagBuilderHelper {
		dbp := h.DagBuilderParams{Dagserv: ds, Maxlinks: width, RawLeaves: raw, CidBuilder: prefix}
		db, err := dbp.New(&zzSplit{chunks: cs})
		if err != nil {
			panic(err)
		}
		return db
	}
	var nd ipld.Node
	var err error
	switch layout {
	case 0:
		nd, err = balanced.Layout(mk(chunks))
	case 1:
		nd, err = trickle.Layout(mk(chunks))
	default:
		half := len(chunks) / 2
		nd, err = trickle.Layout(mk(chunks[:half]))
		if err == nil {
			nd, err = trickle.Append(context.Background(), nd, mk(chunks[half:]))
		}
		if err == nil {
			err = ds.Add(context.Background(), nd)
		}
	}
	if err != nil {
		panic(err)
	}
	return nd
}

// OPLO=1 leaves out CtxReadFull (Read is CtxReadFull with the reader's own context)
var zzOps9 = []string{"CtxReadFull", "Read", "Seek", "WriteTo"}

// HarnessC09Ops: K operations on the UnixFS reader of a small multi-leaf file, each compared with the standard
// library's bytes.Reader over the file content.
func HarnessC09Ops() {
	zzIntern = nil
	K := verifrt.Param("K", 2)
	layout := verifrt.NondetRange("layout", verifrt.Param("LAYLO", 0), verifrt.Param("LAY", 1))
	n := verifrt.NondetRange("n", verifrt.Param("NLO", 0), verifrt.Param("N", 3))
	width := verifrt.NondetRange("width", verifrt.Param("WLO", 2), verifrt.Param("W", 2))
	sizePat := verifrt.NondetRange("sizes", verifrt.Param("SZLO", 0), verifrt.Param("SZ", 1))
	fill := verifrt.NondetRange("fill", verifrt.Param("FILLLO", 0), verifrt.Param("FILL", 0))
	cfg := verifrt.NondetRange("cfg", verifrt.Param("CFGLO", 0), verifrt.Param("CFG", 1))
	lmax := verifrt.Param("L", 3)
	prefix, raw := zzCfg9(cfg)
	chunks := zzChunks("chunk", n, sizePat, fill, 0)
	content := zzConcat(chunks)
	size := int64(len(content))

	ds := &zzDag{}
	root := zzBuild9(layout, ds, chunks, width, prefix, raw)
	dr, err := NewDagReader(context.Background(), root, ds)
	verifrt.Assert("C09.open-succeeds", err == nil)
	if err != nil {
		verifrt.Reach("end")
		return
	}
	verifrt.Assert("C09.size", dr.Size() == uint64(size))
	br := bytes.NewReader(content)

	for step := 0; step < K; step++ {
		op := zzOps9[verifrt.NondetRange("op", verifrt.Param("OPLO", 0), verifrt.Param("OPHI", len(zzOps9)-1))]
		switch op {
		case "Read", "CtxReadFull":
			L := verifrt.NondetRange("len", verifrt.Param("LLO", 0), lmax)
			buf := make([]byte, L)
			ref := make([]byte, L)
			var got int
			var gerr error
			if op == "Read" {
				got, gerr = dr.Read(buf)
			} else {
				got, gerr = dr.CtxReadFull(context.Background(), buf)
			}
			want, rerr := br.Read(ref)
			verifrt.Observe("n", got)
			verifrt.Observe("eof", gerr == io.EOF)
			verifrt.Assert("C09.read-count", got == want)
			verifrt.Assert("C09.read-error-class", gerr == nil || gerr == io.EOF)
			if got == want {
				verifrt.Assert("C09.read-bytes", zzBytesEq(buf[:got], ref[:want]))
			}
			// end-of-file signal: never before the end; always when nothing could be delivered to a non-empty buffer;
			// the reader is a full reader (documented), so a short count means the end was reached.
			verifrt.Assert("C09.read-eof-only-at-end", gerr != io.EOF || br.Len() == 0)
			verifrt.Assert("C09.read-eof-signalled", !(rerr == io.EOF && L > 0) || gerr == io.EOF)
			verifrt.Assert("C09.read-short-count-means-eof", got == L || gerr == io.EOF)
		case "Seek":
			off := verifrt.NondetI64("off")
			verifrt.Assume(off >= -(size + 2))
			verifrt.Assume(off <= size+2)
			whence := verifrt.NondetRange("whence", 0, verifrt.Param("WH", 3))
			got, gerr := dr.Seek(off, whence)
			want, rerr := br.Seek(off, whence)
			verifrt.Observe("seekerr", gerr != nil)
			verifrt.Assert("C09.seek-error-class", (gerr != nil) == (rerr != nil))
			if gerr == nil && rerr == nil {
				verifrt.Observe("seekoff", got)
				verifrt.Assert("C09.seek-offset", got == want)
			}
		case "WriteTo":
			var w, rw bytes.Buffer
			got, gerr := dr.WriteTo(&w)
			want, _ := br.WriteTo(&rw)
			verifrt.Observe("wn", got)
			verifrt.Assert("C09.writeto-ok", gerr == nil)
			verifrt.Assert("C09.writeto-count", got == want)
			verifrt.Assert("C09.writeto-bytes", zzBytesEq(w.Bytes(), rw.Bytes()))
		}
		// position after every call
		pos, perr := dr.Seek(0, io.SeekCurrent)
		rpos, _ := br.Seek(0, io.SeekCurrent)
		verifrt.Assert("C09.position", perr == nil && pos == rpos)
	}
	// whatever happened, the rest of the file is still what the byte reader has left
	var w, rw bytes.Buffer
	got, gerr := dr.WriteTo(&w)
	want, _ := br.WriteTo(&rw)
	verifrt.Assert("C09.final-drain", gerr == nil && got == want && zzBytesEq(w.Bytes(), rw.Bytes()))
	verifrt.Reach("end")
}

// HarnessC09OpsSym: same body with symbolic file bytes (parameters in spec.json).
func HarnessC09OpsSym() { HarnessC09Ops() }

// HarnessC09OpsSmall: same body on the degenerate files (empty, single leaf = root, two leaves).
func HarnessC09OpsSmall() { HarnessC09Ops() }

// HarnessC09Ops3: same body, three operations on fewer file shapes.
func HarnessC09Ops3() { HarnessC09Ops() }
