package hamt

import (
	"context"
	"os"

	"github.com/ipfs/boxo/internal/verifrt"
	ipld "github.com/ipfs/go-ipld-format"
)

var zzvPool = []string{"a", "b", "c"}

// Hash values of the pool names (the HAMT hash function is replaced by this table, natively too).
// table 0: no shared prefix. table 1: a/c share the first 8 bits, b shares the first 5 bits with them.
// table 2: a/c share the first 16 bits (a chain of single-child shards at small widths), b as in table 1.
// table 3: a/b share the first 8 bits (a chain at width 8, one sub-shard at 16..256) and part at a high slot of the
// sub-shard (0xE0), c sits alone in a root slot between them (0x20): the sibling of the sub-shard is a root value.
var zzvTables = [][][]byte{
	{{0x00, 0, 0, 0, 0, 0, 0, 1}, {0x20, 0, 0, 0, 0, 0, 0, 2}, {0x40, 0, 0, 0, 0, 0, 0, 3}},
	{{0x00, 0, 0, 0, 0, 0, 0, 1}, {0x04, 0, 0, 0, 0, 0, 0, 2}, {0x00, 0x80, 0, 0, 0, 0, 0, 3}},
	{{0x00, 0, 0, 0, 0, 0, 0, 1}, {0x04, 0, 0, 0, 0, 0, 0, 2}, {0x00, 0x00, 0x80, 0, 0, 0, 0, 3}},
	{{0x00, 0, 0, 0, 0, 0, 0, 1}, {0x00, 0xE0, 0, 0, 0, 0, 0, 2}, {0x20, 0, 0, 0, 0, 0, 0, 3}},
}

var zzvWidths = []int{8, 256, 1024, 16, 64}

func zzvSameListing(id string, links []*ipld.Link, model map[string]int, nodes []*zzvChild) {
	verifrt.Assert(id+"-count", len(links) == len(model))
	seen := map[string]bool{}
	for _, l := range links {
		idx, ok := model[l.Name]
		verifrt.Assert(id+"-only-model-names", ok)
		verifrt.Assert(id+"-no-duplicates", !seen[l.Name])
		seen[l.Name] = true
		if ok {
			verifrt.Assert(id+"-target", l.Cid.Equals(nodes[idx].c))
			verifrt.Assert(id+"-tsize", l.Size == nodes[idx].size)
		}
	}
}

func zzvCheckShard(ctx context.Context, where string, s *Shard, model map[string]int, nodes []*zzvChild) {
	for _, name := range zzvPool {
		lnk, err := s.Find(ctx, name)
		if idx, ok := model[name]; ok {
			verifrt.Assert("C15.shard-find-present-"+where, err == nil && lnk != nil && lnk.Cid.Equals(nodes[idx].c) && lnk.Size == nodes[idx].size)
		} else {
			verifrt.Assert("C15.shard-find-absent-not-exist-"+where, err != nil && os.IsNotExist(err))
		}
	}
	links, err := s.EnumLinks(ctx)
	verifrt.Assert("C15.shard-enumlinks-ok-"+where, err == nil)
	zzvSameListing("C15.shard-enumlinks-"+where, links, model, nodes)
	var each []*ipld.Link
	err = s.ForEachLink(ctx, func(l *ipld.Link) error {
		each = append(each, &ipld.Link{Name: l.Name, Size: l.Size, Cid: l.Cid})
		return nil
	})
	verifrt.Assert("C15.shard-foreach-ok-"+where, err == nil)
	zzvSameListing("C15.shard-foreach-"+where, each, model, nodes)
}

// HarnessC15ShardOps: K operations (Set with one of two targets, Remove, Take) over a three-name pool on a hamt.Shard
// of width 8/256/1024 (+16, 64 in the thorough tier) under each collision table; after every operation Find,
// EnumLinks (the asynchronous walk) and ForEachLink agree with a map model, removing a missing name reports
// os.ErrNotExist and leaves the model unchanged; at the end the root node is built, stored and loaded again
// (NewHamtFromDag) and must list the same entries, and it must equal the root of a shard built freshly from the final
// entries (canonical collapse).
func HarnessC15ShardOps() {
	ctx := context.Background()
	ds := &zzvDag{}
	tbl := zzvTables[verifrt.NondetRange("table", 0, verifrt.Param("TABLES", 3)-1)]
	zzvHashTable = map[string][]byte{}
	for i, n := range zzvPool {
		zzvHashTable[n] = tbl[i]
	}
	defer hamtHashHook()()
	width := zzvWidths[verifrt.NondetRange("width", 0, verifrt.Param("WIDTHS", 3)-1)]
	nodes := []*zzvChild{{c: zzvCid(0, 0xA1), size: 5}, {c: zzvCid(6, 0xA2), size: 300}}
	s, err := NewShard(ds, width)
	verifrt.Assert("C15.shard-new-ok", err == nil)
	model := map[string]int{}
	k := verifrt.Param("K", 3)
	for i := 0; i < k; i++ {
		name := zzvPool[verifrt.NondetRange("name", 0, len(zzvPool)-1)]
		op := verifrt.NondetRange("op", 0, 2)
		if op < 2 {
			err := s.Set(ctx, name, nodes[op])
			verifrt.Assert("C15.shard-set-ok", err == nil)
			model[name] = op
		} else {
			old, err := s.Take(ctx, name)
			if idx, ok := model[name]; ok {
				verifrt.Assert("C15.shard-take-returns-old", err == nil && old != nil && old.Cid.Equals(nodes[idx].c))
			} else {
				verifrt.Assert("C15.shard-remove-missing-not-exist", err != nil && os.IsNotExist(err))
			}
			delete(model, name)
		}
		zzvCheckShard(ctx, "live", s, model, nodes)
	}
	root, err := s.Node()
	verifrt.Assert("C15.shard-node-ok", err == nil)
	s2, err := NewHamtFromDag(ds, root)
	verifrt.Assert("C15.shard-reload-ok", err == nil)
	zzvCheckShard(ctx, "reloaded", s2, model, nodes)
	// and the reloaded (lazily loaded) shard can be edited: remove every entry again
	for _, name := range zzvPool {
		err := s2.Remove(ctx, name)
		if _, ok := model[name]; ok {
			verifrt.Assert("C15.shard-reloaded-remove-ok", err == nil)
		} else {
			verifrt.Assert("C15.shard-reloaded-remove-missing-not-exist", err != nil && os.IsNotExist(err))
		}
	}
	zzvCheckShard(ctx, "emptied", s2, map[string]int{}, nodes)
	// canonical form
	fresh, err := NewShard(ds, width)
	verifrt.Assert("C15.shard-new-ok", err == nil)
	for _, name := range zzvPool {
		if idx, ok := model[name]; ok {
			verifrt.Assert("C15.shard-fresh-set-ok", fresh.Set(ctx, name, nodes[idx]) == nil)
		}
	}
	froot, err := fresh.Node()
	verifrt.Assert("C15.shard-fresh-node-ok", err == nil)
	verifrt.Assert("C15.shard-root-equals-fresh-build", root.Cid().Equals(froot.Cid()))
	verifrt.Reach("end")
}

// zzvInitialSets: entry subsets of the three-name pool (bit i = pool name i) in the order the tiers take them: the
// sets with two or three entries first (they have sub-shards under the collision tables), then the rest.
var zzvInitialSets = []int{7, 5, 3, 6, 1, 4, 2, 0}

// zzvListingOnly compares one enumeration API that does not load children (EnumLinks: the asynchronous walk reads
// unloaded value links in place and fetches sub-shards without caching them) with the model.
func zzvListingOnly(ctx context.Context, where string, s *Shard, model map[string]int, nodes []*zzvChild) {
	links, err := s.EnumLinks(ctx)
	verifrt.Assert("C15.shard-enumlinks-ok-"+where, err == nil)
	zzvSameListing("C15.shard-enumlinks-"+where, links, model, nodes)
}

// HarnessC15ShardReload: histories that cross a serialize/reload boundary. A subset of the pool (chosen by the engine
// among the first INITIALS of zzvInitialSets; b is stored with the 135-byte target) is stored, the root is serialized (Node) and loaded again (NewHamtFromDag), so every child is an
// unloaded link. Optionally every child is loaded first (TOUCH). Then K2 operations (Set of a new name, Set that
// replaces a stored name with the other target, Take of a stored or a missing name; names hit top-level values,
// values inside sub-shards and chains of single-child shards depending on the collision table) run on the lazily
// loaded shard. After every operation the live shard is listed without loading anything (EnumLinks) and its
// serialization is loaded into a separate instance on which Find of every pool name, EnumLinks and ForEachLink must
// agree with the map model (so the next operation still sees unloaded siblings). At the end: Find/ForEachLink on the
// live shard, listing must not change the root, the root must equal the root of a shard built freshly from the final
// entries (canonical form: same links, same link names, same bitfield), and a third generation loaded from that root is
// emptied name by name down to the root of an empty shard.
func HarnessC15ShardReload() {
	ctx := context.Background()
	ds := &zzvDag{}
	tbl := zzvTables[verifrt.NondetRange("table", 0, verifrt.Param("TABLES", 4)-1)]
	zzvHashTable = map[string][]byte{}
	for i, n := range zzvPool {
		zzvHashTable[n] = tbl[i]
	}
	defer hamtHashHook()()
	width := zzvWidths[verifrt.NondetRange("width", 0, verifrt.Param("WIDTHS", 2)-1)]
	nodes := []*zzvChild{{c: zzvCid(0, 0xA1), size: 5}, {c: zzvCid(6, 0xA2), size: 300}}

	// generation 0: any entry set, serialized
	s0, err := NewShard(ds, width)
	verifrt.Assert("C15.shard-new-ok", err == nil)
	model := map[string]int{}
	initial := zzvInitialSets[verifrt.NondetRange("initial", 0, verifrt.Param("INITIALS", 4)-1)]
	for i, name := range zzvPool {
		if initial>>i&1 == 1 {
			verifrt.Assert("C15.reload-initial-set-ok", s0.Set(ctx, name, nodes[i&1]) == nil)
			model[name] = i & 1
		}
	}
	root0, err := s0.Node()
	verifrt.Assert("C15.shard-node-ok", err == nil)

	// generation 1: lazily loaded, edited
	s, err := NewHamtFromDag(ds, root0)
	verifrt.Assert("C15.shard-reload-ok", err == nil)
	if verifrt.NondetRange("touch", 0, verifrt.Param("TOUCH", 0)) == 1 {
		err := s.ForEachLink(ctx, func(*ipld.Link) error { return nil }) // loads and caches every child
		verifrt.Assert("C15.shard-foreach-ok-touch", err == nil)
	}
	k := verifrt.Param("K2", 1)
	for i := 0; i < k; i++ {
		name := zzvPool[verifrt.NondetRange("name", 0, len(zzvPool)-1)]
		op := verifrt.NondetRange("op", 0, 2)
		if op < 2 {
			err := s.Set(ctx, name, nodes[op])
			verifrt.Assert("C15.reload-set-ok", err == nil)
			model[name] = op
		} else {
			old, err := s.Take(ctx, name)
			if idx, ok := model[name]; ok {
				verifrt.Assert("C15.reload-take-returns-old", err == nil && old != nil && old.Cid.Equals(nodes[idx].c) && old.Size == nodes[idx].size)
			} else {
				verifrt.Assert("C15.reload-remove-missing-not-exist", err != nil && os.IsNotExist(err))
			}
			delete(model, name)
		}
		zzvListingOnly(ctx, "edited-live", s, model, nodes)
		nd, err := s.Node()
		verifrt.Assert("C15.shard-node-ok", err == nil)
		snap, err := NewHamtFromDag(ds, nd)
		verifrt.Assert("C15.shard-reload-ok", err == nil)
		zzvCheckShard(ctx, "edited-serialized", snap, model, nodes)
	}
	root, err := s.Node()
	verifrt.Assert("C15.shard-node-ok", err == nil)
	zzvCheckShard(ctx, "edited-live", s, model, nodes)
	root1, err := s.Node()
	verifrt.Assert("C15.shard-node-ok", err == nil)
	verifrt.Assert("C15.reload-listing-does-not-change-root", root1.Cid().Equals(root.Cid()))

	// canonical form
	fresh, err := NewShard(ds, width)
	verifrt.Assert("C15.shard-new-ok", err == nil)
	for _, name := range zzvPool {
		if idx, ok := model[name]; ok {
			verifrt.Assert("C15.shard-fresh-set-ok", fresh.Set(ctx, name, nodes[idx]) == nil)
		}
	}
	froot, err := fresh.Node()
	verifrt.Assert("C15.shard-fresh-node-ok", err == nil)
	verifrt.Assert("C15.reload-root-equals-fresh-build", root.Cid().Equals(froot.Cid()))

	// generation 2: loaded from the edited root, emptied one name at a time, serialized after every removal
	s2, err := NewHamtFromDag(ds, root)
	verifrt.Assert("C15.shard-reload-ok", err == nil)
	for _, name := range zzvPool {
		err := s2.Remove(ctx, name)
		if _, ok := model[name]; ok {
			verifrt.Assert("C15.shard-reloaded-remove-ok", err == nil)
		} else {
			verifrt.Assert("C15.shard-reloaded-remove-missing-not-exist", err != nil && os.IsNotExist(err))
		}
		delete(model, name)
		nd, err := s2.Node()
		verifrt.Assert("C15.shard-node-ok", err == nil)
		snap, err := NewHamtFromDag(ds, nd)
		verifrt.Assert("C15.shard-reload-ok", err == nil)
		zzvCheckShard(ctx, "emptying-serialized", snap, model, nodes)
	}
	zzvCheckShard(ctx, "emptied", s2, model, nodes)
	eroot, err := s2.Node()
	verifrt.Assert("C15.shard-node-ok", err == nil)
	empty, err := NewShard(ds, width)
	verifrt.Assert("C15.shard-new-ok", err == nil)
	enode, err := empty.Node()
	verifrt.Assert("C15.shard-fresh-node-ok", err == nil)
	verifrt.Assert("C15.reload-emptied-root-equals-empty-shard", eroot.Cid().Equals(enode.Cid()))
	verifrt.Reach("end")
}
