package hamt

import (
	"context"
	"encoding/binary"
	"errors"
	"hash"
	"os"
	"time"

	"github.com/ipfs/boxo/internal/verifrt"
	"github.com/ipfs/boxo/ipld/unixfs/internal"
	pb "github.com/ipfs/boxo/ipld/unixfs/pb"
	cid "github.com/ipfs/go-cid"
	ipld "github.com/ipfs/go-ipld-format"
	mh "github.com/multiformats/go-multihash"
	mhcore "github.com/multiformats/go-multihash/core"
	"google.golang.org/protobuf/proto"
)

// ---------------------------------------------------------------------------------------------------
// protobuf model for the UnixFS Data message (engine only; natively the real protobuf-go runs and the
// translator validation compares lengths/bytes). Written from unixfs.proto (proto2 wire format).
// ---------------------------------------------------------------------------------------------------

func zzvAppendVarint(b []byte, v uint64) []byte {
	for v >= 0x80 {
		b = append(b, byte(v)|0x80)
		v >>= 7
	}
	return append(b, byte(v))
}

func zzvEncTimestamp(t *pb.IPFSTimestamp) ([]byte, error) {
	var b []byte
	if t.Seconds == nil {
		return nil, errors.New("required field seconds not set")
	}
	b = append(b, 0x08)
	b = zzvAppendVarint(b, uint64(*t.Seconds))
	if t.Nanos != nil {
		b = append(b, 0x15)
		b = binary.LittleEndian.AppendUint32(b, *t.Nanos)
	}
	return b, nil
}

func zzvEncData(d *pb.Data) ([]byte, error) {
	var b []byte
	if d.Type == nil {
		return nil, errors.New("required field Type not set")
	}
	b = append(b, 0x08)
	b = zzvAppendVarint(b, uint64(int64(int32(*d.Type))))
	if d.Data != nil {
		b = append(b, 0x12)
		b = zzvAppendVarint(b, uint64(len(d.Data)))
		b = append(b, d.Data...)
	}
	if d.Filesize != nil {
		b = append(b, 0x18)
		b = zzvAppendVarint(b, *d.Filesize)
	}
	for _, s := range d.Blocksizes {
		b = append(b, 0x20)
		b = zzvAppendVarint(b, s)
	}
	if d.HashType != nil {
		b = append(b, 0x28)
		b = zzvAppendVarint(b, *d.HashType)
	}
	if d.Fanout != nil {
		b = append(b, 0x30)
		b = zzvAppendVarint(b, *d.Fanout)
	}
	if d.Mode != nil {
		b = append(b, 0x38)
		b = zzvAppendVarint(b, uint64(*d.Mode))
	}
	if d.Mtime != nil {
		tb, err := zzvEncTimestamp(d.Mtime)
		if err != nil {
			return nil, err
		}
		b = append(b, 0x42)
		b = zzvAppendVarint(b, uint64(len(tb)))
		b = append(b, tb...)
	}
	return b, nil
}

func zzvMarshal(m proto.Message) ([]byte, error) {
	switch x := m.(type) {
	case *pb.Data:
		return zzvEncData(x)
	case *pb.IPFSTimestamp:
		return zzvEncTimestamp(x)
	}
	panic("zzvMarshal: unmodelled message type")
}

var errZzvTrunc = errors.New("proto: truncated")

func zzvReadVarint(b []byte, i int) (uint64, int, error) {
	var v uint64
	for shift := uint(0); shift < 70; shift += 7 {
		if i >= len(b) {
			return 0, i, errZzvTrunc
		}
		c := b[i]
		i++
		v |= uint64(c&0x7f) << shift
		if c < 0x80 {
			return v, i, nil
		}
	}
	return 0, i, errors.New("proto: varint overflow")
}

func zzvSkip(b []byte, i int, wt uint64) (int, error) {
	switch wt {
	case 0:
		_, j, err := zzvReadVarint(b, i)
		return j, err
	case 1:
		if i+8 > len(b) {
			return i, errZzvTrunc
		}
		return i + 8, nil
	case 2:
		l, j, err := zzvReadVarint(b, i)
		if err != nil {
			return j, err
		}
		if uint64(len(b)-j) < l {
			return j, errZzvTrunc
		}
		return j + int(l), nil
	case 5:
		if i+4 > len(b) {
			return i, errZzvTrunc
		}
		return i + 4, nil
	}
	return i, errors.New("proto: bad wire type")
}

func zzvDecTimestamp(b []byte, t *pb.IPFSTimestamp) error {
	t.Seconds, t.Nanos = nil, nil
	i := 0
	for i < len(b) {
		tag, j, err := zzvReadVarint(b, i)
		if err != nil {
			return err
		}
		i = j
		switch tag {
		case 0x08:
			v, j, err := zzvReadVarint(b, i)
			if err != nil {
				return err
			}
			i = j
			s := int64(v)
			t.Seconds = &s
		case 0x15:
			if i+4 > len(b) {
				return errZzvTrunc
			}
			n := binary.LittleEndian.Uint32(b[i:])
			i += 4
			t.Nanos = &n
		default:
			if i, err = zzvSkip(b, i, tag&7); err != nil {
				return err
			}
		}
	}
	if t.Seconds == nil {
		return errors.New("proto: required field seconds not set")
	}
	return nil
}

func zzvDecData(b []byte, d *pb.Data) error {
	d.Type, d.Data, d.Filesize, d.Blocksizes, d.HashType, d.Fanout, d.Mode, d.Mtime = nil, nil, nil, nil, nil, nil, nil, nil
	i := 0
	for i < len(b) {
		tag, j, err := zzvReadVarint(b, i)
		if err != nil {
			return err
		}
		i = j
		switch tag {
		case 0x08, 0x18, 0x20, 0x28, 0x30, 0x38:
			v, j, err := zzvReadVarint(b, i)
			if err != nil {
				return err
			}
			i = j
			switch tag {
			case 0x08:
				t := pb.Data_DataType(int32(v))
				d.Type = &t
			case 0x18:
				d.Filesize = &v
			case 0x20:
				d.Blocksizes = append(d.Blocksizes, v)
			case 0x28:
				d.HashType = &v
			case 0x30:
				d.Fanout = &v
			case 0x38:
				m := uint32(v)
				d.Mode = &m
			}
		case 0x12, 0x42:
			l, j, err := zzvReadVarint(b, i)
			if err != nil {
				return err
			}
			i = j
			if uint64(len(b)-i) < l {
				return errZzvTrunc
			}
			body := b[i : i+int(l)]
			i += int(l)
			if tag == 0x12 {
				d.Data = append([]byte{}, body...)
			} else {
				if d.Mtime == nil {
					d.Mtime = &pb.IPFSTimestamp{}
				}
				if err := zzvDecTimestamp(body, d.Mtime); err != nil {
					return err
				}
			}
		default:
			if i, err = zzvSkip(b, i, tag&7); err != nil {
				return err
			}
		}
	}
	if d.Type == nil {
		return errors.New("proto: required field Type not set")
	}
	return nil
}

func zzvUnmarshal(b []byte, m proto.Message) error {
	switch x := m.(type) {
	case *pb.Data:
		return zzvDecData(b, x)
	case *pb.IPFSTimestamp:
		return zzvDecTimestamp(b, x)
	}
	panic("zzvUnmarshal: unmodelled message type")
}

// ---------------------------------------------------------------------------------------------------
// helpers
// ---------------------------------------------------------------------------------------------------

// zzvCid builds a CID of one of several byte lengths without hashing (mh.Encode only frames the digest).
// class: 0 CIDv0 sha2-256 (34 B) | 1 CIDv1 raw sha2-256 (36) | 2 CIDv1 dag-json(0x0129) sha2-256 (37) |
// 3 CIDv1 dag-pb blake2b-256 (38) | 4 CIDv1 raw sha2-512 (68) | 5 CIDv1 raw identity, empty digest (4) |
// 6 CIDv1 raw identity 130-byte digest (135: length varint of the Hash field takes two bytes)
const zzvCidClasses = 7

func zzvCid(class int, salt byte) cid.Cid {
	mk := func(n int, code uint64) mh.Multihash {
		d := make([]byte, n)
		if n > 0 {
			d[0] = salt
		}
		m, err := mh.Encode(d, code)
		if err != nil {
			panic(err)
		}
		return m
	}
	switch class {
	case 0:
		return cid.NewCidV0(mk(32, mh.SHA2_256))
	case 1:
		return cid.NewCidV1(cid.Raw, mk(32, mh.SHA2_256))
	case 2:
		return cid.NewCidV1(0x0129, mk(32, mh.SHA2_256))
	case 3:
		return cid.NewCidV1(cid.DagProtobuf, mk(32, 0xb220))
	case 4:
		return cid.NewCidV1(cid.Raw, mk(64, mh.SHA2_512))
	case 5:
		return cid.NewCidV1(cid.Raw, mk(0, mh.IDENTITY))
	default:
		return cid.NewCidV1(cid.Raw, mk(130, mh.IDENTITY))
	}
}

func zzvName(n int, fill byte) string {
	b := make([]byte, n)
	for i := range b {
		b[i] = fill
	}
	return string(b)
}

// zzvChild is a minimal ipld.Node: a CID and a cumulative size, which is all MakeLink looks at.
type zzvChild struct {
	ipld.Node
	c    cid.Cid
	size uint64
}

func (n *zzvChild) Cid() cid.Cid            { return n.c }
func (n *zzvChild) Size() (uint64, error)   { return n.size, nil }
func (n *zzvChild) RawData() []byte         { return nil }
func (n *zzvChild) Links() []*ipld.Link     { return nil }
func (n *zzvChild) String() string          { return "zzvChild" }
func (n *zzvChild) Loggable() map[string]any { return nil }

func zzvNanos(name string) int64 {
	ns := int64(verifrt.NondetU32(name))
	verifrt.Assume(ns < 1000000000)
	return ns
}

// zzvMtime returns a symbolic wall-clock instant, or the zero time.
func zzvMtime() time.Time {
	if verifrt.NondetBool("mtime-unset") {
		return time.Time{}
	}
	return time.Unix(verifrt.NondetI64("s"), zzvNanos("ns"))
}


// ---------------------------------------------------------------------------------------------------
// hashing + in-memory DAG service
// ---------------------------------------------------------------------------------------------------

// zzvIntern numbers the distinct concrete hash inputs seen on a path.
var zzvIntern []string

// zzvMhSum stands in for multihash.Sum under the engine. Concrete input: an interned digest (01 | index), i.e. one
// particular collision-free deterministic function, so that concrete DAG surgery costs no solver work. Symbolic
// input: uninterpreted collision-free function (digests start with FE, never equal to an interned one).
func zzvMhSum(data []byte, code uint64, length int) (mh.Multihash, error) {
	if code == mh.IDENTITY {
		return mh.Encode(data, mh.IDENTITY)
	}
	if length < 0 {
		length = 32
	}
	if verifrt.IsConcrete(data) {
		key := string(data) + string(rune(code))
		idx := -1
		for i, k := range zzvIntern {
			if k == key {
				idx = i
			}
		}
		if idx < 0 {
			idx = len(zzvIntern)
			zzvIntern = append(zzvIntern, key)
		}
		d := make([]byte, length)
		d[0] = 0x01
		binary.BigEndian.PutUint32(d[1:], uint32(idx))
		return mh.Encode(d, code)
	}
	d := verifrt.HashUF("crypto:mh-sha2-256", data, length)
	verifrt.Assume(d[0] == 0xFE)
	return mh.Encode(d, code)
}

func zzvGetHasher(code uint64, sizeHint int) (hash.Hash, error) {
	switch code {
	case mh.IDENTITY, mh.SHA2_256, mh.SHA2_512, mh.SHA1:
		return nil, nil
	}
	return nil, mhcore.ErrSumNotSupported
}

func init() {
	if !verifrt.Symbolic() {
		verifrt.HashHook = func(algo string, data []byte, n int) []byte {
			m, err := mh.Sum(data, mh.SHA2_256, n)
			if err != nil {
				panic(err)
			}
			dm, _ := mh.Decode(m)
			return dm.Digest
		}
	}
}

// zzvDag is an in-memory ipld.DAGService.
type zzvDag struct {
	keys  []cid.Cid
	nodes []ipld.Node
	gets  int
}

func (d *zzvDag) find(c cid.Cid) int {
	for i := range d.keys {
		if d.keys[i].Equals(c) {
			return i
		}
	}
	return -1
}

func (d *zzvDag) Get(ctx context.Context, c cid.Cid) (ipld.Node, error) {
	d.gets++
	if i := d.find(c); i >= 0 {
		return d.nodes[i], nil
	}
	return nil, ipld.ErrNotFound{Cid: c}
}

func (d *zzvDag) GetMany(ctx context.Context, cs []cid.Cid) <-chan *ipld.NodeOption {
	out := make(chan *ipld.NodeOption, len(cs))
	for _, c := range cs {
		n, err := d.Get(ctx, c)
		out <- &ipld.NodeOption{Node: n, Err: err}
	}
	close(out)
	return out
}

func (d *zzvDag) Add(ctx context.Context, n ipld.Node) error {
	c := n.Cid()
	if d.find(c) < 0 {
		d.keys = append(d.keys, c)
		d.nodes = append(d.nodes, n)
	}
	return nil
}

func (d *zzvDag) AddMany(ctx context.Context, ns []ipld.Node) error {
	for _, n := range ns {
		d.Add(ctx, n)
	}
	return nil
}

func (d *zzvDag) Remove(ctx context.Context, c cid.Cid) error { return nil }

func (d *zzvDag) RemoveMany(ctx context.Context, cs []cid.Cid) error { return nil }

// zzvHashTable: the HAMT hash function is replaced (engine and native alike) by a table name -> 8 bytes chosen by
// the harness, so that every collision pattern of the pool can be enumerated and replays are exact.
var zzvHashTable map[string][]byte

func zzvTableHash(val []byte) []byte {
	h, ok := zzvHashTable[string(val)]
	if !ok {
		panic("zzvTableHash: name outside the pool: " + string(val))
	}
	return append([]byte{}, h...)
}

var _ time.Time
var _ os.FileMode

// hamtHashHook installs the table hash for the HAMT and returns the undo function.
func hamtHashHook() func() {
	saved := internal.HAMTHashFunction
	internal.HAMTHashFunction = zzvTableHash
	return func() { internal.HAMTHashFunction = saved }
}
