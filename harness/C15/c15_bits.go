package hamt

import (
	"github.com/ipfs/boxo/internal/verifrt"
)

// zzvRefBits is the reference extractor: the hash is one big-endian bit string, bit 0 = most significant bit of
// byte 0; bits [from, from+n) read as an unsigned integer.
func zzvRefBits(h []byte, from, n int) int {
	out := 0
	for k := 0; k < n; k++ {
		pos := from + k
		bit := int(h[pos/8]>>(7-uint(pos%8))) & 1
		out = out<<1 | bit
	}
	return out
}

// HarnessC15HashBits: hashBits.Next(i) for a symbolic 8-byte hash, any number of already consumed bits (0..64,
// concrete per path so that the reference loop is straight-line) and every shard width 2^1..2^10: value, cursor
// advance and the "too deep" boundary.
func HarnessC15HashBits() {
	h := verifrt.NondetBytes("h", 8)
	consumed := verifrt.NondetRange("consumed", 0, 64)
	i := verifrt.NondetRange("i", 1, 10)
	hb := &hashBits{b: append([]byte{}, h...), consumed: consumed}
	got, err := hb.Next(i)
	verifrt.Observe("got", got)
	verifrt.Observe("err", err != nil)
	if consumed+i > 64 {
		verifrt.Assert("C15.bits-too-deep-error", err != nil)
		verifrt.Assert("C15.bits-error-keeps-cursor", hb.consumed == consumed)
	} else {
		verifrt.Assert("C15.bits-no-error", err == nil)
		verifrt.Assert("C15.bits-value", got == zzvRefBits(h, consumed, i))
		verifrt.Assert("C15.bits-cursor", hb.consumed == consumed+i)
	}
	verifrt.Reach("end")
}

// HarnessC15HashBitsSeq: the way the HAMT uses it - repeated Next(lg2) from the start until the error; the
// concatenation of the returned indexes is the hash prefix, and the error comes exactly when fewer than lg2 bits remain.
func HarnessC15HashBitsSeq() {
	h := verifrt.NondetBytes("h", 8)
	lg := verifrt.NondetRange("lg2", 3, 10)
	hb := &hashBits{b: append([]byte{}, h...)}
	steps := 0
	for pos := 0; ; pos += lg {
		got, err := hb.Next(lg)
		if pos+lg > 64 {
			verifrt.Assert("C15.seq-too-deep-error", err != nil)
			break
		}
		verifrt.Assert("C15.seq-no-error", err == nil)
		verifrt.Assert("C15.seq-value", got == zzvRefBits(h, pos, lg))
		verifrt.Assert("C15.seq-index-in-table", got >= 0 && got < 1<<uint(lg))
		steps++
	}
	verifrt.Observe("steps", steps)
	verifrt.Assert("C15.seq-depth", steps == 64/lg)
	// a cursor restored with newConsumedHashBits-style state continues identically
	verifrt.Reach("end")
}

// HarnessC15Logtwo: Logtwo(v) succeeds exactly on positive powers of two and returns the exponent.
func HarnessC15Logtwo() {
	v := verifrt.NondetInt("v")
	lg, err := Logtwo(v)
	verifrt.Observe("lg", lg)
	verifrt.Observe("err", err != nil)
	pow2 := v > 0 && v&(v-1) == 0
	verifrt.Assert("C15.logtwo-accepts-exactly-powers-of-two", (err == nil) == pow2)
	if err == nil {
		verifrt.Assert("C15.logtwo-range", lg >= 0 && lg < 63)
		verifrt.Assert("C15.logtwo-value", 1<<uint(lg) == v)
	}
	verifrt.Reach("end")
}
