package trickle

import (
	"context"

	"github.com/ipfs/boxo/internal/verifrt"
	dag "github.com/ipfs/boxo/ipld/merkledag"
	ft "github.com/ipfs/boxo/ipld/unixfs"
	h "github.com/ipfs/boxo/ipld/unixfs/importer/helpers"
	cid "github.com/ipfs/go-cid"
	ipld "github.com/ipfs/go-ipld-format"
	mh "github.com/multiformats/go-multihash"
)

// ---------------------------------------------------------------------------------------------------------
// T1 kernel: trickleDepthInfo against the defining equation of the layout.
// Layout adds `width` leaves first, then sub-trees in layers of depthRepeat: the j-th sub-tree (j = 0,1,..)
// belongs to layer j/depthRepeat+1 at position j%depthRepeat. For a node with n >= width children the next
// sub-tree to add is number j = n-width, hence (depth, repeat) is the unique pair with
//   n = width + depthRepeat*(depth-1) + repeat, depth >= 1, 0 <= repeat < depthRepeat.
// The child count is symbolic: FSNodeOverDag.NumChildren is bound to zzNumChildren under the engine; natively
// a node with that many block sizes is built.
// ---------------------------------------------------------------------------------------------------------
var zzNC struct {
	on bool
	v  int
}

func zzNumChildren(n *h.FSNodeOverDag) int {
	if zzNC.on {
		return zzNC.v
	}
	return n.NumChildren()
}

func HarnessC08DepthInfo() {
	lim := verifrt.Param("NC", 100000)
	n := int(verifrt.NondetU32("children"))
	w := int(verifrt.NondetU32("width"))
	verifrt.Assume(n <= lim)
	verifrt.Assume(w >= 1)
	verifrt.Assume(w <= lim)
	var node *h.FSNodeOverDag
	if verifrt.Symbolic() {
		nd, err := h.NewFSNFromDag(dag.NodeWithData(ft.FilePBData(nil, 0)))
		if err != nil {
			panic(err)
		}
		node = nd
		zzNC.on, zzNC.v = true, n
	} else {
		fsn := ft.NewFSNode(ft.TFile)
		for i := 0; i < n; i++ {
			fsn.AddBlockSize(1)
		}
		b, err := fsn.GetBytes()
		if err != nil {
			panic(err)
		}
		nd, err := h.NewFSNFromDag(dag.NodeWithData(b))
		if err != nil {
			panic(err)
		}
		node = nd
	}
	depth, repeat := trickleDepthInfo(node, w)
	zzNC.on = false
	verifrt.Observe("depth", depth)
	verifrt.Observe("repeat", repeat)
	if n < w {
		verifrt.Assert("C08.depthinfo-leaf-layer-unfilled", depth == 0 && repeat == 0)
	} else {
		verifrt.Assert("C08.depthinfo-depth-positive", depth >= 1)
		verifrt.Assert("C08.depthinfo-repeat-in-range", repeat >= 0 && repeat < depthRepeat)
		verifrt.Assert("C08.depthinfo-position-equation", n == w+depthRepeat*(depth-1)+repeat)
	}
	verifrt.Reach("end")
}

// ---------------------------------------------------------------------------------------------------------
// T3: Append on real DAGs.
// ---------------------------------------------------------------------------------------------------------
func zzCfg8(cfg int) (cid.Prefix, bool) {
	switch cfg {
	case 0:
		return dag.V0CidPrefix(), false
	case 1:
		return dag.V1CidPrefix(), true
	case 2:
		return dag.V1CidPrefix(), false
	}
	p := dag.V1CidPrefix()
	p.MhType = mh.SHA2_512
	p.MhLength = -1
	return p, true
}

func zzLayout8(ds *zzDag, chunks [][]byte, width int, prefix cid.Prefix, raw bool) ipld.Node {
	dbp := h.DagBuilderParams{Dagserv: ds, Maxlinks: width, RawLeaves: raw, CidBuilder: prefix}
	db, err := dbp.New(&zzSplit{chunks: chunks})
	if err != nil {
		panic(err)
	}
	nd, err := Layout(db)
	if err != nil {
		panic(err)
	}
	return nd
}

// zzAppend8 appends chunks to the file below base (re-fetched from the service, as a caller holding only the
// CID would) and returns the new root.
func zzAppend8(ds *zzDag, base ipld.Node, chunks [][]byte, width int, prefix cid.Prefix, raw bool) (ipld.Node, error) {
	cur, err := ds.Get(context.Background(), base.Cid())
	if err != nil {
		cur = base // Append does not store the root it returns; the caller passes the node it holds
	}
	dbp := h.DagBuilderParams{Dagserv: ds, Maxlinks: width, RawLeaves: raw, CidBuilder: prefix}
	db, err := dbp.New(&zzSplit{chunks: chunks})
	if err != nil {
		panic(err)
	}
	return Append(context.Background(), cur, db)
}

func zzCheckAppended(ds *zzDag, out ipld.Node, all [][]byte, width int, prefix cid.Prefix, raw bool) *zzNode {
	cnt := 0
	root := zzLoad("C08", ds, out, 0, &cnt)
	verifrt.Observe("nodes", cnt)
	verifrt.Observe("rootsize", root.size)
	verifrt.Observe("rootkids", len(root.kids))
	total := zzCheckSizes("C08", root)
	input := zzConcat(all)
	verifrt.Assert("C08.root-size-is-total-length", root.size == uint64(len(input)) && total == uint64(len(input)))
	zzCheckContent("C08", root, all)
	zzCheckKinds("C08", root, prefix, raw, ft.TRaw, len(all) == 0)
	verr := VerifyTrickleDagStructure(out, VerifyParams{Getter: ds, Direct: width, LayerRepeat: depthRepeat, Prefix: &prefix, RawLeaves: raw})
	verifrt.Assert("C08.trickle-verify", verr == nil)
	verifrt.Assert("C08.trickle-root-is-file-node", root.fs != nil && root.fs.Type() == ft.TFile)
	zzTrickleShape("C08", root, -1, width)
	if verifrt.Param("CANON", 0) == 1 {
		verifrt.Assert("C08.trickle-canonical-fill", zzTrickleFilled(root, width))
		ref := zzLayout8(&zzDag{}, all, width, prefix, raw)
		verifrt.Assert("C08.append-equals-layout", zzBytesEq(ref.Cid().Bytes(), out.Cid().Bytes()))
	}
	return root
}

func zzRunC08(rounds int) {
	zzIntern = nil
	width := verifrt.NondetRange("width", verifrt.Param("WLO", 2), verifrt.Param("W", 2))
	sizePat := verifrt.NondetRange("sizes", verifrt.Param("SZLO", 0), verifrt.Param("SZ", 1))
	fill := verifrt.NondetRange("fill", verifrt.Param("FILLLO", 0), verifrt.Param("FILL", 0))
	cfg := verifrt.NondetRange("cfg", verifrt.Param("CFGLO", 0), verifrt.Param("CFG", 1))
	prefix, raw := zzCfg8(cfg)
	n1 := verifrt.NondetRange("n1", verifrt.Param("N1LO", 0), verifrt.Param("N1", 4))
	ds := &zzDag{}
	all := zzChunks("base", n1, sizePat, fill, 0)
	cur := zzLayout8(ds, all, width, prefix, raw)
	for r := 0; r < rounds; r++ {
		n2 := verifrt.NondetRange("n2", verifrt.Param("N2LO", 0), verifrt.Param("N2", 4))
		more := zzChunks("more", n2, sizePat, fill, 0x40*(r+1))
		if fill >= 2 {
			// appended chunks also differ from the old ones of the same length (fill 2 = pairwise different)
			if fill == 2 {
				for _, c := range more {
					for _, p := range all {
						if len(p) == len(c) {
							var x byte
							for j := range c {
								x |= c[j] ^ p[j]
							}
							verifrt.Assume(x != 0)
						}
					}
				}
			}
		}
		out, err := zzAppend8(ds, cur, more, width, prefix, raw)
		verifrt.Assert("C08.append-succeeds", err == nil && out != nil)
		if err != nil || out == nil {
			verifrt.Reach("end")
			return
		}
		all = append(all, more...)
		zzCheckAppended(ds, out, all, width, prefix, raw)
		// the caller stores the new root (as DagModifier does) before using it as the next base
		ds.Add(context.Background(), out)
		cur = out
	}
	verifrt.Reach("end")
}

// HarnessC08Append: one Append on a file built by trickle.Layout.
func HarnessC08Append() { zzRunC08(1) }

// HarnessC08AppendDeep: same body, larger base files (parameters in spec.json).
func HarnessC08AppendDeep() { zzRunC08(1) }

// HarnessC08AppendSym: same body, symbolic chunk bytes.
func HarnessC08AppendSym() { zzRunC08(1) }

// HarnessC08AppendTwice: two successive Appends (the second one starts from a DAG only Append produces).
func HarnessC08AppendTwice() { zzRunC08(2) }
