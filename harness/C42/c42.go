package server

import (
	"bytes"
	"context"
	"encoding/json"
	"net/http"
	"net/url"
	"time"
	"strconv"
	"strings"

	"github.com/gorilla/mux"
	"github.com/ipfs/boxo/internal/verifrt"
	"github.com/ipfs/boxo/routing/http/filters"
	"github.com/ipfs/boxo/routing/http/types"
	"github.com/ipfs/boxo/routing/http/types/iter"
	jsontypes "github.com/ipfs/boxo/routing/http/types/json"
	"github.com/ipfs/go-cid"
	"github.com/ipfs/boxo/routing/http/types/ndjson"
	"github.com/libp2p/go-libp2p/core/peer"
	"github.com/multiformats/go-multiaddr"
)

// ---- environment -------------------------------------------------------------------------------------

// zzvRW is the recording http.ResponseWriter (natively the real writers run and fill it).
type zzvRW struct {
	hdr    http.Header
	status int
	body   bytes.Buffer
}

func (w *zzvRW) Header() http.Header {
	if w.hdr == nil {
		w.hdr = http.Header{}
	}
	return w.hdr
}
func (w *zzvRW) Write(b []byte) (int, error) {
	if w.status == 0 {
		w.status = http.StatusOK
	}
	return w.body.Write(b)
}
func (w *zzvRW) WriteHeader(s int)           { w.status = s }

// Under the engine the two response writers are bound to these recorders (encoding/json is opaque): the
// records handed to the writer are kept as Go values. Natively the real writers produce JSON / NDJSON, which
// is decoded again with the decoders the client uses.
var (
	zzvGotRecords []types.Record
	zzvWriterRan  int
	zzvIterClosed int
)

func zzvWriteJSONResult(w http.ResponseWriter, method string, val interface{ Length() int }) {
	zzvWriterRan++
	switch v := val.(type) {
	case jsontypes.ProvidersResponse:
		zzvGotRecords = append(zzvGotRecords, v.Providers...)
	case jsontypes.PeersResponse:
		for _, p := range v.Peers {
			zzvGotRecords = append(zzvGotRecords, p)
		}
	default:
		panic("zzvWriteJSONResult: unexpected response type")
	}
}

func zzvWriteNDJSON(w http.ResponseWriter, it iter.ResultIter[types.Record]) {
	zzvWriterRan++
	defer func() {
		it.Close()
		zzvIterClosed++
	}()
	for it.Next() {
		res := it.Val()
		if res.Err != nil {
			return
		}
		zzvGotRecords = append(zzvGotRecords, res.Val)
	}
}

// Addresses. Under the engine an address is a placeholder multiaddr whose identity is its component count
// (slot k has k+1 zero components) and (Multiaddr).Protocols is bound to zzvProtocols, which answers with the
// slot's two symbolic protocol codes. Natively the address is built from the concrete codes with the real
// parser, and the real Protocols() runs.
var zzvSlotCodes [][2]int

var zzvCodePool = []int{multiaddr.P_TCP, multiaddr.P_QUIC_V1, multiaddr.P_CIRCUIT, multiaddr.P_WEBTRANSPORT}

func zzvCodeText(code int) string {
	switch code {
	case multiaddr.P_TCP:
		return "/tcp/1"
	case multiaddr.P_QUIC_V1:
		return "/quic-v1"
	case multiaddr.P_CIRCUIT:
		return "/p2p-circuit"
	case multiaddr.P_WEBTRANSPORT:
		return "/webtransport"
	}
	panic("zzvCodeText")
}

func zzvProtocols(m multiaddr.Multiaddr) []multiaddr.Protocol {
	s := zzvSlotCodes[len(m)-1]
	return []multiaddr.Protocol{{Code: s[0]}, {Code: s[1]}}
}

type zzvAddr struct {
	a     types.Multiaddr
	codes [2]int
	key   string
}

func zzvNewAddr(single bool) zzvAddr {
	c0 := zzvCodePool[verifrt.Choose("code", len(zzvCodePool))]
	c1 := c0
	if !single {
		c1 = zzvCodePool[verifrt.Choose("code", len(zzvCodePool))]
	}
	slot := len(zzvSlotCodes)
	zzvSlotCodes = append(zzvSlotCodes, [2]int{c0, c1})
	if verifrt.Symbolic() {
		return zzvAddr{a: types.Multiaddr{Multiaddr: make(multiaddr.Multiaddr, slot+1)}, codes: [2]int{c0, c1}, key: "slot" + strconv.Itoa(slot)}
	}
	m, err := multiaddr.NewMultiaddr(zzvCodeText(c0) + zzvCodeText(c1))
	if err != nil {
		panic(err)
	}
	return zzvAddr{a: types.Multiaddr{Multiaddr: m}, codes: [2]int{c0, c1}, key: m.String()}
}

func zzvAddrKey(a types.Multiaddr) string {
	if verifrt.Symbolic() {
		return "slot" + strconv.Itoa(len(a.Multiaddr)-1)
	}
	return a.Multiaddr.String()
}

// protocol names: n letters over {a,b} with symbolic case; filter terms are lower case (ParseFilter
// lower-cases the query parameter, see HarnessC42ParseFilter)
func zzvName(n int, lower bool) string {
	b := verifrt.NondetBytes("name", n)
	for i := range b {
		if lower {
			verifrt.Assume(verifrt.OneOf(b[i], "ab"))
		} else {
			verifrt.Assume(verifrt.OneOf(b[i], "abAB"))
		}
	}
	return string(b)
}

func zzvLower(s string) string {
	b := []byte(s)
	for i := range b {
		b[i] |= 0x20 // letters only
	}
	return string(b)
}

// ---- input records and the IPIP-484 reference -----------------------------------------------------------

type zzvRec struct {
	id     int
	protos []string
	addrs  []zzvAddr
}

type zzvOut struct {
	id     int
	protos []string
	addrs  []string
}

func zzvPeerID(i int) *peer.ID {
	p := peer.ID(string([]byte{0x00, 0x02, 'p', byte('0' + i)})) // identity multihash: decodes natively
	return &p
}

var zzvAddrNames = map[string]int{
	"tcp": multiaddr.P_TCP, "quic-v1": multiaddr.P_QUIC_V1, "p2p-circuit": multiaddr.P_CIRCUIT, "webtransport": multiaddr.P_WEBTRANSPORT,
}

func zzvAddrHas(a zzvAddr, name string) bool {
	code, ok := zzvAddrNames[name]
	if !ok {
		return false // "unknown" and unregistered names match no address
	}
	return a.codes[0] == code || a.codes[1] == code
}

// zzvReference: IPIP-484 semantics for one record; ok=false means the record is omitted.
func zzvReference(r zzvRec, fAddrs, fProtos []string) (zzvOut, bool) {
	out := zzvOut{id: r.id, protos: r.protos}
	for _, a := range r.addrs {
		out.addrs = append(out.addrs, a.key)
	}
	if len(fProtos) > 0 {
		pass := false
		for _, t := range fProtos {
			if t == "unknown" && len(r.protos) == 0 {
				pass = true
			}
			for _, p := range r.protos {
				if zzvLower(p) == t {
					pass = true
				}
			}
		}
		if !pass {
			return out, false
		}
	}
	if len(fAddrs) == 0 {
		return out, true
	}
	if len(r.addrs) == 0 {
		for _, t := range fAddrs {
			if t == "unknown" {
				return out, true
			}
		}
		return out, false
	}
	positives := 0
	for _, t := range fAddrs {
		if !strings.HasPrefix(t, "!") {
			positives++
		}
	}
	out.addrs = nil
	for _, a := range r.addrs {
		neg, pos := false, false
		for _, t := range fAddrs {
			if strings.HasPrefix(t, "!") {
				if zzvAddrHas(a, t[1:]) {
					neg = true
				}
			} else if zzvAddrHas(a, t) {
				pos = true
			}
		}
		if !neg && (positives == 0 || pos) {
			out.addrs = append(out.addrs, a.key)
		}
	}
	if len(out.addrs) == 0 {
		return out, false
	}
	return out, true
}

// zzvMakeRecord builds the product's record for r: a peer record, or (providers only) a legacy bitswap record
func zzvMakeRecord(r zzvRec, bitswap bool) types.Record {
	var addrs []types.Multiaddr
	for _, a := range r.addrs {
		addrs = append(addrs, a.a)
	}
	if bitswap {
		//lint:ignore SA1019 legacy schema is still filtered by the server
		return &types.BitswapRecord{Schema: types.SchemaBitswap, Protocol: r.protos[0], ID: zzvPeerID(r.id), Addrs: addrs}
	}
	return &types.PeerRecord{Schema: types.SchemaPeer, ID: zzvPeerID(r.id), Addrs: addrs, Protocols: r.protos}
}

func zzvSummarize(rec types.Record) zzvOut {
	var id *peer.ID
	var protos []string
	var addrs []types.Multiaddr
	switch v := rec.(type) {
	case *types.PeerRecord:
		id, protos, addrs = v.ID, v.Protocols, v.Addrs
	//lint:ignore SA1019 legacy
	case *types.BitswapRecord:
		id, protos, addrs = v.ID, []string{v.Protocol}, v.Addrs
	default:
		panic("zzvSummarize: unexpected record type")
	}
	o := zzvOut{id: -1, protos: protos}
	s := string(*id)
	if len(s) == 4 {
		o.id = int(s[3] - '0')
	}
	for _, a := range addrs {
		o.addrs = append(o.addrs, zzvAddrKey(a))
	}
	return o
}

// zzvCollect returns what the response carries: the recorded values under the engine, the decoded body natively.
func zzvCollect(w *zzvRW, ndjsonMode bool, peers bool) []zzvOut {
	var recs []types.Record
	if verifrt.Symbolic() {
		recs = zzvGotRecords
	} else if ndjsonMode {
		it := ndjson.NewRecordsIter(bytes.NewReader(w.body.Bytes()))
		for it.Next() {
			res := it.Val()
			if res.Err != nil {
				panic(res.Err)
			}
			recs = append(recs, res.Val)
		}
	} else if peers {
		var resp jsontypes.PeersResponse
		if err := json.Unmarshal(w.body.Bytes(), &resp); err != nil {
			panic(err)
		}
		for _, p := range resp.Peers {
			recs = append(recs, p)
		}
	} else {
		var resp jsontypes.ProvidersResponse
		if err := json.Unmarshal(w.body.Bytes(), &resp); err != nil {
			panic(err)
		}
		recs = resp.Providers
	}
	var out []zzvOut
	for _, r := range recs {
		out = append(out, zzvSummarize(r))
	}
	return out
}

func zzvStrsEq(a, b []string) bool {
	if len(a) != len(b) {
		return false
	}
	eq := true
	for i := range a {
		if a[i] != b[i] {
			eq = false
		}
	}
	return eq
}

func zzvReset() {
	zzvGotRecords, zzvWriterRan, zzvIterClosed, zzvSlotCodes = nil, 0, 0, nil
}

var (
	zzvAddrTerms  = []string{"tcp", "!quic-v1", "unknown", "!p2p-circuit", "webtransport", "!tcp"}
	zzvAddrTermsS = []string{"tcp", "unknown", "!tcp"}
)

func zzvAddrFilter(pool []string, max int) []string {
	k := verifrt.NondetRange("nfa", 0, max)
	var f []string
	for i := 0; i < k; i++ {
		f = append(f, pool[verifrt.NondetRange("fa", 0, len(pool)-1)])
	}
	return f
}

func zzvProtoFilter(max int, nameLen int) []string {
	k := verifrt.NondetRange("nfp", 0, max)
	var f []string
	for i := 0; i < k; i++ {
		if verifrt.NondetBool("fpUnknown") {
			f = append(f, "unknown")
		} else {
			f = append(f, zzvName(nameLen, true))
		}
	}
	return f
}

func zzvRecord(id int, maxProtos, maxAddrs int, bitswap bool, nameLen int, single bool) zzvRec {
	r := zzvRec{id: id}
	lo := 0
	if bitswap {
		lo, maxProtos = 1, 1
	}
	np := verifrt.NondetRange("np", lo, maxProtos)
	for i := 0; i < np; i++ {
		r.protos = append(r.protos, zzvName(nameLen, false))
	}
	na := verifrt.NondetRange("na", 0, maxAddrs)
	for i := 0; i < na; i++ {
		r.addrs = append(r.addrs, zzvNewAddr(single))
	}
	return r
}

// zzvRun drives one of the four server pipelines and checks the response against the reference.
func zzvRun(recs []zzvRec, bitswap []bool, pipeline int, limit int, fAddrs, fProtos []string) {
	// expected: filter every record in order, then cap
	var want []zzvOut
	for _, r := range recs {
		if o, ok := zzvReference(r, fAddrs, fProtos); ok {
			want = append(want, o)
		}
	}
	verifrt.Observe("kept", len(want))
	if limit > 0 && len(want) > limit { // a limit of 0 (or less) is documented as "no cap"
		want = want[:limit]
	}

	s := &server{}
	w := &zzvRW{}
	ndjsonMode := pipeline == 1 || pipeline == 3
	peers := pipeline >= 2
	if !peers {
		in := make([]iter.Result[types.Record], len(recs))
		for i, r := range recs {
			in[i].Val = zzvMakeRecord(r, bitswap[i])
		}
		if ndjsonMode {
			s.findProvidersNDJSON(w, iter.FromSlice(in), limit, fAddrs, fProtos)
		} else {
			s.findProvidersJSON(w, iter.FromSlice(in), limit, fAddrs, fProtos)
		}
	} else {
		in := make([]iter.Result[*types.PeerRecord], len(recs))
		for i, r := range recs {
			in[i].Val = zzvMakeRecord(r, false).(*types.PeerRecord)
		}
		if ndjsonMode {
			s.findPeersNDJSON(w, iter.FromSlice(in), limit, fAddrs, fProtos)
		} else {
			s.findPeersJSON(w, iter.FromSlice(in), limit, fAddrs, fProtos)
		}
	}
	if verifrt.Symbolic() {
		verifrt.Assert("C42.response-written-once", zzvWriterRan == 1)
	} else {
		verifrt.Assert("C42.status-200", w.status == http.StatusOK)
	}
	got := zzvCollect(w, ndjsonMode, peers)
	verifrt.Observe("got", len(got))
	verifrt.Assert("C42.record-count", len(got) == len(want))
	if len(got) != len(want) {
		return
	}
	for i := range got {
		verifrt.Assert("C42.record-order-and-identity", got[i].id == want[i].id)
		verifrt.Assert("C42.record-protocols-unchanged", zzvStrsEq(got[i].protos, want[i].protos))
		verifrt.Assert("C42.record-addrs-filtered", zzvStrsEq(got[i].addrs, want[i].addrs))
	}
}

// HarnessC42OneRecord: one record with up to 2 protocols and 2 addresses, every filter shape (<= 2 protocol
// terms incl. "unknown", <= 2 address terms incl. negated and "unknown"), through the providers JSON pipeline
// (peer and legacy bitswap schema) and the peers JSON pipeline.
func HarnessC42OneRecord() {
	zzvReset()
	pipeline := 2 * verifrt.NondetRange("peers", 0, 1)
	bitswap := false
	if pipeline == 0 {
		bitswap = verifrt.NondetRange("bitswap", 0, 1) == 1
	}
	r := zzvRecord(0, verifrt.Param("P", 2), verifrt.Param("A", 2), bitswap, 2, false)
	fProtos := zzvProtoFilter(verifrt.Param("FP", 2), 2)
	fAddrs := zzvAddrFilter(zzvAddrTerms[:verifrt.Param("T", 4)], verifrt.Param("FA", 2))
	zzvRun([]zzvRec{r}, []bool{bitswap}, pipeline, 0, fAddrs, fProtos)
	verifrt.Reach("end")
}

// HarnessC42Pipelines: up to N records through all four pipelines with a symbolic limit; filter-then-limit,
// order, JSON vs NDJSON.
func HarnessC42Pipelines() {
	zzvReset()
	N := verifrt.Param("N", 2)
	pipeline := verifrt.NondetRange("pipeline", 0, 3)
	n := verifrt.NondetRange("n", 0, N)
	recs := make([]zzvRec, n)
	bs := make([]bool, n)
	for i := range recs {
		if pipeline < 2 && i == 0 && verifrt.Param("BS", 0) == 1 {
			bs[i] = verifrt.NondetRange("bitswap", 0, 1) == 1
		}
		recs[i] = zzvRecord(i, 1, 1, bs[i], 1, true)
	}
	fProtos := zzvProtoFilter(1, 1)
	fAddrs := zzvAddrFilter(zzvAddrTermsS[:verifrt.Param("TS", 2)], 1)
	limit := verifrt.NondetInt("limit")
	verifrt.Assume(limit >= -1)
	verifrt.Assume(limit <= N+1)
	zzvRun(recs, bs, pipeline, limit, fAddrs, fProtos)
	verifrt.Reach("end")
}

// HarnessC42ParseFilter: the query parameter is split on commas and lower-cased; empty means no filter.
func HarnessC42ParseFilter() {
	verifrt.Assert("C42.parse-empty", filters.ParseFilter("") == nil)
	n := verifrt.NondetRange("n", 1, verifrt.Param("L", 5))
	b := verifrt.NondetBytes("q", n)
	for i := range b {
		verifrt.Assume(verifrt.OneOf(b[i], "aB,!"))
	}
	got := filters.ParseFilter(string(b))
	// reference: split at commas, lower-case letters
	var want []string
	cur := []byte{}
	for _, c := range b {
		if c == ',' {
			want = append(want, string(cur))
			cur = []byte{}
			continue
		}
		if c >= 'A' && c <= 'Z' {
			c += 'a' - 'A'
		}
		cur = append(cur, c)
	}
	want = append(want, string(cur))
	verifrt.Observe("terms", len(got))
	verifrt.Assert("C42.parse-terms", zzvStrsEq(got, want))
	verifrt.Reach("end")
}

// ---- handler level: Accept header -> pipeline and limit, query -> filters, delegate called unbounded ---------

type zzvRouter struct {
	ContentRouter
	provs      []iter.Result[types.Record]
	peers      []iter.Result[*types.PeerRecord]
	limitsSeen []int
}

func (r *zzvRouter) FindProviders(ctx context.Context, c cid.Cid, limit int) (iter.ResultIter[types.Record], error) {
	r.limitsSeen = append(r.limitsSeen, limit)
	return iter.FromSlice(r.provs), nil
}

func (r *zzvRouter) FindPeers(ctx context.Context, pid peer.ID, limit int) (iter.ResultIter[*types.PeerRecord], error) {
	r.limitsSeen = append(r.limitsSeen, limit)
	return iter.FromSlice(r.peers), nil
}

// HarnessC42Handler drives server.findProviders / server.findPeers with a request value: the Accept header
// selects JSON or NDJSON and with it the configured limit (records vs. streaming), the query parameters carry
// the filters, and the delegate must be asked for an unbounded stream (the cap is applied after filtering).
func HarnessC42Handler() {
	zzvReset()
	N := verifrt.Param("N", 2)
	peers := verifrt.NondetRange("peers", 0, 1) == 1
	accept := verifrt.NondetRange("accept", 0, 3)
	n := verifrt.NondetRange("n", 0, N)
	recs := make([]zzvRec, n)
	for i := range recs {
		recs[i] = zzvRecord(i, 1, 0, false, 1, true)
	}
	rl := verifrt.NondetInt("recordsLimit")
	sl := verifrt.NondetInt("streamingLimit")
	verifrt.Assume(rl >= 0)
	verifrt.Assume(rl <= N+1)
	verifrt.Assume(sl >= 0)
	verifrt.Assume(sl <= N+1)
	rt := &zzvRouter{}
	for _, r := range recs {
		rec := zzvMakeRecord(r, false)
		rt.provs = append(rt.provs, iter.Result[types.Record]{Val: rec})
		rt.peers = append(rt.peers, iter.Result[*types.PeerRecord]{Val: rec.(*types.PeerRecord)})
	}
	s := &server{svc: rt, recordsLimit: rl, streamingRecordsLimit: sl, routingTimeout: time.Minute}
	hdr := http.Header{}
	ndjsonMode := false
	switch accept {
	case 1:
		hdr.Set("Accept", "application/json")
	case 2:
		hdr.Set("Accept", "application/x-ndjson")
		ndjsonMode = true
	case 3:
		hdr.Set("Accept", "application/json, application/x-ndjson")
		ndjsonMode = true
	}
	req := &http.Request{Method: http.MethodGet, Header: hdr, URL: &url.URL{Path: "/routing/v1/x", RawQuery: "filter-protocols=A,unknown"}}
	fProtos := []string{"a", "unknown"} // the query above, parsed and lower-cased
	w := &zzvRW{}
	if peers {
		req = mux.SetURLVars(req, map[string]string{"peer-id": "12D3KooWD3eckifWpRn9wQpMG9R9hX3sD158z7EqHWmweQAJU5SA"})
		s.findPeers(w, req)
	} else {
		req = mux.SetURLVars(req, map[string]string{"cid": "bafkqaaa"})
		s.findProviders(w, req)
	}
	verifrt.Assert("C42.delegate-called-once", len(rt.limitsSeen) == 1)
	verifrt.Assert("C42.delegate-called-unbounded", len(rt.limitsSeen) == 1 && rt.limitsSeen[0] == 0)
	var want []zzvOut
	for _, r := range recs {
		if o, ok := zzvReference(r, nil, fProtos); ok {
			want = append(want, o)
		}
	}
	limit := rl
	if ndjsonMode {
		limit = sl
	}
	if limit > 0 && len(want) > limit {
		want = want[:limit]
	}
	if !verifrt.Symbolic() {
		verifrt.Assert("C42.handler-status-200", w.status == http.StatusOK)
	}
	got := zzvCollect(w, ndjsonMode, peers)
	verifrt.Observe("got", len(got))
	verifrt.Assert("C42.handler-record-count", len(got) == len(want))
	if len(got) == len(want) {
		for i := range got {
			verifrt.Assert("C42.handler-record-order-and-identity", got[i].id == want[i].id)
			verifrt.Assert("C42.handler-record-protocols", zzvStrsEq(got[i].protos, want[i].protos))
		}
	}
	verifrt.Reach("end")
}

// HarnessC42OneRecordProtocols: the same single-record check with the bounds spent on the protocol dimension
// (separate entry so that the two dimensions can be deepened independently).
func HarnessC42OneRecordProtocols() { HarnessC42OneRecord() }
