package filestore

import (
	"bytes"
	"context"
	"crypto/sha256"
	"errors"
	"io"
	"io/fs"
	"os"

	blockstore "github.com/ipfs/boxo/blockstore"
	dshelp "github.com/ipfs/boxo/datastore/dshelp"
	pb "github.com/ipfs/boxo/filestore/pb"
	"github.com/ipfs/boxo/internal/verifrt"
	blocks "github.com/ipfs/go-block-format"
	cid "github.com/ipfs/go-cid"
	ds "github.com/ipfs/go-datastore"
	ipld "github.com/ipfs/go-ipld-format"
	mh "github.com/multiformats/go-multihash"
	"google.golang.org/protobuf/proto"
)

// ---------------------------------------------------------------------------------------------------------
// Hashing. Under the engine multihash.Sum is bound to zz3MhSum: sha2-256 is an uninterpreted function
// (verifrt.HashUF, pairwise collision free), identity is computed for real, every other code is "not
// registered". Natively the real multihash.Sum runs and HashUF (used by the oracle) is the real sha2-256.
// ---------------------------------------------------------------------------------------------------------

const (
	zz3Algo        = "crypto:sha2-256"
	zz3UnknownCode = 0x3ffe // not registered with go-multihash
)

func init() {
	if !verifrt.Symbolic() {
		verifrt.HashHook = func(algo string, data []byte, n int) []byte {
			s := sha256.Sum256(data)
			return s[:n]
		}
	}
}

// zz3H is sha2-256 as the harness and the stub see it. Without pinned inputs it is the engine's uninterpreted
// function. A harness that needs a CONCRETE requested digest (so that datastore keys are concrete) pins the
// concrete original bytes first: H(x) = D_k if x == pinned_k, else UF(x) with a tag byte that keeps UF values
// apart from every D_k -- still a collision-free function, with known values at the pinned points.
var zz3Pins [][2][]byte

func zz3Pin(orig []byte) []byte {
	if !verifrt.Symbolic() {
		s := sha256.Sum256(orig)
		return s[:]
	}
	d := make([]byte, 32)
	d[0], d[1] = 0x01, byte(len(zz3Pins))
	for i := 2; i < 32; i++ {
		d[i] = byte(7 * i)
	}
	zz3Pins = append(zz3Pins, [2][]byte{append([]byte{}, orig...), d})
	return d
}

func zz3H(data []byte) []byte {
	d := verifrt.HashUF(zz3Algo, data, 32)
	if !verifrt.Symbolic() || len(zz3Pins) == 0 {
		return d
	}
	verifrt.Assume(d[0] == 0xFE)
	for _, p := range zz3Pins {
		if len(p[0]) != len(data) {
			continue
		}
		eq := bytes.Equal(data, p[0])
		out := make([]byte, 32)
		for i := range out {
			out[i] = byte(verifrt.Ite(eq, uint64(p[1][i]), uint64(d[i])))
		}
		d = out
	}
	return d
}

// zz3MhSum mirrors multihash.Sum/encodeHash: look the hasher up, hash, apply the length rules, encode.
func zz3MhSum(data []byte, code uint64, length int) (mh.Multihash, error) {
	var sum []byte
	switch code {
	case mh.IDENTITY:
		sum = append([]byte{}, data...)
	case mh.SHA2_256:
		sum = zz3H(data)
	default:
		return nil, mh.ErrSumNotSupported
	}
	if length < 0 {
		length = len(sum)
	}
	if len(sum) < length {
		return nil, mh.ErrLenTooLarge
	}
	if code == mh.IDENTITY && length != len(sum) {
		return nil, errors.New("the length of the identity hash must be equal to the length of the data")
	}
	return mh.Encode(sum[:length], code)
}

func zz3Encode(d []byte, code uint64) mh.Multihash {
	m, err := mh.Encode(d, code)
	if err != nil {
		panic(err)
	}
	return m
}

// zz3Request describes the requested content address: the multihash is derived from `orig` (the bytes the
// block had when it was addressed), so that natively the real hash agrees with the engine's function symbol.
type zz3Request struct {
	kind   int // 0 sha2-256 (32 byte digest), 1 sha2-256 truncated to 20 bytes, 2 identity, 3 unregistered code
	orig   []byte
	digest []byte
	m      mh.Multihash
}

func zz3NewRequest(maxKind, maxOrig int) *zz3Request {
	r := &zz3Request{kind: verifrt.NondetRange("kind", 0, maxKind)}
	r.orig = verifrt.NondetBytes("orig", verifrt.NondetRange("origlen", 0, maxOrig))
	switch r.kind {
	case 0:
		r.digest = zz3H(r.orig)
		r.m = zz3Encode(r.digest, mh.SHA2_256)
	case 1:
		r.digest = zz3H(r.orig)[:20]
		r.m = zz3Encode(r.digest, mh.SHA2_256)
	case 2:
		r.digest = r.orig
		r.m = zz3Encode(r.digest, mh.IDENTITY)
	default:
		r.digest = verifrt.NondetBytes("digest", 32)
		r.m = zz3Encode(r.digest, zz3UnknownCode)
	}
	return r
}

// zz3NewPinnedRequest: the original bytes are one fixed text per length (the hash treats all inputs alike), so
// the requested multihash -- and with it every datastore key -- is concrete; everything read back stays symbolic.
func zz3NewPinnedRequest(maxKind, maxOrig int) *zz3Request {
	r := &zz3Request{kind: verifrt.NondetRange("kind", 0, maxKind)}
	r.orig = make([]byte, verifrt.NondetRange("origlen", 0, maxOrig))
	for i := range r.orig {
		r.orig[i] = 0x61 + byte(i)
	}
	switch r.kind {
	case 0:
		r.digest = zz3Pin(r.orig)
		r.m = zz3Encode(r.digest, mh.SHA2_256)
	case 1:
		r.digest = zz3Pin(r.orig)[:20]
		r.m = zz3Encode(r.digest, mh.SHA2_256)
	default:
		r.kind = 2
		r.digest = r.orig
		r.m = zz3Encode(r.digest, mh.IDENTITY)
	}
	return r
}

// hashesTo is the reference predicate "these bytes hash to the requested multihash".
func (r *zz3Request) hashesTo(b []byte) bool {
	switch r.kind {
	case 0:
		return bytes.Equal(zz3H(b), r.digest)
	case 1:
		return bytes.Equal(zz3H(b)[:20], r.digest)
	case 2:
		return bytes.Equal(b, r.orig)
	}
	return false // nothing can be verified against an unregistered hash function
}

// assumeNoCollision states the content-addressing precondition for the two inputs of a path: bytes that
// hash to the requested multihash are the original bytes. For the full digest this is implied by the engine's
// collision-freedom axiom (and asserted, not assumed, by the callers); it has to be stated for truncation.
func (r *zz3Request) assumeNoCollision(b []byte) {
	if r.kind == 1 {
		verifrt.Assume(!r.hashesTo(b) || bytes.Equal(b, r.orig))
	}
}

// form: 0 = CIDv1 raw, 1 = CIDv1 dag-pb, 2 = CIDv0 (sha2-256 with a 32 byte digest only)
func (r *zz3Request) cid(tag string) cid.Cid {
	maxForm := 1
	if r.kind == 0 {
		maxForm = 2
	}
	switch verifrt.NondetRange(tag, 0, maxForm) {
	case 0:
		return cid.NewCidV1(cid.Raw, r.m)
	case 1:
		return cid.NewCidV1(cid.DagProtobuf, r.m)
	}
	return cid.NewCidV0(r.m)
}

var zz3ErrIO = errors.New("zz: input/output error")

// ---------------------------------------------------------------------------------------------------------
// ValidatingBlockstore
// ---------------------------------------------------------------------------------------------------------

// zz3Backing is "whatever the backing store holds": not found, a failure, or a block with arbitrary bytes.
type zz3Backing struct {
	blockstore.Blockstore
	mode int // 0 not found, 1 error, 2 block
	data []byte
	gets int
}

func (b *zz3Backing) Get(ctx context.Context, c cid.Cid) (blocks.Block, error) {
	b.gets++
	switch b.mode {
	case 0:
		return nil, ipld.ErrNotFound{Cid: c}
	case 1:
		return nil, zz3ErrIO
	}
	return blocks.NewBlockWithCid(b.data, c)
}

// HarnessC03Validating: ValidatingBlockstore.Get over a backing store that answers the requested CID with
// arbitrary bytes (any length up to SLEN: flips, truncations, extensions of the original), not-found or an error.
func HarnessC03Validating() {
	ctx := context.Background()
	r := zz3NewRequest(3, verifrt.Param("OLEN", 2))
	c := r.cid("form")
	back := &zz3Backing{mode: verifrt.NondetRange("mode", 0, 2)}
	var vbs blockstore.Blockstore = &blockstore.ValidatingBlockstore{Blockstore: back}
	if back.mode == 2 {
		back.data = verifrt.NondetBytes("stored", verifrt.NondetRange("storedlen", 0, verifrt.Param("SLEN", 3)))
		r.assumeNoCollision(back.data)
	}
	blk, err := vbs.Get(ctx, c)
	verifrt.Observe("ok", err == nil)
	verifrt.Assert("C03.validating-asks-backing-once", back.gets == 1)
	switch back.mode {
	case 0:
		verifrt.Assert("C03.validating-propagates-notfound", blk == nil && err != nil && ipld.IsNotFound(err))
	case 1:
		verifrt.Assert("C03.validating-propagates-error", blk == nil && err == zz3ErrIO)
	case 2:
		match := r.hashesTo(back.data)
		if err == nil {
			verifrt.Assert("C03.validating-returns-a-block", blk != nil)
			r.assumeNoCollision(blk.RawData())
			verifrt.Assert("C03.validating-returned-bytes-hash-to-cid", match)
			verifrt.Assert("C03.validating-returns-backing-bytes", bytes.Equal(blk.RawData(), back.data))
			verifrt.Assert("C03.validating-returned-bytes-rehash", r.hashesTo(blk.RawData()))
			verifrt.Assert("C03.validating-returns-requested-cid", blk.Cid().Equals(c))
			if r.kind == 0 {
				verifrt.Assert("C03.validating-accepted-is-original", bytes.Equal(back.data, r.orig))
			}
			verifrt.Observe("data", blk.RawData())
		} else {
			verifrt.Assert("C03.validating-no-block-with-error", blk == nil)
			verifrt.Assert("C03.validating-intact-block-served", !match)
			if r.kind == 0 && len(r.orig) <= verifrt.Param("UFSANITY", 2) {
				// restates "intact-block-served" through the function symbol (needs congruence over the
				// concatenated input): asserted at the small lengths only, it says nothing new about the code
				verifrt.Assert("C03.validating-intact-original-served", !bytes.Equal(back.data, r.orig))
			}
			if r.kind != 3 {
				verifrt.Assert("C03.validating-mismatch-is-ErrHashMismatch", errors.Is(err, blockstore.ErrHashMismatch))
			}
		}
	}
	verifrt.Reach("end")
}

// ---------------------------------------------------------------------------------------------------------
// Filestore: file object handed out by FileManager.makeReader, with the behaviour of *os.File.ReadAt.
// ---------------------------------------------------------------------------------------------------------

type zz3File struct {
	data    []byte
	readErr bool
	reads   int
	closes  int
	lastOff int64
	lastLen int
}

var zz3ErrNegOff = &fs.PathError{Op: "readat", Path: "f", Err: errors.New("negative offset")}

func (f *zz3File) ReadAt(p []byte, off int64) (int, error) {
	f.reads++
	f.lastOff, f.lastLen = off, len(p)
	if off < 0 {
		return 0, zz3ErrNegOff
	}
	if len(p) == 0 {
		return 0, nil
	}
	if f.readErr {
		return 0, &fs.PathError{Op: "read", Path: "f", Err: zz3ErrIO}
	}
	if off >= int64(len(f.data)) {
		return 0, io.EOF
	}
	n := copy(p, f.data[off:])
	if n < len(p) {
		return n, io.EOF
	}
	return n, nil
}

func (f *zz3File) Close() error { f.closes++; return nil }

// zz3World is the file system as the FileManager sees it through makeReader: one path under the root.
type zz3World struct {
	state int // 0 file exists, 1 file vanished, 2 open fails for another reason
	file  *zz3File
	opens []string
}

var zz3ErrPerm = errors.New("permission denied")

func (w *zz3World) open(path string) (FileReader, error) {
	w.opens = append(w.opens, path)
	switch w.state {
	case 1:
		return nil, &fs.PathError{Op: "open", Path: path, Err: fs.ErrNotExist}
	case 2:
		return nil, &fs.PathError{Op: "open", Path: path, Err: zz3ErrPerm}
	}
	return w.file, nil
}

func zz3Setup() {
	zz3Pins = nil
	if verifrt.Symbolic() {
		// packages os, io/fs and internal/oserror are never initialised under the engine (their error
		// variables are nil there); os.IsNotExist compares against os.ErrNotExist
		if fs.ErrNotExist == nil {
			fs.ErrNotExist = errors.New("file does not exist")
		}
		os.ErrNotExist = fs.ErrNotExist
	}
}

func zz3NewWorld(maxState, maxLen int) *zz3World {
	w := &zz3World{state: verifrt.NondetRange("fstate", 0, maxState)}
	if w.state == 0 {
		w.file = &zz3File{data: verifrt.NondetBytes("file", verifrt.NondetRange("filelen", 0, maxLen))}
		w.file.readErr = verifrt.NondetBool("readerr")
	}
	return w
}

// zz3CheckRead is the oracle for one verified read of (offset, size) from world w for request r.
// `out`/`err` is what the code under test answered.
func zz3CheckRead(r *zz3Request, w *zz3World, offset, size uint64, out []byte, err error) {
	var cre *CorruptReferenceError
	isCorrupt := errors.As(err, &cre)
	verifrt.Assert("C03.file-opened-once-under-root", len(w.opens) == 1 && w.opens[0] == "/r/d/f")
	if w.file != nil {
		verifrt.Assert("C03.file-closed-once", w.file.closes == 1)
	}
	if err == nil {
		// (truncated digests: whatever buffer the code hashed and handed out, a match means the original bytes)
		r.assumeNoCollision(out)
		// the headline: whatever happened before, data is only handed out if it re-hashes to the request
		verifrt.Assert("C03.file-returned-bytes-hash-to-cid", r.hashesTo(out))
		verifrt.Assert("C03.file-returned-size", uint64(len(out)) == size)
	} else {
		verifrt.Assert("C03.file-no-data-with-error", out == nil)
	}
	switch {
	case w.state == 1:
		verifrt.Assert("C03.file-vanished-is-corrupt-notfound", isCorrupt && cre.Code == StatusFileNotFound)
		return
	case w.state == 2:
		verifrt.Assert("C03.file-open-error-is-corrupt-fileerror", isCorrupt && cre.Code == StatusFileError)
		return
	}
	f := w.file
	verifrt.Assert("C03.file-read-once", f.reads == 1)
	verifrt.Assert("C03.file-read-at-reference-offset", uint64(f.lastOff) == offset && uint64(f.lastLen) == size)
	flen := uint64(len(f.data))
	switch {
	case offset >= 1<<63:
		// never a valid reference; the read is refused by the OS
		verifrt.Assert("C03.file-bad-offset-is-corrupt", isCorrupt)
	case size > 0 && f.readErr:
		verifrt.Assert("C03.file-read-error-is-corrupt-fileerror", isCorrupt && cre.Code == StatusFileError)
	case size > 0 && (offset > flen || flen-offset < size):
		verifrt.Assert("C03.file-shrunk-is-corrupt-changed", isCorrupt && cre.Code == StatusFileChanged)
	default:
		region := []byte{} // an empty read succeeds at any offset
		if size > 0 {
			region = f.data[offset : offset+size]
		}
		r.assumeNoCollision(region)
		match := r.hashesTo(region)
		if err == nil {
			verifrt.Assert("C03.file-returns-file-region", bytes.Equal(out, region))
			verifrt.Assert("C03.file-region-hashes-to-cid", match)
			if r.kind == 0 {
				verifrt.Assert("C03.file-accepted-is-original", bytes.Equal(region, r.orig))
			}
		} else {
			verifrt.Assert("C03.file-intact-region-served", !match)
			if r.kind != 3 {
				verifrt.Assert("C03.file-changed-is-corrupt-changed", isCorrupt && cre.Code == StatusFileChanged)
			}
		}
	}
}

// HarnessC03FileRead: readDataObj/readFileDataObj for a reference (path, offset, size) whose file now holds
// arbitrary bytes of arbitrary length (modified, truncated, extended), vanished, or fails to open/read.
func HarnessC03FileRead() {
	zz3Setup()
	r := zz3NewRequest(3, verifrt.Param("OLEN", 2))
	w := zz3NewWorld(2, verifrt.Param("FLEN", 3))
	fm := &FileManager{AllowFiles: true, root: "/r", makeReader: w.open}
	size := uint64(verifrt.NondetRange("size", 0, verifrt.Param("SIZE", 2)))
	offset := verifrt.NondetU64("offset")
	path := "d/f"
	d := &pb.DataObj{FilePath: &path, Offset: &offset, Size: &size}
	out, err := fm.readDataObj(context.Background(), r.m, d)
	verifrt.Observe("ok", err == nil)
	zz3CheckRead(r, w, offset, size, out, err)
	if err == nil {
		verifrt.Observe("data", out)
	}
	verifrt.Reach("end")
}

// HarnessC03FileDisabled: with file references disabled nothing is opened and nothing is returned.
func HarnessC03FileDisabled() {
	zz3Setup()
	r := zz3NewRequest(0, 1)
	w := zz3NewWorld(0, 1)
	fm := &FileManager{AllowFiles: false, root: "/r", makeReader: w.open}
	size, offset := uint64(len(r.orig)), uint64(0)
	path := "d/f"
	out, err := fm.readDataObj(context.Background(), r.m, &pb.DataObj{FilePath: &path, Offset: &offset, Size: &size})
	verifrt.Assert("C03.file-disabled-refused", out == nil && err == ErrFilestoreNotEnabled)
	verifrt.Assert("C03.file-disabled-not-opened", len(w.opens) == 0)
	verifrt.Reach("end")
}

// ---------------------------------------------------------------------------------------------------------
// Filestore.Get / FileManager.Get: reference record in the datastore, main blockstore empty.
// Under the engine proto.Unmarshal is bound to zz3Unmarshal (hands back the record the harness stored);
// natively the record is really encoded with proto.Marshal and decoded by protobuf-go.
// ---------------------------------------------------------------------------------------------------------

var zz3Stored *pb.DataObj

func zz3Unmarshal(b []byte, m proto.Message) error {
	d := m.(*pb.DataObj)
	if zz3Stored == nil || len(b) != 1 || b[0] != 0xA5 {
		return errors.New("zz: not the record stored by the harness")
	}
	d.FilePath, d.Offset, d.Size = zz3Stored.FilePath, zz3Stored.Offset, zz3Stored.Size
	return nil
}

func zz3Record(d *pb.DataObj) []byte {
	if verifrt.Symbolic() {
		zz3Stored = d
		return []byte{0xA5}
	}
	b, err := proto.Marshal(d)
	if err != nil {
		panic(err)
	}
	return b
}

// HarnessC03FilestoreGet: Filestore.Get with an empty main blockstore: the reference record is fetched from the
// datastore, the file region is read and verified, and the block carries the requested CID.
func HarnessC03FilestoreGet() {
	zz3Setup()
	ctx := context.Background()
	r := zz3NewPinnedRequest(2, verifrt.Param("OLEN", 2))
	c := r.cid("form")
	w := zz3NewWorld(1, verifrt.Param("FLEN", 3))
	mds := ds.NewMapDatastore()
	fm := NewFileManager(mds, "/r")
	fm.AllowFiles = true
	fm.makeReader = w.open
	size := uint64(verifrt.NondetRange("size", 0, verifrt.Param("SIZE", 2)))
	offset := uint64(verifrt.NondetU8("offset"))
	path := "d/f"
	have := verifrt.NondetBool("haveref")
	if have {
		rec := zz3Record(&pb.DataObj{FilePath: &path, Offset: &offset, Size: &size})
		if err := fm.ds.Put(ctx, dshelp.MultihashToDsKey(r.m), rec); err != nil {
			panic(err)
		}
	}
	fstore := NewFilestore(blockstore.NewBlockstore(ds.NewMapDatastore()), fm, nil)
	blk, err := fstore.Get(ctx, c)
	verifrt.Observe("ok", err == nil)
	if !have {
		verifrt.Assert("C03.get-without-reference-notfound", blk == nil && err != nil && ipld.IsNotFound(err))
		verifrt.Assert("C03.get-without-reference-opens-nothing", len(w.opens) == 0)
		verifrt.Reach("end")
		return
	}
	var out []byte
	if err == nil {
		verifrt.Assert("C03.get-returns-a-block", blk != nil)
		out = blk.RawData()
		verifrt.Assert("C03.get-returns-requested-cid", blk.Cid().Equals(c))
		verifrt.Assert("C03.get-block-hashes-to-cid", r.hashesTo(out))
		if out == nil {
			out = []byte{}
		}
	} else {
		verifrt.Assert("C03.get-no-block-with-error", blk == nil)
	}
	zz3CheckRead(r, w, offset, size, out, err)
	// the size answer comes from the record alone
	n, serr := fstore.GetSize(ctx, c)
	verifrt.Assert("C03.getsize-from-reference", serr == nil && uint64(n) == size)
	verifrt.Reach("end")
}
