package ipns

import (
	"crypto/rand"
	"encoding/binary"
	"errors"
	"io"
	"time"

	"github.com/ipfs/boxo/internal/verifrt"
	ipns_pb "github.com/ipfs/boxo/ipns/pb"
	"github.com/ipfs/boxo/util"
	"github.com/ipld/go-ipld-prime/datamodel"
	basicnode "github.com/ipld/go-ipld-prime/node/basic"
	ic "github.com/libp2p/go-libp2p/core/crypto"
	icpb "github.com/libp2p/go-libp2p/core/crypto/pb"
	"github.com/libp2p/go-libp2p/core/peer"
	"google.golang.org/protobuf/proto"
)

// zz25ErrBadKey: the libp2p crypto package is opaque (never initialised) under the engine, so its error values are
// nil there; the key models use their own.
var zz25ErrBadKey = errors.New("zz25: bad key")

// =====================================================================================================
// Models (active under the engine only; natively the real code runs)
// =====================================================================================================

// ---- signatures: Dolev-Yao. A signature is the token {signer, digest}; it verifies for key k over data d
// iff signer == k and digest == D(d). The signed data universe is "ipns-signature:" + one data token byte,
// so D(d) = that byte is injective on it. ----

type zz25Pub struct{ id byte }

func (k *zz25Pub) Equals(o ic.Key) bool {
	p, ok := o.(*zz25Pub)
	return ok && p.id == k.id
}
func (k *zz25Pub) Raw() ([]byte, error) { return []byte{k.id}, nil }
func (k *zz25Pub) Type() icpb.KeyType   { return icpb.KeyType_Ed25519 }
func (k *zz25Pub) Verify(data, sig []byte) (bool, error) {
	if len(sig) < 2 || len(data) < 16 || string(data[:15]) != "ipns-signature:" {
		return false, nil
	}
	return (sig[0]^k.id)|(sig[1]^data[15]) == 0, nil
}

// ---- RFC3339: the Validity text under the engine is a 12-byte (sec,nsec) token ----

func zz25ValidityBytes(sec, nsec int64) []byte {
	if verifrt.Symbolic() {
		out := make([]byte, 12)
		binary.BigEndian.PutUint64(out[0:8], uint64(sec))
		binary.BigEndian.PutUint32(out[8:12], uint32(nsec))
		return out
	}
	return []byte(util.FormatRFC3339(time.Unix(sec, nsec)))
}

// bound to util.ParseRFC3339
func zz25ParseRFC3339(s string) (time.Time, error) {
	b := []byte(s)
	if len(b) != 12 {
		return time.Time{}, ErrInvalidValidity
	}
	sec := int64(binary.BigEndian.Uint64(b[0:8]))
	nsec := int64(binary.BigEndian.Uint32(b[8:12]))
	return time.Unix(sec, nsec).UTC(), nil
}

// ---- dag-cbor: opaque invertible codec. Decoding the record's Data yields the record's node. ----

var zz25CurNode datamodel.Node

// bound to dagcbor.Decode
func zz25CborDecode(na datamodel.NodeAssembler, r io.Reader) error {
	return na.AssignNode(zz25CurNode)
}

// ---- protobuf size: the wire-format size of an IpnsRecord (tag bytes are all one byte: fields 1..9) ----

func zz25VarintLen(v uint64) uint64 {
	n := uint64(1)
	for s := uint(7); s < 64; s += 7 {
		n += verifrt.Ite(v>>s != 0, 1, 0)
	}
	return n
}

func zz25BytesFieldSize(b []byte) uint64 {
	if b == nil {
		return 0
	}
	return 1 + zz25VarintLen(uint64(len(b))) + uint64(len(b))
}

func zz25ModelSize(m *ipns_pb.IpnsRecord) int {
	n := zz25BytesFieldSize(m.Value) + zz25BytesFieldSize(m.SignatureV1) + zz25BytesFieldSize(m.Validity) +
		zz25BytesFieldSize(m.PubKey) + zz25BytesFieldSize(m.SignatureV2) + zz25BytesFieldSize(m.Data)
	if m.ValidityType != nil {
		n += 1 + zz25VarintLen(uint64(int64(*m.ValidityType)))
	}
	if m.Sequence != nil {
		n += 1 + zz25VarintLen(*m.Sequence)
	}
	if m.Ttl != nil {
		n += 1 + zz25VarintLen(*m.Ttl)
	}
	return int(n)
}

// bound to proto.Size
func zz25ProtoSize(m proto.Message) int {
	if zz25SizeOverride != 0 {
		return zz25SizeOverride
	}
	return zz25ModelSize(m.(*ipns_pb.IpnsRecord))
}

// =====================================================================================================
// Record construction
// =====================================================================================================

const zz25MaxSec = 253402300799 // 9999-12-31T23:59:59Z

// zz25Signed is the content of the signed DAG-CBOR document.
type zz25Signed struct {
	value []byte
	sec   int64
	nsec  int64
	vtype int64
	seq   int64
	ttl   int64
}

func zz25Node(s zz25Signed) datamodel.Node {
	nb := basicnode.Prototype__Map{}.NewBuilder()
	ma, err := nb.BeginMap(5)
	if err != nil {
		panic(err)
	}
	put := func(k string, n datamodel.Node) {
		if err := ma.AssembleKey().AssignString(k); err != nil {
			panic(err)
		}
		if err := ma.AssembleValue().AssignNode(n); err != nil {
			panic(err)
		}
	}
	put(cborTTLKey, basicnode.NewInt(s.ttl))
	put(cborValueKey, basicnode.NewBytes(s.value))
	put(cborSequenceKey, basicnode.NewInt(s.seq))
	put(cborValidityKey, basicnode.NewBytes(zz25ValidityBytes(s.sec, s.nsec)))
	put(cborValidityTypeKey, basicnode.NewInt(s.vtype))
	if err := ma.Finish(); err != nil {
		panic(err)
	}
	return nb.Build()
}

// native key pool: 0 and 1 are Ed25519 (inlined in the name), 2 is ECDSA (too large to inline: must be embedded)
var zz25Keys [3]ic.PrivKey

func zz25NativeKey(i int) ic.PrivKey {
	if zz25Keys[i] == nil {
		var sk ic.PrivKey
		var err error
		if i < 2 {
			sk, _, err = ic.GenerateEd25519Key(rand.Reader)
		} else {
			sk, _, err = ic.GenerateECDSAKeyPair(rand.Reader)
		}
		if err != nil {
			panic(err)
		}
		zz25Keys[i] = sk
	}
	return zz25Keys[i]
}

// zz25PubKey: the verification key with the given id (0, 1 or 2).
func zz25PubKey(id byte) ic.PubKey {
	if verifrt.Symbolic() {
		return &zz25Pub{id: id}
	}
	return zz25NativeKey(int(id)).GetPublic()
}

// zz25Data: the encoded signed document. Under the engine a one-byte token; natively the real DAG-CBOR.
func zz25Data(node datamodel.Node, token byte) []byte {
	if verifrt.Symbolic() {
		return []byte{token}
	}
	d, err := nodeToCBOR(node)
	if err != nil {
		panic(err)
	}
	return d
}

// zz25Sig: a signature described by (signer, digest): made by key `signer` (0/1; anything else: garbage bytes)
// over the document with token `digest` (the record's own document iff digest == dataToken). Signers: 0..2 are
// the keys of the pool, anything else is garbage bytes.
func zz25Sig(signer, digest, dataToken byte, data []byte) []byte {
	if verifrt.Symbolic() {
		return []byte{signer, digest}
	}
	if signer > 2 {
		return []byte{signer, digest, 0xff}
	}
	doc := data
	if digest != dataToken {
		doc = append(append([]byte(nil), data...), digest) // some other document
	}
	msg, _ := recordDataForSignatureV2(doc)
	sig, err := zz25NativeKey(int(signer)).Sign(msg)
	if err != nil {
		panic(err)
	}
	return sig
}

// =====================================================================================================
// Entry 1: Validate(rec, pk) with every legacy field independent of the signed document
// =====================================================================================================

func HarnessC25Validate() {
	full := verifrt.Param("FULL", 0) == 1
	now := time.Now()

	// --- the signed document ---
	var sd zz25Signed
	cvl := 1
	if full {
		cvl = verifrt.NondetRange("cvl", 0, 2)
	}
	sd.value = verifrt.NondetBytes("cvalue", cvl)
	delta := verifrt.NondetI64("delta") // expiry relative to now, seconds; |delta| >= 1h so the native clock agrees
	verifrt.Assume(delta >= -1000000000)
	verifrt.Assume(delta <= 1000000000)
	verifrt.Assume(verifrt.Ite(delta <= -3600, 1, verifrt.Ite(delta >= 3600, 1, 0)) == 1)
	sd.sec = now.Unix() + delta
	sd.nsec = verifrt.NondetI64("nsec")
	verifrt.Assume(sd.nsec >= 0)
	verifrt.Assume(sd.nsec < 1000000000)
	sd.vtype = verifrt.NondetI64("cvtype")
	sd.seq = verifrt.NondetI64("cseq")
	sd.ttl = verifrt.NondetI64("cttl")
	node := zz25Node(sd)
	zz25CurNode = node
	cvalidity := zz25ValidityBytes(sd.sec, sd.nsec)

	// --- the protobuf envelope ---
	pb := &ipns_pb.IpnsRecord{}
	dataTok := verifrt.NondetU8("dataTok")
	dataShape := verifrt.NondetRange("dataShape", 0, zz25ite(full, 2, 0))
	switch dataShape {
	case 0:
		pb.Data = zz25Data(node, dataTok)
	case 1:
		pb.Data = []byte{}
	case 2:
		pb.Data = nil
	}
	signer := verifrt.NondetU8("signer")
	digest := verifrt.NondetU8("digest")
	sigShape := verifrt.NondetRange("sigShape", 0, zz25ite(full, 2, 1))
	switch sigShape {
	case 0:
		pb.SignatureV2 = zz25Sig(signer, digest, dataTok, zz25Data(node, dataTok))
	case 1:
		pb.SignatureV2 = nil
	case 2:
		pb.SignatureV2 = []byte{}
	}
	// A record without Data or SignatureV2 is rejected before anything else is looked at: the legacy shapes
	// are not multiplied into those cases (they stay absent).
	legacyRange := func(name string, hi int) int {
		if dataShape != 0 || sigShape != 0 {
			return 0
		}
		return verifrt.NondetRange(name, 0, hi)
	}
	// legacy Value: absent / same length as the signed value (content free) / one byte longer
	// (full: also present but empty)
	valShape := legacyRange("valShape", zz25ite(full, 3, 2))
	switch valShape {
	case 1:
		pb.Value = verifrt.NondetBytes("pvalue", cvl)
	case 2:
		pb.Value = verifrt.NondetBytes("pvalue", cvl+1)
	case 3:
		pb.Value = []byte{}
	}
	if legacyRange("hasSigV1", 1) == 1 {
		pb.SignatureV1 = verifrt.NondetBytes("sigV1", 1)
	}
	// legacy Validity: absent / same length (content free) / truncated
	pvalShape := legacyRange("pvalidityShape", zz25ite(full, 2, 1))
	switch pvalShape {
	case 1:
		// a timestamp text of its own, chosen relative to the clock reading like the signed one (so that a
		// witness means the same under the virtual and the real clock); free to equal the signed one or not
		pdelta := verifrt.NondetI64("pdelta")
		pnsec := verifrt.NondetI64("pnsec")
		verifrt.Assume(pdelta >= -1000000000)
		verifrt.Assume(pdelta <= 1000000000)
		verifrt.Assume(pnsec >= 0)
		verifrt.Assume(pnsec < 1000000000)
		pb.Validity = zz25ValidityBytes(now.Unix()+pdelta, pnsec)
	case 2:
		pb.Validity = append([]byte(nil), cvalidity[:len(cvalidity)-1]...)
	}
	// legacy numeric fields: all present / all absent (quick), every combination (full)
	hasType, hasSeq, hasTTL := false, false, false
	if full {
		hasType, hasSeq, hasTTL = legacyRange("hasType", 1) == 1, legacyRange("hasSeq", 1) == 1, legacyRange("hasTTL", 1) == 1
	} else {
		h := legacyRange("hasNumeric", 1) == 1
		hasType, hasSeq, hasTTL = h, h, h
	}
	if hasType {
		t := ipns_pb.IpnsRecord_ValidityType(verifrt.NondetI32("ptype"))
		pb.ValidityType = &t
	}
	if hasSeq {
		s := verifrt.NondetU64("pseq")
		pb.Sequence = &s
	}
	if hasTTL {
		t := verifrt.NondetU64("pttl")
		pb.Ttl = &t
	}

	kid := verifrt.NondetU8("key")
	verifrt.Assume(kid <= 1)
	pk := zz25PubKey(kid)
	rec := &Record{pb: pb, node: node}

	err := Validate(rec, pk)
	verifrt.Observe("accepted", err == nil)
	if err != nil {
		verifrt.Reach("rejected")
		verifrt.Reach("end")
		return
	}
	verifrt.Reach("accepted")

	// (a) signed by the key, over this document
	verifrt.Assert("C25.accepted-has-sigv2", sigShape == 0)
	verifrt.Assert("C25.accepted-has-data", len(pb.Data) > 0)
	verifrt.Assert("C25.accepted-signed-by-key", signer == kid)
	verifrt.Assert("C25.accepted-signature-over-this-data", digest == dataTok)
	// (b) not expired
	verifrt.Assert("C25.accepted-not-expired", delta > 0)
	// (c) size
	size := 0
	if verifrt.Symbolic() {
		size = zz25ModelSize(pb)
	} else {
		size = proto.Size(pb)
	}
	verifrt.Assert("C25.accepted-within-size-limit", size <= MaxRecordSize)

	// (e) accessors report the signed values
	seq, err := rec.Sequence()
	verifrt.Assert("C25.accessor-no-error", err == nil)
	verifrt.Assert("C25.accessor-sequence", seq == uint64(sd.seq))
	ttl, err := rec.TTL()
	verifrt.Assert("C25.accessor-no-error", err == nil)
	verifrt.Assert("C25.accessor-ttl", int64(ttl) == sd.ttl)
	vt, err := rec.ValidityType()
	verifrt.Assert("C25.accessor-no-error", err == nil)
	verifrt.Assert("C25.accessor-validitytype", int64(vt) == sd.vtype)
	eol, err := rec.Validity()
	verifrt.Assert("C25.accessor-no-error", err == nil)
	verifrt.Assert("C25.accessor-validity", eol.Unix() == sd.sec)
	verifrt.Assert("C25.accessor-validity", int64(eol.Nanosecond()) == sd.nsec)
	val, err := rec.getBytesValue(cborValueKey)
	verifrt.Assert("C25.accessor-no-error", err == nil)
	verifrt.Assert("C25.accessor-value-bytes", string(val) == string(sd.value))
	// (d) every legacy field that is present agrees with the signed document
	gated := len(pb.SignatureV1) != 0 || len(pb.Value) != 0
	sfx := ""
	if !gated {
		sfx = "-when-no-value-no-sigv1"
	}
	if pb.Value != nil {
		verifrt.Assert("C25.legacy-value-agrees"+sfx, string(pb.Value) == string(sd.value))
	}
	if pb.Validity != nil {
		verifrt.Assert("C25.legacy-validity-agrees"+sfx, string(pb.Validity) == string(cvalidity))
	}
	if pb.ValidityType != nil {
		verifrt.Assert("C25.legacy-validitytype-agrees"+sfx, int64(*pb.ValidityType) == sd.vtype)
	}
	if pb.Sequence != nil {
		verifrt.Assert("C25.legacy-sequence-agrees"+sfx, *pb.Sequence == uint64(sd.seq))
	}
	if pb.Ttl != nil {
		verifrt.Assert("C25.legacy-ttl-agrees"+sfx, *pb.Ttl == uint64(sd.ttl))
	}

	verifrt.Observe("seq", seq)
	verifrt.Observe("ttl", int64(ttl))
	verifrt.Reach("end")
}

func zz25ite(c bool, a, b int) int {
	if c {
		return a
	}
	return b
}

// =====================================================================================================
// Entry 2: the size limit, swept across the boundary with a concrete record, and Value()/accessors on it
// =====================================================================================================

// zz25FixedSec is 2100-01-01T00:00:00Z.
const zz25FixedSec = 4102444800

// zz25FixedCborLen is the DAG-CBOR length of the fixed document below (checked natively through Observe).
const zz25FixedCborLen = 81

func HarnessC25Size() {
	binCid := verifrt.NondetRange("binaryCidValue", 0, 1) == 1
	sd := zz25Signed{value: []byte(NoopValue), sec: zz25FixedSec, nsec: 0, vtype: 0, seq: 1, ttl: 0}
	wantPath := NoopValue
	if binCid {
		// identity CID over zero bytes in binary form: 0x01 0x55 0x00 0x00
		sd.value = []byte{0x01, 0x55, 0x00, 0x00}
	}
	node := zz25Node(sd)
	zz25CurNode = node
	pb := &ipns_pb.IpnsRecord{}
	if verifrt.Symbolic() {
		n := zz25FixedCborLen
		if binCid {
			n -= len(NoopValue) - 4
		}
		pb.Data = make([]byte, n)
		pb.Data[0] = 7
	} else {
		pb.Data = zz25Data(node, 7)
	}
	verifrt.Observe("datalen", len(pb.Data))
	pb.SignatureV2 = zz25Sig(0, 7, 7, pb.Data)
	if verifrt.Symbolic() {
		// an Ed25519 signature is 64 bytes; keep the token in front
		pb.SignatureV2 = append(pb.SignatureV2, make([]byte, 62)...)
	}
	// v1-compatible legacy fields, all agreeing
	pb.Value = append([]byte(nil), sd.value...)
	pb.Validity = zz25ValidityBytes(sd.sec, sd.nsec)
	typ := ipns_pb.IpnsRecord_EOL
	pb.ValidityType = &typ
	seq, ttl := uint64(1), uint64(0)
	pb.Sequence, pb.Ttl = &seq, &ttl
	pb.SignatureV1 = []byte{1}

	// pad with the (unchecked by Validate) PubKey field so that the wire size is MaxRecordSize + d, d in [-2,3]
	d := verifrt.NondetRange("d", -2, 3)
	validityLen := 20 // "2100-01-01T00:00:00Z"
	base := (1 + 1 + len(sd.value)) + (1 + 1 + 1) + 2 + (1 + 1 + validityLen) + 2 + 2 + (1 + 1 + 64) + (1 + 1 + len(pb.Data))
	pad := MaxRecordSize + d - base - (1 + 2) // PubKey: tag + 2-byte length varint + pad
	pb.PubKey = make([]byte, pad)
	if verifrt.Symbolic() {
		// the size model has to see the native text length
		pb.Validity = make([]byte, validityLen)
	}
	size := 0
	if verifrt.Symbolic() {
		size = zz25ModelSize(pb)
		pb.Validity = zz25ValidityBytes(sd.sec, sd.nsec)
	} else {
		size = proto.Size(pb)
	}
	verifrt.Observe("size", size)
	verifrt.Assert("C25.size-harness-hits-target", size == MaxRecordSize+d)
	zz25SizeOverride = size
	rec := &Record{pb: pb, node: node}
	err := Validate(rec, zz25PubKey(0))
	zz25SizeOverride = 0
	verifrt.Observe("accepted", err == nil)
	if err != nil {
		verifrt.Reach("rejected")
		verifrt.Reach("end")
		return
	}
	verifrt.Reach("accepted")
	verifrt.Assert("C25.accepted-within-size-limit", size <= MaxRecordSize)
	p, err := rec.Value()
	verifrt.Assert("C25.accessor-no-error", err == nil)
	if binCid {
		wantPath = "/ipfs/bafkqaaa" // the same identity CID, printed
	}
	verifrt.Assert("C25.accessor-value-path", p != nil && p.String() == wantPath)
	verifrt.Reach("end")
}

// zz25SizeOverride, when non-zero, is what the proto.Size model returns (entry 2 computes the size with the
// native text length of the Validity field and then restores the token).
var zz25SizeOverride int

// =====================================================================================================
// Entry 3: ValidateWithName / ExtractPublicKey / Validator.getPublicKey: the key must be the key of the name
// =====================================================================================================

// Under the engine key k marshals to {0x4b,k}. Peer IDs are well-formed multihashes: keys 0 and 1 are small and
// inlined (identity multihash over the one-byte key), key 2 is large (a sha2-256 shaped multihash).

func zz25MarshalPub(k byte) []byte {
	if verifrt.Symbolic() {
		return []byte{0x4b, k}
	}
	b, err := ic.MarshalPublicKey(zz25NativeKey(int(k)).GetPublic())
	if err != nil {
		panic(err)
	}
	return b
}

func zz25ModelID(k byte) peer.ID {
	if k == 2 {
		b := make([]byte, 34)
		b[0], b[1], b[2] = 0x12, 0x20, 2
		return peer.ID(string(b))
	}
	return peer.ID(string([]byte{0x00, 0x01, k}))
}

func zz25PeerID(k byte) peer.ID {
	if verifrt.Symbolic() {
		return zz25ModelID(k)
	}
	id, err := peer.IDFromPublicKey(zz25NativeKey(int(k)).GetPublic())
	if err != nil {
		panic(err)
	}
	return id
}

// bound to ic.UnmarshalPublicKey
func zz25UnmarshalPublicKey(data []byte) (ic.PubKey, error) {
	if len(data) != 2 || data[0] != 0x4b || data[1] > 2 {
		return nil, zz25ErrBadKey
	}
	return &zz25Pub{id: data[1]}, nil
}

// bound to peer.IDFromPublicKey
func zz25IDFromPublicKey(pk ic.PubKey) (peer.ID, error) {
	p, ok := pk.(*zz25Pub)
	if !ok {
		return "", zz25ErrBadKey
	}
	return zz25ModelID(p.id), nil
}

// bound to (peer.ID).ExtractPublicKey
func zz25ExtractPublicKey(id peer.ID) (ic.PubKey, error) {
	s := string(id)
	if len(s) == 3 && s[0] == 0x00 && s[1] == 0x01 && s[2] <= 1 {
		return &zz25Pub{id: s[2]}, nil
	}
	if len(s) == 34 && s[0] == 0x12 {
		return nil, peer.ErrNoPublicKey
	}
	return nil, zz25ErrBadKey
}

// ---- protobuf decoding: opaque invertible codec; the one encoded record of the path decodes to its fields ----

var zz25CurPB *ipns_pb.IpnsRecord

// bound to proto.Unmarshal
func zz25ProtoUnmarshal(b []byte, m proto.Message) error {
	if len(b) != 1 || b[0] != 0x9b || zz25CurPB == nil {
		return errors.New("zz25: not the encoded record of this path")
	}
	src, dst := zz25CurPB, m.(*ipns_pb.IpnsRecord)
	dst.Value, dst.SignatureV1, dst.Validity = src.Value, src.SignatureV1, src.Validity
	dst.PubKey, dst.SignatureV2, dst.Data = src.PubKey, src.SignatureV2, src.Data
	dst.ValidityType, dst.Sequence, dst.Ttl = src.ValidityType, src.Sequence, src.Ttl
	return nil
}

// zz25KeyBook is an honest key book: it knows the key of peer `has` (or of nobody when has > 2).
type zz25KeyBook struct{ has byte }

func (kb *zz25KeyBook) PubKey(id peer.ID) ic.PubKey {
	if kb.has <= 2 && id == zz25PeerID(kb.has) {
		return zz25PubKey(kb.has)
	}
	return nil
}
func (kb *zz25KeyBook) AddPubKey(peer.ID, ic.PubKey) error   { return nil }
func (kb *zz25KeyBook) PrivKey(peer.ID) ic.PrivKey           { return nil }
func (kb *zz25KeyBook) AddPrivKey(peer.ID, ic.PrivKey) error { return nil }
func (kb *zz25KeyBook) PeersWithKeys() peer.IDSlice          { return nil }
func (kb *zz25KeyBook) RemovePeer(peer.ID)                   {}

func HarnessC25WithName() {
	now := time.Now()
	sd := zz25Signed{value: []byte(NoopValue), sec: now.Unix() + 86400, nsec: 0, vtype: 0, seq: 1, ttl: 0}
	node := zz25Node(sd)
	zz25CurNode = node
	pb := &ipns_pb.IpnsRecord{}
	dataTok := verifrt.NondetU8("dataTok")
	pb.Data = zz25Data(node, dataTok)
	signer := verifrt.NondetU8("signer")
	verifrt.Assume(signer <= 3)
	digest := verifrt.NondetU8("digest")
	pb.SignatureV2 = zz25Sig(signer, digest, dataTok, pb.Data)

	nameKey := byte(verifrt.NondetRange("nameKey", 0, 2))
	name := NameFromPeer(zz25PeerID(nameKey))
	embShape := verifrt.NondetRange("embShape", 0, 2) // 0 absent, 1 the key embKey, 2 undecodable bytes
	embKey := verifrt.NondetU8("embKey")
	verifrt.Assume(embKey <= 2)
	switch embShape {
	case 1:
		pb.PubKey = zz25MarshalPub(embKey)
	case 2:
		pb.PubKey = []byte{0xff, 0x00, 0x01}
	}
	rec := &Record{pb: pb, node: node}

	// mode 0: ValidateWithName; mode 1: Validator.getPublicKey (with an honest key book) + Validate;
	// mode 2: Validator.Validate(routing key, encoded record) with the same key book
	mode := verifrt.NondetRange("mode", 0, 2)
	kbHas := byte(3)
	var err error
	if mode == 0 {
		err = ValidateWithName(rec, name)
	} else if mode == 2 {
		kbHas = byte(verifrt.NondetRange("kbHas", 0, 3))
		var enc []byte
		if verifrt.Symbolic() {
			zz25CurPB = pb
			enc = []byte{0x9b}
		} else {
			enc, err = proto.Marshal(pb)
			if err != nil {
				panic(err)
			}
		}
		err = Validator{KeyBook: &zz25KeyBook{has: kbHas}}.Validate(string(name.RoutingKey()), enc)
	} else {
		kbHas = byte(verifrt.NondetRange("kbHas", 0, 3))
		var pk ic.PubKey
		pk, err = Validator{KeyBook: &zz25KeyBook{has: kbHas}}.getPublicKey(rec, name)
		if err == nil {
			verifrt.Assert("C25.getpublickey-returns-key", pk != nil)
			err = Validate(rec, pk)
		}
	}
	verifrt.Observe("accepted", err == nil)
	if err != nil {
		verifrt.Reach("end")
		return
	}
	verifrt.Reach("accepted")
	verifrt.Assert("C25.accepted-signed-by-key-of-name", signer == nameKey)
	verifrt.Assert("C25.accepted-signature-over-this-data", digest == dataTok)
	verifrt.Assert("C25.accepted-embedded-key-decodes", embShape != 2)
	if embShape == 1 {
		verifrt.Assert("C25.accepted-embedded-key-matches-name", embKey == nameKey)
		pk, err := rec.PubKey()
		verifrt.Assert("C25.accessor-no-error", err == nil)
		verifrt.Assert("C25.accessor-pubkey", pk != nil && pk.Equals(zz25PubKey(embKey)))
	} else {
		_, err := rec.PubKey()
		verifrt.Assert("C25.accessor-pubkey-absent", errors.Is(err, ErrPublicKeyNotFound))
	}
	verifrt.Reach("end")
}
