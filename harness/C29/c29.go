package namesys

import (
	"bytes"
	"context"
	"crypto/rand"
	"errors"
	"time"

	"github.com/ipfs/boxo/internal/verifrt"
	"github.com/ipfs/boxo/ipns"
	"github.com/ipfs/boxo/path"
	ds "github.com/ipfs/go-datastore"
	ic "github.com/libp2p/go-libp2p/core/crypto"
	icpb "github.com/libp2p/go-libp2p/core/crypto/pb"
	"github.com/libp2p/go-libp2p/core/peer"
	"github.com/libp2p/go-libp2p/core/routing"
)

// ---- C29: environment shared by the entries ----
//
// Record creation / signing / encoding is opaque crypto. Under the engine ipns.NewRecord, MarshalRecord,
// UnmarshalRecord and the Record accessors are bound to the zz29* functions below: a record is a registry
// entry (sequence, value, ttl, eol), its encoding a 2-byte token. Natively none of these stubs is active:
// the real Ed25519 key, the real record codec and the real accessors run, and the harness reads the stores
// back through the same public API.

type zz29Rec struct {
	r   *ipns.Record
	seq uint64
	val path.Path
	ttl time.Duration
	eol time.Time
}

var zz29Regs []zz29Rec

func zz29Find(r *ipns.Record) *zz29Rec {
	for i := range zz29Regs {
		if zz29Regs[i].r == r {
			return &zz29Regs[i]
		}
	}
	return nil
}

func zz29NewRecord(sk ic.PrivKey, value path.Path, seq uint64, eol time.Time, ttl time.Duration, opts ...ipns.Option) (*ipns.Record, error) {
	r := &ipns.Record{}
	zz29Regs = append(zz29Regs, zz29Rec{r: r, seq: seq, val: value, ttl: ttl, eol: eol})
	return r, nil
}

func zz29MarshalRecord(r *ipns.Record) ([]byte, error) {
	for i := range zz29Regs {
		if zz29Regs[i].r == r {
			return []byte{'R', byte(i)}, nil
		}
	}
	return nil, ipns.ErrInvalidRecord
}

func zz29UnmarshalRecord(data []byte) (*ipns.Record, error) {
	if len(data) != 2 || data[0] != 'R' || int(data[1]) >= len(zz29Regs) {
		return nil, ipns.ErrInvalidRecord
	}
	return zz29Regs[data[1]].r, nil
}

func zz29RecSequence(r *ipns.Record) (uint64, error) {
	e := zz29Find(r)
	if e == nil {
		return 0, ipns.ErrInvalidRecord
	}
	return e.seq, nil
}

func zz29RecValue(r *ipns.Record) (path.Path, error) {
	e := zz29Find(r)
	if e == nil {
		return nil, ipns.ErrInvalidRecord
	}
	return e.val, nil
}

func zz29RecTTL(r *ipns.Record) (time.Duration, error) {
	e := zz29Find(r)
	if e == nil {
		return 0, ipns.ErrInvalidRecord
	}
	return e.ttl, nil
}

func zz29RecValidity(r *ipns.Record) (time.Time, error) {
	e := zz29Find(r)
	if e == nil {
		return time.Time{}, ipns.ErrInvalidRecord
	}
	return e.eol, nil
}

// zz29PeerID is the peer ID every harness key maps to under the engine: an identity multihash over 4 bytes.
const zz29PeerID = peer.ID("\x00\x04key0")

type zz29Pub struct{}

func (zz29Pub) Equals(o ic.Key) bool              { _, ok := o.(zz29Pub); return ok }
func (zz29Pub) Raw() ([]byte, error)              { return []byte{0}, nil }
func (zz29Pub) Type() icpb.KeyType                { return icpb.KeyType_Ed25519 }
func (zz29Pub) Verify(d, s []byte) (bool, error)  { return true, nil }

type zz29Priv struct{}

func (zz29Priv) Equals(o ic.Key) bool           { _, ok := o.(zz29Priv); return ok }
func (zz29Priv) Raw() ([]byte, error)           { return []byte{0}, nil }
func (zz29Priv) Type() icpb.KeyType             { return icpb.KeyType_Ed25519 }
func (zz29Priv) Sign(d []byte) ([]byte, error)  { return []byte{1}, nil }
func (zz29Priv) GetPublic() ic.PubKey           { return zz29Pub{} }

func zz29IDFromPrivateKey(sk ic.PrivKey) (peer.ID, error) { return zz29PeerID, nil }
func zz29IDFromPublicKey(pk ic.PubKey) (peer.ID, error)   { return zz29PeerID, nil }
func zz29ExtractPublicKey(id peer.ID) (ic.PubKey, error)  { return zz29Pub{}, nil }

func zz29Key() ic.PrivKey {
	if verifrt.Symbolic() {
		return zz29Priv{}
	}
	sk, _, err := ic.GenerateEd25519Key(rand.Reader)
	if err != nil {
		panic(err)
	}
	return sk
}

// zz29DS is the local datastore: a plain map, counting writes.
type zz29DS struct {
	ds.Datastore // nil: anything but Get/Put/Sync/Has is not expected
	m            map[string][]byte
	puts, syncs  int
}

func (d *zz29DS) Get(ctx context.Context, k ds.Key) ([]byte, error) {
	v, ok := d.m[k.String()]
	if !ok {
		return nil, ds.ErrNotFound
	}
	return v, nil
}

func (d *zz29DS) Has(ctx context.Context, k ds.Key) (bool, error) {
	_, ok := d.m[k.String()]
	return ok, nil
}

func (d *zz29DS) Put(ctx context.Context, k ds.Key, v []byte) error {
	d.m[k.String()] = v
	d.puts++
	return nil
}

func (d *zz29DS) Sync(ctx context.Context, k ds.Key) error { d.syncs++; return nil }
func (d *zz29DS) Close() error                            { return nil }

// zz29Routing is the in-memory routing value store.
type zz29Routing struct {
	m    map[string][]byte
	puts int
	// onPut, when set, runs once at the start of the next PutValue, before the new record is visible: the
	// deterministic placement of "a resolve of the name runs while a publish is handing its record to routing"
	onPut func()
}

func (r *zz29Routing) PutValue(ctx context.Context, k string, v []byte, _ ...routing.Option) error {
	if f := r.onPut; f != nil {
		r.onPut = nil
		f()
	}
	r.m[k] = v
	r.puts++
	return nil
}

func (r *zz29Routing) GetValue(ctx context.Context, k string, _ ...routing.Option) ([]byte, error) {
	v, ok := r.m[k]
	if !ok {
		return nil, routing.ErrNotFound
	}
	return v, nil
}

func (r *zz29Routing) SearchValue(ctx context.Context, k string, _ ...routing.Option) (<-chan []byte, error) {
	v, ok := r.m[k]
	if !ok {
		return nil, routing.ErrNotFound
	}
	ch := make(chan []byte, 1)
	ch <- v
	close(ch)
	return ch, nil
}

func zz29Paths() []path.Path {
	a, err := path.NewPath("/ipfs/bafkqaaa")
	if err != nil {
		panic(err)
	}
	b, err := path.NewPath("/ipfs/QmUNLLsPACCz1vLxQVkXqqLX5R1X345qqfHbsf67hvA3Nn")
	if err != nil {
		panic(err)
	}
	return []path.Path{a, b}
}

// zz29Decode reads (sequence, value) of an encoded record through the public ipns API.
func zz29Decode(data []byte) (uint64, string) {
	rec, err := ipns.UnmarshalRecord(data)
	if err != nil {
		panic(err)
	}
	seq, err := rec.Sequence()
	if err != nil {
		panic(err)
	}
	v, err := rec.Value()
	if err != nil {
		panic(err)
	}
	return seq, v.String()
}

// zz29SeqHistory drives a history of publishes from a symbolic initial state. full=false calls
// IPNSPublisher.updateRecord (sequence selection + local store), full=true IPNSPublisher.Publish (adds the
// routing put).
func zz29SeqHistory(full bool) {
	zz29Regs = nil
	ctx := context.Background()
	sk := zz29Key()
	vals := zz29Paths()
	pid, err := peer.IDFromPrivateKey(sk)
	if err != nil {
		panic(err)
	}
	name := ipns.NameFromPeer(pid)
	dsKey := IpnsDsKey(name).String()
	rtKey := string(name.RoutingKey())

	store := &zz29DS{m: map[string][]byte{}}
	rt := &zz29Routing{m: map[string][]byte{}}
	p := NewIPNSPublisher(rt, store)

	// initial state: 0 nothing published, 1 record in the local store, 2 record only in the routing system
	init := verifrt.NondetRange("init", 0, 2)
	have := init != 0
	cur := verifrt.NondetU64("cur")
	curVal := 0
	if have {
		curVal = verifrt.NondetRange("curval", 0, 1)
		rec, err := ipns.NewRecord(sk, vals[curVal], cur, time.Now().Add(time.Hour), time.Minute)
		if err != nil {
			panic(err)
		}
		data, err := ipns.MarshalRecord(rec)
		if err != nil {
			panic(err)
		}
		if init == 1 {
			store.m[dsKey] = data
		} else {
			rt.m[rtKey] = data
		}
	}

	steps := verifrt.Param("K", 2)
	for step := 0; step < steps; step++ {
		explicit := verifrt.NondetRange("explicit", 0, 1) == 1
		v := verifrt.NondetRange("v", 0, 1)
		var opts []PublishOption
		var s uint64
		if explicit {
			s = verifrt.NondetU64("s")
			opts = append(opts, PublishWithSequence(s))
		}
		before, hadBefore := store.m[dsKey]
		rtBefore, rtHadBefore := rt.m[rtKey]

		var r *ipns.Record
		var err error
		if full {
			err = p.Publish(ctx, sk, vals[v], opts...)
		} else {
			r, err = p.updateRecord(ctx, sk, vals[v], opts...)
		}
		ok := err == nil
		verifrt.Observe("ok", ok)

		if !ok {
			after, hadAfter := store.m[dsKey]
			verifrt.Assert("C29.rejected-publish-leaves-local-store", hadAfter == hadBefore && bytes.Equal(after, before))
			rtAfter, rtHadAfter := rt.m[rtKey]
			verifrt.Assert("C29.rejected-publish-leaves-routing", rtHadAfter == rtHadBefore && bytes.Equal(rtAfter, rtBefore))
			if explicit {
				if have {
					verifrt.Assert("C29.explicit-greater-accepted", s <= cur)
				} else {
					verifrt.Assert("C29.explicit-first-publish-accepted", s == 0)
				}
				verifrt.Assert("C29.explicit-rejection-is-ErrInvalidSequence", errors.Is(err, ErrInvalidSequence))
			} else {
				// the only excuse for refusing a default publish is an exhausted sequence space
				verifrt.Assert("C29.publish-succeeds", have && cur == ^uint64(0) && v != curVal)
			}
			continue
		}

		data, present := store.m[dsKey]
		verifrt.Assert("C29.record-stored-locally", present)
		newSeq, newVal := zz29Decode(data)
		verifrt.Observe("newSeq", newSeq)
		verifrt.Assert("C29.stored-value-is-published", newVal == vals[v].String())
		if r != nil {
			rs, err := r.Sequence()
			verifrt.Assert("C29.returned-record-is-stored-record", err == nil && rs == newSeq)
		}
		if full {
			rdata, rpresent := rt.m[rtKey]
			verifrt.Assert("C29.record-put-to-routing", rpresent)
			rSeq, rVal := zz29Decode(rdata)
			verifrt.Assert("C29.routing-record-matches-local", rSeq == newSeq && rVal == newVal)
		}
		if explicit {
			if have {
				verifrt.Assert("C29.explicit-not-greater-rejected", s > cur)
			}
			verifrt.Assert("C29.explicit-seq-stored", newSeq == s)
		}
		if have {
			verifrt.Assert("C29.seq-never-decreases", newSeq >= cur)
			if v != curVal {
				verifrt.Assert("C29.seq-increases-on-change", newSeq > cur)
			}
		}
		have, cur, curVal = true, newSeq, v
	}
	verifrt.Reach("end")
}

// HarnessC29Seq: sequence selection of IPNSPublisher.updateRecord over publish histories.
func HarnessC29Seq() { zz29SeqHistory(false) }

// HarnessC29Publish: the same histories through IPNSPublisher.Publish (local store + routing put).
func HarnessC29Publish() { zz29SeqHistory(true) }

// HarnessC29MinTTL: minNonZeroTTL against "smallest non-zero".
func HarnessC29MinTTL() {
	a := time.Duration(verifrt.NondetI64("a"))
	b := time.Duration(verifrt.NondetI64("b"))
	got := minNonZeroTTL(a, b)
	verifrt.Observe("got", int64(got))
	if a >= 0 && b >= 0 {
		switch {
		case a == 0:
			verifrt.Assert("C29.min-ttl-zero-is-unknown", got == b)
		case b == 0:
			verifrt.Assert("C29.min-ttl-zero-is-unknown", got == a)
		default:
			verifrt.Assert("C29.min-ttl-is-smaller", got <= a && got <= b && (got == a || got == b))
		}
	} else {
		// documented: a non-positive value is unknown and ignored, a negative input is never returned
		verifrt.Assert("C29.min-ttl-never-negative", got >= 0)
		switch {
		case a > 0 && b < 0:
			verifrt.Assert("C29.min-ttl-negative-ignored", got == a)
		case b > 0 && a < 0:
			verifrt.Assert("C29.min-ttl-negative-ignored", got == b)
		default:
			verifrt.Assert("C29.min-ttl-negative-ignored", got == 0)
		}
	}
	verifrt.Reach("end")
}

// HarnessC29JoinPaths: joinPaths appends exactly the unresolved remainder (segments after /ipns/<name>, and
// the trailing slash) to the resolved base.
func HarnessC29JoinPaths() {
	pool := []string{"a", "bb", "c.d"}
	bases := []string{"/ipfs/bafkqaaa", "/ipfs/bafkqaaa/x", "/ipns/example.com", "/ipfs/bafkqaaa/"}
	bi := verifrt.NondetRange("base", 0, len(bases)-1)
	n := verifrt.NondetRange("n", 0, verifrt.Param("SEGS", 2))
	rem := ""
	for i := 0; i < n; i++ {
		rem += "/" + pool[verifrt.NondetRange("seg", 0, len(pool)-1)]
	}
	if verifrt.NondetRange("slash", 0, 1) == 1 {
		rem += "/"
	}
	base, err := path.NewPath(bases[bi])
	if err != nil {
		panic(err)
	}
	unresolved, err := path.NewPath("/ipns/name.example" + rem)
	if err != nil {
		panic(err)
	}
	got, err := joinPaths(base, unresolved)
	verifrt.Assert("C29.join-no-error", err == nil && got != nil)
	want := bases[bi]
	if rem != "" {
		if want[len(want)-1] == '/' {
			want = want[:len(want)-1]
		}
		want += rem
	}
	verifrt.Observe("got", got.String())
	verifrt.Assert("C29.join-appends-remainder", got.String() == want)
	verifrt.Assert("C29.join-keeps-mutability", got.Mutable() == base.Mutable())
	nilres, err := joinPaths(nil, unresolved)
	verifrt.Assert("C29.join-nil-base", nilres == nil && err == nil)
	verifrt.Reach("end")
}
