package namesys

import (
	"context"
	"errors"
	"strings"
	"time"

	"github.com/ipfs/boxo/internal/verifrt"
	"github.com/ipfs/boxo/ipns"
	"github.com/ipfs/boxo/path"
	"github.com/libp2p/go-libp2p/core/peer"
	"github.com/libp2p/go-libp2p/core/routing"
)

// ---- C29 T2: recursive resolution over a harness resolver chain ----

type zz29Hop struct {
	next string // what the name resolves to (a path string without remainder)
	ttl  time.Duration
}

// zz29Chain implements the package's resolver interface over a table name -> hop. Like the real resolvers it
// returns the target with the unresolved remainder of the asked path appended.
type zz29Chain struct {
	hops  map[string][]zz29Hop // several hops for one name = several successive results
	calls int
}

func (c *zz29Chain) resolveOnceAsync(ctx context.Context, p path.Path, options ResolveOptions) <-chan AsyncResult {
	c.calls++
	segs := p.Segments()
	hs, ok := c.hops[segs[1]]
	out := make(chan AsyncResult, len(hs)+1)
	if !ok {
		out <- AsyncResult{Err: ErrResolveFailed}
		close(out)
		return out
	}
	rem := ""
	if len(segs) > 2 {
		rem = "/" + strings.Join(segs[2:], "/")
	}
	if strings.HasSuffix(p.String(), "/") {
		rem += "/"
	}
	for _, h := range hs {
		np, err := path.NewPath(h.next + rem)
		if err != nil {
			panic(err)
		}
		out <- AsyncResult{Path: np, TTL: h.ttl}
	}
	close(out)
	return out
}

var zz29Names = []string{"n0.example", "n1.example", "n2.example", "n3.example", "n4.example", "n5.example", "n6.example"}

const zz29Terminal = "/ipfs/bafkqaaa"

var zz29Rems = []string{"", "/x", "/x/yy/"}

// HarnessC29ResolveChain: resolve()/resolveAsync over a chain n0 -> n1 -> ... -> terminal (or back into the
// chain) of m mutable hops, with any depth limit, any per-hop TTLs and a remainder.
func HarnessC29ResolveChain() { zz29ResolveChain() }

// HarnessC29ResolveChainSched: the same under explored schedules (spec: sched explore:2).
func HarnessC29ResolveChainSched() { zz29ResolveChain() }

func zz29ResolveChain() {
	m := verifrt.NondetRange("m", 1, verifrt.Param("M", 4))
	// back = -1: the last name points at the immutable terminal; back = j: it points back at name j (a cycle)
	back := -1
	if verifrt.Param("CYCLES", 1) == 1 {
		back = verifrt.NondetRange("back", -1, m-1)
	}
	rem := zz29Rems[verifrt.NondetRange("rem", 0, verifrt.Param("REMS", len(zz29Rems))-1)]
	depth := uint(verifrt.NondetU8("depth"))
	if back >= 0 {
		// an infinite chain needs a limit to terminate at all
		verifrt.Assume(depth >= 1)
		verifrt.Assume(depth <= uint(verifrt.Param("D", 5)))
	}
	ch := &zz29Chain{hops: map[string][]zz29Hop{}}
	ttls := make([]time.Duration, m)
	for i := 0; i < m; i++ {
		ttls[i] = time.Duration(verifrt.NondetI64("ttl"))
		verifrt.Assume(ttls[i] >= 0)
		next := zz29Terminal
		if i < m-1 {
			next = "/ipns/" + zz29Names[i+1]
		} else if back >= 0 {
			next = "/ipns/" + zz29Names[back]
		}
		ch.hops[zz29Names[i]] = []zz29Hop{{next: next, ttl: ttls[i]}}
	}
	start, err := path.NewPath("/ipns/" + zz29Names[0] + rem)
	if err != nil {
		panic(err)
	}
	opts := DefaultResolveOptions()
	opts.Depth = depth

	res, err := resolve(context.Background(), ch, start, opts)
	verifrt.Observe("err", err != nil)

	tooLong := back >= 0 || (depth != 0 && uint(m) > depth)
	if tooLong {
		verifrt.Assert("C29.recursion-error-when-chain-longer-than-limit", errors.Is(err, ErrResolveRecursion))
		if back < 0 {
			verifrt.Assert("C29.resolver-asked-at-most-limit-times", uint(ch.calls) <= depth)
		}
		verifrt.Reach("end")
		return
	}
	verifrt.Assert("C29.no-recursion-error-within-limit", !errors.Is(err, ErrResolveRecursion))
	verifrt.Assert("C29.chain-within-limit-resolves", err == nil)
	if err == nil {
		verifrt.Observe("path", res.Path.String())
		verifrt.Observe("ttl", int64(res.TTL))
		verifrt.Assert("C29.final-path-is-terminal-plus-remainder", res.Path != nil && res.Path.String() == zz29Terminal+rem)
		// reference: smallest non-zero TTL along the chain, 0 if none
		var want time.Duration
		for _, t := range ttls {
			want = zz29IteD(t != 0 && (want == 0 || t < want), t, want)
		}
		verifrt.Assert("C29.ttl-is-smallest-nonzero", res.TTL == want)
	}
	verifrt.Reach("end")
}

// HarnessC29ResolveUpdates: the first name yields two successive results (as a routing search does when a
// better record arrives); the final answer follows the last one.
func HarnessC29ResolveUpdates() {
	ch := &zz29Chain{hops: map[string][]zz29Hop{}}
	t0a := time.Duration(verifrt.NondetI64("t0a"))
	t0b := time.Duration(verifrt.NondetI64("t0b"))
	t1 := time.Duration(verifrt.NondetI64("t1"))
	t2 := time.Duration(verifrt.NondetI64("t2"))
	verifrt.Assume(t0a >= 0)
	verifrt.Assume(t0b >= 0)
	verifrt.Assume(t1 >= 0)
	verifrt.Assume(t2 >= 0)
	const otherTerminal = "/ipfs/QmUNLLsPACCz1vLxQVkXqqLX5R1X345qqfHbsf67hvA3Nn"
	// shape of the second result: 0 = via n2 to the other terminal, 1 = directly the other terminal
	shape := verifrt.NondetRange("shape", 0, verifrt.Param("SHAPES", 0))
	second := zz29Hop{next: "/ipns/" + zz29Names[2], ttl: t0b}
	if shape == 1 {
		second = zz29Hop{next: otherTerminal, ttl: t0b}
	}
	ch.hops[zz29Names[0]] = []zz29Hop{{next: "/ipns/" + zz29Names[1], ttl: t0a}, second}
	ch.hops[zz29Names[1]] = []zz29Hop{{next: zz29Terminal, ttl: t1}}
	ch.hops[zz29Names[2]] = []zz29Hop{{next: otherTerminal, ttl: t2}}
	start, err := path.NewPath("/ipns/" + zz29Names[0] + "/x")
	if err != nil {
		panic(err)
	}
	res, err := resolve(context.Background(), ch, start, DefaultResolveOptions())
	verifrt.Assert("C29.updates-resolve", err == nil)
	if err == nil {
		verifrt.Observe("path", res.Path.String())
		verifrt.Observe("ttl", int64(res.TTL))
		verifrt.Assert("C29.updates-last-result-wins", res.Path.String() == otherTerminal+"/x")
		want := t0b
		if shape == 0 {
			want = zz29IteD(t2 != 0 && (want == 0 || t2 < want), t2, want)
		}
		verifrt.Assert("C29.updates-ttl-of-last-chain", res.TTL == want)
	}
	verifrt.Reach("end")
}

// ---- C29 T2: publish then resolve through one name system, with and without the cache ----

func zz29Getenv(key string) string { return "" }

func zz29Quorum(n int) routing.Option { return func(*routing.Options) error { return nil } }

func zz29NoDNS(ctx context.Context, name string) ([]string, time.Duration, error) {
	return nil, 0, ErrResolveFailed
}

// HarnessC29PublishResolve: histories of Publish / Resolve on one NameSystem over in-memory routing.
func HarnessC29PublishResolve() {
	zz29Regs = nil
	ctx := context.Background()
	sk := zz29Key()
	vals := zz29Paths()
	pid, err := peer.IDFromPrivateKey(sk)
	if err != nil {
		panic(err)
	}
	name := ipns.NameFromPeer(pid)
	rt := &zz29Routing{m: map[string][]byte{}}
	store := &zz29DS{m: map[string][]byte{}}

	nsOpts := []Option{WithDatastore(store), WithDNSResolverWithTTL(zz29NoDNS)}
	cacheSize := verifrt.NondetRange("cache", 0, verifrt.Param("CACHE", 1))
	if cacheSize > 0 {
		nsOpts = append(nsOpts, WithCache(cacheSize))
		if verifrt.NondetRange("capped", 0, 1) == 1 {
			nsOpts = append(nsOpts, WithMaxCacheTTL(zz29FewDurs[verifrt.NondetRange("maxttl", 0, len(zz29FewDurs)-1)]))
		}
	}
	ns, err := NewNameSystem(rt, nsOpts...)
	if err != nil {
		panic(err)
	}

	// the record TTL used by every publish: unknown (0) or a positive one of the pool
	ttl := zz29FewDurs[verifrt.NondetRange("ttl", 0, len(zz29FewDurs)-1)]

	ask := name.AsPath()
	steps := verifrt.Param("STEPS", 3)
	published := -1
	for step := 0; step < steps; step++ {
		// 0: resolve, 1: publish value 0, 2: publish value 1
		op := verifrt.NondetRange("op", 0, 2)
		if op == 0 {
			res, err := ns.Resolve(ctx, ask)
			verifrt.Observe("resolve-ok", err == nil)
			if published < 0 {
				verifrt.Assert("C29.unpublished-name-does-not-resolve", err != nil)
				continue
			}
			verifrt.Assert("C29.resolve-after-publish-succeeds", err == nil)
			if err == nil {
				verifrt.Observe("resolved", res.Path.String())
				verifrt.Assert("C29.resolve-returns-published-value", res.Path.String() == vals[published].String())
			}
			continue
		}
		v := op - 1
		if verifrt.Param("OVERLAP", 1) != 0 && verifrt.NondetBool("resolveDuringPublish") {
			// a resolve of the same name overlaps this publish: it runs after Publish was called and before
			// routing holds the new record; whatever it returns (old value, or nothing), it must not make
			// later resolves return the old value
			prev := published
			rt.onPut = func() {
				res, err := ns.Resolve(ctx, ask)
				if err == nil && prev >= 0 {
					verifrt.Assert("C29.overlapped-resolve-returns-a-published-value",
						res.Path.String() == vals[prev].String() || res.Path.String() == vals[v].String())
				}
			}
		}
		err := ns.Publish(ctx, sk, vals[v], PublishWithTTL(ttl))
		rt.onPut = nil
		verifrt.Assert("C29.namesys-publish-succeeds", err == nil)
		if err == nil {
			published = v
		}
	}
	// every history ends with a resolve
	if published >= 0 {
		res, err := ns.Resolve(ctx, ask)
		verifrt.Assert("C29.resolve-after-publish-succeeds", err == nil)
		if err == nil {
			verifrt.Observe("final", res.Path.String())
			verifrt.Assert("C29.resolve-returns-published-value", res.Path.String() == vals[published].String())
		}
	}
	verifrt.Reach("end")
}

// zz29Durs is the pool TTLs, caps and ages are drawn from. Durations stay concrete because time.Time.Add divides
// by 1e9 (64-bit division by a constant stalls the solver); the pool has every sign/order relation between
// TTL, cap and age that the cache code distinguishes, with gaps far above the clock granularity (the native
// clock is the real one).
var zz29Durs = []time.Duration{-time.Hour, 0, time.Minute, 90 * time.Second, time.Hour, 100 * time.Hour}

// HarnessC29ResolveRemainders: after one publish, consecutive resolutions of /ipns/<name><rem_i> through the
// same NameSystem (cache off / on, so that later ones are served from the entry the first one left behind):
// every result is the published value plus that request's own remainder - cached and uncached agree.
func HarnessC29ResolveRemainders() {
	zz29Regs = nil
	ctx := context.Background()
	sk := zz29Key()
	vals := zz29Paths()
	pid, err := peer.IDFromPrivateKey(sk)
	if err != nil {
		panic(err)
	}
	name := ipns.NameFromPeer(pid)
	rt := &zz29Routing{m: map[string][]byte{}}
	store := &zz29DS{m: map[string][]byte{}}
	nsOpts := []Option{WithDatastore(store), WithDNSResolverWithTTL(zz29NoDNS)}
	cacheSize := verifrt.NondetRange("cache", 0, 2)
	if cacheSize > 0 {
		nsOpts = append(nsOpts, WithCache(cacheSize))
	}
	ns, err := NewNameSystem(rt, nsOpts...)
	if err != nil {
		panic(err)
	}
	v := verifrt.NondetRange("v", 0, 1)
	ttl := zz29FewDurs[verifrt.NondetRange("ttl", 0, len(zz29FewDurs)-1)]
	if err := ns.Publish(ctx, sk, vals[v], PublishWithTTL(ttl)); err != nil {
		verifrt.Assert("C29.namesys-publish-succeeds", false)
		return
	}
	rems := []string{"", "/x/y", "/x/z/", "/w"}
	n := verifrt.Param("RESOLVES", 3)
	for i := 0; i < n; i++ {
		rem := rems[verifrt.NondetRange("rem", 0, len(rems)-1)]
		ask, err := path.NewPath(name.AsPath().String() + rem)
		if err != nil {
			panic(err)
		}
		res, err := ns.Resolve(ctx, ask)
		verifrt.Assert("C29.resolve-after-publish-succeeds", err == nil)
		if err != nil {
			continue
		}
		verifrt.Observe("resolved", res.Path.String())
		verifrt.Assert("C29.resolve-appends-own-remainder", res.Path.String() == vals[v].String()+rem)
	}
	verifrt.Reach("end")
}

// zz29FewDurs: the sub-pool used for publish TTLs and cache caps in the Publish/Resolve histories.
var zz29FewDurs = []time.Duration{0, time.Minute, 100 * time.Hour}

// HarnessC29Cache: cacheSet / cacheGet for every TTL, cap and age of the pool.
func HarnessC29Cache() {
	ns := &namesys{}
	if err := WithCache(1)(ns); err != nil {
		panic(err)
	}
	capIdx := verifrt.NondetRange("cap", -1, len(zz29Durs)-1)
	capped := capIdx >= 0
	var maxTTL time.Duration
	if capped {
		maxTTL = zz29Durs[capIdx]
		_ = WithMaxCacheTTL(maxTTL)(ns)
	}
	ttl := zz29Durs[verifrt.NondetRange("ttl", 0, len(zz29Durs)-1)]
	age := zz29Durs[verifrt.NondetRange("age", 1, len(zz29Durs)-1)]
	vals := zz29Paths()
	const key = "/ipns/name"

	ns.cacheSet(key, vals[0], ttl, time.Time{})
	// the lifetime the property grants the entry
	life := ttl
	if capped && maxTTL < life {
		life = maxTTL
	}
	stored := ttl > 0
	// let the entry age: move its end of life into the past by `age`
	if e, ok := ns.cache.Get(key); ok {
		e.cacheEOL = e.cacheEOL.Add(-age)
		ns.cache.Add(key, e)
	}

	got, gotTTL, _, ok := ns.cacheGet(key)
	verifrt.Observe("hit", ok)
	fresh := stored && life > 0 && age < life
	verifrt.Assert("C29.cache-hit-iff-fresh", ok == fresh)
	if ok {
		verifrt.Assert("C29.cache-returns-stored-value", got != nil && got.String() == vals[0].String())
		verifrt.Assert("C29.cache-ttl-within-entry-ttl", gotTTL > 0 && gotTTL <= ttl)
		verifrt.Assert("C29.cache-ttl-within-remaining-life", gotTTL <= life-age)
	} else {
		verifrt.Assert("C29.cache-miss-returns-nothing", got == nil && gotTTL == 0)
	}
	// a different value for the same name replaces the entry
	ns.cacheSet(key, vals[1], time.Hour, time.Time{})
	got, _, _, ok = ns.cacheGet(key)
	verifrt.Assert("C29.cache-update-replaces", ok == (!capped || maxTTL > 0))
	if ok {
		verifrt.Assert("C29.cache-update-value", got.String() == vals[1].String())
	}
	ns.cacheInvalidate(key)
	_, _, _, ok = ns.cacheGet(key)
	verifrt.Assert("C29.cache-invalidate-removes", !ok)
	verifrt.Reach("end")
}

func zz29IteD(c bool, a, b time.Duration) time.Duration {
	return time.Duration(verifrt.Ite(c, uint64(a), uint64(b)))
}
