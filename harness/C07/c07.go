package trickle

import (
	"context"
	"os"
	"time"

	"github.com/ipfs/boxo/internal/verifrt"
	dag "github.com/ipfs/boxo/ipld/merkledag"
	ft "github.com/ipfs/boxo/ipld/unixfs"
	balanced "github.com/ipfs/boxo/ipld/unixfs/importer/balanced"
	h "github.com/ipfs/boxo/ipld/unixfs/importer/helpers"
	pb "github.com/ipfs/boxo/ipld/unixfs/pb"
	cid "github.com/ipfs/go-cid"
	ipld "github.com/ipfs/go-ipld-format"
	mh "github.com/multiformats/go-multihash"
)

// configuration pool: CID builder x leaf representation
func zzCfg(cfg int) (cid.Prefix, bool) {
	switch cfg {
	case 0:
		return dag.V0CidPrefix(), false
	case 1:
		return dag.V1CidPrefix(), true
	case 2:
		return dag.V1CidPrefix(), false
	case 3:
		return dag.V0CidPrefix(), true // raw leaves get CIDv1 anyway
	}
	p := dag.V1CidPrefix()
	p.MhType = mh.SHA2_512
	p.MhLength = -1
	return p, true
}

const zzPermMask = os.FileMode(0x1FF) | os.ModeSetuid | os.ModeSetgid | os.ModeSticky

// zzAttrs: 0 = none, 1 = mode only, 2 = mtime only, 3 = both (symbolic), 4/5 = concrete corner-case times.
// Symbolic mode: any non-zero combination of permission, setuid, setgid and sticky bits. Symbolic mtime: seconds in
// [2^28, 2^35) (years 1978..3058, one varint length), any nanoseconds.
func zzAttrs(attrs int) (os.FileMode, time.Time) {
	var mode os.FileMode
	var mtime time.Time
	switch attrs {
	case 4: // concrete: before 1970 with a sub-second part (negative seconds)
		return 0o640, time.Unix(-5, 250000000)
	case 5: // concrete: year 2500, beyond the range of Time.UnixNano
		return 0, time.Unix(16725225600, 7)
	}
	if attrs&1 != 0 {
		mode = os.FileMode(verifrt.NondetU32("mode"))
		verifrt.Assume(mode&^zzPermMask == 0)
		verifrt.Assume(mode != 0)
	}
	if attrs&2 != 0 {
		s := verifrt.NondetI64("sec")
		verifrt.Assume(s >= 1<<28)
		verifrt.Assume(s < 1<<35)
		ns := int64(verifrt.NondetU32("nsec"))
		verifrt.Assume(ns < 1000000000)
		mtime = time.Unix(s, ns)
	}
	return mode, mtime
}

func zzBuild(layout int, ds *zzDag, chunks [][]byte, width int, prefix cid.Prefix, raw bool, mode os.FileMode, mtime time.Time) (ipld.Node, error) {
	dbp := h.DagBuilderParams{Dagserv: ds, Maxlinks: width, RawLeaves: raw, CidBuilder: prefix, FileMode: mode, FileModTime: mtime}
	db, err := dbp.New(&zzSplit{chunks: chunks})
	if err != nil {
		return nil, err
	}
	if layout == 0 {
		return balanced.Layout(db)
	}
	return Layout(db)
}

func zzPow(b, e int) int {
	r := 1
	for i := 0; i < e; i++ {
		r *= b
	}
	return r
}

func zzLeafDepths(z *zzNode, out []int) []int {
	if len(z.kids) == 0 {
		return append(out, z.depth)
	}
	for _, k := range z.kids {
		out = zzLeafDepths(k, out)
	}
	return out
}

// balanced: all leaves at equal depth, at most width children per node; documented fill: left-packed, the DAG is
// only as deep as needed.
func zzBalancedShape(root *zzNode, width int, wrapOK bool) {
	ds := zzLeafDepths(root, nil)
	eq := true
	for _, d := range ds {
		eq = eq && d == ds[0]
	}
	verifrt.Assert("C07.balanced-equal-leaf-depth", eq)
	if !eq {
		return
	}
	zzBalancedRec(root, width, ds[0], true, wrapOK)
}

func zzBalancedRec(z *zzNode, width int, leafDepth int, isRoot bool, wrapOK bool) {
	if len(z.kids) == 0 {
		return
	}
	verifrt.Assert("C07.balanced-width", len(z.kids) >= 1 && len(z.kids) <= width)
	hgt := leafDepth - z.depth // >= 1
	full := zzPow(width, hgt-1)
	packed := true
	for i, k := range z.kids {
		if i < len(z.kids)-1 {
			packed = packed && zzCountLeaves(k) == full
		}
	}
	if isRoot {
		// the DAG is only as deep as needed; a File node wrapped around a single leaf is tolerated only where the
		// leaf alone could not carry requested attributes (wrapOK)
		packed = packed && (len(z.kids) >= 2 || wrapOK)
	}
	verifrt.Assert("C07.balanced-packed", packed)
	for _, k := range z.kids {
		zzBalancedRec(k, width, leafDepth, false, false)
	}
}

func zzRunC07(layout int) {
	zzIntern = nil
	n := verifrt.NondetRange("n", verifrt.Param("NLO", 0), verifrt.Param("N", 5))
	width := verifrt.NondetRange("width", verifrt.Param("WLO", 2), verifrt.Param("W", 2))
	sizePat := verifrt.NondetRange("sizes", verifrt.Param("SZLO", 0), verifrt.Param("SZ", 1))
	fill := verifrt.NondetRange("fill", verifrt.Param("FILLLO", 0), verifrt.Param("FILL", 0))
	cfg := verifrt.NondetRange("cfg", verifrt.Param("CFGLO", 0), verifrt.Param("CFG", 1))
	attrs := verifrt.NondetRange("attrs", verifrt.Param("ATTRLO", 0), verifrt.Param("ATTR", 0))
	prefix, raw := zzCfg(cfg)
	mode, mtime := zzAttrs(attrs)
	chunks := zzChunks("chunk", n, sizePat, fill, 0)
	input := zzConcat(chunks)

	ds := &zzDag{}
	ret, err := zzBuild(layout, ds, chunks, width, prefix, raw, mode, mtime)
	verifrt.Assert("C07.import-succeeds", err == nil && ret != nil)
	if err != nil || ret == nil {
		verifrt.Reach("end")
		return
	}
	// the file is what the DAG service holds under the returned root CID
	rootNd, gerr := ds.Get(context.Background(), ret.Cid())
	verifrt.Assert("C07.root-stored", gerr == nil)
	if gerr != nil {
		rootNd = ret
	}
	cnt := 0
	root := zzLoad("C07", ds, rootNd, 0, &cnt)
	verifrt.Observe("nodes", cnt)
	verifrt.Observe("rootsize", root.size)
	verifrt.Observe("rootkids", len(root.kids))

	// sizes
	total := zzCheckSizes("C07", root)
	verifrt.Assert("C07.root-size-is-input-length", root.size == uint64(len(input)) && total == uint64(len(input)))
	// content
	zzCheckContent("C07", root, chunks)
	// kinds / CID builder
	leafType := pb.Data_DataType(ft.TFile)
	if layout == 1 {
		leafType = ft.TRaw
	}
	// a file that is a single node may have to be a UnixFS node whatever leaf type was requested: the empty file,
	// and a one-chunk file that must carry attributes (a raw node cannot)
	zzCheckKinds("C07", root, prefix, raw, leafType, n == 0 || (n == 1 && attrs != 0))

	// attributes: the root carries exactly what was requested, nothing below it carries any
	if attrs != 0 {
		verifrt.Assert("C07.root-can-carry-attributes", root.fs != nil)
	}
	if root.fs != nil {
		verifrt.Assert("C07.root-mode", root.fs.Mode()&zzPermMask == mode&zzPermMask && root.fs.Mode()&^zzPermMask == 0)
		verifrt.Assert("C07.root-mtime", root.fs.ModTime().Equal(mtime))
		verifrt.Observe("mode", uint32(root.fs.Mode()))
		verifrt.Observe("mtime_s", root.fs.ModTime().Unix())
	}
	zzCheckNoAttrs("C07", root, true)

	// shape
	if layout == 0 {
		zzBalancedShape(root, width, n <= 1 && attrs != 0 && raw)
	} else {
		verr := VerifyTrickleDagStructure(rootNd, VerifyParams{Getter: ds, Direct: width, LayerRepeat: depthRepeat, Prefix: &prefix, RawLeaves: raw})
		verifrt.Assert("C07.trickle-verify", verr == nil)
		verifrt.Assert("C07.trickle-root-is-file-node", root.fs != nil && root.fs.Type() == ft.TFile)
		zzTrickleShape("C07", root, -1, width)
		verifrt.Assert("C07.trickle-canonical-fill", zzTrickleFilled(root, width))
	}

	// determinism: a second import of the same input with the same parameters into a fresh service
	ds2 := &zzDag{}
	ret2, err2 := zzBuild(layout, ds2, chunks, width, prefix, raw, mode, mtime)
	verifrt.Assert("C07.deterministic-root-cid", err2 == nil && ret2 != nil && zzBytesEq(ret2.Cid().Bytes(), ret.Cid().Bytes()))
	verifrt.Reach("end")
}

// HarnessC07Balanced: balanced.Layout over the harness splitter.
func HarnessC07Balanced() { zzRunC07(0) }

// HarnessC07BalancedSym: same body, symbolic-content parameters (see spec.json).
func HarnessC07BalancedSym() { zzRunC07(0) }

// HarnessC07BalancedCfg: same body, configuration x attribute parameters.
func HarnessC07BalancedCfg() { zzRunC07(0) }

// HarnessC07TrickleCfg: same body, configuration x attribute parameters.
func HarnessC07TrickleCfg() { zzRunC07(1) }

// HarnessC07Trickle: trickle.Layout over the harness splitter.
func HarnessC07Trickle() { zzRunC07(1) }

// HarnessC07TrickleSym: same body, symbolic-content parameters.
func HarnessC07TrickleSym() { zzRunC07(1) }
